/-
C12 — redemption programs only ever carry well-typed witnesses.

Model (`Routes.lean`, what the driver runs): the routes by which witness data reaches a redemption
program, as functions from a plan typed by `Prog.infer` and candidate values:
`routeU` (`ConstructNode::finalize_unpruned`), `forestRoute` (`Forest::to_witness_node` + the same),
`decodeRoute` (`RedeemNode::decode`'s witness stream), `routeP` (`finalize_pruned`: `routeU`, then
re-inference of the pruned program and `Value::prune` of the remaining values, for an arbitrary set
`Cut` of removed branches), `finalizePruned` (`RoutesExec.lean`: `routeP` for the cut the model's own
run of the unpruned program determines).  `r : Witnesses` is what the resulting redemption program carries
(node index, value); the invariant is `WitnessTyped ar r`: every value `HasTy` the inferred target
type of its node.  `Covers idx r`: exactly one value per witness node.
-/
import SimplicityModel.RoutesProps
import SimplicityModel.RoutesExecProps
import SimplicityModel.RoutesSerial
import SimplicityModel.Prog.JetsElements
import SimplicityModel.Prog.JetsElementsProps

namespace Props.C12
open Routes Prog BM4 Wire

/-! ### route 1: construction-time witnesses + `finalize_unpruned` -/

/-- **Ok or error.**  Whenever `finalize_unpruned` returns a redemption program, it carries exactly
one value per witness node and each value has exactly the inferred target type of its node; the only
other outcomes are an error (`err`; `illTyped`/`fuel` are not verdicts on witnesses) — never the
`panic` outcome. -/
theorem finalize_unpruned_ok_or_error (jt : JetTypes) (p : Plan) (program : Bool)
    (cand : Nat → Option Val) :
    routeU jt p program cand ≠ .panic ∧
    ∀ ar r, routeU jt p program cand = .ok ar r →
      infer jt p program = .ok ar ∧ Covers (witnessIdx p) r ∧ WitnessTyped ar r := by
  refine ⟨routeU_ne_panic _ _ _ _, fun ar r h => ?_⟩
  obtain ⟨hi, hf⟩ := routeU_ok h
  exact ⟨hi, convertAll_spec hf⟩

/-- **Which value.**  The value at witness node `i` is `Value::prune(candidate, target type)`
(so a candidate that differs from the target type only on the unused side of a sum is converted,
never copied), or the zero value of the target type when no candidate was given. -/
theorem finalize_unpruned_values (jt : JetTypes) (p : Plan) (program : Bool) (cand : Nat → Option Val)
    (ar : Arrows) (r : Witnesses) (h : routeU jt p program cand = .ok ar r) :
    ∀ iv ∈ r, match cand iv.1 with
      | some v => prune v (tgtOf ar iv.1) = some iv.2
      | none => iv.2 = zero (tgtOf ar iv.1) := by
  intro iv hm
  have h1 := convertAll_values (routeU_ok h).2 iv hm
  unfold convertOne at h1
  cases hc : cand iv.1 with
  | none => rw [hc] at h1; simp only [Option.some.injEq] at h1; simp only; rw [← h1]
  | some v =>
    rw [hc] at h1
    simp only [Option.map_eq_some_iff] at h1
    obtain ⟨w, hw, e⟩ := h1
    simp only; rw [hw, ← e]

/-- **Not everything is rejected.**  If every candidate is a value of some type above its node's
target type in the prune order (in particular: of exactly the target type), the route succeeds. -/
theorem finalize_unpruned_accepts (jt : JetTypes) (p : Plan) (program : Bool) (cand : Nat → Option Val)
    (ar : Arrows) (hi : infer jt p program = .ok ar)
    (hc : ∀ i v, cand i = some v → ∃ t, HasTy v t ∧ Routes.Le (tgtOf ar i) t) :
    ∃ r, routeU jt p program cand = .ok ar r := by
  have key : ∀ idx : List Nat, ∃ r, convertAll ar cand idx = some r := by
    intro idx
    induction idx with
    | nil => exact ⟨[], rfl⟩
    | cons i is ih =>
      obtain ⟨xs, hxs⟩ := ih
      have : ∃ x, convertOne ar cand i = some x := by
        unfold convertOne
        cases hci : cand i with
        | none => exact ⟨_, rfl⟩
        | some v =>
          obtain ⟨t, ht, hle⟩ := hc i v hci
          obtain ⟨w, hw⟩ := prune_of_le ht hle
          exact ⟨(i, w), by simp [hw]⟩
      obtain ⟨x, hx⟩ := this
      exact ⟨x :: xs, by simp [convertAll, hx, hxs]⟩
  obtain ⟨r, hr⟩ := key (witnessIdx p)
  exact ⟨r, by unfold routeU finalizeUnpruned; rw [hi]; simp only; rw [hr]⟩

/-- the value inserted for an unpopulated witness node has the node's type -/
theorem zero_hasTy (t : Ty) : HasTy (zero t) t := Routes.zero_hasTy t

/-! ### route 3: the human-readable witness map -/

/-- **Ok or error**, for `Forest::to_witness_node(&map)` followed by `finalize_unpruned`: whatever
the map contains (values of any type, unknown names, missing names) and whatever names the witness
nodes carry. -/
theorem forest_route_ok_or_error (jt : JetTypes) (p : Plan) (program : Bool)
    (names : Nat → Option String) (m : String → Option Val) :
    forestRoute jt p program names m ≠ .panic ∧
    ∀ ar r, forestRoute jt p program names m = .ok ar r →
      infer jt p program = .ok ar ∧ Covers (witnessIdx p) r ∧ WitnessTyped ar r :=
  finalize_unpruned_ok_or_error jt p program (forestCand names m)

/-! ### route 4: decoding -/

/-- **Ok or error**, for the witness stream of `RedeemNode::decode`: an accepted stream yields one
value per witness node, each of its node's inferred target type, and the stream is the canonical one:
the compact encodings of these values followed by less than 8 zero bits. -/
theorem decode_route_ok_or_error (jt : JetTypes) (p : Plan) (bits : List Bool) :
    decodeRoute jt p bits ≠ .panic ∧
    ∀ ar r, decodeRoute jt p bits = .ok ar r →
      infer jt p true = .ok ar ∧ Covers (witnessIdx p) r ∧ WitnessTyped ar r ∧
      ∃ rest, bits = encW r ++ rest ∧ closeOk rest = true := by
  constructor
  · unfold decodeRoute
    cases infer jt p true with
    | ok ar0 =>
      simp only
      cases readAll ar0 (witnessIdx p) bits with
      | none => simp
      | some q => cases hq : closeOk q.2 <;> simp [hq]
    | _ => simp
  · intro ar r h
    obtain ⟨hi, rest, hr, hcl⟩ := decodeRoute_ok h
    obtain ⟨hc, ht, e⟩ := readAll_spec hr
    exact ⟨hi, hc, ht, rest, e, hcl⟩

/-- **Own serialisation decodes.**  The witness stream written for a redemption program that
satisfies the invariant is accepted by the decoder and gives back the same values. (The converse
is what went wrong before the repair: an ill-typed value writes a stream of the wrong length.) -/
theorem serialise_decodes (jt : JetTypes) (p : Plan) (ar : Arrows) (r : Witnesses)
    (hi : infer jt p true = .ok ar) (hc : Covers (witnessIdx p) r) (ht : WitnessTyped ar r) :
    decodeRoute jt p (serialise r) = .ok ar r := by
  unfold decodeRoute serialise padToByte
  rw [hi]
  simp only
  rw [readAll_encW _ hc ht]
  simp only
  rw [closeOk_padding _ (by omega)]
  simp

/-- in particular for what `finalize_unpruned` returns -/
theorem finalize_unpruned_serialisation_decodes (jt : JetTypes) (p : Plan) (cand : Nat → Option Val)
    (ar : Arrows) (r : Witnesses) (h : routeU jt p true cand = .ok ar r) :
    decodeRoute jt p (serialise r) = .ok ar r := by
  obtain ⟨hi, hc, ht⟩ := (finalize_unpruned_ok_or_error jt p true cand).2 ar r h
  exact serialise_decodes jt p ar r hi hc ht

/-! ### route 2: `finalize_pruned`

Full statement: *`finalize_pruned(env)` = `finalize_unpruned`, execution on the Bit Machine with a
tracker, removal of the case branches the tracker did not see, re-inference, `Value::prune` of the
witness values — returns a program satisfying the invariant or an error, and never panics.*
Proved below for **every** set of removed branches and nodes (`Cut`), hence for the one an execution
determines, and for both inference passes of `prune_with_tracker` (`leak`, see `Routes.lean`).  These
parametric theorems stay `_partial` (the cut is a parameter); the section "route 2 with the run
modelled" below instantiates the cut with the model's own run (`Routes.finalizePruned`) and covers
the Bit Machine run: `finalize_pruned_ok_or_error`, `finalize_pruned_never_panics`,
`finalize_pruned_values`. -/

/-- pruned types are below the original ones (fewer constraints ⇒ smaller least solution) -/
theorem pruned_types_smaller (jt : JetTypes) (leak : Bool) (p : Plan) (program : Bool) (c : Cut)
    (ar ar' : Arrows)
    (h : infer jt p program = .ok ar) (h' : inferCut jt leak p program c = .ok ar') :
    ∀ i, Routes.Le (tgtOf ar' i) (tgtOf ar i) :=
  inferCut_le h h'

/-- **Ok or error, after pruning**: the pruned program carries one value per remaining witness
node, each of the node's *re-inferred* target type. -/
theorem finalize_pruned_ok_or_error_partial (jt : JetTypes) (leak : Bool) (p : Plan) (program : Bool)
    (cand : Nat → Option Val) (c : Cut) (ar' : Arrows) (r' : Witnesses)
    (h : routeP jt leak p program cand c = .ok ar' r') :
    inferCut jt leak p program c = .ok ar' ∧ Covers ((witnessIdx p).filter c.keep) r' ∧ WitnessTyped ar' r' := by
  unfold routeP at h
  cases hu : routeU jt p program cand with
  | ok ar r =>
    rw [hu] at h
    simp only at h
    have hcov := ((finalize_unpruned_ok_or_error jt p program cand).2 ar r hu).2.1
    cases hi : inferCut jt leak p program c with
    | ok ar0 =>
      rw [hi] at h
      simp only at h
      cases hp : pruneValues ar0 c.keep r with
      | none => rw [hp] at h; cases h
      | some r0 =>
        rw [hp] at h
        simp only [Outcome.ok.injEq] at h
        obtain ⟨rfl, rfl⟩ := h
        obtain ⟨h1, h2⟩ := pruneValues_spec hp
        exact ⟨rfl, by unfold Covers at hcov ⊢; rw [h1, hcov], h2⟩
    | typeError => rw [hi] at h; cases h
    | occurs => rw [hi] at h; cases h
    | badPlan => rw [hi] at h; cases h
    | fuel => rw [hi] at h; cases h
  | err => rw [hu] at h; cases h
  | illTyped => rw [hu] at h; cases h
  | fuel => rw [hu] at h; cases h
  | panic => rw [hu] at h; cases h

/-- **The `.expect(..)`s of pruning never fire**: neither inference pass (`leak = true`: `Pruner`,
`leak = false`: `Retyper`) can fail ("pruned types should check out if unpruned types check out")
and every remaining value can be pruned to its new type ("pruned type should be shrunken version of unpruned type"), whatever the
candidates were and whatever is cut. -/
theorem finalize_pruned_never_panics_partial (jt : JetTypes) (leak : Bool) (p : Plan) (program : Bool)
    (cand : Nat → Option Val) (c : Cut) : routeP jt leak p program cand c ≠ .panic := by
  unfold routeP
  cases hu : routeU jt p program cand with
  | ok ar r =>
    simp only
    obtain ⟨hi, _, ht⟩ := (finalize_unpruned_ok_or_error jt p program cand).2 ar r hu
    rcases inferCut_accepts leak c hi with ⟨ar', h'⟩ | h'
    · rw [h']
      simp only
      obtain ⟨r', hr'⟩ := pruneValues_total (keep := c.keep) (inferCut_le hi h') ht
      rw [hr']
      simp
    · rw [h']; simp
  | err => simp
  | illTyped => simp
  | fuel => simp
  | panic => exact absurd hu (routeU_ne_panic _ _ _ _)

/-- **Which value after pruning**: the candidate pruned *directly* to the re-inferred type (two
prunes = one), or the zero value of the re-inferred type. -/
theorem finalize_pruned_values_partial (jt : JetTypes) (leak : Bool) (p : Plan) (program : Bool)
    (cand : Nat → Option Val) (c : Cut) (ar' : Arrows) (r' : Witnesses)
    (h : routeP jt leak p program cand c = .ok ar' r') :
    ∀ x ∈ r', match cand x.1 with
      | some v => prune v (tgtOf ar' x.1) = some x.2
      | none => x.2 = zero (tgtOf ar' x.1) := by
  have hi' := (finalize_pruned_ok_or_error_partial jt leak p program cand c ar' r' h).1
  unfold routeP at h
  cases hu : routeU jt p program cand with
  | ok ar r =>
    rw [hu, hi'] at h
    simp only at h
    cases hp : pruneValues ar' c.keep r with
    | none => rw [hp] at h; cases h
    | some r0 =>
      rw [hp] at h
      simp only [Outcome.ok.injEq, true_and] at h
      subst h
      obtain ⟨hi, _, _⟩ := (finalize_unpruned_ok_or_error jt p program cand).2 ar r hu
      have hle := inferCut_le hi hi'
      intro x hx
      obtain ⟨iv, hiv, e, hpr⟩ := pruneValues_values hp x hx
      have hv := finalize_unpruned_values jt p program cand ar r hu iv hiv
      rw [e] at hv
      cases hc : cand x.1 with
      | none =>
        rw [hc] at hv
        simp only at hv ⊢
        rw [hv, prune_zero (hle x.1)] at hpr
        exact (Option.some.inj hpr).symm
      | some v =>
        rw [hc] at hv
        simp only at hv ⊢
        rw [← prune_prune v _ _ _ hv (hle x.1)]
        exact hpr
  | err => rw [hu] at h; cases h
  | illTyped => rw [hu] at h; cases h
  | fuel => rw [hu] at h; cases h
  | panic => rw [hu] at h; cases h

/-! ### route 2 with the run modelled: `finalize_pruned` as one function

`Routes.finalizePruned` (`RoutesExec.lean`) is `finalize_pruned(env)` with nothing supplied from
outside but the environment: `finalize_unpruned`; the unpruned program elaborated to the Bit
Machine model's term and run on the unit input with the tracker (`trackedRun`: `Prog.elabNode`,
`Prog.evalT`); run failed ⇒ error; run succeeded ⇒ the `prune_case` table on the tracker's record
(`sidesOf`), reachability (`cutOf`), re-inference, `Value::prune` of the remaining values (`routeP`).
`RunEnv` = what the run depends on besides the program: node identities (IHR, abstract), commitment
roots for `disconnect`, the jets of the environment.  Hypothesis `planOK p`: children precede
parents, no wire-only node, words have `2^n` bits — what the plan parser guarantees. -/

/-- **Ok or error, `finalize_pruned` as a whole.**  The outcome is never `panic`.  A returned
program is the one pruning by the record `tr` of the model's own successful run gives: its types
are the re-inferred ones, it carries exactly one value per remaining witness node, each of the
node's re-inferred target type.  An error is returned exactly when `finalize_unpruned` reports one
or the run fails; the program always has a term (`illTyped` only when the plan has no typing). -/
theorem finalize_pruned_ok_or_error (jt : JetTypes) (leak : Bool) (p : Plan) (cand : Nat → Option Val)
    (re : RunEnv) (hok : planOK p = true) :
    finalizePruned jt leak p true cand re ≠ .panic ∧
    (∀ ar' r', finalizePruned jt leak p true cand re = .ok ar' r' →
      ∃ ar r tr, routeU jt p true cand = .ok ar r ∧ trackedRun p ar r re = .ok tr ∧
        inferCut jt leak p true (cutOf p (sidesOf re.ids tr.sides)) = .ok ar' ∧
        Covers ((witnessIdx p).filter (cutOf p (sidesOf re.ids tr.sides)).keep) r' ∧
        WitnessTyped ar' r') ∧
    (finalizePruned jt leak p true cand re = .err ↔
      routeU jt p true cand = .err ∨
      ∃ ar r k, routeU jt p true cand = .ok ar r ∧ trackedRun p ar r re = .failed k) ∧
    (finalizePruned jt leak p true cand re = .illTyped ↔ routeU jt p true cand = .illTyped) := by
  cases hu : routeU jt p true cand with
  | ok ar r =>
    obtain ⟨t, _, _, hm⟩ := trackedRun_machine re hok hu
    cases hr : trackedRun p ar r re with
    | ok tr =>
      rw [finalizePruned_of_ok hu hr]
      obtain ⟨hP1, hP2⟩ := routeP_of_ok (leak := leak) (cutOf p (sidesOf re.ids tr.sides)) hu
      refine ⟨finalize_pruned_never_panics_partial jt leak p true cand _, ?_, ?_, ?_⟩
      · intro ar' r' h
        exact ⟨ar, r, tr, rfl, hr, finalize_pruned_ok_or_error_partial jt leak p true cand _ ar' r' h⟩
      · constructor
        · intro h; exact absurd h hP1
        · rintro (h | ⟨ar1, r1, k, h1, h2⟩)
          · cases h
          · simp only [Outcome.ok.injEq] at h1
            obtain ⟨rfl, rfl⟩ := h1
            rw [hr] at h2; cases h2
      · constructor
        · intro h; exact absurd h hP2
        · intro h; cases h
    | failed k =>
      rw [finalizePruned_of_failed hu hr]
      refine ⟨by simp, (fun _ _ h => by cases h), ?_, ?_⟩
      · exact ⟨fun _ => .inr ⟨ar, r, k, rfl, hr⟩, fun _ => rfl⟩
      · constructor <;> intro h <;> cases h
    | noTerm => rw [hr] at hm; exact hm.elim
  | err =>
    rw [finalizePruned_of_not_ok (by intro ar r h; rw [hu] at h; cases h), hu]
    refine ⟨by simp, (fun _ _ h => by cases h), ⟨fun _ => .inl rfl, fun _ => rfl⟩, ?_⟩
    constructor <;> intro h <;> cases h
  | illTyped =>
    rw [finalizePruned_of_not_ok (by intro ar r h; rw [hu] at h; cases h), hu]
    refine ⟨by simp, (fun _ _ h => by cases h), ⟨(fun h => by cases h), ?_⟩, by simp⟩
    rintro (h | ⟨_, _, _, h, _⟩) <;> cases h
  | fuel =>
    rw [finalizePruned_of_not_ok (by intro ar r h; rw [hu] at h; cases h), hu]
    refine ⟨by simp, (fun _ _ h => by cases h), ⟨(fun h => by cases h), ?_⟩, ?_⟩
    · rintro (h | ⟨_, _, _, h, _⟩) <;> cases h
    · constructor <;> intro h <;> cases h
  | panic => exact absurd hu (routeU_ne_panic _ _ _ _)

/-- **Never a panic, the Bit Machine run included.**  Besides the `.expect(..)`s of pruning
(`finalize_pruned_never_panics_partial`): the program `finalize_unpruned` hands to the Bit Machine
has a term `t : 1 ⊢ 1` that is well typed (`WT`), so the machine `for_program` sizes and `exec` runs
(`BM4.execProgram`, C05's model, in which every out-of-bounds access, missing frame and width
mismatch is the outcome `crash`) does not crash; it returns an output exactly when the evaluator
with the tracker — the run `finalizePruned` prunes by — succeeds, and fails exactly when that fails. -/
theorem finalize_pruned_never_panics (jt : JetTypes) (leak : Bool) (p : Plan) (cand : Nat → Option Val)
    (re : RunEnv) (hok : planOK p = true) :
    finalizePruned jt leak p true cand re ≠ .panic ∧
    ∀ ar r, routeU jt p true cand = .ok ar r →
      ∃ t : Term .one .one,
        Prog.elabNode (envOf p ar r re) (p.size + 1) (p.size - 1) = some ⟨.one, .one, t⟩ ∧ WT t ∧
        execProgram t .unit ≠ .error .crash ∧
        ((∃ bits, execProgram t .unit = .ok bits) ↔ ∃ tr, trackedRun p ar r re = .ok tr) ∧
        (execProgram t .unit = .error .fail ↔ ∃ k, trackedRun p ar r re = .failed k) := by
  refine ⟨(finalize_pruned_ok_or_error jt leak p cand re hok).1, fun ar r hu => ?_⟩
  obtain ⟨t, helab, hwt, hm⟩ := trackedRun_machine re hok hu
  refine ⟨t, helab, hwt, ?_⟩
  cases hr : trackedRun p ar r re with
  | ok tr =>
    rw [hr] at hm
    obtain ⟨bits, hb⟩ := hm
    rw [hb]
    exact ⟨by simp, ⟨fun _ => ⟨tr, rfl⟩, fun _ => ⟨bits, rfl⟩⟩, by simp⟩
  | failed k =>
    rw [hr] at hm
    simp only at hm
    rw [hm]
    exact ⟨by simp, by simp, ⟨fun _ => ⟨k, rfl⟩, fun _ => rfl⟩⟩
  | noTerm => rw [hr] at hm; exact hm.elim

/-- **Which value, `finalize_pruned` as a whole**: the candidate pruned directly to the type the
pruned program gives the node, or the zero value of that type. -/
theorem finalize_pruned_values (jt : JetTypes) (leak : Bool) (p : Plan) (cand : Nat → Option Val)
    (re : RunEnv) (ar' : Arrows) (r' : Witnesses)
    (h : finalizePruned jt leak p true cand re = .ok ar' r') :
    ∀ x ∈ r', match cand x.1 with
      | some v => prune v (tgtOf ar' x.1) = some x.2
      | none => x.2 = zero (tgtOf ar' x.1) := by
  unfold finalizePruned at h
  cases hu : routeU jt p true cand with
  | ok ar r =>
    rw [hu] at h
    simp only at h
    cases hr : trackedRun p ar r re with
    | ok tr =>
      rw [hr] at h
      exact finalize_pruned_values_partial jt leak p true cand _ ar' r' h
    | failed k => rw [hr] at h; cases h
    | noTerm => rw [hr] at h; cases h
  | err => rw [hu] at h; cases h
  | illTyped => rw [hu] at h; cases h
  | fuel => rw [hu] at h; cases h
  | panic => rw [hu] at h; cases h

/-! ### the pruned program's own serialisation

Full statement: *the serialisation of the program `finalize_pruned` returns decodes, to the same
values* — `RedeemNode::decode` infers the **principal** types of the pruned program and reads the
witness stream with them.  `ownSerialisationDecodes` says exactly that in the model (principal
types = `inferCut` without the constraints of removed nodes).

* With re-inference in a context of its own (`leak = false`, the code as it is: `Routes.codeLeaks`)
  it holds for every plan, candidates and cut.  `_partial` only because "the decoder's types are
  the principal types of the pruned program" is tied by the correspondence of route D on every
  pruned program's own serialisation (node order and variable numbering differ), not proved.
* With the types of the first pass (`leak = true`: the `Pruner` builds the branches it is about to
  hide in the same inference context as the rest — before the repair these were the result) it is
  **false**: when a witness node is used both in a removed branch and in the remaining program,
  the removed branch's constraints keep the node's type larger than the pruned program's principal
  type; the value is pruned to that larger type and the stream is longer than the decoder reads.
  Counterexample below; on the tree before the repair the real code returned exactly this program
  (harness class `pruned-witness-type-not-principal`, kept as a fixed case). -/

theorem finalize_pruned_serialisation_decodes_partial (jt : JetTypes) (p : Plan) (program : Bool)
    (cand : Nat → Option Val) (c : Cut) :
    ownSerialisationDecodes jt p program c (routeP jt false p program cand c) = true := by
  cases h : routeP jt false p program cand c with
  | ok ar' r' =>
    obtain ⟨hi, hc, ht⟩ := finalize_pruned_ok_or_error_partial jt false p program cand c ar' r' h
    unfold ownSerialisationDecodes serialise padToByte
    rw [hi]
    simp only
    rw [readAll_encW _ hc ht]
    simp only
    rw [closeOk_padding _ (by omega)]
    simp
  | err => rfl
  | illTyped => rfl
  | fuel => rfl
  | panic => rfl

/-- the same statement for `finalize_pruned` as a whole (the cut is the one of the model's run) -/
theorem finalize_pruned_own_stream_decodes_partial (jt : JetTypes) (p : Plan) (cand : Nat → Option Val)
    (re : RunEnv) (ar : Arrows) (r : Witnesses) (tr : Prog.Trace)
    (hu : routeU jt p true cand = .ok ar r) (hr : trackedRun p ar r re = .ok tr) :
    ownSerialisationDecodes jt p true (cutOf p (sidesOf re.ids tr.sides))
      (finalizePruned jt false p true cand re) = true := by
  rw [finalizePruned_of_ok hu hr]
  exact finalize_pruned_serialisation_decodes_partial jt p true cand _

/-- **Own serialisation decodes — against the decoder itself** (`Prog.decodeRedeem`, the model of
`RedeemNode::decode` of C01/C02, and `Prog.encode`, the model of `to_vec_with_witness`).

Setting: `finalize_unpruned` returned a program (`hu`), the model's run of it succeeded with record
`tr` (`hr`), and `finalizePruned` returned arrows `ar'` and values `r'` on the indices of the unpruned
plan (`h`; types from the second inference pass, `leak = false`: the code as it is).  The serialised
program is given in the decoder's form: a non-empty list `N` of fewer than 2^32 well-formed wire nodes
in canonical order that converts to a plan `q` without open `disconnect`, and `q` is the pruned
program renumbered (`Routes.Renumbers`): its visible nodes are exactly the remaining nodes
(`cutOf … keep`) of the pruned plan (`Prog.prunePlan` by the run's record), with the children renamed
by `σ`; the other entries of `q` are hidden nodes.  The remaining hypotheses concern `q` alone: the
driver's unification fuel suffices for it, its annotations exist (jets have roots and costs), and
**its identity roots are pairwise different** — the decoder's sharing rule, the hypothesis that
cannot be dropped: a program with two nodes of one identity root is rejected by `RedeemNode::decode`
(the encoder would have written one node; then `q` is a quotient, not a renumbering).

Then (1) type inference on `q` — what the decoder does — gives every visible node exactly the arrow
the pruned program has at the corresponding node: *the decoder's types are the pruned program's
types*; (2) `encode` writes `N` and the compact encodings of the values `r'` in `q`'s node order;
(3) `decodeRedeem` accepts these two byte strings and returns `q`, those arrows, those annotations
and, as witness values, exactly the values `r'`.

Proof: `Routes.infer_renumbered` (both typings are *least typings*, a notion free of variable
numbering: `inferM_typing`, `inferM_least`, `sol_of_typing`) + C01's `Prog.roundtrip_canonical`.
What is *not* proved is that the encoder's node list for the pruned program is such an `N` for every
program (C01's open part for programs that are not yet in canonical order); the harness sends every
pruned program's own bytes through `RedeemNode::decode` and the model's decoder. -/
theorem finalize_pruned_serialisation_decodes (tb : Tables) (hof : ∀ j, tb.ofName (tb.nameOf j) = some j)
    (p : Plan) (cand : Nat → Option Val) (re : RunEnv) (hok : planOK p = true)
    (ar : Arrows) (r : Witnesses) (tr : Prog.Trace) (ar' : Arrows) (r' : Witnesses)
    (hu : routeU tb.jetTy p true cand = .ok ar r) (hr : trackedRun p ar r re = .ok tr)
    (h : finalizePruned tb.jetTy false p true cand re = .ok ar' r')
    (N : List (WNode tb.J)) (q : Plan) (σ σ' : Nat → Nat) (cm : Nat → Nat)
    (hN0 : N ≠ []) (hNlt : N.length < 2 ^ 32) (hNok : NodesOk 0 N)
    (hcan : canonicalOk N.toArray = true) (hconv : convert tb.nameOf N.toArray = .ok q)
    (hdisc : ∀ nd ∈ q.toList, ∀ a, nd ≠ .disconnect a none)
    (hR : Renumbers σ σ' q (Prog.prunePlan tr.sides re.ids cm p) (cutOf p (sidesOf re.ids tr.sides)).keep)
    (hfuel : infer tb.jetTy q true ≠ .fuel)
    (han : ∀ arQ, infer tb.jetTy q true = .ok arQ →
      ∃ an, annots tb.jetCmr tb.jetCost q arQ (fun j => witBits r' (σ j)) = some an ∧
        (ihrList q an).eraseDups.length = (ihrList q an).length) :
    ∃ arQ an,
      infer tb.jetTy q true = .ok arQ ∧
      (∀ j nd, q[j]? = some nd → isHidden nd = false →
        srcOf arQ j = srcOf ar' (σ j) ∧ tgtOf arQ j = tgtOf ar' (σ j)) ∧
      encode tb.jc tb.ofName q an true (fun j => witBits r' (σ j)) =
        some (padToByte (encProgram tb.jc N),
          padToByte ((wIdx q.toList 0).filterMap fun j => witBits r' (σ j)).flatten) ∧
      decodeRedeem tb (padToByte (encProgram tb.jc N))
          (padToByte ((wIdx q.toList 0).filterMap fun j => witBits r' (σ j)).flatten) =
        .ok ⟨q, arQ, (wIdx q.toList 0).filterMap (fun j => (witBits r' (σ j)).map fun b => (j, b)), an⟩ :=
  finalizePruned_decodes tb hof p cand re hok ar r tr ar' r' hu hr h N q σ σ' cm hN0 hNlt hNok hcan hconv
    hdisc hR hfuel han

/-- the ingredient that closes "the decoder's types are the pruned program's types": the types of a
program do not depend on the numbering of its nodes -/
theorem types_independent_of_numbering (jt : JetTypes) (σ σ' : Nat → Nat) (q P : Plan) (mask : Nat → Bool)
    (hR : Renumbers σ σ' q P mask)
    (hshape : ∀ i nd, P[i]? = some nd → mask i = true → shapeOK nd = true ∧ ∀ c ∈ nd.children, c < P.size)
    (arP arQ : Arrows) (hP : Prog.inferM jt P mask true = .ok arP) (hQ : infer jt q true = .ok arQ) :
    ∀ j nd, q[j]? = some nd → isHidden nd = false →
      srcOf arQ j = srcOf arP (σ j) ∧ tgtOf arQ j = tgtOf arP (σ j) :=
  infer_renumbered hR hshape hP hQ

/-- `comp (pair L(ε) unit) (case (take (comp w unit)) (drop (comp (comp w pin₂) unit)))`: the witness
node `w` (index 0) is used in the executed left branch, where nothing constrains its type, and in
the right branch, which pins it to `2`. -/
def sharedPlan : Plan := #[.witness, .unit, .comp 0 1, .take 2, .unit, .take 4, .injl 5, .unit, .take 7,
  .injr 8, .case 6 9, .iden, .unit, .pair 11 12, .comp 13 10, .comp 0 14, .unit, .comp 15 16, .drop 17,
  .case 3 18, .unit, .injl 20, .unit, .pair 21 22, .comp 23 19]
/-- the right branch of the case node 19 is removed -/
def sharedCut : Cut := cutOf sharedPlan fun i => if i = 19 then some false else none
def sharedCand : Nat → Option Val := fun i => if i = 0 then some (.inr .unit) else none

def carries (o : Outcome) (ws : Witnesses) : Bool :=
  match o with
  | .ok _ r => r == ws
  | _ => false

def tgtIs (o : Outcome) (i : Nat) (t : Ty) : Bool :=
  match o with
  | .ok ar _ => tgtOf ar i == t
  | _ => false

/-- **Why the second pass is needed**: with the first pass's types the pruned program keeps
`w : 1 → 2` with the value `1`, its principal type is `1 → 1`, and its witness stream `1000 0000` is
rejected by the decoder (non-zero trailing bits). -/
theorem finalize_pruned_serialisation_counterexample :
    tgtIs (routeP (fun _ => none) true sharedPlan true sharedCand sharedCut) 0 (.sum .one .one) = true ∧
    carries (routeP (fun _ => none) true sharedPlan true sharedCand sharedCut) [(0, .inr .unit)] = true ∧
    tgtIs (routeP (fun _ => none) false sharedPlan true sharedCand sharedCut) 0 .one = true ∧
    ownSerialisationDecodes (fun _ => none) sharedPlan true sharedCut
      (routeP (fun _ => none) true sharedPlan true sharedCand sharedCut) = false := by
  decide +kernel

/-! ### execution

Full statement: *executing a redemption program obtained by any route writes, at every witness
node, exactly as many bits as the node's target type is wide (and `BitMachine::exec` computes the
semantics).*  `witness_write_width_partial` is the value-level fact (the padded encoding of every
carried value is exactly as long as the bit width of the node's target type); `witness_write_width`
is the statement on the Bit Machine model; `finalize_unpruned_executes` is "`exec` computes the
semantics" for the program `finalize_unpruned` returns (the tie plan + values → typed term,
`Routes.elab_total`, is a theorem now).  For the *pruned* program, "same behaviour" is C08's subject. -/
theorem witness_write_width_partial (ar : Arrows) (r : Witnesses) (h : WitnessTyped ar r) :
    ∀ iv ∈ r, (padded (tgtOf ar iv.1) iv.2).length = (tgtOf ar iv.1).bw :=
  fun iv hm => padded_length (h iv hm)

/-- **What a witness node writes** (the full statement, on the Bit Machine model of C05).  Let a
program — plan `p` with arrows `ar` — carry one value per listed witness node, each of its node's
target type (the invariant; `idx` = all witness nodes for `finalize_unpruned`/decoding, the
remaining ones after pruning).  Then every carried `(i, v)`

* elaborates, at node `i`, to the machine's `witness` instruction with exactly the value `v` at
  exactly the node's arrow, and
* executed in any machine state that holds the output area of that arrow's target in its write
  frame (`Pre`, `Cap`: the state every well-typed run reaches the node in, `run_spec`), succeeds,
  advances the write cursor by exactly `bw(target type)`, writes exactly the padded encoding of
  `v` — which is `bw(target type)` bits long — and changes no other cell. -/
theorem witness_write_width (p : Plan) (ar : Arrows) (idx : List Nat) (r : Witnesses) (re : RunEnv)
    (hsz : ar.size = p.size) (hc : Covers idx r) (hn : idx.Nodup)
    (hidx : ∀ i ∈ idx, p[i]? = some .witness) (ht : WitnessTyped ar r) :
    ∀ iv ∈ r, ∀ f : Nat,
      Prog.elabNode (envOf p ar r re) (f + 1) iv.1 =
        some ⟨srcOf ar iv.1, tgtOf ar iv.1, Term.witness iv.2⟩ ∧
      ∀ (m : M) (inp : Val), Pre m (srcOf ar iv.1) (tgtOf ar iv.1) inp →
        Cap m (Term.witness (a := srcOf ar iv.1) (b := tgtOf ar iv.1) iv.2) →
        ∃ m', run (Term.witness (a := srcOf ar iv.1) (b := tgtOf ar iv.1) iv.2) m = .ok m' ∧
          m'.write = advW (tgtOf ar iv.1).bw m.write ∧
          (padded (tgtOf ar iv.1) iv.2).length = (tgtOf ar iv.1).bw ∧
          slice m'.cells (wcur m) (tgtOf ar iv.1).bw = padded (tgtOf ar iv.1) iv.2 ∧
          ∀ i, (i < wcur m ∨ wcur m + (tgtOf ar iv.1).bw ≤ i) → m'.cells i = m.cells i := by
  intro iv hm f
  refine ⟨witness_elab re hsz hc hn hidx ht hm f, fun m inp pre hcap => ?_⟩
  obtain ⟨m', h1, h2, _, _, h5, h6, h7⟩ := witness_step iv.2 (ht iv hm) m inp pre hcap
  exact ⟨m', h1, h2, h5, h6, h7⟩

/-- … for what `finalize_unpruned` returns … -/
theorem finalize_unpruned_witness_writes (jt : JetTypes) (p : Plan) (program : Bool)
    (cand : Nat → Option Val) (re : RunEnv) (ar : Arrows) (r : Witnesses)
    (h : routeU jt p program cand = .ok ar r) :
    ∀ iv ∈ r, ∀ f : Nat,
      Prog.elabNode (envOf p ar r re) (f + 1) iv.1 =
        some ⟨srcOf ar iv.1, tgtOf ar iv.1, Term.witness iv.2⟩ ∧
      ∀ (m : M) (inp : Val), Pre m (srcOf ar iv.1) (tgtOf ar iv.1) inp →
        Cap m (Term.witness (a := srcOf ar iv.1) (b := tgtOf ar iv.1) iv.2) →
        ∃ m', run (Term.witness (a := srcOf ar iv.1) (b := tgtOf ar iv.1) iv.2) m = .ok m' ∧
          m'.write = advW (tgtOf ar iv.1).bw m.write ∧
          (padded (tgtOf ar iv.1) iv.2).length = (tgtOf ar iv.1).bw ∧
          slice m'.cells (wcur m) (tgtOf ar iv.1).bw = padded (tgtOf ar iv.1) iv.2 ∧
          ∀ i, (i < wcur m ∨ wcur m + (tgtOf ar iv.1).bw ≤ i) → m'.cells i = m.cells i := by
  obtain ⟨hi, hc, ht⟩ := (finalize_unpruned_ok_or_error jt p program cand).2 ar r h
  obtain ⟨_, _, _, _, rfl⟩ := infer_sol hi
  exact witness_write_width p _ (witnessIdx p) r re (by simp [Prog.arrowsOf]) hc (witnessIdx_nodup p)
    (fun i hi => mem_witnessIdx.1 hi) ht

/-- … and for the pruned program `finalize_pruned` returns: the plan rewritten by the `prune_case`
table (`Prog.prunePlan`, for the run's record), the re-inferred arrows, the pruned values. -/
theorem finalize_pruned_witness_writes (jt : JetTypes) (leak : Bool) (p : Plan) (cand : Nat → Option Val)
    (re : RunEnv) (ar' : Arrows) (r' : Witnesses)
    (h : finalizePruned jt leak p true cand re = .ok ar' r') (S : List (Nat × Bool)) (cm : Nat → Nat) :
    ∀ iv ∈ r', ∀ f : Nat,
      Prog.elabNode (envOf (Prog.prunePlan S re.ids cm p) ar' r' re) (f + 1) iv.1 =
        some ⟨srcOf ar' iv.1, tgtOf ar' iv.1, Term.witness iv.2⟩ ∧
      ∀ (m : M) (inp : Val), Pre m (srcOf ar' iv.1) (tgtOf ar' iv.1) inp →
        Cap m (Term.witness (a := srcOf ar' iv.1) (b := tgtOf ar' iv.1) iv.2) →
        ∃ m', run (Term.witness (a := srcOf ar' iv.1) (b := tgtOf ar' iv.1) iv.2) m = .ok m' ∧
          m'.write = advW (tgtOf ar' iv.1).bw m.write ∧
          (padded (tgtOf ar' iv.1) iv.2).length = (tgtOf ar' iv.1).bw ∧
          slice m'.cells (wcur m) (tgtOf ar' iv.1).bw = padded (tgtOf ar' iv.1) iv.2 ∧
          ∀ i, (i < wcur m ∨ wcur m + (tgtOf ar' iv.1).bw ≤ i) → m'.cells i = m.cells i := by
  obtain ⟨c, hP⟩ := finalizePruned_ok_routeP h
  obtain ⟨hi, hc, ht⟩ := finalize_pruned_ok_or_error_partial jt leak p true cand c ar' r' hP
  refine witness_write_width _ ar' _ r' re ?_ hc
    (List.Pairwise.filter _ (witnessIdx_nodup p)) ?_ ht
  · rw [inferCut_size hi]; simp [Prog.prunePlan, Prog.pruneList_length]
  · intro i hi
    have := mem_witnessIdx.1 (List.mem_filter.1 hi).1
    rw [Prog.prunePlan_getElem?, this]; rfl

/-- **Execution of the program `finalize_unpruned` returns** (the Bit Machine model of C05, sized by
`for_program`, run by `exec`): the program has a term `t : 1 ⊢ 1`, and the machine never crashes, returns
a padded encoding of exactly `eval t ()` when the semantics succeeds and fails when it fails. -/
theorem finalize_unpruned_executes (jt : JetTypes) (p : Plan) (cand : Nat → Option Val) (re : RunEnv)
    (hok : planOK p = true) (ar : Arrows) (r : Witnesses) (h : routeU jt p true cand = .ok ar r) :
    ∃ t : Term .one .one,
      Prog.elabNode (envOf p ar r re) (p.size + 1) (p.size - 1) = some ⟨.one, .one, t⟩ ∧ WT t ∧
      match eval t .unit with
      | some out => ∃ bits, execProgram t .unit = .ok bits ∧ Enc .one out bits
      | none => execProgram t .unit = .error .fail := by
  obtain ⟨t, helab, hwt⟩ := routeU_term re hok h
  exact ⟨t, helab, hwt, exec_spec t .unit .unit hwt⟩

/-! ### non-vacuity

`comp (pair wit unit) (case (take unit) (take (case (take unit) (take unit))))`: the witness node
(index 0) gets the target type `1 + (2 × 1)`.  -/

def exPlan : Plan := #[.witness, .unit, .pair 0 1, .take 1, .case 3 3, .take 4, .case 3 5, .comp 2 6]
def noJets : JetTypes := fun _ => none

-- the inferred target type of the witness node
example : tgtIs (routeU noJets exPlan true fun _ => none) 0
    (.sum .one (.prod (.sum .one .one) .one)) = true := by decide +kernel
-- a value of the right type is kept
example : carries (routeU noJets exPlan true fun _ => some (.inr (.pair (.inr .unit) .unit)))
    [(0, .inr (.pair (.inr .unit) .unit))] = true := by decide +kernel
-- a value of a different type that differs only on the unused side (`L(ε) : 1 + 2`) is converted
example : carries (routeU noJets exPlan true fun _ => some (.inl .unit)) [(0, .inl .unit)] = true := by
  decide +kernel
-- a too wide value on the used side (`L(0) : 2 + _`) is converted to `L(ε)`, not copied
example : carries (routeU noJets exPlan true fun _ => some (.inl (.inl .unit))) [(0, .inl .unit)] = true := by
  decide +kernel
-- too narrow (`R(ε)`), wrong shape (a pair), unit: errors
example : routeU noJets exPlan true (fun _ => some (.inr .unit)) = .err := by decide +kernel
example : routeU noJets exPlan true (fun _ => some (.pair .unit .unit)) = .err := by decide +kernel
example : routeU noJets exPlan true (fun _ => some .unit) = .err := by decide +kernel
-- no candidate: the zero value
example : carries (routeU noJets exPlan true fun _ => none) [(0, .inl .unit)] = true := by decide +kernel
-- the text route: the value stored under the node's name; other names are ignored
example : carries (forestRoute noJets exPlan true (fun i => if i = 0 then some "wit1" else none)
    (fun n => if n = "wit1" then some (.inr (.pair (.inl .unit) .unit)) else some .unit))
    [(0, .inr (.pair (.inl .unit) .unit))] = true := by decide +kernel
-- decoding: `1 0` + padding is accepted as R((0, ε)); a stream that is too short or has a non-zero
-- trailing bit is an error
example : carries (decodeRoute noJets exPlan [true, false, false, false, false, false, false, false])
    [(0, .inr (.pair (.inl .unit) .unit))] = true := by decide +kernel
example : decodeRoute noJets exPlan [true] = .err := by decide +kernel
example : decodeRoute noJets exPlan [true, false, true, false, false, false, false, false] = .err := by
  decide +kernel
-- pruning the right branch of the outer case (node 6 becomes `assertl`; nodes 4, 5 go): the
-- witness type shrinks to `1 + 1` and the value `R((1, ε))` to `R(ε)`
def exCut : Cut := cutOf exPlan fun i => if i = 6 then some false else none
example : tgtIs (routeP noJets codeLeaks exPlan true (fun _ => some (.inr (.pair (.inr .unit) .unit))) exCut) 0
    (.sum .one .one) = true := by decide +kernel
example : carries (routeP noJets codeLeaks exPlan true (fun _ => some (.inr (.pair (.inr .unit) .unit))) exCut)
    [(0, .inr .unit)] = true := by decide +kernel

-- `finalize_pruned` with its own run (identities = node indices, no jets): the value `R((1, ε))`
-- takes the right branches of both cases — nothing of the witness type can go; the value `L(0)`
-- (converted to `L(ε)`) takes the left branch of the outer case, the inner case disappears and the
-- witness type shrinks to `1 + 1`
def exRun : RunEnv := { ids := fun i => i, cmr := #[], jets := fun _ _ => none }
example : planOK exPlan = true := by decide
example : carries (finalizePruned noJets codeLeaks exPlan true (fun _ => some (.inr (.pair (.inr .unit) .unit))) exRun)
    [(0, .inr (.pair (.inr .unit) .unit))] = true := by decide +kernel
example : carries (finalizePruned noJets codeLeaks exPlan true (fun _ => some (.inl (.inl .unit))) exRun)
    [(0, .inl .unit)] = true := by decide +kernel
example : tgtIs (finalizePruned noJets codeLeaks exPlan true (fun _ => some (.inl (.inl .unit))) exRun) 0
    (.sum .one .one) = true := by decide +kernel
-- a run that fails (`assertl` meets `R(ε)`): an error, not a program; without a candidate the zero
-- value `L(ε)` passes the assertion
def exFailPlan : Plan := #[.witness, .unit, .pair 0 1, .take 1, .assertl 3 0, .comp 2 4]
example : planOK exFailPlan = true := by decide
example : finalizePruned noJets codeLeaks exFailPlan true (fun _ => some (.inr .unit)) exRun = .err := by
  decide +kernel
example : carries (finalizePruned noJets codeLeaks exFailPlan true (fun _ => none) exRun) [(0, .inl .unit)] = true := by
  decide +kernel

/-! ### non-vacuity of `finalize_pruned_serialisation_decodes`

`exPlan` with the candidate `L(0)`: the run records the left side of the outer case (node 6) only;
the pruned program is `comp (pair wit unit) (assertl (take unit) #h)` — seven wire nodes, the hidden
node an entry of its own, plan nodes 6 and 7 renumbered to 5 and 6.  Every hypothesis of the theorem
is discharged except the existence of the annotations and the pairwise difference of the seven
identity roots, which are SHA-256 values and are not evaluated in the kernel. -/

def tbE : Tables := ⟨JetsE.J, JetsE.jc, JetsE.nameOf, JetsE.ofName, JetsE.jetTy, JetsE.jetCmr, JetsE.jetCost⟩
def zeros256 : List Bool := List.replicate 256 false
def exN : List (WNode JetsE.J) :=
  [.witness, .unit, .pair 0 1, .take 1, .hidden zeros256, .case 3 4, .comp 2 5]
def exQ : Plan := #[.witness, .unit, .pair 0 1, .take 1, .hidden 0, .assertl 3 0, .comp 2 5]
def exσ : Nat → Nat := fun j => if j = 5 then 6 else if j = 6 then 7 else j
def exσ' : Nat → Nat := fun i => if i = 6 then 5 else if i = 7 then 6 else i
def exCandL : Nat → Option Val := fun _ => some (.inl (.inl .unit))

theorem bitsNat_zeros : ∀ n acc,
    (List.replicate n false).foldl (fun acc b => acc * 2 + (if b then 1 else 0)) acc = acc * 2 ^ n := by
  intro n
  induction n with
  | zero => intro acc; simp
  | succ n ih => intro acc; simp [List.replicate_succ, ih, Nat.pow_succ]; rw [Nat.mul_assoc, Nat.mul_comm 2]

theorem carries_ok {o : Outcome} {ws : Witnesses} (h : carries o ws = true) : ∃ ar, o = .ok ar ws := by
  cases o with
  | ok ar r => exact ⟨ar, by simp [carries] at h; rw [h]⟩
  | _ => simp [carries] at h

theorem finalize_pruned_serialisation_example
    (han : ∀ arQ, infer tbE.jetTy exQ true = .ok arQ →
      ∃ an, annots tbE.jetCmr tbE.jetCost exQ arQ (fun j => witBits [(0, .inl .unit)] (exσ j)) = some an ∧
        (ihrList exQ an).eraseDups.length = (ihrList exQ an).length) :
    ∃ ar' arQ an,
      finalizePruned tbE.jetTy false exPlan true exCandL exRun = .ok ar' [(0, .inl .unit)] ∧
      infer tbE.jetTy exQ true = .ok arQ ∧
      tgtOf arQ 0 = tgtOf ar' 0 ∧
      decodeRedeem tbE (padToByte (encProgram tbE.jc exN))
          (padToByte ((wIdx exQ.toList 0).filterMap fun j => witBits [(0, .inl .unit)] (exσ j)).flatten) =
        .ok ⟨exQ, arQ,
          (wIdx exQ.toList 0).filterMap (fun j => (witBits [(0, .inl .unit)] (exσ j)).map fun b => (j, b)), an⟩ := by
  have hs : runSides tbE.jetTy exPlan true exCandL exRun = some [(6, false)] := by decide +kernel
  obtain ⟨ar, r, tr, hu, hr, hsides⟩ := runSides_spec hs
  have hc : carries (finalizePruned tbE.jetTy false exPlan true exCandL exRun) [(0, .inl .unit)] = true := by
    decide +kernel
  obtain ⟨ar', h⟩ := carries_ok hc
  have hconv : convert tbE.nameOf exN.toArray = .ok exQ := by
    have : bitsNat zeros256 = 0 := by unfold bitsNat zeros256; rw [bitsNat_zeros]
    simp [convert, convertGo, convNode, exN, exQ, needVisible, hiddenAt, this]
    rfl
  have hNok : NodesOk 0 exN := by
    refine ⟨trivial, trivial, ⟨by decide, by decide⟩, by simp [WNode.Ok], ?_, ⟨by decide, by decide⟩,
      ⟨by decide, by decide⟩, trivial⟩
    show zeros256.length = 256
    rw [zeros256, List.length_replicate]
  have hR : Renumbers exσ exσ' exQ (Prog.prunePlan tr.sides exRun.ids (fun _ => 0) exPlan)
      (cutOf exPlan (sidesOf exRun.ids tr.sides)).keep := by
    rw [hsides]
    exact renumbersB_sound (by decide +kernel)
  have hfuel : infer tbE.jetTy exQ true ≠ .fuel := by
    have : (match infer tbE.jetTy exQ true with | .fuel => false | _ => true) = true := by decide +kernel
    intro e; rw [e] at this; cases this
  obtain ⟨arQ, an, h1, h2, _, h4⟩ :=
    finalize_pruned_serialisation_decodes tbE JetsE.ofName_nameOf exPlan exCandL exRun (by decide) ar r tr ar'
      [(0, .inl .unit)] hu hr h exN exQ exσ exσ' (fun _ => 0) (by intro e; cases e) (by decide) hNok (by decide) hconv
      (by intro nd hnd a e; subst e; simp [exQ] at hnd) hR hfuel han
  exact ⟨ar', arQ, an, h, h1, (h2 0 .witness rfl rfl).2, h4⟩

end Props.C12
