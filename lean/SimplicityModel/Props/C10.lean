/-
C10 — Value encodings, accessors and pruning follow the type's bit layout.

Property theorems only.  They are about `Vl.RVal` (`ValueRVal.lean`), the byte-buffer model of
`Value`/`ValueRef` that the driver runs: a byte buffer, a bit offset, a type, with the operations
of `src/value.rs` (`right_shift_1`, `copy_bits`, `product`, the `as_*` views, `RawByteIter`,
`CompactBitsIter`, `from_padded_bits`, `from_compact_bits`, `prune`).

Vocabulary.  `r.WF`: the buffer covers `offset + bit_width` and holds bytes.  `r.Den x`: `r` is
well-formed and its own bits are a padded encoding — with *any* padding content — of the abstract
element `x : Val` of `r.ty` (`Enc`).  Every well-formed value denotes exactly one element
(`every_value_denotes`), and every value obtainable from the library's operations in any order
is well-formed (`every_history_wf`): the statements below therefore hold for a value whatever
its history, its buffer's other content, and its offset.
-/
import SimplicityModel.ValueBuilt

namespace Props.C10
open Vl Vl.RVal

/-- Every value a program can obtain — by constructors, word constructors, `zero`, either decoder
on any input, sub-value extraction, prune, Bit Machine output, in any order — is well-formed. -/
theorem every_history_wf {r : RVal} (h : Built r) : r.WF := h.wf

/-- A well-formed value denotes exactly one element of its type. -/
theorem every_value_denotes {r : RVal} (h : r.WF) :
    ∃ x, r.Den x ∧ HasTy x r.ty ∧ ∀ y, r.Den y → y = x := by
  obtain ⟨x, hx⟩ := h.den
  exact ⟨x, hx, hx.hasTy, fun y hy => hy.unique hx⟩

/-! ### encodings -/

/-- The padded encoding (`iter_padded`, `padded_len`) has exactly the type's bit width, and it is
a padded encoding of the element the value denotes. -/
theorem padded_has_type_width {r : RVal} {x : Val} (h : r.Den x) :
    r.iterPadded.length = r.ty.bw ∧ r.paddedLen = r.ty.bw ∧ Enc r.ty x r.iterPadded :=
  ⟨(iterPadded_den h).1, rfl, (iterPadded_den h).2⟩

/-- The compact encoding (`iter_compact`, `compact_len`) is the padded one with all sum padding
removed (`strip` walks the type: tag, skip the padding, the chosen side), and it is the
tags-and-leaves encoding of the element denoted. -/
theorem compact_is_padded_without_padding {r : RVal} {x : Val} (h : r.Den x) :
    r.iterCompact = strip r.ty r.iterPadded ∧ r.iterCompact = compact x ∧
      r.compactLen = (compact x).length :=
  ⟨iterCompact_strip h.1, iterCompact_den h, (lens h).2⟩

/-- Decoding the padded encoding with the type — whatever follows it — returns a value of that
type denoting the same element (holding the very same bits), and consumes exactly the bits the
encoding produced. -/
theorem decode_padded_roundtrip {r : RVal} {x : Val} (h : r.Den x) (rest : List Bool) :
    ∃ v, fromPaddedBits r.ty (r.iterPadded ++ rest) = some (v, rest) ∧ v.ty = r.ty ∧ v.Den x ∧
      v.iterPadded = r.iterPadded :=
  fromPaddedBits_enc (iterPadded_den h).2 rest

/-- The same for any padded encoding of an element, i.e. with arbitrary bits in the padding. -/
theorem decode_padded_any_padding {t : Ty} {x : Val} {bs : List Bool} (h : Enc t x bs) (rest : List Bool) :
    ∃ v, fromPaddedBits t (bs ++ rest) = some (v, rest) ∧ v.ty = t ∧ v.Den x ∧ v.iterPadded = bs :=
  fromPaddedBits_enc h rest

/-- Decoding the compact encoding with the type returns a value of that type denoting the same
element and consumes exactly the bits the encoding produced. -/
theorem decode_compact_roundtrip {r : RVal} {x : Val} (h : r.Den x) (rest : List Bool) :
    ∃ v, fromCompactBits r.ty (r.iterCompact ++ rest) = some (v, rest) ∧ v.ty = r.ty ∧ v.Den x := by
  rw [iterCompact_den h]
  exact fromCompactBits_compact h.hasTy rest

/-- The decoders never return a shorter value: the padded decoder fails exactly when fewer bits
than the type's width are left, and whatever the compact decoder accepts is the compact encoding
of the element it returns, followed by exactly the rest. -/
theorem decoders_exact {t : Ty} {inp : List Bool} :
    (fromPaddedBits t inp = none ↔ inp.length < t.bw) ∧
    (∀ v r, fromCompactBits t inp = some (v, r) → v.ty = t ∧ ∃ x, v.Den x ∧ inp = compact x ++ r) :=
  ⟨fromPaddedBits_none, fun _ _ h => fromCompactBits_some h⟩

/-! ### constructors and accessors are inverse -/

/-- The constructors build values of the stated type denoting the stated element, from parts
obtained in any way. -/
theorem constructors_denote {l r : RVal} {x y : Val} (hl : l.Den x) (hr : r.Den y) (t : Ty) :
    unit.Den .unit ∧
    ((l.left t).Den (.inl x) ∧ (l.left t).ty = .sum l.ty t) ∧
    ((RVal.right t l).Den (.inr x) ∧ (RVal.right t l).ty = .sum t l.ty) ∧
    ((l.product r).Den (.pair x y) ∧ (l.product r).ty = .prod l.ty r.ty) :=
  ⟨den_unit, den_left hl t, den_right t hl, den_product hl hr⟩

/-- A left value yields back exactly the part it was built from — same type, same bits (padding
included) — and is neither a right value nor a product; for any well-formed part. -/
theorem as_left_of_left {v : RVal} (h : v.WF) (t : Ty) :
    (∃ l, (v.left t).asLeft = some l ∧ l.ty = v.ty ∧ l.iterPadded = v.iterPadded ∧ l.WF) ∧
      (v.left t).asRight = none ∧ (v.left t).asProduct = none := by
  obtain ⟨⟨l, h1, h2, h3⟩, h4, h5⟩ := asLeft_left h t
  refine ⟨⟨l, h1, congrArg BV.ty h2, ?_, h3⟩, h4, h5⟩
  rw [iterPadded_eq_bits h3, iterPadded_eq_bits h]; exact congrArg BV.bits h2

theorem as_right_of_right (t : Ty) {v : RVal} (h : v.WF) :
    (∃ l, (RVal.right t v).asRight = some l ∧ l.ty = v.ty ∧ l.iterPadded = v.iterPadded ∧ l.WF) ∧
      (RVal.right t v).asLeft = none ∧ (RVal.right t v).asProduct = none := by
  obtain ⟨⟨l, h1, h2, h3⟩, h4, h5⟩ := asRight_right t h
  refine ⟨⟨l, h1, congrArg BV.ty h2, ?_, h3⟩, h4, h5⟩
  rw [iterPadded_eq_bits h3, iterPadded_eq_bits h]; exact congrArg BV.bits h2

theorem as_product_of_product {l r : RVal} (hl : l.WF) (hr : r.WF) :
    (∃ l' r', (l.product r).asProduct = some (l', r') ∧
        l'.ty = l.ty ∧ l'.iterPadded = l.iterPadded ∧ r'.ty = r.ty ∧ r'.iterPadded = r.iterPadded ∧
        l'.WF ∧ r'.WF) ∧
      (l.product r).asLeft = none ∧ (l.product r).asRight = none := by
  obtain ⟨⟨l', r', h1, h2, h3, h4, h5⟩, h6, h7⟩ := asProduct_product hl hr
  refine ⟨⟨l', r', h1, congrArg BV.ty h2, ?_, congrArg BV.ty h3, ?_, h4, h5⟩, h6, h7⟩
  · rw [iterPadded_eq_bits h4, iterPadded_eq_bits hl]; exact congrArg BV.bits h2
  · rw [iterPadded_eq_bits h5, iterPadded_eq_bits hr]; exact congrArg BV.bits h3

/-- Conversely, on any value whatever its history: exactly the accessor matching the element's
shape succeeds, and returns values denoting the element's parts. -/
theorem accessors_follow_the_element {r : RVal} :
    (∀ x, r.Den (.inl x) → ∃ l, r.asLeft = some l ∧ l.Den x ∧ r.asRight = none ∧ r.asProduct = none) ∧
    (∀ x, r.Den (.inr x) → ∃ l, r.asRight = some l ∧ l.Den x ∧ r.asLeft = none ∧ r.asProduct = none) ∧
    (∀ x y, r.Den (.pair x y) → ∃ l s, r.asProduct = some (l, s) ∧ l.Den x ∧ s.Den y ∧
        r.asLeft = none ∧ r.asRight = none) ∧
    (r.Den .unit → r.asLeft = none ∧ r.asRight = none ∧ r.asProduct = none) :=
  ⟨fun _ h => den_inl_inv h, fun _ h => den_inr_inv h, fun _ _ h => den_pair_inv h,
    fun h => (den_unit_inv h).2⟩

/-! ### pruning

`Le t' t`: `t'` is smaller than or equal to `t` (unit in place of anything, sums and products
component-wise).  `Trunc y x`: `y` is `x` with some sub-values replaced by unit — the same sum tags,
the same pairs, the same leaves wherever `y` still has them.  For a given target type there is at
most one truncation of `x` of that type (`truncation_unique`). -/

/-- Pruning to a type smaller than or equal to the value's own returns the value of exactly that
type with the same sum tags and leaf data wherever the target retains them. -/
theorem prune_to_smaller {r : RVal} {x : Val} (h : r.Den x) {t : Ty} (hle : Le t r.ty) :
    ∃ w y, prune t r = some w ∧ w.ty = t ∧ w.Den y ∧ HasTy y t ∧ Trunc y x :=
  RVal.prune_of_le h hle

/-- Pruning in two steps equals pruning in one: the same type, the same element, the same compact
bits (the buffers may differ). -/
theorem prune_two_steps {r : RVal} {x : Val} (h : r.Den x) {t1 t2 : Ty} {w : RVal}
    (h1 : prune t1 r = some w) (hle : Le t2 t1) :
    ∃ w2 w2' y, prune t2 w = some w2 ∧ prune t2 r = some w2' ∧ w2.ty = t2 ∧ w2'.ty = t2 ∧
      w2.Den y ∧ w2'.Den y ∧ w2.iterCompact = w2'.iterCompact :=
  RVal.prune_prune h h1 hle

/-- For any target whatsoever (smaller, equal, incompatible): the result, if there is one, is a
well-formed value of exactly the target type denoting the truncation of the element — never a
malformed value — and there is none exactly when no truncation of the element has the target
type.  (The code is value-directed: the side of a sum target that the value does not take is not
looked at, so some targets that are not `≤` the value's type succeed, with this well-formed result.) -/
theorem prune_any_target {r : RVal} {x : Val} (h : r.Den x) (t : Ty) :
    (∀ w, prune t r = some w → w.WF ∧ w.ty = t ∧ ∃ y, w.Den y ∧ HasTy y t ∧ Trunc y x) ∧
    (prune t r = none ↔ ¬ ∃ y, HasTy y t ∧ Trunc y x) := by
  refine ⟨fun w hw => ?_, prune_none_iff h t⟩
  obtain ⟨h1, y, h2, h3⟩ := prune_some h hw
  exact ⟨h2.1, h1, y, h2, h3⟩

/-- At most one truncation of an element has a given type. -/
theorem truncation_unique {x y y' : Val} {t : Ty} (h1 : HasTy y t) (h2 : Trunc y x)
    (h1' : HasTy y' t) (h2' : Trunc y' x) : y = y' := by
  have a := (prune_eq_some_iff x t y).2 ⟨h1, h2⟩
  have b := (prune_eq_some_iff x t y').2 ⟨h1', h2'⟩
  rw [a] at b; cases b; rfl

/-! ### non-vacuity: concrete values meeting the hypotheses

`dirty` is `from_padded_bits([0x7f, 0x80], 1 + 2^8)`: a left value whose eight padding bits are
all ones; `shifted` is the unit payload viewed inside it at bit offset 9; `u1in` is the first
component of `product(u1(0), u1(1))` viewed in the product's buffer. -/

def dirty : RVal := ⟨[0x7f, 0x80], 0, .sum .one (Ty.word 3)⟩
def u1in : RVal := ⟨[0x40], 0, Ty.word 0⟩

example : dirty.Den (.inl .unit) :=
  ⟨⟨by decide, by intro x hx; simp [dirty] at hx; omega⟩,
    Enc.inl (a := .one) (b := Ty.word 3) (pad := [true, true, true, true, true, true, true, true]) Enc.unit rfl⟩
example : u1in.Den (.inl .unit) :=
  ⟨⟨by decide, by intro x hx; simp [u1in] at hx; omega⟩, Enc.inl (a := .one) (b := .one) (pad := []) Enc.unit rfl⟩
example : Built dirty :=
  Built.fromPadded (t := .sum .one (Ty.word 3)) (inp := bitsOfBytes [0x7f, 0x80]) (rest := [false, false, false, false, false, false, false]) rfl
example : Le (.sum .one .one) (.sum .one (Ty.word 3)) := .sum (.one _) (.one _)
example : prune (.sum .one .one) dirty = some ⟨[0x7f, 0], 8, .sum .one .one⟩ := rfl
example : ∃ y, HasTy y (.sum (.prod .one .one) .one) ∧ Trunc y (.inr .unit) ∧ ¬ Le (.sum (.prod .one .one) .one) (.sum .one .one) :=
  ⟨.inr .unit, .inr .unit, .inr (.unit _), by intro h; cases h with | sum h1 _ => cases h1⟩
example : ¬ ∃ y, HasTy y (.prod .one .one) ∧ Trunc y (.inl .unit) := by
  intro ⟨y, h1, h2⟩; cases h1; cases h2

end Props.C10
