/-
C20 — results are independent of threads and scheduling.   **Level: partial.**

What is modelled (`ConcModel.lean`): the only state of the library that is reachable from more
than one operation — the global name counter `NEXT_ID` (`G.next`), the slab of every inference
context (`G.ctxs`), the thread-local lazily filled type tables (`G.tls`) — and immutable shared
objects (`Env.shared`).  A history is a list of steps, each tagged with the performing thread and
the context it works in; `run` is what `Driver/C20.lean` executes on every `par` line, with the
schedule the harness enforced on the real library with a turnstile.

What the theorems below carry: the *logic* — given that the code is such a transition system and
that every context is used by one thread, no schedule can change what a thread observes, except
the spelling of type-variable names.

What the model CANNOT exhibit, and is therefore only sampled by the harness (turnstile schedules +
free-running stress on 2, 4, 16 threads, every result compared with the sequential run):
* `Arc` reference counting and the iterative `Drop` of nodes/`Incomplete` (`Arc::into_inner` races);
* `thread_local!` initialisation/destruction order and `RefCell` borrow flags;
* `Mutex` internals: poisoning after a panic inside a context operation, lock ordering (a deadlock
  is a behaviour of the lock, not of the slab);
* the C side: static tables, `rust_0_7_malloc/calloc/free` shims and the layout `sanity_checks()`
  on every jet call, secp256k1 scratch state;
* memory ordering: the model's steps are atomic and sequentially consistent, i.e. it assumes what
  `fetch_add(SeqCst)` and `Mutex` are meant to provide; a data race (UB) has no counterpart here;
* that the Rust code *is* the modelled transition system (the inventory of global state is compared
  with the source by `tools/c20_globals.py`, the rest is the correspondence).
-/
import SimplicityModel.ConcThms
import SimplicityModel.Prog.Merkle
import SimplicityModel.Gen.C20Tables

namespace Props.C20
open ConcModel

/-- **Steps of different threads on different contexts commute** up to the injective renaming
`swapNames` of the names they drew: both orders end with the same counter and tables, every slab
equal after renaming, each step's result equal after renaming.
Hypotheses: different threads, different contexts (ownership); stored names are below the counter
(`run_below`: true of every state reachable from `G.init`).
Runtime hypotheses: a step is atomic with respect to the state it touches (the context's `Mutex`;
`fetch_add` on the counter). -/
theorem step_commute (E : Env) (g : G) (st1 st2 : Step)
    (htid : st1.tid ≠ st2.tid) (hctx : st1.ctx ≠ st2.ctx) (hb : ∀ c, Below (g.ctxs c) g.next) :
    let a := step E g st1
    let ab := step E a.1 st2
    let b := step E g st2
    let ba := step E b.1 st1
    let ρ := swapNames g.next st1.op.names st2.op.names
    ab.1.next = ba.1.next ∧ ab.1.tls = ba.1.tls ∧
    (∀ c, ab.1.ctxs c = (ba.1.ctxs c).map (Bound.ren ρ)) ∧
    a.2 = ba.2.ren ρ ∧ ab.2 = b.2.ren ρ :=
  ConcModel.step_commute E g st1 st2 htid hctx hb

/-- the renaming of `step_commute` is injective -/
theorem step_commute_renaming_injective (n k1 k2 : Nat) :
    ∀ a b, swapNames n k1 k2 a = swapNames n k1 k2 b → a = b :=
  swapNames_inj n k1 k2

/-- the hypothesis `Below` of `step_commute` holds in every state reachable from the initial one -/
theorem reachable_states_keep_names_below_counter (E : Env) (tr : List Step) :
    ∀ c, Below ((run E G.init tr).1.ctxs c) (run E G.init tr).1.next :=
  run_below E tr G.init init_below

/-- **Any interleaving, projected on a thread, equals that thread's solo run up to an injective
renaming of type-variable names** (results, the thread's contexts, the thread's tables).
Hypothesis: `Owned` — every context is used by one thread.
Runtime hypotheses (partial: not provable about Rust from here): the library is this transition
system — an operation touches only its context, its thread's tables and immutable shared data; names
come from one atomic counter; names are never compared or computed with. -/
theorem interleaving_eq_sequential_partial (E : Env) (owner : Nat → Nat) (tr : List Step)
    (hown : Owned owner tr) (t : Nat) :
    ∃ ρ : Nat → Nat,
      (∀ a b, a < (run E G.init (proj t tr)).1.next → b < (run E G.init (proj t tr)).1.next → ρ a = ρ b → a = b) ∧
      resultsOf t (run E G.init tr).2 = (resultsOf t (run E G.init (proj t tr)).2).map (Res.ren ρ) ∧
      (∀ c, owner c = t → (run E G.init tr).1.ctxs c = ((run E G.init (proj t tr)).1.ctxs c).map (Bound.ren ρ)) ∧
      (run E G.init tr).1.tls t = (run E G.init (proj t tr)).1.tls t :=
  interleaving_eq_sequential E owner tr hown t

/-- **Results that contain no names are equal on the nose**: finalized types, memo values, reads of
shared objects, digests of whole operations (roots, encodings, execution and pruning results). -/
theorem namefree_results_equal_partial (E : Env) (owner : Nat → Nat) (tr : List Step) (hown : Owned owner tr)
    (t i : Nat) (r : Res) (hr : (resultsOf t (run E G.init (proj t tr)).2)[i]? = some r) (hn : r.names = []) :
    (resultsOf t (run E G.init tr).2)[i]? = some r :=
  interleaving_eq_sequential_namefree E owner tr hown t i r hr hn

/-- the name counter after a history is the initial value plus the names of all its operations,
whatever the interleaving (what the harness measures with its probe draws under the turnstile) -/
theorem name_counter_total (E : Env) (tr : List Step) (g : G) :
    (run E g tr).1.next = g.next + (tr.map (·.op.names)).sum :=
  run_next E tr g

/-- **A lazily filled memo table of a pure function returns the function's value whichever thread
fills an entry first, and a filled entry never changes** (one table shared by all threads: the
strongest case; the library's tables are per thread).
Runtime hypothesis: an entry is seen either unfilled or completely filled. -/
theorem memo_table_pure (f : Nat → Nat) (ops : List (Nat × Nat)) (tb : Tbl) (h : TblGood f tb) :
    (lookups f tb ops).2 = ops.map (fun p => f p.2) ∧ TblGood f (lookups f tb ops).1 ∧
    (∀ m v, tb m = some v → (lookups f tb ops).1 m = some v) :=
  ConcModel.memo_table_pure f ops tb h

/-- in every history of the model every thread's table holds only values of the memoised function -/
theorem tables_stay_right (E : Env) (tr : List Step) (t : Nat) : TblGood E.f ((run E G.init tr).1.tls t) :=
  run_tables_good E tr G.init (fun _ => tblGood_empty E.f) t

/-- **Tie to the source:** the static table `Tmr::TWO_TWO_N` (regenerated from `src/merkle/tmr.rs`
on every run) is the memo of the pure function `Prog.tmrWord` (the type root of `2^(2^n)` by real
SHA-256) that the driver's thread tables memoise: entry `n` is `tmrWord n`, for all 32 entries. -/
theorem source_two_two_n_table_is_memo :
    Gen.C20.twoTwoN = (List.range Gen.C20.nPowers).map Prog.tmrWord := by decide +kernel

/-! ### non-vacuity: a concrete history with two threads, three contexts, all operation kinds -/

def exE : Env := ⟨fun k => 100 + k, fun n => n * n⟩

/-- thread 0 in contexts 0 and 2, thread 1 in context 1; interleaved -/
def exTr : List Step :=
  [⟨0, 0, .fresh⟩, ⟨1, 1, .fresh⟩, ⟨1, 1, .fresh⟩, ⟨0, 0, .fresh⟩, ⟨1, 1, .mkProd 0 1⟩, ⟨0, 0, .mkSum 0 1⟩,
   ⟨1, 1, .display 2⟩, ⟨0, 0, .display 2⟩, ⟨0, 2, .whole 3 77⟩, ⟨1, 1, .bindC 2 (.sum .one .one)⟩, ⟨0, 0, .memo 5⟩,
   ⟨1, 1, .memo 5⟩, ⟨0, 0, .bindC 2 (.sum .one (.prod .one .one))⟩, ⟨1, 1, .readShared 4⟩, ⟨0, 0, .finalize 2⟩,
   ⟨1, 1, .finalize 2⟩, ⟨0, 0, .display 1⟩]

def exOwner : Nat → Nat := fun c => if c = 1 then 1 else 0

example : Owned exOwner exTr := by unfold Owned; decide

/-- thread 1 sees other names in the interleaved run than in its solo run (the renaming is not the
identity) … -/
example : resultsOf 1 (run exE G.init exTr).2 =
    [.handle 0, .handle 1, .handle 2, .shown (.prod (.var 1) (.var 2)),
     .err (.prod (.var 1) (.var 2)) (.sum .one .one), .val 25, .val 104, .ty (.prod .one .one)] := by decide
example : resultsOf 1 (run exE G.init (proj 1 exTr)).2 =
    [.handle 0, .handle 1, .handle 2, .shown (.prod (.var 0) (.var 1)),
     .err (.prod (.var 0) (.var 1)) (.sum .one .one), .val 25, .val 104, .ty (.prod .one .one)] := by decide
/-- … and thread 0, whose `bindC` succeeds and whose whole operation draws three names in between -/
example : resultsOf 0 (run exE G.init exTr).2 =
    [.handle 0, .handle 1, .handle 2, .shown (.sum (.var 0) (.var 3)), .val 77, .val 25, .ok,
     .ty (.sum .one (.prod .one .one)), .shown (.fin (.prod .one .one))] := by decide

/-- `step_commute` after the first four steps, on two `fresh` steps of the two threads: the
hypotheses hold (different threads, different contexts), the two orders really give different slabs,
and `swapNames` maps one to the other -/
def exG : G := (run exE G.init (exTr.take 4)).1
example :
    (step exE (step exE exG ⟨0, 0, .fresh⟩).1 ⟨1, 1, .fresh⟩).1.ctxs 1 = [.free 1, .free 2, .free 5] ∧
    (step exE (step exE exG ⟨1, 1, .fresh⟩).1 ⟨0, 0, .fresh⟩).1.ctxs 1 = [.free 1, .free 2, .free 4] ∧
    exG.next = 4 ∧ swapNames 4 1 1 4 = 5 ∧ swapNames 4 1 1 5 = 4 := by decide

/-- a shared memo table filled by three threads in an arbitrary order -/
example : (lookups (fun n => n * n) (fun _ => none) [(2, 3), (0, 3), (1, 4), (2, 4), (0, 3)]).2 = [9, 9, 16, 16, 9] := by
  decide

end Props.C20
