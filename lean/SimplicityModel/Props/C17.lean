import SimplicityModel.HumanProg
import SimplicityModel.Human
namespace Props.C17
end Props.C17
