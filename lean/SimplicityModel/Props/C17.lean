/-
C17 — the human-readable encoding round-trips.

Models (all executable, all run by the driver `Driver/C17.lean` and compared with the code):
`HumanLex.lean` (the `logos` lexer as a maximal-munch function), `HumanTy.lean` (`Display for Final`
and `parse_type`), `HumanText.lean` (the statements `string_serialize` prints and `parse_line` /
`parse_expr` on that flat grammar), `HumanProg.lean` (`from_program`: MaxSharing conversion, `Namer`,
pointer walk, sections; name resolution), `Human.lean` (abstract layer: render/resolve over the
pointer-sharing post-order walk of `PostOrder.lean`).

What is covered by theorem is the renderer's OUTPUT LANGUAGE: every text the model's renderer can
produce parses back, in the model, to what was rendered.  What is not: the behaviour of the Rust
lexer and parser on ARBITRARY strings (termination without panic, abort or hang).  That half of the
property is carried by the correspondence only (`lex` and `parse` verbs on random bytes, token soups,
mutations, and nesting up to 10^5 in child processes with a time limit); see `tools/meta/C17.json`.
-/
import SimplicityModel.HumanCompose
import SimplicityModel.HumanProg
import SimplicityModel.HumanNamer

namespace Props.C17
open HT PO
open BM4 (Ty)

/-! ### the lexer -/

/-- **Spelling of a token.** The text of a well-formed token (`Tok.ok`: the payload is in the
language of the token's regular expression; for a symbol: it is not a keyword, `_`, a jet name or
the start of a comment), followed by a delimiter — white space, `)`, `?`, end of input — or, for the
tokens that cannot be extended (`:= -> #{ ( ) + * } ? 1 #<64 hex>`), by anything, is the first token
the lexer produces, and lexing continues behind it. -/
theorem token_text_lexes_back (t : Tok) (rest : List Char) (hok : t.ok = true)
    (hsep : t.free = true ∨ Sep rest) : lex (t.text ++ rest) = (lex rest).map (t :: ·) :=
  lex_cons t rest hok hsep

example : (Tok.sym "cp12".toList).ok = true ∧ (Tok.sym "main".toList).ok = true ∧
    (Tok.sym "FAIL6".toList).ok = true ∧ (Tok.sym "const1".toList).ok = true ∧
    (Tok.sym "a--b".toList).ok = true ∧ (Tok.sym "it's".toList).ok = true := by decide
/-- keywords, `_`, jet names and comment starts are not symbols -/
example : (Tok.sym "unit".toList).ok = false ∧ (Tok.sym "_".toList).ok = false ∧
    (Tok.sym "jet_add_8".toList).ok = false ∧ (Tok.sym "--x".toList).ok = false := by decide

/-! ### spellings are injective -/

/-- hexadecimal digits (`#<cmr>`, `0x…` words, `fail` entropy): decoding the spelling gives the digits -/
theorem hex_spelling_roundtrip (ns : List Nat) (h : ∀ n ∈ ns, n < 16) : hexVals (hexText ns) = ns :=
  hexVals_hexText ns h

theorem bit_spelling_roundtrip (bs : List Bool) : bitVals (bitsText bs) = bs := bitVals_bitsText bs

/-- `const` words: the literal that `Display for Word` prints (`0b…` below 8 bits, `0x…` from 8 bits)
is read back by `parse_literal` + the power-of-two check as the same word -/
theorem word_spelling_roundtrip (n : Nat) (bits : List Bool) (hl : bits.length = 2 ^ n) (hn : n ≤ 31) :
    wordOfLiteral (wordTok n bits) = some (.word n bits) :=
  word_roundtrip n bits hl hn

/-- `fail`: 128 hexadecimal digits behind `0x` are read back as the same 64 bytes of entropy -/
theorem fail_spelling_roundtrip (e : List Nat) (hl : e.length = 128) (hh : ∀ n ∈ e, n < 16) :
    failOfLiteral (.hex (hexText e)) = some (.fail e) :=
  fail_roundtrip e hl hh

example : wordOfLiteral (wordTok 1 [true, false]) = some (.word 1 [true, false]) := by decide
example : wordTok 3 [true, false, true, false, true, false, true, true] = .hex ['a', 'b'] := by decide

/-! ### types -/

/-- **type_print_parse** (partial).  FULL STATEMENT: for every type `t`, the printed form
`printTy t` (`1`, `2`, `2^N` for 2^(2^n) with n ≤ 31, `A?` for `1 + A`, parentheses around every
other nested sum or product) lexes to tokens that `parse_type` reads back as `t`.
PROVED: for every `t` whose printed form stays within the parser's nesting limit
(`synDepth t ≤ MAX_NESTING_DEPTH = 1000`, where atoms count 1, `?` adds 1, `+`/`*` give 1 + max).
MISSING, and false in the model as in the code: deeper types — the parser answers "nesting too deep"
to the renderer's own output (`type_deeper_than_limit_refused` below; the harness runs the real
code at 1001 and beyond). -/
theorem type_print_parse_partial (t : Ty) (hd : synDepth t ≤ maxDepth) :
    lex (printTy t) = some (tyToks true t) ∧ parseType (tyToks true t) = some (t, []) := by
  constructor
  · have := lex_tyChars t true [] (.inl rfl)
    simpa [printTy, lex_nil] using this
  · have := parseType_print t [] hd (fun r => ⟨by simp, by simp, by simp⟩)
    simpa using this

/-- the shorthand `A?` and the word types are inside the theorem -/
example : synDepth (.sum .one (.prod (Prog.wordTy 8) (.sum .one bitTy))) ≤ maxDepth ∧
    printTy (.sum .one (.prod (Prog.wordTy 8) (.sum .one bitTy))) = "(2^256 * 2?)?".toList := by decide
example : printTy (Prog.wordTy 10) = "2^1024".toList ∧ twoExpTy "1024".toList = some (Prog.wordTy 10) := by decide

/-- beyond the limit the parser refuses: one more `?` than the limit allows -/
theorem type_deeper_than_limit_refused (t : Ty) (rest : List Tok) :
    questions t maxDepth (.question :: rest) = none := by
  simp [questions]

/-! ### statements -/

/-- **parse_render** (partial).  FULL STATEMENT: for every statement list `ss` that the renderer can
print — names that are symbols, literal data of the right length, known jets — the rendered text
(`name := expr : A -> B` lines) parses back to `ss`: same names, same combinators, same children,
same literal data, same arrows.
PROVED: under `Stmt.good` for every statement, i.e. the above and both types within the parser's
nesting limit.  MISSING, and false in the model as in the code: a program with a type nested deeper
than 1000 (see `type_print_parse_partial`). -/
theorem parse_render_partial (isJet : List Char → Bool) (ss : List Stmt) (h : ∀ s ∈ ss, s.good isJet) :
    parseRendered isJet (textChars ss) = some ss :=
  parseRendered_textChars isJet ss h

def exStmts : List Stmt :=
  [ ⟨"wit1".toList, .witness, .one, Prog.wordTy 3⟩,
    ⟨"const1".toList, .word 3 [true, false, true, false, true, false, true, true], .one, Prog.wordTy 3⟩,
    ⟨"ut1".toList, .unit, .sum .one (.prod bitTy (Prog.wordTy 3)), .one⟩,
    ⟨"asstl2".toList, .assertl "ut1".toList (List.replicate 64 10), .prod (.sum .one bitTy) .one, .one⟩,
    ⟨"asstr3".toList, .assertr (List.replicate 64 3) "ut1".toList, .prod (.sum bitTy .one) .one, .one⟩,
    ⟨"disc5".toList, .disconnect "ut1".toList "hole4".toList, .one, .prod .one .one⟩,
    ⟨"FAIL6".toList, .fail (List.replicate 128 11), .one, .one⟩,
    ⟨"jt7".toList, .jet "add_8".toList, Prog.wordTy 4, .prod bitTy (Prog.wordTy 3)⟩,
    ⟨"cs8".toList, .case "ut1".toList "FAIL6".toList, .prod bitTy .one, .one⟩,
    ⟨"main".toList, .comp "const1".toList "ut1".toList, .one, .one⟩ ]

set_option maxRecDepth 8000 in
/-- the hypotheses of `parse_render_partial` hold for a list with every kind of literal -/
example : ∀ s ∈ exStmts, s.good (fun n => n = "add_8".toList) := by
  intro s hs
  simp only [exStmts, List.mem_cons, List.mem_nil_iff, or_false] at hs
  rcases hs with rfl | rfl | rfl | rfl | rfl | rfl | rfl | rfl | rfl | rfl <;>
    (refine ⟨⟨by decide, ?_⟩, ?_, by decide, by decide⟩ <;> simp only [Expr.wf, Expr.payloadOk] <;> decide)

/-! ### render → parse → resolve -/

/-- **parse_render composed with resolve_render.**  A named program — a pointer DAG `root` whose
handles identify node objects (`IdsFaithful`), names that identify node objects (`NamesFaithful`:
one name per object, what `Namer` and the parser's name table provide), lines with the arity of
their combinators, every line printable (`Stmt.good`) — is rendered as one statement per node
object of the pointer-sharing post-order walk, sorted into witnesses / constants / program code.
Then (1) the rendered text parses to exactly those statements, and (2) looking any node's name up
among the parsed statements and rebuilding recursively gives that node: the same combinator, literal
data and arrow at every node below it (`shapeOf`), hence the same committed structure. -/
theorem render_parse_resolve (isJet : List Char → Bool) (name : T → Name) (payload : T → Payload) (root : T)
    (hi : IdsFaithful root) (hn : NamesFaithful name root)
    (har : ∀ t, Desc root t → ArityOk (lineOf name payload t))
    (hgood : ∀ t, Desc root t → (stmtOfLine (lineOf name payload t)).good isJet) :
    parseRendered isJet (textChars (renderStmts name payload root)) = some (renderStmts name payload root) ∧
    ∀ t, Desc root t → ∀ f, t.depth ≤ f →
      resolve ((renderStmts name payload root).map lineOfStmt) f (name t) = some (shapeOf payload t) :=
  HT.render_parse_resolve isJet name payload root hi hn har hgood

/-- every name is defined exactly once in the rendering (the defect of F-C17a: a name that is
referred to but never defined, or defined twice, cannot occur) -/
theorem rendered_names_unique (name : T → Name) (payload : T → Payload) (root : T)
    (hi : IdsFaithful root) (hn : NamesFaithful name root) (i j : Nat) (a b : Line Name Payload)
    (ha : (render name payload root)[i]? = some a) (hb : (render name payload root)[j]? = some b)
    (hab : a.name = b.name) : i = j :=
  render_names_unique name payload root hi hn i j a b ha hb hab

/-- the names the model of `Namer::assign_name` hands out (`id7`, `cp12`, `const3`, `wit1`, `FAIL6`,
`asstl4`, …) are symbols: they meet the hypothesis on names of `parse_render_partial` (`Stmt.wf`) -/
theorem namer_names_are_symbols (nm : Namer) (nd : Prog.Node) (hh : ∀ h, nd ≠ .hidden h) :
    symOK (nm.assign nd).1 = true :=
  namer_assign_symOK nm nd hh

example : ((({} : Namer).assign (.comp 0 1)).1, (({ other := 11 } : Namer).assign (.fail [])).1) =
    ("cp1".toList, "FAIL12".toList) := by decide

/-- a shared node: `main := pair u u` with one `unit` object `u`; the hypotheses hold and the
rendering has two statements -/
def exRoot : T := .bin 1 (.leaf 0) (.leaf 0)
def exName : T → Name := fun t => if t.id = 0 then "ut1".toList else "main".toList
def exPayload : T → Payload := fun t => if t.id = 0 then (.unit, .one, .one) else (.pair, .one, .prod .one .one)

example : (renderStmts exName exPayload exRoot).map (fun s => String.ofList (stmtChars s)) =
    ["ut1 := unit : 1 -> 1", "main := pair ut1 ut1 : 1 -> 1 * 1"] := by decide

end Props.C17
