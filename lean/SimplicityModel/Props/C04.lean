/-
C04 — type inference is sound, principal and order-independent.

Specification-level model: `Prog.constraints` (one rule per combinator, the arrows of
`src/types/arrow.rs`), finite ground solutions `Inf.Sol`, the prune order `Inf.Le`, the reference
unifier `Inf.unify` and `Prog.infer` (what the driver runs).
-/
import SimplicityModel.Prog.Infer
import SimplicityModel.InferTerm
import SimplicityModel.Prog.InferUBProps

namespace Props.C04
open Prog Inf

/-- the assignment the driver prints: least solution of the answer of the unifier -/
def arrowsOf (ρ : Nat → Inf.Ty) (n : Nat) : Array (BM4.Ty × BM4.Ty) :=
  (Array.range n).map fun i => (tyOfInf (ρ (2 * i)), tyOfInf (ρ (2 * i + 1)))

/-- **Sound and principal.** When `infer` accepts, the printed arrows come from an assignment `ρ`
that satisfies every typing constraint of every node (each combinator's rule, jets and words as
complete leaves, root `1 → 1` for programs) and is *below every other solution* in the prune order
(`1 ≤ T`, sums and products component-wise): it is the most general solution with all remaining
variables set to unit. -/
theorem infer_sound_and_principal (jt : JetTypes) (p : Plan) (program : Bool) (es : List Eqn)
    (arrows : Array (BM4.Ty × BM4.Ty))
    (hc : constraints jt p program = some es) (h : infer jt p program = .ok arrows) :
    ∃ ρ : Nat → Inf.Ty, Sol ρ es ∧ (∀ ρ', Sol ρ' es → ∀ x, Le (ρ x) (ρ' x)) ∧
      arrows = arrowsOf ρ p.size := by
  unfold infer at h
  rw [hc] at h
  simp only at h
  cases hu : unify unifyFuel es [] with
  | ok S =>
    rw [hu] at h
    simp only [InferRes.ok.injEq] at h
    have hl := unify_least unifyFuel es S hu
    exact ⟨closeUnit S, hl.1, hl.2, h.symm⟩
  | clash => rw [hu] at h; cases h
  | occurs => rw [hu] at h; cases h
  | fuel => rw [hu] at h; cases h

/-- **Rejected exactly when there is no finite solution.** A `typeError`/`occurs` answer means the
constraints have no finite solution at all … -/
theorem infer_rejects_only_unsolvable (jt : JetTypes) (p : Plan) (program : Bool) (es : List Eqn)
    (hc : constraints jt p program = some es)
    (h : infer jt p program = .typeError ∨ infer jt p program = .occurs) :
    ∀ ρ : Nat → Inf.Ty, ¬ Sol ρ es := by
  unfold infer at h
  rw [hc] at h
  simp only at h
  have hg := unify_good unifyFuel es []
  intro ρ hρ
  cases hu : unify unifyFuel es [] with
  | ok S => rw [hu] at h; rcases h with h | h <;> cases h
  | clash => rw [hu] at hg; exact hg ρ ⟨hρ, by simp [SolS]⟩
  | occurs => rw [hu] at hg; exact hg ρ ⟨hρ, by simp [SolS]⟩
  | fuel => rw [hu] at h; rcases h with h | h <;> cases h

/-- … and there is no third outcome: the unifier terminates (explicit fuel bound `enough es`), so
whenever the driver's fuel is at least that, the answer is `ok`, `typeError` or `occurs`; and any
definite answer is the answer for every larger fuel. -/
theorem infer_total (es : List Eqn) (hf : enough es ≤ unifyFuel) : unify unifyFuel es [] ≠ .fuel := by
  intro h
  have := unify_mono_le hf (unify_total es)
  rw [h] at this
  exact unify_total es this.symm

/-- **Order independence.** Accept/reject and the inferred types depend only on the *set* of
constraints — not on the order or multiplicity in which nodes were constructed, nor on fuel. -/
theorem order_independent_types {f f' : Nat} {E E' : List Eqn} {S S' : List Bind}
    (hsame : ∀ e, e ∈ E ↔ e ∈ E') (h : unify f E [] = .ok S) (h' : unify f' E' [] = .ok S') :
    ∀ x, closeUnit S x = closeUnit S' x :=
  least_order_independent hsame h h'

theorem order_independent_verdict {f f' : Nat} {E E' : List Eqn} {S' : List Bind}
    (hsame : ∀ e, e ∈ E ↔ e ∈ E') (h : unify f E [] = .clash ∨ unify f E [] = .occurs)
    (h' : unify f' E' [] = .ok S') : False :=
  error_order_independent hsame h h'

/-- Fewer constraints (a pruned branch, a hidden sub-expression) can only shrink the types. -/
theorem fewer_constraints_smaller_types {f f' : Nat} {E E' : List Eqn} {S S' : List Bind}
    (hsub : ∀ e ∈ E', e ∈ E) (h : unify f E [] = .ok S) (h' : unify f' E' [] = .ok S') :
    ∀ x, Le (closeUnit S' x) (closeUnit S x) :=
  least_mono hsub h h'

/-! Non-vacuity: the hypotheses are met — a typable plan with its solution, an untypable one. -/
example : ∃ es S, constraints (fun _ => none) #[.unit, .injl 0] false = some es ∧
    unify 50 es [] = .ok S ∧ tyOfInf (closeUnit S 3) = .sum .one .one :=
  ⟨_, _, rfl, rfl, rfl⟩
example : ∃ es, constraints (fun _ => none) #[.iden, .pair 0 0, .comp 1 1] false = some es ∧
    unify 50 es [] = .occurs :=
  ⟨_, rfl, rfl⟩

/-! ## The algorithm the code runs

`Prog.inferUB` (`Prog/InferUB.lean`, `UnionBound.lean`) is a transcription of what the library does:
`Context` with its slab of bounds, `UbElement` union–find with rank and path halving, `bind`/`unify`
with the case analysis of `context.rs` (eager completion, deferred occurs check), `Type::finalize`
(occurs check, free variables to unit, write-back) and `Arrow::…` as sequences of those calls, run
over a plan in a given construction order.  `Prog.ubEqns` are the equations the calls of a run stand
for (`unify a b ↦ a = b`, `bind_product e a b ↦ e = a × b`, `Type::sum a b ↦ new = a + b`, …) over
the element indices as type variables; they are computed without running the algorithm. -/

open UB in
/-- **(d) Path halving and union by rank do not change what a context represents.**  `root_element`
(which rewires parent pointers), bumping a rank and the choice of which root `unify` keeps leave the
set of assignments of the context unchanged, resp. exactly add the equation `x = y`. -/
theorem unionfind_preserves_meaning (F f : Nat) (c : Ctx) (x y : Nat) :
    (∀ c' r, rootElement F c x = .ok (c', r) →
      (∀ ρ, SolSt ρ c' ↔ SolSt ρ c) ∧ (∀ ρ, ParentSol ρ c' ↔ ParentSol ρ c) ∧ c'.slab = c.slab) ∧
    (∀ ρ, SolSt ρ (bumpRank c x) ↔ SolSt ρ c) ∧
    (WF c → ∀ c', unify F f c x y = .ok c' → ∀ ρ, SolSt ρ c' ↔ (SolSt ρ c ∧ ρ x = ρ y)) := by
  refine ⟨fun c' r h => ?_, fun ρ => (bumpRank_compress c x).sol ρ, fun w c' h => ?_⟩
  · obtain ⟨k, _, _⟩ := rootElement_spec _ _ _ _ _ h
    exact ⟨k.sol, k.par, k.slab⟩
  · have g := unify_good F f w x y
    rw [h] at g
    exact g.2.2.1

/-- **(a) An accepted run returns the least solution.**  If the transcribed algorithm finishes
without error on a plan (any construction order, any fuel), and its coverage check holds, there is an
assignment `ρ₀` of the run's equations that is *below every other solution* in the prune order, and
every constructed node gets exactly `ρ₀` of its source and target. -/
theorem inferUB_is_least_solution (F : Nat) (jt : JetTypes) (p : Plan) (order : List Nat)
    (program : Bool) {arrows : Array (Option (BM4.Ty × BM4.Ty))} {E : List Eqn}
    {ea : Array (Option ElemArrow)}
    (h : inferUBWith F jt p order program = .ok arrows true)
    (hE : ubEqns jt p order program = some (E, ea)) :
    ∃ ρ₀ : Nat → Inf.Ty, Sol ρ₀ E ∧ (∀ ρ, Sol ρ E → ∀ x, Le (ρ₀ x) (ρ x)) ∧ arrows.size = p.size ∧
      ∀ i s t, i < p.size → (ea[i]?).join = some (s, t) →
        arrows[i]? = some (some (tyOfInf (ρ₀ s), tyOfInf (ρ₀ t))) :=
  inferUB_least F jt p order program h hE

/-- … which is the solution the reference unifier computes: whenever `Inf.unify` answers `ok S` on
the same equations, every constructed node's arrow is `closeUnit S` of its source and target (so the
existing theorems about the reference unifier — sound, principal, order independent — apply to the
algorithm's output); and the reference unifier cannot reject what the algorithm accepts. -/
theorem inferUB_matches_reference_unifier (F f : Nat) (jt : JetTypes) (p : Plan) (order : List Nat)
    (program : Bool) {arrows : Array (Option (BM4.Ty × BM4.Ty))} {E : List Eqn}
    {ea : Array (Option ElemArrow)}
    (h : inferUBWith F jt p order program = .ok arrows true)
    (hE : ubEqns jt p order program = some (E, ea)) :
    (unify f E [] ≠ .clash ∧ unify f E [] ≠ .occurs) ∧
    ∀ S, unify f E [] = .ok S → ∀ i s t, i < p.size → (ea[i]?).join = some (s, t) →
      arrows[i]? = some (some (tyOfInf (closeUnit S s), tyOfInf (closeUnit S t))) := by
  obtain ⟨ρ₀, h1, h2, _, h4⟩ := inferUB_least F jt p order program h hE
  have hden : Den ρ₀ E [] := ⟨h1, by simp [SolS]⟩
  have hg := unify_good f E []
  refine ⟨⟨fun hc => ?_, fun hc => ?_⟩, fun S hS i s t hi hst => ?_⟩
  · rw [hc] at hg; exact hg ρ₀ hden
  · rw [hc] at hg; exact hg ρ₀ hden
  · have hl := unify_least f E S hS
    have heq : ∀ x, closeUnit S x = ρ₀ x := fun x => Le.antisymm (hl.2 ρ₀ h1 x) (h2 _ hl.1 x)
    rw [heq s, heq t]
    exact h4 i s t hi hst

/-- **(b) Errors only for unsolvable constraints.**  If the transcribed algorithm reports
`Error::Bind` (two different constructors must be equal) or `Error::OccursCheck` (a cycle), the
equations of the run have no finite solution at all — so the reference unifier does not accept them
either. -/
theorem inferUB_rejects_only_unsolvable (F f : Nat) (jt : JetTypes) (p : Plan) (order : List Nat)
    (program : Bool) {E : List Eqn} {ea : Array (Option ElemArrow)}
    (h : inferUBWith F jt p order program = .typeError ∨ inferUBWith F jt p order program = .occurs)
    (hE : ubEqns jt p order program = some (E, ea)) :
    (∀ ρ, ¬ Sol ρ E) ∧ ∀ S, unify f E [] ≠ .ok S := by
  have hno := Prog.inferUB_rejects_only_unsolvable F jt p order program h hE
  exact ⟨hno, fun S hS => hno _ (unify_least f E S hS).1⟩

/-! Non-vacuity: an accepted plan built out of index order, an occurs-check rejection, a clash. -/
example : ∃ E ea, ubEqns (fun _ => none) #[.unit, .injl 0, .iden, .comp 1 2] [2, 0, 1, 3] false = some (E, ea) ∧
    inferUBWith 50 (fun _ => none) #[.unit, .injl 0, .iden, .comp 1 2] [2, 0, 1, 3] false =
      .ok #[some (.one, .one), some (.one, .sum .one .one),
            some (.sum .one .one, .sum .one .one), some (.one, .sum .one .one)] true :=
  ⟨_, _, rfl, rfl⟩
example : ∃ E ea, ubEqns (fun _ => none) #[.iden, .pair 0 0, .comp 1 1] [0, 1, 2] false = some (E, ea) ∧
    inferUBWith 50 (fun _ => none) #[.iden, .pair 0 0, .comp 1 1] [0, 1, 2] false = .occurs :=
  ⟨_, _, rfl, rfl⟩
example : ∃ E ea, ubEqns (fun _ => none) #[.unit, .injl 0, .take 0, .comp 1 2] [0, 2, 1, 3] false = some (E, ea) ∧
    inferUBWith 50 (fun _ => none) #[.unit, .injl 0, .take 0, .comp 1 2] [0, 2, 1, 3] false = .typeError :=
  ⟨_, _, rfl, rfl⟩

end Props.C04
