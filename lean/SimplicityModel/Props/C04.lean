/-
C04 — type inference is sound, principal and order-independent.

Specification-level model: `Prog.constraints` (one rule per combinator, the arrows of
`src/types/arrow.rs`), finite ground solutions `Inf.Sol`, the prune order `Inf.Le`, the reference
unifier `Inf.unify` and `Prog.infer` (what the driver runs).
-/
import SimplicityModel.Prog.Infer
import SimplicityModel.InferTerm

namespace Props.C04
open Prog Inf

/-- the assignment the driver prints: least solution of the answer of the unifier -/
def arrowsOf (ρ : Nat → Inf.Ty) (n : Nat) : Array (BM4.Ty × BM4.Ty) :=
  (Array.range n).map fun i => (tyOfInf (ρ (2 * i)), tyOfInf (ρ (2 * i + 1)))

/-- **Sound and principal.** When `infer` accepts, the printed arrows come from an assignment `ρ`
that satisfies every typing constraint of every node (each combinator's rule, jets and words as
complete leaves, root `1 → 1` for programs) and is *below every other solution* in the prune order
(`1 ≤ T`, sums and products component-wise): it is the most general solution with all remaining
variables set to unit. -/
theorem infer_sound_and_principal (jt : JetTypes) (p : Plan) (program : Bool) (es : List Eqn)
    (arrows : Array (BM4.Ty × BM4.Ty))
    (hc : constraints jt p program = some es) (h : infer jt p program = .ok arrows) :
    ∃ ρ : Nat → Inf.Ty, Sol ρ es ∧ (∀ ρ', Sol ρ' es → ∀ x, Le (ρ x) (ρ' x)) ∧
      arrows = arrowsOf ρ p.size := by
  unfold infer at h
  rw [hc] at h
  simp only at h
  cases hu : unify unifyFuel es [] with
  | ok S =>
    rw [hu] at h
    simp only [InferRes.ok.injEq] at h
    have hl := unify_least unifyFuel es S hu
    exact ⟨closeUnit S, hl.1, hl.2, h.symm⟩
  | clash => rw [hu] at h; cases h
  | occurs => rw [hu] at h; cases h
  | fuel => rw [hu] at h; cases h

/-- **Rejected exactly when there is no finite solution.** A `typeError`/`occurs` answer means the
constraints have no finite solution at all … -/
theorem infer_rejects_only_unsolvable (jt : JetTypes) (p : Plan) (program : Bool) (es : List Eqn)
    (hc : constraints jt p program = some es)
    (h : infer jt p program = .typeError ∨ infer jt p program = .occurs) :
    ∀ ρ : Nat → Inf.Ty, ¬ Sol ρ es := by
  unfold infer at h
  rw [hc] at h
  simp only at h
  have hg := unify_good unifyFuel es []
  intro ρ hρ
  cases hu : unify unifyFuel es [] with
  | ok S => rw [hu] at h; rcases h with h | h <;> cases h
  | clash => rw [hu] at hg; exact hg ρ ⟨hρ, by simp [SolS]⟩
  | occurs => rw [hu] at hg; exact hg ρ ⟨hρ, by simp [SolS]⟩
  | fuel => rw [hu] at h; rcases h with h | h <;> cases h

/-- … and there is no third outcome: the unifier terminates (explicit fuel bound `enough es`), so
whenever the driver's fuel is at least that, the answer is `ok`, `typeError` or `occurs`; and any
definite answer is the answer for every larger fuel. -/
theorem infer_total (es : List Eqn) (hf : enough es ≤ unifyFuel) : unify unifyFuel es [] ≠ .fuel := by
  intro h
  have := unify_mono_le hf (unify_total es)
  rw [h] at this
  exact unify_total es this.symm

/-- **Order independence.** Accept/reject and the inferred types depend only on the *set* of
constraints — not on the order or multiplicity in which nodes were constructed, nor on fuel. -/
theorem order_independent_types {f f' : Nat} {E E' : List Eqn} {S S' : List Bind}
    (hsame : ∀ e, e ∈ E ↔ e ∈ E') (h : unify f E [] = .ok S) (h' : unify f' E' [] = .ok S') :
    ∀ x, closeUnit S x = closeUnit S' x :=
  least_order_independent hsame h h'

theorem order_independent_verdict {f f' : Nat} {E E' : List Eqn} {S' : List Bind}
    (hsame : ∀ e, e ∈ E ↔ e ∈ E') (h : unify f E [] = .clash ∨ unify f E [] = .occurs)
    (h' : unify f' E' [] = .ok S') : False :=
  error_order_independent hsame h h'

/-- Fewer constraints (a pruned branch, a hidden sub-expression) can only shrink the types. -/
theorem fewer_constraints_smaller_types {f f' : Nat} {E E' : List Eqn} {S S' : List Bind}
    (hsub : ∀ e ∈ E', e ∈ E) (h : unify f E [] = .ok S) (h' : unify f' E' [] = .ok S') :
    ∀ x, Le (closeUnit S' x) (closeUnit S x) :=
  least_mono hsub h h'

/-! Non-vacuity: the hypotheses are met — a typable plan with its solution, an untypable one. -/
example : ∃ es S, constraints (fun _ => none) #[.unit, .injl 0] false = some es ∧
    unify 50 es [] = .ok S ∧ tyOfInf (closeUnit S 3) = .sum .one .one :=
  ⟨_, _, rfl, rfl, rfl⟩
example : ∃ es, constraints (fun _ => none) #[.iden, .pair 0 0, .comp 1 1] false = some es ∧
    unify 50 es [] = .occurs :=
  ⟨_, rfl, rfl⟩

end Props.C04
