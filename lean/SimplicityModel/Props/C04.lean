/-
C04 — type inference is sound, principal and order-independent.

Specification-level model: `Prog.constraints` (one rule per combinator, the arrows of
`src/types/arrow.rs`), finite ground solutions `Inf.Sol`, the prune order `Inf.Le`, the reference
unifier `Inf.unify` and `Prog.infer` (what the driver runs).
-/
import SimplicityModel.Prog.Infer
import SimplicityModel.InferTerm
import SimplicityModel.Prog.InferUBProps
import SimplicityModel.Prog.InferUBBisim
import SimplicityModel.Prog.InferUBTerm

namespace Props.C04
open Prog Inf

/-- the assignment the driver prints: least solution of the answer of the unifier -/
def arrowsOf (ρ : Nat → Inf.Ty) (n : Nat) : Array (BM4.Ty × BM4.Ty) :=
  (Array.range n).map fun i => (tyOfInf (ρ (2 * i)), tyOfInf (ρ (2 * i + 1)))

/-- **Sound and principal.** When `infer` accepts, the printed arrows come from an assignment `ρ`
that satisfies every typing constraint of every node (each combinator's rule, jets and words as
complete leaves, root `1 → 1` for programs) and is *below every other solution* in the prune order
(`1 ≤ T`, sums and products component-wise): it is the most general solution with all remaining
variables set to unit. -/
theorem infer_sound_and_principal (jt : JetTypes) (p : Plan) (program : Bool) (es : List Eqn)
    (arrows : Array (BM4.Ty × BM4.Ty))
    (hc : constraints jt p program = some es) (h : infer jt p program = .ok arrows) :
    ∃ ρ : Nat → Inf.Ty, Sol ρ es ∧ (∀ ρ', Sol ρ' es → ∀ x, Le (ρ x) (ρ' x)) ∧
      arrows = arrowsOf ρ p.size := by
  unfold infer at h
  rw [hc] at h
  simp only at h
  cases hu : unify unifyFuel es [] with
  | ok S =>
    rw [hu] at h
    simp only [InferRes.ok.injEq] at h
    have hl := unify_least unifyFuel es S hu
    exact ⟨closeUnit S, hl.1, hl.2, h.symm⟩
  | clash => rw [hu] at h; cases h
  | occurs => rw [hu] at h; cases h
  | fuel => rw [hu] at h; cases h

/-- **Rejected exactly when there is no finite solution.** A `typeError`/`occurs` answer means the
constraints have no finite solution at all … -/
theorem infer_rejects_only_unsolvable (jt : JetTypes) (p : Plan) (program : Bool) (es : List Eqn)
    (hc : constraints jt p program = some es)
    (h : infer jt p program = .typeError ∨ infer jt p program = .occurs) :
    ∀ ρ : Nat → Inf.Ty, ¬ Sol ρ es := by
  unfold infer at h
  rw [hc] at h
  simp only at h
  have hg := unify_good unifyFuel es []
  intro ρ hρ
  cases hu : unify unifyFuel es [] with
  | ok S => rw [hu] at h; rcases h with h | h <;> cases h
  | clash => rw [hu] at hg; exact hg ρ ⟨hρ, by simp [SolS]⟩
  | occurs => rw [hu] at hg; exact hg ρ ⟨hρ, by simp [SolS]⟩
  | fuel => rw [hu] at h; rcases h with h | h <;> cases h

/-- … and there is no third outcome: the unifier terminates (explicit fuel bound `enough es`), so
whenever the driver's fuel is at least that, the answer is `ok`, `typeError` or `occurs`; and any
definite answer is the answer for every larger fuel. -/
theorem infer_total (es : List Eqn) (hf : enough es ≤ unifyFuel) : unify unifyFuel es [] ≠ .fuel := by
  intro h
  have := unify_mono_le hf (unify_total es)
  rw [h] at this
  exact unify_total es this.symm

/-- **Order independence.** Accept/reject and the inferred types depend only on the *set* of
constraints — not on the order or multiplicity in which nodes were constructed, nor on fuel. -/
theorem order_independent_types {f f' : Nat} {E E' : List Eqn} {S S' : List Bind}
    (hsame : ∀ e, e ∈ E ↔ e ∈ E') (h : unify f E [] = .ok S) (h' : unify f' E' [] = .ok S') :
    ∀ x, closeUnit S x = closeUnit S' x :=
  least_order_independent hsame h h'

theorem order_independent_verdict {f f' : Nat} {E E' : List Eqn} {S' : List Bind}
    (hsame : ∀ e, e ∈ E ↔ e ∈ E') (h : unify f E [] = .clash ∨ unify f E [] = .occurs)
    (h' : unify f' E' [] = .ok S') : False :=
  error_order_independent hsame h h'

/-- Fewer constraints (a pruned branch, a hidden sub-expression) can only shrink the types. -/
theorem fewer_constraints_smaller_types {f f' : Nat} {E E' : List Eqn} {S S' : List Bind}
    (hsub : ∀ e ∈ E', e ∈ E) (h : unify f E [] = .ok S) (h' : unify f' E' [] = .ok S') :
    ∀ x, Le (closeUnit S' x) (closeUnit S x) :=
  least_mono hsub h h'

/-! Non-vacuity: the hypotheses are met — a typable plan with its solution, an untypable one. -/
example : ∃ es S, constraints (fun _ => none) #[.unit, .injl 0] false = some es ∧
    unify 50 es [] = .ok S ∧ tyOfInf (closeUnit S 3) = .sum .one .one :=
  ⟨_, _, rfl, rfl, rfl⟩
example : ∃ es, constraints (fun _ => none) #[.iden, .pair 0 0, .comp 1 1] false = some es ∧
    unify 50 es [] = .occurs :=
  ⟨_, rfl, rfl⟩

/-! ## The algorithm the code runs

`Prog.inferUB` (`Prog/InferUB.lean`, `UnionBound.lean`) is a transcription of what the library does:
`Context` with its slab of bounds, `UbElement` union–find with rank and path halving, `bind`/`unify`
with the case analysis of `context.rs` (eager completion, deferred occurs check), `Type::finalize`
(occurs check, free variables to unit, write-back) and `Arrow::…` as sequences of those calls, run
over a plan in a given construction order.  `Prog.ubEqns` are the equations the calls of a run stand
for (`unify a b ↦ a = b`, `bind_product e a b ↦ e = a × b`, `Type::sum a b ↦ new = a + b`, …) over
the element indices as type variables; they are computed without running the algorithm. -/

open UB in
/-- **(d) Path halving and union by rank do not change what a context represents.**  `root_element`
(which rewires parent pointers), bumping a rank and the choice of which root `unify` keeps leave the
set of assignments of the context unchanged, resp. exactly add the equation `x = y`. -/
theorem unionfind_preserves_meaning (F f : Nat) (c : Ctx) (x y : Nat) :
    (∀ c' r, rootElement F c x = .ok (c', r) →
      (∀ ρ, SolSt ρ c' ↔ SolSt ρ c) ∧ (∀ ρ, ParentSol ρ c' ↔ ParentSol ρ c) ∧ c'.slab = c.slab) ∧
    (∀ ρ, SolSt ρ (bumpRank c x) ↔ SolSt ρ c) ∧
    (WF c → ∀ c', unify F f c x y = .ok c' → ∀ ρ, SolSt ρ c' ↔ (SolSt ρ c ∧ ρ x = ρ y)) := by
  refine ⟨fun c' r h => ?_, fun ρ => (bumpRank_compress c x).sol ρ, fun w c' h => ?_⟩
  · obtain ⟨k, _, _⟩ := rootElement_spec _ _ _ _ _ h
    exact ⟨k.sol, k.par, k.slab⟩
  · have g := unify_good F f w x y
    rw [h] at g
    exact g.2.2.1

/-- **(a) An accepted run returns the least solution.**  If the transcribed algorithm finishes
without error on a plan (any construction order, any fuel), and its coverage check holds, there is an
assignment `ρ₀` of the run's equations that is *below every other solution* in the prune order, and
every constructed node gets exactly `ρ₀` of its source and target. -/
theorem inferUB_is_least_solution (F : Nat) (jt : JetTypes) (p : Plan) (order : List Nat)
    (program : Bool) {arrows : Array (Option (BM4.Ty × BM4.Ty))} {E : List Eqn}
    {ea : Array (Option ElemArrow)}
    (h : inferUBWith F jt p order program = .ok arrows true)
    (hE : ubEqns jt p order program = some (E, ea)) :
    ∃ ρ₀ : Nat → Inf.Ty, Sol ρ₀ E ∧ (∀ ρ, Sol ρ E → ∀ x, Le (ρ₀ x) (ρ x)) ∧ arrows.size = p.size ∧
      ∀ i s t, i < p.size → (ea[i]?).join = some (s, t) →
        arrows[i]? = some (some (tyOfInf (ρ₀ s), tyOfInf (ρ₀ t))) :=
  inferUB_least F jt p order program h hE

/-- … which is the solution the reference unifier computes: whenever `Inf.unify` answers `ok S` on
the same equations, every constructed node's arrow is `closeUnit S` of its source and target (so the
existing theorems about the reference unifier — sound, principal, order independent — apply to the
algorithm's output); and the reference unifier cannot reject what the algorithm accepts. -/
theorem inferUB_matches_reference_unifier (F f : Nat) (jt : JetTypes) (p : Plan) (order : List Nat)
    (program : Bool) {arrows : Array (Option (BM4.Ty × BM4.Ty))} {E : List Eqn}
    {ea : Array (Option ElemArrow)}
    (h : inferUBWith F jt p order program = .ok arrows true)
    (hE : ubEqns jt p order program = some (E, ea)) :
    (unify f E [] ≠ .clash ∧ unify f E [] ≠ .occurs) ∧
    ∀ S, unify f E [] = .ok S → ∀ i s t, i < p.size → (ea[i]?).join = some (s, t) →
      arrows[i]? = some (some (tyOfInf (closeUnit S s), tyOfInf (closeUnit S t))) := by
  obtain ⟨ρ₀, h1, h2, _, h4⟩ := inferUB_least F jt p order program h hE
  have hden : Den ρ₀ E [] := ⟨h1, by simp [SolS]⟩
  have hg := unify_good f E []
  refine ⟨⟨fun hc => ?_, fun hc => ?_⟩, fun S hS i s t hi hst => ?_⟩
  · rw [hc] at hg; exact hg ρ₀ hden
  · rw [hc] at hg; exact hg ρ₀ hden
  · have hl := unify_least f E S hS
    have heq : ∀ x, closeUnit S x = ρ₀ x := fun x => Le.antisymm (hl.2 ρ₀ h1 x) (h2 _ hl.1 x)
    rw [heq s, heq t]
    exact h4 i s t hi hst

/-- **(b) Errors only for unsolvable constraints.**  If the transcribed algorithm reports
`Error::Bind` (two different constructors must be equal) or `Error::OccursCheck` (a cycle), the
equations of the run have no finite solution at all — so the reference unifier does not accept them
either. -/
theorem inferUB_rejects_only_unsolvable (F f : Nat) (jt : JetTypes) (p : Plan) (order : List Nat)
    (program : Bool) {E : List Eqn} {ea : Array (Option ElemArrow)}
    (h : inferUBWith F jt p order program = .typeError ∨ inferUBWith F jt p order program = .occurs)
    (hE : ubEqns jt p order program = some (E, ea)) :
    (∀ ρ, ¬ Sol ρ E) ∧ ∀ S, unify f E [] ≠ .ok S := by
  have hno := Prog.inferUB_rejects_only_unsolvable F jt p order program h hE
  exact ⟨hno, fun S hS => hno _ (unify_least f E S hS).1⟩

/-- **The two transcriptions of `arrow.rs` agree.**  For a construction order in which every node
occurs exactly once, the equations of the operations the node constructors perform on the context
(`ubEqns`) and the constraint set of the specification (`Prog.constraints`, what the reference
unifier is run on) have the same solutions on the arrows of the nodes. -/
theorem ub_equations_are_the_constraints (jt : JetTypes) (p : Plan) (order : List Nat) (program : Bool)
    {E : List Eqn} {ea : Array (Option ElemArrow)} {es : List Eqn}
    (hE : ubEqns jt p order program = some (E, ea)) (hc : constraints jt p program = some es)
    (hnd : order.Nodup) (hall : ∀ i, i < p.size → i ∈ order) :
    (∀ ρ, Sol ρ E → ∃ ρ', Sol ρ' es ∧
      ∀ (i : Nat) s t, (ea[i]?).join = some (s, t) → ρ' (2 * i) = ρ s ∧ ρ' (2 * i + 1) = ρ t) ∧
    (∀ ρ', Sol ρ' es → ∃ ρ, Sol ρ E ∧
      ∀ (i : Nat) s t, (ea[i]?).join = some (s, t) → ρ s = ρ' (2 * i) ∧ ρ t = ρ' (2 * i + 1)) :=
  ub_ref_bisim jt p order program hE hc hnd hall

/-- **Refinement, accepted runs.**  Whenever the transcribed algorithm (any fuel, any construction
order that builds every node once) accepts a plan and the specification-level `Prog.infer`
(reference unifier on `Prog.constraints`) gives a definite answer, that answer is `ok` with exactly
the same arrow at every node.  Hence `infer_sound_and_principal`, `order_independent_types`, … hold
for what the algorithm returns. -/
theorem inferUB_eq_infer (F : Nat) (jt : JetTypes) (p : Plan) (order : List Nat) (program : Bool)
    {arrows : Array (Option (BM4.Ty × BM4.Ty))} {E : List Eqn} {ea : Array (Option ElemArrow)}
    (hnd : order.Nodup) (hall : ∀ i, i < p.size → i ∈ order)
    (hE : ubEqns jt p order program = some (E, ea))
    (h : inferUBWith F jt p order program = .ok arrows true) :
    (infer jt p program ≠ .typeError ∧ infer jt p program ≠ .occurs) ∧
    ∀ arrows', infer jt p program = .ok arrows' → arrows = arrows'.map some := by
  obtain ⟨ρ₀, hsol, hleast, hsize, hval⟩ := inferUB_least F jt p order program h hE
  -- every node has an element arrow
  have hea : ∀ i, i < p.size → ∃ s t, (ea[i]?).join = some (s, t) := by
    intro i hi
    unfold ubEqns at hE
    split at hE
    · cases hE
    · next E0 arrows0 k0 hcon =>
      split at hE
      · cases hE
      · simp only [Option.some.injEq, Prod.mk.injEq] at hE
        obtain ⟨_, rfl⟩ := hE
        have := (constructEqns_arrows jt p order _ 0 E0 arrows0 k0 hcon (by simp)).2 i (hall i hi)
        cases hj : (arrows0[i]?).join with
        | none => exact absurd hj this
        | some a => exact ⟨a.1, a.2, rfl⟩
  refine ⟨⟨fun hc => ?_, fun hc => ?_⟩, fun arrows' h' => ?_⟩
  · cases hcs : constraints jt p program with
    | none => simp [infer, hcs] at hc
    | some es =>
      obtain ⟨ρ', hρ', _⟩ := (ub_ref_bisim jt p order program hE hcs hnd hall).1 ρ₀ hsol
      exact infer_rejects_only_unsolvable jt p program es hcs (.inl hc) ρ' hρ'
  · cases hcs : constraints jt p program with
    | none => simp [infer, hcs] at hc
    | some es =>
      obtain ⟨ρ', hρ', _⟩ := (ub_ref_bisim jt p order program hE hcs hnd hall).1 ρ₀ hsol
      exact infer_rejects_only_unsolvable jt p program es hcs (.inr hc) ρ' hρ'
  · cases hcs : constraints jt p program with
    | none => simp [infer, hcs] at h'
    | some es =>
      obtain ⟨ρL, hLsol, hLleast, hLarr⟩ := infer_sound_and_principal jt p program es arrows' hcs h'
      subst hLarr
      obtain ⟨hb1, hb2⟩ := ub_ref_bisim jt p order program hE hcs hnd hall
      obtain ⟨ρ', hρ', hag'⟩ := hb1 ρ₀ hsol
      obtain ⟨ρ, hρ, hag⟩ := hb2 ρL hLsol
      apply Array.ext
      · rw [hsize]; simp [arrowsOf]
      · intro i hi1 hi2
        have hi : i < p.size := hsize ▸ hi1
        obtain ⟨s, t, hst⟩ := hea i hi
        have e1 : ρ₀ s = ρL (2 * i) :=
          Le.antisymm ((hag i s t hst).1 ▸ hleast ρ hρ s) ((hag' i s t hst).1 ▸ hLleast ρ' hρ' (2 * i))
        have e2 : ρ₀ t = ρL (2 * i + 1) :=
          Le.antisymm ((hag i s t hst).2 ▸ hleast ρ hρ t) ((hag' i s t hst).2 ▸ hLleast ρ' hρ' (2 * i + 1))
        have hv := hval i s t hi hst
        rw [Array.getElem?_eq_getElem hi1] at hv
        simp only [Option.some.injEq] at hv
        rw [hv, e1, e2]
        simp [arrowsOf]

/-- **Refinement, rejected runs.**  Whenever the transcribed algorithm reports `Error::Bind` or
`Error::OccursCheck`, the constraint set of the specification has no finite solution, so
`Prog.infer` does not accept the plan either. -/
theorem inferUB_error_infer_rejects (F : Nat) (jt : JetTypes) (p : Plan) (order : List Nat)
    (program : Bool) {E : List Eqn} {ea : Array (Option ElemArrow)} {es : List Eqn}
    (hnd : order.Nodup) (hall : ∀ i, i < p.size → i ∈ order)
    (hE : ubEqns jt p order program = some (E, ea)) (hc : constraints jt p program = some es)
    (h : inferUBWith F jt p order program = .typeError ∨ inferUBWith F jt p order program = .occurs) :
    (∀ ρ', ¬ Sol ρ' es) ∧ ∀ arrows', infer jt p program ≠ .ok arrows' := by
  have hno := Prog.inferUB_rejects_only_unsolvable F jt p order program h hE
  have hno' : ∀ ρ', ¬ Sol ρ' es := fun ρ' hρ' => by
    obtain ⟨ρ, hρ, _⟩ := (ub_ref_bisim jt p order program hE hc hnd hall).2 ρ' hρ'
    exact hno ρ hρ
  refine ⟨hno', fun arrows' h' => ?_⟩
  obtain ⟨ρL, hLsol, _, _⟩ := infer_sound_and_principal jt p program es arrows' hc h'
  exact hno' ρL hLsol

/-- **Order independence of the algorithm itself.**  Two runs of the transcribed algorithm on the
same plan in two construction orders (each building every node once) that both finish return the
same arrows — via the specification: both equal what `Prog.infer` computes whenever that is
definite; stated directly: if both accept, every node gets the same arrow. -/
theorem inferUB_order_independent (F F' : Nat) (jt : JetTypes) (p : Plan) (order order' : List Nat)
    (program : Bool) {arrows arrows' : Array (Option (BM4.Ty × BM4.Ty))}
    {E E' : List Eqn} {ea ea' : Array (Option ElemArrow)} {es : List Eqn}
    (hnd : order.Nodup) (hall : ∀ i, i < p.size → i ∈ order)
    (hnd' : order'.Nodup) (hall' : ∀ i, i < p.size → i ∈ order')
    (hE : ubEqns jt p order program = some (E, ea)) (hE' : ubEqns jt p order' program = some (E', ea'))
    (hc : constraints jt p program = some es)
    (h : inferUBWith F jt p order program = .ok arrows true)
    (h' : inferUBWith F' jt p order' program = .ok arrows' true) :
    arrows = arrows' ∧
    (inferUBWith F' jt p order' program ≠ .typeError ∧ inferUBWith F' jt p order' program ≠ .occurs) := by
  have hterm := Inf.unify_total es
  -- the reference unifier terminates on `es` with some fuel; its answer decides both runs
  obtain ⟨ρ₀, hsol, _, _, _⟩ := inferUB_least F jt p order program h hE
  obtain ⟨ρ', hρ', _⟩ := (ub_ref_bisim jt p order program hE hc hnd hall).1 ρ₀ hsol
  have hg := unify_good (enough es) es []
  cases hu : unify (enough es) es [] with
  | fuel => exact absurd hu hterm
  | clash => rw [hu] at hg; exact absurd ⟨hρ', by simp [SolS]⟩ (hg ρ')
  | occurs => rw [hu] at hg; exact absurd ⟨hρ', by simp [SolS]⟩ (hg ρ')
  | ok S =>
    refine ⟨?_, fun hc' => ?_, fun hc' => ?_⟩
    · -- both equal the least solution of `es`
      have key : ∀ (G : Nat) (ord : List Nat) (ar : Array (Option (BM4.Ty × BM4.Ty))) (EE : List Eqn)
          (eaa : Array (Option ElemArrow)), ord.Nodup → (∀ i, i < p.size → i ∈ ord) →
          ubEqns jt p ord program = some (EE, eaa) → inferUBWith G jt p ord program = .ok ar true →
          ar = (arrowsOf (closeUnit S) p.size).map some := by
        intro G ord ar EE eaa hn ha hEE hrun
        obtain ⟨r₀, hs0, hl0, hsz0, hv0⟩ := inferUB_least G jt p ord program hrun hEE
        have hL := unify_least (enough es) es S hu
        obtain ⟨hb1, hb2⟩ := ub_ref_bisim jt p ord program hEE hc hn ha
        obtain ⟨r', hr', hag'⟩ := hb1 r₀ hs0
        obtain ⟨r, hr, hag⟩ := hb2 (closeUnit S) hL.1
        apply Array.ext
        · rw [hsz0]; simp [arrowsOf]
        · intro i hi1 hi2
          have hi : i < p.size := hsz0 ▸ hi1
          have hea : ∃ s t, (eaa[i]?).join = some (s, t) := by
            unfold ubEqns at hEE
            split at hEE
            · cases hEE
            · next E0 arrows0 k0 hcon =>
              split at hEE
              · cases hEE
              · simp only [Option.some.injEq, Prod.mk.injEq] at hEE
                obtain ⟨_, rfl⟩ := hEE
                have := (constructEqns_arrows jt p ord _ 0 E0 arrows0 k0 hcon (by simp)).2 i (ha i hi)
                cases hj : (arrows0[i]?).join with
                | none => exact absurd hj this
                | some a => exact ⟨a.1, a.2, rfl⟩
          obtain ⟨s, t, hst⟩ := hea
          have e1 : r₀ s = closeUnit S (2 * i) :=
            Le.antisymm ((hag i s t hst).1 ▸ hl0 r hr s) ((hag' i s t hst).1 ▸ hL.2 r' hr' (2 * i))
          have e2 : r₀ t = closeUnit S (2 * i + 1) :=
            Le.antisymm ((hag i s t hst).2 ▸ hl0 r hr t) ((hag' i s t hst).2 ▸ hL.2 r' hr' (2 * i + 1))
          have hv := hv0 i s t hi hst
          rw [Array.getElem?_eq_getElem hi1] at hv
          simp only [Option.some.injEq] at hv
          rw [hv, e1, e2]
          simp [arrowsOf]
      rw [key F order arrows E ea hnd hall hE h, key F' order' arrows' E' ea' hnd' hall' hE' h']
    · rw [hc'] at h'; cases h'
    · rw [hc'] at h'; cases h'

open UB in
/-- **(c) `unify`/`bind` terminate, explicit bound.**  Any sequence of context operations
(`Type::free/complete/sum/product`, `unify`, `bind_product`) run from the empty context with fuel
`2·(number of operations) + Hm + 3` — `Hm` = 1 + height of the tallest complete type an operation
introduces — never runs out of fuel: ranks strictly increase along parent links and are bounded by
the number of elements, so `root_element` finds a root; every nested `unify` that reaches the bind
closure has removed a root; the recursion against a complete type descends into that type; eager
completion makes complete types one taller but uses up an incomplete slab entry. -/
theorem unify_bind_terminate (F Hm : Nat) (ops : List Op) (hops : ∀ op ∈ ops, OpH Hm op)
    (hF : 2 * ops.length + Hm + 3 ≤ F) : runOps F {} ops ≠ .error .fuel :=
  (runOps_total (F := F) ops (tinv_empty Hm)
    (by simp only [show ({} : Ctx).elems.size = 0 from rfl, show ({} : Ctx).slab.size = 0 from rfl]; omega)
    hops).1

/-- **(c) the construction phase of `inferUB` terminates**: with fuel `20·|order| + planH + 9`
(`planH` = 1 + height of the tallest jet/word type of the plan) every `Arrow::…` constructor and
`set_arrow_to_program` finish. -/
theorem inferUB_construction_terminates (F : Nat) (jt : JetTypes) (p : Plan) (order : List Nat)
    (program : Bool) (hF : 20 * order.length + planH jt p + 9 ≤ F) :
    buildAll F jt p order program ≠ .error .fuel :=
  buildAll_total F jt p order program hF

/-- **(c), what is missing.**  With that fuel the whole run can report `fuel` only from the
finalisation phase: the construction succeeded and `finalizeAll` (the explicit-stack occurs check
and the post-order loop of `Type::finalize`) ran out.  Not proved: that the occurs-check loop needs
at most `4·|slab| + 1` iterations and that after a passed occurs check the post-order recursion is
at most `|slab|` deep. -/
theorem inferUB_terminates_partial (F : Nat) (jt : JetTypes) (p : Plan) (order : List Nat)
    (program : Bool) (hF : 20 * order.length + planH jt p + 9 ≤ F)
    (h : inferUBWith F jt p order program = .fuel) :
    ∃ st, buildAll F jt p order program = .ok st ∧ finalizeAll F p st = .fuel := by
  unfold inferUBWith at h
  have hb := buildAll_total F jt p order program hF
  cases hr : buildAll F jt p order program with
  | error r => rw [hr] at h; dsimp only at h; subst h; exact absurd hr hb
  | ok st => rw [hr] at h; exact ⟨st, rfl, h⟩

/-! Non-vacuity: an accepted plan built out of index order, an occurs-check rejection, a clash. -/
example : ∃ E ea, ubEqns (fun _ => none) #[.unit, .injl 0, .iden, .comp 1 2] [2, 0, 1, 3] false = some (E, ea) ∧
    inferUBWith 50 (fun _ => none) #[.unit, .injl 0, .iden, .comp 1 2] [2, 0, 1, 3] false =
      .ok #[some (.one, .one), some (.one, .sum .one .one),
            some (.sum .one .one, .sum .one .one), some (.one, .sum .one .one)] true :=
  ⟨_, _, rfl, rfl⟩
example : ∃ E ea, ubEqns (fun _ => none) #[.iden, .pair 0 0, .comp 1 1] [0, 1, 2] false = some (E, ea) ∧
    inferUBWith 50 (fun _ => none) #[.iden, .pair 0 0, .comp 1 1] [0, 1, 2] false = .occurs :=
  ⟨_, _, rfl, rfl⟩
example : ∃ E ea, ubEqns (fun _ => none) #[.unit, .injl 0, .take 0, .comp 1 2] [0, 2, 1, 3] false = some (E, ea) ∧
    inferUBWith 50 (fun _ => none) #[.unit, .injl 0, .take 0, .comp 1 2] [0, 2, 1, 3] false = .typeError :=
  ⟨_, _, rfl, rfl⟩

end Props.C04
