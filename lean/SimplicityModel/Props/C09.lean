/-
C09 — the commitment root depends only on committed structure.

`Cmr.lean`: roots over an *arbitrary* compression function and arbitrary constants (`Params`);
`Prog/Merkle.lean`: the same construction with real SHA-256, which the driver runs and the
correspondence compares bit for bit with the implementation on every node of every generated
program; `IvsCmr.lean`: the IV constants of the source are the tagged midstates the model uses.
-/
import SimplicityModel.Cmr
import SimplicityModel.Prog.Merkle
import SimplicityModel.IvsCmr
import SimplicityModel.Prog.MerkleProps

namespace Props.C09
open Cmr

/-- **A function of committed structure alone.** The root is defined on `C` — combinators, jets
and words, fail entropy, hidden roots — which has no place for witness data, types, or the
disconnected branch; `erase`-style maps from richer node kinds therefore cannot influence it.
Replacing any set of sub-expressions by hidden nodes carrying their roots leaves it unchanged. -/
theorem root_unchanged_by_hiding (P : Params) {c c' : C P} (h : Hide P c c') : cmr P c' = cmr P c :=
  cmr_hide P h

/-- **Different structures, different roots** (collision-extraction form): if two committed
structures have the same root then they are equal up to hidden parts, or the equality exhibits an
explicit hash event — two different `(midstate, block)` inputs of the compression function with one
output, a jet/word root produced by combinator hashing, two jets with one root, two tags with one
hash, or the initial state equal to a tagged IV. -/
theorem equal_roots_equal_structure (P : Params) (x y : C P) (h : cmr P x = cmr P y) :
    Sim P x y ∨ Bad P :=
  cmr_inj P x y h

/-- **The recomputed roots are the abstract roots.** For every well-indexed plan, the roots the
driver computes with SHA-256 — the numbers compared bit for bit with `cmr()` of the implementation on
every node — are `Cmr.cmr` of the node's *committed structure* `commitOf` (combinators, jets and
words, fail entropy, hidden roots; witness data, types and the disconnected branch are not part of
it), in the SHA-256 instance of the abstract parameters.  So hashing "the tagged combinator tree from
scratch", invariance under hiding and the uniqueness statement above all speak about those numbers. -/
theorem driver_roots_are_abstract_roots (jc : String → Nat) (p : Prog.Plan) (hw : Prog.WellIdx p)
    (cs : Array Nat) (h : Prog.cmrs (fun n => some (jc n)) p = some cs) :
    cs.size = p.size ∧ ∀ i, i < p.size → cs.getD i 0 =
      Cmr.cmr (Prog.shaParams jc) (Prog.shaCommitOf jc p (i + 1) i) :=
  Prog.cmrs_eq jc p hw cs h

/-- the committed structure of a node does not mention the branch of a disconnect -/
example (jc : String → Nat) (b : Option Nat) :
    Prog.shaCommitOf jc #[.iden, .disconnect 0 b] 2 1 = Prog.shaCommitOf jc #[.iden, .disconnect 0 none] 2 1 := by
  simp [Prog.shaCommitOf, Prog.commitOf]

/-- **Tie to the source:** every `Cmr::*_IV` constant of `src/merkle/cmr.rs` is the tagged-hash
midstate of its documented tag string (so "hashing the tagged combinator tree from scratch", which
is what the model does, uses the same IVs as the code). -/
theorem source_ivs_are_tagged_midstates :
    Gen.Ivs.cmr.all (fun r => Sha2.tagIV (Sha2.strBytes r.2.1) == r.2.2) = true :=
  Ivs.cmr_ivs_are_tagged_midstates

/-- the thirteen constants are all there -/
theorem source_ivs_complete : Gen.Ivs.cmr.map (·.1) =
    ["UNIT", "IDEN", "INJL", "INJR", "TAKE", "DROP", "COMP", "CASE", "PAIR", "DISCONNECT", "WITNESS",
     "FAIL", "CONST_WORD"] := by decide

end Props.C09
