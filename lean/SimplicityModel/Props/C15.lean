/-
C15 — The Elements environment shown to jets is the supplied transaction.

Property theorems only.  The model is `SimplicityModel/Env.lean` (supplied data `EnvArgs`,
`marshal` = `src/jet/elements/c_env.rs`, `cBuild` = env.c, `jetC` = elementsJets.c, `spec` = what a
getter has to return from the supplied data alone) and `SimplicityModel/EnvDigest.lean` (the digests
env.c precomputes, `cBuildD`, the digest jets `jetD`, `specD`, the view `envView` of the supplied
data); helper lemmas are in `EnvLemmas.lean` and `EnvDigest*.lean`.
`Sha256.hash` and the compression function are never unfolded: the getter statements hold for an
arbitrary hash function, the digest statements use only that a digest has 32 bytes
(`Sha256Length.lean`, proved from the shape of the result, nothing is evaluated).

Level: *partial* in the sense of DESIGN sec. 5 — the C jets and env.c are re-modelled, not verified;
pointers, lifetimes and struct layout of the FFI are runtime behaviour outside the model; a
`sha256_midstate` is modelled as its 32 bytes.
-/
import SimplicityModel.EnvLemmas
import SimplicityModel.EnvDigestView

namespace Props.C15
open Env

/-- **Every modelled getter returns the supplied field.**  For every environment given to
`ElementsEnv::new` (transaction, spent outputs, index, control block, script root, annex argument,
genesis hash) and every query — each of the 14 getters without argument (the relative-lock maxima
`tx_lock_distance`/`tx_lock_duration` included), the `issuance` jet at every index, the four `check_lock_*` jets for EVERY number they
may read (success exactly when the number is at most the lock the supplied data imply), the 15 `current_*`
getters, the 15 `input_*`/issuance getters at EVERY 32-bit index, the 7 `output_*` getters at every
index, `output_null_datum` at every pair of indices, `tappath` at every 8-bit index, `total_fee`
for every asset id — the value the jet writes when it reads what `c_env.rs` marshalled
(`jetC q (cBuild (marshal e))`; `none` = the jet fails) is the value `spec` computes from the
supplied data alone, including the absent values for out-of-range indices. -/
theorem getter_marshal (q : Query) (e : EnvArgs) : jetC q (cBuild (marshal e)) = spec q e := by
  cases q with
  | nullary g =>
    have hfin : (buildTx (marshal e).tx).isFinal = e.isFinal := by
      simp only [buildTx, marshal, EnvArgs.isFinal, EnvArgs.shown, List.all_map]
      congr 1
      funext p
      exact seq_final _
    cases g with
    | version => rfl
    | lockTime => rfl
    | numInputs => simp [jetC, spec, jet0, spec0, cBuild, marshal, buildTx, EnvArgs.shown]
    | numOutputs => simp [jetC, spec, jet0, spec0, cBuild, marshal, buildTx]
    | currentIndex => rfl
    | genesisBlockHash => rfl
    | scriptCmr => rfl
    | internalKey =>
      simp only [jetC, spec, jet0, spec0, cBuild, marshal, buildTap, ControlBlock.serialize,
        List.drop_succ_cons, List.drop_zero]
      rw [List.take_left' e.controlBlock.internalKey.len]
    | tapleafVersion =>
      simp only [jetC, spec, jet0, spec0, cBuild, marshal, buildTap, ControlBlock.serialize,
        List.headD_cons]
      rw [leaf_version _ _ e.controlBlock.even]
    | txIsFinal => simp only [jetC, spec, jet0, spec0, cBuild, hfin]
    | txLockHeight =>
      simp only [jetC, spec, jet0, spec0, cBuild, lockHeight, hfin]
      rfl
    | txLockTime =>
      simp only [jetC, spec, jet0, spec0, cBuild, lockTimeOf, hfin]
      rfl
    | txLockDistance =>
      simp only [jetC, spec, jet0, spec0, cBuild, lockDistanceOf, specRelLock, buildTx, lockRel_marshal]
      rfl
    | txLockDuration =>
      simp only [jetC, spec, jet0, spec0, cBuild, lockDurationOf, specRelLock, buildTx, lockRel_marshal]
      rfl
  | current g =>
    simp only [jetC, spec, cBuild, marshal, buildTx, EnvArgs.shown, List.getElem?_map, Option.map_map]
    congr 1
    funext p
    exact inW_marshal g p
  | input g i =>
    simp only [jetC, spec, cBuild, marshal, buildTx, EnvArgs.shown, List.getElem?_map, Option.map_map]
    congr 3
    funext p
    exact inW_marshal g p
  | output g i =>
    simp only [jetC, spec, cBuild, marshal, buildTx, List.getElem?_map, Option.map_map]
    congr 3
    funext o
    exact outW_marshal g o
  | nullDatum i j =>
    simp only [jetC, spec, cBuild, marshal, buildTx, List.getElem?_map]
    cases e.tx.outputs[i.toNat]? <;> simp [copyOutput, marshalOutput]
  | tappath i =>
    simp only [jetC, spec, cBuild, marshal, buildTap, ControlBlock.serialize]
    congr 2
    by_cases h : i.toNat < e.controlBlock.merkleBranch.length
    · rw [List.getElem?_map, List.getElem?_range h, List.getElem?_eq_getElem h]
      simp only [Option.map_some]
      congr 2
      rw [← flatten_chunk _ _ h]
      have : 33 + 32 * i.toNat = (e.controlBlock.internalKey.bytes.length + 32 * i.toNat) + 1 := by
        rw [e.controlBlock.internalKey.len]; omega
      rw [this, List.drop_succ_cons, List.drop_append,
        List.drop_of_length_le (by omega), Nat.add_sub_cancel_left, List.nil_append]
    · have h' : e.controlBlock.merkleBranch.length ≤ i.toNat := Nat.le_of_not_lt h
      rw [List.getElem?_eq_none (by simpa using h'), List.getElem?_eq_none h']
      rfl
  | totalFee id =>
    simp only [jetC, spec, cBuild, marshal, buildTx, feeOf_marshal]
  | issuance i =>
    simp only [jetC, spec, cBuild, marshal, buildTx, EnvArgs.shown, List.getElem?_map, Option.map_map]
    congr 3
    funext p
    exact issuanceW_marshal p
  | checkLock k x =>
    have hfin : (buildTx (marshal e).tx).isFinal = e.isFinal := by
      simp only [buildTx, marshal, EnvArgs.isFinal, EnvArgs.shown, List.all_map]
      congr 1
      funext p
      exact seq_final _
    have hlt : (buildTx (marshal e).tx).lockTime = e.tx.lockTime := rfl
    have hl : lockOf k (buildTx (marshal e).tx) = specLock k e := by
      cases k with
      | height =>
        simp only [lockOf, specLock, lockHeight, hfin, hlt]
        split <;> rfl
      | time =>
        simp only [lockOf, specLock, lockTimeOf, hfin, hlt]
        split <;> rfl
      | distance =>
        simp only [lockOf, specLock, lockDistanceOf, specRelLock, buildTx, lockRel_marshal]
        rfl
      | duration =>
        simp only [lockOf, specLock, lockDurationOf, specRelLock, buildTx, lockRel_marshal]
        rfl
    simp only [jetC, spec, cBuild, hl]

/-- the lock getters are not constant: BIP 68 on concrete sequence numbers (bit 31 disables, bit 22
selects the kind, the low 16 bits count), and the loop of `mallocTransaction` on three inputs -/
example : relLock false 0x0001002a = some 42 ∧ relLock true 0x0001002a = none ∧
    relLock true 0x0040ffff = some 65535 ∧ relLock false 0x80000005 = none ∧
    [(0x00000007 : UInt32), 0x00400009, 0x00000003].foldl (lockStep false) 0 = 7 ∧
    [(0x00000007 : UInt32), 0x00400009, 0x00000003].foldl (lockStep true) 0 = 9 := by decide

/-- Under the documented precondition (one spent output per input, in order) the inputs the
environment shows are exactly the transaction's inputs with their spent outputs: as many, and the
`i`-th is `(inputs[i], utxos[i])`. -/
theorem shown_full (e : EnvArgs) (h : e.utxos.length = e.tx.inputs.length) :
    e.shown.length = e.tx.inputs.length ∧
    ∀ i : Nat, e.shown[i]? = (e.tx.inputs[i]?).bind fun a => (e.utxos[i]?).map fun b => (a, b) := by
  constructor
  · simp [EnvArgs.shown, h]
  · intro i
    simp only [EnvArgs.shown]
    rw [List.zip_eq_zipWith, List.getElem?_zipWith]
    cases e.tx.inputs[i]? <;> cases e.utxos[i]? <;> rfl

/-- Out-of-range indices give the documented absent value: `input_*`/`output_*`/`tappath` return
the left injection (`[false]`), `current_*` fails. -/
theorem out_of_range_absent (e : EnvArgs) :
    (∀ g i, e.shown.length ≤ i.toNat → spec (.input g i) e = some [false]) ∧
    (∀ g i, e.tx.outputs.length ≤ i.toNat → spec (.output g i) e = some [false]) ∧
    (∀ i, e.controlBlock.merkleBranch.length ≤ i.toNat → spec (.tappath i) e = some [false]) ∧
    (∀ g, e.shown.length ≤ e.ix.toNat → spec (.current g) e = none) := by
  refine ⟨?_, ?_, ?_, ?_⟩
  · intro g i h; simp [spec, List.getElem?_eq_none h, optBits]
  · intro g i h; simp [spec, List.getElem?_eq_none h, optBits]
  · intro i h; simp [spec, List.getElem?_eq_none h, optBits]
  · intro g h; simp [spec, List.getElem?_eq_none h]

/-- **The model's annex is BIP-341's**: there is an annex exactly when the witness stack has AT
LEAST TWO elements and the last one starts with 0x50; what is given to the jets is that element
without the 0x50 byte. -/
theorem annex_rule (w : List Bytes) (a : Bytes) :
    getAnnex w = some a ↔ 2 ≤ w.length ∧ w.getLast? = some (0x50 :: a) := by
  unfold getAnnex
  by_cases h : 2 ≤ w.length
  · simp only [h, if_true, true_and]
    cases hl : w.getLast? with
    | none => simp
    | some l =>
      cases l with
      | nil => simp
      | cons b rest =>
        by_cases hb : b = 0x50
        · subst hb; simp
        · simp [hb]
  · simp [h]

/-- What `input_annex_hash` shows: the SHA-256 of that annex (without the tag byte), nothing when
there is no annex, the absent value when the index is out of range. -/
theorem annex_shown (e : EnvArgs) (i : UInt32) :
    jetC (.input .annexHash i) (cBuild (marshal e)) =
      some (optBits ((e.shown[i.toNat]?).map fun p =>
        optBits ((getAnnex p.1.scriptWitness).map fun a => bytesBits (Sha256.hash a)))) := by
  rw [getter_marshal]
  rfl

/-- The known finding F-C15, exactly: the rule of `get_annex` in `c_env.rs` (`getAnnexCode`)
differs from BIP-341's on precisely the one-element stacks whose element starts with 0x50. -/
theorem annex_code_differs (w : List Bytes) :
    getAnnexCode w ≠ getAnnex w ↔ ∃ a, w = [0x50 :: a] := by
  unfold getAnnexCode getAnnex
  match w with
  | [] => simp
  | [x] =>
    cases x with
    | nil => simp
    | cons b rest =>
      by_cases hb : b = 0x50
      · subst hb; simp
      · simp [hb]
  | x :: y :: r => simp

/-- The second known finding, exactly: what `output_is_fee` shows differs from Elements' `IsFee`
on precisely the outputs with empty script, explicit asset and NULL value. -/
theorem isFeeShown_differs (o : TxOut) :
    o.isFeeShown ≠ o.isFee ↔ (o.scriptPubkey = [] ∧ o.asset.isExplicit = true ∧ o.value = .null) := by
  unfold TxOut.isFeeShown TxOut.isFee
  cases hs : o.scriptPubkey <;> cases ha : o.asset.isExplicit <;> cases hv : o.value <;>
    simp [Amount.isConfidential, Amount.isExplicit]

/-- The `annex` argument of `ElementsEnv::new` and the `is_pegin` flag of an input do not reach the
jets: what is marshalled does not depend on them. -/
theorem annex_arg_and_pegin_flag_ignored (e : EnvArgs) (a : Option Bytes) (i : TxIn) (u : Utxo) (b : Bool) :
    marshal { e with annex := a } = marshal e ∧
    marshalInput ({ i with isPegin := b }, u) = marshalInput (i, u) := ⟨rfl, rfl⟩

/-! ### the digest jets -/

/-- **Every digest jet returns the digest of the supplied data.**  For every environment and every
digest query — the 24 digests without argument from `output_amounts_hash` to `tx_hash`,
`tapleaf_hash`, `tappath_hash`, `tap_env_hash` and `sig_all_hash`, `transaction_id`, and at EVERY
32-bit index `input_hash`, `input_utxo_hash`, `issuance_hash`, `issuance_entropy`,
`issuance_asset`, `issuance_token`, `output_hash` — the value the jet writes from what env.c
precomputed over what `c_env.rs` marshalled (`jetD q (cBuildD (marshalD e))`) is the value `specD`
computes from the supplied data alone: the digest, in the order and serialisation of
`txDigestsOf`/`tapDigestsOf`/`sigAllPre`, of the pieces of the VIEW of the supplied inputs and
outputs (`inView`, `outView`).  Marshalling loses nothing a digest depends on.
(`transaction_id`: `c_env.rs` passes `Transaction::txid()` through; it is modelled as `txidOf`, so
this case says only that the jet shows that value.) -/
theorem digest_marshal (q : DQuery) (e : EnvArgs) : jetD q (cBuildD (marshalD e)) = specD q e := by
  obtain ⟨h1, h2, h3, h4⟩ := cBuildD_marshalD e
  cases q with
  | nullary g => simp only [jetD, specD, h1, h2, h3]
  | input g i =>
    simp only [jetD, specD, h4, cBuild, marshal, buildTx, EnvArgs.shown, List.getElem?_map, Option.map_map]
    congr 3
    funext p
    simp only [Function.comp, inPieces_marshal]
  | outputHash i =>
    simp only [jetD, specD, h4, cBuild, marshal, buildTx, List.getElem?_map, Option.map_map]
    congr 3
    funext o
    simp only [Function.comp, outPieces_marshal]

/-- **The digests depend on the supplied data only through the view.**  Two environments with the
same view (`envView`: genesis hash, index, version, lock time, per input pegin parent / outpoint /
sequence / annex / spent asset, amount, script / script signature / issuance, per output asset /
amount / nonce / script / proofs, leaf version, script root, path, internal key — a NULL amount read
as explicit zero, a proof read as empty unless what it proves is confidential, the token amount and
its proof of a reissuance not at all) get the same answer from every digest jet except
`transaction_id`. -/
theorem digest_of_view (q : DQuery) (hq : q ≠ .nullary .transactionId) (e1 e2 : EnvArgs)
    (h : envView e1 = envView e2) :
    jetD q (cBuildD (marshalD e1)) = jetD q (cBuildD (marshalD e2)) := by
  rw [digest_marshal, digest_marshal, specD_view q hq, specD_view q hq, h]

/-- **`sig_all_hash` commits to everything the environment shows, the script signatures apart.**
If the jet `sig_all_hash` returns the same value on two environments then the two have the same
view without script signatures (`(envView e).signed`) — every field of every input, output and
issuance listed at `digest_of_view`, the taproot data, the genesis hash and the index — unless
SHA-256 collides on two of the byte strings hashed on the way (`NoCollision e1 e2`: injectivity of
SHA-256 on the finitely many strings `Hashed e1`, `Hashed e2`; a statement about SHA-256 that
cannot be evaluated here).  Conversely the value depends on nothing else. -/
theorem sig_all_hash_commits (e1 e2 : EnvArgs) (hnc : NoCollision e1 e2) :
    jetD (.nullary .sigAllHash) (cBuildD (marshalD e1)) = jetD (.nullary .sigAllHash) (cBuildD (marshalD e2)) ↔
      (envView e1).signed = (envView e2).signed := by
  rw [digest_marshal, digest_marshal]
  constructor
  · intro h
    simp only [specD, d0Bytes, Option.some.injEq] at h
    exact sigAll_commit e1 e2 (bytesBits_inj h) hnc
  · intro h
    simp only [specD, d0Bytes]
    rw [sigAll_of_signed e1 e2 h]

/-- Contrapositive, for one field at a time: if two environments differ in ANY component of the
view without script signatures, `sig_all_hash` returns different values on them (or SHA-256
collides on the strings hashed on the way). -/
theorem sig_all_hash_differs (e1 e2 : EnvArgs) (hnc : NoCollision e1 e2)
    (hd : (envView e1).signed ≠ (envView e2).signed) :
    jetD (.nullary .sigAllHash) (cBuildD (marshalD e1)) ≠ jetD (.nullary .sigAllHash) (cBuildD (marshalD e2)) :=
  fun h => hd ((sig_all_hash_commits e1 e2 hnc).mp h)

/-- What is NOT committed: the script signature and the `is_pegin` flag of an input, and the
witness stack beyond its annex, do not enter the view without script signatures; a NULL amount is
indistinguishable from the explicit amount zero (spent output, output, and the asset amount of an
issuance whose token amount is not NULL). -/
theorem not_committed (i : TxIn) (u : Utxo) (o : TxOut) (s : Bytes) (b : Bool) (w : List Bytes)
    (hw : getAnnex w = getAnnex i.scriptWitness) :
    (inView ({ i with scriptSig := s, isPegin := b, scriptWitness := w }, u)).signed = (inView (i, u)).signed ∧
    inView (i, { u with value := .null }) = inView (i, { u with value := .explicit 0 }) ∧
    outView { o with value := .null } = outView { o with value := .explicit 0 } ∧
    (i.inflationKeys.isNull = false →
      ({ i with amount := .null } : TxIn).issView = ({ i with amount := .explicit 0 } : TxIn).issView) := by
  refine ⟨?_, rfl, rfl, ?_⟩
  · simp only [inView, InView.signed, hw]
    rfl
  · intro hk
    have hkind : ({ i with amount := .null } : TxIn).issKind = ({ i with amount := .explicit 0 } : TxIn).issKind := by
      show (if (true && i.inflationKeys.isNull) = true then IssKind.none else _) =
        (if (false && i.inflationKeys.isNull) = true then IssKind.none else _)
      rw [hk]
      rfl
    unfold TxIn.issView
    rw [hkind]
    rfl

/-! ### non-vacuity: concrete non-trivial inputs -/

def h32 (b : UInt8) : B32 := ⟨List.replicate 32 b, by simp⟩

def exIn : TxIn :=
  { prevTxid := h32 3, prevVout := 7, sequence := 0xfffffffe, scriptSig := [1, 2], isPegin := false,
    peginGenesis := some (h32 9), blindingNonce := h32 0, assetEntropy := h32 5,
    amount := .explicit 1000, inflationKeys := .null, amountRangeproof := [], inflationKeysRangeproof := [],
    scriptWitness := [[0x30, 0x44], [0x50, 1, 2]] }

def exEnv : EnvArgs :=
  { tx := { version := 2, lockTime := 17, inputs := [exIn],
            outputs := [{ asset := .explicit (h32 4), value := .null, nonce := .null, scriptPubkey := [],
                          surjectionProof := [], rangeproof := [] }] }
    utxos := [{ asset := .confidential true (h32 6), value := .explicit 5, scriptPubkey := [0x51] }]
    ix := 0, scriptCmr := h32 1
    controlBlock := { leafVersion := 0xbe, outputKeyParity := true, internalKey := h32 2,
                      merkleBranch := [h32 7, h32 8], even := by decide, short := by decide }
    annex := none, genesisHash := h32 10 }

/-- the annex of the example is found and given without the tag byte; a one-element stack has none
in the model and one by the code's rule -/
example : getAnnex exIn.scriptWitness = some [1, 2] ∧ getAnnex [[0x50, 1, 2]] = none ∧
    getAnnexCode [[0x50, 1, 2]] = some [1, 2] := by decide

/-- the example is a new issuance shown at index 0 and absent at index 1 -/
example : exIn.issKind = .new ∧ exEnv.shown.length = 1 ∧
    spec (.input .sequence 1) exEnv = some [false] ∧
    (spec (.input .sequence 0) exEnv).map List.length = some 33 := by decide

/-- the example's output is of the shape of the second finding -/
example : (exEnv.tx.outputs.map TxOut.isFeeShown) = [true] ∧ (exEnv.tx.outputs.map TxOut.isFee) = [false] := by
  decide

set_option maxRecDepth 20000 in
/-- the whole pipeline on the example, without unfolding the hash: the marshalled environment shows
the null-valued output as a fee output, leaf version 0xbe, two path elements, and `current_sequence`
as the 32 bits of 0xfffffffe -/
example : jetC (.output .isFee 0) (cBuild (marshal exEnv)) = some [true, true] ∧
    jetC (.nullary .tapleafVersion) (cBuild (marshal exEnv)) = some (byteBits 0xbe) ∧
    jetC (.tappath 2) (cBuild (marshal exEnv)) = some [false] ∧
    (jetC (.tappath 1) (cBuild (marshal exEnv))).map List.length = some 257 ∧
    jetC (.current .sequence) (cBuild (marshal exEnv)) = some (natBits 32 0xfffffffe) := by decide

/-- a second environment: the example with another sequence number in its input -/
def exEnv2 : EnvArgs :=
  { exEnv with tx := { exEnv.tx with inputs := [{ exIn with sequence := 5 }] } }

/-- a third: the example with another script signature, pegin flag and first witness element -/
def exEnv3 : EnvArgs :=
  { exEnv with tx := { exEnv.tx with inputs :=
      [{ exIn with scriptSig := [9], isPegin := true, scriptWitness := [[0x31], [0x50, 1, 2]] }] } }

/-- the view of the example: one input with a new issuance whose NULL token amount is read as zero,
its annex without the tag byte, one output whose NULL value is read as zero -/
example : (envView exEnv).ins.map (·.iss) = [.new (h32 5) (.explicit 1000) (.explicit 0) [] []] ∧
    (envView exEnv).ins.map (·.annex) = [some [1, 2]] ∧
    (envView exEnv).outs.map (·.value) = [.explicit 0] := by decide

/-- the conclusion of `sig_all_hash_commits` separates environments: another sequence number is
another view; another script signature, pegin flag and witness element (same annex) is the same
view without script signatures, but not the same view -/
example : (envView exEnv).signed ≠ (envView exEnv2).signed ∧
    (envView exEnv).signed = (envView exEnv3).signed ∧ envView exEnv ≠ envView exEnv3 := by decide

/-- a digest jet answers with the 256 bits of a 32-byte digest (shown without evaluating SHA-256) -/
example : ∃ d : Bytes, specD (.nullary .sigAllHash) exEnv = some (bytesBits d) ∧ d.length = 32 :=
  ⟨_, rfl, hash_len _⟩

end Props.C15
