/-
C03 — validity, Merkle roots and cost agree with libsimplicity.

The claim proper is about two code bases; it is carried by comparing each of them with ONE
specification — the Lean decoder, reference type inference, SHA-256 roots and cost bound
(`Prog.decodeRedeem`) — on the same byte strings, plus the direct comparison of the two.  The
theorems below make that specification precise and tie its tables to both sources: *partial*.
-/
import SimplicityModel.Props.C02
import SimplicityModel.BoundsTie
import SimplicityModel.Props.C14
import SimplicityModel.Prog.MerkleProps
import SimplicityModel.IvsImr
import SimplicityModel.IvsAmr
import SimplicityModel.IvsTmr
import SimplicityModel.Gen.Consts

namespace Props.C03
open Prog

/-- **One verdict.** The specification is a function: a byte pair has one verdict and, when
accepted, one decoded program with its roots and cost; what is accepted is a canonical node list
followed by zero padding (C02). -/
theorem verdict_first_stage (tb : Tables) (prog wit : List Bool) (d : Decoded)
    (h : decodeRedeem tb prog wit = .ok d) :
    ∃ ns rest, Wire.decProgram tb.jc prog = .ok (ns, rest) ∧ prog = Wire.encProgram tb.jc ns ++ rest ∧
      rest.length < 8 ∧ (∀ b ∈ rest, b = false) ∧ ns ≠ [] ∧ Wire.NodesOk 0 ns :=
  Props.C02.decodeRedeem_canonical_partial tb prog wit d h

/-- **Roots are functions of structure**: the commitment roots the specification computes are the
abstract roots of the committed structure (C09). -/
theorem cmr_is_abstract_root (jc : String → Nat) (p : Plan) (hw : WellIdx p)
    (cs : Array Nat) (h : cmrs (fun n => some (jc n)) p = some cs) :
    cs.size = p.size ∧ ∀ i, i < p.size → cs.getD i 0 =
      Cmr.cmr (shaParams jc) (shaCommitOf jc p (i + 1) i) :=
  cmrs_eq jc p hw cs h

/-- **Same constants on the Rust side**: every identity-, annotated- and type-root IV of
`src/merkle/{ihr,amr,tmr}.rs` is the tagged SHA-256 midstate the specification uses. -/
theorem rust_ivs_are_tagged_midstates :
    Gen.Ivs.imr.all (fun r => Sha2.tagIV (Sha2.strBytes r.2.1) == r.2.2) = true ∧
    Gen.Ivs.amr.all (fun r => Sha2.tagIV (Sha2.strBytes r.2.1) == r.2.2) = true ∧
    Gen.Ivs.tmr.all (fun r => Sha2.tagIV (Sha2.strBytes r.2.1) == r.2.2) = true :=
  ⟨Ivs.imr_ivs_are_tagged_midstates, Ivs.amr_ivs_are_tagged_midstates, Ivs.tmr_ivs_are_tagged_midstates⟩

/-- **Same jet tables on both sides**: for all 471 Elements jets the Rust table and the C table of
libsimplicity have the same commitment root, source and target types and cost, and Rust's code is
the path through C's decode switches (C14). -/
theorem jet_tables_agree : type_of% Props.C14.elements_eq_C := Props.C14.elements_eq_C

/-- **Same cost constants**: the per-combinator overhead of the specification is the one in
`src/analysis.rs` (regenerated on every run). -/
theorem cost_overhead_as_in_source : Gen.Consts.OVERHEAD = Prog.OVERHEAD ∧ Gen.Consts.NEVER_EXECUTED = 0 := by
  decide

/-- **Same cost formulas**: the static cost the specification assigns to a redemption-time node is the
`cost` field that `RedeemData::new` obtains from the `NodeBounds` constructor of that node kind
(src/analysis.rs, regenerated on every run), applied to the children's costs and the widths of the
arrows. -/
theorem cost_formulas_as_in_source : type_of% @BoundsTie.annot_cost := @BoundsTie.annot_cost

/-- the cost bound of a `case` is overhead + the larger branch; of `comp` overhead + middle width +
both (saturating at 2^32 − 1): read off `annotNode` -/
example : satAdd 4294967290 100 = 4294967295 ∧ satAdd 100 (max 7 9) = 109 := by decide

end Props.C03
