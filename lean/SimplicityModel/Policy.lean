/-
Spike: C16 — `Policy::sorted` (after the repair) is idempotent and invariant under reordering.
-/
namespace Pol

inductive P where
  | leaf (tag : Nat) (x : Nat)        -- Unsatisfiable/Trivial/Key/After/Older/Sha256 with payload
  | and (l r : P)
  | or (l r : P)
  | thr (k : Nat) (subs : List P)

mutual
/-- derived `Ord`: constructor index, then fields left to right; `Vec` lexicographic -/
def cmp : P → P → Ordering
  | .leaf t x, .leaf t' x' => (compare t t').then (compare x x')
  | .leaf _ _, _ => .lt
  | .and _ _, .leaf _ _ => .gt
  | .and l r, .and l' r' => (cmp l l').then (cmp r r')
  | .and _ _, _ => .lt
  | .or _ _, .leaf _ _ => .gt
  | .or _ _, .and _ _ => .gt
  | .or l r, .or l' r' => (cmp l l').then (cmp r r')
  | .or _ _, .thr _ _ => .lt
  | .thr k s, .thr k' s' => (compare k k').then (cmpL s s')
  | .thr _ _, _ => .gt
def cmpL : List P → List P → Ordering
  | [], [] => .eq
  | [], _ :: _ => .lt
  | _ :: _, [] => .gt
  | a :: as, b :: bs => (cmp a b).then (cmpL as bs)
end

theorem then_eq_eq {a b : Ordering} : a.then b = .eq ↔ a = .eq ∧ b = .eq := by
  cases a <;> cases b <;> simp [Ordering.then]

theorem then_eq_lt {a b : Ordering} : a.then b = .lt ↔ a = .lt ∨ (a = .eq ∧ b = .lt) := by
  cases a <;> cases b <;> simp [Ordering.then]

theorem nat_cmp_eq {a b : Nat} (h : compare a b = .eq) : a = b := Nat.compare_eq_eq.1 h

mutual
theorem cmp_eq : ∀ (a b : P), cmp a b = .eq → a = b
  | .leaf t x, .leaf t' x', h => by
    simp only [cmp, then_eq_eq] at h; rw [nat_cmp_eq h.1, nat_cmp_eq h.2]
  | .leaf _ _, .and _ _, h => by simp [cmp] at h
  | .leaf _ _, .or _ _, h => by simp [cmp] at h
  | .leaf _ _, .thr _ _, h => by simp [cmp] at h
  | .and _ _, .leaf _ _, h => by simp [cmp] at h
  | .and l r, .and l' r', h => by
    simp only [cmp, then_eq_eq] at h; rw [cmp_eq l l' h.1, cmp_eq r r' h.2]
  | .and _ _, .or _ _, h => by simp [cmp] at h
  | .and _ _, .thr _ _, h => by simp [cmp] at h
  | .or _ _, .leaf _ _, h => by simp [cmp] at h
  | .or _ _, .and _ _, h => by simp [cmp] at h
  | .or l r, .or l' r', h => by
    simp only [cmp, then_eq_eq] at h; rw [cmp_eq l l' h.1, cmp_eq r r' h.2]
  | .or _ _, .thr _ _, h => by simp [cmp] at h
  | .thr _ _, .leaf _ _, h => by simp [cmp] at h
  | .thr _ _, .and _ _, h => by simp [cmp] at h
  | .thr _ _, .or _ _, h => by simp [cmp] at h
  | .thr k s, .thr k' s', h => by
    simp only [cmp, then_eq_eq] at h; rw [nat_cmp_eq h.1, cmpL_eq s s' h.2]
theorem cmpL_eq : ∀ (as bs : List P), cmpL as bs = .eq → as = bs
  | [], [], _ => rfl
  | [], _ :: _, h => by simp [cmpL] at h
  | _ :: _, [], h => by simp [cmpL] at h
  | a :: as, b :: bs, h => by
    simp only [cmpL, then_eq_eq] at h; rw [cmp_eq a b h.1, cmpL_eq as bs h.2]
end

mutual
theorem cmp_refl : ∀ (a : P), cmp a a = .eq
  | .leaf t x => by simp [cmp, then_eq_eq]
  | .and l r => by simp [cmp, then_eq_eq, cmp_refl l, cmp_refl r]
  | .or l r => by simp [cmp, then_eq_eq, cmp_refl l, cmp_refl r]
  | .thr k s => by simp [cmp, then_eq_eq, cmpL_refl s]
theorem cmpL_refl : ∀ (as : List P), cmpL as as = .eq
  | [] => rfl
  | a :: as => by simp [cmpL, then_eq_eq, cmp_refl a, cmpL_refl as]
end

mutual
theorem cmp_swap : ∀ (a b : P), (cmp a b).swap = cmp b a
  | .leaf t x, .leaf t' x' => by simp [cmp, Ordering.swap_then, Nat.compare_swap]
  | .leaf _ _, .and _ _ => by simp [cmp]
  | .leaf _ _, .or _ _ => by simp [cmp]
  | .leaf _ _, .thr _ _ => by simp [cmp]
  | .and _ _, .leaf _ _ => by simp [cmp]
  | .and l r, .and l' r' => by simp [cmp, Ordering.swap_then, cmp_swap l l', cmp_swap r r']
  | .and _ _, .or _ _ => by simp [cmp]
  | .and _ _, .thr _ _ => by simp [cmp]
  | .or _ _, .leaf _ _ => by simp [cmp]
  | .or _ _, .and _ _ => by simp [cmp]
  | .or l r, .or l' r' => by simp [cmp, Ordering.swap_then, cmp_swap l l', cmp_swap r r']
  | .or _ _, .thr _ _ => by simp [cmp]
  | .thr _ _, .leaf _ _ => by simp [cmp]
  | .thr _ _, .and _ _ => by simp [cmp]
  | .thr _ _, .or _ _ => by simp [cmp]
  | .thr k s, .thr k' s' => by simp [cmp, Ordering.swap_then, Nat.compare_swap, cmpL_swap s s']
theorem cmpL_swap : ∀ (as bs : List P), (cmpL as bs).swap = cmpL bs as
  | [], [] => rfl
  | [], _ :: _ => rfl
  | _ :: _, [] => rfl
  | a :: as, b :: bs => by simp [cmpL, Ordering.swap_then, cmp_swap a b, cmpL_swap as bs]
end

def rank : P → Nat
  | .leaf _ _ => 0 | .and _ _ => 1 | .or _ _ => 2 | .thr _ _ => 3

theorem cmp_of_rank_lt {a b : P} (h : rank a < rank b) : cmp a b = .lt := by
  cases a <;> cases b <;> simp [rank] at h <;> simp [cmp]

theorem rank_le_of_lt {a b : P} (h : cmp a b = .lt) : rank a ≤ rank b := by
  rcases Nat.lt_or_ge (rank b) (rank a) with h' | h'
  · have := cmp_of_rank_lt h'
    rw [← cmp_swap, h] at this; cases this
  · exact h'

theorem nat_lt_trans {a b c : Nat} (h1 : compare a b = .lt) (h2 : compare b c = .lt) : compare a c = .lt := by
  rw [Nat.compare_eq_lt] at *; omega

mutual
theorem cmp_trans : ∀ (a b c : P), cmp a b = .lt → cmp b c = .lt → cmp a c = .lt
  | .leaf t x, .leaf t' x', .leaf t'' x'', h1, h2 => by
    simp only [cmp, then_eq_lt] at *
    rcases h1 with h1 | ⟨e1, h1⟩ <;> rcases h2 with h2 | ⟨e2, h2⟩
    · exact .inl (nat_lt_trans h1 h2)
    · rw [← nat_cmp_eq e2]; exact .inl h1
    · rw [nat_cmp_eq e1]; exact .inl h2
    · rw [nat_cmp_eq e1, ← nat_cmp_eq e2]; exact .inr ⟨by simp, nat_lt_trans h1 h2⟩
  | .and l r, .and l' r', .and l'' r'', h1, h2 => by
    simp only [cmp, then_eq_lt] at *
    rcases h1 with h1 | ⟨e1, h1⟩ <;> rcases h2 with h2 | ⟨e2, h2⟩
    · exact .inl (cmp_trans l l' l'' h1 h2)
    · rw [← cmp_eq _ _ e2]; exact .inl h1
    · rw [cmp_eq _ _ e1]; exact .inl h2
    · rw [cmp_eq _ _ e1, ← cmp_eq _ _ e2]; exact .inr ⟨cmp_refl _, cmp_trans r r' r'' h1 h2⟩
  | .or l r, .or l' r', .or l'' r'', h1, h2 => by
    simp only [cmp, then_eq_lt] at *
    rcases h1 with h1 | ⟨e1, h1⟩ <;> rcases h2 with h2 | ⟨e2, h2⟩
    · exact .inl (cmp_trans l l' l'' h1 h2)
    · rw [← cmp_eq _ _ e2]; exact .inl h1
    · rw [cmp_eq _ _ e1]; exact .inl h2
    · rw [cmp_eq _ _ e1, ← cmp_eq _ _ e2]; exact .inr ⟨cmp_refl _, cmp_trans r r' r'' h1 h2⟩
  | .thr k s, .thr k' s', .thr k'' s'', h1, h2 => by
    simp only [cmp, then_eq_lt] at *
    rcases h1 with h1 | ⟨e1, h1⟩ <;> rcases h2 with h2 | ⟨e2, h2⟩
    · exact .inl (nat_lt_trans h1 h2)
    · rw [← nat_cmp_eq e2]; exact .inl h1
    · rw [nat_cmp_eq e1]; exact .inl h2
    · rw [nat_cmp_eq e1, ← nat_cmp_eq e2]; exact .inr ⟨by simp, cmpL_trans s s' s'' h1 h2⟩
  | .leaf _ _, .leaf _ _, .and _ _, _, _ => cmp_of_rank_lt (by simp [rank])
  | .leaf _ _, .leaf _ _, .or _ _, _, _ => cmp_of_rank_lt (by simp [rank])
  | .leaf _ _, .leaf _ _, .thr _ _, _, _ => cmp_of_rank_lt (by simp [rank])
  | .leaf _ _, .and _ _, .leaf _ _, h1, h2 => by
    have r1 := rank_le_of_lt h1; have r2 := rank_le_of_lt h2; simp [rank] at r1 r2
  | .leaf _ _, .and _ _, .and _ _, _, _ => cmp_of_rank_lt (by simp [rank])
  | .leaf _ _, .and _ _, .or _ _, _, _ => cmp_of_rank_lt (by simp [rank])
  | .leaf _ _, .and _ _, .thr _ _, _, _ => cmp_of_rank_lt (by simp [rank])
  | .leaf _ _, .or _ _, .leaf _ _, h1, h2 => by
    have r1 := rank_le_of_lt h1; have r2 := rank_le_of_lt h2; simp [rank] at r1 r2
  | .leaf _ _, .or _ _, .and _ _, _, _ => cmp_of_rank_lt (by simp [rank])
  | .leaf _ _, .or _ _, .or _ _, _, _ => cmp_of_rank_lt (by simp [rank])
  | .leaf _ _, .or _ _, .thr _ _, _, _ => cmp_of_rank_lt (by simp [rank])
  | .leaf _ _, .thr _ _, .leaf _ _, h1, h2 => by
    have r1 := rank_le_of_lt h1; have r2 := rank_le_of_lt h2; simp [rank] at r1 r2
  | .leaf _ _, .thr _ _, .and _ _, _, _ => cmp_of_rank_lt (by simp [rank])
  | .leaf _ _, .thr _ _, .or _ _, _, _ => cmp_of_rank_lt (by simp [rank])
  | .leaf _ _, .thr _ _, .thr _ _, _, _ => cmp_of_rank_lt (by simp [rank])
  | .and _ _, .leaf _ _, .leaf _ _, h1, h2 => by
    have r1 := rank_le_of_lt h1; have r2 := rank_le_of_lt h2; simp [rank] at r1 r2
  | .and _ _, .leaf _ _, .and _ _, h1, h2 => by
    have r1 := rank_le_of_lt h1; have r2 := rank_le_of_lt h2; simp [rank] at r1 r2
  | .and _ _, .leaf _ _, .or _ _, _, _ => cmp_of_rank_lt (by simp [rank])
  | .and _ _, .leaf _ _, .thr _ _, _, _ => cmp_of_rank_lt (by simp [rank])
  | .and _ _, .and _ _, .leaf _ _, h1, h2 => by
    have r1 := rank_le_of_lt h1; have r2 := rank_le_of_lt h2; simp [rank] at r1 r2
  | .and _ _, .and _ _, .or _ _, _, _ => cmp_of_rank_lt (by simp [rank])
  | .and _ _, .and _ _, .thr _ _, _, _ => cmp_of_rank_lt (by simp [rank])
  | .and _ _, .or _ _, .leaf _ _, h1, h2 => by
    have r1 := rank_le_of_lt h1; have r2 := rank_le_of_lt h2; simp [rank] at r1 r2
  | .and _ _, .or _ _, .and _ _, h1, h2 => by
    have r1 := rank_le_of_lt h1; have r2 := rank_le_of_lt h2; simp [rank] at r1 r2
  | .and _ _, .or _ _, .or _ _, _, _ => cmp_of_rank_lt (by simp [rank])
  | .and _ _, .or _ _, .thr _ _, _, _ => cmp_of_rank_lt (by simp [rank])
  | .and _ _, .thr _ _, .leaf _ _, h1, h2 => by
    have r1 := rank_le_of_lt h1; have r2 := rank_le_of_lt h2; simp [rank] at r1 r2
  | .and _ _, .thr _ _, .and _ _, h1, h2 => by
    have r1 := rank_le_of_lt h1; have r2 := rank_le_of_lt h2; simp [rank] at r1 r2
  | .and _ _, .thr _ _, .or _ _, _, _ => cmp_of_rank_lt (by simp [rank])
  | .and _ _, .thr _ _, .thr _ _, _, _ => cmp_of_rank_lt (by simp [rank])
  | .or _ _, .leaf _ _, .leaf _ _, h1, h2 => by
    have r1 := rank_le_of_lt h1; have r2 := rank_le_of_lt h2; simp [rank] at r1 r2
  | .or _ _, .leaf _ _, .and _ _, h1, h2 => by
    have r1 := rank_le_of_lt h1; have r2 := rank_le_of_lt h2; simp [rank] at r1 r2
  | .or _ _, .leaf _ _, .or _ _, h1, h2 => by
    have r1 := rank_le_of_lt h1; have r2 := rank_le_of_lt h2; simp [rank] at r1 r2
  | .or _ _, .leaf _ _, .thr _ _, _, _ => cmp_of_rank_lt (by simp [rank])
  | .or _ _, .and _ _, .leaf _ _, h1, h2 => by
    have r1 := rank_le_of_lt h1; have r2 := rank_le_of_lt h2; simp [rank] at r1 r2
  | .or _ _, .and _ _, .and _ _, h1, h2 => by
    have r1 := rank_le_of_lt h1; have r2 := rank_le_of_lt h2; simp [rank] at r1 r2
  | .or _ _, .and _ _, .or _ _, h1, h2 => by
    have r1 := rank_le_of_lt h1; have r2 := rank_le_of_lt h2; simp [rank] at r1 r2
  | .or _ _, .and _ _, .thr _ _, _, _ => cmp_of_rank_lt (by simp [rank])
  | .or _ _, .or _ _, .leaf _ _, h1, h2 => by
    have r1 := rank_le_of_lt h1; have r2 := rank_le_of_lt h2; simp [rank] at r1 r2
  | .or _ _, .or _ _, .and _ _, h1, h2 => by
    have r1 := rank_le_of_lt h1; have r2 := rank_le_of_lt h2; simp [rank] at r1 r2
  | .or _ _, .or _ _, .thr _ _, _, _ => cmp_of_rank_lt (by simp [rank])
  | .or _ _, .thr _ _, .leaf _ _, h1, h2 => by
    have r1 := rank_le_of_lt h1; have r2 := rank_le_of_lt h2; simp [rank] at r1 r2
  | .or _ _, .thr _ _, .and _ _, h1, h2 => by
    have r1 := rank_le_of_lt h1; have r2 := rank_le_of_lt h2; simp [rank] at r1 r2
  | .or _ _, .thr _ _, .or _ _, h1, h2 => by
    have r1 := rank_le_of_lt h1; have r2 := rank_le_of_lt h2; simp [rank] at r1 r2
  | .or _ _, .thr _ _, .thr _ _, _, _ => cmp_of_rank_lt (by simp [rank])
  | .thr _ _, .leaf _ _, .leaf _ _, h1, h2 => by
    have r1 := rank_le_of_lt h1; have r2 := rank_le_of_lt h2; simp [rank] at r1 r2
  | .thr _ _, .leaf _ _, .and _ _, h1, h2 => by
    have r1 := rank_le_of_lt h1; have r2 := rank_le_of_lt h2; simp [rank] at r1 r2
  | .thr _ _, .leaf _ _, .or _ _, h1, h2 => by
    have r1 := rank_le_of_lt h1; have r2 := rank_le_of_lt h2; simp [rank] at r1 r2
  | .thr _ _, .leaf _ _, .thr _ _, h1, h2 => by
    have r1 := rank_le_of_lt h1; have r2 := rank_le_of_lt h2; simp [rank] at r1 r2
  | .thr _ _, .and _ _, .leaf _ _, h1, h2 => by
    have r1 := rank_le_of_lt h1; have r2 := rank_le_of_lt h2; simp [rank] at r1 r2
  | .thr _ _, .and _ _, .and _ _, h1, h2 => by
    have r1 := rank_le_of_lt h1; have r2 := rank_le_of_lt h2; simp [rank] at r1 r2
  | .thr _ _, .and _ _, .or _ _, h1, h2 => by
    have r1 := rank_le_of_lt h1; have r2 := rank_le_of_lt h2; simp [rank] at r1 r2
  | .thr _ _, .and _ _, .thr _ _, h1, h2 => by
    have r1 := rank_le_of_lt h1; have r2 := rank_le_of_lt h2; simp [rank] at r1 r2
  | .thr _ _, .or _ _, .leaf _ _, h1, h2 => by
    have r1 := rank_le_of_lt h1; have r2 := rank_le_of_lt h2; simp [rank] at r1 r2
  | .thr _ _, .or _ _, .and _ _, h1, h2 => by
    have r1 := rank_le_of_lt h1; have r2 := rank_le_of_lt h2; simp [rank] at r1 r2
  | .thr _ _, .or _ _, .or _ _, h1, h2 => by
    have r1 := rank_le_of_lt h1; have r2 := rank_le_of_lt h2; simp [rank] at r1 r2
  | .thr _ _, .or _ _, .thr _ _, h1, h2 => by
    have r1 := rank_le_of_lt h1; have r2 := rank_le_of_lt h2; simp [rank] at r1 r2
  | .thr _ _, .thr _ _, .leaf _ _, h1, h2 => by
    have r1 := rank_le_of_lt h1; have r2 := rank_le_of_lt h2; simp [rank] at r1 r2
  | .thr _ _, .thr _ _, .and _ _, h1, h2 => by
    have r1 := rank_le_of_lt h1; have r2 := rank_le_of_lt h2; simp [rank] at r1 r2
  | .thr _ _, .thr _ _, .or _ _, h1, h2 => by
    have r1 := rank_le_of_lt h1; have r2 := rank_le_of_lt h2; simp [rank] at r1 r2
theorem cmpL_trans : ∀ (as bs cs : List P), cmpL as bs = .lt → cmpL bs cs = .lt → cmpL as cs = .lt
  | [], _, [], h1, h2 => by cases ‹List P› <;> simp [cmpL] at h1 h2
  | [], _, _ :: _, _, _ => rfl
  | _ :: _, [], _, h1, _ => by simp [cmpL] at h1
  | _ :: _, _ :: _, [], _, h2 => by simp [cmpL] at h2
  | a :: as, b :: bs, c :: cs, h1, h2 => by
    simp only [cmpL, then_eq_lt] at *
    rcases h1 with h1 | ⟨e1, h1⟩ <;> rcases h2 with h2 | ⟨e2, h2⟩
    · exact .inl (cmp_trans a b c h1 h2)
    · rw [← cmp_eq _ _ e2]; exact .inl h1
    · rw [cmp_eq _ _ e1]; exact .inl h2
    · rw [cmp_eq _ _ e1, ← cmp_eq _ _ e2]; exact .inr ⟨cmp_refl _, cmpL_trans as bs cs h1 h2⟩
end

/-! ### the order is total, transitive and antisymmetric -/

def le (a b : P) : Bool := cmp a b != .gt

theorem le_iff {a b : P} : le a b = true ↔ cmp a b = .lt ∨ a = b := by
  unfold le
  constructor
  · intro h
    cases hc : cmp a b with
    | lt => exact .inl rfl
    | eq => exact .inr (cmp_eq a b hc)
    | gt => simp [hc] at h
  · rintro (h | rfl)
    · simp [h]
    · simp [cmp_refl]

theorem le_total (a b : P) : (le a b || le b a) = true := by
  unfold le
  rw [← cmp_swap a b]
  cases cmp a b <;> simp [Ordering.swap]

theorem le_trans (a b c : P) (h1 : le a b = true) (h2 : le b c = true) : le a c = true := by
  rw [le_iff] at *
  rcases h1 with h1 | rfl
  · rcases h2 with h2 | rfl
    · exact .inl (cmp_trans a b c h1 h2)
    · exact .inl h1
  · exact h2

theorem le_antisymm (a b : P) (h1 : le a b = true) (h2 : le b a = true) : a = b := by
  rw [le_iff] at *
  rcases h1 with h1 | rfl
  · rcases h2 with h2 | rfl
    · rw [← cmp_swap, h1] at h2; cases h2
    · rfl
  · rfl

/-! ### `Policy::sort` (with the nested children sorted in place) -/

mutual
def sort : P → P
  | .leaf t x => .leaf t x
  | .and l r => if cmp (sort r) (sort l) = .gt then .and (sort r) (sort l) else .and (sort l) (sort r)
  | .or l r => if cmp (sort r) (sort l) = .gt then .or (sort r) (sort l) else .or (sort l) (sort r)
  | .thr k subs => .thr k ((sortL subs).mergeSort le)
def sortL : List P → List P
  | [] => []
  | a :: as => sort a :: sortL as
end

theorem sortL_eq_map (as : List P) : sortL as = as.map sort := by
  induction as with
  | nil => rfl
  | cons a as ih => simp [sortL, ih]

theorem map_fix : ∀ (ys : List P), (∀ y ∈ ys, sort y = y) → sortL ys = ys
  | [], _ => rfl
  | y :: ys, h => by
    simp only [sortL]
    rw [h y (by simp), map_fix ys (fun z hz => h z (by simp [hz]))]

theorem mergeSort_idem (xs : List P) : (xs.mergeSort le).mergeSort le = xs.mergeSort le :=
  List.mergeSort_of_pairwise (List.pairwise_mergeSort le_trans le_total xs)

mutual
theorem sort_idem : ∀ (p : P), sort (sort p) = sort p
  | .leaf t x => rfl
  | .and l r => by
    simp only [sort]
    split
    · next h =>
      simp only [sort, sort_idem l, sort_idem r]
      have : cmp (sort l) (sort r) ≠ .gt := by rw [← cmp_swap, h]; simp [Ordering.swap]
      simp [this]
    · next h => simp only [sort, sort_idem l, sort_idem r, h, if_false]
  | .or l r => by
    simp only [sort]
    split
    · next h =>
      simp only [sort, sort_idem l, sort_idem r]
      have : cmp (sort l) (sort r) ≠ .gt := by rw [← cmp_swap, h]; simp [Ordering.swap]
      simp [this]
    · next h => simp only [sort, sort_idem l, sort_idem r, h, if_false]
  | .thr k s => by
    simp only [sort]
    have hfix : ∀ y ∈ (sortL s).mergeSort le, sort y = y := fun y hy =>
      sortL_fix s y ((List.mergeSort_perm _ _).mem_iff.1 hy)
    rw [map_fix _ hfix, mergeSort_idem]
theorem sortL_fix : ∀ (as : List P), ∀ x ∈ sortL as, sort x = x
  | [], x, h => by simp [sortL] at h
  | a :: as, x, h => by
    simp only [sortL, List.mem_cons] at h
    rcases h with rfl | h
    · exact sort_idem a
    · exact sortL_fix as x h
end

/-! ### reordering of commutative children, at any depth -/

theorem sorted_eq_of_perm {xs ys : List P} (h : xs.Perm ys) : xs.mergeSort le = ys.mergeSort le := by
  apply List.Perm.eq_of_pairwise (le := fun a b => le a b = true)
  · intro a b _ _ h1 h2; exact le_antisymm a b h1 h2
  · exact List.pairwise_mergeSort le_trans le_total xs
  · exact List.pairwise_mergeSort le_trans le_total ys
  · exact (List.mergeSort_perm xs le).trans (h.trans (List.mergeSort_perm ys le).symm)

theorem sort_and_swap {l l' r r' : P} (hl : sort l = sort l') (hr : sort r = sort r') :
    sort (.and l r) = sort (.and r' l') := by
  simp only [sort, ← hl, ← hr]
  cases h : cmp (sort r) (sort l) with
  | gt =>
    have : cmp (sort l) (sort r) = .lt := by rw [← cmp_swap, h]; rfl
    simp [this]
  | lt =>
    have : cmp (sort l) (sort r) = .gt := by rw [← cmp_swap, h]; rfl
    simp [this]
  | eq =>
    have e := cmp_eq _ _ h
    simp [e, cmp_refl]

theorem sort_or_swap {l l' r r' : P} (hl : sort l = sort l') (hr : sort r = sort r') :
    sort (.or l r) = sort (.or r' l') := by
  simp only [sort, ← hl, ← hr]
  cases h : cmp (sort r) (sort l) with
  | gt =>
    have : cmp (sort l) (sort r) = .lt := by rw [← cmp_swap, h]; rfl
    simp [this]
  | lt =>
    have : cmp (sort l) (sort r) = .gt := by rw [← cmp_swap, h]; rfl
    simp [this]
  | eq =>
    have e := cmp_eq _ _ h
    simp [e, cmp_refl]

mutual
/-- `a` and `b` differ only by the order of the children of and/or/threshold nodes, at any depth -/
inductive Re : P → P → Prop
  | refl (a) : Re a a
  | and {l l' r r'} : Re l l' → Re r r' → Re (.and l r) (.and l' r')
  | andSwap {l l' r r'} : Re l l' → Re r r' → Re (.and l r) (.and r' l')
  | or {l l' r r'} : Re l l' → Re r r' → Re (.or l r) (.or l' r')
  | orSwap {l l' r r'} : Re l l' → Re r r' → Re (.or l r) (.or r' l')
  | thr {k s s'} : ReL s s' → Re (.thr k s) (.thr k s')
inductive ReL : List P → List P → Prop
  | nil : ReL [] []
  | cons {a b as bs} : Re a b → ReL as bs → ReL (a :: as) (b :: bs)
  | swap {a b as} : ReL (a :: b :: as) (b :: a :: as)
  | trans {x y z} : ReL x y → ReL y z → ReL x z
end

mutual
theorem sort_re : ∀ {a b : P}, Re a b → sort a = sort b
  | _, _, .refl _ => rfl
  | _, _, .and hl hr => by simp only [sort, sort_re hl, sort_re hr]
  | _, _, .andSwap hl hr => sort_and_swap (sort_re hl) (sort_re hr)
  | _, _, .or hl hr => by simp only [sort, sort_re hl, sort_re hr]
  | _, _, .orSwap hl hr => sort_or_swap (sort_re hl) (sort_re hr)
  | _, _, .thr hs => by simp only [sort]; rw [sorted_eq_of_perm (sortL_re hs)]
theorem sortL_re : ∀ {s s' : List P}, ReL s s' → (sortL s).Perm (sortL s')
  | _, _, .nil => .refl _
  | _, _, .cons h hs => by simp only [sortL]; rw [sort_re h]; exact (sortL_re hs).cons _
  | _, _, .swap => by simp only [sortL]; exact .swap _ _ _
  | _, _, .trans h1 h2 => (sortL_re h1).trans (sortL_re h2)
end

/-- **C16, canonical sorting**: idempotent, and equal on policies that differ only by the order of
commutative children at any depth -/
theorem sorted_canonical {a b : P} (h : Re a b) : sort a = sort b ∧ sort (sort a) = sort a :=
  ⟨sort_re h, sort_idem a⟩

#print axioms sorted_canonical
end Pol
