/-
C17 — facts about the lexer model: fuel does not matter, and the spelling of a well-formed token
followed by a delimiter lexes back to that token.
-/
import SimplicityModel.HumanLex
namespace HT

/-! ### lengths -/

theorem skipAux_length : ∀ (b : Bool) (cs : List Char), (skipAux b cs).length ≤ cs.length
  | _, [] => by simp [skipAux]
  | true, c :: r => by
    simp only [skipAux]
    split
    · have := skipAux_length false r; simp only [List.length_cons]; omega
    · have := skipAux_length true r; simp only [List.length_cons]; omega
  | false, [c] => by
    simp only [skipAux]
    split <;> simp
  | false, c :: d :: r' => by
    simp only [skipAux]
    split
    · have := skipAux_length false (d :: r'); simp only [List.length_cons] at *; omega
    · split
      · split
        · have := skipAux_length true r'; simp only [List.length_cons]; omega
        · simp
      · simp

theorem skip_length (cs : List Char) : (skip cs).length ≤ cs.length := skipAux_length false cs

theorem dropWhile_length_le (p : Char → Bool) (l : List Char) : (l.dropWhile p).length ≤ l.length :=
  (List.dropWhile_sublist p).length_le

theorem lexWord_length (c : Char) (r : List Char) (h : isSymStart c = true) :
    (lexWord (c :: r)).2.length ≤ r.length := by
  have hc : isSymChar c = true := by simp [isSymChar, h]
  simp only [lexWord, List.dropWhile_cons_of_pos hc]
  exact dropWhile_length_le _ _

theorem lexDash_length (r : List Char) : (lexDash r).2.length ≤ r.length := by
  have hw := lexWord_length '-' r (by decide)
  unfold lexDash
  split
  · split
    · simp
    · exact hw
  · exact hw

theorem lexColon_length (r : List Char) : (lexColon r).2.length ≤ r.length := by
  unfold lexColon
  split
  · split <;> simp
  · simp

theorem lexHash_length {r : List Char} {x : Tok × List Char} (h : lexHash r = some x) :
    x.2.length ≤ r.length := by
  unfold lexHash at h
  split at h
  · split at h
    · simp only [Option.some.injEq] at h; subst h; simp
    · simp only [] at h
      split at h
      · simp only [Option.some.injEq] at h; subst h; simp; omega
      · cases h
  · cases h

theorem lexZero_length {r : List Char} {x : Tok × List Char} (h : lexZero r = some x) :
    x.2.length ≤ r.length := by
  unfold lexZero at h
  split at h
  · rename_i d r'
    have d1 := dropWhile_length_le isBinChar r'
    have d2 := dropWhile_length_le isHexLower r'
    split at h
    · simp only [] at h
      split at h
      · cases h
      · simp only [Option.some.injEq] at h; subst h; simp only [List.length_cons]; omega
    · split at h
      · simp only [] at h
        split at h
        · cases h
        · simp only [Option.some.injEq] at h; subst h; simp only [List.length_cons]; omega
      · cases h
  · cases h

theorem lexTwo_length (r : List Char) : (lexTwo r).2.length ≤ r.length := by
  unfold lexTwo
  split
  · rename_i d e r'
    have d3 := dropWhile_length_le isDigit r'
    split
    · simp only [List.length_cons]; omega
    · simp
  · simp

theorem lexOne_length {cs : List Char} {t : Tok} {rest : List Char} (h : lexOne cs = some (t, rest)) :
    rest.length < cs.length := by
  cases cs with
  | nil => simp [lexOne] at h
  | cons c r =>
    simp only [lexOne] at h
    split at h
    · rename_i hs
      split at h
      · simp only [Option.some.injEq] at h
        have := lexDash_length r; rw [h] at this; simp only [List.length_cons]; simp only [] at this; omega
      · simp only [Option.some.injEq] at h
        have := lexWord_length c r hs; rw [h] at this; simp only [List.length_cons]; simp only [] at this; omega
    · split at h
      · simp only [Option.some.injEq] at h
        have := lexColon_length r; rw [h] at this; simp only [List.length_cons]; simp only [] at this; omega
      · split at h
        · have := lexHash_length h; simp only [List.length_cons]; simp only [] at this; omega
        · split at h
          · have := lexZero_length h; simp only [List.length_cons]; simp only [] at this; omega
          · split at h
            · simp only [Option.some.injEq] at h
              have := lexTwo_length r; rw [h] at this; simp only [List.length_cons]; simp only [] at this; omega
            · cases hp : lexPunct c with
              | none => rw [hp] at h; cases h
              | some t' =>
                rw [hp] at h
                simp only [Option.map_some, Option.some.injEq, Prod.mk.injEq] at h
                obtain ⟨_, rfl⟩ := h
                simp

/-! ### fuel does not matter -/

theorem lexF_fuel2 : ∀ (f g : Nat) (cs : List Char), cs.length + 1 ≤ f → cs.length + 1 ≤ g →
    lexF f cs = lexF g cs := by
  intro f
  induction f with
  | zero => intro g cs h; omega
  | succ f ih =>
    intro g cs hf hg
    cases g with
    | zero => omega
    | succ g =>
      simp only [lexF]
      have hs := skip_length cs
      split
      · rfl
      · cases hl : lexOne (skip cs) with
        | none => rfl
        | some x =>
          obtain ⟨t, rest⟩ := x
          have hlen := lexOne_length hl
          simp only []
          rw [ih g rest (by omega) (by omega)]

theorem lexF_fuel (f : Nat) (cs : List Char) (h : cs.length + 1 ≤ f) : lexF f cs = lex cs :=
  lexF_fuel2 f (cs.length + 1) cs h (Nat.le_refl _)

/-- one step of the lexer, without fuel -/
def lexStep (cs : List Char) : Option (List Tok) :=
  match skip cs with
  | [] => some []
  | cs' =>
    match lexOne cs' with
    | none => none
    | some (t, rest) => (lex rest).map (t :: ·)

theorem lex_unfold (cs : List Char) : lex cs = lexStep cs := by
  have hs := skip_length cs
  show lexF (cs.length + 1) cs = lexStep cs
  rw [lexF]
  unfold lexStep
  cases hsk : skip cs with
  | nil => rfl
  | cons c r =>
    simp only []
    rw [hsk] at hs
    cases hl : lexOne (c :: r) with
    | none => rfl
    | some x =>
      obtain ⟨t, rest⟩ := x
      have hlen := lexOne_length hl
      simp only [List.length_cons] at hlen hs
      simp only []
      rw [lexF_fuel _ rest (by omega)]

theorem lex_nil : lex [] = some [] := by
  rw [lex_unfold]; rfl

/-- white space between tokens is skipped -/
theorem lex_ws (c : Char) (rest : List Char) (h : isWs c = true) : lex (c :: rest) = lex rest := by
  rw [lex_unfold, lex_unfold rest]
  unfold lexStep
  have : skip (c :: rest) = skip rest := by
    cases rest with
    | nil => simp [skip, skipAux, h]
    | cons d r => simp [skip, skipAux, h]
  rw [this]

end HT

namespace HT

/-! ### the spelling of a token lexes back to the token -/

/-- characters that end every token: white space, `)` and `?` -/
def isDelim (c : Char) : Bool := isWs c || c == ')' || c == '?'

/-- the text after a token: nothing, or something that starts with a delimiter -/
def Sep (rest : List Char) : Prop := rest = [] ∨ ∃ c r, rest = c :: r ∧ isDelim c = true

/-- `s`, taken alone, is the symbol `s` (not a keyword, `_`, a jet name, or the start of a comment) -/
def symOK (s : List Char) : Bool :=
  match s with
  | [] => false
  | c :: r => isSymStart c && r.all isSymChar && classify s == .sym s && !(c == '-' && r.head? == some '-')

/-- the payload of the token is in the language of its regular expression -/
def Tok.ok : Tok → Bool
  | .jet n => !n.isEmpty && n.all isJetChar
  | .bin d => !d.isEmpty && d.all isBinChar
  | .hex d => !d.isEmpty && d.all isHexLower
  | .cmr d => d.length == 64 && d.all isHexAny
  | .twoExp d => match d with
    | e :: r => isPosDigit e && r.all isDigit
    | [] => false
  | .sym s => symOK s
  | _ => true

/-- tokens that end where they end whatever follows -/
def Tok.free : Tok → Bool
  | .assign | .arrow | .hashBrace | .lparen | .rparen | .plus | .star | .rbrace | .question
  | .cmr _ | .one => true
  | _ => false

theorem delim_facts {c : Char} (h : isDelim c = true) :
    isSymChar c = false ∧ isDigit c = false ∧ isBinChar c = false ∧ isHexLower c = false ∧
    isSymStart c = false ∧ (c == '=') = false ∧ (c == '>') = false ∧ (c == '^') = false ∧
    (c == '-') = false := by
  simp only [isDelim, isWs, Bool.or_eq_true, beq_iff_eq] at h
  rcases h with ((((rfl|rfl)|rfl)|rfl)|rfl)|rfl <;> decide

theorem span_append (p : Char → Bool) (s rest : List Char) (hs : s.all p = true)
    (hr : rest = [] ∨ ∃ c r, rest = c :: r ∧ p c = false) :
    (s ++ rest).takeWhile p = s ∧ (s ++ rest).dropWhile p = rest := by
  induction s with
  | nil =>
    rcases hr with rfl | ⟨c, r, rfl, hc⟩
    · simp
    · simp [List.takeWhile, List.dropWhile, hc]
  | cons a s ih =>
    simp only [List.all_cons, Bool.and_eq_true] at hs
    obtain ⟨ha, hs⟩ := hs
    obtain ⟨i1, i2⟩ := ih hs
    simp [List.takeWhile, List.dropWhile, ha, i1, i2]

theorem sep_of (p : Char → Bool) {rest : List Char} (h : Sep rest) (hp : ∀ c, isDelim c = true → p c = false) :
    rest = [] ∨ ∃ c r, rest = c :: r ∧ p c = false := by
  rcases h with rfl | ⟨c, r, rfl, hc⟩
  · exact .inl rfl
  · exact .inr ⟨c, r, rfl, hp c hc⟩

theorem lexWord_append (s rest : List Char) (hs : s.all isSymChar = true) (hr : Sep rest) :
    lexWord (s ++ rest) = (classify s, rest) := by
  obtain ⟨h1, h2⟩ := span_append isSymChar s rest hs (sep_of _ hr fun c hc => (delim_facts hc).1)
  simp only [lexWord, h1, h2]

theorem kw_text_sym (k : Kw) : k.text.all isSymChar = true := by cases k <;> decide
theorem kw_classify (k : Kw) : classify k.text = .kw k := by cases k <;> decide
theorem kw_start (k : Kw) : ∃ c r, k.text = c :: r ∧ isSymStart c = true ∧ (c == '-') = false := by
  cases k <;> exact ⟨_, _, rfl, by decide, by decide⟩

theorem jet_classify (n : List Char) (h : (!n.isEmpty && n.all isJetChar) = true) :
    classify ('j' :: 'e' :: 't' :: '_' :: n) = .jet n := by
  have hk : kwOf ('j' :: 'e' :: 't' :: '_' :: n) = none := by simp [kwOf, Kw.all, Kw.text]
  unfold classify
  simp only [hk]
  rw [if_neg (by simp)]
  simp only [h, if_true]

theorem jetChar_sym {c : Char} (h : isJetChar c = true) : isSymChar c = true := by
  simp only [isJetChar, Bool.or_eq_true, beq_iff_eq] at h
  simp only [isSymChar, isSymStart, Bool.or_eq_true, beq_iff_eq]
  rcases h with (h | h) | h
  · exact .inl (.inl (.inl (.inl (.inl (.inl h)))))
  · exact .inr h
  · exact .inl (.inl (.inl (.inl (.inr h))))

end HT

namespace HT

theorem ne_of_class {p : Char → Bool} {c d : Char} (hc : p c = true) (hd : p d = false) : (c == d) = false := by
  cases h : c == d with
  | false => rfl
  | true => rw [beq_iff_eq] at h; subst h; rw [hc] at hd; cases hd

theorem lexOne_text (t : Tok) (rest : List Char) (hok : t.ok = true) (hsep : t.free = true ∨ Sep rest) :
    lexOne (t.text ++ rest) = some (t, rest) := by
  have sepOnly : t.free = false → Sep rest := fun hf => by
    rcases hsep with h | h
    · rw [hf] at h; cases h
    · exact h
  cases t with
  | assign => simp [Tok.text, lexOne, lexColon, show isSymStart ':' = false by decide]
  | arrow => simp [Tok.text, lexOne, lexDash, show isSymStart '-' = true by decide]
  | hashBrace => simp [Tok.text, lexOne, lexHash, show isSymStart '#' = false by decide]
  | lparen => simp [Tok.text, lexOne, lexPunct, show isSymStart '(' = false by decide]
  | rparen => simp [Tok.text, lexOne, lexPunct, show isSymStart ')' = false by decide]
  | plus => simp [Tok.text, lexOne, lexPunct, show isSymStart '+' = false by decide]
  | star => simp [Tok.text, lexOne, lexPunct, show isSymStart '*' = false by decide]
  | rbrace => simp [Tok.text, lexOne, lexPunct, show isSymStart '}' = false by decide]
  | question => simp [Tok.text, lexOne, lexPunct, show isSymStart '?' = false by decide]
  | one => simp [Tok.text, lexOne, lexPunct, show isSymStart '1' = false by decide]
  | colon =>
    have hs := sepOnly rfl
    rcases hs with rfl | ⟨c, r, rfl, hc⟩
    · simp [Tok.text, lexOne, lexColon, show isSymStart ':' = false by decide]
    · have := (delim_facts hc).2.2.2.2.2.1
      simp [Tok.text, lexOne, lexColon, show isSymStart ':' = false by decide, this]
  | two =>
    have hs := sepOnly rfl
    rcases hs with rfl | ⟨c, r, rfl, hc⟩
    · simp [Tok.text, lexOne, lexTwo, show isSymStart '2' = false by decide]
    · have := (delim_facts hc).2.2.2.2.2.2.2.1
      cases r with
      | nil => simp [Tok.text, lexOne, lexTwo, show isSymStart '2' = false by decide]
      | cons e r' => simp [Tok.text, lexOne, lexTwo, show isSymStart '2' = false by decide, this]
  | kw k =>
    have hs := sepOnly rfl
    obtain ⟨c, r, hk, hc, hd⟩ := kw_start k
    have := lexWord_append k.text rest (kw_text_sym k) hs
    rw [kw_classify] at this
    simp only [Tok.text]
    rw [hk] at this ⊢
    simp only [List.cons_append, lexOne, hc, hd, if_true] at this ⊢
    simp [this]
  | underscore =>
    have hs := sepOnly rfl
    have := lexWord_append ['_'] rest (by decide) hs
    simp only [Tok.text, List.cons_append, List.nil_append] at this ⊢
    simp [lexOne, show isSymStart '_' = true by decide, this, show classify ['_'] = Tok.underscore by decide]
  | jet n =>
    have hs := sepOnly rfl
    simp only [Tok.ok] at hok
    have hn : n.all isSymChar = true := by
      simp only [Bool.and_eq_true, List.all_eq_true] at hok ⊢
      exact fun x hx => jetChar_sym (hok.2 x hx)
    have hall : ('j' :: 'e' :: 't' :: '_' :: n).all isSymChar = true := by
      simp only [List.all_cons, hn, Bool.and_true]; decide
    have := lexWord_append _ rest hall hs
    rw [jet_classify n hok] at this
    simp only [Tok.text, List.cons_append] at this ⊢
    simp [lexOne, show isSymStart 'j' = true by decide, this]
  | bin d =>
    have hs := sepOnly rfl
    simp only [Tok.ok, Bool.and_eq_true, Bool.not_eq_true', List.isEmpty_eq_false_iff] at hok
    obtain ⟨h1, h2⟩ := span_append isBinChar d rest hok.2 (sep_of _ hs fun c hc => (delim_facts hc).2.2.1)
    simp only [Tok.text, List.cons_append, lexOne, show isSymStart '0' = false by decide, lexZero]
    simp [h1, h2, hok.1]
  | hex d =>
    have hs := sepOnly rfl
    simp only [Tok.ok, Bool.and_eq_true, Bool.not_eq_true', List.isEmpty_eq_false_iff] at hok
    obtain ⟨h1, h2⟩ := span_append isHexLower d rest hok.2 (sep_of _ hs fun c hc => (delim_facts hc).2.2.2.1)
    simp only [Tok.text, List.cons_append, lexOne, show isSymStart '0' = false by decide, lexZero]
    simp [h1, h2, hok.1]
  | twoExp d =>
    have hs := sepOnly rfl
    cases d with
    | nil => simp [Tok.ok] at hok
    | cons e r =>
      simp only [Tok.ok, Bool.and_eq_true] at hok
      obtain ⟨h1, h2⟩ := span_append isDigit r rest hok.2 (sep_of _ hs fun c hc => (delim_facts hc).2.1)
      simp only [Tok.text, List.cons_append, lexOne, show isSymStart '2' = false by decide, lexTwo]
      simp [h1, h2, hok.1]
  | cmr d =>
    simp only [Tok.ok, Bool.and_eq_true, beq_iff_eq] at hok
    cases d with
    | nil => simp at hok
    | cons d0 d' =>
      have hd0 : isHexAny d0 = true := by
        have := hok.2; simp only [List.all_cons, Bool.and_eq_true] at this; exact this.1
      have hb : (d0 == '{') = false := ne_of_class hd0 (by decide)
      have htake : ((d0 :: d') ++ rest).take 64 = d0 :: d' := by
        rw [List.take_append_of_le_length (by omega)]; exact List.take_of_length_le (by omega)
      have hdrop : ((d0 :: d') ++ rest).drop 64 = rest := by
        rw [← hok.1]; exact List.drop_left
      simp only [Tok.text, List.cons_append, lexOne, show isSymStart '#' = false by decide, lexHash]
      simp only [List.cons_append] at htake hdrop
      simp [hb, htake, hdrop, hok.1, hok.2]
  | sym s =>
    have hs := sepOnly rfl
    cases s with
    | nil => simp [Tok.ok, symOK] at hok
    | cons c r =>
      simp only [Tok.ok, symOK, Bool.and_eq_true, beq_iff_eq, Bool.not_eq_true'] at hok
      obtain ⟨⟨⟨hc, hr⟩, hcl⟩, hdd⟩ := hok
      have hall : (c :: r).all isSymChar = true := by
        simp only [List.all_cons, hr, Bool.and_true, isSymChar, hc, Bool.true_or]
      have hw := lexWord_append (c :: r) rest hall hs
      rw [hcl] at hw
      simp only [Tok.text, List.cons_append] at hw ⊢
      simp only [lexOne, hc, if_true]
      by_cases hd : (c == '-') = true
      · simp only [hd, if_true]
        rw [beq_iff_eq] at hd
        subst hd
        simp only [lexDash]
        cases hrr : r ++ rest with
        | nil => simp only []; rw [hrr] at hw; exact congrArg some hw
        | cons d q =>
          simp only []
          rw [hrr] at hw
          have hne : (d == '>') = false := by
            cases r with
            | nil =>
              simp only [List.nil_append] at hrr
              rcases hs with h | ⟨c', r', h, hc'⟩
              · rw [h] at hrr; cases hrr
              · rw [h] at hrr; cases hrr; exact (delim_facts hc').2.2.2.2.2.2.1
            | cons r0 r1 =>
              simp only [List.cons_append, List.cons.injEq] at hrr
              simp only [List.all_cons, Bool.and_eq_true] at hr
              rw [← hrr.1]
              exact ne_of_class hr.1 (by decide)
          simp only [hne, Bool.false_eq_true, if_false]
          exact congrArg some hw
      · simp only [hd, Bool.false_eq_true, if_false]
        exact congrArg some hw

end HT

namespace HT

theorem tok_head (t : Tok) (hok : t.ok = true) :
    ∃ c r, t.text = c :: r ∧ isWs c = false ∧ ((c == '-') = true → ∃ d r', r = d :: r' ∧ (d == '-') = false ∨
      (r = [] ∧ t.free = false)) := by
  cases t with
  | kw k => cases k <;> exact ⟨_, _, rfl, by decide, fun h => by simp at h⟩
  | jet n => exact ⟨_, _, rfl, by decide, fun h => by simp at h⟩
  | sym s =>
    cases s with
    | nil => simp [Tok.ok, symOK] at hok
    | cons c r =>
      simp only [Tok.ok, symOK, Bool.and_eq_true, beq_iff_eq, Bool.not_eq_true'] at hok
      obtain ⟨⟨⟨hc, _⟩, _⟩, hdd⟩ := hok
      refine ⟨c, r, rfl, ?_, ?_⟩
      · cases hw : isWs c with
        | false => rfl
        | true =>
          have : isDelim c = true := by simp [isDelim, hw]
          rw [(delim_facts this).2.2.2.2.1] at hc; cases hc
      · intro hd
        cases r with
        | nil => exact ⟨' ', [], .inr ⟨rfl, rfl⟩⟩
        | cons d r' =>
          refine ⟨d, r', .inl ⟨rfl, ?_⟩⟩
          simp only [hd, List.head?_cons, Bool.true_and] at hdd
          cases hx : d == '-' with
          | false => rfl
          | true => rw [beq_iff_eq] at hx; subst hx; simp at hdd
  | twoExp d => exact ⟨_, _, rfl, by decide, fun h => by simp at h⟩
  | cmr d => exact ⟨_, _, rfl, by decide, fun h => by simp at h⟩
  | hex d => exact ⟨_, _, rfl, by decide, fun h => by simp at h⟩
  | bin d => exact ⟨_, _, rfl, by decide, fun h => by simp at h⟩
  | arrow => exact ⟨_, _, rfl, by decide, fun _ => ⟨'>', [], .inl ⟨rfl, by decide⟩⟩⟩
  | _ => exact ⟨_, _, rfl, by decide, fun h => by simp at h⟩

/-- nothing is skipped in front of a token -/
theorem skip_text (t : Tok) (rest : List Char) (hok : t.ok = true) (hsep : t.free = true ∨ Sep rest) :
    skip (t.text ++ rest) = t.text ++ rest := by
  obtain ⟨c, r, ht, hws, hdash⟩ := tok_head t hok
  rw [ht]
  by_cases hd : (c == '-') = true
  · obtain ⟨d, r', h | ⟨h1, h2⟩⟩ := hdash hd
    · obtain ⟨rfl, hdd⟩ := h
      simp [skip, skipAux, hws, hd, hdd]
    · subst h1
      rcases hsep with h | h
      · rw [h2] at h; cases h
      · rcases h with rfl | ⟨c', q, rfl, hc'⟩
        · simp [skip, skipAux, hws, hd]
        · have := (delim_facts hc').2.2.2.2.2.2.2.2
          simp [skip, skipAux, hws, hd, this]
  · have hd' : (c == '-') = false := by simpa using hd
    cases hq : r ++ rest with
    | nil => simp [skip, skipAux, hws, hd', hq]
    | cons d q => simp [skip, skipAux, hws, hd', hq]

/-- **the spelling of a token lexes back to it**: a well-formed token followed by a delimiter (or
by anything, for the tokens that cannot be extended) is the first token of the text -/
theorem lex_cons (t : Tok) (rest : List Char) (hok : t.ok = true) (hsep : t.free = true ∨ Sep rest) :
    lex (t.text ++ rest) = (lex rest).map (t :: ·) := by
  rw [lex_unfold]
  unfold lexStep
  rw [skip_text t rest hok hsep]
  obtain ⟨c, r, ht, _, _⟩ := tok_head t hok
  have h1 := lexOne_text t rest hok hsep
  rw [ht] at h1 ⊢
  simp only [List.cons_append] at h1 ⊢
  rw [h1]

end HT
