/-
C15 — the Elements environment shown to jets.

Three layers, all executable (the driver runs exactly these definitions):

* `EnvArgs` — what the caller gives to `ElementsEnv::new(..)`: the transaction, the spent outputs,
  the input index, the control block, the script root, the (unused) annex argument and the genesis
  hash, as abstract data (confidential fields as `null | explicit | confidential parity x`).
* `marshal : EnvArgs → CEnv` — what `src/jet/elements/c_env.rs` hands to C: re-serialised
  confidential fields (prefix bytes, big-endian amounts), NULL pointers for null fields, raw buffers,
  the annex found in the witness stack, the serialised control block.
  The annex rule of the model is BIP-341's (`getAnnex`); the rule of the code (`getAnnexCode`) differs
  for one-element stacks (known finding F-C15, see `annex_code_differs`).
* `cBuild : CEnv → TxEnv` — `simplicity-sys/depend/simplicity/elements/env.c`
  (`copyRawConfidential`, `copyRawAmt`, `copyInput`, `copyOutput`, `mallocTransaction`,
  `mallocTapEnv`, `c_set_txEnv`) and `jetC : Query → TxEnv → Option (List Bool)` —
  `elementsJets.c`: the value each introspection jet writes (compact bits of the Simplicity value;
  `none` = the jet fails).

`spec : Query → EnvArgs → Option (List Bool)` says what each getter has to return in terms of the
supplied data alone.  `Props/C15.lean` proves `jetC q (cBuild (marshal e)) = spec q e`.

Abstractions (stated in `tools/meta/C15.json`): a `sha256_midstate` is modelled as its 32 bytes
(`sha256_toMidstate` followed by `writeHash` is the identity on bytes); the padding cells a jet
skips are not part of a value; `txid`, `generateIssuanceEntropy`/`calculateAsset`/`calculateToken`,
the digest jets and `sig_all_hash` are not modelled; `total_fee` is modelled by the function the
sorted fee table + binary search computes, not by the table.
-/
import SimplicityModel.Sha256

namespace Env

abbrev Bytes := List UInt8

/-- exactly 32 bytes (`[u8; 32]`, hashes, x coordinates) -/
structure B32 where
  bytes : Bytes
  len : bytes.length = 32

instance : DecidableEq B32 := fun a b =>
  if h : a.bytes = b.bytes then isTrue (by cases a; cases b; simp_all) else isFalse (by intro e; exact h (by rw [e]))

def zeros32 : Bytes := List.replicate 32 0

/-! ### bits of a Simplicity value (compact encoding, most significant bit first) -/

def natBits (w n : Nat) : List Bool := (List.range w).map fun i => n.testBit (w - 1 - i)
def byteBits (b : UInt8) : List Bool := natBits 8 b.toNat
def bytesBits (bs : Bytes) : List Bool := bs.flatMap byteBits
def u32Bits (x : UInt32) : List Bool := natBits 32 x.toNat
/-- `S A = 1 + A` -/
def optBits : Option (List Bool) → List Bool
  | none => [false]
  | some v => true :: v
def hashBits (b : Bytes) : List Bool := bytesBits (Sha256.hash b)

/-! ### the supplied data -/

/-- a confidential asset or nonce -/
inductive Conf where
  | null
  | explicit (d : B32)
  | confidential (odd : Bool) (x : B32)
deriving DecidableEq

/-- a confidential amount -/
inductive Amount where
  | null
  | explicit (v : UInt64)
  | confidential (odd : Bool) (x : B32)
deriving DecidableEq

def Conf.isNull : Conf → Bool | .null => true | _ => false
def Amount.isNull : Amount → Bool | .null => true | _ => false
def Amount.isConfidential : Amount → Bool | .confidential .. => true | _ => false
def Conf.isConfidential : Conf → Bool | .confidential .. => true | _ => false
def Conf.isExplicit : Conf → Bool | .explicit .. => true | _ => false
def Amount.isExplicit : Amount → Bool | .explicit .. => true | _ => false

structure TxIn where
  prevTxid : B32
  prevVout : UInt32
  sequence : UInt32
  scriptSig : Bytes
  /-- the `is_pegin` flag of the `TxIn` (not consulted by `c_env.rs`) -/
  isPegin : Bool
  /-- the genesis hash carried by the pegin witness, when the pegin witness is not empty -/
  peginGenesis : Option B32
  /-- the four fields of `AssetIssuance`; "no issuance" = both amounts null -/
  blindingNonce : B32
  assetEntropy : B32
  amount : Amount
  inflationKeys : Amount
  amountRangeproof : Bytes
  inflationKeysRangeproof : Bytes
  scriptWitness : List Bytes

structure Utxo where
  asset : Conf
  value : Amount
  scriptPubkey : Bytes

structure TxOut where
  asset : Conf
  value : Amount
  nonce : Conf
  scriptPubkey : Bytes
  surjectionProof : Bytes
  rangeproof : Bytes

structure Tx where
  version : UInt32
  lockTime : UInt32
  inputs : List TxIn
  outputs : List TxOut

/-- `elements::taproot::ControlBlock`: the invariants of the Rust type (even leaf version, at most
128 branch nodes) are part of the type -/
structure ControlBlock where
  leafVersion : UInt8
  outputKeyParity : Bool
  internalKey : B32
  merkleBranch : List B32
  even : leafVersion &&& 1 = 0
  short : merkleBranch.length ≤ 128

structure EnvArgs where
  tx : Tx
  utxos : List Utxo
  ix : UInt32
  scriptCmr : B32
  controlBlock : ControlBlock
  /-- the `annex` argument of `ElementsEnv::new`: stored, never shown to a jet -/
  annex : Option Bytes
  genesisHash : B32

/-! ### what `c_env.rs` hands to C -/

structure RawOutput where
  asset : Option Bytes
  value : Option Bytes
  nonce : Option Bytes
  scriptPubKey : Bytes
  surjectionProof : Bytes
  rangeProof : Bytes

structure RawIssuance where
  blindingNonce : Option B32
  assetEntropy : Option B32
  amount : Option Bytes
  inflationKeys : Option Bytes
  amountRangePrf : Bytes
  inflationKeysRangePrf : Bytes

structure RawTxo where
  asset : Option Bytes
  value : Option Bytes
  scriptPubKey : Bytes

structure RawInput where
  annex : Option Bytes
  prevTxid : B32
  pegin : Option B32
  issuance : RawIssuance
  txo : RawTxo
  scriptSig : Bytes
  prevIx : UInt32
  sequence : UInt32

structure RawTx where
  inputs : List RawInput
  outputs : List RawOutput
  version : UInt32
  lockTime : UInt32

structure RawTapEnv where
  controlBlock : Bytes
  scriptCMR : B32
  pathLen : Nat

structure CEnv where
  tx : RawTx
  tap : RawTapEnv
  genesisHash : B32
  ix : UInt32

/-- big-endian bytes of a 64-bit amount -/
def be64 (v : UInt64) : Bytes :=
  let n := v.toNat
  [UInt8.ofNat (n / 72057594037927936 % 256), UInt8.ofNat (n / 281474976710656 % 256),
   UInt8.ofNat (n / 1099511627776 % 256), UInt8.ofNat (n / 4294967296 % 256),
   UInt8.ofNat (n / 16777216 % 256), UInt8.ofNat (n / 65536 % 256),
   UInt8.ofNat (n / 256 % 256), UInt8.ofNat (n % 256)]

def parity (odd : Bool) : UInt8 := if odd then 1 else 0

/-- `elements::encode::serialize` of an asset (`base = 0x0a`) or a nonce (`base = 0x02`) -/
def serializeConf (base : UInt8) : Conf → Bytes
  | .null => [0]
  | .explicit d => 1 :: d.bytes
  | .confidential odd x => (base + parity odd) :: x.bytes

/-- `elements::encode::serialize` of a value -/
def serializeAmount : Amount → Bytes
  | .null => [0]
  | .explicit v => 1 :: be64 v
  | .confidential odd x => (8 + parity odd) :: x.bytes

/-- `asset_array` / `nonce_array`: `None` for null -/
def confArray (base : UInt8) (c : Conf) : Option Bytes :=
  if c.isNull then none else some (serializeConf base c)

/-- `value_ptr`: NULL for null, else the serialised buffer -/
def valuePtr (a : Amount) : Option Bytes :=
  if a.isNull then none else some (serializeAmount a)

/-- BIP-341: the annex is the last of AT LEAST TWO witness elements when it starts with 0x50;
the jets get it without that byte -/
def getAnnex (w : List Bytes) : Option Bytes :=
  if 2 ≤ w.length then
    match w.getLast? with
    | some (b :: rest) => if b = 0x50 then some rest else none
    | _ => none
  else none

/-- the rule of `get_annex` in `c_env.rs` on the unchanged tree: any last element starting 0x50 -/
def getAnnexCode (w : List Bytes) : Option Bytes :=
  match w.getLast? with
  | some (b :: rest) => if b = 0x50 then some rest else none
  | _ => none

def TxIn.hasIssuance (i : TxIn) : Bool := !(i.amount.isNull && i.inflationKeys.isNull)

def noIssuance : RawIssuance :=
  { blindingNonce := none, assetEntropy := none, amount := none, inflationKeys := none,
    amountRangePrf := [], inflationKeysRangePrf := [] }

/-- `new_tx_data` + `new_raw_input` -/
def marshalInput (p : TxIn × Utxo) : RawInput :=
  let inp := p.1
  let utxo := p.2
  { annex := getAnnex inp.scriptWitness
    prevTxid := inp.prevTxid
    pegin := inp.peginGenesis
    issuance :=
      if inp.hasIssuance then
        { blindingNonce := some inp.blindingNonce, assetEntropy := some inp.assetEntropy,
          amount := valuePtr inp.amount, inflationKeys := valuePtr inp.inflationKeys,
          amountRangePrf := inp.amountRangeproof,
          inflationKeysRangePrf := inp.inflationKeysRangeproof }
      else noIssuance
    txo := { asset := confArray 0x0a utxo.asset, value := valuePtr utxo.value,
             scriptPubKey := utxo.scriptPubkey }
    scriptSig := inp.scriptSig
    prevIx := inp.prevVout
    sequence := inp.sequence }

/-- `new_tx_data` + `new_raw_output` -/
def marshalOutput (o : TxOut) : RawOutput :=
  { asset := confArray 0x0a o.asset, value := valuePtr o.value, nonce := confArray 0x02 o.nonce,
    scriptPubKey := o.scriptPubkey, surjectionProof := o.surjectionProof,
    rangeProof := o.rangeproof }

/-- `ControlBlock::serialize` -/
def ControlBlock.serialize (cb : ControlBlock) : Bytes :=
  (cb.leafVersion ||| parity cb.outputKeyParity) :: (cb.internalKey.bytes ++ (cb.merkleBranch.map (·.bytes)).flatten)

/-- `new_tx` (inputs zipped with the spent outputs), `new_tap_env`, `new_tx_env` -/
def marshal (e : EnvArgs) : CEnv :=
  { tx := { inputs := (e.tx.inputs.zip e.utxos).map marshalInput
            outputs := e.tx.outputs.map marshalOutput
            version := e.tx.version
            lockTime := e.tx.lockTime }
    tap := { controlBlock := e.controlBlock.serialize, scriptCMR := e.scriptCmr,
             pathLen := e.controlBlock.merkleBranch.length }
    genesisHash := e.genesisHash
    ix := e.ix }

/-! ### env.c -/

inductive Prefix where
  | none | explicit | evenY | oddY
deriving DecidableEq

structure CConf where
  pfx : Prefix
  data : Bytes

/-- `confAmount` (a C union: only the member selected by the prefix is meaningful) -/
structure CAmt where
  pfx : Prefix
  explicit : Nat
  confidential : Bytes

/-- `ReadBE64` -/
def readBE64 : Bytes → Nat
  | b0 :: b1 :: b2 :: b3 :: b4 :: b5 :: b6 :: b7 :: _ =>
    ((((((b0.toNat * 256 + b1.toNat) * 256 + b2.toNat) * 256 + b3.toNat) * 256 + b4.toNat) * 256
      + b5.toNat) * 256 + b6.toNat) * 256 + b7.toNat
  | _ => 0

/-- `copyRawConfidential` -/
def copyRawConfidential : Option Bytes → CConf
  | some raw =>
    let h := raw.headD 0
    { pfx := if h = 1 then .explicit else if h &&& 1 = 1 then .oddY else .evenY
      data := (raw.drop 1).take 32 }
  | none => { pfx := .none, data := zeros32 }

/-- `copyRawAmt` -/
def copyRawAmt : Option Bytes → CAmt
  | some raw =>
    let h := raw.headD 0
    if h = 1 then { pfx := .explicit, explicit := readBE64 (raw.drop 1), confidential := [] }
    else { pfx := if h &&& 1 = 1 then .oddY else .evenY, explicit := 0,
           confidential := (raw.drop 1).take 32 }
  | none => { pfx := .explicit, explicit := 0, confidential := [] }

def Prefix.isConfidential : Prefix → Bool
  | .evenY => true | .oddY => true | _ => false

inductive IssuanceType where
  | none | new | reissuance
deriving DecidableEq

structure CIssuance where
  type : IssuanceType
  blindingNonce : Bytes
  contractHash : Bytes
  /-- the entropy of a reissuance; that of a new issuance is computed by `cIssEntropy` (EnvDigest.lean) -/
  entropy : Bytes
  assetAmt : CAmt
  tokenAmt : CAmt
  assetRangeProofHash : Bytes
  tokenRangeProofHash : Bytes

structure SigTxo where
  asset : CConf
  amt : CAmt
  scriptPubKey : Bytes

structure SigInput where
  prevTxid : Bytes
  prevIx : UInt32
  sequence : UInt32
  isPegin : Bool
  pegin : Bytes
  hasAnnex : Bool
  annexHash : Bytes
  txo : SigTxo
  scriptSigHash : Bytes
  issuance : CIssuance

def amtZero : CAmt := { pfx := .none, explicit := 0, confidential := [] }

def allZero (b : Bytes) : Bool := b.all (· == 0)

/-- the issuance part of `copyInput` -/
def copyIssuance (r : RawIssuance) : CIssuance :=
  let emptyHash := Sha256.hash []
  if r.amount.isSome || r.inflationKeys.isSome then
    let nonce := (r.blindingNonce.map (·.bytes)).getD []
    let ent := (r.assetEntropy.map (·.bytes)).getD []
    let assetAmt := copyRawAmt r.amount
    let arp := if assetAmt.pfx.isConfidential then Sha256.hash r.amountRangePrf else emptyHash
    if allZero nonce then
      let tokenAmt := copyRawAmt r.inflationKeys
      { type := .new, blindingNonce := nonce, contractHash := ent, entropy := [],
        assetAmt := assetAmt, tokenAmt := tokenAmt, assetRangeProofHash := arp,
        tokenRangeProofHash :=
          if tokenAmt.pfx.isConfidential then Sha256.hash r.inflationKeysRangePrf else emptyHash }
    else
      { type := .reissuance, blindingNonce := nonce, contractHash := [], entropy := ent,
        assetAmt := assetAmt, tokenAmt := amtZero, assetRangeProofHash := arp,
        tokenRangeProofHash := emptyHash }
  else
    { type := .none, blindingNonce := [], contractHash := [], entropy := [], assetAmt := amtZero,
      tokenAmt := amtZero, assetRangeProofHash := emptyHash, tokenRangeProofHash := emptyHash }

/-- `copyInput` -/
def copyInput (r : RawInput) : SigInput :=
  { prevTxid := r.prevTxid.bytes
    prevIx := r.prevIx
    sequence := r.sequence
    isPegin := r.pegin.isSome
    pegin := (r.pegin.map (·.bytes)).getD []
    hasAnnex := r.annex.isSome
    annexHash := (r.annex.map Sha256.hash).getD []
    txo := { asset := copyRawConfidential r.txo.asset, amt := copyRawAmt r.txo.value,
             scriptPubKey := Sha256.hash r.txo.scriptPubKey }
    scriptSigHash := Sha256.hash r.scriptSig
    issuance := copyIssuance r.issuance }

/-- one push of a null-data script as `parseNullData` records it -/
inductive OpKind where
  | immediate | pushdata | pushdata2 | pushdata4 | neg1 | reserved | num (n : Nat)
deriving DecidableEq

structure Opcode where
  kind : OpKind
  dataHash : Bytes

def le (bs : Bytes) : Nat := bs.foldr (fun b acc => b.toNat + 256 * acc) 0

/-- the loop of `parseNullData` after the `OP_RETURN`; `none` = not a null-data script -/
def parseOps : Nat → Bytes → Option (List Opcode)
  | _, [] => some []
  | 0, _ :: _ => none
  | fuel + 1, code :: rest =>
    if 0x60 < code then none
    else if 0x4f ≤ code then
      let k := if code = 0x4f then OpKind.neg1 else if code = 0x50 then OpKind.reserved
               else OpKind.num (code.toNat - 0x50)
      (parseOps fuel rest).map (⟨k, []⟩ :: ·)
    else
      let nlen := if code < 0x4c then 0 else if code = 0x4c then 1 else if code = 0x4d then 2 else 4
      if rest.length < nlen then none
      else
        let skip := if code < 0x4c then code.toNat else le (rest.take nlen)
        let body := rest.drop nlen
        if body.length < skip then none
        else
          let k := if code < 0x4c then OpKind.immediate else if code = 0x4c then OpKind.pushdata
                   else if code = 0x4d then OpKind.pushdata2 else OpKind.pushdata4
          (parseOps fuel (body.drop skip)).map (⟨k, Sha256.hash (body.take skip)⟩ :: ·)

/-- `parseNullData` -/
def parseNullData (spk : Bytes) : Option (List Opcode) :=
  match spk with
  | b :: rest => if b = 0x6a then parseOps rest.length rest else none
  | [] => none

structure SigOutput where
  asset : CConf
  amt : CAmt
  nonce : CConf
  scriptPubKey : Bytes
  emptyScript : Bool
  pnd : Option (List Opcode)
  surjectionProofHash : Bytes
  rangeProofHash : Bytes

/-- `copyOutput` -/
def copyOutput (r : RawOutput) : SigOutput :=
  let asset := copyRawConfidential r.asset
  let amt := copyRawAmt r.value
  { asset := asset, amt := amt, nonce := copyRawConfidential r.nonce
    scriptPubKey := Sha256.hash r.scriptPubKey
    emptyScript := r.scriptPubKey.isEmpty
    pnd := parseNullData r.scriptPubKey
    surjectionProofHash := Sha256.hash (if asset.pfx.isConfidential then r.surjectionProof else [])
    rangeProofHash := Sha256.hash (if amt.pfx.isConfidential then r.rangeProof else []) }

/-- `isFee` of env.c (on the raw output): decides what enters the fee table -/
def isFeeRaw (r : RawOutput) : Bool :=
  r.scriptPubKey.isEmpty &&
  (match r.asset with | some a => a.headD 0 == 1 | none => false) &&
  (match r.value with | some v => v.headD 0 == 1 | none => false)

/-- what the sorted fee table and `lookup_fee` compute: the sum (mod 2^64) of the explicit amounts
of the fee outputs with that asset id -/
def feeOf (outs : List RawOutput) (id : Bytes) : Nat :=
  ((outs.filter fun r => isFeeRaw r && (((r.asset.getD []).drop 1).take 32 == id)).map
    fun r => readBE64 ((r.value.getD []).drop 1)).sum % 2^64

structure ETx where
  inputs : List SigInput
  outputs : List SigOutput
  version : UInt32
  lockTime : UInt32
  isFinal : Bool
  /-- `obsolete_lockDistance`, `obsolete_lockDuration` -/
  lockDistance : Nat
  lockDuration : Nat
  fee : Bytes → Nat

structure TapEnv where
  leafVersion : UInt8
  internalKey : Bytes
  path : List Bytes
  scriptCMR : Bytes

structure TxEnv where
  tx : ETx
  taproot : TapEnv
  genesisHash : Bytes
  ix : UInt32

/-- one round of the input loop of `mallocTransaction` on `obsolete_lockDuration` (`dur = true`) or
`obsolete_lockDistance` (`dur = false`): a sequence below `0x80000000` (relative lock enabled) raises
the maximum of its kind (bit 22 set: duration, clear: distance) to its low 16 bits -/
def lockStep (dur : Bool) (acc : Nat) (s : UInt32) : Nat :=
  if s < 0x80000000 then
    if ((s &&& 0x400000) != 0) == dur then
      (if acc < (s &&& 0xffff).toNat then (s &&& 0xffff).toNat else acc)
    else acc
  else acc

/-- `mallocTransaction` -/
def buildTx (r : RawTx) : ETx :=
  { inputs := r.inputs.map copyInput
    outputs := r.outputs.map copyOutput
    version := r.version
    lockTime := r.lockTime
    isFinal := r.inputs.all fun i => !(i.sequence < 0xffffffff)
    lockDistance := r.inputs.foldl (fun a i => lockStep false a i.sequence) 0
    lockDuration := r.inputs.foldl (fun a i => lockStep true a i.sequence) 0
    fee := feeOf r.outputs }

/-- `mallocTapEnv` -/
def buildTap (r : RawTapEnv) : TapEnv :=
  { leafVersion := r.controlBlock.headD 0 &&& 0xfe
    internalKey := (r.controlBlock.drop 1).take 32
    path := (List.range r.pathLen).map fun i => (r.controlBlock.drop (33 + 32 * i)).take 32
    scriptCMR := r.scriptCMR.bytes }

/-- `c_set_txEnv` -/
def cBuild (c : CEnv) : TxEnv :=
  { tx := buildTx c.tx, taproot := buildTap c.tap, genesisHash := c.genesisHash.bytes, ix := c.ix }

/-! ### elementsJets.c -/

/-- `asset`: `Conf 2^256 = (2 × 2^256) + 2^256`, explicit on the right -/
def assetW (a : CConf) : List Bool :=
  if a.pfx = .explicit then true :: bytesBits a.data
  else false :: decide (a.pfx = .oddY) :: bytesBits a.data

/-- `amt` -/
def amtW (a : CAmt) : List Bool :=
  if a.pfx = .explicit then true :: natBits 64 a.explicit
  else false :: decide (a.pfx = .oddY) :: bytesBits a.confidential

/-- `nonce` -/
def nonceW (a : CConf) : List Bool :=
  if a.pfx ≠ .none then true :: assetW a else [false]

inductive InGetter where
  | pegin | prevOutpoint | asset | amount | scriptHash | sequence | reissuanceBlinding
  | newIssuanceContract | reissuanceEntropy | issuanceAssetAmount | issuanceTokenAmount
  | issuanceAssetProof | issuanceTokenProof | scriptSigHash | annexHash
deriving DecidableEq, Repr

inductive OutGetter where
  | asset | amount | nonce | scriptHash | isFee | surjectionProof | rangeProof
deriving DecidableEq, Repr

inductive G0 where
  | version | lockTime | numInputs | numOutputs | currentIndex | genesisBlockHash | scriptCmr
  | internalKey | tapleafVersion | txIsFinal | txLockHeight | txLockTime
  | txLockDistance | txLockDuration
deriving DecidableEq, Repr

/-- the four `check_lock_*` jets -/
inductive LockKind where
  | height | time | distance | duration
deriving DecidableEq, Repr

inductive Query where
  | nullary (g : G0)
  | current (g : InGetter)
  | input (g : InGetter) (i : UInt32)
  | output (g : OutGetter) (i : UInt32)
  | nullDatum (i j : UInt32)
  | tappath (i : UInt8)
  | totalFee (id : B32)
  /-- the `issuance` jet: whether input `i` has an issuance, and whether it is a reissuance -/
  | issuance (i : UInt32)
  /-- `check_lock_*` with the number read from the input frame -/
  | checkLock (k : LockKind) (x : Nat)

/-- what `input_*` / `current_*` write for one input -/
def inW (g : InGetter) (s : SigInput) : List Bool :=
  match g with
  | .pegin => if s.isPegin then true :: bytesBits s.pegin else [false]
  | .prevOutpoint => bytesBits s.prevTxid ++ u32Bits s.prevIx
  | .asset => assetW s.txo.asset
  | .amount => assetW s.txo.asset ++ amtW s.txo.amt
  | .scriptHash => bytesBits s.txo.scriptPubKey
  | .sequence => u32Bits s.sequence
  | .reissuanceBlinding =>
    if s.issuance.type = .reissuance then true :: bytesBits s.issuance.blindingNonce else [false]
  | .newIssuanceContract =>
    if s.issuance.type = .new then true :: bytesBits s.issuance.contractHash else [false]
  | .reissuanceEntropy =>
    if s.issuance.type = .reissuance then true :: bytesBits s.issuance.entropy else [false]
  | .issuanceAssetAmount =>
    if s.issuance.type ≠ .none then true :: amtW s.issuance.assetAmt else [false]
  | .issuanceTokenAmount =>
    if s.issuance.type ≠ .none then
      true :: amtW (if s.issuance.type = .new then s.issuance.tokenAmt
                    else { pfx := .explicit, explicit := 0, confidential := [] })
    else [false]
  | .issuanceAssetProof => bytesBits s.issuance.assetRangeProofHash
  | .issuanceTokenProof => bytesBits s.issuance.tokenRangeProofHash
  | .scriptSigHash => bytesBits s.scriptSigHash
  | .annexHash => if s.hasAnnex then true :: bytesBits s.annexHash else [false]

/-- `isFee` of elementsJets.c (on the copied output) -/
def isFeeSig (o : SigOutput) : Bool :=
  o.emptyScript && decide (o.asset.pfx = .explicit) && decide (o.amt.pfx = .explicit)

def outW (g : OutGetter) (o : SigOutput) : List Bool :=
  match g with
  | .asset => assetW o.asset
  | .amount => assetW o.asset ++ amtW o.amt
  | .nonce => nonceW o.nonce
  | .scriptHash => bytesBits o.scriptPubKey
  | .isFee => [isFeeSig o]
  | .surjectionProof => bytesBits o.surjectionProofHash
  | .rangeProof => bytesBits o.rangeProofHash

/-- the inner value of `output_null_datum`: `(2^2 × 2^256) + (2 + 2^4)` -/
def opcodeW (op : Opcode) : List Bool :=
  match op.kind with
  | .immediate => false :: false :: false :: bytesBits op.dataHash
  | .pushdata => false :: false :: true :: bytesBits op.dataHash
  | .pushdata2 => false :: true :: false :: bytesBits op.dataHash
  | .pushdata4 => false :: true :: true :: bytesBits op.dataHash
  | .neg1 => [true, false, false]
  | .reserved => [true, false, true]
  | .num n => true :: true :: natBits 4 (n - 1)

def lockHeight (t : ETx) : UInt32 := if !t.isFinal && t.lockTime < 500000000 then t.lockTime else 0
def lockTimeOf (t : ETx) : UInt32 := if !t.isFinal && 500000000 ≤ t.lockTime then t.lockTime else 0

/-- `obsolete_lockDistance` / `obsolete_lockDuration` of elementsJets.c -/
def lockDistanceOf (t : ETx) : Nat := if 2 ≤ t.version then t.lockDistance else 0
def lockDurationOf (t : ETx) : Nat := if 2 ≤ t.version then t.lockDuration else 0

/-- the value a `check_lock_*` jet compares its argument with -/
def lockOf (k : LockKind) (t : ETx) : Nat :=
  match k with
  | .height => (lockHeight t).toNat
  | .time => (lockTimeOf t).toNat
  | .distance => lockDistanceOf t
  | .duration => lockDurationOf t

def jet0 (g : G0) (v : TxEnv) : List Bool :=
  match g with
  | .version => u32Bits v.tx.version
  | .lockTime => u32Bits v.tx.lockTime
  | .numInputs => natBits 32 v.tx.inputs.length
  | .numOutputs => natBits 32 v.tx.outputs.length
  | .currentIndex => u32Bits v.ix
  | .genesisBlockHash => bytesBits v.genesisHash
  | .scriptCmr => bytesBits v.taproot.scriptCMR
  | .internalKey => bytesBits v.taproot.internalKey
  | .tapleafVersion => byteBits v.taproot.leafVersion
  | .txIsFinal => [v.tx.isFinal]
  | .txLockHeight => u32Bits (lockHeight v.tx)
  | .txLockTime => u32Bits (lockTimeOf v.tx)
  | .txLockDistance => natBits 16 (lockDistanceOf v.tx)
  | .txLockDuration => natBits 16 (lockDurationOf v.tx)

/-- what the `issuance` jet writes for an existing input: `NO_ISSUANCE != type`, then `REISSUANCE == type` -/
def issuanceW (s : SigInput) : List Bool :=
  if s.issuance.type ≠ .none then [true, decide (s.issuance.type = .reissuance)] else [false]

/-- the value a jet writes (compact bits), `none` = the jet returns false -/
def jetC (q : Query) (v : TxEnv) : Option (List Bool) :=
  match q with
  | .nullary g => some (jet0 g v)
  | .current g => (v.tx.inputs[v.ix.toNat]?).map (inW g)
  | .input g i => some (optBits ((v.tx.inputs[i.toNat]?).map (inW g)))
  | .output g i => some (optBits ((v.tx.outputs[i.toNat]?).map (outW g)))
  | .nullDatum i j =>
    some (optBits (((v.tx.outputs[i.toNat]?).bind (·.pnd)).map fun ops =>
      optBits ((ops[j.toNat]?).map opcodeW)))
  | .tappath i => some (optBits ((v.taproot.path[i.toNat]?).map bytesBits))
  | .totalFee id => some (natBits 64 (v.tx.fee id.bytes))
  | .checkLock k x => if x ≤ lockOf k v.tx then some [] else none
  | .issuance i => some (optBits ((v.tx.inputs[i.toNat]?).map issuanceW))

/-! ### the specification: what each getter has to return, from the supplied data alone -/

/-- a null asset is shown as an even-y commitment to the zero string -/
def specConf : Conf → List Bool
  | .null => false :: false :: bytesBits zeros32
  | .explicit d => true :: bytesBits d.bytes
  | .confidential odd x => false :: odd :: bytesBits x.bytes

/-- a null amount is shown as the explicit amount zero -/
def specAmount : Amount → List Bool
  | .null => true :: natBits 64 0
  | .explicit v => true :: natBits 64 v.toNat
  | .confidential odd x => false :: odd :: bytesBits x.bytes

def specNonce : Conf → List Bool
  | .null => [false]
  | c => true :: specConf c

inductive IssKind where
  | none | new | reissuance
deriving DecidableEq

/-- no issuance = both amounts null; new = blinding nonce all zero; otherwise reissuance -/
def TxIn.issKind (i : TxIn) : IssKind :=
  if i.amount.isNull && i.inflationKeys.isNull then .none
  else if allZero i.blindingNonce.bytes then .new else .reissuance

def specIn (g : InGetter) (p : TxIn × Utxo) : List Bool :=
  let i := p.1
  let u := p.2
  match g with
  | .pegin => optBits (i.peginGenesis.map fun h => bytesBits h.bytes)
  | .prevOutpoint => bytesBits i.prevTxid.bytes ++ u32Bits i.prevVout
  | .asset => specConf u.asset
  | .amount => specConf u.asset ++ specAmount u.value
  | .scriptHash => hashBits u.scriptPubkey
  | .sequence => u32Bits i.sequence
  | .reissuanceBlinding =>
    optBits (if i.issKind = .reissuance then some (bytesBits i.blindingNonce.bytes) else none)
  | .newIssuanceContract =>
    optBits (if i.issKind = .new then some (bytesBits i.assetEntropy.bytes) else none)
  | .reissuanceEntropy =>
    optBits (if i.issKind = .reissuance then some (bytesBits i.assetEntropy.bytes) else none)
  | .issuanceAssetAmount =>
    optBits (if i.issKind ≠ .none then some (specAmount i.amount) else none)
  | .issuanceTokenAmount =>
    optBits (if i.issKind ≠ .none then
      some (if i.issKind = .new then specAmount i.inflationKeys else specAmount (.explicit 0)) else none)
  | .issuanceAssetProof =>
    hashBits (if i.issKind ≠ .none && i.amount.isConfidential then i.amountRangeproof else [])
  | .issuanceTokenProof =>
    hashBits (if i.issKind = .new && i.inflationKeys.isConfidential then i.inflationKeysRangeproof else [])
  | .scriptSigHash => hashBits i.scriptSig
  | .annexHash => optBits ((getAnnex i.scriptWitness).map hashBits)

/-- Elements' `IsFee`: empty script, explicit asset, explicit value -/
def TxOut.isFee (o : TxOut) : Bool := o.scriptPubkey.isEmpty && o.asset.isExplicit && o.value.isExplicit

/-- what `output_is_fee` shows: as `isFee`, but a NULL value counts as explicit (the C code copies
a null amount as explicit zero); differs from `TxOut.isFee` exactly on null-valued outputs, see
`isFeeShown_differs` -/
def TxOut.isFeeShown (o : TxOut) : Bool :=
  o.scriptPubkey.isEmpty && o.asset.isExplicit && !o.value.isConfidential

def specOut (g : OutGetter) (o : TxOut) : List Bool :=
  match g with
  | .asset => specConf o.asset
  | .amount => specConf o.asset ++ specAmount o.value
  | .nonce => specNonce o.nonce
  | .scriptHash => hashBits o.scriptPubkey
  | .isFee => [o.isFeeShown]
  | .surjectionProof => hashBits (if o.asset.isConfidential then o.surjectionProof else [])
  | .rangeProof => hashBits (if o.value.isConfidential then o.rangeproof else [])

/-- the inputs the environment shows: inputs paired with their spent outputs -/
def EnvArgs.shown (e : EnvArgs) : List (TxIn × Utxo) := e.tx.inputs.zip e.utxos

def EnvArgs.isFinal (e : EnvArgs) : Bool := e.shown.all fun p => p.1.sequence == 0xffffffff

/-- total of the explicit amounts of the fee outputs (Elements' `IsFee`) with asset `id`, mod 2^64 -/
def specFee (outs : List TxOut) (id : B32) : Nat :=
  ((outs.filter fun o => o.isFee && decide (o.asset = .explicit id)).map fun o =>
    match o.value with | .explicit v => v.toNat | _ => 0).sum % 2^64

/-- BIP 68 on one sequence number: a relative lock is present when bit 31 (disable flag) is clear;
bit 22 (type flag) says whether its low 16 bits count 512-second units (`dur = true`) or blocks -/
def relLock (dur : Bool) (s : UInt32) : Option Nat :=
  if s.toNat < 2^31 ∧ (((s &&& 0x400000) != 0) == dur) then some (s &&& 0xffff).toNat else none

/-- the largest relative lock of the given kind over the shown inputs (0 when there is none), which
transactions of version below 2 do not have -/
def specRelLock (dur : Bool) (e : EnvArgs) : Nat :=
  if 2 ≤ e.tx.version then ((e.shown.filterMap fun p => relLock dur p.1.sequence).foldr max 0) else 0

/-- what the supplied data say about each kind of lock -/
def specLock (k : LockKind) (e : EnvArgs) : Nat :=
  match k with
  | .height => if !e.isFinal && e.tx.lockTime < 500000000 then e.tx.lockTime.toNat else 0
  | .time => if !e.isFinal && 500000000 ≤ e.tx.lockTime then e.tx.lockTime.toNat else 0
  | .distance => specRelLock false e
  | .duration => specRelLock true e

def spec0 (g : G0) (e : EnvArgs) : List Bool :=
  match g with
  | .version => u32Bits e.tx.version
  | .lockTime => u32Bits e.tx.lockTime
  | .numInputs => natBits 32 e.shown.length
  | .numOutputs => natBits 32 e.tx.outputs.length
  | .currentIndex => u32Bits e.ix
  | .genesisBlockHash => bytesBits e.genesisHash.bytes
  | .scriptCmr => bytesBits e.scriptCmr.bytes
  | .internalKey => bytesBits e.controlBlock.internalKey.bytes
  | .tapleafVersion => byteBits e.controlBlock.leafVersion
  | .txIsFinal => [e.isFinal]
  | .txLockHeight => u32Bits (if !e.isFinal && e.tx.lockTime < 500000000 then e.tx.lockTime else 0)
  | .txLockTime => u32Bits (if !e.isFinal && 500000000 ≤ e.tx.lockTime then e.tx.lockTime else 0)
  | .txLockDistance => natBits 16 (specRelLock false e)
  | .txLockDuration => natBits 16 (specRelLock true e)

/-- no issuance: left; a new issuance: right(false); a reissuance: right(true) -/
def specIssuance (i : TxIn) : List Bool :=
  optBits (match i.issKind with | .none => none | .new => some [false] | .reissuance => some [true])

def spec (q : Query) (e : EnvArgs) : Option (List Bool) :=
  match q with
  | .nullary g => some (spec0 g e)
  | .current g => (e.shown[e.ix.toNat]?).map (specIn g)
  | .input g i => some (optBits ((e.shown[i.toNat]?).map (specIn g)))
  | .output g i => some (optBits ((e.tx.outputs[i.toNat]?).map (specOut g)))
  | .nullDatum i j =>
    some (optBits (((e.tx.outputs[i.toNat]?).bind fun o => parseNullData o.scriptPubkey).map fun ops =>
      optBits ((ops[j.toNat]?).map opcodeW)))
  | .tappath i => some (optBits ((e.controlBlock.merkleBranch[i.toNat]?).map fun h => bytesBits h.bytes))
  | .totalFee id => some (natBits 64 (specFee e.tx.outputs id))
  | .checkLock k x => if x ≤ specLock k e then some [] else none
  | .issuance i => some (optBits ((e.shown[i.toNat]?).map fun p => specIssuance p.1))

end Env
