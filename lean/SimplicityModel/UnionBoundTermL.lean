/-
Termination of the general `bind`/`unify` recursion (continuation of `UnionBoundTerm.lean`).
-/
import SimplicityModel.UnionBoundTerm

namespace UB
open Inf (Ty)

/-- result of a general `bind`/`unify`: classes only merge, the potential does not grow -/
structure GoodL (c c' : Ctx) (P : Nat) : Prop where
  rank : RankInv c'
  esize : c'.elems.size = c.elems.size
  ssize : c'.slab.size = c.slab.size
  roots : nroots c' ≤ nroots c
  pot : Pot c' P

theorem GoodL.trans {a b c : Ctx} {P : Nat} (h : GoodL a b P) (h' : GoodL b c P) : GoodL a c P :=
  ⟨h'.rank, h'.esize.trans h.esize, h'.ssize.trans h.ssize, Nat.le_trans h'.roots h.roots, h'.pot⟩

theorem Stable.goodL {c c' : Ctx} {P : Nat} (st : Stable c c') (p : Pot c P) : GoodL c c' P :=
  ⟨st.rank, st.esize, by rw [st.slab], Nat.le_of_eq st.roots, p.of_slab_eq st.slab⟩

theorem GoodC.goodL {c c' : Ctx} {H P : Nat} (g : GoodC c c' H) (hle : H + ncount c ≤ P) : GoodL c c' P :=
  ⟨g.rank, g.esize, g.ssize, Nat.le_of_eq g.roots, ⟨H, g.hb, by have := g.nc; omega⟩⟩

theorem isRootAt_of {c : Ctx} {e b : Nat} {i : UbInner} (h : c.elems[e]? = some i) (hd : i.data = .root b) :
    isRootAt c e = true := by
  unfold isRootAt; rw [h]; dsimp only; rw [hd]

/-- link `Y` below `X` (ranks unchanged) -/
theorem link_plain {c : Ctx} (ri : RankInv c) {X Y xd yd : Nat} {ix iy : UbInner}
    (hX : c.elems[X]? = some ix) (hXd : ix.data = .root xd)
    (hY : c.elems[Y]? = some iy) (hYd : iy.data = .root yd) (hne : X ≠ Y) (hlt : iy.rank < ix.rank) :
    RankInv (setData c Y (.equalTo X)) ∧ nroots (setData c Y (.equalTo X)) + 1 = nroots c := by
  refine link_general ri hX (isRootAt_of hX hXd) hY (isRootAt_of hY hYd) hne (Nat.zero_le 1)
    (by omega) (setData_size _ _ _) (fun e i hi => ?_) (fun e i' hi' => ?_)
  · rw [setData_get]
    split
    · next h =>
      subst h
      exact ⟨{ i with data := .equalTo X }, by rw [hi]; rfl, fun h => absurd rfl h, fun _ => rfl,
        fun _ => rfl, fun _ => rfl⟩
    · next h =>
      exact ⟨i, hi, fun _ => rfl, fun he => absurd he.symm h, fun _ => rfl, fun _ => rfl⟩
  · obtain ⟨i, hi, _⟩ := setData_rank' c Y _ hi'
    exact ⟨i, hi⟩

/-- equal ranks: bump `X`, then link `Y` below it -/
theorem link_bump {c : Ctx} (ri : RankInv c) {X Y xd yd : Nat} {ix iy : UbInner}
    (hX : c.elems[X]? = some ix) (hXd : ix.data = .root xd)
    (hY : c.elems[Y]? = some iy) (hYd : iy.data = .root yd) (hne : X ≠ Y) (heq : ix.rank = iy.rank) :
    RankInv (setData (bumpRank c X) Y (.equalTo X)) ∧
    nroots (setData (bumpRank c X) Y (.equalTo X)) + 1 = nroots c := by
  refine link_general (δ := 1) ri hX (isRootAt_of hX hXd) hY (isRootAt_of hY hYd) hne (Nat.le_refl 1)
    (by omega) (by simp [setData, bumpRank]) (fun e i hi => ?_) (fun e i' hi' => ?_)
  · rw [setData_get, bumpRank_get]
    by_cases hY' : Y = e
    · subst hY'
      rw [if_pos rfl, if_neg hne, hi]
      exact ⟨{ i with data := .equalTo X }, rfl, fun h => absurd rfl h, fun _ => rfl,
        fun _ => rfl, fun h => absurd h.symm hne⟩
    · rw [if_neg hY']
      by_cases hX' : X = e
      · subst hX'
        rw [if_pos rfl, hi]
        exact ⟨{ i with rank := i.rank + 1 }, rfl, fun _ => rfl, fun he => absurd he.symm hY',
          fun h => absurd rfl h, fun _ => rfl⟩
      · rw [if_neg hX']
        exact ⟨i, hi, fun _ => rfl, fun he => absurd he.symm hY', fun _ => rfl,
          fun he => absurd he.symm hX'⟩
  · rw [setData_get, bumpRank_get] at hi'
    cases hc : c.elems[e]? with
    | some i => exact ⟨i, rfl⟩
    | none =>
      rw [hc] at hi'
      split at hi' <;> (try split at hi') <;> simp at hi'

/-- what the general termination statement needs about a `bind` of smaller fuel -/
def BindTot (F : Nat) (bindF : Ctx → Nat → Bound → M Ctx) (P N : Nat) : Prop :=
  ∀ c b new, RankInv c → c.elems.size < F → (∃ H, HBound c H ∧ new.cheight ≤ H ∧ H + ncount c ≤ P) →
    nroots c < N →
    NoFuel (bindF c b new) ∧ ∀ c', bindF c b new = .ok c' → GoodL c c' P

/-- `unify` terminates when the bind closure does for contexts with one root less -/
theorem ubUnify_totalL {F : Nat} {bindF : Ctx → Nat → Bound → M Ctx} {P N : Nat}
    (ih : BindTot F bindF P N) {c : Ctx} (ri : RankInv c) (hF : c.elems.size < F) (p : Pot c P)
    (hN : nroots c < N + 1) (x y : Nat) :
    NoFuel (ubUnify F (bindClosureOf bindF) c x y) ∧
    ∀ c', ubUnify F (bindClosureOf bindF) c x y = .ok c' → GoodL c c' P := by
  unfold ubUnify
  obtain ⟨n1, s1⟩ := rootElement_nofuel ri hF x
  split
  · next e he => exact ⟨(fun h => by cases h; exact n1 he), (fun c' h => by cases h)⟩
  · next c1 xr h1 =>
    have st1 := s1 c1 xr h1
    obtain ⟨n2, s2⟩ := rootElement_nofuel st1.rank (st1.esize ▸ hF) y
    split
    · next e he => exact ⟨(fun h => by cases h; exact n2 he), (fun c' h => by cases h)⟩
    · next c2 yr h2 =>
      have st2 := st1.trans (s2 c2 yr h2)
      have ri2 := st2.rank
      have p2 : Pot c2 P := p.of_slab_eq st2.slab
      split
      · next e he => exact ⟨(fun h => by cases h; exact absurd (getElem_err he) (by decide)), (fun c' h => by cases h)⟩
      · next e he _ => exact ⟨(fun h => by cases h; exact absurd (getElem_err he) (by decide)), (fun c' h => by cases h)⟩
      · next xElem yElem hxe hye =>
        have hxe' := getElem_ok.1 hxe
        have hye' := getElem_ok.1 hye
        split
        · next xd yd hxd hyd =>
          -- after the link the closure binds in a context with one root less
          have closure : ∀ (c4 : Ctx) (XD YD : Nat), RankInv c4 → c4.elems.size = c2.elems.size →
              c4.slab = c2.slab → nroots c4 + 1 = nroots c2 →
              NoFuel (bindClosureOf bindF c4 XD YD) ∧
              ∀ c', bindClosureOf bindF c4 XD YD = .ok c' → GoodL c c' P := by
            intro c4 XD YD ri4 hs4 hsl4 hr4
            unfold bindClosureOf
            split
            · next e he => exact ⟨(fun h => by cases h; exact absurd (getBound_err he) (by decide)), (fun c' h => by cases h)⟩
            · next BY hBY =>
              obtain ⟨H, hb, hle⟩ := p2.of_slab_eq hsl4
              have hBY' := getBound_ok.1 hBY
              obtain ⟨n5, s5⟩ := ih c4 XD BY ri4 (by rw [hs4, st2.esize]; exact hF)
                ⟨H, hb, hb YD BY hBY', hle⟩ (by have := st2.roots; omega)
              refine ⟨n5, fun c' h => ?_⟩
              have g := s5 c' h
              exact ⟨g.rank, by rw [g.esize, hs4, st2.esize], by rw [g.ssize, hsl4, st2.slab],
                by have := g.roots; have := st2.roots; omega, g.pot⟩
          split
          · exact ⟨(fun h => by cases h), (fun c' h => by cases h; exact st2.goodL p)⟩
          · next hneq =>
            have hne : xr ≠ yr := by
              rintro rfl
              rw [hxe'] at hye'; cases hye'
              rw [hxd] at hyd; cases hyd; exact hneq rfl
            split
            · next hlt =>
              obtain ⟨r4, hr4⟩ := link_plain ri2 hye' hyd hxe' hxd hne.symm hlt
              exact closure _ yd xd r4 (setData_size _ _ _) rfl hr4
            · split
              · next heq =>
                obtain ⟨r4, hr4⟩ := link_bump ri2 hxe' hxd hye' hyd hne heq
                exact closure _ xd yd r4 (by simp [setData, bumpRank]) rfl hr4
              · next hnlt hneq' =>
                obtain ⟨r4, hr4⟩ := link_plain ri2 hxe' hxd hye' hyd hne (by omega)
                exact closure _ xd yd r4 (setData_size _ _ _) rfl hr4
        · exact ⟨(fun h => by cases h), (fun c' h => by cases h)⟩

theorem bindPairwise_totalL {F : Nat} {unifyF : Ctx → Nat → Nat → M Ctx} {P N : Nat}
    (hu : ∀ c x y, RankInv c → c.elems.size < F → Pot c P → nroots c < N + 1 →
      NoFuel (unifyF c x y) ∧ ∀ c', unifyF c x y = .ok c' → GoodL c c' P)
    {c : Ctx} (ri : RankInv c) (hF : c.elems.size < F) (p : Pot c P) (hN : nroots c < N + 1)
    (b x1 x2 y1 y2 : Nat) (mk : Ty → Ty → Ty)
    (hmk : ∀ d1 d2, Ty.height (mk d1 d2) = 1 + max (Ty.height d1) (Ty.height d2)) :
    NoFuel (bindPairwise F unifyF c b x1 x2 y1 y2 mk) ∧
    ∀ c', bindPairwise F unifyF c b x1 x2 y1 y2 mk = .ok c' → GoodL c c' P := by
  unfold bindPairwise
  obtain ⟨n1, s1⟩ := hu c x1 y1 ri hF p hN
  split
  · next e he => exact ⟨(fun h => by cases h; exact n1 he), (fun c' h => by cases h)⟩
  · next c1 h1 =>
    have g1 := s1 c1 h1
    obtain ⟨n2, s2⟩ := hu c1 x2 y2 g1.rank (g1.esize ▸ hF) g1.pot (Nat.lt_of_le_of_lt g1.roots hN)
    split
    · next e he => exact ⟨(fun h => by cases h; exact n2 he), (fun c' h => by cases h)⟩
    · next c2 h2 =>
      have g2 := g1.trans (s2 c2 h2)
      obtain ⟨n3, s3⟩ := completePairData_nofuel g2.rank (g2.esize ▸ hF) y1 y2
      split
      · next e he => exact ⟨(fun h => by cases h; exact n3 he), (fun c' h => by cases h)⟩
      · next c3 d1 d2 h3 =>
        have st3 := s3 c3 _ h3
        have g3 := g2.trans (st3.goodL g2.pot)
        obtain ⟨_, hc3⟩ := completePairData_spec h3
        obtain ⟨ca1, ca2⟩ := hc3 d1 d2 rfl
        cases hr : reassignNonComplete c3 b (.complete (mk d1 d2)) with
        | error e => exact ⟨(fun h => by cases h; exact absurd (reassign_err hr) (by decide)), (fun c' h => by cases h)⟩
        | ok c4 =>
          obtain ⟨hc4, B3, hB3, hB3n⟩ := reassign_ok hr
          subst hc4
          refine ⟨(fun h => by cases h), fun c' h => ?_⟩
          cases h
          obtain ⟨H, hb, hle⟩ := g3.pot
          obtain ⟨_, b1, _, hs1, _⟩ := ca1
          obtain ⟨_, b2, _, hs2, _⟩ := ca2
          have e1 := hb b1 _ hs1
          have e2 := hb b2 _ hs2
          simp only [Bound.cheight] at e1 e2
          have hd : Ty.height (mk d1 d2) + 1 ≤ H + 1 := by rw [hmk]; omega
          exact ⟨rankInv_setBound g3.rank _ _, g3.esize, by rw [setBound_ssize]; exact g3.ssize,
            by rw [nroots_setBound]; exact g3.roots, pot_set_complete hb hle hB3 hB3n hd⟩
      · next c3 h3 =>
        have st3 := s3 c3 _ h3
        exact ⟨(fun h => by cases h), (fun c' h => by cases h; exact g2.trans (st3.goodL g2.pot))⟩

/-- **`bind` terminates**: recursion depth at most `#roots + potential + 2` -/
theorem bindL_total (F P : Nat) : ∀ (N f : Nat), N + P + 1 ≤ f → BindTot F (bind F f) P N
  | 0, _, _ => fun c b new _ _ _ hN => absurd hN (Nat.not_lt_zero _)
  | N+1, 0, hf => absurd hf (by omega)
  | N+1, f+1, hf => by
    have ihN := bindL_total F P N f (by omega)
    intro c b new ri hF hp hN
    obtain ⟨H, hb, hnew, hle⟩ := hp
    have p : Pot c P := ⟨H, hb, hle⟩
    unfold bind
    dsimp only
    have hHP : H ≤ P := by omega
    -- the arm against a complete type
    have comp : ∀ (d d1 d2 : Ty) (t1 t2 : Nat), Ty.height d + 1 ≤ H →
        Ty.height d1 + 1 ≤ Ty.height d → Ty.height d2 + 1 ≤ Ty.height d →
        NoFuel (bindComponents F (bind F f) c t1 t2 d1 d2) ∧
        ∀ c', bindComponents F (bind F f) c t1 t2 d1 d2 = .ok c' → GoodL c c' P := by
      intro d d1 d2 t1 t2 hd h1 h2
      obtain ⟨n, s⟩ := bindComponents_totalC (F := F) (bindF := bind F f) (H := H)
        (d1 := d1) (d2 := d2)
        (fun c b ri hF hb => bindC_total F f c b d1 H ri hF hb (by omega) (by omega))
        (fun c b ri hF hb => bindC_total F f c b d2 H ri hF hb (by omega) (by omega))
        ri hF hb t1 t2
      exact ⟨n, fun c' h => (s c' h).goodL hle⟩
    -- nested unifications run the closure at fuel `f`
    have hu : ∀ c x y, RankInv c → c.elems.size < F → Pot c P → nroots c < N + 1 →
        NoFuel (ubUnify F (bindClosureOf (bind F f)) c x y) ∧
        ∀ c', ubUnify F (bindClosureOf (bind F f)) c x y = .ok c' → GoodL c c' P :=
      fun c x y ri hF p hN => ubUnify_totalL ihN ri hF p hN x y
    split
    · next e he => exact ⟨(fun h => by cases h; exact absurd (getBound_err he) (by decide)), (fun c' h => by cases h)⟩
    · next B hB =>
      have hB' := getBound_ok.1 hB
      have hBH := hb b B hB'
      cases B with
      | free =>
        cases new with
        | free => exact ⟨(fun h => by cases h), (fun c' h => by cases h; exact (Stable.refl ri).goodL p)⟩
        | complete d =>
          dsimp only
          cases hr : reassignNonComplete c b (.complete d) with
          | error e => exact ⟨(fun h => by cases h; exact absurd (reassign_err hr) (by decide)), (fun c' h => by cases h)⟩
          | ok c' =>
            obtain ⟨hc', _⟩ := reassign_ok hr
            subst hc'
            refine ⟨(fun h => by cases h), fun c'' h => ?_⟩
            cases h
            obtain ⟨p1, p2⟩ := pot_set_complete' hb hB' (fun h => h) hnew
            exact ⟨rankInv_setBound ri _ _, rfl, setBound_ssize _ _ _,
              Nat.le_of_eq (nroots_setBound _ _ _), ⟨H, p1, by omega⟩⟩
        | sum y1 y2 =>
          dsimp only
          cases hr : reassignNonComplete c b (.sum y1 y2) with
          | error e => exact ⟨(fun h => by cases h; exact absurd (reassign_err hr) (by decide)), (fun c' h => by cases h)⟩
          | ok c' =>
            obtain ⟨hc', _⟩ := reassign_ok hr
            subst hc'
            refine ⟨(fun h => by cases h), fun c'' h => ?_⟩
            cases h
            exact ⟨rankInv_setBound ri _ _, rfl, setBound_ssize _ _ _,
              Nat.le_of_eq (nroots_setBound _ _ _), pot_set_nc p hB' (fun h => h) (fun h => h)⟩
        | product y1 y2 =>
          dsimp only
          cases hr : reassignNonComplete c b (.product y1 y2) with
          | error e => exact ⟨(fun h => by cases h; exact absurd (reassign_err hr) (by decide)), (fun c' h => by cases h)⟩
          | ok c' =>
            obtain ⟨hc', _⟩ := reassign_ok hr
            subst hc'
            refine ⟨(fun h => by cases h), fun c'' h => ?_⟩
            cases h
            exact ⟨rankInv_setBound ri _ _, rfl, setBound_ssize _ _ _,
              Nat.le_of_eq (nroots_setBound _ _ _), pot_set_nc p hB' (fun h => h) (fun h => h)⟩
      | complete d =>
        have hd : Ty.height d + 1 ≤ H := hBH
        cases new with
        | free => exact ⟨(fun h => by cases h), (fun c' h => by cases h; exact (Stable.refl ri).goodL p)⟩
        | complete n =>
          dsimp only
          split
          · exact ⟨(fun h => by cases h), (fun c' h => by cases h; exact (Stable.refl ri).goodL p)⟩
          · exact ⟨(fun h => by cases h), (fun c' h => by cases h)⟩
        | sum y1 y2 =>
          dsimp only
          split
          · next d1 d2 => exact comp _ d1 d2 y1 y2 hd (height_sum_l _ _) (height_sum_r _ _)
          · exact ⟨(fun h => by cases h), (fun c' h => by cases h)⟩
        | product y1 y2 =>
          dsimp only
          split
          · next d1 d2 => exact comp _ d1 d2 y1 y2 hd (height_prod_l _ _) (height_prod_r _ _)
          · exact ⟨(fun h => by cases h), (fun c' h => by cases h)⟩
      | sum x1 x2 =>
        cases new with
        | free => exact ⟨(fun h => by cases h), (fun c' h => by cases h; exact (Stable.refl ri).goodL p)⟩
        | complete n =>
          have hn : Ty.height n + 1 ≤ H := hnew
          dsimp only
          split
          · next d1 d2 => exact comp _ d1 d2 x1 x2 hn (height_sum_l _ _) (height_sum_r _ _)
          · exact ⟨(fun h => by cases h), (fun c' h => by cases h)⟩
        | sum y1 y2 =>
          show NoFuel (bindPairwise F (ubUnify F (bindClosureOf (bind F f))) c b x1 x2 y1 y2 Ty.sum) ∧ _
          exact bindPairwise_totalL hu ri hF p hN b x1 x2 y1 y2 Ty.sum (fun _ _ => rfl)
        | product y1 y2 => exact ⟨(fun h => by cases h), (fun c' h => by cases h)⟩
      | product x1 x2 =>
        cases new with
        | free => exact ⟨(fun h => by cases h), (fun c' h => by cases h; exact (Stable.refl ri).goodL p)⟩
        | complete n =>
          have hn : Ty.height n + 1 ≤ H := hnew
          dsimp only
          split
          · next d1 d2 => exact comp _ d1 d2 x1 x2 hn (height_prod_l _ _) (height_prod_r _ _)
          · exact ⟨(fun h => by cases h), (fun c' h => by cases h)⟩
        | sum y1 y2 => exact ⟨(fun h => by cases h), (fun c' h => by cases h)⟩
        | product y1 y2 =>
          show NoFuel (bindPairwise F (ubUnify F (bindClosureOf (bind F f))) c b x1 x2 y1 y2 Ty.prod) ∧ _
          exact bindPairwise_totalL hu ri hF p hN b x1 x2 y1 y2 Ty.prod (fun _ _ => rfl)

end UB
