/- C14: table-wide checks of the Bitcoin family, part A (ties to the source, decode walk); closed computations checked by the kernel. -/
import SimplicityModel.Gen.JetsBitcoin
import SimplicityModel.KernelRfl
namespace C14.Bitcoin
open JetTable JetTable.Family
set_option maxRecDepth 20000

theorem keys_tie : Gen.Bitcoin.family.rows.map (fun r => (r.name, r.src, r.tgt)) =
    Gen.Bitcoin.family.keys.map (fun k => (strOfKey k.1, strOfKey k.2.1, strOfKey k.2.2)) := by kernel_rfl
theorem enc_tie : Gen.Bitcoin.family.codes = Gen.Bitcoin.family.enc.map (fun e => Spk.bitsBE e.1 e.2) := by decide +kernel
theorem decode : checkDecodeFrom Gen.Bitcoin.family.trie 0 Gen.Bitcoin.family.codes = true := by decide +kernel
theorem leaves : checkLeaves Gen.Bitcoin.family.trie Gen.Bitcoin.family.codes.length = true := by decide +kernel
theorem count : Gen.Bitcoin.family.rows.length = 428 := by decide +kernel
end C14.Bitcoin
