/- C14: the Bitcoin family passes every table-wide check (parts A and B). -/
import SimplicityModel.C14.BitcoinA
import SimplicityModel.C14.BitcoinB
namespace C14.Bitcoin
open JetTable JetTable.Family
theorem checked : Gen.Bitcoin.family.Checked := ⟨keys_tie, enc_tie, decode, leaves, sorted, ascii, arms, types⟩
end C14.Bitcoin
