/- C14: table-wide checks between the tables: Core vs Elements, Elements vs the C tables. -/
import SimplicityModel.Gen.JetsCore
import SimplicityModel.Gen.JetsElements
import SimplicityModel.Gen.JetsC
import SimplicityModel.JetCross
import SimplicityModel.KernelRfl
namespace C14.Cross
open JetTable
set_option maxRecDepth 20000

theorem core_in_elements : coreInElements Gen.Core.family.keys Gen.Core.family.codes
    Gen.Elements.family.keys Gen.Elements.family.codes = true := by decide +kernel

/-- the C rows' string literals are the strings of their keys -/
theorem c_keys_tie : Gen.C.rows.map (fun r => (r.name, r.src, r.tgt)) =
    Gen.C.keys.map (fun k => (strOfKey k.1, strOfKey k.2.1, strOfKey k.2.2.1)) := by kernel_rfl

/-- row by row: same name; the C row sits at the enum entry of that name -/
theorem c_names : all2 (fun (ke : Nat × Nat × Nat) (kc : Nat × Nat × Nat × Nat) => Nat.beq ke.1 kc.1 && Nat.beq kc.1 kc.2.2.2)
    Gen.Elements.family.keys Gen.C.keys = true := by decide +kernel

theorem c_types : all2 (fun (ke : Nat × Nat × Nat) (kc : Nat × Nat × Nat × Nat) => sameTy ke.2.1 kc.2.1 && sameTy ke.2.2 kc.2.2.1)
    Gen.Elements.family.keys Gen.C.keys = true := by decide +kernel

theorem c_roots_costs : all2 (fun (re rc : JetRow) => Nat.beq re.cmr rc.cmr && Nat.beq re.cost rc.cost)
    Gen.Elements.family.rows Gen.C.rows = true := by decide +kernel

theorem c_paths : all2 pathOk Gen.Elements.family.codes Gen.C.paths = true := by decide +kernel

/-- c_jet_ptr → jets_wrapper.rs → jets_ffi.rs link_name → WRAP_ all carry the jet's own name -/
theorem c_chain : all2 (fun (ke : Nat × Nat × Nat) (ch : Nat × Nat × Nat × Nat) =>
      Nat.beq ch.1 ke.1 && Nat.beq ch.2.1 ke.1 && Nat.beq ch.2.2.1 ke.1 && Nat.beq ch.2.2.2 ke.1)
    Gen.Elements.family.keys Gen.C.chain = true := by decide +kernel

theorem cptr_is_chain : Gen.Elements.cptr = Gen.C.chain.map (·.1) := by decide +kernel

end C14.Cross
