/- C14: the Core family passes every table-wide check (parts A and B). -/
import SimplicityModel.C14.CoreA
import SimplicityModel.C14.CoreB
namespace C14.Core
open JetTable JetTable.Family
theorem checked : Gen.Core.family.Checked := ⟨keys_tie, enc_tie, decode, leaves, sorted, ascii, arms, types⟩
end C14.Core
