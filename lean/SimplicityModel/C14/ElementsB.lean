/- C14: table-wide checks of the Elements family, part B (names, FromStr arms, type names). -/
import SimplicityModel.Gen.JetsElements
namespace C14.Elements
open JetTable JetTable.Family
set_option maxRecDepth 20000

theorem sorted : sortedBytes Gen.Elements.family.nameBytes = true := by decide +kernel
theorem ascii : allB isAscii Gen.Elements.family.nameBytes = true := by decide +kernel
theorem arms : checkArmsFrom 0 Gen.Elements.family.parseArms Gen.Elements.family.nameKeys = true := by decide +kernel
theorem types : allB (fun k => (ctyOfName (bytesOfKey k.2.1)).isSome && (ctyOfName (bytesOfKey k.2.2)).isSome) Gen.Elements.family.keys = true := by decide +kernel
end C14.Elements
