/- C14: table-wide checks of the Core family, part B (names, FromStr arms, type names). -/
import SimplicityModel.Gen.JetsCore
namespace C14.Core
open JetTable JetTable.Family
set_option maxRecDepth 20000

theorem sorted : sortedBytes Gen.Core.family.nameBytes = true := by decide +kernel
theorem ascii : allB isAscii Gen.Core.family.nameBytes = true := by decide +kernel
theorem arms : checkArmsFrom 0 Gen.Core.family.parseArms Gen.Core.family.nameKeys = true := by decide +kernel
theorem types : allB (fun k => (ctyOfName (bytesOfKey k.2.1)).isSome && (ctyOfName (bytesOfKey k.2.2)).isSome) Gen.Core.family.keys = true := by decide +kernel
end C14.Core
