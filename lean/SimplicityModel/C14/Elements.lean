/- C14: the Elements family passes every table-wide check (parts A and B). -/
import SimplicityModel.C14.ElementsA
import SimplicityModel.C14.ElementsB
namespace C14.Elements
open JetTable JetTable.Family
theorem checked : Gen.Elements.family.Checked := ⟨keys_tie, enc_tie, decode, leaves, sorted, ascii, arms, types⟩
end C14.Elements
