/- C14: table-wide checks of the extern declarations (Gen/Externs.lean). -/
import SimplicityModel.Gen.Externs
namespace C14.Externs
open JetTable ExternTable
set_option maxRecDepth 20000

/-- every Rust declaration has a C prototype with the same number of parameters -/
theorem arity : allB arityOk Gen.Externs.decls = true := by decide +kernel

/-- every parameter has the same value class on the reference target -/
theorem abi : allB abiOk Gen.Externs.decls = true := by decide +kernel

/-- every parameter is the same type by name -/
theorem names : allB (fun r => (nameDiffs r).isEmpty) Gen.Externs.decls = true := by decide +kernel

/-- return types that are not the same type by name / not the same class (observation, outside the property) -/
def retDeviations : List Nat := (Gen.Externs.decls.filter (fun r => !(retNameOk r))).map (·.sym)
def retAbiDeviations : List Nat := (Gen.Externs.decls.filter (fun r => !(retAbiOk r))).map (·.sym)

end C14.Externs
