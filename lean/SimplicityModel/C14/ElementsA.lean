/- C14: table-wide checks of the Elements family, part A (ties to the source, decode walk); closed computations checked by the kernel. -/
import SimplicityModel.Gen.JetsElements
import SimplicityModel.KernelRfl
namespace C14.Elements
open JetTable JetTable.Family
set_option maxRecDepth 20000

theorem keys_tie : Gen.Elements.family.rows.map (fun r => (r.name, r.src, r.tgt)) =
    Gen.Elements.family.keys.map (fun k => (strOfKey k.1, strOfKey k.2.1, strOfKey k.2.2)) := by kernel_rfl
theorem enc_tie : Gen.Elements.family.codes = Gen.Elements.family.enc.map (fun e => Spk.bitsBE e.1 e.2) := by decide +kernel
theorem decode : checkDecodeFrom Gen.Elements.family.trie 0 Gen.Elements.family.codes = true := by decide +kernel
theorem leaves : checkLeaves Gen.Elements.family.trie Gen.Elements.family.codes.length = true := by decide +kernel
theorem count : Gen.Elements.family.rows.length = 471 := by decide +kernel
end C14.Elements
