/- C14: table-wide checks of the Core family, part A (ties to the source, decode walk); closed computations checked by the kernel. -/
import SimplicityModel.Gen.JetsCore
import SimplicityModel.KernelRfl
namespace C14.Core
open JetTable JetTable.Family
set_option maxRecDepth 20000

theorem keys_tie : Gen.Core.family.rows.map (fun r => (r.name, r.src, r.tgt)) =
    Gen.Core.family.keys.map (fun k => (strOfKey k.1, strOfKey k.2.1, strOfKey k.2.2)) := by kernel_rfl
theorem enc_tie : Gen.Core.family.codes = Gen.Core.family.enc.map (fun e => Spk.bitsBE e.1 e.2) := by decide +kernel
theorem decode : checkDecodeFrom Gen.Core.family.trie 0 Gen.Core.family.codes = true := by decide +kernel
theorem leaves : checkLeaves Gen.Core.family.trie Gen.Core.family.codes.length = true := by decide +kernel
theorem count : Gen.Core.family.rows.length = 368 := by decide +kernel
end C14.Core
