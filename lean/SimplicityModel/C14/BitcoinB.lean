/- C14: table-wide checks of the Bitcoin family, part B (names, FromStr arms, type names). -/
import SimplicityModel.Gen.JetsBitcoin
namespace C14.Bitcoin
open JetTable JetTable.Family
set_option maxRecDepth 20000

theorem sorted : sortedBytes Gen.Bitcoin.family.nameBytes = true := by decide +kernel
theorem ascii : allB isAscii Gen.Bitcoin.family.nameBytes = true := by decide +kernel
theorem arms : checkArmsFrom 0 Gen.Bitcoin.family.parseArms Gen.Bitcoin.family.nameKeys = true := by decide +kernel
theorem types : allB (fun k => (ctyOfName (bytesOfKey k.2.1)).isSome && (ctyOfName (bytesOfKey k.2.2)).isSome) Gen.Bitcoin.family.keys = true := by decide +kernel
end C14.Bitcoin
