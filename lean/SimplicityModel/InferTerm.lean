import SimplicityModel.Infer
/-
Spike: C04 — the reference unifier terminates: with fuel `B |V| size` it never answers `fuel`,
so "finalises exactly when a finite solution exists" has no third outcome.
-/
namespace Inf

def Tm.sz : Tm → Nat
  | .var _ => 1
  | .one => 1
  | .sum a b => 1 + a.sz + b.sz
  | .prod a b => 1 + a.sz + b.sz

theorem Tm.sz_pos (t : Tm) : 1 ≤ t.sz := by cases t <;> simp [Tm.sz] <;> omega

def szE : List Eqn → Nat
  | [] => 0
  | e :: E => e.1.sz + e.2.sz + szE E

/-- all variables of `E` are listed in `V` -/
def InV (V : List Nat) (E : List Eqn) : Prop :=
  ∀ e ∈ E, ∀ y, (e.1.occurs y = true ∨ e.2.occurs y = true) → y ∈ V

/-- fuel bound: at most `s` decomposition steps between two eliminations; an elimination at most
squares the size and removes a variable -/
def B : Nat → Nat → Nat
  | 0, s => s + 1
  | v+1, s => s + 1 + B v (s * s)

theorem B_mono (v : Nat) : ∀ {s s' : Nat}, s ≤ s' → B v s ≤ B v s' := by
  induction v with
  | zero => intro s s' h; simp only [B]; omega
  | succ v ih =>
    intro s s' h
    simp only [B]
    have := ih (Nat.mul_le_mul h h)
    omega

theorem B_succ (v s : Nat) : B v s + 1 ≤ B v (s + 1) := by
  cases v with
  | zero => simp only [B]; omega
  | succ v =>
    simp only [B]
    have := B_mono v (Nat.mul_le_mul (Nat.le_succ s) (Nat.le_succ s))
    simp only [Nat.succ_eq_add_one] at this
    omega

theorem sz_subst1 (u : Tm) (x : Nat) (t : Tm) : (u.subst1 x t).sz ≤ u.sz * t.sz := by
  induction u with
  | var n =>
    simp only [Tm.subst1]
    split
    · simp [Tm.sz]
    · have := t.sz_pos; simp [Tm.sz]; omega
  | one => have := t.sz_pos; simp [Tm.subst1, Tm.sz]; omega
  | sum a b iha ihb =>
    simp only [Tm.subst1, Tm.sz]
    have := t.sz_pos
    rw [Nat.add_mul, Nat.add_mul]
    have : 1 ≤ 1 * t.sz := by omega
    omega
  | prod a b iha ihb =>
    simp only [Tm.subst1, Tm.sz]
    have := t.sz_pos
    rw [Nat.add_mul, Nat.add_mul]
    have : 1 ≤ 1 * t.sz := by omega
    omega

theorem szE_subst (E : List Eqn) (x : Nat) (t : Tm) : szE (E.map (substE x t)) ≤ szE E * t.sz := by
  induction E with
  | nil => simp [szE]
  | cons e E ih =>
    simp only [List.map_cons, szE, substE]
    have h1 := sz_subst1 e.1 x t
    have h2 := sz_subst1 e.2 x t
    rw [Nat.add_mul, Nat.add_mul]
    omega

theorem occurs_subst (u : Tm) (x y : Nat) (t : Tm) (h : (u.subst1 x t).occurs y = true) :
    (u.occurs y = true ∧ y ≠ x) ∨ t.occurs y = true := by
  induction u with
  | var n =>
    simp only [Tm.subst1] at h
    split at h
    · exact .inr h
    · next hne =>
      simp only [Tm.occurs, decide_eq_true_eq] at h
      left; subst h; exact ⟨by simp [Tm.occurs], hne⟩
  | one => simp [Tm.subst1, Tm.occurs] at h
  | sum a b iha ihb =>
    simp only [Tm.subst1, Tm.occurs, Bool.or_eq_true] at h ⊢
    rcases h with h | h
    · rcases iha h with ⟨h1, h2⟩ | h1
      · exact .inl ⟨.inl h1, h2⟩
      · exact .inr h1
    · rcases ihb h with ⟨h1, h2⟩ | h1
      · exact .inl ⟨.inr h1, h2⟩
      · exact .inr h1
  | prod a b iha ihb =>
    simp only [Tm.subst1, Tm.occurs, Bool.or_eq_true] at h ⊢
    rcases h with h | h
    · rcases iha h with ⟨h1, h2⟩ | h1
      · exact .inl ⟨.inl h1, h2⟩
      · exact .inr h1
    · rcases ihb h with ⟨h1, h2⟩ | h1
      · exact .inl ⟨.inr h1, h2⟩
      · exact .inr h1

/-- after eliminating `x := t` (with `x ∉ t`) the variables fit in `V.erase x` -/
theorem inV_elim {V : List Nat} {x : Nat} {t : Tm} {E : List Eqn}
    (h : InV V ((.var x, t) :: E)) (hx : t.occurs x = false) :
    InV (V.erase x) (E.map (substE x t)) := by
  intro e he y hy
  simp only [List.mem_map] at he
  obtain ⟨e0, he0, rfl⟩ := he
  have hyV : y ∈ V ∧ y ≠ x := by
    simp only [substE] at hy
    rcases hy with hy | hy
    · rcases occurs_subst _ _ _ _ hy with ⟨h1, h2⟩ | h1
      · exact ⟨h e0 (by simp [he0]) y (.inl h1), h2⟩
      · refine ⟨h (.var x, t) (by simp) y (.inr h1), ?_⟩
        intro e; subst e; rw [hx] at h1; cases h1
    · rcases occurs_subst _ _ _ _ hy with ⟨h1, h2⟩ | h1
      · exact ⟨h e0 (by simp [he0]) y (.inr h1), h2⟩
      · refine ⟨h (.var x, t) (by simp) y (.inr h1), ?_⟩
        intro e; subst e; rw [hx] at h1; cases h1
  exact (List.mem_erase_of_ne hyV.2).2 hyV.1

theorem inV_tail {V : List Nat} {e : Eqn} {E : List Eqn} (h : InV V (e :: E)) : InV V E :=
  fun e' he' => h e' (by simp [he'])

/-- the `elim` step never runs out of fuel, given the two induction hypotheses -/
theorem elim_term (v s f : Nat) (V : List Nat) (x : Nat) (t : Tm) (E : List Eqn) (S : List Bind)
    (hV : V.length ≤ v) (hin : InV V ((.var x, t) :: E)) (hs : szE ((.var x, t) :: E) ≤ s)
    (hf : B v s ≤ f + 1)
    (ihs : ∀ E' S', InV V E' → szE E' + 1 ≤ s → unify f E' S' ≠ .fuel)
    (ihv : ∀ v' V' E' S', v = v' + 1 → V'.length ≤ v' → InV V' E' → szE E' ≤ s * s →
      unify f E' S' ≠ .fuel) :
    elim (unify f) x t E S ≠ .fuel := by
  unfold elim
  have hszt := t.sz_pos
  simp only [szE, Tm.sz] at hs
  split
  · exact ihs E S (inV_tail hin) (by omega)
  · split
    · intro h; cases h
    · next hne hocc =>
      have hxV : x ∈ V := hin (.var x, t) (by simp) x (.inl (by simp [Tm.occurs]))
      cases v with
      | zero => cases V with
        | nil => cases hxV
        | cons _ _ => simp at hV
      | succ v' =>
        apply ihv v' (V.erase x) _ _ rfl
        · rw [List.length_erase_of_mem hxV]; omega
        · exact inV_elim hin (by simpa using hocc)
        · have := szE_subst E x t
          have h2 : szE E * t.sz ≤ s * s := Nat.mul_le_mul (by omega) (by omega)
          omega

theorem inV_swap {V : List Nat} {a b : Tm} {E : List Eqn} (h : InV V ((a, b) :: E)) :
    InV V ((b, a) :: E) := by
  intro e he y hy
  rcases List.mem_cons.1 he with rfl | he'
  · exact h (a, b) (by simp) y (by simpa [or_comm] using hy)
  · exact h e (by simp [he']) y hy

theorem inV_decomp_sum {V : List Nat} {a b c d : Tm} {E : List Eqn}
    (h : InV V ((.sum a b, .sum c d) :: E)) : InV V ((a, c) :: (b, d) :: E) := by
  intro e he y hy
  simp only [List.mem_cons] at he
  rcases he with rfl | rfl | he'
  · exact h (.sum a b, .sum c d) (by simp) y (by
      simp only [Tm.occurs, Bool.or_eq_true]; rcases hy with hy | hy
      · exact .inl (.inl hy)
      · exact .inr (.inl hy))
  · exact h (.sum a b, .sum c d) (by simp) y (by
      simp only [Tm.occurs, Bool.or_eq_true]; rcases hy with hy | hy
      · exact .inl (.inr hy)
      · exact .inr (.inr hy))
  · exact h e (by simp [he']) y hy

theorem inV_decomp_prod {V : List Nat} {a b c d : Tm} {E : List Eqn}
    (h : InV V ((.prod a b, .prod c d) :: E)) : InV V ((a, c) :: (b, d) :: E) := by
  intro e he y hy
  simp only [List.mem_cons] at he
  rcases he with rfl | rfl | he'
  · exact h (.prod a b, .prod c d) (by simp) y (by
      simp only [Tm.occurs, Bool.or_eq_true]; rcases hy with hy | hy
      · exact .inl (.inl hy)
      · exact .inr (.inl hy))
  · exact h (.prod a b, .prod c d) (by simp) y (by
      simp only [Tm.occurs, Bool.or_eq_true]; rcases hy with hy | hy
      · exact .inl (.inr hy)
      · exact .inr (.inr hy))
  · exact h e (by simp [he']) y hy

/-- **termination with an explicit bound** -/
theorem unify_terminates : ∀ (v s : Nat) (V : List Nat) (E : List Eqn) (S : List Bind) (f : Nat),
    V.length ≤ v → InV V E → szE E ≤ s → B v s ≤ f → unify f E S ≠ .fuel := by
  intro v
  induction v using Nat.strongRecOn with
  | _ v ihv =>
    intro s
    induction s using Nat.strongRecOn with
    | _ s ihs =>
      intro V E S f hV hin hs hf
      have hB1 : 1 ≤ B v s := by cases v <;> simp only [B] <;> omega
      cases f with
      | zero => omega
      | succ f =>
        have ihs' : ∀ E' S', InV V E' → szE E' + 1 ≤ s → unify f E' S' ≠ .fuel := by
          intro E' S' hin' hs'
          apply ihs (s - 1) (by omega) V E' S' f hV hin' (by omega)
          have := B_succ v (s - 1)
          rw [show s - 1 + 1 = s by omega] at this
          omega
        have ihv' : ∀ v' V' E' S', v = v' + 1 → V'.length ≤ v' → InV V' E' → szE E' ≤ s * s →
            unify f E' S' ≠ .fuel := by
          intro v' V' E' S' hv hV' hin' hs'
          subst hv
          apply ihv v' (by omega) (s * s) V' E' S' f hV' hin' hs'
          simp only [B] at hf; omega
        cases E with
        | nil => simp [unify]
        | cons e E =>
          obtain ⟨a, b⟩ := e
          have hel : ∀ x t, (a, b) = (.var x, t) ∨ (b, a) = (.var x, t) →
              elim (unify f) x t E S ≠ .fuel := by
            intro x t hab
            rcases hab with h | h
            · injection h with h1 h2; subst h1 h2
              exact elim_term v s f V x b E S hV hin hs hf ihs' ihv'
            · injection h with h1 h2; subst h1 h2
              exact elim_term v s f V x a E S hV (inV_swap hin)
                (by simp only [szE] at hs ⊢; omega) hf ihs' ihv'
          cases a with
          | var x => simp only [unify]; exact hel x b (.inl rfl)
          | one =>
            cases b with
            | var x => simp only [unify]; exact hel x .one (.inr rfl)
            | one =>
              simp only [unify]
              exact ihs' E S (inV_tail hin) (by simp only [szE, Tm.sz] at hs; omega)
            | sum c d => simp [unify]
            | prod c d => simp [unify]
          | sum a1 a2 =>
            cases b with
            | var x => simp only [unify]; exact hel x _ (.inr rfl)
            | one => simp [unify]
            | sum c d =>
              simp only [unify]
              exact ihs' _ S (inV_decomp_sum hin) (by simp only [szE, Tm.sz] at hs ⊢; omega)
            | prod c d => simp [unify]
          | prod a1 a2 =>
            cases b with
            | var x => simp only [unify]; exact hel x _ (.inr rfl)
            | one => simp [unify]
            | sum c d => simp [unify]
            | prod c d =>
              simp only [unify]
              exact ihs' _ S (inV_decomp_prod hin) (by simp only [szE, Tm.sz] at hs ⊢; omega)

def Tm.vars : Tm → List Nat
  | .var n => [n]
  | .one => []
  | .sum a b => a.vars ++ b.vars
  | .prod a b => a.vars ++ b.vars

theorem occurs_vars {t : Tm} {y : Nat} (h : t.occurs y = true) : y ∈ t.vars := by
  induction t with
  | var n => simp [Tm.occurs] at h; simp [Tm.vars, h]
  | one => simp [Tm.occurs] at h
  | sum a b iha ihb =>
    simp only [Tm.occurs, Bool.or_eq_true] at h
    simp only [Tm.vars, List.mem_append]
    rcases h with h | h
    · exact .inl (iha h)
    · exact .inr (ihb h)
  | prod a b iha ihb =>
    simp only [Tm.occurs, Bool.or_eq_true] at h
    simp only [Tm.vars, List.mem_append]
    rcases h with h | h
    · exact .inl (iha h)
    · exact .inr (ihb h)

def varsE (E : List Eqn) : List Nat := E.flatMap fun e => e.1.vars ++ e.2.vars

theorem inV_varsE (E : List Eqn) : InV (varsE E) E := by
  intro e he y hy
  simp only [varsE, List.mem_flatMap, List.mem_append]
  refine ⟨e, he, ?_⟩
  rcases hy with hy | hy
  · exact .inl (occurs_vars hy)
  · exact .inr (occurs_vars hy)

/-- fuel that always suffices, computed from the constraint system -/
def enough (E : List Eqn) : Nat := B (varsE E).length (szE E)

/-- **C04, "exactly when"**: with `enough E` fuel the reference unifier answers `ok`, `clash` or
`occurs`, never `fuel` — and by `unify_good` these mean "same solution set" resp. "no finite
solution" -/
theorem unify_total (E : List Eqn) : unify (enough E) E [] ≠ .fuel :=
  unify_terminates _ _ (varsE E) E [] _ (Nat.le_refl _) (inV_varsE E) (Nat.le_refl _) (Nat.le_refl _)

theorem elim_mono (f : Nat) (x : Nat) (t : Tm) (E : List Eqn) (S : List Bind)
    (ih : ∀ E S, unify f E S ≠ .fuel → unify (f + 1) E S = unify f E S)
    (h : elim (unify f) x t E S ≠ .fuel) : elim (unify (f + 1)) x t E S = elim (unify f) x t E S := by
  unfold elim at h ⊢
  split
  · next ht => rw [if_pos ht] at h; exact ih _ _ h
  · next ht =>
    rw [if_neg ht] at h
    split
    · rfl
    · next ho => rw [if_neg ho] at h; exact ih _ _ h

/-- more fuel does not change a definite answer -/
theorem unify_mono : ∀ (f : Nat) (E : List Eqn) (S : List Bind), unify f E S ≠ .fuel →
    unify (f + 1) E S = unify f E S := by
  intro f
  induction f with
  | zero => intro E S h; simp [unify] at h
  | succ f ih =>
    intro E S h
    cases E with
    | nil => simp [unify]
    | cons e E =>
      obtain ⟨a, b⟩ := e
      cases a with
      | var x => simp only [unify] at h ⊢; exact elim_mono _ _ _ _ _ ih h
      | one =>
        cases b with
        | var x => simp only [unify] at h ⊢; exact elim_mono _ _ _ _ _ ih h
        | one => simp only [unify] at h ⊢; exact ih _ _ h
        | sum c d => simp [unify]
        | prod c d => simp [unify]
      | sum a1 a2 =>
        cases b with
        | var x => simp only [unify] at h ⊢; exact elim_mono _ _ _ _ _ ih h
        | one => simp [unify]
        | sum c d => simp only [unify] at h ⊢; exact ih _ _ h
        | prod c d => simp [unify]
      | prod a1 a2 =>
        cases b with
        | var x => simp only [unify] at h ⊢; exact elim_mono _ _ _ _ _ ih h
        | one => simp [unify]
        | sum c d => simp [unify]
        | prod c d => simp only [unify] at h ⊢; exact ih _ _ h

theorem unify_mono_le {f g : Nat} (hfg : f ≤ g) {E : List Eqn} {S : List Bind}
    (h : unify f E S ≠ .fuel) : unify g E S = unify f E S := by
  induction hfg with
  | refl => rfl
  | step _ ih => rw [unify_mono _ _ _ (by rw [ih]; exact h), ih]

/-- whatever fuel the driver uses: a definite answer is *the* answer -/
theorem unify_answer {f : Nat} {E : List Eqn} (h : unify f E [] ≠ .fuel) :
    unify f E [] = unify (max f (enough E)) E [] ∧ unify (enough E) E [] = unify (max f (enough E)) E [] :=
  ⟨(unify_mono_le (Nat.le_max_left _ _) h).symm, (unify_mono_le (Nat.le_max_right _ _) (unify_total E)).symm⟩

#print axioms unify_total
#print axioms unify_answer
end Inf
