/-
Termination of a whole sequence of context operations with an explicit fuel bound.
-/
import SimplicityModel.UnionBoundTermL
import SimplicityModel.UnionBoundOps

namespace UB
open Inf (Ty)

theorem ncBelow_le (c : Ctx) : ∀ n, ncBelow c n ≤ n
  | 0 => Nat.le_refl 0
  | n+1 => by
    have := ncBelow_le c n
    simp only [ncBelow]; split <;> omega

theorem nroots_le (c : Ctx) : nroots c ≤ c.elems.size := rootsBelow_le c _
theorem ncount_le (c : Ctx) : ncount c ≤ c.slab.size := ncBelow_le c _

/-- the invariant of a run: rank invariant, and the potential is bounded by the tallest complete
type the operations introduce (`Hm`) plus the number of slab entries -/
structure TInv (c : Ctx) (Hm : Nat) : Prop where
  rank : RankInv c
  pot : Pot c (Hm + c.slab.size)

theorem isRootAt_alloc_old (c : Ctx) (B : Bound) {e : Nat} (h : e < c.elems.size) :
    isRootAt (allocType c B).1 e = isRootAt c e := by
  unfold isRootAt; rw [alloc_elems, if_neg (Nat.ne_of_lt h)]

theorem isRootAt_alloc_new (c : Ctx) (B : Bound) : isRootAt (allocType c B).1 c.elems.size = true := by
  unfold isRootAt; rw [alloc_elems, if_pos rfl]

theorem nroots_alloc (c : Ctx) (B : Bound) : nroots (allocType c B).1 = nroots c + 1 := by
  unfold nroots
  rw [alloc_size]
  simp only [rootsBelow, isRootAt_alloc_new, if_true]
  rw [rootsBelow_congr _ (fun e he => isRootAt_alloc_old c B he)]

theorem rankInv_alloc {c : Ctx} (ri : RankInv c) (B : Bound) : RankInv (allocType c B).1 := by
  constructor
  · intro e i p hi hd
    rw [alloc_elems] at hi
    split at hi
    · cases hi; cases hd
    · obtain ⟨ip, hip, hlt⟩ := ri.par e i p hi hd
      have hp : p < c.elems.size := by
        rcases Nat.lt_or_ge p c.elems.size with h | h
        · exact h
        · rw [Array.getElem?_eq_none h] at hip; cases hip
      exact ⟨ip, by rw [alloc_elems, if_neg (Nat.ne_of_lt hp)]; exact hip, hlt⟩
  · intro e i hi
    rw [nroots_alloc, alloc_size]
    rw [alloc_elems] at hi
    split at hi
    · cases hi
      have := nroots_le c
      simp only; omega
    · have := ri.bound e i hi; omega

theorem isNCAt_alloc_old (c : Ctx) (B : Bound) {e : Nat} (h : e < c.slab.size) :
    isNCAt (allocType c B).1 e = isNCAt c e := by
  unfold isNCAt; rw [alloc_slab, if_neg (Nat.ne_of_lt h)]

theorem alloc_ssize (c : Ctx) (B : Bound) : (allocType c B).1.slab.size = c.slab.size + 1 := by
  simp [allocType]

def Bound.isCompleteB : Bound → Bool
  | .complete _ => true
  | _ => false

theorem ncount_alloc (c : Ctx) (B : Bound) :
    ncount (allocType c B).1 = ncount c + (if B.isCompleteB then 0 else 1) := by
  unfold ncount
  rw [alloc_ssize]
  simp only [ncBelow]
  rw [ncBelow_congr _ (fun e he => isNCAt_alloc_old c B he)]
  congr 1
  unfold isNCAt
  rw [alloc_slab, if_pos rfl]
  cases B <;> rfl

theorem tinv_alloc {c : Ctx} {Hm : Nat} (t : TInv c Hm) (B : Bound)
    (hB : ∀ H, HBound c H → B.cheight ≤ max H Hm ∨ B.cheight ≤ H + 1) :
    TInv (allocType c B).1 Hm := by
  refine ⟨rankInv_alloc t.rank B, ?_⟩
  obtain ⟨H, hb, hle⟩ := t.pot
  have hnc := ncount_alloc c B
  have hncle := ncount_le c
  rw [alloc_ssize]
  have hbound : ∀ H', H ≤ H' → B.cheight ≤ H' → HBound (allocType c B).1 H' := by
    intro H' h1 h2 b' B' hs
    rw [alloc_slab] at hs
    split at hs
    · cases hs; exact h2
    · exact Nat.le_trans (hb b' B' hs) h1
  cases B with
  | complete d =>
    simp only [Bound.isCompleteB, if_true, Nat.add_zero] at hnc
    rcases hB H hb with h | h
    · exact ⟨max H Hm, hbound _ (Nat.le_max_left _ _) h, by rw [hnc]; omega⟩
    · exact ⟨H + 1, hbound _ (Nat.le_succ _) h, by rw [hnc]; omega⟩
  | free =>
    simp only [Bound.isCompleteB] at hnc
    exact ⟨H, hbound _ (Nat.le_refl _) (Nat.zero_le _), by rw [hnc]; simp; omega⟩
  | sum l r =>
    simp only [Bound.isCompleteB] at hnc
    exact ⟨H, hbound _ (Nat.le_refl _) (Nat.zero_le _), by rw [hnc]; simp; omega⟩
  | product l r =>
    simp only [Bound.isCompleteB] at hnc
    exact ⟨H, hbound _ (Nat.le_refl _) (Nat.zero_le _), by rw [hnc]; simp; omega⟩

theorem Stable.tinv {c c' : Ctx} {Hm : Nat} (st : Stable c c') (t : TInv c Hm) : TInv c' Hm :=
  ⟨st.rank, by rw [st.slab]; exact t.pot.of_slab_eq st.slab⟩

/-- `Type::sum` / `Type::product` -/
theorem typePair_total {F : Nat} {c : Ctx} {Hm : Nat} (t : TInv c Hm) (hF : c.elems.size < F)
    (l r : Nat) (mk : Ty → Ty → Ty) (mkB : Nat → Nat → Bound) (hmkB : (mkB l r).cheight = 0)
    (hmk : ∀ d1 d2, Ty.height (mk d1 d2) = 1 + max (Ty.height d1) (Ty.height d2)) :
    let res : M (Ctx × Nat) := match completePairData F c l r with
      | .error e => .error e
      | .ok (c, some (d1, d2)) => .ok (allocType c (.complete (mk d1 d2)))
      | .ok (c, none) => .ok (allocType c (mkB l r))
    NoFuel res ∧ ∀ c' k, res = .ok (c', k) →
      TInv c' Hm ∧ c'.elems.size = c.elems.size + 1 ∧ c'.slab.size = c.slab.size + 1 := by
  intro res
  obtain ⟨n1, s1⟩ := completePairData_nofuel t.rank hF l r
  show NoFuel (match completePairData F c l r with
      | .error e => .error e
      | .ok (c, some (d1, d2)) => .ok (allocType c (.complete (mk d1 d2)))
      | .ok (c, none) => .ok (allocType c (mkB l r))) ∧ _
  split
  · next e he =>
    refine ⟨(fun h => by cases h; exact n1 he), fun c' k h => ?_⟩
    simp only [res, he] at h; cases h
  · next c1 d1 d2 h1 =>
    have st := s1 c1 _ h1
    have t1 := st.tinv t
    obtain ⟨_, hc⟩ := completePairData_spec h1
    obtain ⟨⟨_, b1, _, hs1, _⟩, ⟨_, b2, _, hs2, _⟩⟩ := hc d1 d2 rfl
    refine ⟨(fun h => by cases h), fun c' k h => ?_⟩
    simp only [res, h1] at h
    cases h
    refine ⟨tinv_alloc t1 _ (fun H hb => .inr ?_), (alloc_size c1 _).trans (by rw [st.esize]), (alloc_ssize c1 _).trans (by rw [st.slab])⟩
    have e1 := hb b1 _ hs1
    have e2 := hb b2 _ hs2
    simp only [Bound.cheight] at e1 e2 ⊢
    rw [hmk]; omega
  · next c1 h1 =>
    have st := s1 c1 _ h1
    have t1 := st.tinv t
    refine ⟨(fun h => by cases h), fun c' k h => ?_⟩
    simp only [res, h1] at h
    cases h
    exact ⟨tinv_alloc t1 _ (fun H _ => .inr (by rw [hmkB]; omega)), (alloc_size c1 _).trans (by rw [st.esize]),
      (alloc_ssize c1 _).trans (by rw [st.slab])⟩

/-- the fuel one operation needs -/
def OpH (Hm : Nat) : Op → Prop
  | .complete t => Ty.height t + 1 ≤ Hm
  | _ => True

theorem step_total {F : Nat} {c : Ctx} {Hm : Nat} (t : TInv c Hm)
    (hF : c.elems.size + c.slab.size + Hm + 3 ≤ F) (op : Op) (hop : OpH Hm op) :
    NoFuel (step F c op) ∧ ∀ c', step F c op = .ok c' →
      TInv c' Hm ∧ c'.elems.size ≤ c.elems.size + 1 ∧ c'.slab.size ≤ c.slab.size + 1 := by
  have hF1 : c.elems.size < F := by omega
  cases op with
  | free =>
    refine ⟨(fun h => by cases h), fun c' h => ?_⟩
    cases h
    exact ⟨tinv_alloc t _ (fun H _ => .inr (Nat.zero_le _)), Nat.le_of_eq (alloc_size _ _),
      Nat.le_of_eq (alloc_ssize _ _)⟩
  | complete d =>
    refine ⟨(fun h => by cases h), fun c' h => ?_⟩
    cases h
    refine ⟨tinv_alloc t _ (fun H _ => .inl ?_), Nat.le_of_eq (alloc_size _ _), Nat.le_of_eq (alloc_ssize _ _)⟩
    have : Ty.height d + 1 ≤ Hm := hop
    simp only [Bound.cheight]; omega
  | sum a b =>
    obtain ⟨n, s⟩ := typePair_total t hF1 a b .sum .sum rfl (fun _ _ => rfl)
    show NoFuel (fstM (typeSum F c a b)) ∧ ∀ c', fstM (typeSum F c a b) = .ok c' → _
    unfold fstM
    refine ⟨?_, fun c' h => ?_⟩
    · intro h
      cases hr : typeSum F c a b with
      | error e => rw [hr] at h; cases h; exact n hr
      | ok r => rw [hr] at h; cases h
    · cases hr : typeSum F c a b with
      | error e => rw [hr] at h; cases h
      | ok r =>
        obtain ⟨c1, k⟩ := r
        rw [hr] at h; cases h
        obtain ⟨h1, h2, h3⟩ := s c' k hr
        exact ⟨h1, Nat.le_of_eq h2, Nat.le_of_eq h3⟩
  | product a b =>
    obtain ⟨n, s⟩ := typePair_total t hF1 a b .prod .product rfl (fun _ _ => rfl)
    show NoFuel (fstM (typeProduct F c a b)) ∧ ∀ c', fstM (typeProduct F c a b) = .ok c' → _
    unfold fstM
    refine ⟨?_, fun c' h => ?_⟩
    · intro h
      cases hr : typeProduct F c a b with
      | error e => rw [hr] at h; cases h; exact n hr
      | ok r => rw [hr] at h; cases h
    · cases hr : typeProduct F c a b with
      | error e => rw [hr] at h; cases h
      | ok r =>
        obtain ⟨c1, k⟩ := r
        rw [hr] at h; cases h
        obtain ⟨h1, h2, h3⟩ := s c' k hr
        exact ⟨h1, Nat.le_of_eq h2, Nat.le_of_eq h3⟩
  | unify a b =>
    have hN := nroots_le c
    obtain ⟨n, s⟩ := ubUnify_totalL (bindL_total F (Hm + c.slab.size) (nroots c) F (by omega))
      t.rank hF1 t.pot (Nat.lt_succ_self _) a b
    refine ⟨n, fun c' h => ?_⟩
    have g := s c' h
    exact ⟨⟨g.rank, by rw [g.ssize]; exact g.pot⟩, by rw [g.esize]; omega, by rw [g.ssize]; omega⟩
  | bindProduct e a b =>
    show NoFuel (bindProduct F F c e a b) ∧ ∀ c', bindProduct F F c e a b = .ok c' → _
    unfold bindProduct
    obtain ⟨n1, s1⟩ := rootRef_nofuel t.rank hF1 e
    split
    · next err he => exact ⟨(fun h => by cases h; exact n1 he), (fun c' h => by cases h)⟩
    · next c1 root h1 =>
      have st := s1 c1 root h1
      have t1 := st.tinv t
      have hN := nroots_le c
      obtain ⟨H, hb, hle⟩ := t1.pot
      obtain ⟨n, s⟩ := bindL_total F (Hm + c1.slab.size) (nroots c1 + 1) F
        (by rw [st.roots, st.slab]; omega) c1 root (.product a b) t1.rank (by rw [st.esize]; exact hF1)
        ⟨H, hb, Nat.zero_le _, hle⟩ (Nat.lt_succ_self _)
      refine ⟨n, fun c' h => ?_⟩
      have g := s c' h
      exact ⟨⟨g.rank, by rw [g.ssize]; exact g.pot⟩, by rw [g.esize, st.esize]; omega,
        by rw [g.ssize, st.slab]; omega⟩

/-- **a sequence of operations terminates** with fuel
`elems + slab + 2·(number of operations) + Hm + 3` -/
theorem runOps_total {F : Nat} {Hm : Nat} : ∀ (ops : List Op) {c : Ctx}, TInv c Hm →
    c.elems.size + c.slab.size + 2 * ops.length + Hm + 3 ≤ F → (∀ op ∈ ops, OpH Hm op) →
    NoFuel (runOps F c ops) ∧ ∀ c', runOps F c ops = .ok c' →
      TInv c' Hm ∧ c'.elems.size ≤ c.elems.size + ops.length ∧ c'.slab.size ≤ c.slab.size + ops.length
  | [], c, t, _, _ => ⟨(fun h => by cases h), (fun c' h => by cases h; exact ⟨t, Nat.le_refl _, Nat.le_refl _⟩)⟩
  | op :: ops, c, t, hF, hops => by
    simp only [List.length_cons] at hF
    obtain ⟨n1, s1⟩ := step_total (F := F) t (by omega) op (hops op List.mem_cons_self)
    unfold runOps
    split
    · next e he => exact ⟨(fun h => by cases h; exact n1 he), (fun c' h => by cases h)⟩
    · next c1 h1 =>
      obtain ⟨t1, e1, e2⟩ := s1 c1 h1
      obtain ⟨n2, s2⟩ := runOps_total (F := F) ops t1 (by omega) (fun o ho => hops o (List.mem_cons_of_mem _ ho))
      refine ⟨n2, fun c' h => ?_⟩
      obtain ⟨t2, e3, e4⟩ := s2 c' h
      simp only [List.length_cons]
      exact ⟨t2, by omega, by omega⟩

theorem tinv_empty (Hm : Nat) : TInv ({} : Ctx) Hm := by
  refine ⟨⟨fun e i p hi => by simp at hi, fun e i hi => by simp at hi⟩, 0, fun b B hs => by simp at hs, ?_⟩
  simp [ncount, ncBelow]

end UB
