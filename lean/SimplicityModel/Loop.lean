import SimplicityModel.Machine4 -- (spike: module Spk.Machine4 = spikes/Machine.lean)
/-
Spike: the explicit call stack of `BitMachine::exec_with_tracker` is the defunctionalised `run`
(all node kinds, including disconnect's `CopyFwd`).
-/
namespace BM4

@[simp] theorem ok_bind'' {ε α β} (x : α) (f : α → Except ε β) : (Except.ok x >>= f) = f x := rfl
@[simp] theorem err_bind'' {ε α β} (e : ε) (f : α → Except ε β) :
    ((Except.error e : Except ε α) >>= f) = Except.error e := rfl
@[simp] theorem pure_ok {ε α} (x : α) : (pure x : Except ε α) = Except.ok x := rfl

/-- a term with its types packed, as `CallStack::Goto(&RedeemNode)` -/
structure AnyTerm where
  a : Ty
  b : Ty
  t : Term a b

inductive Item
  | goto (t : AnyTerm)
  | moveWriteFrameToRead
  | dropReadFrame
  | copyFwd (n : Nat)
  | back (n : Nat)

def copyFwd (n : Nat) (m : M) : Except Err M := do let m ← copy n m; fwd n m

/-- the action of one node: machine update and the items pushed on the call stack, in the order in
which they will be *executed* (the Rust code pushes them in reverse) -/
def node : {a b : Ty} → Term a b → M → Except Err (M × List Item)
  | a, _, .iden, m => do let m ← copy a.bw m; pure (m, [])
  | _, _, .unit, m => pure (m, [])
  | _, _, @Term.injl _ b c t, m => do
      let m ← writeBit false m
      let m ← skip (padL b c) m
      pure (m, [.goto ⟨_, _, t⟩])
  | _, _, @Term.injr _ b c t, m => do
      let m ← writeBit true m
      let m ← skip (padR b c) m
      pure (m, [.goto ⟨_, _, t⟩])
  | _, _, .take t, m => pure (m, [.goto ⟨_, _, t⟩])
  | _, _, @Term.drop a _ _ t, m => do
      let m ← fwd a.bw m
      pure (m, [.goto ⟨_, _, t⟩, .back a.bw])
  | _, _, @Term.comp _ b _ s t, m => do
      let m ← newWrite b.bw m
      pure (m, [.goto ⟨_, _, s⟩, .moveWriteFrameToRead, .goto ⟨_, _, t⟩, .dropReadFrame])
  | _, _, @Term.case a b _ _ s t, m => do
      let bit ← peek m
      if bit then do
        let m ← fwd (1 + padR a b) m
        pure (m, [.goto ⟨_, _, t⟩, .back (1 + padR a b)])
      else do
        let m ← fwd (1 + padL a b) m
        pure (m, [.goto ⟨_, _, s⟩, .back (1 + padL a b)])
  | _, _, @Term.assertl a b _ _ s, m => do
      let bit ← peek m
      if bit then .error .fail
      else do
        let m ← fwd (1 + padL a b) m
        pure (m, [.goto ⟨_, _, s⟩, .back (1 + padL a b)])
  | _, _, @Term.assertr a b _ _ t, m => do
      let bit ← peek m
      if bit then do
        let m ← fwd (1 + padR a b) m
        pure (m, [.goto ⟨_, _, t⟩, .back (1 + padR a b)])
      else .error .fail
  | _, _, .pair s t, m => pure (m, [.goto ⟨_, _, s⟩, .goto ⟨_, _, t⟩])
  | _, _, .fail, _ => .error .fail
  | _, b, .witness w, m => do let m ← writeBits (padded b w) m; pure (m, [])
  | _, b, .word w, m => do let m ← writeBits (padded b w) m; pure (m, [])
  | a, b, .jet jf f, m => do let m ← run (.jet (a := a) (b := b) jf f) m; pure (m, [])
  | _, _, @Term.disconnect a b c _ w cw s t, m => do
      let m ← newWrite (w.bw + a.bw) m
      let m ← writeBits (padded w cw) m
      let m ← copy a.bw m
      let m ← moveWriteToRead m
      let m ← newWrite (b.bw + c.bw) m
      pure (m, [.goto ⟨_, _, s⟩, .moveWriteFrameToRead, .copyFwd b.bw, .goto ⟨_, _, t⟩,
                .dropReadFrame, .dropReadFrame])

def stepItem : Item → M → Except Err (M × List Item)
  | .goto t, m => node t.t m
  | .moveWriteFrameToRead, m => do let m ← moveWriteToRead m; pure (m, [])
  | .dropReadFrame, m => do let m ← dropRead m; pure (m, [])
  | .copyFwd n, m => do let m ← copyFwd n m; pure (m, [])
  | .back n, m => do let m ← back n m; pure (m, [])

/-- the main loop, with fuel; `none` = out of fuel -/
def loop : Nat → List Item → M → Option (Except Err M)
  | 0, _, _ => none
  | _+1, [], m => some (.ok m)
  | f+1, it :: st, m =>
    match stepItem it m with
    | .error e => some (.error e)
    | .ok (m', items) => loop f (items ++ st) m'

theorem loop_mono : ∀ (f : Nat) (st : List Item) (m : M) (r : Except Err M),
    loop f st m = some r → loop (f+1) st m = some r := by
  intro f
  induction f with
  | zero => intro st m r h; simp [loop] at h
  | succ f ih =>
    intro st m r h
    cases st with
    | nil => simpa [loop] using h
    | cons it st =>
      simp only [loop] at h ⊢
      cases hn : stepItem it m with
      | error e => simpa [hn] using h
      | ok p => obtain ⟨m', items⟩ := p; simp only [hn] at h ⊢; exact ih _ _ _ h

/-- fuel-free semantics of the loop -/
inductive Runs : List Item → M → Except Err M → Prop
  | nil {m} : Runs [] m (.ok m)
  | err {it st m e} : stepItem it m = .error e → Runs (it :: st) m (.error e)
  | ok {it st m m' items r} : stepItem it m = .ok (m', items) → Runs (items ++ st) m' r →
      Runs (it :: st) m r

theorem loop_of_runs {st m r} (h : Runs st m r) : ∃ f, loop f st m = some r := by
  induction h with
  | nil => exact ⟨1, rfl⟩
  | err hn => exact ⟨1, by simp [loop, hn]⟩
  | ok hn _ ih => obtain ⟨f, hf⟩ := ih; exact ⟨f+1, by simp [loop, hn, hf]⟩

/-- "`x`, and if it succeeds continue with `k`; if it fails, that is the result" -/
def Then {α} (x : Except Err α) (k : α → Except Err M → Prop) (res : Except Err M) : Prop :=
  match x with
  | .ok a => k a res
  | .error e => res = .error e

theorem then_bind {α β} (x : Except Err α) (f : α → Except Err β) (k res) :
    Then (x >>= f) k res ↔ Then x (fun a res => Then (f a) k res) res := by
  cases x <;> rfl

theorem Then.mono {α} {x : Except Err α} {k k' : α → Except Err M → Prop} {res}
    (hk : ∀ a res, k a res → k' a res) (h : Then x k res) : Then x k' res := by
  cases x with
  | ok a => exact hk a res h
  | error e => exact h

@[simp] theorem then_ok {α} (a : α) (k res) : Then (.ok a : Except Err α) k res ↔ k a res := Iff.rfl
@[simp] theorem then_err {α} (e) (k : α → Except Err M → Prop) (res) :
    Then (.error e : Except Err α) k res ↔ res = .error e := Iff.rfl

theorem runs_step {it st m res}
    (h : Then (stepItem it m) (fun p res => Runs (p.2 ++ st) p.1 res) res) : Runs (it :: st) m res := by
  cases hs : stepItem it m with
  | error e => rw [hs] at h; cases h; exact .err hs
  | ok p => rw [hs] at h; obtain ⟨m', items⟩ := p; exact .ok hs h

theorem runs_simple {it st m res} (op : M → Except Err M)
    (hop : ∀ m, stepItem it m = (do let m ← op m; pure (m, []))) (h : Then (op m) (Runs st) res) :
    Runs (it :: st) m res := by
  apply runs_step
  rw [hop, then_bind]
  exact h.mono (fun a res hk => by simpa using hk)

theorem runs_mv {st m res} (h : Then (moveWriteToRead m) (Runs st) res) :
    Runs (.moveWriteFrameToRead :: st) m res := runs_simple _ (fun _ => rfl) h
theorem runs_drop {st m res} (h : Then (dropRead m) (Runs st) res) :
    Runs (.dropReadFrame :: st) m res := runs_simple _ (fun _ => rfl) h
theorem runs_back {n st m res} (h : Then (back n m) (Runs st) res) :
    Runs (.back n :: st) m res := runs_simple _ (fun _ => rfl) h
theorem runs_copyFwd {n st m res} (h : Then (copyFwd n m) (Runs st) res) :
    Runs (.copyFwd n :: st) m res := runs_simple _ (fun _ => rfl) h

/-- executing `goto t` on top of a call stack is `run t` followed by the rest of the stack -/
theorem runs_goto : ∀ {a b : Ty} (t : Term a b) (m : M) (st : List Item) (res : Except Err M),
    Then (run t m) (Runs st) res → Runs (.goto ⟨a, b, t⟩ :: st) m res := by
  intro a b t
  induction t with
  | iden =>
    intro m st res h; apply runs_step
    simp only [stepItem, node, run, then_bind] at h ⊢
    exact h.mono (fun a res hk => by simpa using hk)
  | unit => intro m st res h; apply runs_step; simpa [stepItem, node, run] using h
  | injl t ih =>
    intro m st res h; apply runs_step
    simp only [stepItem, node, run, then_bind] at h ⊢
    refine h.mono fun m1 res h => h.mono fun m2 res h => ?_
    simp only [pure_ok, then_ok, List.cons_append, List.nil_append]
    exact ih _ _ _ h
  | injr t ih =>
    intro m st res h; apply runs_step
    simp only [stepItem, node, run, then_bind] at h ⊢
    refine h.mono fun m1 res h => h.mono fun m2 res h => ?_
    simp only [pure_ok, then_ok, List.cons_append, List.nil_append]
    exact ih _ _ _ h
  | take t ih =>
    intro m st res h; apply runs_step
    simp only [stepItem, node, run, pure_ok, then_ok, List.cons_append, List.nil_append] at h ⊢
    exact ih _ _ _ h
  | drop t ih =>
    intro m st res h; apply runs_step
    simp only [stepItem, node, run, then_bind] at h ⊢
    refine h.mono fun m1 res h => ?_
    simp only [pure_ok, then_ok, List.cons_append, List.nil_append]
    exact ih _ _ _ (h.mono fun m2 res h => runs_back h)
  | comp s t ihs iht =>
    intro m st res h; apply runs_step
    simp only [stepItem, node, run, then_bind] at h ⊢
    refine h.mono fun m1 res h => ?_
    simp only [pure_ok, then_ok, List.cons_append, List.nil_append]
    exact ihs _ _ _ (h.mono fun m2 res h => runs_mv (h.mono fun m3 res h =>
      iht _ _ _ (h.mono fun m4 res h => runs_drop h)))
  | case s t ihs iht =>
    intro m st res h; apply runs_step
    simp only [stepItem, node, run, then_bind] at h ⊢
    refine h.mono fun bit res h => ?_
    cases bit with
    | true =>
      simp only [if_true, then_bind] at h ⊢
      refine h.mono fun m1 res h => ?_
      simp only [pure_ok, then_ok, List.cons_append, List.nil_append]
      exact iht _ _ _ (h.mono fun m2 res h => runs_back h)
    | false =>
      simp only [Bool.false_eq_true, if_false, then_bind] at h ⊢
      refine h.mono fun m1 res h => ?_
      simp only [pure_ok, then_ok, List.cons_append, List.nil_append]
      exact ihs _ _ _ (h.mono fun m2 res h => runs_back h)
  | pair s t ihs iht =>
    intro m st res h; apply runs_step
    simp only [stepItem, node, run, then_bind, pure_ok, then_ok, List.cons_append, List.nil_append] at h ⊢
    exact ihs _ _ _ (h.mono fun m1 res h => iht _ _ _ h)
  | fail => intro m st res h; apply runs_step; simpa [stepItem, node, run] using h
  | witness w =>
    intro m st res h; apply runs_step
    simp only [stepItem, node, run, then_bind] at h ⊢
    exact h.mono (fun a res hk => by simpa using hk)
  | word w =>
    intro m st res h; apply runs_step
    simp only [stepItem, node, run, then_bind] at h ⊢
    exact h.mono (fun a res hk => by simpa using hk)
  | jet jf f =>
    intro m st res h; apply runs_step
    simp only [stepItem, node, then_bind] at h ⊢
    exact h.mono (fun a res hk => by simpa using hk)
  | assertl s ih =>
    intro m st res h; apply runs_step
    simp only [stepItem, node, run, then_bind] at h ⊢
    refine h.mono fun bit res h => ?_
    cases bit with
    | true => simpa using h
    | false =>
      simp only [Bool.false_eq_true, if_false, then_bind] at h ⊢
      refine h.mono fun m1 res h => ?_
      simp only [pure_ok, then_ok, List.cons_append, List.nil_append]
      exact ih _ _ _ (h.mono fun m2 res h => runs_back h)
  | assertr t ih =>
    intro m st res h; apply runs_step
    simp only [stepItem, node, run, then_bind] at h ⊢
    refine h.mono fun bit res h => ?_
    cases bit with
    | false => simpa using h
    | true =>
      simp only [if_true, then_bind] at h ⊢
      refine h.mono fun m1 res h => ?_
      simp only [pure_ok, then_ok, List.cons_append, List.nil_append]
      exact ih _ _ _ (h.mono fun m2 res h => runs_back h)
  | disconnect w cw s t ihs iht =>
    intro m st res h; apply runs_step
    simp only [stepItem, node, run, then_bind] at h ⊢
    refine h.mono fun m1 res h => h.mono fun m2 res h => h.mono fun m3 res h =>
      h.mono fun m4 res h => h.mono fun m5 res h => ?_
    simp only [pure_ok, then_ok, List.cons_append, List.nil_append]
    refine ihs _ _ _ (h.mono fun m6 res h => runs_mv (h.mono fun m7 res h => runs_copyFwd ?_))
    simp only [copyFwd, then_bind]
    exact h.mono fun m8 res h => h.mono fun m9 res h =>
      iht _ _ _ (h.mono fun m10 res h => runs_drop (h.mono fun m11 res h => runs_drop h))

/-- **the explicit call stack computes `run`**: starting the loop on `[goto t]` gives `run t m` -/
theorem loop_eq_run {a b : Ty} (t : Term a b) (m : M) :
    ∃ f, loop f [.goto ⟨a, b, t⟩] m = some (run t m) := by
  apply loop_of_runs
  apply runs_goto
  cases h : run t m with
  | ok m' => exact .nil
  | error e => rfl

#print axioms loop_eq_run
end BM4
