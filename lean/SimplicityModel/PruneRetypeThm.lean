/-
C08, the re-typing bridge assembled from the functions the driver runs: `inferM` of the plan (all
nodes), `inferM` of the pruned plan on a node selection closed under its children (in use: the
`reachable` nodes), `pruneWit` (= `valOfCompact` ∘ `pruneV` ∘ `compact`) for the witnesses.
-/
import SimplicityModel.PruneRetype
import SimplicityModel.PruneReach

namespace Prog
open BM4

/-- the hypotheses of `elabNode_retype` hold for the arrows re-inferred by `inferM` and the witness
bits pruned by `pruneWit` -/
theorem retyping_of_infer (jt : JetTypes) (p : Plan) (wit : Nat → Option (List Bool)) (cm : Array Nat)
    (jets : JetSem) (S : List (Nat × Bool)) (ids : Nat → Nat) (cmf : Nat → Nat) (mask : Nat → Bool)
    (prog : Bool) {arr a1 : Array (Ty × Ty)} (wit' : Nat → Option (List Bool))
    (hwf : wf p = true)
    (h : inferM jt p (fun _ => true) prog = .ok arr)
    (h' : inferM jt (prunePlan S ids cmf p) mask prog = .ok a1)
    (hlt : ∀ j, mask j = true → j < p.size)
    (hclosed : ∀ j nd', mask j = true → (prunePlan S ids cmf p)[j]? = some nd' →
      ∀ c ∈ nd'.children, mask c = true)
    (hwit : ∀ j bits, mask j = true → p[j]? = some .witness → pruneWit wit arr a1 j = some bits →
      wit' j = some bits) :
    Retyping S ids cmf { plan := p, arrows := arr, wit := wit, cmr := cm, jets := jets } a1 wit' jt mask where
  closed := hclosed
  size := fun j mj => by rw [inferM_size h', prunePlan_size]; exact hlt j mj
  typed := fun j nd' mj hnd' => inferM_typed (wf_prunePlan S ids cmf p hwf) h' j nd' hnd' mj
  wit := by
    intro j mj hnd bits v0 hb hv
    have hnd0 : p[j]? = some .witness := hnd
    have hb0 : wit j = some bits := hb
    have hv0 : valOfCompact (arr.getD j (.one, .one)).2 bits = some v0 := hv
    have hT : HasTy v0 (arr.getD j (.one, .one)).2 := valOfCompact_hasTy hv0
    have hsub : ListSub jt (prunePlan S ids cmf p).toList p.toList := by
      simpa [prunePlan] using listSub_pruneList jt S ids cmf p.toList 0
    have hle := (inferM_mono jt (fun _ _ => rfl) hsub prog h h' j (lt_size_of_getElem? hnd0)).2
    obtain ⟨w, hw⟩ := pruneV_of_le hT hle
    refine ⟨w, hw, hwit j _ mj hnd0 ?_⟩
    simp only [pruneWit, hb0, hv0, hw, Option.bind_eq_bind, Option.bind_some, Option.pure_def]
  jet := by
    intro j name hnd
    have hnd0 : p[j]? = some (.jet name) := hnd
    exact inferM_typed hwf h j _ hnd0 rfl

/-- **Re-typing keeps the behaviour, plan level.**  See `Props.C08.eval_prune_retyping`. -/
theorem eval_retyped_prune (jt : JetTypes) (p : Plan) (wit : Nat → Option (List Bool)) (cm : Array Nat)
    (jets : JetSem) (S : List (Nat × Bool)) (ids ids' : Nat → Nat) (cmf : Nat → Nat) (mask : Nat → Bool)
    (prog : Bool) {arr a1 : Array (Ty × Ty)} (wit' : Nat → Option (List Bool))
    (hwf : wf p = true)
    (h : inferM jt p (fun _ => true) prog = .ok arr)
    (h' : inferM jt (prunePlan S ids cmf p) mask prog = .ok a1)
    (hlt : ∀ j, mask j = true → j < p.size)
    (hclosed : ∀ j nd', mask j = true → (prunePlan S ids cmf p)[j]? = some nd' →
      ∀ c ∈ nd'.children, mask c = true)
    (hwit : ∀ j bits, mask j = true → p[j]? = some .witness → pruneWit wit arr a1 j = some bits →
      wit' j = some bits)
    (f i : Nat) (hmi : mask i = true) (x : Σ a b, Term a b)
    (hx : elabNode { plan := p, arrows := arr, wit := wit, cmr := cm, jets := jets } f i = some x)
    (v o : Val) (tr : Trace) (hv : HasTy v x.1)
    (hrun : evalT x.2.2 (labOf p ids f i) v = .ok (o, tr))
    (hS : ∀ s ∈ tr.sides, s ∈ S) :
    ∃ (t' : Term (a1.getD i (.one, .one)).1 (a1.getD i (.one, .one)).2) (trI : Trace),
      elabNode { plan := prunePlan S ids cmf p, arrows := a1, wit := wit', cmr := cm, jets := jets } f i
        = some ⟨_, _, t'⟩ ∧
      tr = trI.map ids ∧
      evalT x.2.2 (labOf p (fun j => j) f i) v = .ok (o, trI) ∧
      evalT t' (labOf (prunePlan S ids cmf p) ids' f i) (pr (a1.getD i (.one, .one)).1 v)
        = .ok (pr (a1.getD i (.one, .one)).2 o, trI.map ids') ∧
      HasTy o x.2.1 := by
  have H := retyping_of_infer jt p wit cm jets S ids cmf mask prog wit' hwf h h' hlt hclosed hwit
  obtain ⟨trI, hI, rfl⟩ := evalT_index x.2.2 p ids f i v o tr hrun
  obtain ⟨t', h1, h2⟩ := elabNode_retype S ids ids' cmf _ a1 wit' jt mask H f i hmi x hx _ _ rfl
  have hS' : SidesIn S ids trI := fun s hs => hS _ (Trace.mem_map_sides (g := ids) (by cases s; exact hs))
  obtain ⟨ho, hr⟩ := h2 v o trI hv hI hS'
  exact ⟨t', trI, h1, rfl, hI, hr, ho⟩

end Prog
