/-
SHA-256 (FIPS 180-4), executable, core Lean only.

Used by the models to recompute digests bit for bit (script hashes, annex hashes, proof hashes).
No theorem evaluates `Sha256.hash`: property theorems hold for it as for an arbitrary function
`List UInt8 → List UInt8` with 32-byte results (`Sha256Length.lean` proves the length from the shape
of the result: eight state words of four bytes).  The implementation is tied to the real digests by
the correspondence runs (every script, annex and proof hash and every digest jet the implementation
reports is recomputed with it).
-/
namespace Sha256

def K : Array UInt32 := #[
  0x428a2f98, 0x71374491, 0xb5c0fbcf, 0xe9b5dba5, 0x3956c25b, 0x59f111f1, 0x923f82a4, 0xab1c5ed5,
  0xd807aa98, 0x12835b01, 0x243185be, 0x550c7dc3, 0x72be5d74, 0x80deb1fe, 0x9bdc06a7, 0xc19bf174,
  0xe49b69c1, 0xefbe4786, 0x0fc19dc6, 0x240ca1cc, 0x2de92c6f, 0x4a7484aa, 0x5cb0a9dc, 0x76f988da,
  0x983e5152, 0xa831c66d, 0xb00327c8, 0xbf597fc7, 0xc6e00bf3, 0xd5a79147, 0x06ca6351, 0x14292967,
  0x27b70a85, 0x2e1b2138, 0x4d2c6dfc, 0x53380d13, 0x650a7354, 0x766a0abb, 0x81c2c92e, 0x92722c85,
  0xa2bfe8a1, 0xa81a664b, 0xc24b8b70, 0xc76c51a3, 0xd192e819, 0xd6990624, 0xf40e3585, 0x106aa070,
  0x19a4c116, 0x1e376c08, 0x2748774c, 0x34b0bcb5, 0x391c0cb3, 0x4ed8aa4a, 0x5b9cca4f, 0x682e6ff3,
  0x748f82ee, 0x78a5636f, 0x84c87814, 0x8cc70208, 0x90befffa, 0xa4506ceb, 0xbef9a3f7, 0xc67178f2]

def IV : Array UInt32 := #[
  0x6a09e667, 0xbb67ae85, 0x3c6ef372, 0xa54ff53a, 0x510e527f, 0x9b05688c, 0x1f83d9ab, 0x5be0cd19]

@[inline] def rotr (x : UInt32) (n : UInt32) : UInt32 := (x >>> n) ||| (x <<< (32 - n))

@[inline] def be32 (a b c d : UInt8) : UInt32 :=
  (a.toUInt32 <<< 24) ||| (b.toUInt32 <<< 16) ||| (c.toUInt32 <<< 8) ||| d.toUInt32

/-- message schedule of the 64-byte block starting at `off` -/
def schedule (m : ByteArray) (off : Nat) : Array UInt32 := Id.run do
  let mut w : Array UInt32 := Array.mkEmpty 64
  for t in [0:16] do
    w := w.push (be32 (m.get! (off + 4*t)) (m.get! (off + 4*t + 1)) (m.get! (off + 4*t + 2)) (m.get! (off + 4*t + 3)))
  for t in [16:64] do
    let w15 := w[t - 15]!
    let w2 := w[t - 2]!
    let s0 := rotr w15 7 ^^^ rotr w15 18 ^^^ (w15 >>> 3)
    let s1 := rotr w2 17 ^^^ rotr w2 19 ^^^ (w2 >>> 10)
    w := w.push (w[t - 16]! + s0 + w[t - 7]! + s1)
  return w

/-- the compression function: state (8 words) × block at `off` → state -/
def compress (h : Array UInt32) (m : ByteArray) (off : Nat) : Array UInt32 := Id.run do
  let w := schedule m off
  let mut a := h[0]!
  let mut b := h[1]!
  let mut c := h[2]!
  let mut d := h[3]!
  let mut e := h[4]!
  let mut f := h[5]!
  let mut g := h[6]!
  let mut hh := h[7]!
  for t in [0:64] do
    let s1 := rotr e 6 ^^^ rotr e 11 ^^^ rotr e 25
    let ch := (e &&& f) ^^^ ((~~~ e) &&& g)
    let t1 := hh + s1 + ch + K[t]! + w[t]!
    let s0 := rotr a 2 ^^^ rotr a 13 ^^^ rotr a 22
    let maj := (a &&& b) ^^^ (a &&& c) ^^^ (b &&& c)
    let t2 := s0 + maj
    hh := g
    g := f
    f := e
    e := d + t1
    d := c
    c := b
    b := a
    a := t1 + t2
  return #[h[0]! + a, h[1]! + b, h[2]! + c, h[3]! + d, h[4]! + e, h[5]! + f, h[6]! + g, h[7]! + hh]

/-- message ‖ 0x80 ‖ zeros ‖ 64-bit big-endian bit length, a multiple of 64 bytes -/
def pad (msg : ByteArray) : ByteArray := Id.run do
  let len := msg.size
  let mut m := msg.push 0x80
  let zeros := (64 - ((len + 9) % 64)) % 64
  for _ in [0:zeros] do
    m := m.push 0
  let bits := len * 8
  for i in [0:8] do
    m := m.push (UInt8.ofNat ((bits >>> (8 * (7 - i))) % 256))
  return m

def wordsToBytes (h : Array UInt32) : List UInt8 :=
  h.toList.flatMap fun (w : UInt32) =>
    [(w >>> 24).toUInt8, (w >>> 16).toUInt8, (w >>> 8).toUInt8, w.toUInt8]

/-- SHA-256 of a byte array, as the 8 state words -/
def hashWords (msg : ByteArray) : Array UInt32 := Id.run do
  let m := pad msg
  let mut h := IV
  for b in [0:m.size / 64] do
    h := compress h m (64 * b)
  return h

/-- SHA-256 of a byte list, as 32 bytes -/
def hash (msg : List UInt8) : List UInt8 := wordsToBytes (hashWords (ByteArray.mk msg.toArray))

end Sha256
