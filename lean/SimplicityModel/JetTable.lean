/-
C14 — jet tables: the row format of the generated tables (`Gen/Jets*.lean`), the model of
`Jet::decode` (walk of the `decode_bits!` trie), of `FromStr` (first matching arm), of
`TypeName::{to_final,to_bit_width}` (src/jet/type_name.rs) and the general lemmas that lift the
table-wide `decide +kernel` checks of `Props/C14.lean` to statements about every row.

Core Lean only.  Strings are kept out of everything the kernel has to *evaluate* (String operations
are implemented over UTF-8 byte arrays and take ≈ 0.1 s each in the kernel): every string of a
table also exists as a *byte key* (`keyOfBytes`: the number whose base-256 digits are a leading 1
followed by the bytes), the kernel computes with the keys, and one definitional-equality check per
table (`Props.C14.*_keys_tie`) ties the string literals to the keys.
-/
import SimplicityModel.NatCodec

/-- One jet of a family, as the generated Rust file has it.

* `name` — what `Display` prints and `FromStr`/`Jet::parse` accepts, e.g. `"add_32"`;
* `code` — exactly the bits `Jet::encode` writes for that family (`w.write_bits_be(n, len)`, most
  significant bit first).  For `Elements` this *includes* the leading family bit (0 = a core jet,
  1 = an Elements jet) because `Elements::encode` writes it itself; `Core` and `Bitcoin` codes have
  no such bit.  The two bits `11` with which the program encoder announces a jet node are *not*
  part of it;
* `cmr` — the 32 bytes of `cmr()` read as one big-endian natural (0 where the Rust side says
  `unimplemented!`, i.e. the Bitcoin family in this revision; rows of `Gen.C` carry the C table's root);
* `src`, `tgt` — the byte strings of `source_ty()` / `target_ty()` exactly as written in the source
  (prefix notation of src/jet/type_name.rs, e.g. `"*ii"`);
* `cost` — `cost()` in milliweight (0 where unimplemented). -/
structure JetRow where
  name : String
  code : List Bool
  cmr : Nat
  src : String
  tgt : String
  cost : Nat
deriving Repr, Inhabited

/-- The nested `decode_bits!` invocation: `{}` = `empty`, `{Jet}` = `leaf` (index of the jet in the
enum's declaration order), `{0 => a, 1 => b}` = `node a b`. -/
inductive JetTrie where
  | empty
  | leaf (idx : Nat)
  | node (zero one : JetTrie)
deriving Repr, Inhabited

namespace JetTable

/-! ## byte keys -/

def keyOfBytes (bs : List Nat) : Nat := bs.foldl (fun a b => a * 256 + b) 1

def bytesGo : Nat → Nat → List Nat → List Nat
  | 0, _, acc => acc
  | f+1, k, acc => if k < 256 then acc else bytesGo f (k / 256) (k % 256 :: acc)

/-- the bytes of a key (at most 4096 of them) -/
def bytesOfKey (k : Nat) : List Nat := bytesGo 4096 k []

def strOfBytes (bs : List Nat) : String := String.ofList (bs.map Char.ofNat)

/-- the string a key stands for -/
def strOfKey (k : Nat) : String := strOfBytes (bytesOfKey k)

/-- key of a string (for the driver and for hand-written constants; slow in the kernel) -/
def keyOfString (s : String) : Nat := keyOfBytes (s.toList.map Char.toNat)

def isAscii (bs : List Nat) : Bool := bs.all (· < 128)

theorem charOfNat_inj {a b : Nat} (ha : a < 128) (hb : b < 128) (h : Char.ofNat a = Char.ofNat b) : a = b := by
  have hva : a.isValidChar := Or.inl (by omega)
  have hvb : b.isValidChar := Or.inl (by omega)
  have h1 : (Char.ofNat a).toNat = a := by
    simp [Char.ofNat, hva, Char.ofNatAux, Char.toNat]
  have h2 : (Char.ofNat b).toNat = b := by
    simp [Char.ofNat, hvb, Char.ofNatAux, Char.toNat]
  rw [← h1, ← h2, h]

theorem map_charOfNat_inj : ∀ {a b : List Nat}, isAscii a = true → isAscii b = true →
    a.map Char.ofNat = b.map Char.ofNat → a = b
  | [], [], _, _, _ => rfl
  | [], _ :: _, _, _, h => by simp at h
  | _ :: _, [], _, _, h => by simp at h
  | x :: xs, y :: ys, ha, hb, h => by
    simp only [isAscii, List.all_cons, Bool.and_eq_true, decide_eq_true_eq] at ha hb
    simp only [List.map_cons, List.cons.injEq] at h
    rw [charOfNat_inj ha.1 hb.1 h.1, map_charOfNat_inj (a := xs) (b := ys) ha.2 hb.2 h.2]

/-- ASCII byte strings that give the same `String` are equal -/
theorem strOfBytes_inj {a b : List Nat} (ha : isAscii a = true) (hb : isAscii b = true)
    (h : strOfBytes a = strOfBytes b) : a = b :=
  map_charOfNat_inj ha hb (String.ofList_injective h)

/-! ## strictly sorted ⇒ pairwise different (linear check instead of a quadratic `Nodup`) -/

def sortedBytes : List (List Nat) → Bool
  | a :: b :: r => decide (a < b) && sortedBytes (b :: r)
  | _ => true

theorem sortedBytes_head_lt : ∀ (a : List Nat) (l : List (List Nat)), sortedBytes (a :: l) = true →
    ∀ x ∈ l, a < x
  | _, [], _, x, hx => by cases hx
  | a, b :: r, h, x, hx => by
    simp only [sortedBytes, Bool.and_eq_true, decide_eq_true_eq] at h
    cases hx with
    | head => exact h.1
    | tail _ hx' => exact List.lt_trans h.1 (sortedBytes_head_lt b r h.2 x hx')

theorem sortedBytes_tail {a : List Nat} {l : List (List Nat)} (h : sortedBytes (a :: l) = true) :
    sortedBytes l = true := by
  cases l with
  | nil => rfl
  | cons b r => simp only [sortedBytes, Bool.and_eq_true] at h; exact h.2

/-- in a strictly sorted list an earlier entry differs from every later one -/
theorem sorted_ne : ∀ (l : List (List Nat)), sortedBytes l = true →
    ∀ (i j : Nat) (hi : i < l.length) (hj : j < l.length), i < j → l[i] ≠ l[j]
  | [], _, i, _, hi, _, _ => by cases hi
  | a :: l, h, 0, j+1, _, hj, _ => by
    intro e
    have hj' : j < l.length := by simpa using hj
    have hlt := sortedBytes_head_lt a l h (l[j]'hj') (List.getElem_mem _)
    simp only [List.getElem_cons_zero, List.getElem_cons_succ] at e
    rw [e] at hlt
    exact List.lt_irrefl _ hlt
  | a :: l, h, i+1, j+1, hi, hj, hij => by
    simp only [List.getElem_cons_succ]
    exact sorted_ne l (sortedBytes_tail h) i j (by simpa using hi) (by simpa using hj) (by omega)

theorem sorted_nodup (l : List (List Nat)) (h : sortedBytes l = true) : l.Nodup := by
  rw [List.nodup_iff_pairwise_ne, List.pairwise_iff_getElem]
  intro i j hi hj hij
  exact sorted_ne l h i j hi hj hij

/-! ## `decode`: walking the trie -/

inductive Walk where
  /-- `Ok(jet)`; the bits not consumed -/
  | ok (idx : Nat) (rest : List Bool)
  /-- `Err(InvalidJet)` -/
  | invalid
  /-- `Err(EndOfStream)` -/
  | eos
deriving DecidableEq, Repr

/-- `decode_bits!` expanded: one `bits.next()` per inner node -/
def walk : JetTrie → List Bool → Walk
  | .empty, _ => .invalid
  | .leaf i, bs => .ok i bs
  | .node _ _, [] => .eos
  | .node z o, b :: bs => walk (if b then o else z) bs

/-- every (path, jet) of the trie -/
def leaves : JetTrie → List (List Bool × Nat)
  | .empty => []
  | .leaf i => [([], i)]
  | .node z o => (leaves z).map (fun p => (false :: p.1, p.2)) ++ (leaves o).map (fun p => (true :: p.1, p.2))

theorem walk_append : ∀ (t : JetTrie) (c r : List Bool) (i : Nat),
    walk t c = .ok i [] → walk t (c ++ r) = .ok i r
  | .empty, _, _, _, h => by simp [walk] at h
  | .leaf j, c, r, i, h => by
    simp only [walk, Walk.ok.injEq] at h
    simp [walk, h.1, h.2]
  | .node _ _, [], _, _, h => by simp [walk] at h
  | .node z o, b :: c, r, i, h => by
    simp only [walk, List.cons_append] at h ⊢
    cases b
    · exact walk_append z c r i h
    · exact walk_append o c r i h

theorem walk_sound : ∀ (t : JetTrie) (bs : List Bool) (i : Nat) (r : List Bool),
    walk t bs = .ok i r → ∃ p, (p, i) ∈ leaves t ∧ bs = p ++ r
  | .empty, _, _, _, h => by simp [walk] at h
  | .leaf j, bs, i, r, h => by
    simp only [walk, Walk.ok.injEq] at h
    exact ⟨[], by simp [leaves, h.1], by simp [h.2]⟩
  | .node _ _, [], _, _, h => by simp [walk] at h
  | .node z o, b :: bs, i, r, h => by
    simp only [walk] at h
    cases b
    · obtain ⟨p, hp, e⟩ := walk_sound z bs i r h
      exact ⟨false :: p, by simp only [leaves, List.mem_append, List.mem_map]; exact .inl ⟨(p, i), hp, rfl⟩, by simp [e]⟩
    · obtain ⟨p, hp, e⟩ := walk_sound o bs i r h
      exact ⟨true :: p, by simp only [leaves, List.mem_append, List.mem_map]; exact .inr ⟨(p, i), hp, rfl⟩, by simp [e]⟩

/-- table check: walking the trie along the i-th code ends at leaf i with nothing left (offset `k`) -/
def checkDecodeFrom (t : JetTrie) : Nat → List (List Bool) → Bool
  | _, [] => true
  | k, c :: cs => decide (walk t c = .ok k []) && checkDecodeFrom t (k+1) cs

theorem checkDecodeFrom_spec (t : JetTrie) : ∀ (k : Nat) (codes : List (List Bool)),
    checkDecodeFrom t k codes = true → ∀ (i : Nat) (h : i < codes.length), walk t codes[i] = .ok (k + i) []
  | _, [], _, i, h => by cases h
  | k, c :: cs, hc, 0, _ => by
    simp only [checkDecodeFrom, Bool.and_eq_true, decide_eq_true_eq] at hc
    simpa using hc.1
  | k, c :: cs, hc, i+1, h => by
    simp only [checkDecodeFrom, Bool.and_eq_true, decide_eq_true_eq] at hc
    have := checkDecodeFrom_spec t (k+1) cs hc.2 i (by simpa using h)
    simp only [List.getElem_cons_succ]
    rw [this]; congr 1; omega

/-- table check: every leaf of the trie sits at the end of the code of the jet it names -/
def checkLeaves (t : JetTrie) (codes : List (List Bool)) : Bool :=
  (leaves t).all (fun p => decide (codes[p.2]? = some p.1))

/-- `decode (encode j ++ r) = (j, r)` for every row, from the table check -/
theorem decode_encode_of_check (t : JetTrie) (codes : List (List Bool)) (hc : checkDecodeFrom t 0 codes = true)
    (i : Nat) (h : i < codes.length) (r : List Bool) : walk t (codes[i] ++ r) = .ok i r := by
  have := checkDecodeFrom_spec t 0 codes hc i h
  simp only [Nat.zero_add] at this
  exact walk_append t _ r i this

/-- whatever bit string decodes, decodes to a jet whose code is exactly the consumed prefix -/
theorem decode_sound_of_check (t : JetTrie) (codes : List (List Bool)) (hl : checkLeaves t codes = true)
    (bs : List Bool) (i : Nat) (r : List Bool) (hw : walk t bs = .ok i r) :
    ∃ h : i < codes.length, bs = codes[i] ++ r := by
  obtain ⟨p, hp, e⟩ := walk_sound t bs i r hw
  simp only [checkLeaves, List.all_eq_true, decide_eq_true_eq] at hl
  have h1 := hl (p, i) hp
  simp only at h1
  obtain ⟨h2, h3⟩ := List.getElem?_eq_some_iff.mp h1
  exact ⟨h2, by rw [h3, e]⟩

/-- no code is a proper or improper prefix of another jet's code -/
theorem prefix_free_of_check (t : JetTrie) (codes : List (List Bool)) (hc : checkDecodeFrom t 0 codes = true)
    (i j : Nat) (hi : i < codes.length) (hj : j < codes.length) (hp : codes[i] <+: codes[j]) : i = j := by
  obtain ⟨r, hr⟩ := hp
  have h1 := decode_encode_of_check t codes hc i hi r
  have h2 := decode_encode_of_check t codes hc j hj []
  rw [List.append_nil, ← hr, h1] at h2
  simp only [Walk.ok.injEq] at h2
  exact h2.1

/-! ## `FromStr`: the first matching arm -/

/-- `match s { "<strOfKey k>" => Ok(variant i), … , x => Err(InvalidJetName) }` -/
def parseStr : List (Nat × Nat) → String → Option Nat
  | [], _ => none
  | (k, i) :: r, s => if s = strOfKey k then some i else parseStr r s

/-- table check: the arms are the display names in enum order, each bound to its own index -/
def checkArmsFrom : Nat → List (Nat × Nat) → List Nat → Bool
  | _, [], [] => true
  | n, (k, i) :: r, k' :: ks => decide (k = k') && decide (i = n) && checkArmsFrom (n+1) r ks
  | _, _, _ => false

theorem parseStr_of_check : ∀ (n : Nat) (arms : List (Nat × Nat)) (ks : List Nat),
    checkArmsFrom n arms ks = true → ∀ (i : Nat) (h : i < ks.length),
    (∀ j (hj : j < ks.length), j < i → strOfKey ks[j] ≠ strOfKey ks[i]) →
    parseStr arms (strOfKey ks[i]) = some (n + i)
  | _, [], [], _, i, h, _ => by cases h
  | _, [], _ :: _, hc, _, _, _ => by simp [checkArmsFrom] at hc
  | _, _ :: _, [], hc, _, _, _ => by simp [checkArmsFrom] at hc
  | n, (k, a) :: r, k' :: ks, hc, 0, _, _ => by
    simp only [checkArmsFrom, Bool.and_eq_true, decide_eq_true_eq] at hc
    simp [parseStr, hc.1.1, hc.1.2]
  | n, (k, a) :: r, k' :: ks, hc, i+1, h, hne => by
    simp only [checkArmsFrom, Bool.and_eq_true, decide_eq_true_eq] at hc
    have h0 := hne 0 (by simp) (by omega)
    simp only [List.getElem_cons_zero, List.getElem_cons_succ] at h0 ⊢
    have hi' : i < ks.length := by simpa using h
    have : ¬ (strOfKey (ks[i]'hi') = strOfKey k) := by rw [hc.1.1]; exact fun e => h0 e.symm
    simp only [parseStr, this, if_false]
    have := parseStr_of_check (n+1) r ks hc.2 i (by simpa using h) (by
      intro j hj hji
      have := hne (j+1) (by simpa using hj) (by omega)
      simpa using this)
    rw [this]; congr 1; omega

/-! ## type names (src/jet/type_name.rs) -/

/-- structural Simplicity types -/
inductive Ty where
  | unit
  | sum (a b : Ty)
  | prod (a b : Ty)
deriving DecidableEq, Repr, Inhabited

/-- `Final::two_two_n(n)`: the type of 2^n-bit words -/
def Ty.word : Nat → Ty
  | 0 => .sum .unit .unit
  | n+1 => .prod (Ty.word n) (Ty.word n)

def Ty.bitWidth : Ty → Nat
  | .unit => 0
  | .sum a b => 1 + max a.bitWidth b.bitWidth
  | .prod a b => a.bitWidth + b.bitWidth

/-- what the three stack machines of type_name.rs (`to_final`, `tmr`, `to_bit_width`) push -/
structure TyAlg (α : Type) where
  unit : α
  word : Nat → α
  sum : α → α → α
  prod : α → α → α

def tyAlg : TyAlg Ty := ⟨.unit, Ty.word, .sum, .prod⟩
/-- `to_bit_width` -/
def widthAlg : TyAlg Nat := ⟨0, fun n => 2 ^ n, fun a b => 1 + max a b, fun a b => a + b⟩

/-- the letters of type_name.rs -/
inductive Tok where
  | unit | word (n : Nat) | sum | prod
deriving DecidableEq, Repr

def tokOf (c : Nat) : Option Tok :=
  if c = 49 then some .unit            -- '1'
  else if c = 50 then some (.word 0)   -- '2'
  else if c = 99 then some (.word 3)   -- 'c'
  else if c = 115 then some (.word 4)  -- 's'
  else if c = 105 then some (.word 5)  -- 'i'
  else if c = 108 then some (.word 6)  -- 'l'
  else if c = 104 then some (.word 8)  -- 'h'
  else if c = 43 then some .sum        -- '+'
  else if c = 42 then some .prod       -- '*'
  else none

/-- one byte of the name, read from the right: `1 2 c s i l h` push, `+ *` pop left then right -/
def tyStep {α : Type} (A : TyAlg α) (st : List α) (c : Nat) : Option (List α) :=
  match tokOf c with
  | none => none
  | some .unit => some (A.unit :: st)
  | some (.word n) => some (A.word n :: st)
  | some .sum => (match st with | l :: r :: st' => some (A.sum l r :: st') | _ => none)
  | some .prod => (match st with | l :: r :: st' => some (A.prod l r :: st') | _ => none)

def tyFold {α : Type} (A : TyAlg α) : List Nat → List α → Option (List α)
  | [], st => some st
  | c :: cs, st => match tyStep A st c with | some st' => tyFold A cs st' | none => none

/-- the stack machine: `none` where the Rust code panics ("Illegal type name syntax!") -/
def tyRun {α : Type} (A : TyAlg α) (name : List Nat) : Option α :=
  match tyFold A name.reverse [] with
  | some [x] => some x
  | _ => none

/-- `TypeName::to_final` -/
def typeOfName (name : List Nat) : Option Ty := tyRun tyAlg name
/-- `TypeName::to_bit_width` -/
def widthOfName (name : List Nat) : Option Nat := tyRun widthAlg name

structure TyHom {α β : Type} (h : α → β) (A : TyAlg α) (B : TyAlg β) : Prop where
  unit : h A.unit = B.unit
  word : ∀ n, h (A.word n) = B.word n
  sum : ∀ a b, h (A.sum a b) = B.sum (h a) (h b)
  prod : ∀ a b, h (A.prod a b) = B.prod (h a) (h b)

theorem tyStep_hom {α β : Type} {h : α → β} {A : TyAlg α} {B : TyAlg β} (H : TyHom h A B) (st : List α) (c : Nat) :
    tyStep B (st.map h) c = (tyStep A st c).map (List.map h) := by
  unfold tyStep
  cases tokOf c with
  | none => rfl
  | some t =>
    cases t with
    | unit => simp [H.unit]
    | word n => simp [H.word]
    | sum => rcases st with _ | ⟨l, _ | ⟨r, st'⟩⟩ <;> simp [H.sum]
    | prod => rcases st with _ | ⟨l, _ | ⟨r, st'⟩⟩ <;> simp [H.prod]

theorem tyFold_hom {α β : Type} {h : α → β} {A : TyAlg α} {B : TyAlg β} (H : TyHom h A B) :
    ∀ (cs : List Nat) (st : List α), tyFold B cs (st.map h) = (tyFold A cs st).map (List.map h)
  | [], st => by simp [tyFold]
  | c :: cs, st => by
    simp only [tyFold, tyStep_hom H]
    cases tyStep A st c with
    | none => simp
    | some st' => simp [tyFold_hom H cs st']

/-- the stack machine commutes with every homomorphism of the pushed values -/
theorem tyRun_hom {α β : Type} {h : α → β} {A : TyAlg α} {B : TyAlg β} (H : TyHom h A B) (name : List Nat) :
    tyRun B name = (tyRun A name).map h := by
  have := tyFold_hom H name.reverse []
  simp only [List.map_nil] at this
  unfold tyRun
  rw [this]
  cases tyFold A name.reverse [] with
  | none => simp
  | some st =>
    match st with
    | [] => simp
    | [x] => simp
    | _ :: _ :: _ => simp

theorem word_bitWidth : ∀ n, (Ty.word n).bitWidth = 2 ^ n
  | 0 => by simp [Ty.word, Ty.bitWidth]
  | n+1 => by simp [Ty.word, Ty.bitWidth, word_bitWidth n, Nat.pow_succ]; omega

theorem width_hom : TyHom Ty.bitWidth tyAlg widthAlg :=
  ⟨rfl, word_bitWidth, fun _ _ => rfl, fun _ _ => rfl⟩

/-- `to_bit_width` is the bit width of `to_final`, for every byte string (both panic together) -/
theorem typeName_width (name : List Nat) : widthOfName name = (typeOfName name).map Ty.bitWidth :=
  tyRun_hom width_hom name

/-! ### compressed types: words stay words, so that 2^256 is one node (what the kernel compares) -/

inductive CTy where
  | unit
  | word (n : Nat)
  | sum (a b : CTy)
  | prod (a b : CTy)
deriving DecidableEq, Repr, Inhabited

def CTy.expand : CTy → Ty
  | .unit => .unit
  | .word n => Ty.word n
  | .sum a b => .sum a.expand b.expand
  | .prod a b => .prod a.expand b.expand

def CTy.mkSum (a b : CTy) : CTy :=
  match a, b with
  | .unit, .unit => .word 0
  | _, _ => .sum a b

def CTy.mkProd (a b : CTy) : CTy :=
  match a, b with
  | .word n, .word m => if n = m then .word (n+1) else .prod a b
  | _, _ => .prod a b

def ctyAlg : TyAlg CTy := ⟨.unit, .word, CTy.mkSum, CTy.mkProd⟩

theorem expand_mkSum (a b : CTy) : (CTy.mkSum a b).expand = .sum a.expand b.expand := by
  unfold CTy.mkSum; split <;> simp [CTy.expand, Ty.word]

theorem expand_mkProd (a b : CTy) : (CTy.mkProd a b).expand = .prod a.expand b.expand := by
  unfold CTy.mkProd; split
  · split
    · next h => subst h; simp [CTy.expand, Ty.word]
    · simp [CTy.expand]
  · simp [CTy.expand]

theorem expand_hom : TyHom CTy.expand ctyAlg tyAlg :=
  ⟨rfl, fun _ => rfl, expand_mkSum, expand_mkProd⟩

/-- the compressed parse (what the table checks compare) -/
def ctyOfName (name : List Nat) : Option CTy := tyRun ctyAlg name

theorem typeOfName_eq_expand (name : List Nat) : typeOfName name = (ctyOfName name).map CTy.expand :=
  tyRun_hom expand_hom name

/-- equal compressed parses are equal types -/
theorem typeOfName_congr {a b : List Nat} (h : ctyOfName a = ctyOfName b) : typeOfName a = typeOfName b := by
  rw [typeOfName_eq_expand, typeOfName_eq_expand, h]

def CTy.bitWidth : CTy → Nat
  | .unit => 0
  | .word n => 2 ^ n
  | .sum a b => 1 + max a.bitWidth b.bitWidth
  | .prod a b => a.bitWidth + b.bitWidth

/-- the C type table (primitiveEnumTy.inc order; `(0,_,_)` = ONE, `(1,a,b)` = SUM, `(2,a,b)` = PRODUCT
of earlier entries) resolved to compressed types -/
def resolveTys (tbl : List (Nat × Nat × Nat)) : List CTy :=
  tbl.foldl (fun acc e =>
    acc ++ [match e with
      | (0, _, _) => CTy.unit
      | (1, a, b) => CTy.mkSum (acc.getD a .unit) (acc.getD b .unit)
      | (_, a, b) => CTy.mkProd (acc.getD a .unit) (acc.getD b .unit)]) []

/-- every entry of the table refers to earlier entries only and has kind 0, 1 or 2 -/
def tyTableOk (tbl : List (Nat × Nat × Nat)) : Bool :=
  (List.range tbl.length).all (fun i =>
    match tbl.getD i (0, 0, 0) with
    | (k, a, b) => decide (k = 0 ∨ ((k = 1 ∨ k = 2) ∧ a < i ∧ b < i)))

/-! ## rendering (driver) -/

def showBits (bs : List Bool) : String :=
  if bs.isEmpty then "-" else String.ofList (bs.map fun b => if b then '1' else '0')

def CTy.render : CTy → String
  | .unit => "1"
  | .word n => s!"w{n}"
  | .sum a b => s!"(+ {a.render} {b.render})"
  | .prod a b => s!"(* {a.render} {b.render})"

/-- all-table lookups, zipped checks -/
def all2 {α β : Type} (p : α → β → Bool) : List α → List β → Bool
  | [], [] => true
  | a :: as, b :: bs => p a b && all2 p as bs
  | _, _ => false

theorem all2_spec {α β : Type} (p : α → β → Bool) : ∀ (as : List α) (bs : List β), all2 p as bs = true →
    as.length = bs.length ∧ ∀ (i : Nat) (ha : i < as.length) (hb : i < bs.length), p as[i] bs[i] = true
  | [], [], _ => ⟨rfl, fun i h => by cases h⟩
  | [], _ :: _, h => by simp [all2] at h
  | _ :: _, [], h => by simp [all2] at h
  | a :: as, b :: bs, h => by
    simp only [all2, Bool.and_eq_true] at h
    obtain ⟨hl, hi⟩ := all2_spec p as bs h.2
    refine ⟨by simp [hl], fun i ha hb => ?_⟩
    cases i with
    | zero => simpa using h.1
    | succ i => simpa using hi i (by simpa using ha) (by simpa using hb)

end JetTable
