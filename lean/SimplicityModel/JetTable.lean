/-
C14 — jet tables: the row format of the generated tables (`Gen/Jets*.lean`), the model of
`Jet::decode` (walk of the `decode_bits!` trie), of `FromStr` (first matching arm), of
`TypeName::{to_final,to_bit_width}` (src/jet/type_name.rs) and the general lemmas that lift the
table-wide `decide +kernel` checks of `Props/C14.lean` to statements about every row.

Core Lean only.  Strings are kept out of everything the kernel has to *evaluate* (String operations
are implemented over UTF-8 byte arrays and take ≈ 0.1 s each in the kernel): every string of a
table also exists as a *byte key* (`keyOfBytes`: the number whose base-256 digits are a leading 1
followed by the bytes), the kernel computes with the keys, and one definitional-equality check per
table (`Props.C14.*_keys_tie`) ties the string literals to the keys.
-/
import SimplicityModel.NatCodec

/-- One jet of a family, as the generated Rust file has it.

* `name` — what `Display` prints and `FromStr`/`Jet::parse` accepts, e.g. `"add_32"`;
* `code` — exactly the bits `Jet::encode` writes for that family (`w.write_bits_be(n, len)`, most
  significant bit first).  For `Elements` this *includes* the leading family bit (0 = a core jet,
  1 = an Elements jet) because `Elements::encode` writes it itself; `Core` and `Bitcoin` codes have
  no such bit.  The two bits `11` with which the program encoder announces a jet node are *not*
  part of it;
* `cmr` — the 32 bytes of `cmr()` read as one big-endian natural (0 where the Rust side says
  `unimplemented!`, i.e. the Bitcoin family in this revision; rows of `Gen.C` carry the C table's root);
* `src`, `tgt` — the byte strings of `source_ty()` / `target_ty()` exactly as written in the source
  (prefix notation of src/jet/type_name.rs, e.g. `"*ii"`);
* `cost` — `cost()` in milliweight (0 where unimplemented). -/
structure JetRow where
  name : String
  code : List Bool
  cmr : Nat
  src : String
  tgt : String
  cost : Nat
deriving Repr, Inhabited

/-- The nested `decode_bits!` invocation: `{}` = `empty`, `{Jet}` = `leaf` (index of the jet in the
enum's declaration order), `{0 => a, 1 => b}` = `node a b`. -/
inductive JetTrie where
  | empty
  | leaf (idx : Nat)
  | node (zero one : JetTrie)
deriving Repr, Inhabited

namespace JetTable

/-! ## byte keys -/

def keyOfBytes (bs : List Nat) : Nat := bs.foldl (fun a b => a * 256 + b) 1

def bytesGo : Nat → Nat → List Nat → List Nat
  | 0, _, acc => acc
  | f+1, k, acc => bif Nat.blt k 256 then acc else bytesGo f (k / 256) (k % 256 :: acc)

/-- the bytes of a key (at most 4096 of them) -/
def bytesOfKey (k : Nat) : List Nat := bytesGo 4096 k []

def strOfBytes (bs : List Nat) : String := String.ofList (bs.map Char.ofNat)

/-- the string a key stands for -/
def strOfKey (k : Nat) : String := strOfBytes (bytesOfKey k)

/-- key of a string (for the driver and for hand-written constants; slow in the kernel) -/
def keyOfString (s : String) : Nat := keyOfBytes (s.toList.map Char.toNat)

def isAscii : List Nat → Bool
  | [] => true
  | b :: bs => Nat.blt b 128 && isAscii bs

theorem charOfNat_inj {a b : Nat} (ha : a < 128) (hb : b < 128) (h : Char.ofNat a = Char.ofNat b) : a = b := by
  have hva : a.isValidChar := Or.inl (by omega)
  have hvb : b.isValidChar := Or.inl (by omega)
  have h1 : (Char.ofNat a).toNat = a := by
    simp [Char.ofNat, hva, Char.ofNatAux, Char.toNat]
  have h2 : (Char.ofNat b).toNat = b := by
    simp [Char.ofNat, hvb, Char.ofNatAux, Char.toNat]
  rw [← h1, ← h2, h]

theorem map_charOfNat_inj : ∀ {a b : List Nat}, isAscii a = true → isAscii b = true →
    a.map Char.ofNat = b.map Char.ofNat → a = b
  | [], [], _, _, _ => rfl
  | [], _ :: _, _, _, h => by simp at h
  | _ :: _, [], _, _, h => by simp at h
  | x :: xs, y :: ys, ha, hb, h => by
    simp only [isAscii, Bool.and_eq_true, Nat.blt_eq] at ha hb
    simp only [List.map_cons, List.cons.injEq] at h
    rw [charOfNat_inj ha.1 hb.1 h.1, map_charOfNat_inj (a := xs) (b := ys) ha.2 hb.2 h.2]

/-- ASCII byte strings that give the same `String` are equal -/
theorem strOfBytes_inj {a b : List Nat} (ha : isAscii a = true) (hb : isAscii b = true)
    (h : strOfBytes a = strOfBytes b) : a = b :=
  map_charOfNat_inj ha hb (String.ofList_injective h)

/-! ## strictly sorted ⇒ pairwise different (linear check instead of a quadratic `Nodup`) -/

/-- lexicographic `<` on byte strings, written with the kernel's accelerated `Nat.blt`/`Nat.beq` -/
def ltB : List Nat → List Nat → Bool
  | [], [] => false
  | [], _ :: _ => true
  | _ :: _, [] => false
  | a :: as, b :: bs => Nat.blt a b || (Nat.beq a b && ltB as bs)

theorem ltB_lt : ∀ {a b : List Nat}, ltB a b = true → a < b
  | [], [], h => by simp [ltB] at h
  | [], _ :: _, _ => List.Lex.nil
  | _ :: _, [], h => by simp [ltB] at h
  | a :: as, b :: bs, h => by
    simp only [ltB, Bool.or_eq_true, Bool.and_eq_true, Nat.blt_eq] at h
    rcases h with h | ⟨h1, h2⟩
    · exact List.Lex.rel h
    · have := Nat.eq_of_beq_eq_true h1
      subst this; exact List.Lex.cons (ltB_lt h2)

def sortedBytes : List (List Nat) → Bool
  | a :: b :: r => ltB a b && sortedBytes (b :: r)
  | _ => true

theorem sortedBytes_head_lt : ∀ (a : List Nat) (l : List (List Nat)), sortedBytes (a :: l) = true →
    ∀ x ∈ l, a < x
  | _, [], _, x, hx => by cases hx
  | a, b :: r, h, x, hx => by
    simp only [sortedBytes, Bool.and_eq_true] at h
    cases hx with
    | head => exact ltB_lt h.1
    | tail _ hx' => exact List.lt_trans (ltB_lt h.1) (sortedBytes_head_lt b r h.2 x hx')

theorem sortedBytes_tail {a : List Nat} {l : List (List Nat)} (h : sortedBytes (a :: l) = true) :
    sortedBytes l = true := by
  cases l with
  | nil => rfl
  | cons b r => simp only [sortedBytes, Bool.and_eq_true] at h; exact h.2

/-- in a strictly sorted list an earlier entry differs from every later one -/
theorem sorted_ne : ∀ (l : List (List Nat)), sortedBytes l = true →
    ∀ (i j : Nat) (hi : i < l.length) (hj : j < l.length), i < j → l[i] ≠ l[j]
  | [], _, i, _, hi, _, _ => by cases hi
  | a :: l, h, 0, j+1, _, hj, _ => by
    intro e
    have hj' : j < l.length := by simpa using hj
    have hlt := sortedBytes_head_lt a l h (l[j]'hj') (List.getElem_mem _)
    simp only [List.getElem_cons_zero, List.getElem_cons_succ] at e
    rw [e] at hlt
    exact List.lt_irrefl _ hlt
  | a :: l, h, i+1, j+1, hi, hj, hij => by
    simp only [List.getElem_cons_succ]
    exact sorted_ne l (sortedBytes_tail h) i j (by simpa using hi) (by simpa using hj) (by omega)

theorem sorted_nodup (l : List (List Nat)) (h : sortedBytes l = true) : l.Nodup := by
  rw [List.nodup_iff_pairwise_ne, List.pairwise_iff_getElem]
  intro i j hi hj hij
  exact sorted_ne l h i j hi hj hij

/-! ## `decode`: walking the trie -/

inductive Walk where
  /-- `Ok(jet)`; the bits not consumed -/
  | ok (idx : Nat) (rest : List Bool)
  /-- `Err(InvalidJet)` -/
  | invalid
  /-- `Err(EndOfStream)` -/
  | eos
deriving DecidableEq, Repr

/-- `decode_bits!` expanded: one `bits.next()` per inner node -/
def walk : JetTrie → List Bool → Walk
  | .empty, _ => .invalid
  | .leaf i, bs => .ok i bs
  | .node _ _, [] => .eos
  | .node z o, b :: bs => walk (if b then o else z) bs

/-- the jets at the leaves, left to right -/
def idxs : JetTrie → List Nat
  | .empty => []
  | .leaf i => [i]
  | .node z o => idxs z ++ idxs o

/-- the same with an accumulator (what the table check evaluates) -/
def leafIdxs : JetTrie → List Nat → List Nat
  | .empty, acc => acc
  | .leaf i, acc => i :: acc
  | .node z o, acc => leafIdxs z (leafIdxs o acc)

theorem leafIdxs_eq : ∀ (t : JetTrie) (acc : List Nat), leafIdxs t acc = idxs t ++ acc
  | .empty, _ => rfl
  | .leaf _, _ => rfl
  | .node z o, acc => by simp [leafIdxs, idxs, leafIdxs_eq z, leafIdxs_eq o]

/-- no number twice (one pass with a bit mask; numbers below `bound`) -/
def nodupMask (bound : Nat) : List Nat → Nat → Bool
  | [], _ => true
  | i :: r, seen => Nat.blt i bound && !(seen.testBit i) && nodupMask bound r (seen ||| (1 <<< i))

theorem nodupMask_spec (bound : Nat) : ∀ (l : List Nat) (seen : Nat), nodupMask bound l seen = true →
    l.Nodup ∧ ∀ i ∈ l, i < bound ∧ seen.testBit i = false
  | [], _, _ => ⟨List.nodup_nil, fun i h => by cases h⟩
  | i :: r, seen, h => by
    simp only [nodupMask, Bool.and_eq_true, Nat.blt_eq, Bool.not_eq_true'] at h
    obtain ⟨hn, hr⟩ := nodupMask_spec bound r _ h.2
    have hbit : (seen ||| 1 <<< i).testBit i = true := by
      simp [Nat.testBit_or, Nat.testBit_shiftLeft]
    refine ⟨List.nodup_cons.mpr ⟨fun hi => ?_, hn⟩, fun j hj => ?_⟩
    · have := (hr i hi).2; rw [hbit] at this; cases this
    · cases hj with
      | head => exact ⟨h.1.1, h.1.2⟩
      | tail _ hj' =>
        have := hr j hj'
        refine ⟨this.1, ?_⟩
        have h2 := this.2
        simp only [Nat.testBit_or, Bool.or_eq_false_iff] at h2
        exact h2.1

theorem walk_append : ∀ (t : JetTrie) (c r : List Bool) (i : Nat),
    walk t c = .ok i [] → walk t (c ++ r) = .ok i r
  | .empty, _, _, _, h => by simp [walk] at h
  | .leaf j, c, r, i, h => by
    simp only [walk, Walk.ok.injEq] at h
    simp [walk, h.1, h.2]
  | .node _ _, [], _, _, h => by simp [walk] at h
  | .node z o, b :: c, r, i, h => by
    simp only [walk, List.cons_append] at h ⊢
    cases b
    · exact walk_append z c r i h
    · exact walk_append o c r i h

/-- a successful walk consumed a path that ends at that leaf -/
theorem walk_split : ∀ (t : JetTrie) (bs : List Bool) (i : Nat) (r : List Bool),
    walk t bs = .ok i r → ∃ p, walk t p = .ok i [] ∧ bs = p ++ r
  | .empty, _, _, _, h => by simp [walk] at h
  | .leaf j, bs, i, r, h => by
    simp only [walk, Walk.ok.injEq] at h
    exact ⟨[], by simp [walk, h.1], by simp [h.2]⟩
  | .node _ _, [], _, _, h => by simp [walk] at h
  | .node z o, b :: bs, i, r, h => by
    simp only [walk] at h
    cases b
    · obtain ⟨p, hp, e⟩ := walk_split z bs i r h
      exact ⟨false :: p, by simpa [walk] using hp, by simp [e]⟩
    · obtain ⟨p, hp, e⟩ := walk_split o bs i r h
      exact ⟨true :: p, by simpa [walk] using hp, by simp [e]⟩

theorem walk_mem : ∀ (t : JetTrie) (p : List Bool) (i : Nat) (r : List Bool), walk t p = .ok i r → i ∈ idxs t
  | .empty, _, _, _, h => by simp [walk] at h
  | .leaf j, _, i, _, h => by simp only [walk, Walk.ok.injEq] at h; simp [idxs, h.1]
  | .node _ _, [], _, _, h => by simp [walk] at h
  | .node z o, b :: p, i, r, h => by
    simp only [walk] at h
    cases b
    · exact List.mem_append_left _ (walk_mem z p i r h)
    · exact List.mem_append_right _ (walk_mem o p i r h)

/-- when no jet sits at two leaves, the path to a jet is unique -/
theorem walk_unique : ∀ (t : JetTrie) (p q : List Bool) (i : Nat), (idxs t).Nodup →
    walk t p = .ok i [] → walk t q = .ok i [] → p = q
  | .empty, _, _, _, _, h, _ => by simp [walk] at h
  | .leaf j, p, q, i, _, hp, hq => by
    simp only [walk, Walk.ok.injEq] at hp hq
    rw [hp.2, hq.2]
  | .node _ _, [], _, _, _, h, _ => by simp [walk] at h
  | .node _ _, _ :: _, [], _, _, _, h => by simp [walk] at h
  | .node z o, b :: p, c :: q, i, hn, hp, hq => by
    simp only [idxs, List.nodup_append] at hn
    simp only [walk] at hp hq
    cases b <;> cases c
    · rw [walk_unique z p q i hn.1 hp hq]
    · exact absurd rfl (hn.2.2 i (walk_mem z p i [] hp) i (walk_mem o q i [] hq))
    · exact absurd rfl (hn.2.2 i (walk_mem z q i [] hq) i (walk_mem o p i [] hp))
    · rw [walk_unique o p q i hn.2.1 hp hq]

/-- table check: walking the trie along the i-th code ends at leaf i with nothing left (offset `k`) -/
def checkDecodeFrom (t : JetTrie) : Nat → List (List Bool) → Bool
  | _, [] => true
  | k, c :: cs => decide (walk t c = .ok k []) && checkDecodeFrom t (k+1) cs

theorem checkDecodeFrom_spec (t : JetTrie) : ∀ (k : Nat) (codes : List (List Bool)),
    checkDecodeFrom t k codes = true → ∀ (i : Nat) (h : i < codes.length), walk t codes[i] = .ok (k + i) []
  | _, [], _, i, h => by cases h
  | k, c :: cs, hc, 0, _ => by
    simp only [checkDecodeFrom, Bool.and_eq_true, decide_eq_true_eq] at hc
    simpa using hc.1
  | k, c :: cs, hc, i+1, h => by
    simp only [checkDecodeFrom, Bool.and_eq_true, decide_eq_true_eq] at hc
    have := checkDecodeFrom_spec t (k+1) cs hc.2 i (by simpa using h)
    simp only [List.getElem_cons_succ]
    rw [this]; congr 1; omega

/-- table check: no jet sits at two leaves of the trie, and every leaf names one of the `n` jets -/
def checkLeaves (t : JetTrie) (n : Nat) : Bool := nodupMask n (leafIdxs t []) 0

/-- `decode (encode j ++ r) = (j, r)` for every row, from the table check -/
theorem decode_encode_of_check (t : JetTrie) (codes : List (List Bool)) (hc : checkDecodeFrom t 0 codes = true)
    (i : Nat) (h : i < codes.length) (r : List Bool) : walk t (codes[i] ++ r) = .ok i r := by
  have := checkDecodeFrom_spec t 0 codes hc i h
  simp only [Nat.zero_add] at this
  exact walk_append t _ r i this

/-- whatever bit string decodes, decodes to a jet whose code is exactly the consumed prefix -/
theorem decode_sound_of_check (t : JetTrie) (codes : List (List Bool)) (hc : checkDecodeFrom t 0 codes = true)
    (hl : checkLeaves t codes.length = true)
    (bs : List Bool) (i : Nat) (r : List Bool) (hw : walk t bs = .ok i r) :
    ∃ h : i < codes.length, bs = codes[i] ++ r := by
  obtain ⟨p, hp, e⟩ := walk_split t bs i r hw
  unfold checkLeaves at hl
  rw [leafIdxs_eq, List.append_nil] at hl
  obtain ⟨hn, hb⟩ := nodupMask_spec _ _ _ hl
  have hi : i < codes.length := (hb i (walk_mem t p i [] hp)).1
  have hci := checkDecodeFrom_spec t 0 codes hc i hi
  simp only [Nat.zero_add] at hci
  exact ⟨hi, by rw [walk_unique t _ _ i hn hci hp, e]⟩

/-- no code is a proper or improper prefix of another jet's code -/
theorem prefix_free_of_check (t : JetTrie) (codes : List (List Bool)) (hc : checkDecodeFrom t 0 codes = true)
    (i j : Nat) (hi : i < codes.length) (hj : j < codes.length) (hp : codes[i] <+: codes[j]) : i = j := by
  obtain ⟨r, hr⟩ := hp
  have h1 := decode_encode_of_check t codes hc i hi r
  have h2 := decode_encode_of_check t codes hc j hj []
  rw [List.append_nil, ← hr, h1] at h2
  simp only [Walk.ok.injEq] at h2
  exact h2.1

/-! ## `FromStr`: the first matching arm -/

/-- `match s { "<strOfKey k>" => Ok(variant i), … , x => Err(InvalidJetName) }` -/
def parseStr : List (Nat × Nat) → String → Option Nat
  | [], _ => none
  | (k, i) :: r, s => if s = strOfKey k then some i else parseStr r s

/-- table check: the arms are the display names in enum order, each bound to its own index -/
def checkArmsFrom : Nat → List (Nat × Nat) → List Nat → Bool
  | _, [], [] => true
  | n, (k, i) :: r, k' :: ks => decide (k = k') && decide (i = n) && checkArmsFrom (n+1) r ks
  | _, _, _ => false

theorem parseStr_of_check : ∀ (n : Nat) (arms : List (Nat × Nat)) (ks : List Nat),
    checkArmsFrom n arms ks = true → ∀ (i : Nat) (h : i < ks.length),
    (∀ j (hj : j < ks.length), j < i → strOfKey ks[j] ≠ strOfKey ks[i]) →
    parseStr arms (strOfKey ks[i]) = some (n + i)
  | _, [], [], _, i, h, _ => by cases h
  | _, [], _ :: _, hc, _, _, _ => by simp [checkArmsFrom] at hc
  | _, _ :: _, [], hc, _, _, _ => by simp [checkArmsFrom] at hc
  | n, (k, a) :: r, k' :: ks, hc, 0, _, _ => by
    simp only [checkArmsFrom, Bool.and_eq_true, decide_eq_true_eq] at hc
    simp [parseStr, hc.1.1, hc.1.2]
  | n, (k, a) :: r, k' :: ks, hc, i+1, h, hne => by
    simp only [checkArmsFrom, Bool.and_eq_true, decide_eq_true_eq] at hc
    have h0 := hne 0 (by simp) (by omega)
    simp only [List.getElem_cons_zero, List.getElem_cons_succ] at h0 ⊢
    have hi' : i < ks.length := by simpa using h
    have : ¬ (strOfKey (ks[i]'hi') = strOfKey k) := by rw [hc.1.1]; exact fun e => h0 e.symm
    simp only [parseStr, this, if_false]
    have := parseStr_of_check (n+1) r ks hc.2 i (by simpa using h) (by
      intro j hj hji
      have := hne (j+1) (by simpa using hj) (by omega)
      simpa using this)
    rw [this]; congr 1; omega

/-! ## type names (src/jet/type_name.rs) -/

/-- structural Simplicity types -/
inductive Ty where
  | unit
  | sum (a b : Ty)
  | prod (a b : Ty)
deriving DecidableEq, Repr, Inhabited

/-- `Final::two_two_n(n)`: the type of 2^n-bit words -/
def Ty.word : Nat → Ty
  | 0 => .sum .unit .unit
  | n+1 => .prod (Ty.word n) (Ty.word n)

def Ty.bitWidth : Ty → Nat
  | .unit => 0
  | .sum a b => 1 + max a.bitWidth b.bitWidth
  | .prod a b => a.bitWidth + b.bitWidth

/-- what the three stack machines of type_name.rs (`to_final`, `tmr`, `to_bit_width`) push -/
structure TyAlg (α : Type) where
  unit : α
  word : Nat → α
  sum : α → α → α
  prod : α → α → α

def tyAlg : TyAlg Ty := ⟨.unit, Ty.word, .sum, .prod⟩
/-- `to_bit_width` -/
def widthAlg : TyAlg Nat := ⟨0, fun n => 2 ^ n, fun a b => 1 + max a b, fun a b => a + b⟩

/-- the letters of type_name.rs -/
inductive Tok where
  | unit | word (n : Nat) | sum | prod
deriving DecidableEq, Repr

def tokOf (c : Nat) : Option Tok :=
  bif Nat.beq c 49 then some .unit            -- '1'
  else bif Nat.beq c 50 then some (.word 0)   -- '2'
  else bif Nat.beq c 99 then some (.word 3)   -- 'c'
  else bif Nat.beq c 115 then some (.word 4)  -- 's'
  else bif Nat.beq c 105 then some (.word 5)  -- 'i'
  else bif Nat.beq c 108 then some (.word 6)  -- 'l'
  else bif Nat.beq c 104 then some (.word 8)  -- 'h'
  else bif Nat.beq c 43 then some .sum        -- '+'
  else bif Nat.beq c 42 then some .prod       -- '*'
  else none

/-- one byte of the name, read from the right: `1 2 c s i l h` push, `+ *` pop left then right -/
def tyStep {α : Type} (A : TyAlg α) (st : List α) (c : Nat) : Option (List α) :=
  match tokOf c with
  | none => none
  | some .unit => some (A.unit :: st)
  | some (.word n) => some (A.word n :: st)
  | some .sum => (match st with | l :: r :: st' => some (A.sum l r :: st') | _ => none)
  | some .prod => (match st with | l :: r :: st' => some (A.prod l r :: st') | _ => none)

/-- the bytes are consumed from the last to the first (`self.0.iter().rev()`) -/
def tyFold {α : Type} (A : TyAlg α) : List Nat → Option (List α)
  | [] => some []
  | c :: cs => match tyFold A cs with | some st => tyStep A st c | none => none

/-- the stack machine: `none` where the Rust code panics ("Illegal type name syntax!") -/
def tyRun {α : Type} (A : TyAlg α) (name : List Nat) : Option α :=
  match tyFold A name with
  | some [x] => some x
  | _ => none

/-- `TypeName::to_final` -/
def typeOfName (name : List Nat) : Option Ty := tyRun tyAlg name
/-- `TypeName::to_bit_width` -/
def widthOfName (name : List Nat) : Option Nat := tyRun widthAlg name

structure TyHom {α β : Type} (h : α → β) (A : TyAlg α) (B : TyAlg β) : Prop where
  unit : h A.unit = B.unit
  word : ∀ n, h (A.word n) = B.word n
  sum : ∀ a b, h (A.sum a b) = B.sum (h a) (h b)
  prod : ∀ a b, h (A.prod a b) = B.prod (h a) (h b)

theorem tyStep_hom {α β : Type} {h : α → β} {A : TyAlg α} {B : TyAlg β} (H : TyHom h A B) (st : List α) (c : Nat) :
    tyStep B (st.map h) c = (tyStep A st c).map (List.map h) := by
  unfold tyStep
  cases tokOf c with
  | none => rfl
  | some t =>
    cases t with
    | unit => simp [H.unit]
    | word n => simp [H.word]
    | sum => rcases st with _ | ⟨l, _ | ⟨r, st'⟩⟩ <;> simp [H.sum]
    | prod => rcases st with _ | ⟨l, _ | ⟨r, st'⟩⟩ <;> simp [H.prod]

theorem tyFold_hom {α β : Type} {h : α → β} {A : TyAlg α} {B : TyAlg β} (H : TyHom h A B) :
    ∀ (cs : List Nat), tyFold B cs = (tyFold A cs).map (List.map h)
  | [] => by simp [tyFold]
  | c :: cs => by
    simp only [tyFold, tyFold_hom H cs]
    cases tyFold A cs with
    | none => simp
    | some st => simp [tyStep_hom H]

/-- the stack machine commutes with every homomorphism of the pushed values -/
theorem tyRun_hom {α β : Type} {h : α → β} {A : TyAlg α} {B : TyAlg β} (H : TyHom h A B) (name : List Nat) :
    tyRun B name = (tyRun A name).map h := by
  unfold tyRun
  rw [tyFold_hom H name]
  cases tyFold A name with
  | none => simp
  | some st =>
    match st with
    | [] => simp
    | [x] => simp
    | _ :: _ :: _ => simp

theorem word_bitWidth : ∀ n, (Ty.word n).bitWidth = 2 ^ n
  | 0 => by simp [Ty.word, Ty.bitWidth]
  | n+1 => by simp [Ty.word, Ty.bitWidth, word_bitWidth n, Nat.pow_succ]; omega

theorem width_hom : TyHom Ty.bitWidth tyAlg widthAlg :=
  ⟨rfl, word_bitWidth, fun _ _ => rfl, fun _ _ => rfl⟩

/-- `to_bit_width` is the bit width of `to_final`, for every byte string (both panic together) -/
theorem typeName_width (name : List Nat) : widthOfName name = (typeOfName name).map Ty.bitWidth :=
  tyRun_hom width_hom name

/-! ### compressed types: words stay words, so that 2^256 is one node (what the kernel compares) -/

inductive CTy where
  | unit
  | word (n : Nat)
  | sum (a b : CTy)
  | prod (a b : CTy)
deriving DecidableEq, Repr, Inhabited

def CTy.expand : CTy → Ty
  | .unit => .unit
  | .word n => Ty.word n
  | .sum a b => .sum a.expand b.expand
  | .prod a b => .prod a.expand b.expand

def CTy.mkSum (a b : CTy) : CTy :=
  match a, b with
  | .unit, .unit => .word 0
  | _, _ => .sum a b

def CTy.mkProd (a b : CTy) : CTy :=
  match a, b with
  | .word n, .word m => if n = m then .word (n+1) else .prod a b
  | _, _ => .prod a b

def ctyAlg : TyAlg CTy := ⟨.unit, .word, CTy.mkSum, CTy.mkProd⟩

theorem expand_mkSum (a b : CTy) : (CTy.mkSum a b).expand = .sum a.expand b.expand := by
  unfold CTy.mkSum; split <;> simp [CTy.expand, Ty.word]

theorem expand_mkProd (a b : CTy) : (CTy.mkProd a b).expand = .prod a.expand b.expand := by
  unfold CTy.mkProd; split
  · split
    · next h => subst h; simp [CTy.expand, Ty.word]
    · simp [CTy.expand]
  · simp [CTy.expand]

theorem expand_hom : TyHom CTy.expand ctyAlg tyAlg :=
  ⟨rfl, fun _ => rfl, expand_mkSum, expand_mkProd⟩

/-- the compressed parse (what the table checks compare) -/
def ctyOfName (name : List Nat) : Option CTy := tyRun ctyAlg name

theorem typeOfName_eq_expand (name : List Nat) : typeOfName name = (ctyOfName name).map CTy.expand :=
  tyRun_hom expand_hom name

/-- equal compressed parses are equal types -/
theorem typeOfName_congr {a b : List Nat} (h : ctyOfName a = ctyOfName b) : typeOfName a = typeOfName b := by
  rw [typeOfName_eq_expand, typeOfName_eq_expand, h]

def CTy.bitWidth : CTy → Nat
  | .unit => 0
  | .word n => 2 ^ n
  | .sum a b => 1 + max a.bitWidth b.bitWidth
  | .prod a b => a.bitWidth + b.bitWidth

/-! ## rendering (driver) -/

def showBits (bs : List Bool) : String :=
  if bs.isEmpty then "-" else String.ofList (bs.map fun b => if b then '1' else '0')

def CTy.render : CTy → String
  | .unit => "1"
  | .word n => s!"w{n}"
  | .sum a b => s!"(+ {a.render} {b.render})"
  | .prod a b => s!"(* {a.render} {b.render})"

/-- `List.all` by plain recursion -/
def allB {α : Type} (p : α → Bool) : List α → Bool
  | [] => true
  | a :: as => p a && allB p as

theorem allB_spec {α : Type} (p : α → Bool) : ∀ (l : List α), allB p l = true → ∀ x ∈ l, p x = true
  | [], _, x, hx => by cases hx
  | a :: as, h, x, hx => by
    simp only [allB, Bool.and_eq_true] at h
    cases hx with
    | head => exact h.1
    | tail _ hx' => exact allB_spec p as h.2 x hx'

/-- zipped checks -/
def all2 {α β : Type} (p : α → β → Bool) : List α → List β → Bool
  | [], [] => true
  | a :: as, b :: bs => p a b && all2 p as bs
  | _, _ => false

theorem all2_spec {α β : Type} (p : α → β → Bool) : ∀ (as : List α) (bs : List β), all2 p as bs = true →
    as.length = bs.length ∧ ∀ (i : Nat) (ha : i < as.length) (hb : i < bs.length), p as[i] bs[i] = true
  | [], [], _ => ⟨rfl, fun i h => by cases h⟩
  | [], _ :: _, h => by simp [all2] at h
  | _ :: _, [], h => by simp [all2] at h
  | a :: as, b :: bs, h => by
    simp only [all2, Bool.and_eq_true] at h
    obtain ⟨hl, hi⟩ := all2_spec p as bs h.2
    refine ⟨by simp [hl], fun i ha hb => ?_⟩
    cases i with
    | zero => simpa using h.1
    | succ i => simpa using hi i (by simpa using ha) (by simpa using hb)

theorem map_eq_map_getElem {α β γ : Type} {f : α → γ} {g : β → γ} : ∀ {l1 : List α} {l2 : List β},
    l1.map f = l2.map g → l1.length = l2.length ∧ ∀ (i : Nat) (h1 : i < l1.length) (h2 : i < l2.length), f l1[i] = g l2[i]
  | [], [], _ => ⟨rfl, fun i h => by cases h⟩
  | [], _ :: _, h => by simp at h
  | _ :: _, [], h => by simp at h
  | a :: l1, b :: l2, h => by
    simp only [List.map_cons, List.cons.injEq] at h
    obtain ⟨hl, hi⟩ := map_eq_map_getElem h.2
    refine ⟨by simp [hl], fun i h1 h2 => ?_⟩
    cases i with
    | zero => simpa using h.1
    | succ i => simpa using hi i (by simpa using h1) (by simpa using h2)

/-! ## a jet family: the generated tables of one `enum`, and the model of its four methods -/

structure Family where
  rows : List JetRow
  /-- byte keys of (name, source type name, target type name) per row -/
  keys : List (Nat × Nat × Nat)
  /-- the `(n, len)` arms of `encode` -/
  enc : List (Nat × Nat)
  /-- the arms of `FromStr::from_str` in source order: key of the string, index of the variant -/
  parseArms : List (Nat × Nat)
  trie : JetTrie

namespace Family
variable (F : Family)

def codes : List (List Bool) := F.rows.map (·.code)
def nameKeys : List Nat := F.keys.map (·.1)
def nameBytes : List (List Nat) := F.keys.map (fun k => bytesOfKey k.1)

/-- `Jet::encode` of the i-th jet: the bits written -/
def encode (i : Nat) : List Bool := (F.rows.getD i default).code
/-- `Jet::decode` -/
def decode (bs : List Bool) : Walk := walk F.trie bs
/-- `Display` -/
def display (i : Nat) : String := (F.rows.getD i default).name
/-- `Jet::parse` = `FromStr::from_str` -/
def parse (s : String) : Option Nat := parseStr F.parseArms s

/-- `source_ty().to_final()` of the i-th jet (`none` = the Rust code panics) -/
def srcTy (i : Nat) : Option Ty := typeOfName (bytesOfKey (F.keys.getD i default).2.1)
/-- `target_ty().to_final()` of the i-th jet -/
def tgtTy (i : Nat) : Option Ty := typeOfName (bytesOfKey (F.keys.getD i default).2.2)

/-- the table-wide checks (each a closed Boolean computation or a definitional equality) -/
structure Checked : Prop where
  /-- the string literals of the rows are the strings of the keys -/
  keys_tie : F.rows.map (fun r => (r.name, r.src, r.tgt)) =
    F.keys.map (fun k => (strOfKey k.1, strOfKey k.2.1, strOfKey k.2.2))
  /-- `code` is `write_bits_be(n, len)` of the arm in the source -/
  enc_tie : F.codes = F.enc.map (fun e => Spk.bitsBE e.1 e.2)
  decode : checkDecodeFrom F.trie 0 F.codes = true
  leaves : checkLeaves F.trie F.codes.length = true
  sorted : sortedBytes F.nameBytes = true
  ascii : allB isAscii F.nameBytes = true
  arms : checkArmsFrom 0 F.parseArms F.nameKeys = true
  /-- every source and target type name is legal syntax (`to_final` does not panic) -/
  types : allB (fun k => (ctyOfName (bytesOfKey k.2.1)).isSome && (ctyOfName (bytesOfKey k.2.2)).isSome) F.keys = true

variable {F}

theorem encode_eq (i : Nat) (h : i < F.rows.length) : F.encode i = F.codes[i]'(by simpa [codes] using h) := by
  simp [encode, codes, List.getD_eq_getElem?_getD, h]

theorem decode_encode (C : F.Checked) (i : Nat) (h : i < F.rows.length) (r : List Bool) :
    F.decode (F.encode i ++ r) = .ok i r := by
  rw [encode_eq i h]
  exact decode_encode_of_check F.trie F.codes C.decode i _ r

theorem decode_sound (C : F.Checked) (bs : List Bool) (i : Nat) (r : List Bool) (hw : F.decode bs = .ok i r) :
    i < F.rows.length ∧ bs = F.encode i ++ r := by
  obtain ⟨h, e⟩ := decode_sound_of_check F.trie F.codes C.decode C.leaves bs i r hw
  have h' : i < F.rows.length := by simpa [codes] using h
  exact ⟨h', by rw [encode_eq i h']; exact e⟩

theorem prefix_free (C : F.Checked) (i j : Nat) (hi : i < F.rows.length) (hj : j < F.rows.length)
    (hp : F.encode i <+: F.encode j) : i = j := by
  rw [encode_eq i hi, encode_eq j hj] at hp
  exact prefix_free_of_check F.trie F.codes C.decode i j _ _ hp

theorem length_keys (C : F.Checked) : F.rows.length = F.keys.length := (map_eq_map_getElem C.keys_tie).1

theorem display_eq (C : F.Checked) (i : Nat) (h : i < F.rows.length) :
    F.display i = strOfKey (F.nameKeys[i]'(by simpa [nameKeys, ← length_keys C] using h)) := by
  have hk : i < F.keys.length := by rw [← length_keys C]; exact h
  have := (map_eq_map_getElem C.keys_tie).2 i h hk
  simp only [Prod.mk.injEq] at this
  simp [display, List.getD_eq_getElem?_getD, h, this.1, nameKeys]

theorem names_differ (C : F.Checked) (i j : Nat) (hi : i < F.nameKeys.length) (hj : j < F.nameKeys.length) (hij : i < j) :
    strOfKey F.nameKeys[i] ≠ strOfKey F.nameKeys[j] := by
  intro e
  have hi' : i < F.nameBytes.length := by simpa [nameBytes, nameKeys] using hi
  have hj' : j < F.nameBytes.length := by simpa [nameBytes, nameKeys] using hj
  have hne := sorted_ne F.nameBytes C.sorted i j hi' hj' hij
  have ha := allB_spec _ _ C.ascii
  apply hne
  apply strOfBytes_inj (ha _ (List.getElem_mem hi')) (ha _ (List.getElem_mem hj'))
  simpa [nameBytes, nameKeys, strOfKey] using e

theorem types_legal (C : F.Checked) (i : Nat) (h : i < F.rows.length) :
    (F.srcTy i).isSome = true ∧ (F.tgtTy i).isSome = true := by
  have hk : i < F.keys.length := by rw [← length_keys C]; exact h
  have := allB_spec _ _ C.types F.keys[i] (List.getElem_mem hk)
  simp only [Bool.and_eq_true] at this
  simp only [srcTy, tgtTy, List.getD_eq_getElem?_getD, List.getElem?_eq_getElem hk, Option.getD_some,
    typeOfName_eq_expand, Option.isSome_map]
  exact this

/-- `parse (display j) = j` -/
theorem parse_display (C : F.Checked) (i : Nat) (h : i < F.rows.length) : F.parse (F.display i) = some i := by
  have hk : i < F.nameKeys.length := by simpa [nameKeys, ← length_keys C] using h
  rw [display_eq C i h]
  have := parseStr_of_check 0 F.parseArms F.nameKeys C.arms i hk (fun j hj hji => names_differ C j i hj hk hji)
  simpa [parse] using this

/-- different jets have different names -/
theorem display_inj (C : F.Checked) (i j : Nat) (hi : i < F.rows.length) (hj : j < F.rows.length)
    (e : F.display i = F.display j) : i = j := by
  have h1 := parse_display C i hi
  rw [e, parse_display C j hj] at h1
  exact (Option.some.inj h1).symm

end Family

end JetTable
