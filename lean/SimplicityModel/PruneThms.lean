/-
C08: the plan-level anti-DoS and idempotence theorems for the re-typed pruned program (stated
again, with their descriptions, in `Props/C08.lean`).
-/
import SimplicityModel.PruneIdem

set_option linter.unusedVariables false

namespace Prog
open BM4

/-- **Anti-DoS, plan level** (`disconnect` included; identities need only be pairwise distinct).

Hypotheses of `eval_prune_retyping` with `S = tr.sides` (the tracker's own record), the node
selection `mask` consisting of nodes reachable from `i` in the pruned plan `p1` (in use: exactly the
`reachable` ones), and the identities `ids` the first run was labelled with **pairwise distinct on
the plan** — what the decoder guarantees for identity roots.  Then the run of the re-typed pruned
program (node `i` of `p1` with arrows `a1`, witnesses `wit'`, labelled by *any* `ids'`, e.g. the
identity roots of the pruned program) leaves a record `tr2` in which every selected node is executed
and every selected node that is still a `case` has both sides taken: libsimplicity's conditions. -/
theorem antiDoS_plan (jt : JetTypes) (p : Plan) (wit : Nat → Option (List Bool)) (cm : Array Nat)
    (jets : JetSem) (ids ids' : Nat → Nat) (cmf : Nat → Nat) (mask : Nat → Bool)
    (prog : Bool) {arr a1 : Array (Ty × Ty)} (wit' : Nat → Option (List Bool))
    (hwf : wf p = true)
    (harr : inferM jt p (fun _ => true) prog = .ok arr)
    (f i : Nat) (x : Σ a b, Term a b)
    (hx : elabNode { plan := p, arrows := arr, wit := wit, cmr := cm, jets := jets } f i = some x)
    (v o : Val) (tr : Trace) (hv : HasTy v x.1)
    (hrun : evalT x.2.2 (labOf p ids f i) v = .ok (o, tr))
    (ha1 : inferM jt (prunePlan tr.sides ids cmf p) mask prog = .ok a1)
    (hlt : ∀ j, mask j = true → j < p.size)
    (hclosed : ∀ j nd', mask j = true → (prunePlan tr.sides ids cmf p)[j]? = some nd' →
      ∀ c ∈ nd'.children, mask c = true)
    (hwit : ∀ j bits, mask j = true → p[j]? = some .witness → pruneWit wit arr a1 j = some bits →
      wit' j = some bits)
    (hmi : mask i = true)
    (hreach : ∀ j, mask j = true → Reach (prunePlan tr.sides ids cmf p) i j)
    (hinj : ∀ j k, j < p.size → k < p.size → ids j = ids k → j = k) :
    ∃ (t' : Term (a1.getD i (.one, .one)).1 (a1.getD i (.one, .one)).2) (tr2 : Trace),
      elabNode { plan := prunePlan tr.sides ids cmf p, arrows := a1, wit := wit', cmr := cm, jets := jets } f i
        = some ⟨_, _, t'⟩ ∧
      evalT t' (labOf (prunePlan tr.sides ids cmf p) ids' f i) (pr (a1.getD i (.one, .one)).1 v)
        = .ok (pr (a1.getD i (.one, .one)).2 o, tr2) ∧
      ∀ j, mask j = true → ids' j ∈ tr2.nodes ∧
        ∀ a b, (prunePlan tr.sides ids cmf p)[j]? = some (.case a b) →
          (ids' j, false) ∈ tr2.sides ∧ (ids' j, true) ∈ tr2.sides := by
  obtain ⟨t', trI, h1, h2, hI, h3, _⟩ := eval_retyped_prune jt p wit cm jets tr.sides ids ids' cmf mask prog wit'
    hwf harr ha1 hlt hclosed hwit f i hmi x hx v o tr hv hrun (fun _ hs => hs)
  subst h2
  refine ⟨t', trI.map ids', h1, h3, ?_⟩
  have hran : RanP p trI := elabNode_ran _ f i x hx v o trI hI
  have hroot : i ∈ trI.nodes := child_mem x.2.2 p f i v o trI hI
  have hS : ∀ j s, (ids j, s) ∈ (trI.map ids).sides ↔ ∃ k, (k, s) ∈ trI.sides ∧ ids k = ids j := by
    intro j s
    simp only [Trace.map, List.mem_map, Prod.mk.injEq, Prod.exists]
    constructor
    · rintro ⟨k, s', hk, e1, rfl⟩; exact ⟨k, hk, e1⟩
    · rintro ⟨k, hk, e1⟩; exact ⟨k, s, hk, e1, rfl⟩
  intro j mj
  have hj := reach_executed (trI.map ids).sides ids cmf p trI i hran hroot hS hinj j (hreach j mj)
  refine ⟨Trace.mem_map_nodes hj, fun a b hc => ?_⟩
  obtain ⟨_, hl, hr⟩ := kept_case_both (trI.map ids).sides ids cmf p trI hran hS hinj j hj a b hc
  exact ⟨Trace.mem_map_sides hl, Trace.mem_map_sides hr⟩

/-- **Anti-DoS, as the driver evaluates it**: the root of a non-empty plan, the `reachable` nodes
of the pruned plan, any labelling `ids'` of the second run: `antiDosOK` (the function behind the
driver's `antidos=` field) answers `true` on the record of the re-typed pruned program. -/
theorem antiDoS_driver (jt : JetTypes) (p : Plan) (wit : Nat → Option (List Bool)) (cm : Array Nat)
    (jets : JetSem) (ids ids' : Nat → Nat) (cmf : Nat → Nat)
    (prog : Bool) {arr a1 : Array (Ty × Ty)} (wit' : Nat → Option (List Bool))
    (hwf : wf p = true) (hp : 0 < p.size)
    (harr : inferM jt p (fun _ => true) prog = .ok arr)
    (f : Nat) (x : Σ a b, Term a b)
    (hx : elabNode { plan := p, arrows := arr, wit := wit, cmr := cm, jets := jets } f (p.size - 1) = some x)
    (v o : Val) (tr : Trace) (hv : HasTy v x.1)
    (hrun : evalT x.2.2 (labOf p ids f (p.size - 1)) v = .ok (o, tr))
    (ha1 : inferM jt (prunePlan tr.sides ids cmf p)
      (fun j => (reachable (prunePlan tr.sides ids cmf p)).getD j false) prog = .ok a1)
    (hwit : ∀ j bits, (reachable (prunePlan tr.sides ids cmf p)).getD j false = true → p[j]? = some .witness →
      pruneWit wit arr a1 j = some bits → wit' j = some bits)
    (hinj : ∀ j k, j < p.size → k < p.size → ids j = ids k → j = k) :
    ∃ (t' : Term (a1.getD (p.size - 1) (.one, .one)).1 (a1.getD (p.size - 1) (.one, .one)).2) (tr2 : Trace),
      elabNode { plan := prunePlan tr.sides ids cmf p, arrows := a1, wit := wit', cmr := cm, jets := jets } f
        (p.size - 1) = some ⟨_, _, t'⟩ ∧
      evalT t' (labOf (prunePlan tr.sides ids cmf p) ids' f (p.size - 1))
        (pr (a1.getD (p.size - 1) (.one, .one)).1 v) = .ok (pr (a1.getD (p.size - 1) (.one, .one)).2 o, tr2) ∧
      antiDosOK (prunePlan tr.sides ids cmf p) (reachable (prunePlan tr.sides ids cmf p)) ids' tr2 = true := by
  have hwf1 := wf_prunePlan tr.sides ids cmf p hwf
  have hsz := prunePlan_size tr.sides ids cmf p
  obtain ⟨t', tr2, h1, h2, h3⟩ := antiDoS_plan jt p wit cm jets ids ids' cmf _ prog wit' hwf harr f (p.size - 1)
    x hx v o tr hv hrun ha1
    (fun j hj => by have := reachable_lt _ hj; rwa [hsz] at this)
    (fun j nd' hj hnd' => reachable_closed _ hwf1 hj hnd')
    hwit
    (by have := reachable_root (prunePlan tr.sides ids cmf p) (by rw [hsz]; exact hp); rwa [hsz] at this)
    (fun j hj => by have := reachable_sound _ hj; rwa [hsz] at this)
    hinj
  refine ⟨t', tr2, h1, h2, ?_⟩
  simp only [antiDosOK, List.all_eq_true, List.mem_range, Bool.or_eq_true, Bool.not_eq_true',
    Bool.and_eq_true, List.contains_iff_mem]
  intro j hj
  cases hm : (reachable (prunePlan tr.sides ids cmf p)).getD j false with
  | false => exact .inl rfl
  | true =>
    right
    obtain ⟨hn, hc⟩ := h3 j hm
    refine ⟨hn, ?_⟩
    have hnd : (prunePlan tr.sides ids cmf p)[j]? = some (prunePlan tr.sides ids cmf p)[j] := by simp [hj]
    rw [getD_children hnd]
    generalize (prunePlan tr.sides ids cmf p)[j] = nd at hnd
    cases nd with
    | case a b => exact .inr (hc a b hnd)
    | _ => exact .inl rfl

/-- **Idempotence, plan level, types included.**  Under the hypotheses of `antiDoS_plan`, prune
the pruned program again *for the same run*: take the record `tr2` of the re-typed pruned program
(labelled by any `ids'`, hidden roots from any `cmf'`).  Then (1) the `prune_case` table leaves every
selected node of the pruned plan as it is, (2) re-inference on the twice-pruned plan returns the
same arrows `a1`, (3) pruning the already pruned witness bits to `a1` again returns them.  (Nodes
outside the selection are not part of the pruned program; the table may rewrite them, which does
not influence the selected nodes' types — `inferM_prunePlan_agree`.) -/
theorem prune_idempotent_plan (jt : JetTypes) (p : Plan) (wit : Nat → Option (List Bool)) (cm : Array Nat)
    (jets : JetSem) (ids ids' : Nat → Nat) (cmf cmf' : Nat → Nat) (mask : Nat → Bool)
    (prog : Bool) {arr a1 : Array (Ty × Ty)} (wit' : Nat → Option (List Bool))
    (hwf : wf p = true)
    (harr : inferM jt p (fun _ => true) prog = .ok arr)
    (f i : Nat) (x : Σ a b, Term a b)
    (hx : elabNode { plan := p, arrows := arr, wit := wit, cmr := cm, jets := jets } f i = some x)
    (v o : Val) (tr : Trace) (hv : HasTy v x.1)
    (hrun : evalT x.2.2 (labOf p ids f i) v = .ok (o, tr))
    (ha1 : inferM jt (prunePlan tr.sides ids cmf p) mask prog = .ok a1)
    (hlt : ∀ j, mask j = true → j < p.size)
    (hclosed : ∀ j nd', mask j = true → (prunePlan tr.sides ids cmf p)[j]? = some nd' →
      ∀ c ∈ nd'.children, mask c = true)
    (hwit : ∀ j bits, mask j = true → p[j]? = some .witness → pruneWit wit arr a1 j = some bits →
      wit' j = some bits)
    (hmi : mask i = true)
    (hreach : ∀ j, mask j = true → Reach (prunePlan tr.sides ids cmf p) i j)
    (hinj : ∀ j k, j < p.size → k < p.size → ids j = ids k → j = k) :
    ∃ (t' : Term (a1.getD i (.one, .one)).1 (a1.getD i (.one, .one)).2) (tr2 : Trace),
      elabNode { plan := prunePlan tr.sides ids cmf p, arrows := a1, wit := wit', cmr := cm, jets := jets } f i
        = some ⟨_, _, t'⟩ ∧
      evalT t' (labOf (prunePlan tr.sides ids cmf p) ids' f i) (pr (a1.getD i (.one, .one)).1 v)
        = .ok (pr (a1.getD i (.one, .one)).2 o, tr2) ∧
      (∀ j, mask j = true →
        (prunePlan tr2.sides ids' cmf' (prunePlan tr.sides ids cmf p))[j]? = (prunePlan tr.sides ids cmf p)[j]?) ∧
      inferM jt (prunePlan tr2.sides ids' cmf' (prunePlan tr.sides ids cmf p)) mask prog = .ok a1 ∧
      (∀ j bits, mask j = true → p[j]? = some .witness → pruneWit wit arr a1 j = some bits →
        pruneWit wit' a1 a1 j = some bits) := by
  obtain ⟨t', tr2, h1, h2, h3⟩ := antiDoS_plan jt p wit cm jets ids ids' cmf mask prog wit' hwf harr f i x hx
    v o tr hv hrun ha1 hlt hclosed hwit hmi hreach hinj
  have hfix : ∀ j nd, (prunePlan tr.sides ids cmf p)[j]? = some nd → mask j = true →
      pruneNode tr2.sides (ids' j) cmf' nd = nd := by
    intro j nd hnd mj
    apply pruneNode_fix
    intro a b hab
    subst hab
    have := (h3 j mj).2 a b hnd
    exact ⟨fun _ => this.2, fun _ => this.1⟩
  refine ⟨t', tr2, h1, h2, ?_, ?_, ?_⟩
  · intro j mj
    rw [prunePlan_getElem?]
    cases hnd : (prunePlan tr.sides ids cmf p)[j]? with
    | none => rfl
    | some nd => simp only [Option.map_some, hfix j nd hnd mj]
  · rw [inferM_prunePlan_agree jt mask tr2.sides ids' cmf' _ prog hfix]
    exact ha1
  · intro j bits mj hnd hb
    have hb0 := hb
    simp only [pruneWit, Option.bind_eq_bind, Option.bind_eq_some_iff, Option.pure_def, Option.some.injEq] at hb
    obtain ⟨bits0, _, v0, _, w, hw, rfl⟩ := hb
    exact pruneWit_self wit' a1 j w (pruneV_hasTy _ _ _ hw) (hwit j _ mj hnd hb0)

/-- … and the reachable set does not change either: with the driver's selection (`reachable`),
the twice-pruned plan has the reachable set of the pruned plan, so the second `inferM` runs on the
same selection. -/
theorem prune_idempotent_reachable (p1 : Plan) (S2 : List (Nat × Bool)) (ids' cmf' : Nat → Nat)
    (h : ∀ j, (reachable p1).getD j false = true → (prunePlan S2 ids' cmf' p1)[j]? = p1[j]?) (hwf : wf p1 = true) :
    reachable (prunePlan S2 ids' cmf' p1) = reachable p1 := by
  have hsz := prunePlan_size S2 ids' cmf' p1
  refine reachable_congr p1 _ hsz ?_
  intro j hj
  by_cases hp : 0 < p1.size
  · have hr : (reachable p1).getD j false = true := by
      induction hj with
      | root => exact reachable_root p1 hp
      | child _ hnd hc ih => exact reachable_closed p1 hwf ih hnd _ hc
    simp only [Array.getD_eq_getD_getElem?]
    rw [h j hr]
  · have h0 : p1.size = 0 := by omega
    have h1 : (prunePlan S2 ids' cmf' p1).size = 0 := by rw [hsz, h0]
    simp [Array.getD_eq_getD_getElem?, Array.getElem?_eq_none, h0, h1]

end Prog
