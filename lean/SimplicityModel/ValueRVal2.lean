/-
C10 — `RVal` continued: decoders and prune refine the bit-level layer; then the statements about
`RVal` itself (what the driver runs), in terms of the abstract element a value denotes.
-/
import SimplicityModel.ValueRVal

namespace Vl
open Bytes (getBit setBit)

namespace RVal

/-! ### `from_padded_bits` -/

theorem packAt_testBit : ∀ (bs : List Bool) (i k : Nat), i + bs.length ≤ 8 → k < 8 →
    (packAt i bs).testBit (7 - k) = if i ≤ k then bs.getD (k - i) false else false
  | [], i, k, _, _ => by simp [packAt]
  | b :: bs, i, k, h, hk => by
    simp only [List.length_cons] at h
    simp only [packAt, Nat.testBit_or, packAt_testBit bs (i + 1) k (by omega) hk]
    have hm : (if b then 1 <<< (7 - i) else 0).testBit (7 - k) = (b && decide (i = k)) := by
      cases b with
      | false => simp
      | true =>
        simp only [if_true, Bytes.testBit_mask, Bool.true_and]
        congr 1; apply propext; constructor <;> intro <;> omega
    rw [hm]
    by_cases h1 : i = k
    · subst h1
      have h3 : ¬ i + 1 ≤ i := by omega
      simp [h3]
    · by_cases h2 : i < k
      · have h3 : i + 1 ≤ k := by omega
        have h4 : i ≤ k := by omega
        have h5 : k - i = (k - (i + 1)) + 1 := by omega
        simp [h1, h3, h4, h5]
      · have h3 : ¬ i + 1 ≤ k := by omega
        have h4 : ¬ i ≤ k := by omega
        simp [h1, h3, h4]

theorem packAt_lt : ∀ (bs : List Bool) (i : Nat), packAt i bs < 256
  | [], _ => by simp [packAt]
  | b :: bs, i => by
    simp only [packAt]
    apply Nat.or_lt_two_pow (n := 8) _ (packAt_lt bs (i + 1))
    cases b with
    | false => simp
    | true =>
      simp only [if_true, Nat.one_shiftLeft]
      exact Nat.pow_lt_pow_right (by decide) (by omega)

theorem packByte_testBit (bs : List Bool) (k : Nat) (h : bs.length ≤ 8) (hk : k < 8) :
    (packByte bs).testBit (7 - k) = bs.getD k false := by
  rw [packByte, packAt_testBit bs 0 k (by omega) hk]; simp

/-- the buffer built by `from_padded_bits` holds the bits it read, in order -/
theorem getBit_packed (inp : List Bool) (w i : Nat) (hi : i < w) (hw : w ≤ inp.length) :
    getBit ((List.range (w / 8)).map (fun k => packByte ((inp.drop (8 * k)).take 8)) ++
      [packByte ((inp.drop (8 * (w / 8))).take (w % 8))]) i = inp.getD i false := by
  unfold getBit
  have hk : i % 8 < 8 := Nat.mod_lt _ (by decide)
  rw [List.getD_eq_getElem?_getD]
  by_cases hq : i / 8 < w / 8
  · rw [List.getElem?_append_left (by simpa using hq)]
    simp only [List.getElem?_map, List.getElem?_range hq, Option.map_some, Option.getD_some]
    rw [packByte_testBit _ _ (by simp; omega) hk]
    rw [List.getD_eq_getElem?_getD, List.getD_eq_getElem?_getD, List.getElem?_take_of_lt hk,
      List.getElem?_drop]
    congr 2; omega
  · have hq' : i / 8 = w / 8 := by omega
    rw [List.getElem?_append_right (by simp; omega)]
    simp only [List.length_map, List.length_range, hq', Nat.sub_self, List.getElem?_cons_zero,
      Option.getD_some]
    rw [packByte_testBit _ _ (by simp; omega) hk]
    rw [List.getD_eq_getElem?_getD, List.getD_eq_getElem?_getD, List.getElem?_take_of_lt (by omega),
      List.getElem?_drop]
    congr 2; omega

theorem fromPaddedBits_refines (t : Ty) (inp : List Bool) :
    (fromPaddedBits t inp).map (fun p => (p.1.view, p.2)) = BV.fromPadded t inp ∧
    ∀ v r, fromPaddedBits t inp = some (v, r) → v.WF ∧ v.off = 0 := by
  unfold fromPaddedBits BV.fromPadded
  by_cases h : inp.length < t.bw
  · simp [h]
  · simp only [h, if_false, Option.map_some]
    refine ⟨?_, ?_⟩
    · simp only [view, bits, Option.some.injEq, Prod.mk.injEq, BV.mk.injEq, true_and, and_true]
      symm
      apply eq_window (by simp; omega)
      intro i hi
      rw [List.getElem?_take_of_lt hi, Nat.zero_add, getBit_packed inp t.bw i hi (by omega),
        List.getD_eq_getElem?_getD]
      have : i < inp.length := by omega
      simp [List.getElem?_eq_getElem this]
    · intro v r hv
      simp only [Option.some.injEq, Prod.mk.injEq] at hv
      obtain ⟨rfl, rfl⟩ := hv
      refine ⟨⟨by simp; omega, ?_⟩, rfl⟩
      intro x hx
      simp only [List.mem_append, List.mem_map, List.mem_range, List.mem_singleton] at hx
      rcases hx with ⟨k, _, rfl⟩ | rfl
      · exact packAt_lt _ _
      · exact packAt_lt _ _

/-! ### `from_compact_bits` -/

theorem fromCompactBits_refines : ∀ (t : Ty) (inp : List Bool),
    (fromCompactBits t inp).map (fun p => (p.1.view, p.2)) = BV.fromCompact t inp ∧
    ∀ v r, fromCompactBits t inp = some (v, r) → v.WF
  | .one, inp => by
    obtain ⟨h1, h2⟩ := fromPaddedBits_refines .one inp
    exact ⟨by simpa [fromCompactBits, BV.fromCompact] using h1, fun v r h => (h2 v r (by simpa [fromCompactBits] using h)).1⟩
  | .sum a b, inp => by
    by_cases hp : (Ty.sum a b).hasPadding = false
    · obtain ⟨h1, h2⟩ := fromPaddedBits_refines (.sum a b) inp
      simp only [fromCompactBits, BV.fromCompact, hp, if_true]
      exact ⟨h1, fun v r h => (h2 v r h).1⟩
    · have hp' : (Ty.sum a b).hasPadding = true := by simpa using hp
      simp only [fromCompactBits, BV.fromCompact, hp', Bool.true_eq_false, if_false]
      cases inp with
      | nil => exact ⟨rfl, by intro v r h; cases h⟩
      | cons c inp' =>
        cases c with
        | false =>
          obtain ⟨h1, h2⟩ := fromCompactBits_refines a inp'
          simp only
          rw [← h1]
          cases hf : fromCompactBits a inp' with
          | none => exact ⟨rfl, by intro v r h; cases h⟩
          | some p =>
            obtain ⟨w, r'⟩ := p
            have hw := h2 w r' hf
            refine ⟨by simp [(left_refines hw b).1], ?_⟩
            intro v r h
            simp only [Option.map_some, Option.some.injEq, Prod.mk.injEq] at h
            obtain ⟨rfl, rfl⟩ := h
            exact (left_refines hw b).2
        | true =>
          obtain ⟨h1, h2⟩ := fromCompactBits_refines b inp'
          simp only
          rw [← h1]
          cases hf : fromCompactBits b inp' with
          | none => exact ⟨rfl, by intro v r h; cases h⟩
          | some p =>
            obtain ⟨w, r'⟩ := p
            have hw := h2 w r' hf
            refine ⟨by simp [(right_refines a hw).1], ?_⟩
            intro v r h
            simp only [Option.map_some, Option.some.injEq, Prod.mk.injEq] at h
            obtain ⟨rfl, rfl⟩ := h
            exact (right_refines a hw).2
  | .prod a b, inp => by
    by_cases hp : (Ty.prod a b).hasPadding = false
    · obtain ⟨h1, h2⟩ := fromPaddedBits_refines (.prod a b) inp
      simp only [fromCompactBits, BV.fromCompact, hp, if_true]
      exact ⟨h1, fun v r h => (h2 v r h).1⟩
    · have hp' : (Ty.prod a b).hasPadding = true := by simpa using hp
      simp only [fromCompactBits, BV.fromCompact, hp', Bool.true_eq_false, if_false]
      obtain ⟨h1, h2⟩ := fromCompactBits_refines a inp
      rw [← h1]
      cases hf : fromCompactBits a inp with
      | none => exact ⟨rfl, by intro v r h; cases h⟩
      | some p =>
        obtain ⟨x, r1⟩ := p
        have hx := h2 x r1 hf
        obtain ⟨k1, k2⟩ := fromCompactBits_refines b r1
        simp only [Option.map_some]
        rw [← k1]
        cases hg : fromCompactBits b r1 with
        | none => exact ⟨rfl, by intro v r h; cases h⟩
        | some q =>
          obtain ⟨y, r2⟩ := q
          have hy := k2 y r2 hg
          refine ⟨by simp [(product_refines hx hy).1], ?_⟩
          intro v r h
          simp only [Option.map_some, Option.some.injEq, Prod.mk.injEq] at h
          obtain ⟨rfl, rfl⟩ := h
          exact (product_refines hx hy).2

/-! ### prune -/

theorem prune_refines : ∀ (t : Ty) (v : RVal), v.WF →
    (prune t v).map view = BV.prune t v.view ∧ ∀ w, prune t v = some w → w.WF
  | .one, v, h => by
    by_cases e : v.ty = .one
    · simp only [prune, BV.prune, view_ty, e, if_true]
      exact ⟨rfl, by intro w hw; cases hw; exact h⟩
    · simp only [prune, BV.prune, view_ty, e, if_false]
      exact ⟨rfl, by intro w hw; cases hw; exact unit_wf⟩
  | .sum a b, v, h => by
    by_cases e : v.ty = .sum a b
    · simp only [prune, BV.prune, view_ty, e, if_true]
      exact ⟨rfl, by intro w hw; cases hw; exact h⟩
    · simp only [prune, BV.prune, view_ty, e, if_false]
      obtain ⟨l1, l2⟩ := asLeft_refines h
      obtain ⟨r1, r2⟩ := asRight_refines h
      rw [← l1, ← r1]
      cases hl : v.asLeft with
      | some l =>
        have hw := (l2 l hl).1
        obtain ⟨p1, p2⟩ := prune_refines a l hw
        simp only [Option.map_some]
        rw [← p1]
        cases hp : prune a l with
        | none => exact ⟨rfl, by intro w hw; cases hw⟩
        | some w =>
          have hww := p2 w hp
          refine ⟨by simp [(left_refines hww b).1], ?_⟩
          intro w' hw'
          simp only [Option.map_some, Option.some.injEq] at hw'
          subst hw'
          exact (left_refines hww b).2
      | none =>
        simp only [Option.map_none]
        cases hr : v.asRight with
        | none => exact ⟨rfl, by intro w hw; cases hw⟩
        | some r =>
          have hw := (r2 r hr).1
          obtain ⟨p1, p2⟩ := prune_refines b r hw
          simp only [Option.map_some]
          rw [← p1]
          cases hp : prune b r with
          | none => exact ⟨rfl, by intro w hw; cases hw⟩
          | some w =>
            have hww := p2 w hp
            refine ⟨by simp [(right_refines a hww).1], ?_⟩
            intro w' hw'
            simp only [Option.map_some, Option.some.injEq] at hw'
            subst hw'
            exact (right_refines a hww).2
  | .prod a b, v, h => by
    by_cases e : v.ty = .prod a b
    · simp only [prune, BV.prune, view_ty, e, if_true]
      exact ⟨rfl, by intro w hw; cases hw; exact h⟩
    · simp only [prune, BV.prune, view_ty, e, if_false]
      obtain ⟨l1, l2⟩ := asProduct_refines h
      rw [← l1]
      cases hl : v.asProduct with
      | none => exact ⟨rfl, by intro w hw; cases hw⟩
      | some p =>
        obtain ⟨l, r⟩ := p
        obtain ⟨hwl, hwr, _, _⟩ := l2 l r hl
        obtain ⟨p1, p2⟩ := prune_refines a l hwl
        obtain ⟨q1, q2⟩ := prune_refines b r hwr
        simp only [Option.map_some]
        rw [← p1, ← q1]
        cases hp : prune a l with
        | none => exact ⟨by simp, by intro w hw; simp at hw⟩
        | some x =>
          cases hq : prune b r with
          | none => exact ⟨by simp, by intro w hw; simp at hw⟩
          | some y =>
            have hx := p2 x hp
            have hy := q2 y hq
            refine ⟨by simp [(product_refines hx hy).1], ?_⟩
            intro w hw
            simp only [Option.some.injEq] at hw
            subst hw
            exact (product_refines hx hy).2

/-! ## statements about `RVal` -/

theorem Den.hasTy {r : RVal} {x : Val} (h : r.Den x) : HasTy x r.ty := h.2.hasTy
theorem WF.den {r : RVal} (h : r.WF) : ∃ x, r.Den x := by
  obtain ⟨x, hx⟩ := BV.WF.den r.view_wf
  exact ⟨x, h, hx⟩
theorem Den.unique {r : RVal} {x y : Val} (h : r.Den x) (h' : r.Den y) : x = y := h.2.unique h'.2

/-! #### constructors build what they say -/

theorem den_unit : unit.Den .unit := ⟨unit_wf, by rw [unit_view]; exact BV.den_unit⟩

theorem den_left {v : RVal} {x : Val} (h : v.Den x) (b : Ty) :
    (v.left b).Den (.inl x) ∧ (v.left b).ty = .sum v.ty b := by
  obtain ⟨h1, h2⟩ := left_refines h.1 b
  exact ⟨⟨h2, by rw [h1]; exact BV.den_left h.2 b⟩, rfl⟩

theorem den_right (a : Ty) {v : RVal} {x : Val} (h : v.Den x) :
    (RVal.right a v).Den (.inr x) ∧ (RVal.right a v).ty = .sum a v.ty := by
  obtain ⟨h1, h2⟩ := right_refines a h.1
  exact ⟨⟨h2, by rw [h1]; exact BV.den_right a h.2⟩, rfl⟩

theorem den_product {l r : RVal} {x y : Val} (hl : l.Den x) (hr : r.Den y) :
    (l.product r).Den (.pair x y) ∧ (l.product r).ty = .prod l.ty r.ty := by
  obtain ⟨h1, h2⟩ := product_refines hl.1 hr.1
  exact ⟨⟨h2, by rw [h1]; exact BV.den_product hl.2 hr.2⟩, rfl⟩

/-! #### accessors undo constructors: the same type and the same bits, padding included -/

theorem asLeft_left {v : RVal} (h : v.WF) (b : Ty) :
    (∃ l, (v.left b).asLeft = some l ∧ l.view = v.view ∧ l.WF) ∧
      (v.left b).asRight = none ∧ (v.left b).asProduct = none := by
  obtain ⟨h1, h2⟩ := left_refines h b
  obtain ⟨a1, a2⟩ := asLeft_refines h2
  obtain ⟨b1, _⟩ := asRight_refines h2
  obtain ⟨c1, _⟩ := asProduct_refines h2
  rw [h1, BV.asLeft_left] at a1
  rw [h1, BV.asRight_left] at b1
  rw [h1, BV.asProduct_left] at c1
  refine ⟨?_, by simpa using b1, by simpa using c1⟩
  cases hl : (v.left b).asLeft with
  | none => rw [hl] at a1; cases a1
  | some l => rw [hl] at a1; exact ⟨l, rfl, by simpa using a1, (a2 l hl).1⟩

theorem asRight_right (a : Ty) {v : RVal} (h : v.WF) :
    (∃ r, (RVal.right a v).asRight = some r ∧ r.view = v.view ∧ r.WF) ∧
      (RVal.right a v).asLeft = none ∧ (RVal.right a v).asProduct = none := by
  obtain ⟨h1, h2⟩ := right_refines a h
  obtain ⟨a1, a2⟩ := asRight_refines h2
  obtain ⟨b1, _⟩ := asLeft_refines h2
  obtain ⟨c1, _⟩ := asProduct_refines h2
  rw [h1, BV.asRight_right] at a1
  rw [h1, BV.asLeft_right] at b1
  rw [h1, BV.asProduct_right] at c1
  refine ⟨?_, by simpa using b1, by simpa using c1⟩
  cases hl : (RVal.right a v).asRight with
  | none => rw [hl] at a1; cases a1
  | some l => rw [hl] at a1; exact ⟨l, rfl, by simpa using a1, (a2 l hl).1⟩

theorem asProduct_product {l r : RVal} (hl : l.WF) (hr : r.WF) :
    (∃ l' r', (l.product r).asProduct = some (l', r') ∧ l'.view = l.view ∧ r'.view = r.view ∧ l'.WF ∧ r'.WF) ∧
      (l.product r).asLeft = none ∧ (l.product r).asRight = none := by
  obtain ⟨h1, h2⟩ := product_refines hl hr
  obtain ⟨a1, a2⟩ := asProduct_refines h2
  obtain ⟨b1, _⟩ := asLeft_refines h2
  obtain ⟨c1, _⟩ := asRight_refines h2
  rw [h1, BV.asProduct_product _ _ l.view_wf] at a1
  rw [h1, BV.asLeft_product] at b1
  rw [h1, BV.asRight_product] at c1
  refine ⟨?_, by simpa using b1, by simpa using c1⟩
  cases hp : (l.product r).asProduct with
  | none => rw [hp] at a1; cases a1
  | some p =>
    obtain ⟨l', r'⟩ := p
    rw [hp] at a1
    simp only [Option.map_some, Option.some.injEq, Prod.mk.injEq] at a1
    obtain ⟨w1, w2, _, _⟩ := a2 l' r' hp
    exact ⟨l', r', rfl, a1.1, a1.2, w1, w2⟩

/-! #### accessors on any value, however it was produced -/

theorem den_inl_inv {r : RVal} {x : Val} (h : r.Den (.inl x)) :
    ∃ l, r.asLeft = some l ∧ l.Den x ∧ r.asRight = none ∧ r.asProduct = none := by
  obtain ⟨l', h1, h2, h3, h4⟩ := BV.den_inl_inv h.2
  obtain ⟨a1, a2⟩ := asLeft_refines h.1
  obtain ⟨b1, _⟩ := asRight_refines h.1
  obtain ⟨c1, _⟩ := asProduct_refines h.1
  rw [h1] at a1; rw [h3] at b1; rw [h4] at c1
  cases hl : r.asLeft with
  | none => rw [hl] at a1; cases a1
  | some l =>
    rw [hl] at a1
    simp only [Option.map_some, Option.some.injEq] at a1
    exact ⟨l, rfl, ⟨(a2 l hl).1, by rw [a1]; exact h2⟩, by simpa using b1, by simpa using c1⟩

theorem den_inr_inv {r : RVal} {x : Val} (h : r.Den (.inr x)) :
    ∃ l, r.asRight = some l ∧ l.Den x ∧ r.asLeft = none ∧ r.asProduct = none := by
  obtain ⟨l', h1, h2, h3, h4⟩ := BV.den_inr_inv h.2
  obtain ⟨a1, a2⟩ := asRight_refines h.1
  obtain ⟨b1, _⟩ := asLeft_refines h.1
  obtain ⟨c1, _⟩ := asProduct_refines h.1
  rw [h1] at a1; rw [h3] at b1; rw [h4] at c1
  cases hl : r.asRight with
  | none => rw [hl] at a1; cases a1
  | some l =>
    rw [hl] at a1
    simp only [Option.map_some, Option.some.injEq] at a1
    exact ⟨l, rfl, ⟨(a2 l hl).1, by rw [a1]; exact h2⟩, by simpa using b1, by simpa using c1⟩

theorem den_pair_inv {r : RVal} {x y : Val} (h : r.Den (.pair x y)) :
    ∃ l s, r.asProduct = some (l, s) ∧ l.Den x ∧ s.Den y ∧ r.asLeft = none ∧ r.asRight = none := by
  obtain ⟨l', s', h1, h2, h3, h4, h5⟩ := BV.den_pair_inv h.2
  obtain ⟨a1, a2⟩ := asProduct_refines h.1
  obtain ⟨b1, _⟩ := asLeft_refines h.1
  obtain ⟨c1, _⟩ := asRight_refines h.1
  rw [h1] at a1; rw [h4] at b1; rw [h5] at c1
  cases hl : r.asProduct with
  | none => rw [hl] at a1; cases a1
  | some p =>
    obtain ⟨l, s⟩ := p
    rw [hl] at a1
    simp only [Option.map_some, Option.some.injEq, Prod.mk.injEq] at a1
    obtain ⟨w1, w2, _, _⟩ := a2 l s hl
    exact ⟨l, s, rfl, ⟨w1, by rw [a1.1]; exact h2⟩, ⟨w2, by rw [a1.2]; exact h3⟩,
      by simpa using b1, by simpa using c1⟩

theorem den_unit_inv {r : RVal} (h : r.Den .unit) :
    r.ty = .one ∧ r.asLeft = none ∧ r.asRight = none ∧ r.asProduct = none := by
  obtain ⟨h1, h2, h3, h4⟩ := BV.den_unit_inv h.2
  obtain ⟨b1, _⟩ := asLeft_refines h.1
  obtain ⟨c1, _⟩ := asRight_refines h.1
  obtain ⟨d1, _⟩ := asProduct_refines h.1
  rw [h2] at b1; rw [h3] at c1; rw [h4] at d1
  exact ⟨h1, by simpa using b1, by simpa using c1, by simpa using d1⟩

/-! #### encodings -/

/-- the padded encoding has exactly the type's width and encodes the element denoted -/
theorem iterPadded_den {r : RVal} {x : Val} (h : r.Den x) :
    r.iterPadded.length = r.ty.bw ∧ Enc r.ty x r.iterPadded := by
  rw [iterPadded_eq_bits h.1]
  exact ⟨by simp [bits], h.2⟩

/-- the compact encoding is the padded one with all sum padding removed … -/
theorem iterCompact_strip {r : RVal} (h : r.WF) : r.iterCompact = strip r.ty r.iterPadded := by
  rw [iterPadded_eq_bits h, iterCompact_view h]; rfl

/-- … which is the compact encoding of the element denoted -/
theorem iterCompact_den {r : RVal} {x : Val} (h : r.Den x) : r.iterCompact = compact x := by
  rw [iterCompact_view h.1]; exact BV.iterCompact_den h.2

theorem lens {r : RVal} {x : Val} (h : r.Den x) :
    r.paddedLen = r.iterPadded.length ∧ r.compactLen = (compact x).length := by
  simp [paddedLen, compactLen, (iterPadded_den h).1, iterCompact_den h]

/-! #### decoders -/

/-- decoding a padded encoding (any padding content, anything after it) gives a value of that
type denoting that element, holding exactly those bits, and leaves exactly the rest -/
theorem fromPaddedBits_enc {t : Ty} {x : Val} {bs : List Bool} (h : Enc t x bs) (rest : List Bool) :
    ∃ v, fromPaddedBits t (bs ++ rest) = some (v, rest) ∧ v.ty = t ∧ v.Den x ∧ v.iterPadded = bs := by
  obtain ⟨h1, h2⟩ := fromPaddedBits_refines t (bs ++ rest)
  obtain ⟨w, k1, k2, k3, k4⟩ := BV.fromPadded_enc h rest
  rw [k1] at h1
  cases hf : fromPaddedBits t (bs ++ rest) with
  | none => rw [hf] at h1; cases h1
  | some p =>
    obtain ⟨v, r⟩ := p
    rw [hf] at h1
    simp only [Option.map_some, Option.some.injEq, Prod.mk.injEq] at h1
    obtain ⟨e1, e2⟩ := h1
    subst e2
    have hw := (h2 v r hf).1
    refine ⟨v, rfl, ?_, ⟨hw, by rw [e1]; exact k3⟩, ?_⟩
    · have := congrArg BV.ty e1; simpa [k2] using this
    · rw [iterPadded_eq_bits hw]
      have := congrArg BV.bits e1; simpa [view, k4] using this

theorem fromPaddedBits_none {t : Ty} {inp : List Bool} : fromPaddedBits t inp = none ↔ inp.length < t.bw := by
  obtain ⟨h1, _⟩ := fromPaddedBits_refines t inp
  rw [← BV.fromPadded_none, ← h1]; simp

theorem fromCompactBits_compact {t : Ty} {x : Val} (h : HasTy x t) (rest : List Bool) :
    ∃ v, fromCompactBits t (compact x ++ rest) = some (v, rest) ∧ v.ty = t ∧ v.Den x := by
  obtain ⟨h1, h2⟩ := fromCompactBits_refines t (compact x ++ rest)
  obtain ⟨w, k1, k2, k3⟩ := BV.fromCompact_compact h rest
  rw [k1] at h1
  cases hf : fromCompactBits t (compact x ++ rest) with
  | none => rw [hf] at h1; cases h1
  | some p =>
    obtain ⟨v, r⟩ := p
    rw [hf] at h1
    simp only [Option.map_some, Option.some.injEq, Prod.mk.injEq] at h1
    obtain ⟨e1, e2⟩ := h1
    subst e2
    refine ⟨v, rfl, ?_, ⟨h2 v r hf, by rw [e1]; exact k3⟩⟩
    have := congrArg BV.ty e1; simpa [k2] using this

/-- whatever the compact decoder accepts is the compact encoding of the element it returns
followed by exactly the rest -/
theorem fromCompactBits_some {t : Ty} {inp : List Bool} {v : RVal} {r : List Bool}
    (h : fromCompactBits t inp = some (v, r)) : v.ty = t ∧ ∃ x, v.Den x ∧ inp = compact x ++ r := by
  obtain ⟨h1, h2⟩ := fromCompactBits_refines t inp
  rw [h] at h1
  obtain ⟨e, x, hx, hi⟩ := BV.fromCompact_some t inp v.view r h1.symm
  exact ⟨e, x, ⟨h2 v r h, hx⟩, hi⟩

/-! #### prune -/

/-- **prune, on buffers**: the result, if any, has exactly the target type and denotes the
truncation of the element to that type; there is none exactly when no truncation of the element
has the target type -/
theorem prune_den {r : RVal} {x : Val} (h : r.Den x) (t : Ty) :
    (prune t r = none ∧ Vl.prune x t = none) ∨
    (∃ w y, prune t r = some w ∧ Vl.prune x t = some y ∧ w.ty = t ∧ w.Den y) := by
  obtain ⟨h1, h2⟩ := prune_refines t r h.1
  rcases BV.prune_den t r.view x h.2 with ⟨p1, p2⟩ | ⟨w', y, p1, p2, p3, p4⟩
  · left
    rw [p1] at h1
    exact ⟨by simpa using h1, p2⟩
  · right
    rw [p1] at h1
    cases hp : prune t r with
    | none => rw [hp] at h1; cases h1
    | some w =>
      rw [hp] at h1
      simp only [Option.map_some, Option.some.injEq] at h1
      refine ⟨w, y, rfl, p2, ?_, ⟨h2 w hp, by rw [h1]; exact p4⟩⟩
      have := congrArg BV.ty h1; simpa [p3] using this

end RVal
end Vl
