/-
What the pieces of ONE input / output say about it: the pieces that enter `sig_all_hash` determine
the view of the input (`inView_signed_inj`) and of the output (`outView_inj`), given that the byte
strings hashed for the two do not collide.
-/
import SimplicityModel.EnvDigestBytes
namespace Env

theorem issKind_re_nonce {i : TxIn} (h : i.issKind = .reissuance) : allZero i.blindingNonce.bytes = false := by
  unfold TxIn.issKind at h
  split at h
  · cases h
  · split at h
    · cases h
    · simpa using ‹¬ allZero i.blindingNonce.bytes = true›

theorem allZero_zeros32 : allZero zeros32 = true := by decide

theorem outpoint_inj {v1 v2 : InView} (h : v1.pieces.outpoint = v2.pieces.outpoint) :
    v1.pegin = v2.pegin ∧ v1.prevTxid = v2.prevTxid ∧ v1.prevVout = v2.prevVout := by
  simp only [InView.pieces, List.append_assoc] at h
  obtain ⟨h1, h2⟩ := optPiece_inj (opt_bytes_len v1.pegin) (opt_bytes_len v2.pegin) h
  obtain ⟨h3, h4⟩ := List.append_inj h2 (by rw [v1.prevTxid.len, v2.prevTxid.len])
  exact ⟨optB32_map_inj h1, B32.eq_of_bytes h3, be32_inj h4⟩

/-- the annex piece determines the annex, given that the two annexes do not collide -/
theorem annexPiece_inj {v1 v2 : InView} (h : v1.pieces.annex = v2.pieces.annex)
    (hinj : ∀ x ∈ v1.annex, ∀ y ∈ v2.annex, Sha256.hash x = Sha256.hash y → x = y) : v1.annex = v2.annex := by
  simp only [InView.pieces] at h
  have h' := (optPiece_inj (r := []) (s := []) (opt_hash_len v1.annex) (opt_hash_len v2.annex)
    (by simpa using h)).1
  cases h1 : v1.annex <;> cases h2 : v2.annex <;> simp [h1, h2] at h' ⊢
  exact hinj _ (by simp [h1]) _ (by simp [h2]) h'

theorem amtPiece_inj {a1 a2 : Conf} {v1 v2 : Amount}
    (h : serializeConf 0x0a a1 ++ digAmount v1.norm = serializeConf 0x0a a2 ++ digAmount v2.norm) :
    a1 = a2 ∧ v1.norm = v2.norm := by
  obtain ⟨h1, h2⟩ := prefixCode_opt _ _ _ _ (serializeConf_code _ (Or.inl rfl) a1)
    (serializeConf_code _ (Or.inl rfl) a2) h
  exact ⟨serializeConf_inj _ (Or.inl rfl) h1, digAmount_norm_inj h2⟩

theorem hash2_inj {a1 b1 a2 b2 : Bytes} (h : Sha256.hash a1 ++ Sha256.hash b1 = Sha256.hash a2 ++ Sha256.hash b2) :
    Sha256.hash a1 = Sha256.hash a2 ∧ Sha256.hash b1 = Sha256.hash b2 :=
  List.append_inj h (by rw [hash_len, hash_len])

theorem iss_inj (p1 p2 : TxIn × Utxo)
    (ho : (inView p1).pieces.outpoint = (inView p2).pieces.outpoint)
    (h6 : (inView p1).pieces.issAsset = (inView p2).pieces.issAsset)
    (h7 : (inView p1).pieces.issToken = (inView p2).pieces.issToken)
    (h8 : (inView p1).pieces.issProof = (inView p2).pieces.issProof)
    (h9 : (inView p1).pieces.issBlind = (inView p2).pieces.issBlind)
    (hinj1 : Sha256.hash (inView p1).iss.proofs.1 = Sha256.hash (inView p2).iss.proofs.1 →
      (inView p1).iss.proofs.1 = (inView p2).iss.proofs.1)
    (hinj2 : Sha256.hash (inView p1).iss.proofs.2 = Sha256.hash (inView p2).iss.proofs.2 →
      (inView p1).iss.proofs.2 = (inView p2).iss.proofs.2) :
    (inView p1).iss = (inView p2).iss := by
  obtain ⟨_, htx, hvo⟩ := outpoint_inj ho
  obtain ⟨hp1, hp2⟩ := hash2_inj h8
  have hp1 := hinj1 hp1
  have hp2 := hinj2 hp2
  obtain ⟨i1, u1⟩ := p1
  obtain ⟨i2, u2⟩ := p2
  simp only [inView] at htx hvo
  rcases issKind_cases i1 with k1 | k1 | k1 <;> rcases issKind_cases i2 with k2 | k2 | k2 <;>
    simp only [InView.pieces, inView, TxIn.issView, k1, k2, IssView.proofs, InView.assetId, InView.tokenId,
      InView.entropy, IssView.entropy, IssView.amount] at h6 h7 h9 hp1 hp2 ⊢
  · simp at h9
  · simp at h9
  · simp at h9
  · -- new / new
    simp only [List.cons.injEq, true_and] at h9
    have hce := B32.eq_of_bytes (List.append_cancel_left h9)
    rw [htx, hvo, hce] at h6 h7
    simp only [List.cons_append, List.cons.injEq, true_and] at h6
    have ha := digAmount_norm_inj (List.append_cancel_left h6)
    rw [ha] at h7
    simp only [List.cons_append, List.cons.injEq, true_and] at h7
    have hk := digAmount_norm_inj (List.append_cancel_left h7)
    rw [hce, ha, hk, hp1, hp2]
  · -- new / reissuance: the blinding nonce of a reissuance is not zero
    simp only [List.cons.injEq, true_and] at h9
    have hz := (List.append_inj h9 (by rw [i2.blindingNonce.len]; rfl)).1
    have := issKind_re_nonce k2
    rw [← hz] at this
    exact absurd this (by decide)
  · simp at h9
  · simp only [List.cons.injEq, true_and] at h9
    have hz := (List.append_inj h9 (by rw [i1.blindingNonce.len]; rfl)).1
    have := issKind_re_nonce k1
    rw [hz] at this
    exact absurd this (by decide)
  · -- reissuance / reissuance
    simp only [List.cons.injEq, true_and] at h9
    obtain ⟨hn, he⟩ := List.append_inj h9 (by rw [i1.blindingNonce.len, i2.blindingNonce.len])
    have hn := B32.eq_of_bytes hn
    have he := B32.eq_of_bytes he
    rw [he] at h6
    simp only [List.cons_append, List.cons.injEq, true_and] at h6
    have ha := digAmount_norm_inj (List.append_cancel_left h6)
    rw [hn, he, ha, hp1]

/-- the pieces of an input that enter `sig_all_hash` determine what is shown of it (its script
signature apart), given that the strings hashed for the two inputs do not collide -/
theorem inView_signed_inj (p1 p2 : TxIn × Utxo)
    (ho : (inView p1).pieces.outpoint = (inView p2).pieces.outpoint)
    (ha : (inView p1).pieces.amt = (inView p2).pieces.amt)
    (hs : (inView p1).pieces.script = (inView p2).pieces.script)
    (hq : (inView p1).pieces.seq = (inView p2).pieces.seq)
    (hx : (inView p1).pieces.annex = (inView p2).pieces.annex)
    (h6 : (inView p1).pieces.issAsset = (inView p2).pieces.issAsset)
    (h7 : (inView p1).pieces.issToken = (inView p2).pieces.issToken)
    (h8 : (inView p1).pieces.issProof = (inView p2).pieces.issProof)
    (h9 : (inView p1).pieces.issBlind = (inView p2).pieces.issBlind)
    (hinj : ∀ x ∈ (inView p1).hashed, ∀ y ∈ (inView p2).hashed, Sha256.hash x = Sha256.hash y → x = y) :
    (inView p1).signed = (inView p2).signed := by
  obtain ⟨hpeg, htx, hvo⟩ := outpoint_inj ho
  have hseq : (inView p1).sequence = (inView p2).sequence := be32_inj hq
  have hann := annexPiece_inj hx
    (fun x m1 y m2 => hinj x (by simp [InView.hashed, Option.mem_def.mp m1]) y (by simp [InView.hashed, Option.mem_def.mp m2]))
  have hav : (inView p1).asset = (inView p2).asset ∧ (inView p1).value = (inView p2).value := amtPiece_inj ha
  have hspk : (inView p1).scriptPubkey = (inView p2).scriptPubkey :=
    hinj _ (by simp [InView.hashed]) _ (by simp [InView.hashed]) hs
  have hiss := iss_inj p1 p2 ho h6 h7 h8 h9
    (hinj _ (by simp [InView.hashed]) _ (by simp [InView.hashed]))
    (hinj _ (by simp [InView.hashed]) _ (by simp [InView.hashed]))
  cases hv1 : inView p1
  cases hv2 : inView p2
  simp only [hv1, hv2] at hpeg htx hvo hseq hann hav hspk hiss
  simp only [InView.signed, InView.mk.injEq]
  exact ⟨hpeg, htx, hvo, hseq, hann, hav.1, hav.2, hspk, trivial, hiss⟩

theorem outView_inj (o1 o2 : TxOut)
    (ha : (outView o1).pieces.amt = (outView o2).pieces.amt)
    (hn : (outView o1).pieces.nonce = (outView o2).pieces.nonce)
    (hs : (outView o1).pieces.script = (outView o2).pieces.script)
    (hr : (outView o1).pieces.range = (outView o2).pieces.range)
    (hj : (outView o1).pieces.surj = (outView o2).pieces.surj)
    (hinj : ∀ x ∈ (outView o1).hashed, ∀ y ∈ (outView o2).hashed, Sha256.hash x = Sha256.hash y → x = y) :
    outView o1 = outView o2 := by
  have hav : (outView o1).asset = (outView o2).asset ∧ (outView o1).value = (outView o2).value := amtPiece_inj ha
  have hnonce : (outView o1).nonce = (outView o2).nonce := serializeConf_inj _ (Or.inr rfl) hn
  have hspk : (outView o1).scriptPubkey = (outView o2).scriptPubkey :=
    hinj _ (by simp [OutView.hashed]) _ (by simp [OutView.hashed]) hs
  have hrange : (outView o1).rangeproof = (outView o2).rangeproof :=
    hinj _ (by simp [OutView.hashed]) _ (by simp [OutView.hashed]) hr
  have hsurj : (outView o1).surjectionProof = (outView o2).surjectionProof :=
    hinj _ (by simp [OutView.hashed]) _ (by simp [OutView.hashed]) hj
  cases hv1 : outView o1
  cases hv2 : outView o2
  simp only [hv1, hv2] at hav hnonce hspk hrange hsurj
  simp only [OutView.mk.injEq]
  exact ⟨hav.1, hav.2, hnonce, hspk, hrange, hsurj⟩

end Env
