/-
Prefix codes over byte strings: the tool with which `EnvDigestCommit.lean` splits the pre-image of a
digest (a concatenation of per-input / per-output pieces) back into its pieces.
-/
import SimplicityModel.Env
namespace Env

variable {α : Type}

/-- a set of byte strings no element of which is a proper prefix of another: a concatenation of
code words can be split in one way only -/
def PrefixCode (P : List α → Prop) : Prop :=
  ∀ a b r s, P a → P b → a ++ r = b ++ s → a = b ∧ r = s

def Fixed (n : Nat) (x : List α) : Prop := x.length = n

theorem prefixCode_fixed (n : Nat) : PrefixCode (Fixed (α := α) n) := by
  intro a b r s ha hb h
  exact List.append_inj h (ha.trans hb.symm)

def Cat (P Q : List α → Prop) (x : List α) : Prop := ∃ a b, x = a ++ b ∧ P a ∧ Q b

theorem prefixCode_cat {P Q : List α → Prop} (hP : PrefixCode P) (hQ : PrefixCode Q) : PrefixCode (Cat P Q) := by
  rintro _ _ r s ⟨a1, b1, rfl, pa1, qb1⟩ ⟨a2, b2, rfl, pa2, qb2⟩ h
  rw [List.append_assoc, List.append_assoc] at h
  obtain ⟨h1, h2⟩ := hP _ _ _ _ pa1 pa2 h
  obtain ⟨h3, h4⟩ := hQ _ _ _ _ qb1 qb2 h2
  subst h1 h3
  exact ⟨rfl, h4⟩

/-- first byte `t`, then a word of the code `Q t` -/
def Tagged (Q : α → List α → Prop) (x : List α) : Prop := ∃ t rest, x = t :: rest ∧ Q t rest

theorem prefixCode_tagged {Q : α → List α → Prop} (hQ : ∀ t, PrefixCode (Q t)) : PrefixCode (Tagged Q) := by
  rintro _ _ r s ⟨t1, x1, rfl, q1⟩ ⟨t2, x2, rfl, q2⟩ h
  simp only [List.cons_append, List.cons.injEq] at h
  obtain ⟨ht, h⟩ := h
  subst ht
  obtain ⟨h1, h2⟩ := hQ t1 _ _ _ _ q1 q2 h
  subst h1
  exact ⟨rfl, h2⟩

theorem tagged_ne_nil {Q : α → List α → Prop} {x : List α} (h : Tagged Q x) : x ≠ [] := by
  obtain ⟨t, r, rfl, _⟩ := h
  simp

/-- a list of code words is determined by its concatenation -/
theorem flatMap_code {β} {P : List α → Prop} (hP : PrefixCode P) (f : β → List α)
    (hf : ∀ a, P (f a)) (hne : ∀ a, f a ≠ []) :
    ∀ l1 l2 : List β, l1.flatMap f = l2.flatMap f → l1.map f = l2.map f := by
  intro l1
  induction l1 with
  | nil =>
    intro l2 h
    cases l2 with
    | nil => rfl
    | cons b t =>
      simp only [List.flatMap_nil, List.flatMap_cons] at h
      have := List.append_eq_nil_iff.mp h.symm
      exact absurd this.1 (hne b)
  | cons a t ih =>
    intro l2 h
    cases l2 with
    | nil =>
      simp only [List.flatMap_nil, List.flatMap_cons] at h
      have := List.append_eq_nil_iff.mp h
      exact absurd this.1 (hne a)
    | cons b t2 =>
      simp only [List.flatMap_cons] at h
      obtain ⟨h1, h2⟩ := hP _ _ _ _ (hf a) (hf b) h
      simp only [List.map_cons, h1, ih t2 h2]

end Env
