import SimplicityModel.Machine4 -- (spike: module Spk.Machine4 = spikes/Machine.lean of a scratch lake project)
namespace BM4

theorem wcur_cons (m : M) (w ws) (h : m.write = w :: ws) : wcur m = w.cursor := by simp [wcur, h]
theorem rcur_cons (m : M) (r rs) (h : m.read = r :: rs) : rcur m = r.cursor := by simp [rcur, h]


def SameCaps (m m' : M) : Prop := m'.cap = m.cap ∧ m'.fcap = m.fcap
theorem SameCaps.rfl' (m : M) : SameCaps m m := ⟨rfl, rfl⟩
theorem SameCaps.trans {a b c : M} (h1 : SameCaps a b) (h2 : SameCaps b c) : SameCaps a c :=
  ⟨h2.1.trans h1.1, h2.2.trans h1.2⟩

theorem writeBit_caps {b m m'} (h : writeBit b m = .ok m') : SameCaps m m' := by
  unfold writeBit at h; split at h
  · cases h
  · split at h
    · cases h; exact ⟨rfl, rfl⟩
    · cases h
theorem skip_caps {n m m'} (h : skip n m = .ok m') : SameCaps m m' := by
  unfold skip at h; split at h
  · cases h; exact ⟨rfl, rfl⟩
  · split at h
    · cases h
    · cases h; exact ⟨rfl, rfl⟩
theorem fwd_caps {n m m'} (h : fwd n m = .ok m') : SameCaps m m' := by
  unfold fwd at h; split at h
  · cases h; exact ⟨rfl, rfl⟩
  · split at h
    · cases h
    · cases h; exact ⟨rfl, rfl⟩
theorem back_caps {n m m'} (h : back n m = .ok m') : SameCaps m m' := by
  unfold back at h; split at h
  · cases h; exact ⟨rfl, rfl⟩
  · split at h
    · cases h
    · cases h; exact ⟨rfl, rfl⟩
theorem copy_caps {n m m'} (h : copy n m = .ok m') : SameCaps m m' := by
  unfold copy at h; split at h
  · cases h; exact ⟨rfl, rfl⟩
  · split at h
    · split at h
      · cases h; exact ⟨rfl, rfl⟩
      · cases h
    · cases h
theorem newWrite_caps {n m m'} (h : newWrite n m = .ok m') : SameCaps m m' := by
  unfold newWrite at h; split at h
  · cases h; exact ⟨rfl, rfl⟩
  · cases h
theorem moveWriteToRead_caps {m m'} (h : moveWriteToRead m = .ok m') : SameCaps m m' := by
  unfold moveWriteToRead at h; split at h
  · cases h
  · cases h; exact ⟨rfl, rfl⟩
theorem dropRead_caps {m m'} (h : dropRead m = .ok m') : SameCaps m m' := by
  unfold dropRead at h; split at h
  · cases h
  · split at h
    · cases h; exact ⟨rfl, rfl⟩
    · cases h

theorem bind_ok_inv {ε α β} {x : Except ε α} {f : α → Except ε β} {b : β}
    (h : (x >>= f) = .ok b) : ∃ a, x = .ok a ∧ f a = .ok b := by
  cases x with
  | error e => cases h
  | ok a => exact ⟨a, rfl, h⟩

theorem writeBits_caps : ∀ (bs : List Bool) {m m' : M}, writeBits bs m = .ok m' → SameCaps m m'
  | [], m, m', h => by cases h; exact SameCaps.rfl' m
  | b :: bs, m, m', h => by
    simp only [writeBits] at h
    obtain ⟨m1, h1, h⟩ := bind_ok_inv h
    exact (writeBit_caps h1).trans (writeBits_caps bs h)

theorem run_caps : ∀ {a b : Ty} (t : Term a b) (m m' : M), run t m = .ok m' → SameCaps m m' := by
  intro a b t
  induction t with
  | iden => intro m m' h; exact copy_caps h
  | unit => intro m m' h; cases h; exact SameCaps.rfl' m
  | injl t ih =>
    intro m m' h
    simp only [run] at h
    obtain ⟨m1, h1, h⟩ := bind_ok_inv h
    obtain ⟨m2, h2, h⟩ := bind_ok_inv h
    exact (writeBit_caps h1).trans ((skip_caps h2).trans (ih _ _ h))
  | injr t ih =>
    intro m m' h
    simp only [run] at h
    obtain ⟨m1, h1, h⟩ := bind_ok_inv h
    obtain ⟨m2, h2, h⟩ := bind_ok_inv h
    exact (writeBit_caps h1).trans ((skip_caps h2).trans (ih _ _ h))
  | take t ih => intro m m' h; exact ih _ _ h
  | drop t ih =>
    intro m m' h
    simp only [run] at h
    obtain ⟨m1, h1, h⟩ := bind_ok_inv h
    obtain ⟨m2, h2, h⟩ := bind_ok_inv h
    exact (fwd_caps h1).trans ((ih _ _ h2).trans (back_caps h))
  | comp s t ihs iht =>
    intro m m' h
    simp only [run] at h
    obtain ⟨m1, h1, h⟩ := bind_ok_inv h
    obtain ⟨m2, h2, h⟩ := bind_ok_inv h
    obtain ⟨m3, h3, h⟩ := bind_ok_inv h
    obtain ⟨m4, h4, h⟩ := bind_ok_inv h
    exact (newWrite_caps h1).trans ((ihs _ _ h2).trans ((moveWriteToRead_caps h3).trans
      ((iht _ _ h4).trans (dropRead_caps h))))
  | case s t ihs iht =>
    intro m m' h
    simp only [run] at h
    obtain ⟨bit, _, h⟩ := bind_ok_inv h
    cases bit with
    | true =>
      simp only [if_true] at h
      obtain ⟨m1, h1, h⟩ := bind_ok_inv h
      obtain ⟨m2, h2, h⟩ := bind_ok_inv h
      exact (fwd_caps h1).trans ((iht _ _ h2).trans (back_caps h))
    | false =>
      simp only [Bool.false_eq_true, if_false] at h
      obtain ⟨m1, h1, h⟩ := bind_ok_inv h
      obtain ⟨m2, h2, h⟩ := bind_ok_inv h
      exact (fwd_caps h1).trans ((ihs _ _ h2).trans (back_caps h))
  | pair s t ihs iht =>
    intro m m' h
    simp only [run] at h
    obtain ⟨m1, h1, h⟩ := bind_ok_inv h
    exact (ihs _ _ h1).trans (iht _ _ h)
  | fail => intro m m' h; cases h
  | witness w => intro m m' h; exact writeBits_caps _ h
  | assertl s ih =>
    intro m m' h
    simp only [run] at h
    obtain ⟨bit, _, h⟩ := bind_ok_inv h
    cases bit with
    | true => simp only [if_true] at h; cases h
    | false =>
      simp only [Bool.false_eq_true, if_false] at h
      obtain ⟨m1, h1, h⟩ := bind_ok_inv h
      obtain ⟨m2, h2, h⟩ := bind_ok_inv h
      exact (fwd_caps h1).trans ((ih _ _ h2).trans (back_caps h))
  | assertr t ih =>
    intro m m' h
    simp only [run] at h
    obtain ⟨bit, _, h⟩ := bind_ok_inv h
    cases bit with
    | true =>
      simp only [if_true] at h
      obtain ⟨m1, h1, h⟩ := bind_ok_inv h
      obtain ⟨m2, h2, h⟩ := bind_ok_inv h
      exact (fwd_caps h1).trans ((ih _ _ h2).trans (back_caps h))
    | false => simp only [Bool.false_eq_true, if_false] at h; cases h
  | word w => intro m m' h; exact writeBits_caps _ h
  | jet jf f =>
    intro m m' h
    simp only [run] at h
    split at h
    · cases h
    · split at h
      · cases h
      · exact writeBits_caps _ h
  | disconnect w cw s t ihs iht =>
    intro m m' h
    simp only [run] at h
    obtain ⟨m1, h1, h⟩ := bind_ok_inv h
    obtain ⟨m2, h2, h⟩ := bind_ok_inv h
    obtain ⟨m3, h3, h⟩ := bind_ok_inv h
    obtain ⟨m4, h4, h⟩ := bind_ok_inv h
    obtain ⟨m5, h5, h⟩ := bind_ok_inv h
    obtain ⟨m6, h6, h⟩ := bind_ok_inv h
    obtain ⟨m7, h7, h⟩ := bind_ok_inv h
    obtain ⟨m8, h8, h⟩ := bind_ok_inv h
    obtain ⟨m9, h9, h⟩ := bind_ok_inv h
    obtain ⟨m10, h10, h⟩ := bind_ok_inv h
    obtain ⟨m11, h11, h⟩ := bind_ok_inv h
    exact (newWrite_caps h1).trans ((writeBits_caps _ h2).trans ((copy_caps h3).trans
      ((moveWriteToRead_caps h4).trans ((newWrite_caps h5).trans ((ihs _ _ h6).trans
      ((moveWriteToRead_caps h7).trans ((copy_caps h8).trans ((fwd_caps h9).trans
      ((iht _ _ h10).trans ((dropRead_caps h11).trans (dropRead_caps h)))))))))))

/-- the machine was sized from the static bounds of `t` (C07) -/
structure Cap {a b : Ty} (m : M) (t : Term a b) : Prop where
  cells : m.next + extraCells t ≤ m.cap
  frames : m.write.length + m.read.length + extraFrames t ≤ m.fcap

theorem spec_iden {a : Ty} (m : M) (v : Val) (pre : Pre m a a v) (hcc : m.next ≤ m.cap) :
    Spec (Term.iden (a := a)) m v := by
  unfold Spec
  simp only [eval, run, copy]
  by_cases h0 : a.bw = 0
  · refine ⟨m, by simp [h0], ?_⟩
    exact ⟨rfl, rfl, by simp [h0], by simpa [h0, slice] using pre.enc, fun _ _ _ => rfl⟩
  · have hr := pre.hr h0
    have hw := pre.hw h0
    cases hrd : m.read with
    | nil => exact absurd hrd hr
    | cons r rs =>
      cases hwr : m.write with
      | nil => exact absurd hwr hw
      | cons w ws =>
        have hrc := rcur_cons m r rs hrd
        have hwc := wcur_cons m w ws hwr
        have hd : ∀ i j, i < a.bw → j < a.bw → r.cursor + i ≠ w.cursor + j := by
          intro i j hi hj; have := pre.disj i j hi hj; rwa [hrc, hwc] at this
        have hin : r.cursor + a.bw ≤ m.cap ∧ w.cursor + a.bw ≤ m.cap := by
          have h1 := pre.rlt; have h2 := pre.wlt
          rw [hrc] at h1; rw [hwc] at h2
          exact ⟨by omega, by omega⟩
        refine ⟨{ m with cells := copyCells m.cells r.cursor w.cursor a.bw,
                         write := { w with cursor := w.cursor + a.bw } :: ws }, by simp [h0, hrd, hin], ?_⟩
        refine ⟨rfl, rfl, by simp [hwr, advW], ?_, ?_⟩
        · have : slice (copyCells m.cells r.cursor w.cursor a.bw) (wcur m) a.bw
              = slice m.cells (rcur m) a.bw := by
            rw [hrc, hwc]
            have key : ∀ n c1 c2, (∀ i, i < n → copyCells m.cells r.cursor w.cursor a.bw (c2 + i) = m.cells (c1 + i)) →
                slice (copyCells m.cells r.cursor w.cursor a.bw) c2 n = slice m.cells c1 n := by
              intro n
              induction n with
              | zero => intros; rfl
              | succ n ih =>
                intro c1 c2 h
                simp only [slice]
                congr 1
                · simpa using h 0 (by omega)
                · apply ih
                  intro i hi
                  have := h (i+1) (by omega)
                  rw [show c2 + (i+1) = c2 + 1 + i by omega, show c1 + (i+1) = c1 + 1 + i by omega] at this
                  exact this
            apply key
            intro i hi
            rw [copyCells_spec _ _ _ _ hd]
            rw [if_pos (by omega)]
            congr 1; omega
          rw [this]; exact pre.enc
        · intro i _ hout
          show copyCells m.cells r.cursor w.cursor a.bw i = m.cells i
          rw [copyCells_spec _ _ _ _ hd]
          rw [if_neg]
          intro ⟨h1, h2⟩
          exact hout (i - w.cursor) (by omega) (by rw [hwc]; omega)


theorem slice_eq_of {f g : Nat → Bool} {c1 c2 n : Nat}
    (h : ∀ i, i < n → f (c2 + i) = g (c1 + i)) : slice f c2 n = slice g c1 n := by
  induction n generalizing c1 c2 with
  | zero => rfl
  | succ n ih =>
    simp only [slice]
    congr 1
    · simpa using h 0 (by omega)
    · apply ih
      intro i hi
      have := h (i+1) (by omega)
      rw [show c2 + (i+1) = c2 + 1 + i by omega, show c1 + (i+1) = c1 + 1 + i by omega] at this
      exact this

theorem writeBit_cons (b : Bool) (m : M) (w ws) (h : m.write = w :: ws) (hc : w.cursor < m.cap) :
    writeBit b m = .ok { m with cells := upd m.cells w.cursor b,
                                write := { w with cursor := w.cursor + 1 } :: ws } := by
  simp [writeBit, h, hc]

theorem skip_cons (n : Nat) (m : M) (w ws) (h : m.write = w :: ws) :
    skip n m = .ok { m with write := { w with cursor := w.cursor + n } :: ws } := by
  unfold skip
  by_cases h0 : n = 0
  · subst h0
    cases m
    simp at h
    subst h
    simp
  · simp [h0, h]

theorem fwd_cons (n : Nat) (m : M) (r rs) (h : m.read = r :: rs) :
    fwd n m = .ok { m with read := { r with cursor := r.cursor + n } :: rs } := by
  unfold fwd
  by_cases h0 : n = 0
  · subst h0
    cases m
    simp at h
    subst h
    simp
  · simp [h0, h]

theorem back_cons (n : Nat) (m : M) (r rs) (h : m.read = r :: rs) :
    back n m = .ok { m with read := { r with cursor := r.cursor - n } :: rs } := by
  unfold back
  by_cases h0 : n = 0
  · subst h0
    cases m
    simp at h
    subst h
    simp
  · simp [h0, h]

theorem pad_bw_l (b c : Ty) : padL b c + b.bw = max b.bw c.bw := by unfold padL; omega
theorem pad_bw_r (b c : Ty) : padR b c + c.bw = max b.bw c.bw := by unfold padR; omega

theorem spec_inj {a b c : Ty} (left : Bool) (t : Term a (if left then b else c))
    (ih : ∀ m v, Pre m a (if left then b else c) v → Cap m t → Spec t m v)
    (m : M) (v : Val) (pre : Pre m a (.sum b c) v) (hcap : Cap m t) :
    let pad := if left then padL b c else padR b c
    let k := fun (x : Val) => if left then Val.inl x else Val.inr x
    match eval t v with
    | some out => ∃ m', (do let m ← writeBit (!left) m; let m ← skip pad m; run t m) = .ok m' ∧
                    Post m m' (.sum b c) (k out)
    | none => (do let m ← writeBit (!left) m; let m ← skip pad m; run t m) = .error .fail := by
  intro pad k
  have hbw : (Ty.sum b c).bw ≠ 0 := by simp [Ty.bw]
  obtain ⟨w, ws, hwr⟩ := List.exists_cons_of_ne_nil (pre.hw hbw)
  have hwc := wcur_cons m w ws hwr
  let tb := if left then b else c
  have hpad : pad + tb.bw = max b.bw c.bw := by
    cases left <;> simp [pad, tb, pad_bw_l, pad_bw_r]
  let m2 : M := { m with cells := upd m.cells w.cursor (!left),
                         write := { w with cursor := w.cursor + 1 + pad } :: ws }
  have hrun : ∀ (f : M → Except Err M),
      (do let m ← writeBit (!left) m; let m ← skip pad m; f m) = f m2 := by
    intro f
    have hcur : w.cursor < m.cap := by
      have h1 := pre.wlt; have h2 := hcap.cells
      rw [hwc] at h1
      have : (Ty.sum b c).bw = 1 + max b.bw c.bw := rfl
      omega
    rw [writeBit_cons _ m w ws hwr hcur]
    simp only [bind, Except.bind]
    rw [skip_cons pad _ { w with cursor := w.cursor + 1 } ws rfl]
  have hsum : (Ty.sum b c).bw = 1 + (pad + tb.bw) := by simp [Ty.bw, hpad]
  have pre2 : Pre m2 a tb v := by
    refine ⟨?_, pre.hr, fun _ => by simp [m2], pre.rlt, ?_, ?_⟩
    · have : slice m2.cells (rcur m2) a.bw = slice m.cells (rcur m) a.bw := by
        apply slice_eq_of
        intro i hi
        show upd m.cells w.cursor (!left) (rcur m + i) = m.cells (rcur m + i)
        have := pre.disj i 0 hi (by omega)
        rw [hwc, Nat.add_zero] at this
        simp [upd, this]
      rw [this]; exact pre.enc
    · have := pre.wlt
      rw [hwc, hsum] at this
      show w.cursor + 1 + pad + tb.bw ≤ m.next
      omega
    · intro i j hi hj
      have := pre.disj i (1 + pad + j) hi (by rw [hsum]; omega)
      rw [hwc] at this
      show rcur m + i ≠ w.cursor + 1 + pad + j
      omega
  have cap2 : Cap m2 t := by
    refine ⟨hcap.cells, ?_⟩
    have := hcap.frames
    rw [hwr] at this
    exact this
  have hih := ih m2 v pre2 cap2
  unfold Spec at hih
  cases he : eval t v with
  | none =>
    rw [he] at hih
    show (do let m ← writeBit (!left) m; let m ← skip pad m; run t m) = .error .fail
    rw [hrun]; exact hih
  | some out =>
    rw [he] at hih
    obtain ⟨m', hr', post⟩ := hih
    refine ⟨m', by rw [hrun]; exact hr', ?_⟩
    have hw2 : wcur m2 = w.cursor + 1 + pad := rfl
    refine ⟨post.read, post.next, ?_, ?_, ?_⟩
    · rw [post.write, hwr, hsum]
      show advW tb.bw ({ w with cursor := w.cursor + 1 + pad } :: ws) = _
      simp [advW]; omega
    · -- encoding
      have hcell0 : m'.cells w.cursor = (!left) := by
        rw [post.frame w.cursor]
        · simp [m2, upd]
        · have := pre.wlt; rw [hwc, hsum] at this; show w.cursor < m.next; omega
        · intro j _; rw [hw2]; omega
      rw [hwc, hsum, show 1 + (pad + tb.bw) = (1 + pad) + tb.bw by omega, slice_add,
        show 1 + pad = pad + 1 by omega]
      simp only [slice]
      rw [hcell0]
      have henc := post.enc
      rw [hw2] at henc
      rw [show w.cursor + (pad + 1) = w.cursor + 1 + pad by omega]
      cases left with
      | true =>
        simp only [Bool.not_true, k, if_true]
        have := Enc.inl (b := c) (pad := slice m'.cells (w.cursor + 1) pad) henc (by simp [pad])
        simpa [tb] using this
      | false =>
        simp only [Bool.not_false, k]
        have := Enc.inr (a := b) (pad := slice m'.cells (w.cursor + 1) pad) henc (by simp [pad])
        simpa [tb] using this
    · intro i hi hout
      rw [post.frame i hi]
      · show upd m.cells w.cursor (!left) i = m.cells i
        have := hout 0 (by rw [hsum]; omega)
        rw [hwc, Nat.add_zero] at this
        simp [upd, this]
      · intro j hj
        have hj' : j < tb.bw := hj
        have := hout (1 + pad + j) (by rw [hsum]; omega)
        rw [hwc] at this
        rw [hw2]; omega


@[simp] theorem ok_bind {ε α β} (x : α) (f : α → Except ε β) : (Except.ok x >>= f) = f x := rfl
@[simp] theorem err_bind {ε α β} (e : ε) (f : α → Except ε β) :
    ((Except.error e : Except ε α) >>= f) = Except.error e := rfl

theorem spec_comp {a b c : Ty} (s : Term a b) (t : Term b c)
    (ihs : ∀ m v, Pre m a b v → Cap m s → Spec s m v) (iht : ∀ m v, Pre m b c v → Cap m t → Spec t m v)
    (m : M) (v : Val) (pre : Pre m a c v) (hcap : Cap m (Term.comp s t)) : Spec (Term.comp s t) m v := by
  unfold Spec
  let nf : Frame := ⟨m.next, m.next, b.bw⟩
  let m1 : M := { m with write := nf :: m.write, next := m.next + b.bw }
  have hec : extraCells (Term.comp s t) = b.bw + max (extraCells s) (extraCells t) := rfl
  have hef : extraFrames (Term.comp s t) = 1 + max (extraFrames s) (extraFrames t) := rfl
  have hcc := hcap.cells
  have hcf := hcap.frames
  rw [hec] at hcc
  rw [hef] at hcf
  have hnw : newWrite b.bw m = .ok m1 := by
    unfold newWrite
    rw [if_pos ⟨by omega, by omega⟩]
  simp only [eval, run]
  rw [hnw, ok_bind]
  show (match (eval s v).bind (eval t) with
    | some out => ∃ m', (run s m1 >>= fun m => moveWriteToRead m >>= fun m => run t m >>= dropRead) = .ok m' ∧ Post m m' c out
    | none => (run s m1 >>= fun m => moveWriteToRead m >>= fun m => run t m >>= dropRead) = .error .fail)
  have pre1 : Pre m1 a b v := by
    refine ⟨pre.enc, pre.hr, fun _ => by simp [m1], ?_, ?_, ?_⟩
    · have := pre.rlt; show rcur m + a.bw ≤ m.next + b.bw; omega
    · show m.next + b.bw ≤ m.next + b.bw; omega
    · intro i j hi hj
      have := pre.rlt
      show rcur m + i ≠ m.next + j
      omega
  have cap1 : Cap m1 s := by
    refine ⟨?_, ?_⟩
    · show m.next + b.bw + extraCells s ≤ m.cap; omega
    · show (nf :: m.write).length + m.read.length + extraFrames s ≤ m.fcap
      simp only [List.length_cons]; omega
  have h1 := ihs m1 v pre1 cap1
  unfold Spec at h1
  cases hes : eval s v with
  | none =>
    rw [hes] at h1
    simp only [Option.bind]
    rw [h1]; rfl
  | some x =>
    rw [hes] at h1
    obtain ⟨m2, hr2, post2⟩ := h1
    have hw2 : m2.write = { nf with cursor := m.next + b.bw } :: m.write := by
      rw [post2.write]; rfl
    let rf : Frame := { nf with cursor := m.next }
    let m3 : M := { m2 with write := m.write, read := rf :: m2.read }
    have hmv : moveWriteToRead m2 = .ok m3 := by
      simp [moveWriteToRead, hw2, m3, rf, nf]
    have hwc3 : wcur m3 = wcur m := by simp [wcur, m3]
    have hrc3 : rcur m3 = m.next := rfl
    have pre3 : Pre m3 b c x := by
      refine ⟨?_, fun _ => by simp [m3], pre.hw, ?_, ?_, ?_⟩
      · have := post2.enc
        simpa [hrc3, wcur, m1, nf] using this
      · show m.next + b.bw ≤ m2.next
        rw [post2.next]; show m.next + b.bw ≤ m.next + b.bw; omega
      · rw [hwc3]; have := pre.wlt; show _ ≤ m2.next; rw [post2.next]
        show wcur m + c.bw ≤ m.next + b.bw; omega
      · intro i j hi hj
        rw [hwc3, hrc3]
        have := pre.wlt
        omega
    have hsc2 := run_caps s m1 m2 hr2
    have cap3 : Cap m3 t := by
      refine ⟨?_, ?_⟩
      · show m2.next + extraCells t ≤ m2.cap
        rw [post2.next, hsc2.1]; show m.next + b.bw + extraCells t ≤ m.cap; omega
      · show m.write.length + (rf :: m2.read).length + extraFrames t ≤ m2.fcap
        rw [post2.read, hsc2.2]
        show m.write.length + (rf :: m.read).length + extraFrames t ≤ m.fcap
        simp only [List.length_cons]; omega
    have h3 := iht m3 x pre3 cap3
    unfold Spec at h3
    simp only [Option.bind]
    rw [hr2, ok_bind, hmv, ok_bind]
    cases het : eval t x with
    | none =>
      rw [het] at h3
      rw [h3]; rfl
    | some y =>
      rw [het] at h3
      obtain ⟨m4, hr4, post4⟩ := h3
      rw [hr4, ok_bind]
      have hrd4 : m4.read = rf :: m.read := by
        rw [post4.read]; show rf :: m2.read = _; rw [post2.read]
      have hn4 : m4.next = m.next + b.bw := by rw [post4.next]; show m2.next = _; rw [post2.next]
      refine ⟨{ m4 with read := m.read, next := m.next }, ?_, ?_⟩
      · simp [dropRead, hrd4, hn4, rf, nf]
      · refine ⟨rfl, rfl, ?_, ?_, ?_⟩
        · show m4.write = _; rw [post4.write]
        · have := post4.enc; rw [hwc3] at this; exact this
        · intro i hi hout
          show m4.cells i = m.cells i
          rw [post4.frame i (by show i < m2.next; rw [post2.next]; show i < m.next + b.bw; omega)
            (by rw [hwc3]; exact hout)]
          show m2.cells i = m.cells i
          rw [post2.frame i (by show i < m.next + b.bw; omega)
            (by intro j hj; show i ≠ m.next + j; omega)]


theorem wcur_adv (m : M) (n : Nat) (h : n ≠ 0 → m.write ≠ []) :
    (match advW n m.write with | [] => 0 | w :: _ => w.cursor) = wcur m + n := by
  cases hw : m.write with
  | nil =>
    have : n = 0 := by
      by_cases h0 : n = 0
      · exact h0
      · exact absurd hw (h h0)
    simp [advW, wcur, hw, this]
  | cons w ws => simp [advW, wcur, hw]

theorem spec_pair {a b c : Ty} (s : Term a b) (t : Term a c)
    (ihs : ∀ m v, Pre m a b v → Cap m s → Spec s m v) (iht : ∀ m v, Pre m a c v → Cap m t → Spec t m v)
    (m : M) (v : Val) (pre : Pre m a (.prod b c) v) (hcap : Cap m (Term.pair s t)) :
    Spec (Term.pair s t) m v := by
  have hec : extraCells (Term.pair s t) = max (extraCells s) (extraCells t) := rfl
  have hef : extraFrames (Term.pair s t) = max (extraFrames s) (extraFrames t) := rfl
  have hcc := hcap.cells
  have hcf := hcap.frames
  rw [hec] at hcc
  rw [hef] at hcf
  unfold Spec
  simp only [eval, run]
  have hbc : (Ty.prod b c).bw = b.bw + c.bw := rfl
  have pre1 : Pre m a b v := by
    refine ⟨pre.enc, pre.hr, fun h => pre.hw (by rw [hbc]; omega), pre.rlt, ?_, ?_⟩
    · have := pre.wlt; rw [hbc] at this; omega
    · intro i j hi hj; exact pre.disj i j hi (by rw [hbc]; omega)
  have h1 := ihs m v pre1 ⟨by omega, by omega⟩
  unfold Spec at h1
  cases hes : eval s v with
  | none =>
    rw [hes] at h1
    simp only [Option.bind]
    rw [h1]; rfl
  | some x =>
    rw [hes] at h1
    obtain ⟨m1, hr1, post1⟩ := h1
    have hsc1 := run_caps s m m1 hr1
    have cap1 : Cap m1 t := by
      refine ⟨by rw [post1.next, hsc1.1]; omega, ?_⟩
      rw [post1.read, post1.write, hsc1.2]
      have : (advW b.bw m.write).length = m.write.length := by cases m.write <;> simp [advW]
      rw [this]; omega
    have hwc1 : wcur m1 = wcur m + b.bw := by
      unfold wcur; rw [post1.write]
      exact wcur_adv m b.bw (fun h => pre.hw (by rw [hbc]; omega))
    have hrc1 : rcur m1 = rcur m := by unfold rcur; rw [post1.read]
    have pre2 : Pre m1 a c v := by
      refine ⟨?_, ?_, ?_, ?_, ?_, ?_⟩
      · have : slice m1.cells (rcur m1) a.bw = slice m.cells (rcur m) a.bw := by
          rw [hrc1]
          apply slice_eq_of
          intro i hi
          apply post1.frame
          · have := pre.rlt; omega
          · intro j hj; exact pre.disj i j hi (by rw [hbc]; omega)
        rw [this]; exact pre.enc
      · rw [post1.read]; exact pre.hr
      · intro h
        have := pre.hw (by rw [hbc]; omega)
        rw [post1.write]
        cases hw : m.write with
        | nil => exact absurd hw this
        | cons w ws => simp [advW]
      · rw [hrc1, post1.next]; exact pre.rlt
      · rw [hwc1, post1.next]; have := pre.wlt; rw [hbc] at this; omega
      · intro i j hi hj
        rw [hrc1, hwc1]
        have := pre.disj i (b.bw + j) hi (by rw [hbc]; omega)
        omega
    have h2 := iht m1 v pre2 cap1
    unfold Spec at h2
    simp only [Option.bind]
    rw [hr1, ok_bind]
    cases het : eval t v with
    | none =>
      rw [het] at h2
      simp only [Option.map]
      exact h2
    | some y =>
      rw [het] at h2
      obtain ⟨m2, hr2, post2⟩ := h2
      simp only [Option.map]
      refine ⟨m2, hr2, ?_⟩
      refine ⟨by rw [post2.read, post1.read], by rw [post2.next, post1.next], ?_, ?_, ?_⟩
      · rw [post2.write, post1.write, advW_advW]; rfl
      · rw [hbc, slice_add]
        have e2 := post2.enc
        rw [hwc1] at e2
        have e1 : Enc b x (slice m2.cells (wcur m) b.bw) := by
          have : slice m2.cells (wcur m) b.bw = slice m1.cells (wcur m) b.bw := by
            apply slice_eq_of
            intro i hi
            apply post2.frame
            · rw [post1.next]; have := pre.wlt; rw [hbc] at this; omega
            · intro j hj; rw [hwc1]; omega
          rw [this]; exact post1.enc
        exact Enc.pair e1 e2
      · intro i hi hout
        rw [post2.frame i (by rw [post1.next]; exact hi)
          (by intro j hj; rw [hwc1]; have := hout (b.bw + j) (by rw [hbc]; omega); omega)]
        exact post1.frame i hi (by intro j hj; exact hout j (by rw [hbc]; omega))


theorem Enc.prod_inv {a b v bs} (h : Enc (.prod a b) v bs) :
    ∃ x y bx by', v = .pair x y ∧ bs = bx ++ by' ∧ Enc a x bx ∧ Enc b y by' := by
  cases h with
  | pair h1 h2 => exact ⟨_, _, _, _, rfl, rfl, h1, h2⟩

theorem Enc.sum_inv {a b v bs} (h : Enc (.sum a b) v bs) :
    (∃ x pad bx, v = .inl x ∧ bs = false :: (pad ++ bx) ∧ pad.length = padL a b ∧ Enc a x bx) ∨
    (∃ y pad bx, v = .inr y ∧ bs = true :: (pad ++ bx) ∧ pad.length = padR a b ∧ Enc b y bx) := by
  cases h with
  | inl h1 hp => exact .inl ⟨_, _, _, rfl, rfl, hp, h1⟩
  | inr h1 hp => exact .inr ⟨_, _, _, rfl, rfl, hp, h1⟩

def advR (n : Nat) : List Frame → List Frame
  | [] => []
  | r :: rs => { r with cursor := r.cursor + n } :: rs

def mfwd (n : Nat) (m : M) : M := { m with read := advR n m.read }

theorem fwd_spec (n : Nat) (m : M) (h : n ≠ 0 → m.read ≠ []) : fwd n m = .ok (mfwd n m) := by
  cases hr : m.read with
  | nil =>
    have : n = 0 := by
      by_cases h0 : n = 0
      · exact h0
      · exact absurd hr (h h0)
    subst this
    cases m; simp at hr; subst hr; simp [fwd, mfwd, advR]
  | cons r rs => rw [fwd_cons n m r rs hr]; simp [mfwd, advR, hr]

theorem rcur_mfwd (n : Nat) (m : M) (h : n ≠ 0 → m.read ≠ []) : rcur (mfwd n m) = rcur m + n := by
  cases hr : m.read with
  | nil =>
    have : n = 0 := by
      by_cases h0 : n = 0
      · exact h0
      · exact absurd hr (h h0)
    simp [rcur, mfwd, advR, hr, this]
  | cons r rs => simp [rcur, mfwd, advR, hr]

/-- going back after a sub-run that restored the read stack -/
theorem back_after (n : Nat) (m m' : M) (h : n ≠ 0 → m.read ≠ []) (hrd : m'.read = (mfwd n m).read) :
    back n m' = .ok { m' with read := m.read } := by
  cases hr : m.read with
  | nil =>
    have : n = 0 := by
      by_cases h0 : n = 0
      · exact h0
      · exact absurd hr (h h0)
    subst this
    have : m'.read = [] := by rw [hrd]; simp [mfwd, advR, hr]
    cases m'; simp at this; subst this; simp [back]
  | cons r rs =>
    have : m'.read = { r with cursor := r.cursor + n } :: rs := by rw [hrd]; simp [mfwd, advR, hr]
    rw [back_cons n m' _ rs this]
    simp

/-- run a sub-term with the read cursor moved forward by `n`, then move it back -/
theorem spec_shift {a' c : Ty} (t : Term a' c) (n : Nat) (m : M) (y : Val)
    (iht : ∀ m v, Pre m a' c v → Cap m t → Spec t m v)
    (hn : n ≠ 0 → m.read ≠ [])
    (pre' : Pre (mfwd n m) a' c y) (hcap : Cap m t) :
    match eval t y with
    | some out => ∃ m', (fwd n m >>= fun m => run t m >>= fun m => back n m) = .ok m' ∧
        m'.read = m.read ∧ m'.next = m.next ∧ m'.write = advW c.bw m.write ∧
        Enc c out (slice m'.cells (wcur m) c.bw) ∧
        (∀ i, i < m.next → (∀ j, j < c.bw → i ≠ wcur m + j) → m'.cells i = m.cells i)
    | none => (fwd n m >>= fun m => run t m >>= fun m => back n m) = .error .fail := by
  have cap' : Cap (mfwd n m) t := by
    refine ⟨hcap.cells, ?_⟩
    have : (advR n m.read).length = m.read.length := by cases m.read <;> simp [advR]
    show m.write.length + (advR n m.read).length + extraFrames t ≤ m.fcap
    rw [this]; exact hcap.frames
  have h := iht _ y pre' cap'
  unfold Spec at h
  rw [fwd_spec n m hn, ok_bind]
  cases he : eval t y with
  | none => rw [he] at h; show (run t (mfwd n m) >>= _) = _; rw [h]; rfl
  | some out =>
    rw [he] at h
    obtain ⟨m2, hr2, post⟩ := h
    show ∃ m', (run t (mfwd n m) >>= _) = _ ∧ _
    rw [hr2, ok_bind, back_after n m m2 hn post.read]
    exact ⟨_, rfl, rfl, post.next, post.write, post.enc, post.frame⟩

theorem spec_take {a b c : Ty} (t : Term a c) (iht : ∀ m v, Pre m a c v → Cap m t → Spec t m v)
    (m : M) (v : Val) (pre : Pre m (.prod a b) c v) (hcap : Cap m (Term.take (b := b) t)) :
    Spec (Term.take (b := b) t) m v := by
  obtain ⟨x, y, bx, by', rfl, hbs, hx, hy⟩ := pre.enc.prod_inv
  have hab : (Ty.prod a b).bw = a.bw + b.bw := rfl
  rw [hab] at hbs
  have hsp := slice_split hbs hx.length
  have pre' : Pre m a c x := by
    refine ⟨by rw [← hsp.1]; exact hx, fun h => pre.hr (by rw [hab]; omega), pre.hw, ?_, pre.wlt, ?_⟩
    · have := pre.rlt; rw [hab] at this; omega
    · intro i j hi hj; exact pre.disj i j (by rw [hab]; omega) hj
  have := iht m x pre' ⟨hcap.cells, hcap.frames⟩
  unfold Spec at this ⊢
  simpa [eval, run] using this

theorem spec_drop {a b c : Ty} (t : Term b c) (iht : ∀ m v, Pre m b c v → Cap m t → Spec t m v)
    (m : M) (v : Val) (pre : Pre m (.prod a b) c v) (hcap : Cap m (Term.drop (a := a) t)) :
    Spec (Term.drop (a := a) t) m v := by
  obtain ⟨x, y, bx, by', rfl, hbs, hx, hy⟩ := pre.enc.prod_inv
  have hab : (Ty.prod a b).bw = a.bw + b.bw := rfl
  rw [hab] at hbs
  have hsp := slice_split hbs hx.length
  have hn : a.bw ≠ 0 → m.read ≠ [] := fun h => pre.hr (by rw [hab]; omega)
  have hrc := rcur_mfwd a.bw m hn
  have pre' : Pre (mfwd a.bw m) b c y := by
    refine ⟨?_, ?_, pre.hw, ?_, pre.wlt, ?_⟩
    · rw [hrc]; show Enc b y (slice m.cells _ _); rw [← hsp.2]; exact hy
    · intro h
      have := pre.hr (by rw [hab]; omega)
      cases hr : m.read with
      | nil => exact absurd hr this
      | cons r rs => simp [mfwd, advR, hr]
    · rw [hrc]; have := pre.rlt; rw [hab] at this; show _ ≤ m.next; omega
    · intro i j hi hj
      rw [hrc]
      have := pre.disj (a.bw + i) j (by rw [hab]; omega) hj
      show rcur m + a.bw + i ≠ wcur m + j
      omega
  have := spec_shift t a.bw m y iht hn pre' ⟨hcap.cells, hcap.frames⟩
  unfold Spec
  simp only [eval, run]
  cases he : eval t y with
  | none => rw [he] at this; exact this
  | some out =>
    rw [he] at this
    obtain ⟨m', hr', h1, h2, h3, h4, h5⟩ := this
    exact ⟨m', hr', ⟨h1, h2, h3, h4, h5⟩⟩


theorem spec_case {a b c d : Ty} (s : Term (.prod a c) d) (t : Term (.prod b c) d)
    (ihs : ∀ m v, Pre m (.prod a c) d v → Cap m s → Spec s m v)
    (iht : ∀ m v, Pre m (.prod b c) d v → Cap m t → Spec t m v)
    (m : M) (v : Val) (pre : Pre m (.prod (.sum a b) c) d v) (hcap : Cap m (Term.case s t)) :
    Spec (Term.case s t) m v := by
  have hec : extraCells (Term.case s t) = max (extraCells s) (extraCells t) := rfl
  have hef : extraFrames (Term.case s t) = max (extraFrames s) (extraFrames t) := rfl
  have hcc := hcap.cells
  have hcf := hcap.frames
  rw [hec] at hcc
  rw [hef] at hcf
  obtain ⟨u, z, bu, bz, rfl, hbs, hu, hz⟩ := pre.enc.prod_inv
  have hsrc : (Ty.prod (.sum a b) c).bw = (1 + max a.bw b.bw) + c.bw := rfl
  have hne : (Ty.prod (.sum a b) c).bw ≠ 0 := by rw [hsrc]; omega
  obtain ⟨r, rs, hrd⟩ := List.exists_cons_of_ne_nil (pre.hr hne)
  have hrc := rcur_cons m r rs hrd
  rw [hsrc] at hbs
  have hsp := slice_split hbs (by rw [hu.length]; rfl)
  have hpk : peek m = .ok (m.cells (rcur m)) := by
    have h1 := pre.rlt
    rw [hsrc, hrc] at h1
    have : r.cursor < m.cap := by omega
    simp [peek, hrd, hrc, this]
  unfold Spec
  simp only [run]
  rw [hpk, ok_bind]
  rcases hu.sum_inv with ⟨x, pad, bx, rfl, hbu, hpl, hx⟩ | ⟨y, pad, bx, rfl, hbu, hpl, hy⟩
  · -- left branch
    have htag : m.cells (rcur m) = false := by
      have := hsp.1; rw [hbu] at this
      have h2 : slice m.cells (rcur m) (1 + max a.bw b.bw) =
          m.cells (rcur m) :: slice m.cells (rcur m + 1) (max a.bw b.bw) := by
        rw [Nat.add_comm]; rfl
      rw [h2] at this
      exact (List.cons.inj this).1.symm
    rw [htag]
    simp only [Bool.false_eq_true, if_false, eval]
    have hn : 1 + padL a b ≠ 0 → m.read ≠ [] := fun _ => by simp [hrd]
    have hrc' := rcur_mfwd (1 + padL a b) m hn
    have hmax : max a.bw b.bw = padL a b + a.bw := (pad_bw_l a b).symm
    have pre' : Pre (mfwd (1 + padL a b) m) (.prod a c) d (.pair x z) := by
      refine ⟨?_, fun _ => by simp [mfwd, advR, hrd], pre.hw, ?_, pre.wlt, ?_⟩
      · rw [hrc']
        show Enc (.prod a c) (.pair x z) (slice m.cells _ (a.bw + c.bw))
        rw [slice_add]
        -- bx sits after tag and padding
        have h1 := hsp.1
        rw [hbu, hmax, show 1 + (padL a b + a.bw) = (1 + padL a b) + a.bw by omega, slice_add] at h1
        have h1' : (false :: pad) ++ bx = slice m.cells (rcur m) (1 + padL a b) ++
            slice m.cells (rcur m + (1 + padL a b)) a.bw := by simpa using h1
        have h2 := List.append_inj h1' (by simp [hpl]; omega)
        have hbz := hsp.2
        rw [← h2.2]
        have : rcur m + (1 + padL a b) + a.bw = rcur m + (1 + max a.bw b.bw) := by rw [hmax]; omega
        rw [this, ← hbz]
        exact Enc.pair hx hz
      · rw [hrc']; have := pre.rlt; rw [hsrc] at this
        show rcur m + (1 + padL a b) + (a.bw + c.bw) ≤ m.next
        omega
      · intro i j hi hj
        rw [hrc']
        have hi' : i < a.bw + c.bw := hi
        have := pre.disj (1 + padL a b + i) j (by rw [hsrc]; omega) hj
        show rcur m + (1 + padL a b) + i ≠ wcur m + j
        omega
    have := spec_shift s (1 + padL a b) m (.pair x z) ihs hn pre' ⟨by omega, by omega⟩
    cases he : eval s (.pair x z) with
    | none => rw [he] at this; exact this
    | some out =>
      rw [he] at this
      obtain ⟨m', hr', h1, h2, h3, h4, h5⟩ := this
      exact ⟨m', hr', ⟨h1, h2, h3, h4, h5⟩⟩
  · -- right branch
    have htag : m.cells (rcur m) = true := by
      have := hsp.1; rw [hbu] at this
      have h2 : slice m.cells (rcur m) (1 + max a.bw b.bw) =
          m.cells (rcur m) :: slice m.cells (rcur m + 1) (max a.bw b.bw) := by
        rw [Nat.add_comm]; rfl
      rw [h2] at this
      exact (List.cons.inj this).1.symm
    rw [htag]
    simp only [if_true, eval]
    have hn : 1 + padR a b ≠ 0 → m.read ≠ [] := fun _ => by simp [hrd]
    have hrc' := rcur_mfwd (1 + padR a b) m hn
    have hmax : max a.bw b.bw = padR a b + b.bw := (pad_bw_r a b).symm
    have pre' : Pre (mfwd (1 + padR a b) m) (.prod b c) d (.pair y z) := by
      refine ⟨?_, fun _ => by simp [mfwd, advR, hrd], pre.hw, ?_, pre.wlt, ?_⟩
      · rw [hrc']
        show Enc (.prod b c) (.pair y z) (slice m.cells _ (b.bw + c.bw))
        rw [slice_add]
        have h1 := hsp.1
        rw [hbu, hmax, show 1 + (padR a b + b.bw) = (1 + padR a b) + b.bw by omega, slice_add] at h1
        have h1' : (true :: pad) ++ bx = slice m.cells (rcur m) (1 + padR a b) ++
            slice m.cells (rcur m + (1 + padR a b)) b.bw := by simpa using h1
        have h2 := List.append_inj h1' (by simp [hpl]; omega)
        have hbz := hsp.2
        rw [← h2.2]
        have : rcur m + (1 + padR a b) + b.bw = rcur m + (1 + max a.bw b.bw) := by rw [hmax]; omega
        rw [this, ← hbz]
        exact Enc.pair hy hz
      · rw [hrc']; have := pre.rlt; rw [hsrc] at this
        show rcur m + (1 + padR a b) + (b.bw + c.bw) ≤ m.next
        omega
      · intro i j hi hj
        rw [hrc']
        have hi' : i < b.bw + c.bw := hi
        have := pre.disj (1 + padR a b + i) j (by rw [hsrc]; omega) hj
        show rcur m + (1 + padR a b) + i ≠ wcur m + j
        omega
    have := spec_shift t (1 + padR a b) m (.pair y z) iht hn pre' ⟨by omega, by omega⟩
    cases he : eval t (.pair y z) with
    | none => rw [he] at this; exact this
    | some out =>
      rw [he] at this
      obtain ⟨m', hr', h1, h2, h3, h4, h5⟩ := this
      exact ⟨m', hr', ⟨h1, h2, h3, h4, h5⟩⟩

/-- **C05 + C07 (core combinators, bit-cell level).**  If the machine was sized from the static
bounds of `t` (`Cap`) and holds an encoding of `v` at its read cursor (`Pre`), then `run` never
crashes (no cell outside the buffer, no frame beyond the stack capacity — the crash branches of
`newWrite`/`writeBit` are the Rust debug assertions and index panics): it fails exactly when
`eval` fails and otherwise leaves an encoding of `eval t v`. -/
theorem writeBits_spec : ∀ (bs : List Bool) (m : M) (w : Frame) (ws : List Frame),
    m.write = w :: ws → w.cursor + bs.length ≤ m.cap →
    ∃ m', writeBits bs m = .ok m' ∧ m'.read = m.read ∧ m'.next = m.next ∧
      m'.write = { w with cursor := w.cursor + bs.length } :: ws ∧
      slice m'.cells w.cursor bs.length = bs ∧
      ∀ i, (i < w.cursor ∨ w.cursor + bs.length ≤ i) → m'.cells i = m.cells i
  | [], m, w, ws, h, _ => ⟨m, rfl, rfl, rfl, by simpa using h, rfl, fun _ _ => rfl⟩
  | b :: bs, m, w, ws, h, hc => by
    have hc' : w.cursor < m.cap := by simp at hc; omega
    simp only [writeBits]
    rw [writeBit_cons b m w ws h hc', ok_bind]
    obtain ⟨m', hr, h1, h2, h3, h4, h5⟩ := writeBits_spec bs
      { m with cells := upd m.cells w.cursor b, write := { w with cursor := w.cursor + 1 } :: ws }
      { w with cursor := w.cursor + 1 } ws rfl (by simp at hc ⊢; omega)
    refine ⟨m', hr, h1, h2, ?_, ?_, ?_⟩
    · rw [h3]; simp; omega
    · simp only [List.length_cons, slice]
      congr 1
      rw [h5 _ (Or.inl (by simp))]; simp [upd]
    · intro i hi
      rw [h5 i (by simp at hi ⊢; omega)]
      simp only [upd]
      rw [if_neg]
      simp at hi; omega

theorem spec_writeEnc {a b : Ty} (w : Val) (bits : List Bool) (henc : Enc b w bits) (m : M) (v : Val)
    (pre : Pre m a b v) (hcc : m.next ≤ m.cap) :
    ∃ m', writeBits bits m = .ok m' ∧ Post m m' b w := by
  have hlen := henc.length
  by_cases h0 : b.bw = 0
  · have : bits = [] := List.eq_nil_of_length_eq_zero (by omega)
    rw [this]
    refine ⟨m, rfl, rfl, rfl, by simp [h0], ?_, fun _ _ _ => rfl⟩
    rw [h0]; simpa [slice, this] using henc
  · obtain ⟨fw, ws, hwr⟩ := List.exists_cons_of_ne_nil (pre.hw h0)
    have hwc := wcur_cons m fw ws hwr
    have hwl := pre.wlt
    obtain ⟨m', hr, h1, h2, h3, h4, h5⟩ := writeBits_spec (bits) m fw ws hwr (by omega)
    refine ⟨m', hr, h1, h2, ?_, ?_, ?_⟩
    · rw [h3, hwr, hlen]; rfl
    · rw [hwc, ← hlen, h4]; exact henc
    · intro i _ hj
      apply h5
      rw [hlen, ← hwc]
      by_cases hlt : i < wcur m
      · exact Or.inl hlt
      · right
        by_cases hge : wcur m + b.bw ≤ i
        · exact hge
        · exact absurd (show i = wcur m + (i - wcur m) by omega) (hj (i - wcur m) (by omega))

theorem spec_writeVal {a b : Ty} (w : Val) (hw : HasTy w b) (m : M) (v : Val) (pre : Pre m a b v)
    (hcc : m.next ≤ m.cap) :
    ∃ m', writeBits (padded b w) m = .ok m' ∧ Post m m' b w :=
  spec_writeEnc w _ (enc_padded hw) m v pre hcc

theorem spec_jet {a b : Ty} (jf : List Bool → Option (List Bool)) (f : Val → Option Val)
    (hj : JetOK a b jf f) (m : M) (v : Val) (pre : Pre m a b v)
    (hcap : Cap m (Term.jet (a := a) (b := b) jf f)) : Spec (Term.jet (a := a) (b := b) jf f) m v := by
  unfold Spec
  simp only [eval, run]
  have hnc : ¬ ((a.bw ≠ 0 ∧ m.read = []) ∨ m.cap < rcur m + a.bw) := by
    rintro (h | h)
    · exact pre.hr h.1 h.2
    · have := pre.rlt; have := hcap.cells; omega
  rw [if_neg hnc]
  have := hj v _ pre.enc
  cases hf : f v with
  | none => rw [hf] at this; simp only [this]
  | some o =>
    rw [hf] at this
    obtain ⟨out, ho, henc⟩ := this
    simp only [ho]
    exact spec_writeEnc o out henc m v pre (by have := hcap.cells; omega)

theorem spec_witness {a b : Ty} (w : Val) (hw : HasTy w b) (m : M) (v : Val) (pre : Pre m a b v)
    (hcap : Cap m (Term.witness (a := a) (b := b) w)) : Spec (Term.witness (a := a) (b := b) w) m v := by
  unfold Spec
  simp only [eval, run]
  exact spec_writeVal w hw m v pre (by have := hcap.cells; omega)

theorem eval_assertl {a b c d : Ty} (s : Term (.prod a c) d) (v : Val) :
    eval (Term.assertl (b := b) s) v = eval (Term.case s (Term.fail (a := .prod b c))) v := by
  cases v with
  | pair u z => cases u <;> simp [eval]
  | _ => simp [eval]

theorem eval_assertr {a b c d : Ty} (t : Term (.prod b c) d) (v : Val) :
    eval (Term.assertr (a := a) t) v = eval (Term.case (Term.fail (a := .prod a c)) t) v := by
  cases v with
  | pair u z => cases u <;> simp [eval]
  | _ => simp [eval]

theorem run_assertl {a b c d : Ty} (s : Term (.prod a c) d) (m : M) (h : m.read ≠ []) :
    run (Term.assertl (b := b) s) m = run (Term.case s (Term.fail (a := .prod b c))) m := by
  obtain ⟨r, rs, hrd⟩ := List.exists_cons_of_ne_nil h
  simp only [run]
  cases hp : peek m with
  | error e => rfl
  | ok bit =>
    simp only [ok_bind]
    cases bit with
    | false => rfl
    | true => simp [fwd_cons _ m r rs hrd]

theorem run_assertr {a b c d : Ty} (t : Term (.prod b c) d) (m : M) (h : m.read ≠ []) :
    run (Term.assertr (a := a) t) m = run (Term.case (Term.fail (a := .prod a c)) t) m := by
  obtain ⟨r, rs, hrd⟩ := List.exists_cons_of_ne_nil h
  simp only [run]
  cases hp : peek m with
  | error e => rfl
  | ok bit =>
    simp only [ok_bind]
    cases bit with
    | true => rfl
    | false => simp [fwd_cons _ m r rs hrd]

theorem spec_word {a b : Ty} (w : Val) (hw : HasTy w b) (m : M) (v : Val) (pre : Pre m a b v)
    (hcap : Cap m (Term.word (a := a) (b := b) w)) : Spec (Term.word (a := a) (b := b) w) m v := by
  unfold Spec
  simp only [eval, run]
  exact spec_writeVal w hw m v pre (by have := hcap.cells; omega)

/-- what `disconnect` abbreviates -/
def disconnectAs {a b c d : Ty} (w : Ty) (cw : Val) (s : Term (.prod w a) (.prod b c)) (t : Term c d) :
    Term a (.prod b d) :=
  .comp (.pair (.word cw) .iden) (.comp s (.pair (.take .iden) (.drop t)))

theorem eval_disconnect {a b c d : Ty} (w : Ty) (cw : Val) (s : Term (.prod w a) (.prod b c))
    (t : Term c d) (v : Val) : eval (Term.disconnect w cw s t) v = eval (disconnectAs w cw s t) v := by
  simp only [disconnectAs, eval, Option.map, Option.bind]
  cases h : eval s (.pair cw v) with
  | none => rfl
  | some r => cases r <;> simp [eval, Option.bind]

theorem back_dropRead (n : Nat) (m : M) : (back n m >>= dropRead) = dropRead m := by
  unfold back
  by_cases h0 : n = 0
  · simp [h0]
  · rw [if_neg h0]
    cases hr : m.read with
    | nil => simp [dropRead, hr]
    | cons r rs => simp [dropRead, hr]

theorem except_bind_assoc {ε α β γ} (x : Except ε α) (f : α → Except ε β) (g : β → Except ε γ) :
    (x >>= f >>= g) = (x >>= fun a => f a >>= g) := by
  cases x <;> rfl

theorem run_disconnect {a b c d : Ty} (w : Ty) (cw : Val) (s : Term (.prod w a) (.prod b c))
    (t : Term c d) (m : M) : run (Term.disconnect w cw s t) m = run (disconnectAs w cw s t) m := by
  simp only [disconnectAs, run, Ty.bw, except_bind_assoc, back_dropRead]

theorem run_spec : ∀ {a b : Ty} (t : Term a b) (m : M) (v : Val), WT t → Pre m a b v → Cap m t → Spec t m v := by
  intro a b t
  induction t with
  | iden => exact fun m v _ pre hc => spec_iden m v pre (by have := hc.cells; omega)
  | unit =>
    intro m v _ pre _
    exact ⟨m, rfl, rfl, rfl, by simp [Ty.bw], by simpa [Ty.bw, slice] using Enc.unit, fun _ _ _ => rfl⟩
  | @injl a b c t ih =>
    intro m v hwt pre hcap
    have := spec_inj (b := b) (c := c) true t (fun m v => ih m v hwt) m v pre ⟨hcap.cells, hcap.frames⟩
    unfold Spec
    simp only [eval, run]
    cases he : eval t v with
    | none => simpa [he] using this
    | some out => simpa [he] using this
  | @injr a b c t ih =>
    intro m v hwt pre hcap
    have := spec_inj (b := b) (c := c) false t (fun m v => ih m v hwt) m v pre ⟨hcap.cells, hcap.frames⟩
    unfold Spec
    simp only [eval, run]
    cases he : eval t v with
    | none => simpa [he] using this
    | some out => simpa [he] using this
  | take t ih => exact fun m v hwt pre hc => spec_take t (fun m v => ih m v hwt) m v pre hc
  | drop t ih => exact fun m v hwt pre hc => spec_drop t (fun m v => ih m v hwt) m v pre hc
  | comp s t ihs iht =>
    exact fun m v hwt pre hc => spec_comp s t (fun m v => ihs m v hwt.1) (fun m v => iht m v hwt.2) m v pre hc
  | case s t ihs iht =>
    exact fun m v hwt pre hc => spec_case s t (fun m v => ihs m v hwt.1) (fun m v => iht m v hwt.2) m v pre hc
  | pair s t ihs iht =>
    exact fun m v hwt pre hc => spec_pair s t (fun m v => ihs m v hwt.1) (fun m v => iht m v hwt.2) m v pre hc
  | fail => intro m v _ _ _; rfl
  | witness w => exact fun m v hwt pre hc => spec_witness w hwt m v pre hc
  | @assertl a b c d s ih =>
    intro m v hwt pre hc
    have hne : (Ty.prod (.sum a b) c).bw ≠ 0 := by simp [Ty.bw]
    have := spec_case s (Term.fail (a := .prod b c)) (fun m v => ih m v hwt)
      (fun _ _ _ _ => rfl) m v pre
      ⟨by have := hc.cells; simpa [extraCells] using this, by have := hc.frames; simpa [extraFrames] using this⟩
    unfold Spec at this ⊢
    rw [eval_assertl, run_assertl s m (pre.hr hne)]
    exact this
  | @assertr a b c d t ih =>
    intro m v hwt pre hc
    have hne : (Ty.prod (.sum a b) c).bw ≠ 0 := by simp [Ty.bw]
    have := spec_case (Term.fail (a := .prod a c)) t (fun _ _ _ _ => rfl) (fun m v => ih m v hwt)
      m v pre
      ⟨by have := hc.cells; simpa [extraCells] using this, by have := hc.frames; simpa [extraFrames] using this⟩
    unfold Spec at this ⊢
    rw [eval_assertr, run_assertr t m (pre.hr hne)]
    exact this
  | word w => exact fun m v hwt pre hc => spec_word w hwt m v pre hc
  | jet jf f => exact fun m v hwt pre hc => spec_jet jf f hwt m v pre hc
  | @disconnect a b c d w cw s t ihs iht =>
    intro m v hwt pre hc
    have key : Spec (disconnectAs w cw s t) m v := by
      unfold disconnectAs
      apply spec_comp _ _ _ _ m v pre
      · refine ⟨?_, ?_⟩
        · have := hc.cells; simp only [extraCells, Ty.bw] at *; omega
        · have := hc.frames; simp only [extraFrames] at *; omega
      · intro m v pre hc
        apply spec_pair _ _ _ _ m v pre hc
        · exact fun m v pre hc => spec_word cw hwt.1 m v pre hc
        · exact fun m v pre hc => spec_iden m v pre (by have := hc.cells; omega)
      · intro m v pre hc
        apply spec_comp _ _ _ _ m v pre hc
        · exact fun m v => ihs m v hwt.2.1
        · intro m v pre hc
          apply spec_pair _ _ _ _ m v pre hc
          · exact fun m v pre hc => spec_take _ (fun m v pre hc => spec_iden m v pre (by have := hc.cells; omega)) m v pre hc
          · exact fun m v pre hc => spec_drop _ (fun m v => iht m v hwt.2.2) m v pre hc
    unfold Spec at key ⊢
    rw [eval_disconnect, run_disconnect]
    exact key

#print axioms run_spec
end BM4
