import SimplicityModel.Canon
/-
Spike: C17 — the rendered statement list of a named program resolves back to the program:
one line per node object (post-order, pointer sharing), children referred to by name.
-/
namespace PO

/-- a rendered line: the node's name, its combinator payload, the names of its children
(`N` = names, `P` = payloads: combinator, literal data, arrow) -/
structure Line (N P : Type) where
  name : N
  payload : P
  left : Option N
  right : Option N
deriving DecidableEq, Repr

/-- program text modulo layout: what `resolve` rebuilds -/
inductive Tree (P : Type) | leaf (p : P) | un (p : P) (l : Tree P) | bin (p : P) (l r : Tree P)
deriving DecidableEq, Repr

variable {N P : Type} [DecidableEq N] (name : T → N) (payload : T → P)

def lineOf (t : T) : Line N P := ⟨name t, payload t, t.left.map name, t.right.map name⟩

/-- `string_serialize`: one line per yielded item of the pointer-sharing post-order walk -/
def render (root : T) : List (Line N P) := (visit ptr root (fun _ => none) 0).1.map fun o => lineOf name payload o.node

def shapeOf : T → Tree P
  | .leaf id => .leaf (payload (.leaf id))
  | .un id l => .un (payload (.un id l)) (shapeOf l)
  | .bin id l r => .bin (payload (.bin id l r)) (shapeOf l) (shapeOf r)

/-- `resolve`: look a name up among the lines and rebuild, with fuel -/
def resolve (lines : List (Line N P)) : Nat → N → Option (Tree P)
  | 0, _ => none
  | f+1, n =>
    match lines.find? (·.name = n) with
    | none => none
    | some ln =>
      match ln.left, ln.right with
      | none, _ => some (.leaf ln.payload)
      | some a, none => (resolve lines f a).map (.un ln.payload)
      | some a, some b =>
        match resolve lines f a, resolve lines f b with
        | some x, some y => some (.bin ln.payload x y)
        | _, _ => none

def T.depth : T → Nat
  | .leaf _ => 1
  | .un _ l => l.depth + 1
  | .bin _ l r => max l.depth r.depth + 1

/-- names identify node objects: within the program, equal names mean the same object
(`Namer` hands out one fresh name per converted object) -/
def NamesFaithful (root : T) : Prop :=
  ∀ a c, Desc root a → Desc root c → name a = name c → a = c

/-- the handle tree is the unfolding of a pointer DAG: one pointer, one sub-DAG -/
def IdsFaithful (root : T) : Prop :=
  ∀ a c, Desc root a → Desc root c → a.id = c.id → a = c

theorem Desc.trans {a b c : T} (h1 : Desc a b) (h2 : Desc b c) : Desc a c := by
  induction h1 with
  | refl => exact h2
  | left hl _ ih => exact .left hl (ih h2)
  | right hl _ ih => exact .right hl (ih h2)

theorem same_ptr_eq (root : T) (hi : IdsFaithful root) {a c : T} (ha : Desc root a) (hc : Desc root c)
    (h : Same ptr a c) : a = c := by
  rcases h with rfl | ⟨k, h1, h2⟩
  · rfl
  · simp only [ptr, Option.some.injEq] at h1 h2
    exact hi a c ha hc (by omega)

/-- every node object of the program is yielded (as itself) by the walk -/
theorem yielded (root : T) (hi : IdsFaithful root) {t : T} (ht : Desc root t) :
    ∃ o ∈ (visit ptr root (fun _ => none) 0).1, o.node = t := by
  obtain ⟨hinv, _, ⟨o0, ho0, hs0⟩⟩ := visit_root ptr root
  have hdesc := visit_desc ptr root (fun _ => none) 0
  have key : ∀ p d, Desc p d → Desc root p →
      (∃ o ∈ (visit ptr root (fun _ => none) 0).1, o.node = p) →
      ∃ o ∈ (visit ptr root (fun _ => none) 0).1, o.node = d := by
    intro p d hd
    induction hd with
    | refl t => exact fun _ h => h
    | @left p c d hl _ ih =>
      intro hp ⟨o, ho, hop⟩
      apply ih (hp.trans (.left hl (.refl c)))
      obtain ⟨i, hi'⟩ := List.getElem?_of_mem ho
      have hk := (hinv.kids i o hi').1
      rw [hop, hl] at hk
      obtain ⟨j, _, _, o', ho', hs'⟩ := hk
      have ho'm := List.mem_of_getElem? ho'
      exact ⟨o', ho'm, same_ptr_eq root hi (hdesc o' ho'm) (hp.trans (.left hl (.refl c))) hs'⟩
    | @right p c d hl _ ih =>
      intro hp ⟨o, ho, hop⟩
      apply ih (hp.trans (.right hl (.refl c)))
      obtain ⟨i, hi'⟩ := List.getElem?_of_mem ho
      have hk := (hinv.kids i o hi').2
      rw [hop, hl] at hk
      obtain ⟨j, _, _, o', ho', hs'⟩ := hk
      have ho'm := List.mem_of_getElem? ho'
      exact ⟨o', ho'm, same_ptr_eq root hi (hdesc o' ho'm) (hp.trans (.right hl (.refl c))) hs'⟩
  have h0m := List.mem_of_getElem? ho0
  exact key root t ht (.refl root)
    ⟨o0, h0m, same_ptr_eq root hi (hdesc o0 h0m) (.refl root) hs0⟩

theorem find_map {α β : Type} (f : α → β) (q : β → Bool) (v : β) :
    ∀ (l : List α), (∃ x ∈ l, q (f x) = true) → (∀ x ∈ l, q (f x) = true → f x = v) →
    (l.map f).find? q = some v
  | [], h, _ => by obtain ⟨x, hx, _⟩ := h; cases hx
  | a :: l, h, hv => by
    simp only [List.map_cons, List.find?_cons]
    cases hq : q (f a) with
    | true => simp [hv a (by simp) hq]
    | false =>
      simp only []
      apply find_map f q v l
      · obtain ⟨x, hx, hqx⟩ := h
        rcases List.mem_cons.1 hx with rfl | hx'
        · rw [hq] at hqx; cases hqx
        · exact ⟨x, hx', hqx⟩
      · exact fun x hx => hv x (by simp [hx])

/-- looking a node's name up among the rendered lines finds that node's line -/
theorem find_line (root : T) (hi : IdsFaithful root) (hn : NamesFaithful name root) (t : T)
    (ht : Desc root t) :
    (render name payload root).find? (·.name = name t) = some (lineOf name payload t) := by
  unfold render
  apply find_map (fun o : Out => lineOf name payload o.node) (fun ln => decide (ln.name = name t))
  · obtain ⟨o, ho, hot⟩ := yielded root hi ht
    exact ⟨o, ho, by simp [lineOf, hot]⟩
  · intro o ho hq
    have hq' : name o.node = name t := of_decide_eq_true hq
    have := hn o.node t (visit_desc ptr root (fun _ => none) 0 o ho) ht hq'
    rw [this]

/-- **C17, abstract layer**: resolving the rendered lines from a node's name rebuilds that node -/
theorem resolve_render (root : T) (hi : IdsFaithful root) (hn : NamesFaithful name root) :
    ∀ (t : T), Desc root t → ∀ f, t.depth ≤ f →
      resolve (render name payload root) f (name t) = some (shapeOf payload t) := by
  intro t
  induction t with
  | leaf id =>
    intro ht f hf
    cases f with
    | zero => simp [T.depth] at hf
    | succ f =>
      simp only [resolve]
      rw [find_line name payload root hi hn _ ht]
      simp [lineOf, T.left, shapeOf]
  | un id l ih =>
    intro ht f hf
    cases f with
    | zero => simp [T.depth] at hf
    | succ f =>
      simp only [resolve]
      rw [find_line name payload root hi hn _ ht]
      simp only [lineOf, T.left, T.right, Option.map_some, Option.map_none]
      rw [ih (ht.trans (.left rfl (.refl l))) f (by simp only [T.depth] at hf; omega)]
      simp [shapeOf]
  | bin id l r ihl ihr =>
    intro ht f hf
    cases f with
    | zero => simp [T.depth] at hf
    | succ f =>
      simp only [resolve]
      rw [find_line name payload root hi hn _ ht]
      simp only [lineOf, T.left, T.right, Option.map_some]
      rw [ihl (ht.trans (.left rfl (.refl l))) f (by simp only [T.depth] at hf; omega),
        ihr (ht.trans (.right rfl (.refl r))) f (by simp only [T.depth] at hf; omega)]
      simp [shapeOf]

/-- every name is defined exactly once in the rendered text -/
theorem render_names_unique (root : T) (hi : IdsFaithful root) (hn : NamesFaithful name root)
    (i j : Nat) (a b : Line N P) (ha : (render name payload root)[i]? = some a)
    (hb : (render name payload root)[j]? = some b) (hab : a.name = b.name) : i = j := by
  unfold render at ha hb
  rw [List.getElem?_map] at ha hb
  obtain ⟨hinv, _, _⟩ := visit_root ptr root
  cases hoa : (visit ptr root (fun _ => none) 0).1[i]? with
  | none => rw [hoa] at ha; cases ha
  | some oa =>
    cases hob : (visit ptr root (fun _ => none) 0).1[j]? with
    | none => rw [hob] at hb; cases hb
    | some ob =>
      rw [hoa] at ha; rw [hob] at hb
      simp only [Option.map_some, Option.some.injEq] at ha hb
      subst ha hb
      simp only [lineOf] at hab
      have hda := visit_desc ptr root (fun _ => none) 0 oa (List.mem_of_getElem? hoa)
      have hdb := visit_desc ptr root (fun _ => none) 0 ob (List.mem_of_getElem? hob)
      have := hn _ _ hda hdb hab
      exact hinv.unique ptr hoa hob (k := oa.node.id) rfl (by rw [this]; rfl)

#print axioms resolve_render
#print axioms render_names_unique
end PO
