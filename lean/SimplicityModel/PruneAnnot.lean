/-
C08: when the identity-root annotation `ihrs` of a plan is defined.  It is a fold of hash
computations that can only stop at a `disconnect` without second child, a witness node without
bits, or a jet without root — independent of the arrows and of all hash values.  Hence the
annotation of the pruned plan (cases replaced by assertions, pruned witness bits) is defined
whenever the annotation of the plan is.
-/
import SimplicityModel.PrunePipeline
import SimplicityModel.PruneBridge

namespace Prog
open BM4

/-- node `i` can be annotated -/
def annotOK (jetCmr : String → Option Nat) (wit : Nat → Option (List Bool)) (i : Nat) : Node → Bool
  | .disconnect _ none => false
  | .witness => (wit i).isSome
  | .jet name => (jetCmr name).isSome
  | _ => true

theorem imrNode_isSome (jetCmr : String → Option Nat) (wit : Nat → Option (List Bool)) (imr : Nat → Nat)
    (t i : Nat) (nd : Node) : (imrNode jetCmr wit imr t i nd).isSome = annotOK jetCmr wit i nd := by
  cases nd with
  | disconnect a ob => cases ob <;> rfl
  | witness => simp only [imrNode, annotOK, Option.isSome_map]
  | jet name => rfl
  | _ => rfl

theorem ihrs_go_isSome (jetCmr : String → Option Nat) (arrows : Array (Ty × Ty)) (wit : Nat → Option (List Bool)) :
    ∀ (nodes : List Node) (i : Nat) (acc : Array (Nat × Nat)) (c : TmrCache),
      (ihrs.go jetCmr arrows wit i nodes acc c).isSome = true ↔
        ∀ k nd, nodes[k]? = some nd → annotOK jetCmr wit (i + k) nd = true := by
  intro nodes
  induction nodes with
  | nil => intro i acc c; simp [ihrs.go]
  | cons nd rest ih =>
    intro i acc c
    simp only [ihrs.go]
    have hs := imrNode_isSome jetCmr wit (fun j => (acc.getD j (0, 0)).1)
      (tmrC (tmrC c (arrows.getD i (.one, .one)).1).2 (arrows.getD i (.one, .one)).2).1 i nd
    cases hm : imrNode jetCmr wit (fun j => (acc.getD j (0, 0)).1)
        (tmrC (tmrC c (arrows.getD i (.one, .one)).1).2 (arrows.getD i (.one, .one)).2).1 i nd with
    | none =>
      rw [hm] at hs
      simp only [Option.isSome_none, Bool.false_eq_true, false_iff]
      intro h
      have := h 0 nd (by simp)
      simp only [Nat.add_zero] at this
      rw [← hs] at this
      cases this
    | some m =>
      rw [hm] at hs
      simp only []
      rw [ih]
      constructor
      · intro h k nd' hk
        cases k with
        | zero =>
          simp only [List.getElem?_cons_zero, Option.some.injEq] at hk
          subst hk
          simp only [Nat.add_zero]
          rw [← hs]; rfl
        | succ k =>
          simp only [List.getElem?_cons_succ] at hk
          have := h k nd' hk
          have e : i + 1 + k = i + (k + 1) := by omega
          rwa [e] at this
      · intro h k nd' hk
        have := h (k + 1) nd' (by simpa using hk)
        have e : i + 1 + k = i + (k + 1) := by omega
        rwa [e]

theorem ihrs_isSome (jetCmr : String → Option Nat) (p : Plan) (arrows : Array (Ty × Ty))
    (wit : Nat → Option (List Bool)) :
    (ihrs jetCmr p arrows wit).isSome = true ↔ ∀ i nd, p[i]? = some nd → annotOK jetCmr wit i nd = true := by
  unfold ihrs
  rw [ihrs_go_isSome]
  constructor
  · intro h i nd hnd
    have := h i nd (by simpa using hnd)
    simpa using this
  · intro h k nd hk
    have := h k nd (by simpa using hk)
    simpa using this

theorem annotOK_pruneNode (jetCmr : String → Option Nat) (wit : Nat → Option (List Bool)) (S : List (Nat × Bool))
    (id : Nat) (cm : Nat → Nat) (i : Nat) (nd : Node) :
    annotOK jetCmr wit i (pruneNode S id cm nd) = annotOK jetCmr wit i nd := by
  cases nd with
  | case a b =>
    simp only [pruneNode]
    cases decide ((id, false) ∈ S) <;> cases decide ((id, true) ∈ S) <;> rfl
  | _ => rfl

theorem witOfList_isSome (ws : List (Nat × List Bool)) (wit : Nat → Option (List Bool)) (i : Nat)
    (h : (wit i).isSome = true) : (witOfList ws wit i).isSome = true := by
  unfold witOfList
  split
  · rfl
  · exact h

/-- the annotation of the pruned plan is defined whenever the annotation of the plan is -/
theorem ihrs_pruned_isSome (jetCmr : String → Option Nat) (p : Plan) (arrows a1 : Array (Ty × Ty))
    (wit : Nat → Option (List Bool)) (S : List (Nat × Bool)) (ids : Nat → Nat) (cm : Nat → Nat)
    (ws : List (Nat × List Bool)) (h : (ihrs jetCmr p arrows wit).isSome = true) :
    (ihrs jetCmr (prunePlan S ids cm p) a1 (witOfList ws wit)).isSome = true := by
  rw [ihrs_isSome] at h ⊢
  intro i nd' hnd'
  rw [prunePlan_getElem?] at hnd'
  cases hnd : p[i]? with
  | none => rw [hnd] at hnd'; cases hnd'
  | some nd =>
    rw [hnd] at hnd'
    simp only [Option.map_some, Option.some.injEq] at hnd'
    subst hnd'
    rw [annotOK_pruneNode]
    have := h i nd hnd
    cases nd with
    | witness => exact witOfList_isSome ws wit i this
    | disconnect a ob => cases ob <;> exact this
    | _ => exact this

end Prog
