/-
C12 — principal types without type variables.

`Prog.infer` / `Routes.inferCut` / `Prog.inferM` return the least solution of a list of equations
over numbered variables.  To compare the types of one program under two numberings of its nodes
(the pruned program on the indices of the unpruned plan vs. the same program as the decoder
rebuilds it) the variables are eliminated:

* `Typing`            an arrows array satisfies the typing rule (`NodeRule`) at every selected node
                      and gives a program's root the arrow `1 → 1`.
* `nodeRule_of_eqns`  (`RoutesRules.lean`) solution ⇒ typing;
  `sol_of_typing`     typing ⇒ solution with the same arrows (fresh variables filled in from the
                      existential witnesses of the rules);
* `inferM_least`      hence what inference returns is below every typing (`Routes.Le`,
                      componentwise), and is itself a typing (`inferM_typing`): the *least typing*,
                      a notion that does not mention variables or the order of the nodes.
-/
import SimplicityModel.RoutesRules

set_option linter.unusedSimpArgs false

namespace Routes
open BM4 Prog
open Inf (Eqn)

/-! ### variables of the equations of a node -/

/-- all variables of the equations are below `f` -/
def VarsLt (f : Nat) (E : List Eqn) : Prop :=
  ∀ e ∈ E, ∀ x, (e.1.occurs x = true ∨ e.2.occurs x = true) → x < f

theorem tmOfTy_occurs (t : Ty) (x : Nat) : (tmOfTy t).occurs x = false := by
  induction t with
  | one => rfl
  | sum a b iha ihb => simp [tmOfTy, Inf.Tm.occurs, iha, ihb]
  | prod a b iha ihb => simp [tmOfTy, Inf.Tm.occurs, iha, ihb]

theorem eval_tmOfTy (ρ : Nat → Inf.Ty) (t : Ty) : (tmOfTy t).eval ρ = infOfTy t := by
  induction t with
  | one => rfl
  | sum a b iha ihb => simp [tmOfTy, Inf.Tm.eval, infOfTy, iha, ihb]
  | prod a b iha ihb => simp [tmOfTy, Inf.Tm.eval, infOfTy, iha, ihb]

theorem nodeEqns_mono {jt : JetTypes} {i : Nat} {nd : Node} {f : Nat} {es : List Eqn} {f' : Nat}
    (hn : nodeEqns jt i nd f = some (es, f')) : f ≤ f' := by
  cases nd with
  | disconnect x oy =>
    cases oy <;>
      (simp only [nodeEqns, Option.some.injEq, Prod.mk.injEq] at hn; obtain ⟨_, rfl⟩ := hn; omega)
  | jet name =>
    simp only [nodeEqns, Option.map_eq_some_iff, Prod.mk.injEq] at hn
    obtain ⟨_, _, _, rfl⟩ := hn
    omega
  | _ => simp only [nodeEqns, Option.some.injEq, Prod.mk.injEq] at hn; obtain ⟨_, rfl⟩ := hn; omega

theorem nodeEqns_varsLt {jt : JetTypes} {i : Nat} {nd : Node} {f : Nat} {es : List Eqn} {f' : Nat}
    (hn : nodeEqns jt i nd f = some (es, f')) (hi : 2 * i + 1 < f)
    (hch : ∀ c ∈ nd.children, 2 * c + 1 < f) : VarsLt f' es := by
  cases nd with
  | disconnect x oy =>
    cases oy <;>
      (simp only [nodeEqns, Option.some.injEq, Prod.mk.injEq] at hn
       obtain ⟨rfl, rfl⟩ := hn
       simp only [Node.children, List.mem_cons, List.not_mem_nil, or_false, forall_eq_or_imp,
         forall_eq] at hch
       intro e he x hx
       simp only [List.mem_cons, List.not_mem_nil, or_false] at he
       rcases he with rfl | rfl | rfl | rfl <;>
         (simp only [src, tgt, Inf.Tm.occurs, tmOfTy_occurs, Bool.or_eq_true, decide_eq_true_eq,
            Bool.false_eq_true, false_or, or_false] at hx; omega))
  | jet name =>
    simp only [nodeEqns, Option.map_eq_some_iff, Prod.mk.injEq] at hn
    obtain ⟨⟨s, t⟩, _, rfl, rfl⟩ := hn
    intro e he x hx
    simp only [List.mem_cons, List.not_mem_nil, or_false] at he
    rcases he with rfl | rfl <;>
      (simp only [src, tgt, Inf.Tm.occurs, tmOfTy_occurs, Bool.or_eq_true, decide_eq_true_eq,
         Bool.false_eq_true, false_or, or_false] at hx; omega)
  | witness | fail _ | hidden _ =>
    simp only [nodeEqns, Option.some.injEq, Prod.mk.injEq] at hn
    obtain ⟨rfl, rfl⟩ := hn
    intro e he
    cases he
  | iden | unit =>
    simp only [nodeEqns, Option.some.injEq, Prod.mk.injEq] at hn
    obtain ⟨rfl, rfl⟩ := hn
    intro e he x hx
    simp only [List.mem_cons, List.not_mem_nil, or_false] at he
    subst he
    simp only [src, tgt, Inf.Tm.occurs, tmOfTy_occurs, Bool.or_eq_true, decide_eq_true_eq,
      Bool.false_eq_true, false_or, or_false] at hx
    omega
  | word _ _ =>
    simp only [nodeEqns, Option.some.injEq, Prod.mk.injEq] at hn
    obtain ⟨rfl, rfl⟩ := hn
    intro e he x hx
    simp only [List.mem_cons, List.not_mem_nil, or_false] at he
    rcases he with rfl | rfl <;>
      (simp only [src, tgt, Inf.Tm.occurs, tmOfTy_occurs, Bool.or_eq_true, decide_eq_true_eq,
         Bool.false_eq_true, false_or, or_false] at hx; omega)
  | injl c | injr c | take c | drop c =>
    simp only [nodeEqns, Option.some.injEq, Prod.mk.injEq] at hn
    obtain ⟨rfl, rfl⟩ := hn
    simp only [Node.children, List.mem_cons, List.not_mem_nil, or_false, forall_eq] at hch
    intro e he x hx
    simp only [List.mem_cons, List.not_mem_nil, or_false] at he
    rcases he with rfl | rfl <;>
      (simp only [src, tgt, Inf.Tm.occurs, tmOfTy_occurs, Bool.or_eq_true, decide_eq_true_eq,
         Bool.false_eq_true, false_or, or_false] at hx; omega)
  | comp a b | pair a b =>
    simp only [nodeEqns, Option.some.injEq, Prod.mk.injEq] at hn
    obtain ⟨rfl, rfl⟩ := hn
    simp only [Node.children, List.mem_cons, List.not_mem_nil, or_false, forall_eq_or_imp,
      forall_eq] at hch
    intro e he x hx
    simp only [List.mem_cons, List.not_mem_nil, or_false] at he
    rcases he with rfl | rfl | rfl <;>
      (simp only [src, tgt, Inf.Tm.occurs, tmOfTy_occurs, Bool.or_eq_true, decide_eq_true_eq,
         Bool.false_eq_true, false_or, or_false] at hx; omega)
  | case a b =>
    simp only [nodeEqns, Option.some.injEq, Prod.mk.injEq] at hn
    obtain ⟨rfl, rfl⟩ := hn
    simp only [Node.children, List.mem_cons, List.not_mem_nil, or_false, forall_eq_or_imp,
      forall_eq] at hch
    intro e he x hx
    simp only [List.mem_cons, List.not_mem_nil, or_false] at he
    rcases he with rfl | rfl | rfl | rfl | rfl <;>
      (simp only [src, tgt, Inf.Tm.occurs, tmOfTy_occurs, Bool.or_eq_true, decide_eq_true_eq,
         Bool.false_eq_true, false_or, or_false] at hx; omega)
  | assertl a h | assertr h a =>
    simp only [nodeEqns, Option.some.injEq, Prod.mk.injEq] at hn
    obtain ⟨rfl, rfl⟩ := hn
    simp only [Node.children, List.mem_cons, List.not_mem_nil, or_false, forall_eq] at hch
    intro e he x hx
    simp only [List.mem_cons, List.not_mem_nil, or_false] at he
    rcases he with rfl | rfl | rfl <;>
      (simp only [src, tgt, Inf.Tm.occurs, tmOfTy_occurs, Bool.or_eq_true, decide_eq_true_eq,
         Bool.false_eq_true, false_or, or_false] at hx; omega)


/-! ### typing ⇒ solution -/

/-- `ρ0` below `f`, three chosen types at the fresh variables `f`, `f+1`, `f+2` -/
def ext3 (ρ0 : Nat → Inf.Ty) (f : Nat) (a b c : Inf.Ty) : Nat → Inf.Ty :=
  fun x => if x < f then ρ0 x else if x = f then a else if x = f + 1 then b else c

theorem ext3_lt {ρ0 : Nat → Inf.Ty} {f : Nat} {a b c : Inf.Ty} {x : Nat} (h : x < f) :
    ext3 ρ0 f a b c x = ρ0 x := by simp [ext3, h]
theorem ext3_0 {ρ0 : Nat → Inf.Ty} {f : Nat} {a b c : Inf.Ty} : ext3 ρ0 f a b c f = a := by simp [ext3]
theorem ext3_1 {ρ0 : Nat → Inf.Ty} {f : Nat} {a b c : Inf.Ty} : ext3 ρ0 f a b c (f + 1) = b := by
  have h1 : ¬ (f + 1 < f) := by omega
  simp [ext3, h1]
theorem ext3_2 {ρ0 : Nat → Inf.Ty} {f : Nat} {a b c : Inf.Ty} : ext3 ρ0 f a b c (f + 2) = c := by
  have h1 : ¬ (f + 2 < f) := by omega
  simp [ext3, h1]

/-- the assignment gives every node variable the node's arrow -/
def Represents (n : Nat) (ar : Arrows) (ρ : Nat → Inf.Ty) : Prop :=
  ∀ j, j < n → ρ (2 * j) = infOfTy (srcOf ar j) ∧ ρ (2 * j + 1) = infOfTy (tgtOf ar j)

theorem get?_src_tgt {ar : Arrows} {c : Nat} {a b : Ty} (h : ar[c]? = some (a, b)) :
    srcOf ar c = a ∧ tgtOf ar c = b := by
  obtain ⟨hlt, he⟩ := Array.getElem?_eq_some_iff.1 h
  simp [srcOf, tgtOf, Array.getD, hlt, he]

/-- **one node, typing ⇒ solution**: an assignment that represents arrows satisfying the node's
rule extends, on the node's fresh variables only, to a solution of the node's equations -/
theorem step_sol {jt : JetTypes} {ar : Arrows} {n i : Nat} {nd : Node} {f : Nat} {es : List Eqn}
    {f' : Nat} {ρ0 : Nat → Inf.Ty} (hn : nodeEqns jt i nd f = some (es, f'))
    (hr : NodeRule jt ar (srcOf ar i) (tgtOf ar i) nd) (hrep : Represents n ar ρ0) (hi : i < n)
    (hch : ∀ c ∈ nd.children, c < n) (hf : 2 * n ≤ f) :
    ∃ ρ1, (∀ x, x < f → ρ1 x = ρ0 x) ∧ ∀ e ∈ es, e.1.eval ρ1 = e.2.eval ρ1 := by
  obtain ⟨hA0, hB0⟩ := hrep i hi
  have h2i : 2 * i < f := by omega
  have h2i1 : 2 * i + 1 < f := by omega
  cases nd with
  | iden =>
    simp only [nodeEqns, Option.some.injEq, Prod.mk.injEq] at hn
    obtain ⟨rfl, rfl⟩ := hn
    simp only [NodeRule] at hr
    refine ⟨ρ0, fun _ _ => rfl, ?_⟩
    intro e he
    simp only [List.mem_cons, List.not_mem_nil, or_false] at he
    subst he
    simp only [src, tgt, Inf.Tm.eval, hA0, hB0, hr]
  | unit =>
    simp only [nodeEqns, Option.some.injEq, Prod.mk.injEq] at hn
    obtain ⟨rfl, rfl⟩ := hn
    simp only [NodeRule] at hr
    refine ⟨ρ0, fun _ _ => rfl, ?_⟩
    intro e he
    simp only [List.mem_cons, List.not_mem_nil, or_false] at he
    subst he
    simp only [src, tgt, Inf.Tm.eval, hB0, hr, infOfTy]
  | injl c =>
    simp only [nodeEqns, Option.some.injEq, Prod.mk.injEq] at hn
    obtain ⟨rfl, rfl⟩ := hn
    obtain ⟨Tc, X, hc, hB⟩ := hr
    have hcn : c < n := hch c (by simp [Node.children])
    obtain ⟨hsc, htc⟩ := get?_src_tgt hc
    obtain ⟨hA1, hB1⟩ := hrep c hcn
    have h2c : 2 * c < f := by omega
    have h2c1 : 2 * c + 1 < f := by omega
    refine ⟨ext3 ρ0 f (infOfTy X) .one .one, fun x hx => ext3_lt hx, ?_⟩
    intro e he
    simp only [List.mem_cons, List.not_mem_nil, or_false] at he
    rcases he with rfl | rfl
    · simp only [src, tgt, Inf.Tm.eval, ext3_lt h2i, ext3_lt h2c, hA0, hA1, hsc]
    · simp only [src, tgt, Inf.Tm.eval, ext3_lt h2i1, ext3_lt h2c1, ext3_0, hB0, hB1, htc, hB, infOfTy]
  | injr c =>
    simp only [nodeEqns, Option.some.injEq, Prod.mk.injEq] at hn
    obtain ⟨rfl, rfl⟩ := hn
    obtain ⟨Tc, X, hc, hB⟩ := hr
    have hcn : c < n := hch c (by simp [Node.children])
    obtain ⟨hsc, htc⟩ := get?_src_tgt hc
    obtain ⟨hA1, hB1⟩ := hrep c hcn
    have h2c : 2 * c < f := by omega
    have h2c1 : 2 * c + 1 < f := by omega
    refine ⟨ext3 ρ0 f (infOfTy X) .one .one, fun x hx => ext3_lt hx, ?_⟩
    intro e he
    simp only [List.mem_cons, List.not_mem_nil, or_false] at he
    rcases he with rfl | rfl
    · simp only [src, tgt, Inf.Tm.eval, ext3_lt h2i, ext3_lt h2c, hA0, hA1, hsc]
    · simp only [src, tgt, Inf.Tm.eval, ext3_lt h2i1, ext3_lt h2c1, ext3_0, hB0, hB1, htc, hB, infOfTy]
  | take c =>
    simp only [nodeEqns, Option.some.injEq, Prod.mk.injEq] at hn
    obtain ⟨rfl, rfl⟩ := hn
    obtain ⟨Sc, X, hc, hA⟩ := hr
    have hcn : c < n := hch c (by simp [Node.children])
    obtain ⟨hsc, htc⟩ := get?_src_tgt hc
    obtain ⟨hA1, hB1⟩ := hrep c hcn
    have h2c : 2 * c < f := by omega
    have h2c1 : 2 * c + 1 < f := by omega
    refine ⟨ext3 ρ0 f (infOfTy X) .one .one, fun x hx => ext3_lt hx, ?_⟩
    intro e he
    simp only [List.mem_cons, List.not_mem_nil, or_false] at he
    rcases he with rfl | rfl
    · simp only [src, tgt, Inf.Tm.eval, ext3_lt h2i, ext3_lt h2c, ext3_0, hA0, hA1, hsc, hA, infOfTy]
    · simp only [src, tgt, Inf.Tm.eval, ext3_lt h2i1, ext3_lt h2c1, hB0, hB1, htc]
  | drop c =>
    simp only [nodeEqns, Option.some.injEq, Prod.mk.injEq] at hn
    obtain ⟨rfl, rfl⟩ := hn
    obtain ⟨Sc, X, hc, hA⟩ := hr
    have hcn : c < n := hch c (by simp [Node.children])
    obtain ⟨hsc, htc⟩ := get?_src_tgt hc
    obtain ⟨hA1, hB1⟩ := hrep c hcn
    have h2c : 2 * c < f := by omega
    have h2c1 : 2 * c + 1 < f := by omega
    refine ⟨ext3 ρ0 f (infOfTy X) .one .one, fun x hx => ext3_lt hx, ?_⟩
    intro e he
    simp only [List.mem_cons, List.not_mem_nil, or_false] at he
    rcases he with rfl | rfl
    · simp only [src, tgt, Inf.Tm.eval, ext3_lt h2i, ext3_lt h2c, ext3_0, hA0, hA1, hsc, hA, infOfTy]
    · simp only [src, tgt, Inf.Tm.eval, ext3_lt h2i1, ext3_lt h2c1, hB0, hB1, htc]
  | comp x y =>
    simp only [nodeEqns, Option.some.injEq, Prod.mk.injEq] at hn
    obtain ⟨rfl, rfl⟩ := hn
    obtain ⟨M, hx, hy⟩ := hr
    have hxn : x < n := hch x (by simp [Node.children])
    have hyn : y < n := hch y (by simp [Node.children])
    obtain ⟨hsx, htx⟩ := get?_src_tgt hx
    obtain ⟨hsy, hty⟩ := get?_src_tgt hy
    obtain ⟨hAx, hBx⟩ := hrep x hxn
    obtain ⟨hAy, hBy⟩ := hrep y hyn
    refine ⟨ρ0, fun _ _ => rfl, ?_⟩
    intro e he
    simp only [List.mem_cons, List.not_mem_nil, or_false] at he
    rcases he with rfl | rfl | rfl
    · simp only [src, tgt, Inf.Tm.eval, hBx, hAy, htx, hsy]
    · simp only [src, tgt, Inf.Tm.eval, hA0, hAx, hsx]
    · simp only [src, tgt, Inf.Tm.eval, hB0, hBy, hty]
  | case x y =>
    simp only [nodeEqns, Option.some.injEq, Prod.mk.injEq] at hn
    obtain ⟨rfl, rfl⟩ := hn
    obtain ⟨X, Y, Z, hx, hy, hA⟩ := hr
    have hxn : x < n := hch x (by simp [Node.children])
    have hyn : y < n := hch y (by simp [Node.children])
    obtain ⟨hsx, htx⟩ := get?_src_tgt hx
    obtain ⟨hsy, hty⟩ := get?_src_tgt hy
    obtain ⟨hAx, hBx⟩ := hrep x hxn
    obtain ⟨hAy, hBy⟩ := hrep y hyn
    have h2x : 2 * x < f := by omega
    have h2x1 : 2 * x + 1 < f := by omega
    have h2y : 2 * y < f := by omega
    have h2y1 : 2 * y + 1 < f := by omega
    refine ⟨ext3 ρ0 f (infOfTy X) (infOfTy Y) (infOfTy Z), fun x hx => ext3_lt hx, ?_⟩
    intro e he
    simp only [List.mem_cons, List.not_mem_nil, or_false] at he
    rcases he with rfl | rfl | rfl | rfl | rfl
    · simp only [src, tgt, Inf.Tm.eval, ext3_lt h2x, ext3_0, ext3_2, hAx, hsx, infOfTy]
    · simp only [src, tgt, Inf.Tm.eval, ext3_lt h2y, ext3_1, ext3_2, hAy, hsy, infOfTy]
    · simp only [src, tgt, Inf.Tm.eval, ext3_lt h2i1, ext3_lt h2x1, hB0, hBx, htx]
    · simp only [src, tgt, Inf.Tm.eval, ext3_lt h2i1, ext3_lt h2y1, hB0, hBy, hty]
    · simp only [src, tgt, Inf.Tm.eval, ext3_lt h2i, ext3_0, ext3_1, ext3_2, hA0, hA, infOfTy]
  | assertl x hh =>
    simp only [nodeEqns, Option.some.injEq, Prod.mk.injEq] at hn
    obtain ⟨rfl, rfl⟩ := hn
    obtain ⟨X, Y, Z, hx, hA⟩ := hr
    have hxn : x < n := hch x (by simp [Node.children])
    obtain ⟨hsx, htx⟩ := get?_src_tgt hx
    obtain ⟨hAx, hBx⟩ := hrep x hxn
    have h2x : 2 * x < f := by omega
    have h2x1 : 2 * x + 1 < f := by omega
    refine ⟨ext3 ρ0 f (infOfTy X) (infOfTy Y) (infOfTy Z), fun x hx => ext3_lt hx, ?_⟩
    intro e he
    simp only [List.mem_cons, List.not_mem_nil, or_false] at he
    rcases he with rfl | rfl | rfl
    · simp only [src, tgt, Inf.Tm.eval, ext3_lt h2x, ext3_0, ext3_2, hAx, hsx, infOfTy]
    · simp only [src, tgt, Inf.Tm.eval, ext3_lt h2i1, ext3_lt h2x1, hB0, hBx, htx]
    · simp only [src, tgt, Inf.Tm.eval, ext3_lt h2i, ext3_0, ext3_1, ext3_2, hA0, hA, infOfTy]
  | assertr hh y =>
    simp only [nodeEqns, Option.some.injEq, Prod.mk.injEq] at hn
    obtain ⟨rfl, rfl⟩ := hn
    obtain ⟨X, Y, Z, hy, hA⟩ := hr
    have hyn : y < n := hch y (by simp [Node.children])
    obtain ⟨hsy, hty⟩ := get?_src_tgt hy
    obtain ⟨hAy, hBy⟩ := hrep y hyn
    have h2y : 2 * y < f := by omega
    have h2y1 : 2 * y + 1 < f := by omega
    refine ⟨ext3 ρ0 f (infOfTy X) (infOfTy Y) (infOfTy Z), fun x hx => ext3_lt hx, ?_⟩
    intro e he
    simp only [List.mem_cons, List.not_mem_nil, or_false] at he
    rcases he with rfl | rfl | rfl
    · simp only [src, tgt, Inf.Tm.eval, ext3_lt h2y, ext3_1, ext3_2, hAy, hsy, infOfTy]
    · simp only [src, tgt, Inf.Tm.eval, ext3_lt h2i1, ext3_lt h2y1, hB0, hBy, hty]
    · simp only [src, tgt, Inf.Tm.eval, ext3_lt h2i, ext3_0, ext3_1, ext3_2, hA0, hA, infOfTy]
  | pair x y =>
    simp only [nodeEqns, Option.some.injEq, Prod.mk.injEq] at hn
    obtain ⟨rfl, rfl⟩ := hn
    obtain ⟨Tx, Ty, hx, hy, hB⟩ := hr
    have hxn : x < n := hch x (by simp [Node.children])
    have hyn : y < n := hch y (by simp [Node.children])
    obtain ⟨hsx, htx⟩ := get?_src_tgt hx
    obtain ⟨hsy, hty⟩ := get?_src_tgt hy
    obtain ⟨hAx, hBx⟩ := hrep x hxn
    obtain ⟨hAy, hBy⟩ := hrep y hyn
    refine ⟨ρ0, fun _ _ => rfl, ?_⟩
    intro e he
    simp only [List.mem_cons, List.not_mem_nil, or_false] at he
    rcases he with rfl | rfl | rfl
    · simp only [src, tgt, Inf.Tm.eval, hAx, hAy, hsx, hsy]
    · simp only [src, tgt, Inf.Tm.eval, hA0, hAx, hsx]
    · simp only [src, tgt, Inf.Tm.eval, hB0, hBx, hBy, htx, hty, hB, infOfTy]
  | disconnect x oy =>
    cases oy with
    | none => exact absurd hr (by simp [NodeRule])
    | some y =>
      simp only [nodeEqns, Option.some.injEq, Prod.mk.injEq] at hn
      obtain ⟨rfl, rfl⟩ := hn
      obtain ⟨Y, Sy, Ty, hx, hy, hB⟩ := hr
      have hxn : x < n := hch x (by simp [Node.children])
      have hyn : y < n := hch y (by simp [Node.children])
      obtain ⟨hsx, htx⟩ := get?_src_tgt hx
      obtain ⟨hsy, hty⟩ := get?_src_tgt hy
      obtain ⟨hAx, hBx⟩ := hrep x hxn
      obtain ⟨hAy, hBy⟩ := hrep y hyn
      have h2x : 2 * x < f := by omega
      have h2x1 : 2 * x + 1 < f := by omega
      have h2y : 2 * y < f := by omega
      have h2y1 : 2 * y + 1 < f := by omega
      refine ⟨ext3 ρ0 f (infOfTy (srcOf ar i)) (infOfTy Y) .one, fun x hx => ext3_lt hx, ?_⟩
      intro e he
      simp only [List.mem_cons, List.not_mem_nil, or_false] at he
      rcases he with rfl | rfl | rfl | rfl
      · simp only [src, tgt, Inf.Tm.eval, eval_tmOfTy, ext3_lt h2x, ext3_0, hAx, hsx, infOfTy]
      · simp only [src, tgt, Inf.Tm.eval, ext3_lt h2x1, ext3_lt h2y, ext3_1, hBx, hAy, htx, hsy, infOfTy]
      · simp only [src, tgt, Inf.Tm.eval, ext3_lt h2i, ext3_0, hA0]
      · simp only [src, tgt, Inf.Tm.eval, ext3_lt h2i1, ext3_lt h2y1, ext3_1, hB0, hBy, hty, hB, infOfTy]
  | witness =>
    simp only [nodeEqns, Option.some.injEq, Prod.mk.injEq] at hn
    obtain ⟨rfl, rfl⟩ := hn
    exact ⟨ρ0, fun _ _ => rfl, fun e he => by cases he⟩
  | fail en =>
    simp only [nodeEqns, Option.some.injEq, Prod.mk.injEq] at hn
    obtain ⟨rfl, rfl⟩ := hn
    exact ⟨ρ0, fun _ _ => rfl, fun e he => by cases he⟩
  | hidden hh =>
    simp only [nodeEqns, Option.some.injEq, Prod.mk.injEq] at hn
    obtain ⟨rfl, rfl⟩ := hn
    exact ⟨ρ0, fun _ _ => rfl, fun e he => by cases he⟩
  | word k bits =>
    simp only [nodeEqns, Option.some.injEq, Prod.mk.injEq] at hn
    obtain ⟨rfl, rfl⟩ := hn
    obtain ⟨hA, hB, _⟩ := hr
    refine ⟨ρ0, fun _ _ => rfl, ?_⟩
    intro e he
    simp only [List.mem_cons, List.not_mem_nil, or_false] at he
    rcases he with rfl | rfl
    · simp only [src, tgt, Inf.Tm.eval, hA0, hA, infOfTy]
    · simp only [src, tgt, Inf.Tm.eval, eval_tmOfTy, hB0, hB]
  | jet name =>
    simp only [NodeRule] at hr
    simp only [nodeEqns, hr, Option.map_some, Option.some.injEq, Prod.mk.injEq] at hn
    obtain ⟨rfl, rfl⟩ := hn
    refine ⟨ρ0, fun _ _ => rfl, ?_⟩
    intro e he
    simp only [List.mem_cons, List.not_mem_nil, or_false] at he
    rcases he with rfl | rfl
    · simp only [src, tgt, Inf.Tm.eval, eval_tmOfTy, hA0]
    · simp only [src, tgt, Inf.Tm.eval, eval_tmOfTy, hB0]


/-! ### whole plans -/

/-- `ar` types the selected nodes of `P` (and gives a program's root the arrow `1 → 1`) -/
structure Typing (jt : JetTypes) (P : Plan) (mask : Nat → Bool) (program : Bool) (ar : Arrows) : Prop where
  size : ar.size = P.size
  rule : ∀ i nd, P[i]? = some nd → mask i = true → NodeRule jt ar (srcOf ar i) (tgtOf ar i) nd
  root : program = true → 0 < P.size ∧ srcOf ar (P.size - 1) = .one ∧ tgtOf ar (P.size - 1) = .one

theorem nodeRule_children {jt : JetTypes} {ar : Arrows} {A B : Ty} {nd : Node}
    (h : NodeRule jt ar A B nd) : ∀ c ∈ nd.children, c < ar.size := by
  have key : ∀ {c : Nat} {x : Ty × Ty}, ar[c]? = some x → c < ar.size := fun hx =>
    (Array.getElem?_eq_some_iff.1 hx).1
  cases nd with
  | injl c => obtain ⟨_, _, hc, _⟩ := h; intro c' hc'; simp [Node.children] at hc'; subst hc'; exact key hc
  | injr c => obtain ⟨_, _, hc, _⟩ := h; intro c' hc'; simp [Node.children] at hc'; subst hc'; exact key hc
  | take c => obtain ⟨_, _, hc, _⟩ := h; intro c' hc'; simp [Node.children] at hc'; subst hc'; exact key hc
  | drop c => obtain ⟨_, _, hc, _⟩ := h; intro c' hc'; simp [Node.children] at hc'; subst hc'; exact key hc
  | comp x y =>
    obtain ⟨_, hx, hy⟩ := h; intro c' hc'; simp [Node.children] at hc'
    rcases hc' with rfl | rfl
    · exact key hx
    · exact key hy
  | case x y =>
    obtain ⟨_, _, _, hx, hy, _⟩ := h; intro c' hc'; simp [Node.children] at hc'
    rcases hc' with rfl | rfl
    · exact key hx
    · exact key hy
  | pair x y =>
    obtain ⟨_, _, hx, hy, _⟩ := h; intro c' hc'; simp [Node.children] at hc'
    rcases hc' with rfl | rfl
    · exact key hx
    · exact key hy
  | assertl x hh => obtain ⟨_, _, _, hx, _⟩ := h; intro c' hc'; simp [Node.children] at hc'; subst hc'; exact key hx
  | assertr hh y => obtain ⟨_, _, _, hy, _⟩ := h; intro c' hc'; simp [Node.children] at hc'; subst hc'; exact key hy
  | disconnect x oy =>
    cases oy with
    | none => exact absurd h (by simp [NodeRule])
    | some y =>
      obtain ⟨_, _, _, hx, hy, _⟩ := h; intro c' hc'; simp [Node.children] at hc'
      rcases hc' with rfl | rfl
      · exact key hx
      · exact key hy
  | _ => intro c' hc'; simp [Node.children] at hc'

theorem sol_of_typing_go {jt : JetTypes} {ar : Arrows} {n : Nat} {mask : Nat → Bool} :
    ∀ (nodes : List Node) (i f : Nat) (acc E : List Eqn) (ρ0 : Nat → Inf.Ty),
      constraintsMGo jt mask i nodes f acc = some E →
      (∀ k nd, nodes[k]? = some nd → mask (i + k) = true →
        NodeRule jt ar (srcOf ar (i + k)) (tgtOf ar (i + k)) nd ∧ ∀ c ∈ nd.children, c < n) →
      i + nodes.length ≤ n → 2 * n ≤ f → Represents n ar ρ0 → Inf.Sol ρ0 acc → VarsLt f acc →
      ∃ ρ, Inf.Sol ρ E ∧ Represents n ar ρ
  | [], i, f, acc, E, ρ0, h, _, _, _, hrep, hsol, _ => by
    simp only [constraintsMGo, Option.some.injEq] at h
    subst h
    exact ⟨ρ0, hsol, hrep⟩
  | nd :: rest, i, f, acc, E, ρ0, h, htyp, hlen, hf, hrep, hsol, hv => by
    simp only [constraintsMGo] at h
    cases hq : nodeEqns jt i nd f with
    | none => rw [hq] at h; cases h
    | some q =>
      obtain ⟨es, f'⟩ := q
      rw [hq] at h
      simp only at h
      have hmono := nodeEqns_mono hq
      have hlen' : i + 1 + rest.length ≤ n := by simp only [List.length_cons] at hlen; omega
      have htyp' : ∀ k nd', rest[k]? = some nd' → mask (i + 1 + k) = true →
          NodeRule jt ar (srcOf ar (i + 1 + k)) (tgtOf ar (i + 1 + k)) nd' ∧ ∀ c ∈ nd'.children, c < n := by
        intro k nd' hk hm
        have e : i + (k + 1) = i + 1 + k := by omega
        have := htyp (k + 1) nd' (by simpa using hk) (by rw [e]; exact hm)
        rwa [e] at this
      cases hm : mask i with
      | false =>
        rw [hm] at h
        simp only [Bool.false_eq_true, if_false] at h
        exact sol_of_typing_go rest (i + 1) f' acc E ρ0 h htyp' hlen' (by omega) hrep hsol
          (fun e he x hx => Nat.lt_of_lt_of_le (hv e he x hx) hmono)
      | true =>
        rw [hm] at h
        simp only [if_true] at h
        obtain ⟨hr, hch⟩ := htyp 0 nd (by simp) (by simpa using hm)
        have hi : i < n := by simp only [List.length_cons] at hlen; omega
        obtain ⟨ρ1, hagree, hes⟩ := step_sol hq (by simpa using hr) hrep hi hch hf
        have hrep1 : Represents n ar ρ1 := fun j hj => by
          rw [hagree _ (by omega), hagree _ (by omega)]; exact hrep j hj
        have hsol1 : Inf.Sol ρ1 (acc ++ es) := by
          intro e he
          rcases List.mem_append.1 he with he | he
          · have := hsol e he
            rw [Inf.eval_congr e.1 (ρ := ρ1) (ρ' := ρ0) (fun y hy => hagree y (hv e he y (.inl hy))),
              Inf.eval_congr e.2 (ρ := ρ1) (ρ' := ρ0) (fun y hy => hagree y (hv e he y (.inr hy)))]
            exact this
          · exact hes e he
        have hv1 : VarsLt f' (acc ++ es) := by
          intro e he x hx
          rcases List.mem_append.1 he with he | he
          · exact Nat.lt_of_lt_of_le (hv e he x hx) hmono
          · exact nodeEqns_varsLt hq (by omega) (fun c hc => by have := hch c hc; omega) e he x hx
        exact sol_of_typing_go rest (i + 1) f' (acc ++ es) E ρ1 h htyp' hlen' (by omega) hrep1 hsol1 hv1

/-- **typing ⇒ solution**: arrows that type the selected nodes come from a solution of the
constraints of the selected nodes -/
theorem sol_of_typing {jt : JetTypes} {P : Plan} {mask : Nat → Bool} {program : Bool} {ar : Arrows}
    {E : List Eqn} (hc : constraintsM jt P mask program = some E) (ht : Typing jt P mask program ar) :
    ∃ ρ, Inf.Sol ρ E ∧ Represents P.size ar ρ := by
  unfold constraintsM at hc
  cases hgo : constraintsMGo jt mask 0 P.toList (2 * P.size) [] with
  | none => rw [hgo] at hc; cases hc
  | some es =>
    rw [hgo] at hc
    simp only [Option.some.injEq] at hc
    let ρ0 : Nat → Inf.Ty := fun x =>
      if x % 2 = 0 then infOfTy (srcOf ar (x / 2)) else infOfTy (tgtOf ar (x / 2))
    have hrep0 : Represents P.size ar ρ0 := by
      intro j _
      have e1 : (2 * j) % 2 = 0 := by omega
      have e2 : (2 * j) / 2 = j := by omega
      have e3 : ¬ ((2 * j + 1) % 2 = 0) := by omega
      have e4 : (2 * j + 1) / 2 = j := by omega
      simp only [ρ0, e1, e2, e3, e4, if_true, if_false, and_self]
    obtain ⟨ρ, hsol, hrep⟩ := sol_of_typing_go (ar := ar) (n := P.size) P.toList 0 (2 * P.size) [] es ρ0 hgo
      (by
        intro k nd hk hm
        rw [Nat.zero_add] at hm ⊢
        have hk' : P[k]? = some nd := by simpa using hk
        have hr := ht.rule k nd hk' hm
        exact ⟨hr, fun c hcc => by have := nodeRule_children hr c hcc; rw [ht.size] at this; exact this⟩)
      (by simp) (Nat.le_refl _) hrep0 (fun e he => by cases he) (fun e he => by cases he)
    refine ⟨ρ, ?_, hrep⟩
    rw [← hc]
    cases program with
    | false => simpa using hsol
    | true =>
      simp only [if_true]
      obtain ⟨hpos, hs, htg⟩ := ht.root rfl
      obtain ⟨h1, h2⟩ := hrep (P.size - 1) (by omega)
      intro e he
      rcases List.mem_append.1 he with he | he
      · exact hsol e he
      · simp only [List.mem_cons, List.not_mem_nil, or_false] at he
        rcases he with rfl | rfl
        · simp only [src, Inf.Tm.eval, h1, hs, infOfTy]
        · simp only [tgt, Inf.Tm.eval, h2, htg, infOfTy]

theorem constraintsMGo_mem {jt : JetTypes} {mask : Nat → Bool} :
    ∀ (nodes : List Node) (i f : Nat) (acc E : List Eqn),
    constraintsMGo jt mask i nodes f acc = some E →
    (∀ e ∈ acc, e ∈ E) ∧ ∀ (k : Nat) (nd : Node), nodes[k]? = some nd → mask (i + k) = true →
      ∃ f0 es f1, nodeEqns jt (i + k) nd f0 = some (es, f1) ∧ ∀ e ∈ es, e ∈ E
  | [], i, f, acc, E, h => by
    simp only [constraintsMGo, Option.some.injEq] at h
    subst h
    exact ⟨fun _ hm => hm, fun k nd hk => by simp at hk⟩
  | nd :: rest, i, f, acc, E, h => by
    simp only [constraintsMGo] at h
    cases hq : nodeEqns jt i nd f with
    | none => rw [hq] at h; cases h
    | some q =>
      obtain ⟨es, f'⟩ := q
      rw [hq] at h
      simp only at h
      obtain ⟨hacc, hrest⟩ := constraintsMGo_mem rest (i + 1) f' _ E h
      refine ⟨fun e hm => hacc e (by split <;> simp [hm]), ?_⟩
      intro k nd' hk hm
      cases k with
      | zero =>
        simp only [List.getElem?_cons_zero, Option.some.injEq] at hk
        subst hk
        rw [Nat.add_zero] at hm
        refine ⟨f, es, f', hq, fun e he => hacc e ?_⟩
        rw [hm]; simp [he]
      | succ k =>
        simp only [List.getElem?_cons_succ] at hk
        have e : i + (k + 1) = i + 1 + k := by omega
        rw [e] at hm ⊢
        exact hrest k nd' hk hm

/-- **inference returns a typing** of the selected nodes (which must have the right shape and
children inside the plan) -/
theorem inferM_typing {jt : JetTypes} {P : Plan} {mask : Nat → Bool} {program : Bool} {arr : Arrows}
    (h : inferM jt P mask program = .ok arr) (hpos : 0 < P.size)
    (hok : ∀ i nd, P[i]? = some nd → mask i = true →
      shapeOK nd = true ∧ ∀ c ∈ nd.children, c < P.size) :
    Typing jt P mask program arr := by
  obtain ⟨E, S, hc, hu, rfl⟩ := inferM_ok h
  have hsol := (Inf.unify_least _ _ _ hu).1
  unfold constraintsM at hc
  cases hgo : constraintsMGo jt mask 0 P.toList (2 * P.size) [] with
  | none => rw [hgo] at hc; cases hc
  | some es =>
    rw [hgo] at hc
    simp only [Option.some.injEq] at hc
    obtain ⟨_, hmem⟩ := constraintsMGo_mem P.toList 0 (2 * P.size) [] es hgo
    refine ⟨by simp [arrowsOf], ?_, ?_⟩
    · intro i nd hnd hm
      have hi : i < P.size := by
        rcases Nat.lt_or_ge i P.size with hlt | hge
        · exact hlt
        · rw [Array.getElem?_eq_none hge] at hnd; cases hnd
      obtain ⟨f0, es0, f1, h0, hsub⟩ := hmem i nd (by simpa using hnd) (by simpa using hm)
      rw [Nat.zero_add] at h0
      obtain ⟨hshape, hch⟩ := hok i nd hnd hm
      rw [srcOf_arrowsOf _ _ hi, tgtOf_arrowsOf _ _ hi]
      refine nodeRule_of_eqns h0 ?_ hch hshape
      intro e he
      apply hsol
      rw [← hc]
      cases program
      · simpa using hsub e he
      · simp only [if_true]; exact List.mem_append_left _ (hsub e he)
    · intro hp
      subst hp
      simp only [if_true] at hc
      have h1 := hsol (src (P.size - 1), .one) (by rw [← hc]; simp)
      have h2 := hsol (tgt (P.size - 1), .one) (by rw [← hc]; simp)
      simp only [src, tgt, Inf.Tm.eval] at h1 h2
      rw [srcOf_arrowsOf _ _ (by omega), tgtOf_arrowsOf _ _ (by omega), h1, h2]
      exact ⟨hpos, rfl, rfl⟩

/-- **… and the least one**: every typing of the selected nodes is above it, node by node -/
theorem inferM_least {jt : JetTypes} {P : Plan} {mask : Nat → Bool} {program : Bool} {arr ar : Arrows}
    (h : inferM jt P mask program = .ok arr) (ht : Typing jt P mask program ar) :
    ∀ i, i < P.size → Le (srcOf arr i) (srcOf ar i) ∧ Le (tgtOf arr i) (tgtOf ar i) := by
  obtain ⟨E, S, hc, hu, rfl⟩ := inferM_ok h
  obtain ⟨ρ, hsol, hrep⟩ := sol_of_typing hc ht
  have hle := (Inf.unify_least _ _ _ hu).2 ρ hsol
  intro i hi
  obtain ⟨h1, h2⟩ := hrep i hi
  rw [srcOf_arrowsOf _ _ hi, tgtOf_arrowsOf _ _ hi]
  have e1 := le_tyOfInf (hle (2 * i))
  have e2 := le_tyOfInf (hle (2 * i + 1))
  rw [h1, tyOfInf_infOfTy] at e1
  rw [h2, tyOfInf_infOfTy] at e2
  exact ⟨e1, e2⟩

/-- a typing exists ⇒ inference does not reject -/
theorem inferM_accepts {jt : JetTypes} {P : Plan} {mask : Nat → Bool} {program : Bool} {ar : Arrows}
    (ht : Typing jt P mask program ar) (hbad : inferM jt P mask program ≠ .badPlan) :
    (∃ arr, inferM jt P mask program = .ok arr) ∨ inferM jt P mask program = .fuel := by
  unfold inferM at hbad ⊢
  cases hc : constraintsM jt P mask program with
  | none => rw [hc] at hbad; exact absurd rfl hbad
  | some E =>
    simp only
    obtain ⟨ρ, hsol, _⟩ := sol_of_typing hc ht
    cases hu : Inf.unify unifyFuel E [] with
    | ok S => exact .inl ⟨_, rfl⟩
    | clash => exact (Inf.quotient_accepts hsol (.inl hu)).elim
    | occurs => exact (Inf.quotient_accepts hsol (.inr hu)).elim
    | fuel => exact .inr rfl

end Routes
