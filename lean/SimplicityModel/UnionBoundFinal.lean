/-
`Type::finalize` on a union-bound context: the type it returns for `x` is below the value of `x`
in every assignment the context represents (principal: free variables become unit, nothing else is
chosen); every bound it writes back is justified by the bounds it read (so an assignment that reads
the finalised context solves the original one).
-/
import SimplicityModel.UnionBoundOps

namespace UB
open Inf (Ty Le)

/-- a family of per-bound conditions, read along the forest like `SolSt` -/
def SolG (sat : (Nat → Ty) → Ty → Bound → Prop) (ρ : Nat → Ty) (c : Ctx) : Prop :=
  ParentSol ρ c ∧ ∀ e b B, Owner c e b → c.slab[b]? = some B → sat ρ (ρ e) B

/-- like `BoundSat`, but a complete bound only has to be *below* the value -/
def BoundSup (ρ : Nat → Ty) (t : Ty) : Bound → Prop
  | .free => True
  | .complete d => Le d t
  | .sum a b => t = .sum (ρ a) (ρ b)
  | .product a b => t = .prod (ρ a) (ρ b)

/-- only complete bounds are read -/
def BoundRd (_ρ : Nat → Ty) (t : Ty) : Bound → Prop
  | .complete d => t = d
  | _ => True

/-- `ρ` is a solution of the context up to enlarging the complete bounds -/
abbrev SuperSol := SolG BoundSup
/-- `ρ` follows the parent links and takes the value of every complete bound -/
abbrev Reads := SolG BoundRd

theorem SolSt.super {ρ : Nat → Ty} {c : Ctx} (s : SolSt ρ c) : SuperSol ρ c := by
  refine ⟨s.par, fun e b B ho hs => ?_⟩
  have := s.bnd e b B ho hs
  cases B with
  | free => trivial
  | complete d => rw [show ρ e = d from this]; exact Le.refl _
  | sum l r => exact this
  | product l r => exact this

theorem SolSt.reads {ρ : Nat → Ty} {c : Ctx} (s : SolSt ρ c) : Reads ρ c := by
  refine ⟨s.par, fun e b B ho hs => ?_⟩
  have := s.bnd e b B ho hs
  cases B with
  | complete d => exact this
  | _ => trivial

theorem Compress.solG {c c' : Ctx} (h : Compress c c') (sat) (ρ : Nat → Ty) :
    SolG sat ρ c' ↔ SolG sat ρ c := by
  constructor
  · rintro ⟨hp, hb⟩
    exact ⟨(h.par ρ).1 hp, fun e b B ho hs => hb e b B ((h.owner e b).2 ho) (by rw [h.slab]; exact hs)⟩
  · rintro ⟨hp, hb⟩
    exact ⟨(h.par ρ).2 hp, fun e b B ho hs => hb e b B ((h.owner e b).1 ho) (by rw [← h.slab]; exact hs)⟩

theorem solG_set_intro {sat} {ρ : Nat → Ty} {c : Ctx} {e b : Nat} {n : Bound} (w : WF c)
    (ho : Owner c e b) (s : SolG sat ρ c) (hn : sat ρ (ρ e) n) : SolG sat ρ (setBound c b n) := by
  refine ⟨s.1, fun e' b' B' ho' hs' => ?_⟩
  rw [setBound_get] at hs'
  split at hs'
  · next hb =>
    subst hb
    have := w.inj _ _ _ ho ho'
    subst this
    split at hs'
    · cases hs'; exact hn
    · cases hs'
  · exact s.2 e' b' B' ho' hs'

theorem solG_set_elim {sat} {ρ : Nat → Ty} {c : Ctx} {e b : Nat} {B n : Bound} (w : WF c)
    (ho : Owner c e b) (hB : c.slab[b]? = some B) (s : SolG sat ρ (setBound c b n))
    (hs : sat ρ (ρ e) B) : SolG sat ρ c ∧ sat ρ (ρ e) n := by
  have hlt := w.rootLt e b ho
  refine ⟨⟨s.1, fun e' b' B' ho' hs' => ?_⟩, s.2 e b n ho (by rw [setBound_get, if_pos rfl, if_pos hlt])⟩
  by_cases hb : b = b'
  · subst hb
    have := w.inj _ _ _ ho ho'
    subst this
    rw [hB] at hs'; cases hs'; exact hs
  · exact s.2 e' b' B' ho' (by rw [setBound_get, if_neg hb]; exact hs')

/-! ### finalisation steps -/

/-- what finalisation does to a context: paths are halved, incomplete bounds are replaced by
complete ones; roots, classes and the remaining incomplete bounds stay -/
structure FinStep (c c' : Ctx) : Prop where
  mono : Mono c c'
  owner : ∀ e b, Owner c e b → Owner c' e b
  par : ∀ ρ, ParentSol ρ c → ParentSol ρ c'
  frame : ∀ (b : Nat) B, c'.slab[b]? = some B → ¬ B.isComplete → c.slab[b]? = some B

theorem FinStep.refl (c : Ctx) : FinStep c c :=
  ⟨Mono.refl c, fun _ _ h => h, fun _ h => h, fun _ _ h _ => h⟩

theorem FinStep.trans {a b c : Ctx} (h : FinStep a b) (h' : FinStep b c) : FinStep a c :=
  ⟨h.mono.trans h'.mono, fun e x ho => h'.owner e x (h.owner e x ho), fun ρ hp => h'.par ρ (h.par ρ hp),
   fun x B hs hB => h.frame x B (h'.frame x B hs hB) hB⟩

theorem Compress.fin {c c' : Ctx} (h : Compress c c') : FinStep c c' :=
  ⟨h.mono, fun e b => (h.owner e b).2, fun ρ => (h.par ρ).2, fun b B hs _ => by rw [← h.slab]; exact hs⟩

theorem setBound_fin {c : Ctx} {b : Nat} {B : Bound} (hs : c.slab[b]? = some B)
    (hB : ¬ B.isComplete) (d : Ty) : FinStep c (setBound c b (.complete d)) := by
  refine ⟨setBound_mono hs hB _ (.inr trivial), fun _ _ h => h, fun _ h => h, fun b' B' hs' hB' => ?_⟩
  rw [setBound_get] at hs'
  split at hs'
  · split at hs'
    · cases hs'; exact absurd trivial hB'
    · cases hs'
  · exact hs'

theorem CompleteAt.fin {c c' : Ctx} {x : Nat} {d : Ty} (h : CompleteAt c x d) (k : FinStep c c') :
    CompleteAt c' x d := by
  obtain ⟨r, b, ho, hs, hp⟩ := h
  exact ⟨r, b, k.owner _ _ ho, k.mono.slabC _ _ hs, fun ρ hρ => hp ρ (k.mono.par ρ hρ)⟩

/-- the invariant that ties a (partly) finalised context `c` to the context `c₀` it came from: an
assignment that reads `c` satisfies, at every bound that is complete by now, the bound `c₀` had there -/
structure KInv (c₀ c : Ctx) : Prop where
  fin : FinStep c₀ c
  just : ∀ ρ, Reads ρ c → ∀ e b d B₀, Owner c e b → c.slab[b]? = some (Bound.complete d) →
    c₀.slab[b]? = some B₀ → BoundSat ρ (ρ e) B₀

theorem KInv.refl (c : Ctx) : KInv c c := by
  refine ⟨FinStep.refl c, fun ρ hr e b d B₀ ho hs hs0 => ?_⟩
  rw [hs] at hs0; cases hs0
  exact hr.2 e b _ ho hs

theorem KInv.compress {c₀ c c' : Ctx} (k : KInv c₀ c) (h : Compress c c') : KInv c₀ c' := by
  refine ⟨k.fin.trans h.fin, fun ρ hr e b d B₀ ho hs hs0 => ?_⟩
  exact k.just ρ ((h.solG _ ρ).1 hr) e b d B₀ ((h.owner e b).1 ho) (by rw [← h.slab]; exact hs) hs0

/-- writing back a complete bound that every reader justifies -/
theorem KInv.write {c₀ c : Ctx} {e b : Nat} {B : Bound} {t : Ty} (k : KInv c₀ c) (w : WF c)
    (ho : Owner c e b) (hB : c.slab[b]? = some B) (hnc : ¬ B.isComplete)
    (hj : ∀ ρ, Reads ρ (setBound c b (.complete t)) → BoundSat ρ (ρ e) B) :
    KInv c₀ (setBound c b (.complete t)) := by
  refine ⟨k.fin.trans (setBound_fin hB hnc t), fun ρ hr e' b' d B₀ ho' hs hs0 => ?_⟩
  by_cases hb : b = b'
  · subst hb
    have := w.inj _ _ _ ho ho'
    subst this
    have := k.fin.frame b B hB hnc
    rw [this] at hs0; cases hs0
    exact hj ρ hr
  · rw [setBound_get, if_neg hb] at hs
    have hr' : Reads ρ c := by
      refine (solG_set_elim w ho hB hr ?_).1
      cases B with
      | complete d => exact absurd trivial hnc
      | _ => trivial
    exact k.just ρ hr' e' b' d B₀ ho' hs hs0

/-! ### `as_dag_node` -/

theorem childRoots_spec {F : Nat} {c : Ctx} {t1 t2 : Nat} {c' : Ctx} {ch : Option (Nat × Nat)}
    (h : childRoots F c t1 t2 = .ok (c', ch)) :
    Compress c c' ∧ ∃ l r rl rr, ch = some (l, r) ∧
      Owner c' rl l ∧ Owner c' rr r ∧ ∀ ρ, ParentSol ρ c' → (ρ t1 = ρ rl ∧ ρ t2 = ρ rr) := by
  unfold childRoots at h
  split at h
  · cases h
  · next c1 r1 h1 =>
    obtain ⟨k1, q1, ho1, hp1⟩ := rootRef_spec h1
    split at h
    · cases h
    · next c2 r2 h2 =>
      obtain ⟨k2, q2, ho2, hp2⟩ := rootRef_spec h2
      cases h
      exact ⟨k1.trans k2, r1, r2, q1, q2, rfl, (k2.owner _ _).2 ho1, ho2,
        fun ρ hρ => ⟨hp1 ρ ((k2.par ρ).1 hρ), hp2 ρ hρ⟩⟩

theorem childRoots_err {F : Nat} {c : Ctx} {t1 t2 : Nat} {e : Err}
    (h : childRoots F c t1 t2 = .error e) : e = .fuel ∨ e = .panic := by
  unfold childRoots at h
  split at h
  · next e' he => cases h; exact rootRef_err he
  · split at h
    · next e' he => cases h; exact rootRef_err he
    · cases h

theorem dagChildren_spec {F : Nat} {c : Ctx} {b : Nat} {c' : Ctx} {ch : Option (Nat × Nat)}
    (h : dagChildren F c b = .ok (c', ch)) :
    Compress c c' ∧
    (ch = none → c.slab[b]? = some .free ∨ ∃ d, c.slab[b]? = some (Bound.complete d)) ∧
    (∀ l r, ch = some (l, r) → ∃ t1 t2 rl rr,
      (c.slab[b]? = some (Bound.sum t1 t2) ∨ c.slab[b]? = some (Bound.product t1 t2)) ∧
      Owner c' rl l ∧ Owner c' rr r ∧ ∀ ρ, ParentSol ρ c' → (ρ t1 = ρ rl ∧ ρ t2 = ρ rr)) := by
  unfold dagChildren at h
  split at h
  · cases h
  · next t1 t2 hb =>
    obtain ⟨k, l, r, rl, rr, hch, h1, h2, h3⟩ := childRoots_spec h
    subst hch
    refine ⟨k, (fun h => by cases h), fun l' r' hlr => ?_⟩
    cases hlr
    exact ⟨t1, t2, rl, rr, .inl (getBound_ok.1 hb), h1, h2, h3⟩
  · next t1 t2 hb =>
    obtain ⟨k, l, r, rl, rr, hch, h1, h2, h3⟩ := childRoots_spec h
    subst hch
    refine ⟨k, (fun h => by cases h), fun l' r' hlr => ?_⟩
    cases hlr
    exact ⟨t1, t2, rl, rr, .inr (getBound_ok.1 hb), h1, h2, h3⟩
  · next B hns hnp hb =>
    cases h
    refine ⟨Compress.refl _, fun _ => ?_, (fun l r h => by cases h)⟩
    have hb' := getBound_ok.1 hb
    cases B with
    | free => exact .inl hb'
    | complete d => exact .inr ⟨d, hb'⟩
    | sum t1 t2 => exact absurd rfl (hns t1 t2)
    | product t1 t2 => exact absurd rfl (hnp t1 t2)

theorem dagChildren_err {F : Nat} {c : Ctx} {b : Nat} {e : Err}
    (h : dagChildren F c b = .error e) : e = .fuel ∨ e = .panic := by
  unfold dagChildren at h
  split at h
  · next e' he => cases h; exact .inr (getBound_err he)
  · exact childRoots_err h
  · exact childRoots_err h
  · cases h

/-! ### the post-order loop -/

theorem finalizeYield_spec {c : Ctx} {e b : Nat} {dl dr : Ty} {c' : Ctx} {t : Ty} (w : WF c)
    (ho : Owner c e b) (h : finalizeYield c b dl dr = .ok (c', t))
    (hjust : ∀ l r, (c.slab[b]? = some (Bound.sum l r) ∨ c.slab[b]? = some (Bound.product l r)) →
       ∀ t' ρ, Reads ρ (setBound c b (.complete t')) → ρ l = dl ∧ ρ r = dr) :
    FinStep c c' ∧ WF c' ∧ c'.slab[b]? = some (Bound.complete t) ∧
    (∀ ρ, SuperSol ρ c →
      (∀ l r, (c.slab[b]? = some (Bound.sum l r) ∨ c.slab[b]? = some (Bound.product l r)) →
        Le dl (ρ l) ∧ Le dr (ρ r)) → SuperSol ρ c' ∧ Le t (ρ e)) ∧
    (∀ c₀, KInv c₀ c → KInv c₀ c') := by
  have hlt := w.rootLt e b ho
  have hget : ∀ n, (setBound c b n).slab[b]? = some n := fun n => by
    rw [setBound_get, if_pos rfl, if_pos hlt]
  unfold finalizeYield at h
  split at h
  · cases h
  · next hb =>
    cases h
    have hb' := getBound_ok.1 hb
    refine ⟨setBound_fin hb' (fun h => h) _, setBound_wf w _ _, hget _, fun ρ s _ => ?_, fun c₀ k => ?_⟩
    · exact ⟨solG_set_intro w ho s (Le.one _), Le.one _⟩
    · exact k.write w ho hb' (fun h => h) (fun _ _ => trivial)
  · next d hb =>
    cases h
    have hb' := getBound_ok.1 hb
    exact ⟨FinStep.refl _, w, hb', fun ρ s _ => ⟨s, s.2 e b _ ho hb'⟩, fun _ k => k⟩
  · next l r hb =>
    cases h
    have hb' := getBound_ok.1 hb
    refine ⟨setBound_fin hb' (fun h => h) _, setBound_wf w _ _, hget _, fun ρ s hc => ?_, fun c₀ k => ?_⟩
    · have he : ρ e = .sum (ρ l) (ρ r) := s.2 e b _ ho hb'
      have hle : Le (.sum dl dr) (ρ e) := by
        rw [he]; exact Le.sum (hc l r (.inl hb')).1 (hc l r (.inl hb')).2
      exact ⟨solG_set_intro w ho s hle, hle⟩
    · refine k.write w ho hb' (fun h => h) (fun ρ hr => ?_)
      have he : ρ e = .sum dl dr := hr.2 e b _ ho (hget _)
      obtain ⟨h1, h2⟩ := hjust l r (.inl hb') _ ρ hr
      show ρ e = .sum (ρ l) (ρ r)
      rw [he, h1, h2]
  · next l r hb =>
    cases h
    have hb' := getBound_ok.1 hb
    refine ⟨setBound_fin hb' (fun h => h) _, setBound_wf w _ _, hget _, fun ρ s hc => ?_, fun c₀ k => ?_⟩
    · have he : ρ e = .prod (ρ l) (ρ r) := s.2 e b _ ho hb'
      have hle : Le (.prod dl dr) (ρ e) := by
        rw [he]; exact Le.prod (hc l r (.inr hb')).1 (hc l r (.inr hb')).2
      exact ⟨solG_set_intro w ho s hle, hle⟩
    · refine k.write w ho hb' (fun h => h) (fun ρ hr => ?_)
      have he : ρ e = .prod dl dr := hr.2 e b _ ho (hget _)
      obtain ⟨h1, h2⟩ := hjust l r (.inr hb') _ ρ hr
      show ρ e = .prod (ρ l) (ρ r)
      rw [he, h1, h2]

/-- what finalising the bound `b` of the root `e` achieves -/
structure FinRes (c : Ctx) (e b : Nat) (c' : Ctx) (t : Ty) : Prop where
  fin : FinStep c c'
  wf : WF c'
  stored : c'.slab[b]? = some (Bound.complete t)
  sup : ∀ ρ, SuperSol ρ c → SuperSol ρ c' ∧ Le t (ρ e)
  kinv : ∀ c₀, KInv c₀ c → KInv c₀ c'

theorem finalizeRec_spec (F : Nat) : ∀ (f : Nat) (c : Ctx) (b : Nat) (c' : Ctx) (t : Ty),
    finalizeRec F f c b = .ok (c', t) → WF c → ∀ e, Owner c e b → FinRes c e b c' t
  | 0 => by intro c b c' t h; simp [finalizeRec] at h
  | f+1 => by
    intro c b c' t h w e ho
    have ih := finalizeRec_spec F f
    unfold finalizeRec at h
    split at h
    · cases h
    · next c1 h1 =>
      -- a leaf of the type DAG
      obtain ⟨k1, hleaf, _⟩ := dagChildren_spec h1
      have hleaf := hleaf rfl
      have w1 := k1.wf w
      have ho1 : Owner c1 e b := (k1.owner _ _).2 ho
      have hno : ∀ l r, ¬ (c1.slab[b]? = some (Bound.sum l r) ∨ c1.slab[b]? = some (Bound.product l r)) := by
        intro l r hh
        rw [k1.slab] at hh
        rcases hleaf with h0 | ⟨d, h0⟩ <;> rcases hh with hh | hh <;> (rw [h0] at hh; cases hh)
      obtain ⟨y1, y2, y3, y4, y5⟩ := finalizeYield_spec w1 ho1 h (fun l r hh => absurd hh (hno l r))
      exact ⟨k1.fin.trans y1, y2, y3,
        fun ρ s => y4 ρ ((k1.solG _ ρ).2 s) (fun l r hh => absurd hh (hno l r)),
        fun c₀ k => y5 c₀ (k.compress k1)⟩
    · next c1 l r h1 =>
      obtain ⟨k1, _, hch⟩ := dagChildren_spec h1
      obtain ⟨t1, t2, rl, rr, hsl, hol, hor, hp⟩ := hch l r rfl
      have w1 := k1.wf w
      split at h
      · cases h
      · next c2 dl h2 =>
        have R2 := ih _ _ _ _ h2 w1 rl hol
        split at h
        · cases h
        · next c3 dr h3 =>
          have R3 := ih _ _ _ _ h3 R2.wf rr (R2.fin.owner _ _ hor)
          have f13 : FinStep c1 c3 := R2.fin.trans R3.fin
          have f03 : FinStep c c3 := k1.fin.trans f13
          have ho3 : Owner c3 e b := f03.owner _ _ ho
          -- the bound at `b`, if still incomplete, is the one that was expanded
          have hsame : ∀ l' r', (c3.slab[b]? = some (Bound.sum l' r') ∨ c3.slab[b]? = some (Bound.product l' r')) →
              l' = t1 ∧ r' = t2 := by
            intro l' r' hh
            rcases hh with hh | hh
            · have := f03.frame b _ hh (fun h => h)
              rcases hsl with h0 | h0 <;> (rw [h0] at this; cases this)
              exact ⟨rfl, rfl⟩
            · have := f03.frame b _ hh (fun h => h)
              rcases hsl with h0 | h0 <;> (rw [h0] at this; cases this)
              exact ⟨rfl, rfl⟩
          have hjust : ∀ l' r', (c3.slab[b]? = some (Bound.sum l' r') ∨ c3.slab[b]? = some (Bound.product l' r')) →
              ∀ t' ρ, Reads ρ (setBound c3 b (.complete t')) → ρ l' = dl ∧ ρ r' = dr := by
            intro l' r' hh t' ρ hr
            obtain ⟨rfl, rfl⟩ := hsame l' r' hh
            have hpar : ParentSol ρ c1 := f13.mono.par ρ hr.1
            obtain ⟨e1, e2⟩ := hp ρ hpar
            have hsl3 : c3.slab[l]? = some (Bound.complete dl) := R3.fin.mono.slabC _ _ R2.stored
            have hnb : ∀ x d, c3.slab[x]? = some (Bound.complete d) → b ≠ x := by
              rintro x d hx rfl
              rcases hh with hh | hh <;> (rw [hx] at hh; cases hh)
            have r1 : ρ rl = dl :=
              hr.2 rl l (Bound.complete dl) (f13.owner _ _ hol) (by rw [setBound_get, if_neg (hnb _ _ hsl3)]; exact hsl3)
            have r2 : ρ rr = dr :=
              hr.2 rr r (Bound.complete dr) (R3.fin.owner _ _ (R2.fin.owner _ _ hor))
                (by rw [setBound_get, if_neg (hnb _ _ R3.stored)]; exact R3.stored)
            exact ⟨e1.trans r1, e2.trans r2⟩
          obtain ⟨y1, y2, y3, y4, y5⟩ := finalizeYield_spec R3.wf ho3 h hjust
          refine ⟨f03.trans y1, y2, y3, fun ρ s => ?_, fun c₀ k => y5 c₀ (R3.kinv c₀ (R2.kinv c₀ (k.compress k1)))⟩
          have s1 : SuperSol ρ c1 := (k1.solG _ ρ).2 s
          obtain ⟨s2, le1⟩ := R2.sup ρ s1
          obtain ⟨s3, le2⟩ := R3.sup ρ s2
          obtain ⟨e1, e2⟩ := hp ρ s1.1
          refine y4 ρ s3 (fun l' r' hh => ?_)
          obtain ⟨rfl, rfl⟩ := hsame l' r' hh
          rw [e1, e2]; exact ⟨le1, le2⟩

theorem finalizeRec_err (F : Nat) : ∀ (f : Nat) (c : Ctx) (b : Nat) (e : Err),
    finalizeRec F f c b = .error e → e = .fuel ∨ e = .panic
  | 0 => by intro c b e h; simp [finalizeRec] at h; exact .inl h.symm
  | f+1 => by
    intro c b e h
    have ih := finalizeRec_err F f
    have hy : ∀ c b dl dr, finalizeYield c b dl dr = .error e → e = .fuel ∨ e = .panic := by
      intro c b dl dr h
      unfold finalizeYield at h
      split at h
      · next e' he => cases h; exact .inr (getBound_err he)
      all_goals cases h
    unfold finalizeRec at h
    split at h
    · next e' he => cases h; exact dagChildren_err he
    · exact hy _ _ _ _ h
    · split at h
      · next e' he => cases h; exact ih _ _ _ he
      · split at h
        · next e' he => cases h; exact ih _ _ _ he
        · exact hy _ _ _ _ h

end UB
