/-
C08: the driver's `reachable` (one pass from high to low indices) marks exactly the nodes reachable
from the root through children, for plans whose children precede their parents: the marked set
contains the root, is closed under children, lies inside the plan, and every marked node is
reachable (`Reach`).
-/
import SimplicityModel.PruneTyped

namespace Prog
open BM4

/-- `j` is reachable from `r` through children -/
inductive Reach (p : Plan) (r : Nat) : Nat → Prop
  | root : Reach p r r
  | child {j c : Nat} {nd : Node} : Reach p r j → p[j]? = some nd → c ∈ nd.children → Reach p r c

abbrev bitAt (m : Array Bool) (j : Nat) : Bool := m.getD j false

def markAll (m : Array Bool) (cs : List Nat) : Array Bool := cs.foldl (fun m c => m.setIfInBounds c true) m

def rstep (p : Plan) (m : Array Bool) (i : Nat) : Array Bool :=
  if m.getD i false then markAll m (p.getD i .unit).children else m

def rgo (p : Plan) : Nat → Array Bool → Array Bool
  | 0, m => m
  | k+1, m => rgo p k (rstep p m k)

theorem reachable_eq_rgo (p : Plan) :
    reachable p = rgo p p.size ((Array.replicate p.size false).setIfInBounds (p.size - 1) true) := by
  unfold reachable
  simp only []
  generalize (Array.replicate p.size false).setIfInBounds (p.size - 1) true = init
  have key : ∀ (k : Nat) (m : Array Bool),
      (List.range k).reverse.foldl (fun m i =>
        if m.getD i false then (p.getD i .unit).children.foldl (fun m c => m.setIfInBounds c true) m else m) m
        = rgo p k m := by
    intro k
    induction k with
    | zero => intro m; rfl
    | succ k ih =>
      intro m
      rw [List.range_succ, List.reverse_append]
      simp only [List.reverse_cons, List.reverse_nil, List.nil_append, List.cons_append, List.foldl_cons]
      rw [ih]
      rfl
  exact key p.size init

theorem bitAt_set (m : Array Bool) (c j : Nat) :
    bitAt (m.setIfInBounds c true) j = (bitAt m j || (decide (c = j) && decide (j < m.size))) := by
  simp only [bitAt, Array.getD_eq_getD_getElem?, Array.getElem?_setIfInBounds]
  by_cases h : c = j
  · subst h
    by_cases h2 : c < m.size
    · simp [h2]
    · simp [h2, Array.getElem?_eq_none (Nat.le_of_not_lt h2)]
  · simp [h]

theorem markAll_size (m : Array Bool) (cs : List Nat) : (markAll m cs).size = m.size := by
  induction cs generalizing m with
  | nil => rfl
  | cons c cs ih => simp only [markAll, List.foldl_cons] at ih ⊢; rw [ih]; simp

theorem bitAt_markAll (m : Array Bool) (cs : List Nat) (j : Nat) :
    bitAt (markAll m cs) j = true ↔ bitAt m j = true ∨ (j ∈ cs ∧ j < m.size) := by
  induction cs generalizing m with
  | nil => simp [markAll]
  | cons c cs ih =>
    simp only [markAll, List.foldl_cons] at ih ⊢
    rw [ih, bitAt_set]
    simp only [Array.size_setIfInBounds, Bool.or_eq_true, Bool.and_eq_true, decide_eq_true_eq, List.mem_cons]
    constructor
    · rintro ((h | ⟨rfl, h⟩) | ⟨h1, h2⟩)
      · exact .inl h
      · exact .inr ⟨.inl rfl, h⟩
      · exact .inr ⟨.inr h1, h2⟩
    · rintro (h | ⟨rfl | h1, h2⟩)
      · exact .inl (.inl h)
      · exact .inl (.inr ⟨rfl, h2⟩)
      · exact .inr ⟨h1, h2⟩

theorem rstep_size (p : Plan) (m : Array Bool) (i : Nat) : (rstep p m i).size = m.size := by
  unfold rstep; split
  · exact markAll_size _ _
  · rfl

theorem rgo_size (p : Plan) : ∀ (k : Nat) (m : Array Bool), (rgo p k m).size = m.size
  | 0, _ => rfl
  | k+1, m => by simp only [rgo]; rw [rgo_size p k, rstep_size]

theorem rstep_mono (p : Plan) (m : Array Bool) (i j : Nat) (h : bitAt m j = true) : bitAt (rstep p m i) j = true := by
  unfold rstep; split
  · exact (bitAt_markAll _ _ _).2 (.inl h)
  · exact h

theorem rgo_mono (p : Plan) : ∀ (k : Nat) (m : Array Bool) (j : Nat), bitAt m j = true → bitAt (rgo p k m) j = true
  | 0, _, _, h => h
  | k+1, m, j, h => by simp only [rgo]; exact rgo_mono p k _ j (rstep_mono p m k j h)

theorem getD_children {p : Plan} {i : Nat} {nd : Node} (h : p[i]? = some nd) : p.getD i .unit = nd := by
  simp [Array.getD_eq_getD_getElem?, h]

/-- only children of `i` change at step `i`; they are below `i` -/
theorem rstep_ge (p : Plan) (hwf : wf p = true) (m : Array Bool) (i j : Nat) (hj : i ≤ j) :
    bitAt (rstep p m i) j = bitAt m j := by
  unfold rstep
  split
  · next hm =>
    cases hb : bitAt m j with
    | true => exact (bitAt_markAll _ _ _).2 (.inl hb)
    | false =>
      cases hb' : bitAt (markAll m (p.getD i .unit).children) j with
      | false => rfl
      | true =>
        exfalso
        rcases (bitAt_markAll _ _ _).1 hb' with h | ⟨h1, _⟩
        · rw [hb] at h; cases h
        · by_cases hi : i < p.size
          · have hnd : p[i]? = some p[i] := by simp [hi]
            rw [getD_children hnd] at h1
            have := wf_children hwf hnd j h1
            omega
          · have : p.getD i .unit = .unit := by
              simp [Array.getD_eq_getD_getElem?, Array.getElem?_eq_none (Nat.le_of_not_lt hi)]
            rw [this] at h1
            simp [Node.children] at h1
  · rfl

theorem rgo_ge (p : Plan) (hwf : wf p = true) : ∀ (k : Nat) (m : Array Bool) (j : Nat), k ≤ j →
    bitAt (rgo p k m) j = bitAt m j
  | 0, _, _, _ => rfl
  | k+1, m, j, h => by
    simp only [rgo]
    rw [rgo_ge p hwf k _ j (by omega), rstep_ge p hwf m k j (by omega)]

/-- after the pass over the indices below `k`, every marked node below `k` has its children marked -/
theorem rgo_closed (p : Plan) (hwf : wf p = true) : ∀ (k : Nat) (m : Array Bool), m.size = p.size →
    ∀ j, j < k → bitAt (rgo p k m) j = true → ∀ nd, p[j]? = some nd → ∀ c ∈ nd.children,
      bitAt (rgo p k m) c = true
  | 0, _, _, _, h, _, _, _, _, _ => by omega
  | k+1, m, hs, j, hj, hb, nd, hnd, c, hc => by
    simp only [rgo] at hb ⊢
    by_cases hjk : j < k
    · exact rgo_closed p hwf k _ (by rw [rstep_size, hs]) j hjk hb nd hnd c hc
    · have : j = k := by omega
      subst this
      rw [rgo_ge p hwf j _ j (Nat.le_refl _)] at hb
      have hm : bitAt m j = true := by
        unfold rstep at hb
        split at hb
        · next h => exact h
        · exact hb
      apply rgo_mono
      have hm' : m.getD j false = true := hm
      unfold rstep
      rw [if_pos hm', getD_children hnd]
      refine (bitAt_markAll _ _ _).2 (.inr ⟨hc, ?_⟩)
      have := wf_children hwf hnd c hc
      have := lt_size_of_getElem? hnd
      omega

theorem rstep_sound (p : Plan) (r : Nat) (m : Array Bool) (i : Nat)
    (h : ∀ j, bitAt m j = true → Reach p r j) : ∀ j, bitAt (rstep p m i) j = true → Reach p r j := by
  intro j hj
  unfold rstep at hj
  split at hj
  · next hm =>
    rcases (bitAt_markAll _ _ _).1 hj with h1 | ⟨h1, _⟩
    · exact h j h1
    · by_cases hi : i < p.size
      · have hnd : p[i]? = some p[i] := by simp [hi]
        rw [getD_children hnd] at h1
        exact .child (h i hm) hnd h1
      · have : p.getD i .unit = .unit := by
          simp [Array.getD_eq_getD_getElem?, Array.getElem?_eq_none (Nat.le_of_not_lt hi)]
        rw [this] at h1
        simp [Node.children] at h1
  · exact h j hj

theorem rgo_sound (p : Plan) (r : Nat) : ∀ (k : Nat) (m : Array Bool),
    (∀ j, bitAt m j = true → Reach p r j) → ∀ j, bitAt (rgo p k m) j = true → Reach p r j
  | 0, _, h => h
  | k+1, m, h => by simp only [rgo]; exact rgo_sound p r k _ (rstep_sound p r m k h)

theorem bitAt_lt {m : Array Bool} {j : Nat} (h : bitAt m j = true) : j < m.size := by
  by_cases hj : j < m.size
  · exact hj
  · simp [bitAt, Array.getD_eq_getD_getElem?, Array.getElem?_eq_none (Nat.le_of_not_lt hj)] at h

theorem reachable_size (p : Plan) : (reachable p).size = p.size := by
  rw [reachable_eq_rgo, rgo_size]; simp

/-- marked nodes are nodes of the plan -/
theorem reachable_lt (p : Plan) {j : Nat} (h : (reachable p).getD j false = true) : j < p.size := by
  have := bitAt_lt h
  rwa [reachable_size] at this

/-- the root is marked -/
theorem reachable_root (p : Plan) (hp : 0 < p.size) : (reachable p).getD (p.size - 1) false = true := by
  rw [reachable_eq_rgo]
  apply rgo_mono
  rw [bitAt_set]
  simp; omega

/-- the marked set is closed under children -/
theorem reachable_closed (p : Plan) (hwf : wf p = true) {j : Nat} {nd : Node}
    (h : (reachable p).getD j false = true) (hnd : p[j]? = some nd) :
    ∀ c ∈ nd.children, (reachable p).getD c false = true := by
  have hj := reachable_lt p h
  rw [reachable_eq_rgo] at h ⊢
  exact rgo_closed p hwf p.size _ (by simp) j hj h nd hnd

/-- every marked node is reachable from the root -/
theorem reachable_sound (p : Plan) {j : Nat} (h : (reachable p).getD j false = true) :
    Reach p (p.size - 1) j := by
  rw [reachable_eq_rgo] at h
  refine rgo_sound p (p.size - 1) p.size _ ?_ j h
  intro k hk
  rw [bitAt_set] at hk
  simp only [Bool.or_eq_true, Bool.and_eq_true, decide_eq_true_eq] at hk
  rcases hk with hk | ⟨rfl, _⟩
  · simp [bitAt, Array.getD_eq_getD_getElem?] at hk
    by_cases h2 : k < p.size
    · simp [h2] at hk
    · simp [Array.getElem?_eq_none, Nat.le_of_not_lt h2] at hk
  · exact .root

/-! ### the pruned plan keeps size and well-formedness -/

theorem pruneNode_children_sub (S : List (Nat × Bool)) (id : Nat) (cm : Nat → Nat) (nd : Node) :
    ∀ c ∈ (pruneNode S id cm nd).children, c ∈ nd.children := by
  cases nd with
  | case a b =>
    simp only [pruneNode]
    cases decide ((id, false) ∈ S) <;> cases decide ((id, true) ∈ S) <;> simp [Node.children]
  | _ => intro c hc; exact hc

theorem pruneList_length (S : List (Nat × Bool)) (ids : Nat → Nat) (cm : Nat → Nat) :
    ∀ (ns : List Node) (i : Nat), (pruneList S ids cm i ns).length = ns.length
  | [], _ => rfl
  | _ :: ns, i => by simp [pruneList, pruneList_length S ids cm ns (i + 1)]

theorem prunePlan_size (S : List (Nat × Bool)) (ids : Nat → Nat) (cm : Nat → Nat) (p : Plan) :
    (prunePlan S ids cm p).size = p.size := by
  simp [prunePlan, pruneList_length]

theorem wfFrom_pruneList (S : List (Nat × Bool)) (ids : Nat → Nat) (cm : Nat → Nat) :
    ∀ (ns : List Node) (i : Nat), wfFrom i ns = true → wfFrom i (pruneList S ids cm i ns) = true
  | [], _, _ => rfl
  | nd :: ns, i, h => by
    simp only [wfFrom, Bool.and_eq_true, List.all_eq_true, decide_eq_true_eq] at h
    simp only [pruneList, wfFrom, Bool.and_eq_true, List.all_eq_true, decide_eq_true_eq]
    exact ⟨fun c hc => h.1 c (pruneNode_children_sub S _ cm nd c hc), wfFrom_pruneList S ids cm ns (i + 1) h.2⟩

theorem wf_prunePlan (S : List (Nat × Bool)) (ids : Nat → Nat) (cm : Nat → Nat) (p : Plan) (h : wf p = true) :
    wf (prunePlan S ids cm p) = true := by
  simp only [wf, prunePlan] at h ⊢
  exact wfFrom_pruneList S ids cm p.toList 0 h

end Prog
