import SimplicityModel.BitStream
import SimplicityModel.NatCodecW
/-
C13 — the bit reader *as it is now* (`BitIter` with the `remaining` bit budget of the repaired
`byte_slice_window`): every public operation on the budgeted reader `LReader`
(`r` = the four original fields, `limit` = `remaining`, `none` = `usize::MAX`):

  `next`/`read_bit` (BitStream.lean), `read_u2`, `read_u8` (refuses when the budget is below 8),
  `size_hint`/`len`, `n_total_read`, `close` (does not look at the budget), `read_natural`.

Each is specified against the bit-list abstraction `LReader.remaining`.
-/
namespace BitStream
open Spk (DErr)

def LReader.new (bytes : List Nat) : LReader := ⟨Reader.new bytes, none⟩

/-- the invariant of a `BitIter`: `read_bits ∈ 1..=8`, bytes are bytes -/
def LReader.WF (l : LReader) : Prop :=
  1 ≤ l.r.readBits ∧ l.r.readBits ≤ 8 ∧ l.r.cached < 256 ∧ ∀ b ∈ l.r.rest, b < 256

theorem LReader.new_wf (bytes : List Nat) (h : ∀ b ∈ bytes, b < 256) : (LReader.new bytes).WF :=
  ⟨by simp [LReader.new, Reader.new], by simp [LReader.new, Reader.new],
   by simp [LReader.new, Reader.new], h⟩

/-- bits left in the cached byte and the byte iterator -/
def LReader.avail (l : LReader) : Nat := 8 - l.r.readBits + 8 * l.r.rest.length

/-- `size_hint` / `ExactSizeIterator::len`: `min(8 - read_bits + 8 * n, remaining)` -/
def LReader.len (l : LReader) : Nat :=
  match l.limit with
  | none => l.avail
  | some k => min l.avail k

theorem Reader.remaining_length (r : Reader) (h : r.readBits ≤ 8) :
    r.remaining.length = 8 - r.readBits + 8 * r.rest.length := by
  simp [Reader.remaining, bitsOf_length]

/-- **`len`** is the number of bits the reader will still deliver -/
theorem LReader.len_spec (l : LReader) (h : l.r.readBits ≤ 8) : l.len = l.remaining.length := by
  unfold LReader.len LReader.remaining LReader.avail
  cases l.limit with
  | none => simp [Reader.remaining_length _ h]
  | some k => simp [Reader.remaining_length _ h, Nat.min_comm]

theorem Reader.next_bytes (r : Reader) (b : Bool) (r' : Reader) (h : r.next = some (b, r'))
    (hc : r.cached < 256) (hb : ∀ x ∈ r.rest, x < 256) :
    r'.cached < 256 ∧ ∀ x ∈ r'.rest, x < 256 := by
  unfold Reader.next at h
  split at h
  · simp at h; obtain ⟨_, rfl⟩ := h; exact ⟨hc, hb⟩
  · split at h
    · simp at h
    · next x rest hrest =>
      simp at h; obtain ⟨_, rfl⟩ := h
      simp only []
      rw [hrest] at hb
      exact ⟨hb x (by simp), fun y hy => hb y (by simp [hy])⟩

/-- **`next` / `read_bit`** on the budgeted reader: delivers the head of `remaining`, the counter
advances by one, the invariant is kept; fails exactly when nothing remains -/
theorem LReader.next_spec' (l : LReader) (h : l.WF) :
    match l.next with
    | some (b, l') => l.remaining = b :: l'.remaining ∧ l'.r.total = l.r.total + 1 ∧ l'.WF
    | none => l.remaining = [] := by
  obtain ⟨h1, h8, hc, hb⟩ := h
  have hs := l.r.next_spec h8
  have hby := l.r.next_bytes
  unfold LReader.next LReader.remaining
  cases hl : l.limit with
  | none =>
    simp only []
    cases hn : l.r.next with
    | none => rw [hn] at hs; simpa using hs
    | some p =>
      obtain ⟨b, r'⟩ := p
      rw [hn] at hs
      obtain ⟨hb1, hb2⟩ := hby b r' hn hc hb
      exact ⟨by simpa using hs.1, hs.2.1, hs.2.2.1, hs.2.2.2, hb1, hb2⟩
  | some k =>
    cases k with
    | zero => simp
    | succ k =>
      simp only []
      cases hn : l.r.next with
      | none => rw [hn] at hs; simp [hs]
      | some p =>
        obtain ⟨b, r'⟩ := p
        rw [hn] at hs
        obtain ⟨hb1, hb2⟩ := hby b r' hn hc hb
        exact ⟨by simp [hs.1], hs.2.1, hs.2.2.1, hs.2.2.2, hb1, hb2⟩

/-- each delivered bit uses up one bit of `avail` (termination of the loops below) -/
theorem LReader.next_avail (l : LReader) (b : Bool) (l' : LReader) (h : l.next = some (b, l')) :
    l'.avail < l.avail := by
  unfold LReader.next at h
  have key : ∀ r', l.r.next = some (b, r') → 8 - r'.readBits + 8 * r'.rest.length < l.avail := by
    intro r' hn
    unfold Reader.next at hn
    unfold LReader.avail
    split at hn
    · simp at hn; obtain ⟨_, rfl⟩ := hn; simp only []; omega
    · split at hn
      · simp at hn
      · next x rest hrest =>
        simp at hn; obtain ⟨_, rfl⟩ := hn
        simp only [hrest, List.length_cons]; omega
  split at h
  · simp at h
  · split at h
    · simp at h
    · next bb r' hn =>
      simp at h; obtain ⟨rfl, rfl⟩ := h
      exact key r' hn

/-! ### `read_u2` -/

/-- `read_u2`: `match (self.next(), self.next())` — both calls are made.  On failure the reader
keeps the bit it consumed (returned as the state of the failure). -/
def LReader.readU2 (l : LReader) : Option (Bool × Bool) × LReader :=
  match l.next with
  | none => (none, l)
  | some (b0, l1) => match l1.next with
    | none => (none, l1)
    | some (b1, l2) => (some (b0, b1), l2)

theorem LReader.readU2_spec (l : LReader) (h : l.WF) :
    match l.readU2 with
    | (some (b0, b1), l') => l.remaining = b0 :: b1 :: l'.remaining ∧ l'.r.total = l.r.total + 2 ∧ l'.WF
    | (none, l') => l.remaining.length < 2 ∧ l'.remaining = [] ∧
        l'.r.total = l.r.total + l.remaining.length := by
  have h1 := l.next_spec' h
  cases hn : l.next with
  | none =>
    rw [hn] at h1
    have : l.readU2 = (none, l) := by simp [LReader.readU2, hn]
    rw [this]; simp [h1]
  | some p =>
    obtain ⟨b0, l1⟩ := p
    rw [hn] at h1
    obtain ⟨e1, t1, w1⟩ := h1
    have h2 := l1.next_spec' w1
    cases hn2 : l1.next with
    | none =>
      rw [hn2] at h2
      have : l.readU2 = (none, l1) := by simp [LReader.readU2, hn, hn2]
      rw [this]; simp [e1, h2, t1]
    | some p2 =>
      obtain ⟨b1, l2⟩ := p2
      rw [hn2] at h2
      obtain ⟨e2, t2, w2⟩ := h2
      have : l.readU2 = (some (b0, b1), l2) := by simp [LReader.readU2, hn, hn2]
      rw [this]
      exact ⟨by rw [e1, e2], by omega, w2⟩

/-! ### `read_u8` with the budget -/

/-- `read_u8`: refuses when fewer than eight bits of budget are left, otherwise as before, and
takes eight bits off the budget -/
def LReader.readU8 (l : LReader) : Option (Nat × LReader) :=
  match l.limit with
  | some k =>
    if k < 8 then none
    else match l.r.readU8 with
      | none => none
      | some (v, r') => some (v, ⟨r', some (k - 8)⟩)
  | none =>
    match l.r.readU8 with
    | none => none
    | some (v, r') => some (v, ⟨r', none⟩)

theorem Reader.readU8_bytes (r : Reader) (v : Nat) (r' : Reader) (h : r.readU8 = some (v, r'))
    (hb : ∀ x ∈ r.rest, x < 256) : r'.cached < 256 ∧ ∀ x ∈ r'.rest, x < 256 := by
  unfold Reader.readU8 at h
  split at h
  · simp at h
  · next x rest hrest =>
    simp at h; obtain ⟨_, rfl⟩ := h
    simp only []
    rw [hrest] at hb
    exact ⟨hb x (by simp), fun y hy => hb y (by simp [hy])⟩

/-- the `u8` sum of `read_u8` does not overflow -/
theorem readU8_lt (c n r : Nat) (hn : n < 256) (h1 : 1 ≤ r) (h8 : r ≤ 8) : Bytes.readU8 c n r < 256 := by
  unfold Bytes.readU8
  have : r = 1 ∨ r = 2 ∨ r = 3 ∨ r = 4 ∨ r = 5 ∨ r = 6 ∨ r = 7 ∨ r = 8 := by omega
  rcases this with rfl | rfl | rfl | rfl | rfl | rfl | rfl | rfl <;>
    simp only [Nat.shiftLeft_eq, Nat.shiftRight_eq_div_pow] <;> omega

/-- **`read_u8`**: the next eight bits of `remaining` at any alignment, as a byte; the counter
advances by eight; refuses exactly when fewer than eight bits remain (and then changes nothing) -/
theorem LReader.readU8_spec (l : LReader) (h : l.WF) :
    match l.readU8 with
    | some (v, l') => l.remaining = byteBits v ++ l'.remaining ∧ v < 256 ∧
        l'.r.total = l.r.total + 8 ∧ l'.WF
    | none => l.remaining.length < 8 := by
  obtain ⟨h1, h8, hc, hb⟩ := h
  have hs := l.r.readU8_spec h1 h8 hc hb
  have hby := l.r.readU8_bytes
  have hlen := l.r.remaining_length h8
  have hv : ∀ v r', l.r.readU8 = some (v, r') → v < 256 := by
    intro v r' hr
    unfold Reader.readU8 at hr
    split at hr
    · simp at hr
    · next x rest hrest =>
      simp at hr; obtain ⟨rfl, _⟩ := hr
      exact readU8_lt _ _ _ (hb x (by simp [hrest])) h1 h8
  unfold LReader.readU8 LReader.remaining
  cases hl : l.limit with
  | none =>
    simp only []
    cases hn : l.r.readU8 with
    | none => rw [hn] at hs; simp only []; rw [hlen, hs]; simp; omega
    | some p =>
      obtain ⟨v, r'⟩ := p
      rw [hn] at hs
      obtain ⟨hb1, hb2⟩ := hby v r' hn hb
      exact ⟨hs.1, hv v r' hn, hs.2.1, by rw [hs.2.2]; exact h1, by rw [hs.2.2]; exact h8, hb1, hb2⟩
  | some k =>
    simp only []
    by_cases hk : k < 8
    · rw [if_pos hk]; simp only [List.length_take]; omega
    · rw [if_neg hk]
      cases hn : l.r.readU8 with
      | none => rw [hn] at hs; simp only [List.length_take]; rw [hlen, hs]; simp; omega
      | some p =>
        obtain ⟨v, r'⟩ := p
        rw [hn] at hs
        obtain ⟨hb1, hb2⟩ := hby v r' hn hb
        refine ⟨?_, hv v r' hn, hs.2.1, by rw [hs.2.2]; exact h1, by rw [hs.2.2]; exact h8, hb1, hb2⟩
        simp only []
        rw [hs.1, List.take_append, byteBits_length,
          List.take_of_length_le (l := byteBits v) (by simp; omega)]

/-! ### `close` -/

inductive CloseRes
  | ok
  | trailing (firstByte : Nat)
  | padding (masked nBits : Nat)
deriving DecidableEq, Repr

/-- `close`: `TrailingBytes` when the byte iterator still yields, `IllegalPadding` when
`cached_byte & ((1 << n_bits) - 1) ≠ 0` with `n_bits = 8 - read_bits`.  The budget is not consulted. -/
def LReader.closeE (l : LReader) : CloseRes :=
  match l.r.rest with
  | b :: _ => .trailing b
  | [] =>
    let nBits := 8 - l.r.readBits
    let masked := l.r.cached &&& ((1 <<< nBits) - 1)
    if masked ≠ 0 then .padding masked nBits else .ok

theorem LReader.closeE_ok_iff (l : LReader) : l.closeE = .ok ↔ l.r.close = true := by
  unfold LReader.closeE Reader.close
  cases l.r.rest with
  | cons b rest => simp
  | nil =>
    simp only [List.isEmpty_nil, Bool.true_and, beq_iff_eq]
    rw [Nat.one_shiftLeft, Nat.and_two_pow_sub_one_eq_mod]
    by_cases h : l.r.cached % 2 ^ (8 - l.r.readBits) = 0 <;> simp [h]

/-- **`close`** succeeds exactly when fewer than eight bits are left in the underlying bytes (only
padding remains) and all of them are zero -/
theorem LReader.close_spec (l : LReader) (h : l.WF) :
    l.closeE = .ok ↔ l.r.remaining.length < 8 ∧ ∀ b ∈ l.r.remaining, b = false := by
  obtain ⟨h1, h8, _, _⟩ := h
  rw [l.closeE_ok_iff, l.r.close_spec h1 h8, l.r.remaining_length h8]
  constructor
  · rintro ⟨hr, hz⟩; exact ⟨by rw [hr]; simp; omega, hz⟩
  · rintro ⟨hl, hz⟩
    refine ⟨?_, hz⟩
    cases hr : l.r.rest with
    | nil => rfl
    | cons b rest => rw [hr] at hl; simp at hl; omega

/-! ### `read_natural` on the reader -/

/-- the first loop of `read_natural`: count `1` bits up to the first `0` -/
def LReader.countOnes (l : LReader) : Except DErr (Nat × LReader) :=
  match h : l.next with
  | none => .error .eof
  | some (false, l') => .ok (0, l')
  | some (true, l') =>
    match LReader.countOnes l' with
    | .error e => .error e
    | .ok (k, l'') => .ok (k + 1, l'')
termination_by l.avail
decreasing_by exact l.next_avail _ _ h

/-- `for _ in 0..len { n = 2 * n + bit }` -/
def LReader.readBitsAcc : Nat → Nat → LReader → Except DErr (Nat × LReader)
  | 0, acc, l => .ok (acc, l)
  | len+1, acc, l =>
    match l.next with
    | none => .error .eof
    | some (b, l') => LReader.readBitsAcc len (2 * acc + b.toNat) l'

/-- the second loop of `read_natural` -/
def LReader.natLoop (maxVal : Nat) (bound : Option Nat) : Nat → Nat → LReader → Except DErr (Nat × LReader)
  | d, len, l =>
    match LReader.readBitsAcc len 1 l with
    | .error e => .error e
    | .ok (v, l') =>
      match d with
      | 0 => match Spk.finish maxVal bound v with
        | .error e => .error e
        | .ok v => .ok (v, l')
      | d'+1 => if v > 31 then .error .overflow else LReader.natLoop maxVal bound d' v l'

/-- `BitIter::read_natural::<N>(bound)`, `maxVal` = the largest value `N::try_from` accepts -/
def LReader.readNatural (maxVal : Nat) (bound : Option Nat) (l : LReader) : Except DErr (Nat × LReader) :=
  match l.countOnes with
  | .error e => .error e
  | .ok (d, l') => LReader.natLoop maxVal bound d 0 l'

/-- what "the reader computed the same as the list function" means: same error, or same value
with the reader's `remaining` equal to the list function's rest; the counter advanced by the
number of bits consumed; invariant kept -/
def Sim (l : LReader) (got : Except DErr (Nat × LReader)) (want : Except DErr (Nat × List Bool)) : Prop :=
  match got with
  | .ok (v, l') => want = .ok (v, l'.remaining) ∧
      l'.r.total + l'.remaining.length = l.r.total + l.remaining.length ∧ l'.WF
  | .error e => want = .error e

theorem LReader.countOnes_sim (l : LReader) (h : l.WF) :
    Sim l l.countOnes (match Spk.countOnes l.remaining with
      | .error e => .error e.lift | .ok p => .ok p) := by
  induction hm : l.avail using Nat.strongRecOn generalizing l with
  | _ m ih =>
    have hs := l.next_spec' h
    rw [LReader.countOnes]
    split
    · next hn =>
      rw [hn] at hs
      simp [Sim, hs, Spk.countOnes, Spk.Err.lift]
    · next l' hn =>
      rw [hn] at hs
      obtain ⟨e, t, w⟩ := hs
      simp only [Sim, e, Spk.countOnes, List.length_cons]
      exact ⟨trivial, by omega, w⟩
    · next l' hn =>
      rw [hn] at hs
      obtain ⟨e, t, w⟩ := hs
      have := ih l'.avail (by rw [← hm]; exact l.next_avail _ _ hn) l' w rfl
      rw [e]
      simp only [Spk.countOnes]
      cases hc : LReader.countOnes l' with
      | error e' =>
        rw [hc] at this
        simp only [Sim] at this ⊢
        cases hc2 : Spk.countOnes l'.remaining with
        | error e2 => rw [hc2] at this; simp at this; simp [this]
        | ok p => rw [hc2] at this; simp at this
      | ok p =>
        obtain ⟨k, l''⟩ := p
        rw [hc] at this
        simp only [Sim] at this ⊢
        cases hc2 : Spk.countOnes l'.remaining with
        | error e2 => rw [hc2] at this; simp at this
        | ok q =>
          obtain ⟨k2, r2⟩ := q
          rw [hc2] at this
          simp only [Except.ok.injEq, Prod.mk.injEq] at this
          obtain ⟨⟨rfl, rfl⟩, t2, w2⟩ := this
          exact ⟨rfl, by have hl := congrArg List.length e; simp only [List.length_cons] at hl; omega, w2⟩

theorem LReader.readBitsAcc_sim : ∀ (len acc : Nat) (l : LReader), l.WF →
    Sim l (LReader.readBitsAcc len acc l) (match Spk.readBits len acc l.remaining with
      | .error e => .error e.lift | .ok p => .ok p)
  | 0, acc, l, h => by simp [LReader.readBitsAcc, Spk.readBits, Sim, h]
  | len+1, acc, l, h => by
    have hs := l.next_spec' h
    simp only [LReader.readBitsAcc]
    cases hn : l.next with
    | none => rw [hn] at hs; simp [Sim, hs, Spk.readBits, Spk.Err.lift]
    | some p =>
      obtain ⟨b, l'⟩ := p
      rw [hn] at hs
      obtain ⟨e, t, w⟩ := hs
      have := LReader.readBitsAcc_sim len (2 * acc + b.toNat) l' w
      rw [e]
      simp only [Spk.readBits]
      cases hc : LReader.readBitsAcc len (2 * acc + b.toNat) l' with
      | error e' => rw [hc] at this; simpa [Sim] using this
      | ok q =>
        obtain ⟨v, l''⟩ := q
        rw [hc] at this
        simp only [Sim] at this ⊢
        exact ⟨this.1, by have hl := congrArg List.length e; simp only [List.length_cons] at hl; omega, this.2.2⟩

theorem LReader.natLoop_sim (mv : Nat) (bound : Option Nat) : ∀ (d len : Nat) (l : LReader), l.WF →
    Sim l (LReader.natLoop mv bound d len l) (Spk.decLoopAs mv bound d len l.remaining) := by
  intro d
  induction d with
  | zero =>
    intro len l h
    have hs := LReader.readBitsAcc_sim len 1 l h
    unfold LReader.natLoop Spk.decLoopAs
    cases hc : LReader.readBitsAcc len 1 l with
    | error e =>
      rw [hc] at hs; simp only [Sim] at hs ⊢
      cases hc2 : Spk.readBits len 1 l.remaining with
      | error e2 => rw [hc2] at hs; simp at hs; simp [hs]
      | ok p => rw [hc2] at hs; simp at hs
    | ok q =>
      obtain ⟨v, l'⟩ := q
      rw [hc] at hs; simp only [Sim] at hs
      cases hc2 : Spk.readBits len 1 l.remaining with
      | error e2 => rw [hc2] at hs; simp at hs
      | ok p =>
        obtain ⟨v2, r2⟩ := p
        rw [hc2] at hs
        simp only [Except.ok.injEq, Prod.mk.injEq] at hs
        obtain ⟨⟨rfl, rfl⟩, t, w⟩ := hs
        simp only []
        cases hf : Spk.finish mv bound v2 with
        | error e => simp [Sim]
        | ok v' => exact ⟨rfl, t, w⟩
  | succ d ih =>
    intro len l h
    have hs := LReader.readBitsAcc_sim len 1 l h
    unfold LReader.natLoop Spk.decLoopAs
    cases hc : LReader.readBitsAcc len 1 l with
    | error e =>
      rw [hc] at hs; simp only [Sim] at hs ⊢
      cases hc2 : Spk.readBits len 1 l.remaining with
      | error e2 => rw [hc2] at hs; simp at hs; simp [hs]
      | ok p => rw [hc2] at hs; simp at hs
    | ok q =>
      obtain ⟨v, l'⟩ := q
      rw [hc] at hs; simp only [Sim] at hs
      cases hc2 : Spk.readBits len 1 l.remaining with
      | error e2 => rw [hc2] at hs; simp at hs
      | ok p =>
        obtain ⟨v2, r2⟩ := p
        rw [hc2] at hs
        simp only [Except.ok.injEq, Prod.mk.injEq] at hs
        obtain ⟨⟨rfl, rfl⟩, t, w⟩ := hs
        simp only []
        by_cases hv : v2 > 31
        · simp [hv, Sim]
        · simp only [hv, if_false]
          have := ih v2 l' w
          cases hr : LReader.natLoop mv bound d v2 l' with
          | error e => rw [hr] at this; simpa [Sim] using this
          | ok z =>
            obtain ⟨n, l''⟩ := z
            rw [hr] at this
            simp only [Sim] at this ⊢
            exact ⟨this.1, by omega, this.2.2⟩

/-- **`read_natural` on the reader is the list decoder on its `remaining`** (same value or same
error; the reader is left at the list decoder's rest; `n_total_read` grew by the bits consumed) -/
theorem LReader.readNatural_sim (mv : Nat) (bound : Option Nat) (l : LReader) (h : l.WF) :
    Sim l (l.readNatural mv bound) (Spk.decodeNatAs mv bound l.remaining) := by
  have hs := l.countOnes_sim h
  unfold LReader.readNatural Spk.decodeNatAs
  cases hc : l.countOnes with
  | error e =>
    rw [hc] at hs; simp only [Sim] at hs ⊢
    cases hc2 : Spk.countOnes l.remaining with
    | error e2 => rw [hc2] at hs; simp at hs; simp [hs]
    | ok p => rw [hc2] at hs; simp at hs
  | ok q =>
    obtain ⟨d, l'⟩ := q
    rw [hc] at hs; simp only [Sim] at hs
    cases hc2 : Spk.countOnes l.remaining with
    | error e2 => rw [hc2] at hs; simp at hs
    | ok p =>
      obtain ⟨d2, r2⟩ := p
      rw [hc2] at hs
      simp only [Except.ok.injEq, Prod.mk.injEq] at hs
      obtain ⟨⟨rfl, rfl⟩, t, w⟩ := hs
      simp only []
      have := LReader.natLoop_sim mv bound d2 0 l' w
      cases hr : LReader.natLoop mv bound d2 0 l' with
      | error e => rw [hr] at this; simpa [Sim] using this
      | ok z =>
        obtain ⟨n, l''⟩ := z
        rw [hr] at this
        simp only [Sim] at this ⊢
        exact ⟨this.1, by omega, this.2.2⟩

/-! ### windows -/

theorem window_wf (bytes : List Nat) (s e : Nat) (hb : ∀ b ∈ bytes, b < 256) : (window bytes s e).WF := by
  have hsl : ∀ x ∈ (bytes.take ((e + 7) / 8)).drop (s / 8), x < 256 :=
    fun x hx => hb x (List.mem_of_mem_take (List.mem_of_mem_drop hx))
  unfold window
  simp only []
  by_cases h0 : s % 8 = 0
  · rw [if_pos h0]; exact ⟨by simp, by simp, by simp, hsl⟩
  · rw [if_neg h0]
    cases hs : (bytes.take ((e + 7) / 8)).drop (s / 8) with
    | nil => exact ⟨by simp, by simp, by simp, by simp⟩
    | cons b rest =>
      rw [hs] at hsl
      exact ⟨by simp only []; omega, by simp only []; omega, hsl b (by simp),
        fun x hx => hsl x (by simp [hx])⟩

end BitStream
