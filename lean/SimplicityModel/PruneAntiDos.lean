/-
C08, anti-DoS at the plan level.  The tracker record of a successful run of an elaborated plan
node, read in plan indices, is *coherent* with the plan (`RanP`): every recorded node is a node of
the plan whose combinator ran its children (a case: the child of a recorded side), every recorded
side belongs to a recorded case/assertion node whose child on that side is recorded.  From this:
when identities are pairwise distinct on the plan, every node reachable in the pruned plan is
recorded and every remaining case node has both sides recorded — and the run of the re-typed
pruned program leaves the same record (`elabNode_retype`), so these are the conditions
libsimplicity checks on the pruned program.  `disconnect` is an ordinary binary node here.
-/
import SimplicityModel.PruneRetypeThm

set_option linter.unusedSimpArgs false
set_option linter.unusedVariables false

namespace Prog
open BM4

/-- what the record says about an executed node `j` with plan node `nd`: a case ran the child of a
recorded side; every other combinator ran all its children -/
def ChildrenRan (nd : Node) (j : Nat) (tr : Trace) : Prop :=
  (∀ a b, nd = .case a b → ((j, false) ∈ tr.sides ∧ a ∈ tr.nodes) ∨ ((j, true) ∈ tr.sides ∧ b ∈ tr.nodes)) ∧
  ((∀ a b, nd ≠ .case a b) → ∀ c ∈ nd.children, c ∈ tr.nodes)

def NodeOK (p : Plan) (tr : Trace) (j : Nat) : Prop := ∃ nd, p[j]? = some nd ∧ ChildrenRan nd j tr

def SideOK (p : Plan) (tr : Trace) (j : Nat) (s : Bool) : Prop :=
  ∃ nd, p[j]? = some nd ∧ j ∈ tr.nodes ∧ ∀ a b, nd = .case a b → (if s then b else a) ∈ tr.nodes

/-- the record (plan indices) is coherent with the plan -/
def RanP (p : Plan) (tr : Trace) : Prop :=
  (∀ j ∈ tr.nodes, NodeOK p tr j) ∧ (∀ q ∈ tr.sides, SideOK p tr q.1 q.2)

theorem childrenRan_of_noncase {nd : Node} {j : Nat} {tr : Trace} (hn : ∀ a b, nd ≠ .case a b)
    (h : ∀ c ∈ nd.children, c ∈ tr.nodes) : ChildrenRan nd j tr :=
  ⟨fun a b e => (hn a b e).elim, fun _ => h⟩

theorem childrenRan_case {a b j : Nat} {tr : Trace}
    (h : ((j, false) ∈ tr.sides ∧ a ∈ tr.nodes) ∨ ((j, true) ∈ tr.sides ∧ b ∈ tr.nodes)) :
    ChildrenRan (.case a b) j tr :=
  ⟨fun x y e => by cases e; exact h, fun hn => (hn _ _ rfl).elim⟩

theorem nodeOK_mk {p : Plan} {tr : Trace} {j : Nat} {nd : Node} (hnd : p[j]? = some nd)
    (h : ChildrenRan nd j tr) : NodeOK p tr j := ⟨nd, hnd, h⟩

theorem sideOK_mk {p : Plan} {tr : Trace} {j : Nat} {s : Bool} {nd : Node} (hnd : p[j]? = some nd)
    (hm : j ∈ tr.nodes) (h : ∀ a b, nd = .case a b → (if s then b else a) ∈ tr.nodes) : SideOK p tr j s :=
  ⟨nd, hnd, hm, h⟩

theorem ranP_nil (p : Plan) : RanP p ⟨[], []⟩ := by
  constructor
  · intro j hj; cases hj
  · intro q hq; cases hq

def Trace.Sub (a b : Trace) : Prop := (∀ x ∈ a.nodes, x ∈ b.nodes) ∧ (∀ x ∈ a.sides, x ∈ b.sides)

theorem Trace.sub_add_left (a b : Trace) : Trace.Sub a (a.add b) :=
  ⟨fun _ h => List.mem_append_left _ h, fun _ h => List.mem_append_left _ h⟩

theorem Trace.sub_add_right (a b : Trace) : Trace.Sub b (a.add b) :=
  ⟨fun _ h => List.mem_append_right _ h, fun _ h => List.mem_append_right _ h⟩

theorem Trace.Sub.trans {a b c : Trace} (h1 : Trace.Sub a b) (h2 : Trace.Sub b c) : Trace.Sub a c :=
  ⟨fun x h => h2.1 x (h1.1 x h), fun x h => h2.2 x (h1.2 x h)⟩

theorem ChildrenRan.mono {nd : Node} {j : Nat} {a b : Trace} (h : ChildrenRan nd j a) (hs : Trace.Sub a b) :
    ChildrenRan nd j b := by
  refine ⟨fun x y hn => ?_, fun hn c hc => hs.1 c (h.2 hn c hc)⟩
  rcases h.1 x y hn with ⟨h1, h2⟩ | ⟨h1, h2⟩
  · exact .inl ⟨hs.2 _ h1, hs.1 _ h2⟩
  · exact .inr ⟨hs.2 _ h1, hs.1 _ h2⟩

theorem NodeOK.mono {p : Plan} {a b : Trace} {j : Nat} (h : NodeOK p a j) (hs : Trace.Sub a b) : NodeOK p b j := by
  obtain ⟨nd, h1, h2⟩ := h
  exact ⟨nd, h1, h2.mono hs⟩

theorem SideOK.mono {p : Plan} {a b : Trace} {j : Nat} {s : Bool} (h : SideOK p a j s) (hs : Trace.Sub a b) :
    SideOK p b j s := by
  obtain ⟨nd, h1, h2, h3⟩ := h
  exact ⟨nd, h1, hs.1 _ h2, fun x y hn => hs.1 _ (h3 x y hn)⟩

theorem ranP_add {p : Plan} {t1 t2 : Trace} (h1 : RanP p t1) (h2 : RanP p t2) : RanP p (t1.add t2) := by
  constructor
  · intro j hj
    rcases List.mem_append.1 hj with hj | hj
    · exact (h1.1 j hj).mono (Trace.sub_add_left _ _)
    · exact (h2.1 j hj).mono (Trace.sub_add_right _ _)
  · intro q hq
    rcases List.mem_append.1 hq with hq | hq
    · exact (h1.2 q hq).mono (Trace.sub_add_left _ _)
    · exact (h2.2 q hq).mono (Trace.sub_add_right _ _)

theorem ranP_cons_node {p : Plan} {i : Nat} {trs : Trace} (h : RanP p trs)
    (hn : NodeOK p ((Trace.node i).add trs) i) : RanP p ((Trace.node i).add trs) := by
  constructor
  · intro j hj
    simp only [Trace.add, Trace.node, List.cons_append, List.nil_append, List.mem_cons] at hj
    rcases hj with rfl | hj
    · exact hn
    · exact (h.1 j hj).mono (Trace.sub_add_right _ _)
  · intro q hq
    simp only [Trace.add, Trace.node, List.nil_append] at hq
    exact (h.2 q hq).mono (Trace.sub_add_right _ _)

theorem ranP_cons_side {p : Plan} {i : Nat} {s : Bool} {trs : Trace} (h : RanP p trs)
    (hn : NodeOK p ((Trace.side i s).add trs) i) (hs : SideOK p ((Trace.side i s).add trs) i s) :
    RanP p ((Trace.side i s).add trs) := by
  constructor
  · intro j hj
    simp only [Trace.add, Trace.side, List.cons_append, List.nil_append, List.mem_cons] at hj
    rcases hj with rfl | hj
    · exact hn
    · exact (h.1 j hj).mono (Trace.sub_add_right _ _)
  · intro q hq
    simp only [Trace.add, Trace.side, List.cons_append, List.nil_append, List.mem_cons] at hq
    rcases hq with rfl | hq
    · exact hs
    · exact (h.2 q hq).mono (Trace.sub_add_right _ _)

theorem mem_node_add_self (i : Nat) (tr : Trace) : i ∈ ((Trace.node i).add tr).nodes := by
  simp [Trace.add, Trace.node]

theorem mem_side_add_self (i : Nat) (s : Bool) (tr : Trace) : i ∈ ((Trace.side i s).add tr).nodes := by
  simp [Trace.add, Trace.side]

theorem mem_side_add_side (i : Nat) (s : Bool) (tr : Trace) : (i, s) ∈ ((Trace.side i s).add tr).sides := by
  simp [Trace.add, Trace.side]

theorem labOf_id (p : Plan) (ids : Nat → Nat) (f i : Nat) : (labOf p ids f i).id = ids i := by
  cases f with
  | zero => rfl
  | succ f =>
    simp only [labOf]
    cases p[i]? with
    | none => rfl
    | some nd =>
      simp only []
      cases nd.children with
      | nil => rfl
      | cons c rest => cases rest <;> rfl

/-- the root of the run of a child is recorded -/
theorem child_mem {a b : Ty} (t : Term a b) (p : Plan) (f c : Nat) (v o : Val) (tr : Trace)
    (h : evalT t (labOf p (fun j => j) f c) v = .ok (o, tr)) : c ∈ tr.nodes := by
  have := evalT_root_mem t _ v o tr h
  rwa [labOf_id] at this

section
variable (e : Env)

def SubRan (f : Nat) : Prop :=
  ∀ (c : Nat) (a b : Ty) (t : Term a b), subE e f c a b = some t →
    ∀ v o tr, evalT t (labOf e.plan (fun j => j) f c) v = .ok (o, tr) → RanP e.plan tr

/-- a leaf node -/
theorem ranP_leaf {p : Plan} {i : Nat} {nd : Node} (hnd : p[i]? = some nd) (hc : nd.children = [])
    (hnc : ∀ a b, nd ≠ .case a b) : RanP p (Trace.node i) := by
  have : Trace.node i = (Trace.node i).add ⟨[], []⟩ := by simp [Trace.add, Trace.node]
  rw [this]
  refine ranP_cons_node (ranP_nil p) (nodeOK_mk hnd (childrenRan_of_noncase hnc ?_))
  intro c hcm; rw [hc] at hcm; cases hcm

theorem elabStep_ran (f i : Nat) (nd : Node) (a b : Ty) (x : Σ a b, Term a b)
    (IH : SubRan e f) (hnd : e.plan[i]? = some nd) (h : elabStep e f i nd a b = some x) :
    ∀ v o tr, evalT x.2.2 (labOf e.plan (fun j => j) (f+1) i) v = .ok (o, tr) → RanP e.plan tr := by
  rw [labOf_succ _ _ f i _ hnd]
  intro v o tr hev
  cases nd with
  | iden =>
    simp only [elabStep, Option.bind_eq_bind, Option.pure_def, Option.bind_eq_some_iff, Option.some.injEq] at h
    obtain ⟨t, ht, rfl⟩ := h
    obtain ⟨h1, h2, rfl⟩ := castT_some ht
    subst h2
    simp only [Node.children] at hev
    rw [evalT_iden_ok] at hev
    obtain ⟨_, rfl⟩ := hev
    exact ranP_leaf hnd rfl (fun _ _ hn => by cases hn)
  | unit =>
    simp only [elabStep, Option.bind_eq_bind, Option.pure_def, Option.bind_eq_some_iff, Option.some.injEq] at h
    obtain ⟨t, ht, rfl⟩ := h
    obtain ⟨h1, h2, rfl⟩ := castT_some ht
    subst h2
    simp only [Node.children] at hev
    rw [evalT_unit_ok] at hev
    obtain ⟨_, rfl⟩ := hev
    exact ranP_leaf hnd rfl (fun _ _ hn => by cases hn)
  | witness =>
    simp only [elabStep, Option.bind_eq_bind, Option.pure_def, Option.bind_eq_some_iff, Option.some.injEq] at h
    obtain ⟨bits, hb, v0, hv0, rfl⟩ := h
    simp only [Node.children] at hev
    rw [evalT_witness_ok] at hev
    obtain ⟨_, rfl⟩ := hev
    exact ranP_leaf hnd rfl (fun _ _ hn => by cases hn)
  | fail en =>
    simp only [elabStep, Option.pure_def, Option.some.injEq] at h
    subst h
    simp only [Node.children] at hev
    rw [evalT_fail_ok] at hev
    exact hev.elim
  | word n bits =>
    simp only [elabStep, Option.bind_eq_bind, Option.pure_def, Option.bind_eq_some_iff, Option.some.injEq] at h
    obtain ⟨v0, hv0, t, ht, rfl⟩ := h
    obtain ⟨h1, h2, rfl⟩ := castT_some ht
    subst h1; subst h2
    simp only [Node.children] at hev
    rw [evalT_word_ok] at hev
    obtain ⟨_, rfl⟩ := hev
    exact ranP_leaf hnd rfl (fun _ _ hn => by cases hn)
  | jet name =>
    simp only [elabStep, Option.pure_def, Option.some.injEq] at h
    subst h
    simp only [Node.children] at hev
    rw [evalT_jet_ok] at hev
    obtain ⟨_, rfl⟩ := hev
    exact ranP_leaf hnd rfl (fun _ _ hn => by cases hn)
  | hidden hh => simp [elabStep] at h
  | injl c =>
    cases b with
    | sum b1 c1 =>
      simp only [elabStep, Option.bind_eq_bind, Option.pure_def, Option.bind_eq_some_iff, Option.some.injEq] at h
      obtain ⟨t, ht, rfl⟩ := h
      simp only [Node.children] at hev
      rw [evalT_injl_ok] at hev
      obtain ⟨o', tr', h1, rfl, rfl⟩ := hev
      simp only [Lab.fst_un, Lab.id_un] at h1 ⊢
      refine ranP_cons_node (IH c _ _ t ht _ _ _ h1) (nodeOK_mk hnd (childrenRan_of_noncase (by intro _ _ hn; cases hn) (fun c' hc' => ?_)))
      simp only [Node.children, List.mem_singleton] at hc'
      subst hc'
      exact (Trace.sub_add_right _ _).1 _ (child_mem t _ _ _ _ _ _ h1)
    | _ => simp [elabStep] at h
  | injr c =>
    cases b with
    | sum b1 c1 =>
      simp only [elabStep, Option.bind_eq_bind, Option.pure_def, Option.bind_eq_some_iff, Option.some.injEq] at h
      obtain ⟨t, ht, rfl⟩ := h
      simp only [Node.children] at hev
      rw [evalT_injr_ok] at hev
      obtain ⟨o', tr', h1, rfl, rfl⟩ := hev
      simp only [Lab.fst_un, Lab.id_un] at h1 ⊢
      refine ranP_cons_node (IH c _ _ t ht _ _ _ h1) (nodeOK_mk hnd (childrenRan_of_noncase (by intro _ _ hn; cases hn) (fun c' hc' => ?_)))
      simp only [Node.children, List.mem_singleton] at hc'
      subst hc'
      exact (Trace.sub_add_right _ _).1 _ (child_mem t _ _ _ _ _ _ h1)
    | _ => simp [elabStep] at h
  | take c =>
    cases a with
    | prod a1 a2 =>
      simp only [elabStep, Option.bind_eq_bind, Option.pure_def, Option.bind_eq_some_iff, Option.some.injEq] at h
      obtain ⟨t, ht, rfl⟩ := h
      simp only [Node.children] at hev
      rw [evalT_take_ok] at hev
      obtain ⟨x0, y0, tr', rfl, h1, rfl⟩ := hev
      simp only [Lab.fst_un, Lab.id_un] at h1 ⊢
      refine ranP_cons_node (IH c _ _ t ht _ _ _ h1) (nodeOK_mk hnd (childrenRan_of_noncase (by intro _ _ hn; cases hn) (fun c' hc' => ?_)))
      simp only [Node.children, List.mem_singleton] at hc'
      subst hc'
      exact (Trace.sub_add_right _ _).1 _ (child_mem t _ _ _ _ _ _ h1)
    | _ => simp [elabStep] at h
  | drop c =>
    cases a with
    | prod a1 a2 =>
      simp only [elabStep, Option.bind_eq_bind, Option.pure_def, Option.bind_eq_some_iff, Option.some.injEq] at h
      obtain ⟨t, ht, rfl⟩ := h
      simp only [Node.children] at hev
      rw [evalT_drop_ok] at hev
      obtain ⟨x0, y0, tr', rfl, h1, rfl⟩ := hev
      simp only [Lab.fst_un, Lab.id_un] at h1 ⊢
      refine ranP_cons_node (IH c _ _ t ht _ _ _ h1) (nodeOK_mk hnd (childrenRan_of_noncase (by intro _ _ hn; cases hn) (fun c' hc' => ?_)))
      simp only [Node.children, List.mem_singleton] at hc'
      subst hc'
      exact (Trace.sub_add_right _ _).1 _ (child_mem t _ _ _ _ _ _ h1)
    | _ => simp [elabStep] at h
  | comp x0 y0 =>
    simp only [elabStep, Option.bind_eq_bind, Option.pure_def, Option.bind_eq_some_iff, Option.some.injEq] at h
    obtain ⟨xm, hxm, s, hs, t, ht, rfl⟩ := h
    simp only [Node.children] at hev
    rw [evalT_comp_ok] at hev
    obtain ⟨m, t1, t2, h1, h2, rfl⟩ := hev
    simp only [Lab.fst_bin, Lab.snd_bin, Lab.id_bin] at h1 h2 ⊢
    refine ranP_cons_node (ranP_add (IH x0 _ _ s hs _ _ _ h1) (IH y0 _ _ t ht _ _ _ h2))
      (nodeOK_mk hnd (childrenRan_of_noncase (by intro _ _ hn; cases hn) (fun c' hc' => ?_)))
    simp only [Node.children, List.mem_cons, List.not_mem_nil, or_false] at hc'
    rcases hc' with rfl | rfl
    · exact (Trace.sub_add_right _ _).1 _ ((Trace.sub_add_left _ _).1 _ (child_mem s _ _ _ _ _ _ h1))
    · exact (Trace.sub_add_right _ _).1 _ ((Trace.sub_add_right _ _).1 _ (child_mem t _ _ _ _ _ _ h2))
  | pair x0 y0 =>
    cases b with
    | prod b1 b2 =>
      simp only [elabStep, Option.bind_eq_bind, Option.pure_def, Option.bind_eq_some_iff, Option.some.injEq] at h
      obtain ⟨s, hs, t, ht, rfl⟩ := h
      simp only [Node.children] at hev
      rw [evalT_pair_ok] at hev
      obtain ⟨p0, q0, t1, t2, h1, h2, rfl, rfl⟩ := hev
      simp only [Lab.fst_bin, Lab.snd_bin, Lab.id_bin] at h1 h2 ⊢
      refine ranP_cons_node (ranP_add (IH x0 _ _ s hs _ _ _ h1) (IH y0 _ _ t ht _ _ _ h2))
        (nodeOK_mk hnd (childrenRan_of_noncase (by intro _ _ hn; cases hn) (fun c' hc' => ?_)))
      simp only [Node.children, List.mem_cons, List.not_mem_nil, or_false] at hc'
      rcases hc' with rfl | rfl
      · exact (Trace.sub_add_right _ _).1 _ ((Trace.sub_add_left _ _).1 _ (child_mem s _ _ _ _ _ _ h1))
      · exact (Trace.sub_add_right _ _).1 _ ((Trace.sub_add_right _ _).1 _ (child_mem t _ _ _ _ _ _ h2))
    | _ => simp [elabStep] at h
  | disconnect x0 oy =>
    cases oy with
    | none => simp [elabStep] at h
    | some y0 =>
      cases b with
      | prod b1 d0 =>
        simp only [elabStep, Option.bind_eq_bind, Option.pure_def, Option.bind_eq_some_iff, Option.some.injEq] at h
        obtain ⟨yc, hyc, cw, hcw, s, hs, t, ht, rfl⟩ := h
        simp only [Node.children] at hev
        rw [evalT_disconnect_ok] at hev
        obtain ⟨p0, q0, z, t1, t2, h1, h2, rfl, rfl⟩ := hev
        simp only [Lab.fst_bin, Lab.snd_bin, Lab.id_bin] at h1 h2 ⊢
        refine ranP_cons_node (ranP_add (IH x0 _ _ s hs _ _ _ h1) (IH y0 _ _ t ht _ _ _ h2))
          (nodeOK_mk hnd (childrenRan_of_noncase (by intro _ _ hn; cases hn) (fun c' hc' => ?_)))
        simp only [Node.children, List.mem_cons, List.not_mem_nil, or_false] at hc'
        rcases hc' with rfl | rfl
        · exact (Trace.sub_add_right _ _).1 _ ((Trace.sub_add_left _ _).1 _ (child_mem s _ _ _ _ _ _ h1))
        · exact (Trace.sub_add_right _ _).1 _ ((Trace.sub_add_right _ _).1 _ (child_mem t _ _ _ _ _ _ h2))
      | _ => simp [elabStep] at h
  | assertl x0 hh =>
    cases a with
    | prod a0 c0 =>
      cases a0 with
      | sum a1 a2 =>
        simp only [elabStep, Option.bind_eq_bind, Option.pure_def, Option.bind_eq_some_iff, Option.some.injEq] at h
        obtain ⟨s, hs, rfl⟩ := h
        simp only [Node.children] at hev
        rw [evalT_assertl_ok] at hev
        obtain ⟨p0, z, tr', rfl, h1, rfl⟩ := hev
        simp only [Lab.fst_un, Lab.id_un] at h1 ⊢
        have hc := (Trace.sub_add_right (Trace.side i false) tr').1 _ (child_mem s _ _ _ _ _ _ h1)
        refine ranP_cons_side (IH x0 _ _ s hs _ _ _ h1)
          (nodeOK_mk hnd (childrenRan_of_noncase (by intro _ _ hn; cases hn) (fun c' hc' => ?_)))
          (sideOK_mk hnd (mem_side_add_self _ _ _) (by intro _ _ hn; cases hn))
        simp only [Node.children, List.mem_singleton] at hc'
        subst hc'
        exact hc
      | _ => simp [elabStep] at h
    | _ => simp [elabStep] at h
  | assertr hh y0 =>
    cases a with
    | prod a0 c0 =>
      cases a0 with
      | sum a1 a2 =>
        simp only [elabStep, Option.bind_eq_bind, Option.pure_def, Option.bind_eq_some_iff, Option.some.injEq] at h
        obtain ⟨t, ht, rfl⟩ := h
        simp only [Node.children] at hev
        rw [evalT_assertr_ok] at hev
        obtain ⟨q0, z, tr', rfl, h1, rfl⟩ := hev
        simp only [Lab.fst_un, Lab.id_un] at h1 ⊢
        have hc := (Trace.sub_add_right (Trace.side i true) tr').1 _ (child_mem t _ _ _ _ _ _ h1)
        refine ranP_cons_side (IH y0 _ _ t ht _ _ _ h1)
          (nodeOK_mk hnd (childrenRan_of_noncase (by intro _ _ hn; cases hn) (fun c' hc' => ?_)))
          (sideOK_mk hnd (mem_side_add_self _ _ _) (by intro _ _ hn; cases hn))
        simp only [Node.children, List.mem_singleton] at hc'
        subst hc'
        exact hc
      | _ => simp [elabStep] at h
    | _ => simp [elabStep] at h
  | case x0 y0 =>
    cases a with
    | prod a0 c0 =>
      cases a0 with
      | sum a1 a2 =>
        simp only [elabStep, Option.bind_eq_bind, Option.pure_def, Option.bind_eq_some_iff, Option.some.injEq] at h
        obtain ⟨s, hs, t, ht, rfl⟩ := h
        simp only [Node.children] at hev
        rw [evalT_case_ok] at hev
        rcases hev with ⟨p0, z, tr', rfl, h1, rfl⟩ | ⟨q0, z, tr', rfl, h1, rfl⟩
        · simp only [Lab.fst_bin, Lab.snd_bin, Lab.id_bin] at h1 ⊢
          have hc := (Trace.sub_add_right (Trace.side i false) tr').1 _ (child_mem s _ _ _ _ _ _ h1)
          refine ranP_cons_side (IH x0 _ _ s hs _ _ _ h1)
            (nodeOK_mk hnd (childrenRan_case (.inl ⟨mem_side_add_side _ _ _, hc⟩)))
            (sideOK_mk hnd (mem_side_add_self _ _ _) (fun a b hn => ?_))
          cases hn; exact hc
        · simp only [Lab.fst_bin, Lab.snd_bin, Lab.id_bin] at h1 ⊢
          have hc := (Trace.sub_add_right (Trace.side i true) tr').1 _ (child_mem t _ _ _ _ _ _ h1)
          refine ranP_cons_side (IH y0 _ _ t ht _ _ _ h1)
            (nodeOK_mk hnd (childrenRan_case (.inr ⟨mem_side_add_side _ _ _, hc⟩)))
            (sideOK_mk hnd (mem_side_add_self _ _ _) (fun a b hn => ?_))
          cases hn; exact hc
      | _ => simp [elabStep] at h
    | _ => simp [elabStep] at h

/-- **the record of a successful run of an elaborated plan node is coherent with the plan** -/
theorem elabNode_ran : ∀ (f i : Nat) (x : Σ a b, Term a b), elabNode e f i = some x →
    ∀ v o tr, evalT x.2.2 (labOf e.plan (fun j => j) f i) v = .ok (o, tr) → RanP e.plan tr := by
  intro f
  induction f with
  | zero => intro i x h; simp [elabNode] at h
  | succ f ih =>
    intro i x h
    have IH : SubRan e f := by
      intro c a b t ht v o tr hev
      simp only [subE, Option.bind_eq_bind, Option.bind_eq_some_iff] at ht
      obtain ⟨y, hy, hc⟩ := ht
      obtain ⟨ya, yb, yt⟩ := y
      obtain ⟨e1, e2, rfl⟩ := castT_some hc
      simp only at e1 e2
      subst e1; subst e2
      exact ih c _ hy v o tr hev
    rw [elabNode_succ] at h
    simp only [Option.bind_eq_bind, Option.bind_eq_some_iff] at h
    obtain ⟨nd, hnd, ab, hab, hstep⟩ := h
    exact elabStep_ran e f i nd ab.1 ab.2 x IH hnd hstep

end

/-! ### from a coherent record to the anti-DoS conditions -/

section
variable (S : List (Nat × Bool)) (ids : Nat → Nat) (cmf : Nat → Nat) (p : Plan) (trI : Trace)

/-- a case node that the table keeps, once executed, has both sides recorded -/
theorem kept_case_both (hran : RanP p trI)
    (hS : ∀ j s, (ids j, s) ∈ S ↔ ∃ k, (k, s) ∈ trI.sides ∧ ids k = ids j)
    (hinj : ∀ j k, j < p.size → k < p.size → ids j = ids k → j = k)
    (j : Nat) (hj : j ∈ trI.nodes) (a b : Nat)
    (hc : (prunePlan S ids cmf p)[j]? = some (.case a b)) :
    p[j]? = some (.case a b) ∧ (j, false) ∈ trI.sides ∧ (j, true) ∈ trI.sides := by
  obtain ⟨nd, hnd, hcr⟩ := hran.1 j hj
  rw [prunePlan_getElem?, hnd] at hc
  simp only [Option.map_some, Option.some.injEq] at hc
  have hjs := lt_size_of_getElem? hnd
  -- the original node is the same case node, and the table saw both or neither side
  cases nd with
  | case x y =>
    have back : ∀ s, (ids j, s) ∈ S → (j, s) ∈ trI.sides := by
      intro s hs
      obtain ⟨k, hk, hid⟩ := (hS j s).1 hs
      obtain ⟨nd', hnd', _, _⟩ := hran.2 (k, s) hk
      have := hinj k j (lt_size_of_getElem? hnd') hjs hid
      subst this
      exact hk
    have fwd : ∀ s, (j, s) ∈ trI.sides → (ids j, s) ∈ S := fun s hs => (hS j s).2 ⟨j, hs, rfl⟩
    simp only [pruneNode] at hc
    by_cases n1 : (ids j, false) ∈ S <;> by_cases n2 : (ids j, true) ∈ S <;>
      simp only [n1, n2, decide_true, decide_false, Node.case.injEq, reduceCtorEq] at hc
    · obtain ⟨rfl, rfl⟩ := hc
      exact ⟨hnd, back _ n1, back _ n2⟩
    · exfalso
      rcases hcr.1 x y rfl with ⟨h1, _⟩ | ⟨h1, _⟩
      · exact n1 (fwd _ h1)
      · exact n2 (fwd _ h1)
  | _ => simp [pruneNode] at hc

/-- **anti-DoS in plan indices**: every node reachable in the pruned plan is recorded -/
theorem reach_executed (r : Nat) (hran : RanP p trI) (hroot : r ∈ trI.nodes)
    (hS : ∀ j s, (ids j, s) ∈ S ↔ ∃ k, (k, s) ∈ trI.sides ∧ ids k = ids j)
    (hinj : ∀ j k, j < p.size → k < p.size → ids j = ids k → j = k) :
    ∀ j, Reach (prunePlan S ids cmf p) r j → j ∈ trI.nodes := by
  intro j hr
  induction hr with
  | root => exact hroot
  | @child j c nd' _ hnd' hc ih =>
    obtain ⟨nd, hnd, hcr⟩ := hran.1 j ih
    have hnd'' := hnd'
    rw [prunePlan_getElem?, hnd] at hnd''
    simp only [Option.map_some, Option.some.injEq] at hnd''
    by_cases hcase : ∃ x y, nd = .case x y
    · obtain ⟨x, y, rfl⟩ := hcase
      have fwd : ∀ s, (j, s) ∈ trI.sides → (ids j, s) ∈ S := fun s hs => (hS j s).2 ⟨j, hs, rfl⟩
      rcases pruneNode_case S cmf (ids j) x y with hp | ⟨hp, hn⟩ | ⟨hp, hn⟩
      · rw [hp] at hnd''
        subst hnd''
        obtain ⟨_, hl, hr'⟩ := kept_case_both S ids cmf p trI hran hS hinj j ih x y hnd'
        simp only [Node.children, List.mem_cons, List.not_mem_nil, or_false] at hc
        rcases hc with rfl | rfl
        · obtain ⟨nd2, h2, _, h3⟩ := hran.2 (j, false) hl
          rw [hnd] at h2; cases h2
          exact h3 _ _ rfl
        · obtain ⟨nd2, h2, _, h3⟩ := hran.2 (j, true) hr'
          rw [hnd] at h2; cases h2
          exact h3 _ _ rfl
      · rw [hp] at hnd''
        subst hnd''
        simp only [Node.children, List.mem_singleton] at hc
        rw [hc]
        rcases hcr.1 x y rfl with ⟨_, h2⟩ | ⟨h1, _⟩
        · exact h2
        · exact (hn (fwd _ h1)).elim
      · rw [hp] at hnd''
        subst hnd''
        simp only [Node.children, List.mem_singleton] at hc
        rw [hc]
        rcases hcr.1 x y rfl with ⟨h1, _⟩ | ⟨_, h2⟩
        · exact (hn (fwd _ h1)).elim
        · exact h2
    · have hnc : ∀ x y, nd ≠ .case x y := fun x y hxy => hcase ⟨x, y, hxy⟩
      have : pruneNode S (ids j) cmf nd = nd := by
        cases nd <;> first | rfl | exact (hnc _ _ rfl).elim
      rw [this] at hnd''
      subst hnd''
      exact hcr.2 hnc c hc

end

end Prog
