/-
C06: the verdict of `evalK` depends on the jets only through the calls the run actually makes.
This is what justifies giving the model, as its jet semantics, the table of calls recorded on the
Rust run: any two jet semantics that agree on the recorded calls give the same verdict (and value).
-/
import SimplicityModel.Prog.Elab

namespace Prog
open BM4

/-- one jet call: the jet's specification (at its types) and the input value -/
structure Call where
  a : Ty
  b : Ty
  f : Val → Option Val
  x : Val

/-- replace the specification of every jet of a term -/
def mapJets (φ : Ty → Ty → (Val → Option Val) → (Val → Option Val)) : {a b : Ty} → Term a b → Term a b
  | _, _, .iden => .iden
  | _, _, .unit => .unit
  | _, _, .injl t => .injl (mapJets φ t)
  | _, _, .injr t => .injr (mapJets φ t)
  | _, _, .take t => .take (mapJets φ t)
  | _, _, .drop t => .drop (mapJets φ t)
  | _, _, .comp s t => .comp (mapJets φ s) (mapJets φ t)
  | _, _, .case s t => .case (mapJets φ s) (mapJets φ t)
  | _, _, .pair s t => .pair (mapJets φ s) (mapJets φ t)
  | _, _, .fail => .fail
  | _, _, .witness w => .witness w
  | _, _, .assertl s => .assertl (mapJets φ s)
  | _, _, .assertr t => .assertr (mapJets φ t)
  | _, _, .word w => .word w
  | a, b, .jet jf f => .jet jf (φ a b f)
  | _, _, .disconnect w cw s t => .disconnect w cw (mapJets φ s) (mapJets φ t)

/-- the jet calls of a run, left to right, up to and including a failing one -/
def calls : {a b : Ty} → Term a b → Val → List Call
  | _, _, .iden, _ => []
  | _, _, .unit, _ => []
  | _, _, .injl t, v => calls t v
  | _, _, .injr t, v => calls t v
  | _, _, .take t, .pair x _ => calls t x
  | _, _, .take _, _ => []
  | _, _, .drop t, .pair _ y => calls t y
  | _, _, .drop _, _ => []
  | _, _, .comp s t, v =>
      calls s v ++ (match evalK s v with | .ok x => calls t x | .error _ => [])
  | _, _, .case s _, .pair (.inl x) z => calls s (.pair x z)
  | _, _, .case _ t, .pair (.inr y) z => calls t (.pair y z)
  | _, _, .case _ _, _ => []
  | _, _, .pair s t, v =>
      calls s v ++ (match evalK s v with | .ok _ => calls t v | .error _ => [])
  | _, _, .fail, _ => []
  | _, _, .witness _, _ => []
  | _, _, .assertl s, .pair (.inl x) z => calls s (.pair x z)
  | _, _, .assertl _, _ => []
  | _, _, .assertr t, .pair (.inr y) z => calls t (.pair y z)
  | _, _, .assertr _, _ => []
  | _, _, .word _, _ => []
  | a, b, .jet _ f, v => [⟨a, b, f, v⟩]
  | _, _, .disconnect _ cw s t, v =>
      calls s (.pair cw v) ++
        (match evalK s (.pair cw v) with | .ok (.pair _ y) => calls t y | _ => [])

/-- **the recorded calls determine the verdict**: changing the jets' specifications anywhere except
on the calls this run makes changes neither the verdict, nor the failure kind, nor the value -/
theorem evalK_mapJets (φ : Ty → Ty → (Val → Option Val) → (Val → Option Val)) :
    ∀ {a b : Ty} (t : Term a b) (v : Val), (∀ c ∈ calls t v, φ c.a c.b c.f c.x = c.f c.x) →
      evalK (mapJets φ t) v = evalK t v := by
  intro a b t
  induction t with
  | iden => intro v _; rfl
  | unit => intro v _; rfl
  | fail => intro v _; rfl
  | witness w => intro v _; rfl
  | word w => intro v _; rfl
  | @jet a b jf f =>
    intro v h
    have := h ⟨a, b, f, v⟩ (by simp [calls])
    simp only [mapJets, evalK]
    simp only at this
    rw [this]
  | injl t ih => intro v h; simp only [mapJets, evalK]; rw [ih v (by simpa [calls] using h)]
  | injr t ih => intro v h; simp only [mapJets, evalK]; rw [ih v (by simpa [calls] using h)]
  | take t ih =>
    intro v h
    cases v with
    | pair x y => simp only [mapJets, evalK]; exact ih x (by simpa [calls] using h)
    | _ => rfl
  | drop t ih =>
    intro v h
    cases v with
    | pair x y => simp only [mapJets, evalK]; exact ih y (by simpa [calls] using h)
    | _ => rfl
  | comp s t ihs iht =>
    intro v h
    simp only [calls, List.mem_append] at h
    simp only [mapJets, evalK]
    rw [ihs v (fun c hc => h c (.inl hc))]
    cases hs : evalK s v with
    | error e => rfl
    | ok x =>
      simp only [Except.bind]
      exact iht x (fun c hc => h c (.inr (by simpa [hs] using hc)))
  | pair s t ihs iht =>
    intro v h
    simp only [calls, List.mem_append] at h
    simp only [mapJets, evalK]
    rw [ihs v (fun c hc => h c (.inl hc))]
    cases hs : evalK s v with
    | error e => rfl
    | ok x =>
      simp only [Except.bind]
      rw [iht v (fun c hc => h c (.inr (by simpa [hs] using hc)))]
  | case s t ihs iht =>
    intro v h
    cases v with
    | pair xy z =>
      cases xy with
      | inl x => simp only [mapJets, evalK]; exact ihs _ (by simpa [calls] using h)
      | inr y => simp only [mapJets, evalK]; exact iht _ (by simpa [calls] using h)
      | _ => rfl
    | _ => rfl
  | assertl s ih =>
    intro v h
    cases v with
    | pair xy z =>
      cases xy with
      | inl x => simp only [mapJets, evalK]; exact ih _ (by simpa [calls] using h)
      | _ => rfl
    | _ => rfl
  | assertr t ih =>
    intro v h
    cases v with
    | pair xy z =>
      cases xy with
      | inr y => simp only [mapJets, evalK]; exact ih _ (by simpa [calls] using h)
      | _ => rfl
    | _ => rfl
  | disconnect w cw s t ihs iht =>
    intro v h
    simp only [calls, List.mem_append] at h
    simp only [mapJets, evalK]
    rw [ihs _ (fun c hc => h c (.inl hc))]
    cases hs : evalK s (.pair cw v) with
    | error e => rfl
    | ok r =>
      cases r with
      | pair x y =>
        simp only [Except.bind]
        rw [iht y (fun c hc => h c (.inr (by simpa [hs] using hc)))]
      | _ => rfl

end Prog
