import SimplicityModel.IterProps
set_option linter.unusedSectionVars false
set_option linter.unusedVariables false
/-
C18 — ties between what the driver computes on index arrays and the objects of the theorems:
`build` = the unfoldings `U`, child-swapped list = mirrored handle, the iteration depends on the
sharing classes only (so a class table may replace the structural key), and `is_shared_as` accepts
exactly the injective keys.
-/
namespace PO
variable {K : Type} [DecidableEq K] (key : T → Option K)

/-! ### the walk depends on the sharing classes only -/

theorem visit_same_classes {K' : Type} [DecidableEq K'] (key' : T → Option K') (root : T)
    (h : ∀ a c, Desc root a → Desc root c →
      ((∃ k, key a = some k ∧ key c = some k) ↔ (∃ k, key' a = some k ∧ key' c = some k))) :
    (visit key root (fun _ => none) 0).1 = (visit key' root (fun _ => none) 0).1 := by
  let R : T → T → Prop := fun t u => t = u ∧ Desc root t
  have hb : Bisim key key' R := by
    refine ⟨?_, ?_, ?_, ?_⟩
    · rintro t u ⟨rfl, _⟩; exact ⟨Iff.rfl, Iff.rfl⟩
    · rintro t u c c' ⟨rfl, hd⟩ hl hl'
      rw [hl] at hl'; cases hl'
      exact ⟨rfl, hd.trans (.left hl (.refl c))⟩
    · rintro t u c c' ⟨rfl, hd⟩ hl hl'
      rw [hl] at hl'; cases hl'
      exact ⟨rfl, hd.trans (.right hl (.refl c))⟩
    · rintro t u t' u' ⟨rfl, hd⟩ ⟨rfl, hd'⟩
      exact h t t' hd hd'
  have hs : SeenRel key key' R (fun _ => none) (fun _ => none) := by
    intro t u _
    unfold seenBefore
    cases key t <;> cases key' u <;> rfl
  have st := visit_bisim key key' hb root root (fun _ => none) (fun _ => none) 0 ⟨rfl, .refl root⟩ hs
  have hlen : (visit key root (fun _ => none) 0).1.length = (visit key' root (fun _ => none) 0).1.length := by
    have := congrArg List.length st.outs; simpa using this
  apply List.ext_getElem hlen
  intro i h1 h2
  have hn := st.nodes i _ _ (List.getElem?_eq_getElem h1) (List.getElem?_eq_getElem h2)
  have hstrip : ((visit key root (fun _ => none) 0).1.map Out.strip)[i]? =
      ((visit key' root (fun _ => none) 0).1.map Out.strip)[i]? := by rw [st.outs]
  simp only [List.getElem?_map, List.getElem?_eq_getElem h1, List.getElem?_eq_getElem h2, Option.map_some,
    Option.some.injEq, Out.strip, Prod.mk.injEq] at hstrip
  generalize (visit key root (fun _ => none) 0).1[i] = x at hn hstrip
  generalize (visit key' root (fun _ => none) 0).1[i] = y at hn hstrip
  obtain ⟨xn, xi, xl, xr⟩ := x
  obtain ⟨yn, yi, yl, yr⟩ := y
  simp only at hn hstrip
  obtain ⟨h1, h2, h3⟩ := hstrip
  rw [hn.1, h1, h2, h3]

/-! ### the sharing check and injective keys -/

theorem same_walk_iff_injective (root : T) (hi : IdsFaithful root)
    (htot : ∀ d, Desc root d → (key d).isSome) :
    (visit ptr root (fun _ => none) 0).1.map (·.node.id) = (visit key root (fun _ => none) 0).1.map (·.node.id) ↔
      ∀ a c, Desc root a → Desc root c → key a = key c → a = c := by
  constructor
  · intro heq a c ha hc hk
    obtain ⟨oa, hoa, rfl⟩ := yielded root hi ha
    obtain ⟨oc, hoc, rfl⟩ := yielded root hi hc
    obtain ⟨i, hia⟩ := List.getElem?_of_mem hoa
    obtain ⟨j, hjc⟩ := List.getElem?_of_mem hoc
    have hdK := visit_desc key root (fun _ => none) 0
    -- the items at the same positions of the walk under `key`
    have get : ∀ (i : Nat) (o : Out), (visit ptr root (fun _ => none) 0).1[i]? = some o → Desc root o.node →
        ∃ o', (visit key root (fun _ => none) 0).1[i]? = some o' ∧ o'.node = o.node := by
      intro i o ho hdo
      have h1 : ((visit ptr root (fun _ => none) 0).1.map (·.node.id))[i]? = some o.node.id := by simp [ho]
      rw [heq, List.getElem?_map] at h1
      cases ho' : (visit key root (fun _ => none) 0).1[i]? with
      | none => rw [ho'] at h1; cases h1
      | some o' =>
        rw [ho'] at h1
        simp only [Option.map_some, Option.some.injEq] at h1
        exact ⟨o', rfl, hi _ _ (hdK o' (List.mem_of_getElem? ho')) hdo h1⟩
    obtain ⟨oa', hoa', hna⟩ := get i oa hia ha
    obtain ⟨oc', hoc', hnc⟩ := get j oc hjc hc
    obtain ⟨hinv, _, _⟩ := visit_root key root
    cases hka : key oa.node with
    | none => have := htot _ ha; rw [hka] at this; cases this
    | some k =>
      have hij := hinv.unique key hoa' hoc' (k := k) (by rw [hna]; exact hka) (by rw [hnc, ← hk]; exact hka)
      subst hij
      rw [hoa'] at hoc'; cases hoc'
      rw [← hna, ← hnc]
  · intro hinj
    have := visit_same_classes ptr key root (by
      intro a c ha hc
      constructor
      · rintro ⟨k, h1, h2⟩
        simp only [ptr, Option.some.injEq] at h1 h2
        have : a = c := hi a c ha hc (by omega)
        subst this
        cases hka : key a with
        | none => have := htot _ ha; rw [hka] at this; cases this
        | some k' => exact ⟨k', rfl, rfl⟩
      · rintro ⟨k, h1, h2⟩
        have : a = c := hinj a c ha hc (by rw [h1, h2])
        subst this
        exact ⟨a.id, rfl, rfl⟩)
    rw [this]

/-! ### node lists -/

theorem wellIdxFrom_spec : ∀ (ns : List Sh) (i : Nat), wellIdxFrom i ns = true →
    ∀ k, (∀ j, ns[k]? = some (Sh.un j) → j < i + k) ∧ (∀ j l, ns[k]? = some (Sh.bin j l) → j < i + k ∧ l < i + k) := by
  intro ns
  induction ns with
  | nil => intro i _ k; simp
  | cons s r ih =>
    intro i h k
    cases k with
    | zero =>
      cases s with
      | leaf => simp
      | un j => simp only [wellIdxFrom, Bool.and_eq_true, decide_eq_true_eq] at h; simp; omega
      | bin j l => simp only [wellIdxFrom, Bool.and_eq_true, decide_eq_true_eq] at h; simp; omega
    | succ k =>
      have hr : wellIdxFrom (i + 1) r = true := by
        cases s <;> simp only [wellIdxFrom, Bool.and_eq_true] at h
        · exact h
        · exact h.2
        · exact h.2
      have := ih (i + 1) hr k
      simp only [List.getElem?_cons_succ]
      refine ⟨fun j hj => ?_, fun j l hj => ?_⟩
      · have := this.1 j hj; omega
      · have := this.2 j l hj; omega

theorem wellIdx_of_B (ns : List Sh) (h : wellIdxB ns = true) : WellIdx ns := by
  intro i
  have := wellIdxFrom_spec ns 0 h i
  simpa using this

theorem wellIdx_mirror (ns : List Sh) (hw : WellIdx ns) : WellIdx (ns.map mirrorSh) := by
  intro i
  have := hw i
  refine ⟨fun j hj => ?_, fun j k hj => ?_⟩
  · rw [List.getElem?_map] at hj
    cases hn : ns[i]? with
    | none => rw [hn] at hj; cases hj
    | some s =>
      rw [hn] at hj
      cases s <;> simp [mirrorSh] at hj
      subst hj; exact this.1 _ hn
  · rw [List.getElem?_map] at hj
    cases hn : ns[i]? with
    | none => rw [hn] at hj; cases hj
    | some s =>
      rw [hn] at hj
      cases s <;> simp [mirrorSh] at hj
      obtain ⟨rfl, rfl⟩ := hj
      have := this.2 _ _ hn; omega

/-- the handle of the child-swapped list is the mirrored handle -/
theorem U_mirror (ns : List Sh) (hw : WellIdx ns) : ∀ i, U (ns.map mirrorSh) i = (U ns i).mirror := by
  intro i
  induction i using Nat.strongRecOn with
  | _ i ih =>
    rw [U_eq _ (wellIdx_mirror ns hw), U_eq ns hw, List.getElem?_map]
    cases hn : ns[i]? with
    | none => rfl
    | some s =>
      cases s with
      | leaf => rfl
      | un j =>
        have := (hw i).1 j hn
        simp only [Option.map_some, mirrorSh, T.mirror, ih j this]
      | bin j k =>
        have := (hw i).2 j k hn
        simp only [Option.map_some, mirrorSh, T.mirror, ih j this.1, ih k this.2]

/-- `build` computes the unfoldings, bottom-up -/
theorem build_go (ns : List Sh) (hw : WellIdx ns) : ∀ (suf : List Sh) (acc : Array T),
    (∀ k, k < acc.size → acc[k]? = some (U ns k)) →
    (∀ k, suf[k]? = ns[acc.size + k]?) →
    ∀ i, i < acc.size + suf.length → (suf.foldl buildStep acc)[i]? = some (U ns i) := by
  intro suf
  induction suf with
  | nil => intro acc hacc _ i hi; exact hacc i (by simpa using hi)
  | cons s r ih =>
    intro acc hacc hsuf i hi
    simp only [List.foldl_cons]
    apply ih
    · intro k hk
      simp only [buildStep, Array.size_push] at hk ⊢
      by_cases hk' : k < acc.size
      · rw [Array.getElem?_push_lt hk']
        have := hacc k hk'
        rwa [Array.getElem?_eq_getElem hk'] at this
      · have hke : k = acc.size := by omega
        subst hke
        rw [Array.getElem?_push_size]
        have hs : ns[acc.size]? = some s := by have := hsuf 0; simpa using this.symm
        rw [U_eq ns hw, hs]
        cases s with
        | leaf => rfl
        | un j =>
          have hj := (hw acc.size).1 j hs
          simp only [Option.some.injEq, T.un.injEq, true_and]
          have := hacc j hj
          simp [Array.getD, Array.getElem?_eq_some_iff.1 this |>.1,
            (Array.getElem?_eq_some_iff.1 this).2]
        | bin j k =>
          have hjk := (hw acc.size).2 j k hs
          simp only [Option.some.injEq, T.bin.injEq, true_and]
          have h1 := hacc j hjk.1
          have h2 := hacc k hjk.2
          simp [Array.getD, (Array.getElem?_eq_some_iff.1 h1).1, (Array.getElem?_eq_some_iff.1 h1).2,
            (Array.getElem?_eq_some_iff.1 h2).1, (Array.getElem?_eq_some_iff.1 h2).2]
    · intro k
      have := hsuf (k + 1)
      simp only [List.getElem?_cons_succ] at this
      rw [this]
      simp only [buildStep, Array.size_push]
      congr 1; omega
    · simp only [buildStep, Array.size_push]
      simp only [List.length_cons] at hi
      omega

theorem build_spec (ns : List Sh) (hw : wellIdxB ns = true) (i : Nat) (hi : i < ns.length) :
    (build ns)[i]? = some (U ns i) := by
  unfold build
  exact build_go ns (wellIdx_of_B ns hw) ns #[] (by intro k hk; simp at hk) (by intro k; simp) i (by simpa using hi)

end PO
