/-
C17 — type syntax of the human-readable encoding.

Printer: `Display for Final` (`src/types/final_data.rs`) followed by `replace('×', "*")` in
`Forest::string_serialize`: `1`, `2`, `2^N` for the word types 2^(2^n) (n ≤ 31), `A?` for `1 + A`,
every other sum/product in parentheses except at the root (never truncated: the depth/length
limits apply to error messages only).
Parser: `parse_type` / `parse_type_atom` (`src/human_encoding/parse/ast.rs`) on closed types:
left-associative `+`/`*` without precedence, postfix `?`, `2^N` for every power of two N that fits
`u32`, the nesting limit `MAX_NESTING_DEPTH`.
-/
import SimplicityModel.HumanLex
import SimplicityModel.Prog.Basic

namespace HT
open BM4 (Ty)

def bitTy : Ty := .sum .one .one

/-- `some n` iff the type is 2^(2^n) with n ≤ 31 (the table `Tmr::TWO_TWO_N` has 32 entries) -/
def wordIdx (t : Ty) : Option Nat :=
  match Prog.isWord t with
  | some n => if n ≤ 31 then some n else none
  | none => none

/-- decimal digits of a number (`{}` of an integer) -/
def decText (n : Nat) : List Char := (Nat.repr n).toList

def paren (top : Bool) (ts : List Tok) : List Tok := if top then ts else .lparen :: ts ++ [.rparen]

/-- the tokens of the printed type; `top` = at the root (no parentheses) -/
def tyToks : Bool → Ty → List Tok
  | _, .one => [.one]
  | top, .sum a b =>
    if a = .one ∧ b = .one then [.two]
    else if a = .one then tyToks false b ++ [.question]
    else paren top (tyToks false a ++ [.plus] ++ tyToks false b)
  | top, .prod a b =>
    match wordIdx (.prod a b) with
    | some n => [.twoExp (decText (2 ^ n))]
    | none => paren top (tyToks false a ++ [.star] ++ tyToks false b)

def parenC (top : Bool) (cs : List Char) : List Char := if top then cs else '(' :: cs ++ [')']

/-- the characters of the printed type -/
def tyChars : Bool → Ty → List Char
  | _, .one => ['1']
  | top, .sum a b =>
    if a = .one ∧ b = .one then ['2']
    else if a = .one then tyChars false b ++ ['?']
    else parenC top (tyChars false a ++ [' ', '+', ' '] ++ tyChars false b)
  | top, .prod a b =>
    match wordIdx (.prod a b) with
    | some n => '2' :: '^' :: decText (2 ^ n)
    | none => parenC top (tyChars false a ++ [' ', '*', ' '] ++ tyChars false b)

/-- `Display for Final` followed by `replace('×', "*")` -/
def printTy (t : Ty) : List Char := tyChars true t

/-! ### parser -/

def decDigits (ds : List Char) : Nat := ds.foldl (fun a c => 10 * a + (c.toNat - 48)) 0

/-- `2^N` as a type: `str::parse::<u32>`, then `1`, `2` or `TwoTwoN(trailing_zeros)` for a power
of two (`Bad2ExpNumber` otherwise, `NumberOutOfRange` beyond `u32`) -/
def twoExpTy (ds : List Char) : Option Ty :=
  let y := decDigits ds
  if y ≥ 2 ^ 32 then none
  else if y = 0 then some .one
  else if y = 1 then some bitTy
  else if 2 ^ Nat.log2 y = y then some (Prog.wordTy (Nat.log2 y))
  else none

/-- `while peek == '?'`: `A?` is `1 + A` -/
def questions : Ty → List Tok → Ty × List Tok
  | t, .question :: ts => questions (.sum .one t) ts
  | t, ts => (t, ts)

/-- `MAX_NESTING_DEPTH` -/
def maxDepth : Nat := 1000

mutual
/-- `parse_type_atom`; `n` = recursion fuel (technical), `d` = remaining nesting budget
(`MAX_NESTING_DEPTH - depth`; `0` = "nesting too deep") -/
def parseAtom : Nat → Nat → List Tok → Option (Ty × List Tok)
  | 0, _, _ => none
  | _, 0, _ => none
  | n + 1, d + 1, ts =>
    match ts with
    | .one :: ts => some (questions .one ts)
    | .two :: ts => some (questions bitTy ts)
    | .twoExp ds :: ts => (twoExpTy ds).map fun t => questions t ts
    | .lparen :: ts =>
      match parseTy n d ts with
      | some (t, .rparen :: ts') => some (questions t ts')
      | _ => none
    | _ => none
/-- `parse_type` -/
def parseTy : Nat → Nat → List Tok → Option (Ty × List Tok)
  | 0, _, _ => none
  | n + 1, d, ts =>
    match parseAtom n d ts with
    | some (a, ts') => parseOps n d a ts'
    | none => none
/-- the `loop` of `parse_type` -/
def parseOps : Nat → Nat → Ty → List Tok → Option (Ty × List Tok)
  | 0, _, _, _ => none
  | n + 1, d, lhs, ts =>
    match ts with
    | .plus :: ts =>
      match parseAtom n d ts with
      | some (r, ts') => parseOps n d (.sum lhs r) ts'
      | none => none
    | .star :: ts =>
      match parseAtom n d ts with
      | some (r, ts') => parseOps n d (.prod lhs r) ts'
      | none => none
    | _ => some (lhs, ts)
end

/-- fuel that suffices for a token list -/
def tyFuel (ts : List Tok) : Nat := 2 * ts.length + 4

end HT
