/-
C17 — type syntax of the human-readable encoding.

Printer: `Display for Final` (`src/types/final_data.rs`) followed by `replace('×', "*")` in
`Forest::string_serialize`: `1`, `2`, `2^N` for the word types 2^(2^n) (n ≤ 31), `A?` for `1 + A`,
every other sum/product in parentheses except at the root (never truncated: the depth/length
limits apply to error messages only).
Parser: `parse_type` / `parse_type_atom` (`src/human_encoding/parse/ast.rs`) on closed types:
left-associative `+`/`*` without precedence, postfix `?`, `2^N` for every power of two N that fits
`u32`, the nesting limit `MAX_NESTING_DEPTH`.
-/
import SimplicityModel.HumanLex
import SimplicityModel.Prog.Basic

namespace HT
open BM4 (Ty)

def bitTy : Ty := .sum .one .one

/-- `some n` iff the type is 2^(2^n) with n ≤ 31 (the table `Tmr::TWO_TWO_N` has 32 entries) -/
def wordIdx (t : Ty) : Option Nat :=
  match Prog.isWord t with
  | some n => if n ≤ 31 then some n else none
  | none => none

/-- decimal digits of a number (`{}` of an integer) -/
def decText (n : Nat) : List Char := (Nat.repr n).toList

def paren (top : Bool) (ts : List Tok) : List Tok := if top then ts else .lparen :: ts ++ [.rparen]

/-- the tokens of the printed type; `top` = at the root (no parentheses) -/
def tyToks : Bool → Ty → List Tok
  | _, .one => [.one]
  | top, .sum a b =>
    if a = .one ∧ b = .one then [.two]
    else if a = .one then tyToks false b ++ [.question]
    else paren top (tyToks false a ++ [.plus] ++ tyToks false b)
  | top, .prod a b =>
    match wordIdx (.prod a b) with
    | some n => [.twoExp (decText (2 ^ n))]
    | none => paren top (tyToks false a ++ [.star] ++ tyToks false b)

def parenC (top : Bool) (cs : List Char) : List Char := if top then cs else '(' :: cs ++ [')']

/-- the characters of the printed type -/
def tyChars : Bool → Ty → List Char
  | _, .one => ['1']
  | top, .sum a b =>
    if a = .one ∧ b = .one then ['2']
    else if a = .one then tyChars false b ++ ['?']
    else parenC top (tyChars false a ++ [' ', '+', ' '] ++ tyChars false b)
  | top, .prod a b =>
    match wordIdx (.prod a b) with
    | some n => '2' :: '^' :: decText (2 ^ n)
    | none => parenC top (tyChars false a ++ [' ', '*', ' '] ++ tyChars false b)

/-- `Display for Final` followed by `replace('×', "*")` -/
def printTy (t : Ty) : List Char := tyChars true t

/-! ### parser -/

def decDigits (ds : List Char) : Nat := ds.foldl (fun a c => 10 * a + (c.toNat - 48)) 0

/-- `2^N` as a type: `str::parse::<u32>`, then `1`, `2` or `TwoTwoN(trailing_zeros)` for a power
of two (`Bad2ExpNumber` otherwise, `NumberOutOfRange` beyond `u32`) -/
def twoExpTy (ds : List Char) : Option Ty :=
  let y := decDigits ds
  if y ≥ 2 ^ 32 then none
  else if y = 0 then some .one
  else if y = 1 then some bitTy
  else if 2 ^ Nat.log2 y = y then some (Prog.wordTy (Nat.log2 y))
  else none

/-- `MAX_NESTING_DEPTH` -/
def maxDepth : Nat := 1000

/-- `while peek == '?'`: `A?` is `1 + A`; `d` = depth of the type built so far (`set_type_depth`
fails beyond `MAX_NESTING_DEPTH`) -/
def questions : Ty → Nat → List Tok → Option (Ty × Nat × List Tok)
  | t, d, .question :: ts => if d + 1 > maxDepth then none else questions (.sum .one t) (d + 1) ts
  | t, d, ts => some (t, d, ts)

mutual
/-- `parse_type_atom`; `n` = recursion fuel (technical), `b` = remaining budget of nested parser
calls (`MAX_NESTING_DEPTH - depth`; `0` = "nesting too deep").  Returns the type, the depth the
parser records for it (atoms 1, `?` +1, `+`/`*` 1 + max) and the remaining tokens. -/
def parseAtom : Nat → Nat → List Tok → Option (Ty × Nat × List Tok)
  | 0, _, _ => none
  | _, 0, _ => none
  | n + 1, b + 1, ts =>
    match ts with
    | .one :: ts => questions .one 1 ts
    | .two :: ts => questions bitTy 1 ts
    | .twoExp ds :: ts =>
      match twoExpTy ds with
      | some t => questions t 1 ts
      | none => none
    | .lparen :: ts =>
      match parseTy n b ts with
      | some (t, d, .rparen :: ts') => questions t d ts'
      | _ => none
    | _ => none
/-- `parse_type` -/
def parseTy : Nat → Nat → List Tok → Option (Ty × Nat × List Tok)
  | 0, _, _ => none
  | n + 1, b, ts =>
    match parseAtom n b ts with
    | some (a, d, ts') => parseOps n b a d ts'
    | none => none
/-- the `loop` of `parse_type` -/
def parseOps : Nat → Nat → Ty → Nat → List Tok → Option (Ty × Nat × List Tok)
  | 0, _, _, _, _ => none
  | n + 1, b, lhs, dl, ts =>
    match ts with
    | .plus :: ts =>
      match parseAtom n b ts with
      | some (r, dr, ts') =>
        if 1 + max dl dr > maxDepth then none else parseOps n b (.sum lhs r) (1 + max dl dr) ts'
      | none => none
    | .star :: ts =>
      match parseAtom n b ts with
      | some (r, dr, ts') =>
        if 1 + max dl dr > maxDepth then none else parseOps n b (.prod lhs r) (1 + max dl dr) ts'
      | none => none
    | _ => some (lhs, dl, ts)
end

/-- a type at the top of an arrow -/
def parseType (ts : List Tok) : Option (Ty × List Tok) :=
  (parseTy (2 * ts.length + 4) maxDepth ts).map fun (t, _, r) => (t, r)


end HT
