namespace Spk

/-- big-endian low `len` bits of `n` -/
def bitsBE (n : Nat) : Nat → List Bool
  | 0 => []
  | len+1 => n.testBit len :: bitsBE n len

/-- number of leading ones -/
def pre (n : Nat) : Nat :=
  if h : n.log2 = 0 then 0 else 1 + pre n.log2
termination_by n
decreasing_by
  have h0 : n ≠ 0 := by intro h0; subst h0; simp at h
  exact (Nat.log2_lt h0).2 Nat.lt_two_pow_self

def suf (n : Nat) : List Bool :=
  if h : n.log2 = 0 then [] else suf n.log2 ++ bitsBE n n.log2
termination_by n
decreasing_by
  have h0 : n ≠ 0 := by intro h0; subst h0; simp at h
  exact (Nat.log2_lt h0).2 Nat.lt_two_pow_self

def encodeNat (n : Nat) : List Bool :=
  List.replicate (pre n) true ++ false :: suf n

inductive Err | eof | overflow
deriving DecidableEq, Repr

/-- read `len` bits, accumulating `acc := 2*acc + bit` -/
def readBits : Nat → Nat → List Bool → Except Err (Nat × List Bool)
  | 0, acc, bs => .ok (acc, bs)
  | _+1, _, [] => .error .eof
  | len+1, acc, b :: bs => readBits len (2*acc + b.toNat) bs

def decLoop : Nat → Nat → List Bool → Except Err (Nat × List Bool)
  | d, len, bs =>
    match readBits len 1 bs with
    | .error e => .error e
    | .ok (v, rest) =>
      match d with
      | 0 => if v < 2^32 then .ok (v, rest) else .error .overflow
      | d'+1 => if v > 31 then .error .overflow else decLoop d' v rest

def countOnes : List Bool → Except Err (Nat × List Bool)
  | [] => .error .eof
  | false :: bs => .ok (0, bs)
  | true :: bs => match countOnes bs with
    | .error e => .error e
    | .ok (k, r) => .ok (k+1, r)

def decodeNat (bs : List Bool) : Except Err (Nat × List Bool) :=
  match countOnes bs with
  | .error e => .error e
  | .ok (d, rest) => decLoop d 0 rest

theorem countOnes_replicate (k : Nat) (rest : List Bool) :
    countOnes (List.replicate k true ++ false :: rest) = .ok (k, rest) := by
  induction k with
  | zero => simp [countOnes]
  | succ k ih => simp [List.replicate_succ, countOnes, ih]

theorem readBits_bitsBE (n len acc : Nat) (rest : List Bool) :
    readBits len acc (bitsBE n len ++ rest) = .ok (acc * 2^len + n % 2^len, rest) := by
  induction len generalizing acc with
  | zero => simp [readBits, bitsBE, Nat.mod_one]
  | succ len ih =>
    simp only [bitsBE, List.cons_append, readBits, ih]
    congr 2
    have h := Nat.testBit_eq_decide_div_mod_eq (x := n) (i := len)
    have hb : (n.testBit len).toNat = n / 2^len % 2 := by
      rw [h]; rcases Nat.mod_two_eq_zero_or_one (n / 2^len) with h0 | h1
      · simp [h0]
      · simp [h1]
    rw [hb]
    have : n % 2^(len+1) = 2^len * (n / 2^len % 2) + n % 2^len := by
      rw [Nat.pow_succ, Nat.mod_mul]; omega
    rw [this, Nat.pow_succ]
    generalize 2^len = p
    generalize n / p % 2 = q
    generalize n % p = r
    rw [Nat.add_mul, Nat.mul_comm 2 acc, Nat.mul_assoc, Nat.mul_comm 2 p, Nat.mul_comm q p]
    omega


theorem decLoop_suf (n : Nat) (hn : 1 ≤ n) (hlt : n < 2^32) (d : Nat) (rest : List Bool) :
    decLoop (pre n + d) 0 (suf n ++ rest) =
      match d with
      | 0 => .ok (n, rest)
      | d'+1 => if n > 31 then .error .overflow else decLoop d' n rest := by
  induction n using Nat.strongRecOn generalizing d rest with
  | _ n ih =>
    by_cases h : n.log2 = 0
    · have hn1 : n = 1 := by
        have h0 : n ≠ 0 := by omega
        have := (Nat.log2_eq_iff h0).1 h
        omega
      subst hn1
      have l1 : Nat.log2 1 = 0 := by rw [Nat.log2_def]; simp
      rw [pre, suf]
      simp only [l1, dite_true, Nat.zero_add, List.nil_append]
      conv => lhs; unfold decLoop
      simp only [readBits]
      cases d <;> simp
    · have h0 : n ≠ 0 := by omega
      have hm1 : 1 ≤ n.log2 := by omega
      have hmlt : n.log2 < n := (Nat.log2_lt h0).2 Nat.lt_two_pow_self
      have hm32 : n.log2 < 32 := (Nat.log2_lt h0).2 hlt
      have hmlt32 : n.log2 < 2^32 := by omega
      rw [pre, suf]
      simp only [h, dite_false, List.append_assoc]
      have := ih n.log2 hmlt hm1 hmlt32 (d+1) (bitsBE n n.log2 ++ rest)
      rw [show 1 + pre n.log2 + d = pre n.log2 + (d+1) by omega, this]
      simp only
      rw [if_neg (by omega)]
      conv => lhs; unfold decLoop
      rw [readBits_bitsBE]
      have hval : 1 * 2 ^ n.log2 + n % 2 ^ n.log2 = n := by
        have hle := Nat.log2_self_le h0
        have hlt2 := @Nat.lt_log2_self n
        rw [Nat.pow_succ] at hlt2
        have : n / 2^n.log2 = 1 := by
          apply Nat.div_eq_of_lt_le <;> omega
        have := Nat.div_add_mod n (2^n.log2)
        rw [‹n / 2^n.log2 = 1›] at this
        omega
      simp only [hval]
      cases d with
      | zero => simp [hlt]
      | succ d' => rfl

theorem decode_encode (n : Nat) (hn : 1 ≤ n) (hlt : n < 2^32) (rest : List Bool) :
    decodeNat (encodeNat n ++ rest) = .ok (n, rest) := by
  unfold decodeNat encodeNat
  rw [List.append_assoc, List.cons_append, countOnes_replicate]
  simpa using decLoop_suf n hn hlt 0 rest


/-! ### canonicity: an accepted string is the encoding of the number it decodes to -/

/-- `log2` iterated -/
def ilog : Nat → Nat → Nat
  | 0, n => n
  | k+1, n => ilog k n.log2

theorem ilog_succ' (k n : Nat) : ilog (k+1) n = (ilog k n).log2 := by
  induction k generalizing n with
  | zero => rfl
  | succ k ih => simp only [ilog]; exact ih n.log2

/-- suffix bits, lowest level first: level `k` holds `ilog k n` written with `ilog (k+1) n` bits -/
def sufB (n : Nat) : Nat → List Bool
  | 0 => []
  | k+1 => bitsBE (ilog k n) (ilog (k+1) n) ++ sufB n k

theorem sufB_succ_top (n k : Nat) : sufB n (k+1) = sufB n.log2 k ++ bitsBE n n.log2 := by
  induction k with
  | zero => simp [sufB, ilog]
  | succ k ih =>
    rw [sufB, ih]
    simp only [sufB, ilog, List.append_assoc]

/-- reading back: the bits read are the low bits of the value, whose top part is the accumulator -/
theorem readBits_inv (len acc : Nat) (bs : List Bool) (v : Nat) (rest : List Bool)
    (h : readBits len acc bs = .ok (v, rest)) :
    bs = bitsBE v len ++ rest ∧ v / 2^len = acc := by
  induction len generalizing acc bs with
  | zero => simp [readBits] at h; obtain ⟨rfl, rfl⟩ := h; simp [bitsBE]
  | succ len ih =>
    cases bs with
    | nil => simp [readBits] at h
    | cons b bs =>
      simp only [readBits] at h
      obtain ⟨h1, h2⟩ := ih _ _ h
      have hdiv : v / 2^(len+1) = acc ∧ v / 2^len % 2 = b.toNat := by
        have : v / 2^(len+1) = v / 2^len / 2 := by rw [Nat.pow_succ, Nat.div_div_eq_div_mul]
        rw [this, h2]
        cases b <;> simp <;> omega
      refine ⟨?_, hdiv.1⟩
      simp only [bitsBE, List.cons_append]
      rw [← h1]
      congr 1
      rw [Nat.testBit_eq_decide_div_mod_eq, hdiv.2]
      cases b <;> simp

theorem log2_of_div {v len : Nat} (h : v / 2^len = 1) : v.log2 = len ∧ v ≠ 0 := by
  have hv : v ≠ 0 := by intro h0; subst h0; simp at h
  refine ⟨?_, hv⟩
  rw [Nat.log2_eq_iff hv]
  have hp : 0 < 2^len := Nat.pos_of_ne_zero (by simp)
  constructor
  · exact Nat.le_of_not_lt fun hlt => by have := Nat.div_eq_of_lt hlt; omega
  · rw [Nat.pow_succ, Nat.mul_comm]
    exact (Nat.div_lt_iff_lt_mul hp).1 (by omega)

/-- the loop of `read_natural`, inverted -/
theorem decLoop_inv : ∀ (d len : Nat) (bs : List Bool) (n : Nat) (rest : List Bool),
    decLoop d len bs = .ok (n, rest) →
    bs = sufB n (d+1) ++ rest ∧ ilog (d+1) n = len ∧ n < 2^32 ∧ n ≠ 0 := by
  intro d
  induction d with
  | zero =>
    intro len bs n rest h
    unfold decLoop at h
    cases hr : readBits len 1 bs with
    | error e => simp [hr] at h
    | ok p =>
      obtain ⟨v, r⟩ := p
      simp only [hr] at h
      split at h
      · next hlt =>
        simp at h; obtain ⟨rfl, rfl⟩ := h
        obtain ⟨h1, h2⟩ := readBits_inv _ _ _ _ _ hr
        obtain ⟨hl, hv⟩ := log2_of_div h2
        refine ⟨?_, ?_, hlt, hv⟩
        · simp [sufB, ilog, hl, h1]
        · simp [ilog, hl]
      · simp at h
  | succ d ih =>
    intro len bs n rest h
    unfold decLoop at h
    cases hr : readBits len 1 bs with
    | error e => simp [hr] at h
    | ok p =>
      obtain ⟨v, r⟩ := p
      simp only [hr] at h
      split at h
      · simp at h
      · obtain ⟨h1, h2, h3, h4⟩ := ih _ _ _ _ h
        obtain ⟨hb, hdiv⟩ := readBits_inv _ _ _ _ _ hr
        obtain ⟨hl, hv⟩ := log2_of_div hdiv
        refine ⟨?_, ?_, h3, h4⟩
        · rw [hb, h1]
          show _ = (bitsBE (ilog (d+1) n) (ilog (d+1+1) n) ++ sufB n (d+1)) ++ rest
          rw [ilog_succ' (d+1) n, h2, hl, List.append_assoc]
        · rw [ilog_succ' (d+1) n, h2, hl]

theorem countOnes_inv (bs : List Bool) (k : Nat) (rest : List Bool) (h : countOnes bs = .ok (k, rest)) :
    bs = List.replicate k true ++ false :: rest := by
  induction bs generalizing k with
  | nil => simp [countOnes] at h
  | cons b bs ih =>
    cases b with
    | false => simp [countOnes] at h; obtain ⟨rfl, rfl⟩ := h; simp
    | true =>
      simp only [countOnes] at h
      cases hc : countOnes bs with
      | error e => simp [hc] at h
      | ok p =>
        obtain ⟨k', r⟩ := p
        simp [hc] at h
        obtain ⟨rfl, rfl⟩ := h
        rw [ih k' hc]; simp [List.replicate_succ]

/-- `pre`/`suf` from the iterated logarithm -/
theorem pre_suf_of_ilog : ∀ (d n : Nat), n ≠ 0 → ilog (d+1) n = 0 → (d = 0 ∨ ilog d n ≠ 0 ∧ True) →
    (∀ j, j ≤ d → ilog j n ≠ 0) → pre n = d ∧ suf n = sufB n d := by
  intro d
  induction d with
  | zero =>
    intro n _ h _ _
    have h0 : n.log2 = 0 := by simpa [ilog] using h
    rw [pre, suf]; simp [h0, sufB]
  | succ d ih =>
    intro n hn h _ hall
    have hl : n.log2 ≠ 0 := by have := hall 1 (by omega); simpa [ilog] using this
    have := ih n.log2 hl (by simpa [ilog] using h) (Or.inr ⟨by
        have := hall (d+1) (by omega); simpa [ilog] using this, trivial⟩)
      (fun j hj => by have := hall (j+1) (by omega); simpa [ilog] using this)
    rw [pre, suf]
    simp only [hl, dite_false]
    rw [this.1, this.2, sufB_succ_top]
    exact ⟨by omega, rfl⟩

theorem ilog_ne_zero_of (n : Nat) : ∀ (d : Nat), ilog (d+1) n = 0 → ilog d n ≠ 0 ∨ True := fun _ _ => .inr trivial

/-- every level read by the loop below a non-zero length is itself non-zero -/
theorem levels_ne_zero : ∀ (d len : Nat) (bs : List Bool) (n : Nat) (rest : List Bool), len ≠ 0 →
    decLoop d len bs = .ok (n, rest) → ∀ j, j ≤ d → ilog j n ≠ 0 := by
  intro d
  induction d with
  | zero =>
    intro len bs n rest _ hd j hj
    have : j = 0 := by omega
    subst this
    obtain ⟨_, _, _, h4⟩ := decLoop_inv _ _ _ _ _ hd
    simpa [ilog] using h4
  | succ d ih =>
    intro len bs n rest hlen hd j hj
    have hd0 := hd
    unfold decLoop at hd
    cases hr : readBits len 1 bs with
    | error e => simp [hr] at hd
    | ok q =>
      obtain ⟨v, r⟩ := q
      simp only [hr] at hd
      split at hd
      · simp at hd
      · obtain ⟨_, hdiv⟩ := readBits_inv _ _ _ _ _ hr
        obtain ⟨_, hv⟩ := log2_of_div hdiv
        by_cases hjd : j ≤ d
        · exact ih v r n rest hv hd j hjd
        · have : j = d+1 := by omega
          subst this
          obtain ⟨_, g2, _, _⟩ := decLoop_inv _ _ _ _ _ hd
          rw [g2]; exact hv

/-- **canonicity**: whatever `read_natural` accepts is the encoding of the number it returns,
and that number is in `1 .. 2^32-1` — at most one number per string, never a truncated one. -/
theorem decode_canonical (bs : List Bool) (n : Nat) (rest : List Bool)
    (h : decodeNat bs = .ok (n, rest)) : bs = encodeNat n ++ rest ∧ 1 ≤ n ∧ n < 2^32 := by
  unfold decodeNat at h
  cases hc : countOnes bs with
  | error e => simp [hc] at h
  | ok p =>
    obtain ⟨d, r0⟩ := p
    simp only [hc] at h
    obtain ⟨h1, h2, h3, h4⟩ := decLoop_inv d 0 r0 n rest h
    have hbs := countOnes_inv bs d r0 hc
    have hall : ∀ j, j ≤ d → ilog j n ≠ 0 := by
      cases d with
      | zero => intro j hj; have : j = 0 := by omega
                subst this; simpa [ilog] using h4
      | succ d' =>
        unfold decLoop at h
        simp only [readBits] at h
        split at h
        · simp at h
        · intro j hj
          by_cases hjd : j ≤ d'
          · exact levels_ne_zero d' 1 r0 n rest (by omega) h j hjd
          · have : j = d'+1 := by omega
            subst this
            obtain ⟨_, g2, _, _⟩ := decLoop_inv _ _ _ _ _ h
            rw [g2]; omega
    obtain ⟨hp, hs⟩ := pre_suf_of_ilog d n h4 h2 (.inr ⟨hall d (by omega), trivial⟩) hall
    refine ⟨?_, Nat.pos_of_ne_zero h4, h3⟩
    unfold encodeNat
    rw [hbs, h1, hp, hs]
    have : sufB n (d+1) = sufB n d := by
      simp [sufB, h2, bitsBE]
    rw [this]; simp

#print axioms decode_encode
#print axioms decode_canonical
end Spk
