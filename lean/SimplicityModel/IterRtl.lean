import SimplicityModel.IterRun
set_option linter.unusedSectionVars false
/-
C18 — `DagLike::rtl_post_order_iter`: the post-order iterator on `SwapChildren(root)` followed by
`PostOrderIterItem::unswap`.  `SwapChildren(d)` is modelled as the mirrored handle `d.mirror`
(children of binary nodes exchanged, same pointer identities); a tracker sees the wrapped node, so
its key on a swapped handle is `key ∘ mirror`.  `rtl_eq_visitR`: the result is the recursive
right-to-left walk of the *original* DAG (`visitR`), and `Inv.unswap` carries the whole invariant of
the post-order walk (consecutive numbering, classes once, true child indices) over to it.
-/
namespace PO
variable {K : Type} [DecidableEq K] (key : T → Option K)

def T.mirror : T → T
  | .leaf id => .leaf id
  | .un id l => .un id l.mirror
  | .bin id l r => .bin id r.mirror l.mirror

@[simp] theorem T.mirror_mirror (t : T) : t.mirror.mirror = t := by
  induction t with
  | leaf id => rfl
  | un id l ih => simp only [T.mirror, ih]
  | bin id l r ihl ihr => simp only [T.mirror, ihl, ihr]

@[simp] theorem T.id_mirror (t : T) : t.mirror.id = t.id := by cases t <;> rfl

/-- the key a tracker computes on a `SwapChildren` handle (it looks through the wrapper) -/
def mkey : T → Option K := fun t => key t.mirror

@[simp] theorem mkey_mirror (t : T) : mkey key t.mirror = key t := by simp [mkey]

/-- `PostOrderIterItem::unswap`: unwrap the handle, exchange the child indices of binary nodes -/
def Out.unswap (o : Out) : Out :=
  match o.node with
  | .bin _ _ _ => ⟨o.node.mirror, o.index, o.ridx, o.lidx⟩
  | _ => ⟨o.node.mirror, o.index, o.lidx, o.ridx⟩

/-- `DagLike::rtl_post_order_iter` -/
def rtl (root : T) : List Out := (run (mkey key) (init root.mirror)).map Out.unswap

/-- `unswap` without unwrapping the handle (the driver prints handles by pointer identity, which
`mirror` keeps; unwrapping a handle of a heavily shared DAG would unfold it) -/
def Out.unswapIdx (o : Out) : Out :=
  match o.node with
  | .bin _ _ _ => ⟨o.node, o.index, o.ridx, o.lidx⟩
  | _ => o

/-- the iteration of `rtl_post_order_iter` given the swapped handle and the tracker's key on
swapped handles: the stack machine, then the index exchange of `unswap` -/
def rtlOn (root' : T) : List Out := (run key (init root')).map Out.unswapIdx

theorem unswap_eq (o : Out) : o.unswap = { o.unswapIdx with node := o.unswapIdx.node.mirror } := by
  obtain ⟨n, i, l, r⟩ := o
  cases n <;> rfl

/-- what the driver runs is `rtl` up to unwrapping the handles -/
theorem rtl_eq_rtlOn (root : T) :
    rtl key root = (rtlOn (mkey key) root.mirror).map fun o => { o with node := o.node.mirror } := by
  unfold rtl rtlOn
  rw [List.map_map]
  apply List.map_congr_left
  intro o _
  exact unswap_eq o

/-- right-to-left recursive walk of the original DAG: the right child's sub-DAG first -/
def visitR : T → Seen K → Nat → List Out × Seen K × Nat × Nat
  | .leaf id, seen, idx => visit.fin key (.leaf id) none none [] seen idx
  | .un id l, seen, idx =>
    match seenBefore key seen l with
    | some i => visit.fin key (.un id l) (some i) none [] seen idx
    | none =>
      let a := visitR l seen idx
      visit.fin key (.un id l) (some a.2.2.2) none a.1 a.2.1 a.2.2.1
  | .bin id l r, seen, idx =>
    match seenBefore key seen l, seenBefore key seen r with
    | some li, some ri => visit.fin key (.bin id l r) (some li) (some ri) [] seen idx
    | some li, none =>
      let b := visitR r seen idx
      visit.fin key (.bin id l r) (some li) (some b.2.2.2) b.1 b.2.1 b.2.2.1
    | none, some ri =>
      let a := visitR l seen idx
      visit.fin key (.bin id l r) (some a.2.2.2) (some ri) a.1 a.2.1 a.2.2.1
    | none, none =>
      let b := visitR r seen idx
      let a := visitR l b.2.1 b.2.2.1
      visit.fin key (.bin id l r) (some a.2.2.2) (some b.2.2.2) (b.1 ++ a.1) a.2.1 a.2.2.1

theorem seenBefore_mkey (seen : Seen K) (t : T) :
    seenBefore (mkey key) seen t.mirror = seenBefore key seen t := by
  simp [seenBefore]

theorem record_mkey (seen : Seen K) (t : T) (idx : Nat) :
    record (mkey key) seen t.mirror idx = record key seen t idx := by
  simp [record]

/-- the `fin` step of the mirrored walk, unswapped -/
theorem fin_mirror (t : T) (li' ri' li ri : Option Nat) (outs' : List Out) (seen : Seen K) (idx : Nat)
    (h : (⟨t.mirror, idx, li', ri'⟩ : Out).unswap = ⟨t, idx, li, ri⟩) :
    visit.fin key t li ri (outs'.map Out.unswap) seen idx =
      (((visit.fin (mkey key) t.mirror li' ri' outs' seen idx).1).map Out.unswap,
       (visit.fin (mkey key) t.mirror li' ri' outs' seen idx).2.1,
       (visit.fin (mkey key) t.mirror li' ri' outs' seen idx).2.2.1,
       (visit.fin (mkey key) t.mirror li' ri' outs' seen idx).2.2.2) := by
  unfold visit.fin
  rw [record_mkey]
  cases hr : record key seen t idx with
  | mk a s' => cases a <;> simp [h]

theorem visitR_eq_mirror (t : T) : ∀ (seen : Seen K) (idx : Nat),
    visitR key t seen idx =
      (((visit (mkey key) t.mirror seen idx).1).map Out.unswap,
       (visit (mkey key) t.mirror seen idx).2.1,
       (visit (mkey key) t.mirror seen idx).2.2.1,
       (visit (mkey key) t.mirror seen idx).2.2.2) := by
  induction t with
  | leaf id =>
    intro seen idx
    simp only [visitR, T.mirror, visit]
    exact fin_mirror key (.leaf id) none none none none [] seen idx rfl
  | un id l ih =>
    intro seen idx
    simp only [visitR, T.mirror, visit]
    rw [seenBefore_mkey]
    cases hs : seenBefore key seen l with
    | some i =>
      exact fin_mirror key (.un id l) (some i) none (some i) none [] seen idx (by simp [Out.unswap, T.mirror])
    | none =>
      simp only []
      rw [ih seen idx]
      exact fin_mirror key (.un id l) _ none _ none _ _ _ (by simp [Out.unswap, T.mirror])
  | bin id l r ihl ihr =>
    intro seen idx
    simp only [visitR, T.mirror, visit]
    rw [seenBefore_mkey, seenBefore_mkey]
    cases hsl : seenBefore key seen l with
    | some li =>
      cases hsr : seenBefore key seen r with
      | some ri =>
        exact fin_mirror key (.bin id l r) (some ri) (some li) (some li) (some ri) [] seen idx
          (by simp [Out.unswap, T.mirror])
      | none =>
        simp only []
        rw [ihr seen idx]
        exact fin_mirror key (.bin id l r) _ (some li) (some li) _ _ _ _ (by simp [Out.unswap, T.mirror])
    | none =>
      cases hsr : seenBefore key seen r with
      | some ri =>
        simp only []
        rw [ihl seen idx]
        exact fin_mirror key (.bin id l r) (some ri) _ _ (some ri) _ _ _ (by simp [Out.unswap, T.mirror])
      | none =>
        simp only []
        rw [ihr seen idx]
        simp only []
        rw [ihl]
        simp only []
        rw [← List.map_append]
        exact fin_mirror key (.bin id l r) _ _ _ _ _ _ _ (by simp [Out.unswap, T.mirror])

/-- **right-to-left iteration = the mirror image**: the stack machine on the swapped handle,
unswapped, yields exactly the recursive right-to-left walk of the original DAG -/
theorem rtl_eq_visitR (root : T) : rtl key root = (visitR key root (fun _ => none) 0).1 := by
  unfold rtl
  rw [run_eq_visit, visitR_eq_mirror]

/-! ### the invariant of the walk survives unswapping -/

@[simp] theorem unswap_node (o : Out) : o.unswap.node = o.node.mirror := by
  unfold Out.unswap; cases o.node <;> rfl
@[simp] theorem unswap_index (o : Out) : o.unswap.index = o.index := by
  unfold Out.unswap; cases o.node <;> rfl

theorem Same.mirror {a c : T} (h : Same (mkey key) a c) : Same key a.mirror c.mirror := by
  rcases h with rfl | ⟨k, h1, h2⟩
  · exact .inl rfl
  · exact .inr ⟨k, h1, h2⟩

theorem Rep.unswap {outs : List Out} {j : Nat} {c : T} (h : Rep (mkey key) outs j c) :
    Rep key (outs.map Out.unswap) j c.mirror := by
  obtain ⟨o, ho, hs⟩ := h
  exact ⟨o.unswap, by simp [ho], by simpa using hs.mirror key⟩

theorem ChildOK.unswap {outs : List Out} {i : Nat} {c : Option T} {ci : Option Nat}
    (h : ChildOK (mkey key) outs i c ci) : ChildOK key (outs.map Out.unswap) i (c.map T.mirror) ci := by
  unfold ChildOK at *
  cases c with
  | none => exact h
  | some c =>
    obtain ⟨j, h1, h2, h3⟩ := h
    exact ⟨j, h1, h2, h3.unswap key⟩

theorem Inv.unswap {seen : Seen K} {outs : List Out} (h : Inv (mkey key) seen outs) :
    Inv key seen (outs.map Out.unswap) := by
  refine ⟨?_, ?_, ?_⟩
  · intro i o ho
    rw [List.getElem?_map] at ho
    cases ho' : outs[i]? with
    | none => rw [ho'] at ho; cases ho
    | some o' =>
      rw [ho'] at ho; simp only [Option.map_some, Option.some.injEq] at ho
      subst ho; simpa using h.idx i o' ho'
  · intro k i
    rw [h.seen]
    constructor
    · rintro ⟨o, ho, hk⟩
      exact ⟨o.unswap, by simp [ho], by simpa [mkey] using hk⟩
    · rintro ⟨o, ho, hk⟩
      rw [List.getElem?_map] at ho
      cases ho' : outs[i]? with
      | none => rw [ho'] at ho; cases ho
      | some o' =>
        rw [ho'] at ho; simp only [Option.map_some, Option.some.injEq] at ho
        subst ho
        exact ⟨o', rfl, by simpa [mkey] using hk⟩
  · intro i o ho
    rw [List.getElem?_map] at ho
    cases ho' : outs[i]? with
    | none => rw [ho'] at ho; cases ho
    | some o' =>
      rw [ho'] at ho; simp only [Option.map_some, Option.some.injEq] at ho
      subst ho
      obtain ⟨hl, hr⟩ := h.kids i o' ho'
      have hl' := hl.unswap key
      have hr' := hr.unswap key
      obtain ⟨n, ix, li, ri⟩ := o'
      cases n with
      | leaf id => exact ⟨hl', hr'⟩
      | un id l => exact ⟨hl', hr'⟩
      | bin id l r => exact ⟨hr', hl'⟩

/-! ### reachability and congruence under mirroring -/

theorem Desc.mirror {p d : T} (h : Desc p d) : Desc p.mirror d.mirror := by
  induction h with
  | refl t => exact .refl _
  | @left p c d hl _ ih =>
    cases p with
    | leaf id => simp [T.left] at hl
    | un id l => simp [T.left] at hl; subst hl; exact .left (c := l.mirror) rfl ih
    | bin id l r => simp [T.left] at hl; subst hl; exact .right (c := l.mirror) rfl ih
  | @right p c d hl _ ih =>
    cases p with
    | leaf id => simp [T.right] at hl
    | un id l => simp [T.right] at hl
    | bin id l r => simp [T.right] at hl; subst hl; exact .left (c := r.mirror) rfl ih

theorem SameO.mirror {a c : Option T} (h : SameO key a c) :
    SameO (mkey key) (a.map T.mirror) (c.map T.mirror) := by
  cases a <;> cases c <;> simp only [SameO, Option.map] at h ⊢
  rcases h with rfl | ⟨k, h1, h2⟩
  · exact .inl rfl
  · exact .inr ⟨k, by simpa using h1, by simpa using h2⟩

theorem mirror_left (t : T) : t.mirror.left = (match t with | .bin _ _ r => some r.mirror | t => t.left.map T.mirror) := by
  cases t <;> rfl
theorem mirror_right (t : T) : t.mirror.right = (match t with | .bin _ l _ => some l.mirror | _ => none) := by
  cases t <;> rfl

theorem Congr.mirror (hc : Congr key) : Congr (mkey key) := by
  intro a c k ha hc'
  have h := hc a.mirror c.mirror k ha hc'
  have hl := h.1.mirror key
  have hr := h.2.mirror key
  cases a <;> cases c <;>
    simp only [T.mirror, T.left, T.right, Option.map, SameO, T.mirror_mirror] at hl hr ⊢ <;>
    first | exact ⟨hl, hr⟩ | exact ⟨hr, hl⟩ | exact hl.elim | exact hr.elim

end PO
