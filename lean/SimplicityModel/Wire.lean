import SimplicityModel.NatCodec
/-
Spike: C01/C02 wire layer — `encode_node`/`decode_node` and the node-list loop of
`encode_program`/`decode_expression` (src/bit_encoding/{encode,decode}.rs), over an abstract
prefix-free jet code.
-/
namespace Wire
open Spk

inductive E | eof | overflow | badIndex | jet
deriving DecidableEq, Repr

/-- `DecodeNode`: children as absolute indices -/
inductive WNode (J : Type)
  | iden | unit | witness
  | injl (i : Nat) | injr (i : Nat) | take (i : Nat) | drop (i : Nat) | disc1 (i : Nat)
  | comp (i j : Nat) | case (i j : Nat) | pair (i j : Nat) | disc (i j : Nat)
  | fail (entropy : List Bool)     -- 512 bits
  | hidden (cmr : List Bool)       -- 256 bits
  | jet (j : J)
  | word (n : Nat) (bits : List Bool)   -- 2^n bits
deriving DecidableEq, Repr

/-- jets: an encoder and a decoder that are mutually inverse (C14: prefix-free table) -/
structure JetCode (J : Type) where
  enc : J → List Bool
  dec : List Bool → Option (J × List Bool)
  dec_enc : ∀ j r, dec (enc j ++ r) = some (j, r)
  canonical : ∀ bs j r, dec bs = some (j, r) → bs = enc j ++ r

/-- `read_natural(Some(bound))` -/
def decNatB (bound : Nat) (bs : List Bool) : Except E (Nat × List Bool) :=
  match decodeNat bs with
  | .error .eof => .error .eof
  | .error .overflow => .error .overflow
  | .ok (n, r) => if n ≤ bound then .ok (n, r) else .error .badIndex

/-- read exactly `n` bits -/
def take' : Nat → List Bool → Except E (List Bool × List Bool)
  | 0, bs => .ok ([], bs)
  | _+1, [] => .error .eof
  | n+1, b :: bs => match take' n bs with
    | .ok (x, r) => .ok (b :: x, r)
    | .error e => .error e

variable {J : Type} (jc : JetCode J)

def encNode (idx : Nat) : WNode J → List Bool
  | .comp i j => [false, false, false, false, false] ++ encodeNat (idx - i) ++ encodeNat (idx - j)
  | .case i j => [false, false, false, false, true] ++ encodeNat (idx - i) ++ encodeNat (idx - j)
  | .pair i j => [false, false, false, true, false] ++ encodeNat (idx - i) ++ encodeNat (idx - j)
  | .disc i j => [false, false, false, true, true] ++ encodeNat (idx - i) ++ encodeNat (idx - j)
  | .injl i => [false, false, true, false, false] ++ encodeNat (idx - i)
  | .injr i => [false, false, true, false, true] ++ encodeNat (idx - i)
  | .take i => [false, false, true, true, false] ++ encodeNat (idx - i)
  | .drop i => [false, false, true, true, true] ++ encodeNat (idx - i)
  | .iden => [false, true, false, false, false]
  | .unit => [false, true, false, false, true]
  | .fail e => [false, true, false, true, false] ++ e
  | .disc1 i => [false, true, false, true, true] ++ encodeNat (idx - i)
  | .hidden h => [false, true, true, false] ++ h
  | .witness => [false, true, true, true]
  | .jet j => [true, true] ++ jc.enc j
  | .word n w => [true, false] ++ encodeNat (1 + n) ++ w

def decNode (idx : Nat) : List Bool → Except E (WNode J × List Bool)
  | true :: true :: r =>
    match jc.dec r with
    | some (j, r) => .ok (.jet j, r)
    | none => .error .jet
  | true :: false :: r =>
    match decNatB 32 r with
    | .error e => .error e
    | .ok (n, r) => match take' (2 ^ (n - 1)) r with
      | .error e => .error e
      | .ok (w, r) => .ok (.word (n - 1) w, r)
  | false :: false :: false :: c1 :: c0 :: r =>
    match decNatB idx r with
    | .error e => .error e
    | .ok (i, r) => match decNatB idx r with
      | .error e => .error e
      | .ok (j, r) =>
        .ok (match c1, c0 with
          | false, false => .comp (idx - i) (idx - j)
          | false, true => .case (idx - i) (idx - j)
          | true, false => .pair (idx - i) (idx - j)
          | true, true => .disc (idx - i) (idx - j), r)
  | false :: false :: true :: c1 :: c0 :: r =>
    match decNatB idx r with
    | .error e => .error e
    | .ok (i, r) =>
        .ok (match c1, c0 with
          | false, false => .injl (idx - i)
          | false, true => .injr (idx - i)
          | true, false => .take (idx - i)
          | true, true => .drop (idx - i), r)
  | false :: true :: false :: false :: false :: r => .ok (.iden, r)
  | false :: true :: false :: false :: true :: r => .ok (.unit, r)
  | false :: true :: false :: true :: false :: r =>
    match take' 512 r with
    | .error e => .error e
    | .ok (e, r) => .ok (.fail e, r)
  | false :: true :: false :: true :: true :: r =>
    match decNatB idx r with
    | .error e => .error e
    | .ok (i, r) => .ok (.disc1 (idx - i), r)
  | false :: true :: true :: true :: r => .ok (.witness, r)
  | false :: true :: true :: false :: r =>
    match take' 256 r with
    | .error e => .error e
    | .ok (h, r) => .ok (.hidden h, r)
  | _ => .error .eof

/-- what a node at index `idx` must satisfy for its encoding to be read back -/
def WNode.Ok (idx : Nat) : WNode J → Prop
  | .comp i j | .case i j | .pair i j | .disc i j => i < idx ∧ j < idx
  | .injl i | .injr i | .take i | .drop i | .disc1 i => i < idx
  | .fail e => e.length = 512
  | .hidden h => h.length = 256
  | .word n w => n < 32 ∧ w.length = 2 ^ n
  | _ => True

theorem take'_append (x r : List Bool) : take' x.length (x ++ r) = .ok (x, r) := by
  induction x with
  | nil => rfl
  | cons b x ih => simp [take', ih]

theorem take'_inv : ∀ (n : Nat) (bs x r : List Bool), take' n bs = .ok (x, r) → bs = x ++ r ∧ x.length = n
  | 0, bs, x, r, h => by simp [take'] at h; obtain ⟨rfl, rfl⟩ := h; simp
  | n+1, [], x, r, h => by simp [take'] at h
  | n+1, b :: bs, x, r, h => by
    simp only [take'] at h
    cases ht : take' n bs with
    | error e => simp [ht] at h
    | ok p =>
      obtain ⟨x', r'⟩ := p
      simp only [ht] at h
      have hx : b :: x' = x := by cases h; rfl
      have hr : r' = r := by cases h; rfl
      obtain ⟨h1, h2⟩ := take'_inv n bs x' r' ht
      subst hx hr
      simp [h1, h2]

theorem decNatB_enc (bound n : Nat) (h1 : 1 ≤ n) (hb : n ≤ bound) (h32 : n < 2^32) (r : List Bool) :
    decNatB bound (encodeNat n ++ r) = .ok (n, r) := by
  simp [decNatB, decode_encode n h1 h32, hb]

theorem decNatB_inv (bound : Nat) (bs : List Bool) (n : Nat) (r : List Bool)
    (h : decNatB bound bs = .ok (n, r)) : bs = encodeNat n ++ r ∧ 1 ≤ n ∧ n ≤ bound := by
  unfold decNatB at h
  split at h
  · cases h
  · cases h
  · next n' r' hd =>
    split at h
    · cases h
      have := decode_canonical _ _ _ hd
      exact ⟨this.1, this.2.1, by assumption⟩
    · cases h

/-- **round trip of one node** -/
theorem decNode_encNode (idx : Nat) (hidx : idx < 2^32) (n : WNode J) (hn : n.Ok idx) (r : List Bool) :
    decNode jc idx (encNode jc idx n ++ r) = .ok (n, r) := by
  cases n <;> simp only [WNode.Ok] at hn <;>
    simp only [encNode, List.cons_append, List.nil_append, List.append_assoc, decNode]
  all_goals first
    | rfl
    | (rw [decNatB_enc _ _ (by omega) (by omega) (by omega)]
       first
        | (simp only []; rw [decNatB_enc _ _ (by omega) (by omega) (by omega)]; simp only []
           congr 3 <;> omega)
        | (simp only []; congr 3; omega))
    | skip
  · -- fail
    rename_i e
    rw [← hn, take'_append]
  · -- hidden
    rename_i h
    rw [← hn, take'_append]
  · -- jet
    rename_i j
    rw [jc.dec_enc]
  · -- word
    rename_i k w
    have h32 : (2:Nat)^32 = 4294967296 := by decide
    rw [decNatB_enc _ _ (by omega) (by omega) (by omega)]
    simp only [Nat.add_sub_cancel_left]
    rw [← hn.2, take'_append]

/-- **canonicity of one node**: whatever `decode_node` accepts is the encoding of what it returns -/
theorem decNode_canonical (idx : Nat) (bs : List Bool) (n : WNode J) (r : List Bool)
    (h : decNode jc idx bs = .ok (n, r)) : bs = encNode jc idx n ++ r ∧ n.Ok idx := by
  unfold decNode at h
  split at h
  · -- jet
    split at h
    · next j r' hd => cases h; have := jc.canonical _ _ _ hd; simp [encNode, this, WNode.Ok]
    · cases h
  · -- word
    split at h
    · cases h
    · next k r1 hk =>
      split at h
      · cases h
      · next w r2 hw =>
        cases h
        obtain ⟨e1, k1, k32⟩ := decNatB_inv _ _ _ _ hk
        obtain ⟨e2, l2⟩ := take'_inv _ _ _ _ hw
        refine ⟨?_, ?_, ?_⟩
        · simp only [encNode, List.cons_append, List.nil_append, List.append_assoc]
          rw [show 1 + (k - 1) = k by omega, e1, e2]
        · omega
        · exact l2
  · -- binary
    next c1 c0 r0 =>
    split at h
    · cases h
    · next i r1 hi =>
      split at h
      · cases h
      · next j r2 hj =>
        obtain ⟨e1, i1, ib⟩ := decNatB_inv _ _ _ _ hi
        obtain ⟨e2, j1, jb⟩ := decNatB_inv _ _ _ _ hj
        have hi' : idx - (idx - i) = i := by omega
        have hj' : idx - (idx - j) = j := by omega
        cases c1 <;> cases c0 <;> cases h <;>
          (refine ⟨?_, by simp only [WNode.Ok]; omega⟩
           simp only [encNode, List.cons_append, List.nil_append, List.append_assoc, hi', hj']
           rw [← e2, ← e1])
  · -- unary
    next c1 c0 r0 =>
    split at h
    · cases h
    · next i r1 hi =>
      obtain ⟨e1, i1, ib⟩ := decNatB_inv _ _ _ _ hi
      have hi' : idx - (idx - i) = i := by omega
      cases c1 <;> cases c0 <;> cases h <;>
        (refine ⟨?_, by simp only [WNode.Ok]; omega⟩
         simp only [encNode, List.cons_append, List.nil_append, List.append_assoc, hi']
         rw [← e1])
  · cases h; simp [encNode, WNode.Ok]
  · cases h; simp [encNode, WNode.Ok]
  · -- fail
    split at h
    · cases h
    · next e r1 he =>
      cases h
      obtain ⟨e2, l2⟩ := take'_inv _ _ _ _ he
      simp [encNode, WNode.Ok, e2, l2]
  · -- disconnect1
    split at h
    · cases h
    · next i r1 hi =>
      cases h
      obtain ⟨e1, i1, ib⟩ := decNatB_inv _ _ _ _ hi
      have hi' : idx - (idx - i) = i := by omega
      refine ⟨?_, by simp only [WNode.Ok]; omega⟩
      simp only [encNode, List.cons_append, List.nil_append, List.append_assoc, hi']
      rw [← e1]
  · cases h; simp [encNode, WNode.Ok]
  · -- hidden
    split at h
    · cases h
    · next e r1 he =>
      cases h
      obtain ⟨e2, l2⟩ := take'_inv _ _ _ _ he
      simp [encNode, WNode.Ok, e2, l2]
  · cases h

/-! ### the node list -/

def encNodes (start : Nat) : List (WNode J) → List Bool
  | [] => []
  | n :: ns => encNode jc start n ++ encNodes (start + 1) ns

/-- the `for _ in 0..len` loop of `decode_expression` -/
def decNodes : Nat → Nat → List Bool → Except E (List (WNode J) × List Bool)
  | 0, _, bs => .ok ([], bs)
  | len+1, start, bs =>
    match decNode jc start bs with
    | .error e => .error e
    | .ok (n, r) => match decNodes len (start + 1) r with
      | .error e => .error e
      | .ok (ns, r) => .ok (n :: ns, r)

def NodesOk (start : Nat) : List (WNode J) → Prop
  | [] => True
  | n :: ns => n.Ok start ∧ NodesOk (start + 1) ns

def encProgram (ns : List (WNode J)) : List Bool := encodeNat ns.length ++ encNodes jc 0 ns

def decProgram (bs : List Bool) : Except E (List (WNode J) × List Bool) :=
  match decodeNat bs with
  | .error .eof => .error .eof
  | .error .overflow => .error .overflow
  | .ok (len, r) => decNodes jc len 0 r

theorem decNodes_encNodes : ∀ (ns : List (WNode J)) (start : Nat) (r : List Bool),
    start + ns.length ≤ 2^32 → NodesOk start ns →
    decNodes jc ns.length start (encNodes jc start ns ++ r) = .ok (ns, r)
  | [], _, _, _, _ => rfl
  | n :: ns, start, r, hl, hok => by
    simp only [List.length_cons] at hl
    simp only [List.length_cons, decNodes, encNodes, List.append_assoc]
    rw [decNode_encNode jc start (by omega) n hok.1]
    simp only []
    rw [decNodes_encNodes ns (start + 1) r (by omega) hok.2]

theorem decNodes_canonical : ∀ (len start : Nat) (bs : List Bool) (ns : List (WNode J)) (r : List Bool),
    decNodes jc len start bs = .ok (ns, r) →
    bs = encNodes jc start ns ++ r ∧ ns.length = len ∧ NodesOk start ns
  | 0, _, bs, ns, r, h => by simp [decNodes] at h; obtain ⟨rfl, rfl⟩ := h; simp [encNodes, NodesOk]
  | len+1, start, bs, ns, r, h => by
    simp only [decNodes] at h
    split at h
    · cases h
    · next n r1 hn =>
      split at h
      · cases h
      · next ns' r2 hns =>
        have e1 : n :: ns' = ns := by cases h; rfl
        have e2 : r2 = r := by cases h; rfl
        subst e1 e2
        obtain ⟨hb, hok⟩ := decNode_canonical jc _ _ _ _ hn
        obtain ⟨hb', hl, hoks⟩ := decNodes_canonical len (start+1) r1 ns' r2 hns
        refine ⟨?_, by simp [hl], hok, hoks⟩
        simp only [encNodes, List.append_assoc]
        rw [← hb', ← hb]

/-- **C01 wire layer**: a well-indexed node list of fewer than 2^32 nodes reads back exactly -/
theorem decProgram_encProgram (ns : List (WNode J)) (h0 : ns ≠ []) (hl : ns.length < 2^32)
    (hok : NodesOk 0 ns) (r : List Bool) :
    decProgram jc (encProgram jc ns ++ r) = .ok (ns, r) := by
  unfold decProgram encProgram
  rw [List.append_assoc, decode_encode _ (by cases ns <;> simp_all) hl]
  simp only []
  exact decNodes_encNodes jc ns 0 r (by omega) hok

/-- **C02 wire layer**: whatever the node-list decoder accepts is the encoding of what it returns,
with every reference pointing strictly backwards -/
theorem decProgram_canonical (bs : List Bool) (ns : List (WNode J)) (r : List Bool)
    (h : decProgram jc bs = .ok (ns, r)) :
    bs = encProgram jc ns ++ r ∧ ns ≠ [] ∧ ns.length < 2^32 ∧ NodesOk 0 ns := by
  unfold decProgram at h
  split at h
  · cases h
  · cases h
  · next len r1 hd =>
    obtain ⟨e1, l1, l32⟩ := decode_canonical _ _ _ hd
    obtain ⟨e2, hl, hok⟩ := decNodes_canonical jc _ _ _ _ _ h
    refine ⟨?_, ?_, by omega, hok⟩
    · unfold encProgram; rw [hl, List.append_assoc, ← e2, ← e1]
    · intro hn; subst hn; simp at hl; omega

#print axioms decProgram_encProgram
#print axioms decProgram_canonical
end Wire
