/-
SHA-256 (FIPS 180-4), executable, core Lean only.  Used to recompute Merkle roots bit for bit.
Theorems about roots treat the compression function as an arbitrary function (see `Cmr.lean`);
this file is the concrete instance the driver runs.
-/
namespace Sha2

/-! Words are naturals below `2^32`; everything is structural recursion over lists and `Nat`
arithmetic, which both the compiler and the kernel (`decide +kernel`) evaluate quickly. -/

def K : List Nat := [
  0x428a2f98, 0x71374491, 0xb5c0fbcf, 0xe9b5dba5, 0x3956c25b, 0x59f111f1, 0x923f82a4, 0xab1c5ed5,
  0xd807aa98, 0x12835b01, 0x243185be, 0x550c7dc3, 0x72be5d74, 0x80deb1fe, 0x9bdc06a7, 0xc19bf174,
  0xe49b69c1, 0xefbe4786, 0x0fc19dc6, 0x240ca1cc, 0x2de92c6f, 0x4a7484aa, 0x5cb0a9dc, 0x76f988da,
  0x983e5152, 0xa831c66d, 0xb00327c8, 0xbf597fc7, 0xc6e00bf3, 0xd5a79147, 0x06ca6351, 0x14292967,
  0x27b70a85, 0x2e1b2138, 0x4d2c6dfc, 0x53380d13, 0x650a7354, 0x766a0abb, 0x81c2c92e, 0x92722c85,
  0xa2bfe8a1, 0xa81a664b, 0xc24b8b70, 0xc76c51a3, 0xd192e819, 0xd6990624, 0xf40e3585, 0x106aa070,
  0x19a4c116, 0x1e376c08, 0x2748774c, 0x34b0bcb5, 0x391c0cb3, 0x4ed8aa4a, 0x5b9cca4f, 0x682e6ff3,
  0x748f82ee, 0x78a5636f, 0x84c87814, 0x8cc70208, 0x90befffa, 0xa4506ceb, 0xbef9a3f7, 0xc67178f2]

def H0 : List Nat := [
  0x6a09e667, 0xbb67ae85, 0x3c6ef372, 0xa54ff53a, 0x510e527f, 0x9b05688c, 0x1f83d9ab, 0x5be0cd19]

def M32 : Nat := 4294967296

@[inline] def rotr (x n : Nat) : Nat := ((x >>> n) ||| (x <<< (32 - n))) % M32

/-- message schedule; `rev` holds the words so far, most recent first -/
def scheduleAux : Nat → List Nat → List Nat
  | 0, rev => rev
  | n+1, rev =>
    let w15 := rev.getD 14 0
    let w2 := rev.getD 1 0
    let s0 := rotr w15 7 ^^^ rotr w15 18 ^^^ (w15 >>> 3)
    let s1 := rotr w2 17 ^^^ rotr w2 19 ^^^ (w2 >>> 10)
    scheduleAux n (((rev.getD 15 0 + s0 + rev.getD 6 0 + s1) % M32) :: rev)

/-- 16 words → 64 words -/
def schedule (w : List Nat) : List Nat := (scheduleAux 48 w.reverse).reverse

structure St where
  a : Nat
  b : Nat
  c : Nat
  d : Nat
  e : Nat
  f : Nat
  g : Nat
  h : Nat

def round (s : St) (kw : Nat × Nat) : St :=
  let s1 := rotr s.e 6 ^^^ rotr s.e 11 ^^^ rotr s.e 25
  let ch := (s.e &&& s.f) ^^^ ((M32 - 1 - s.e) &&& s.g)
  let t1 := (s.h + s1 + ch + kw.1 + kw.2) % M32
  let s0 := rotr s.a 2 ^^^ rotr s.a 13 ^^^ rotr s.a 22
  let mj := (s.a &&& s.b) ^^^ (s.a &&& s.c) ^^^ (s.b &&& s.c)
  let t2 := (s0 + mj) % M32
  { a := (t1 + t2) % M32, b := s.a, c := s.b, d := s.c, e := (s.d + t1) % M32, f := s.e, g := s.f, h := s.g }

/-- the compression function: 8-word state, 16-word block → 8-word state -/
def compress (st : List Nat) (block : List Nat) : List Nat :=
  let g (i : Nat) := st.getD i 0
  let s0 : St := ⟨g 0, g 1, g 2, g 3, g 4, g 5, g 6, g 7⟩
  let s := (K.zip (schedule block)).foldl round s0
  [(g 0 + s.a) % M32, (g 1 + s.b) % M32, (g 2 + s.c) % M32, (g 3 + s.d) % M32,
   (g 4 + s.e) % M32, (g 5 + s.f) % M32, (g 6 + s.g) % M32, (g 7 + s.h) % M32]

/-- big-endian bytes → words (length a multiple of 4) -/
def wordsOfBytes : List Nat → List Nat
  | a :: b :: c :: d :: rest => (((a * 256 + b) * 256 + c) * 256 + d) :: wordsOfBytes rest
  | _ => []

def bytesOfWords (ws : List Nat) : List Nat :=
  ws.flatMap fun n => [n / 16777216 % 256, n / 65536 % 256, n / 256 % 256, n % 256]

/-- process whole 64-byte blocks -/
def absorb (st : List Nat) (bs : List Nat) : Nat → List Nat
  | 0 => st
  | fuel + 1 =>
    if bs.length < 64 then st
    else absorb (compress st (wordsOfBytes (bs.take 64))) (bs.drop 64) fuel

/-- padding of a message of `len` bytes: 0x80, zeros, 64-bit big-endian bit length -/
def pad (len : Nat) : List Nat :=
  let k := (55 + 64 - len % 64) % 64
  let bits := len * 8
  0x80 :: List.replicate k 0 ++ (List.range 8).map fun i => bits / 256 ^ (7 - i) % 256

/-- SHA-256 of a byte string (bytes as naturals < 256) -/
def sha256 (msg : List Nat) : List Nat :=
  let m := msg ++ pad msg.length
  bytesOfWords (absorb H0 m (m.length / 64 + 1))

/-- natural (big-endian) of a 32-byte digest -/
def natOfBytes (bs : List Nat) : Nat := bs.foldl (fun acc b => acc * 256 + b) 0

def bytesOfNat (n : Nat) (len : Nat) : List Nat :=
  (List.range len).map fun i => n / 256 ^ (len - 1 - i) % 256

/-- a midstate / Merkle root as one 256-bit natural (eight big-endian 32-bit words) -/
def natOfState (st : List Nat) : Nat := st.foldl (fun acc w => acc <<< 32 ||| w) 0

/-- the eight words of a 256-bit natural -/
def stateOfNat (n : Nat) : List Nat :=
  [(n >>> 224) % M32, (n >>> 192) % M32, (n >>> 160) % M32, (n >>> 128) % M32,
   (n >>> 96) % M32, (n >>> 64) % M32, (n >>> 32) % M32, n % M32]

/-- `Midstate::zz_update_2x32`: one compression of the 64-byte block `left ‖ right` -/
def update2 (iv left right : Nat) : Nat :=
  natOfState (compress (stateOfNat iv) (stateOfNat left ++ stateOfNat right))

/-- BIP-340 tagged-hash midstate: state after the block `sha256(tag) ‖ sha256(tag)` -/
def tagIV (tag : List Nat) : Nat :=
  let h := natOfBytes (sha256 tag)
  update2 (natOfState H0) h h

def strBytes (s : String) : List Nat := s.toUTF8.toList.map (·.toNat)

end Sha2
