/-
C20 — lemmas about one context: renaming of names commutes with every operation (no operation
compares or computes with names), and no operation invents names.
-/
import SimplicityModel.ConcModel

namespace ConcModel
open BM4 (Ty)

/-! ### slabs under renaming -/

@[simp] theorem dflt_ren (ρ : Nat → Nat) : dflt.ren ρ = dflt := rfl

theorem getD_ren (ρ : Nat → Nat) (s : Slab) (i : Nat) :
    getB (s.map (Bound.ren ρ)) i = (getB s i).ren ρ := by
  simp only [getB, List.getElem?_map]
  cases s[i]? <;> simp

theorem set_ren (ρ : Nat → Nat) (s : Slab) (i : Nat) (b : Bound) :
    (s.map (Bound.ren ρ)).set i (b.ren ρ) = (s.set i b).map (Bound.ren ρ) := by
  simp [List.map_set]

theorem showB_ren (ρ : Nat → Nat) (s : Slab) : ∀ f i,
    showB (s.map (Bound.ren ρ)) f i = (showB s f i).ren ρ := by
  intro f
  induction f with
  | zero => intro i; rfl
  | succ f ih =>
    intro i
    simp only [showB, getD_ren]
    cases getB s i <;> simp [Shown.ren, ih]

theorem bindTy_ren (ρ : Nat → Nat) : ∀ (t : Ty) (s : Slab) (i : Nat),
    bindTy t (s.map (Bound.ren ρ)) i = (((bindTy t s i).1).map (Bound.ren ρ), (bindTy t s i).2) := by
  intro t
  induction t with
  | one =>
    intro s i
    unfold bindTy
    rw [getD_ren]
    cases h : getB s i <;> simp [← set_ren]
    split <;> simp
  | sum a b iha ihb =>
    intro s i
    unfold bindTy
    rw [getD_ren]
    cases h : getB s i with
    | free n => simp [← set_ren]
    | complete t' => simp; split <;> simp
    | sum l r =>
      simp only [Bound.ren_sum, Bound.ren_prod]
      rw [iha s l]
      cases h1 : (bindTy a s l).2 with
      | none =>
        have : bindTy a s l = ((bindTy a s l).1, none) := by rw [← h1]
        rw [this]; simp only []
        exact ihb _ r
      | some e =>
        have : bindTy a s l = ((bindTy a s l).1, some e) := by rw [← h1]
        rw [this]
    | prod l r => simp
  | prod a b iha ihb =>
    intro s i
    unfold bindTy
    rw [getD_ren]
    cases h : getB s i with
    | free n => simp [← set_ren]
    | complete t' => simp; split <;> simp
    | prod l r =>
      simp only [Bound.ren_sum, Bound.ren_prod]
      rw [iha s l]
      cases h1 : (bindTy a s l).2 with
      | none =>
        have : bindTy a s l = ((bindTy a s l).1, none) := by rw [← h1]
        rw [this]; simp only []
        exact ihb _ r
      | some e =>
        have : bindTy a s l = ((bindTy a s l).1, some e) := by rw [← h1]
        rw [this]
    | sum l r => simp

theorem finB_ren (ρ : Nat → Nat) : ∀ (f : Nat) (s : Slab) (i : Nat),
    finB f (s.map (Bound.ren ρ)) i = (((finB f s i).1).map (Bound.ren ρ), (finB f s i).2) := by
  intro f
  induction f with
  | zero => intro s i; rfl
  | succ f ih =>
    intro s i
    simp only [finB, getD_ren]
    cases h : getB s i with
    | free n => simp [← set_ren]
    | complete t => simp
    | sum l r => simp only [Bound.ren_sum, Bound.ren_prod, ih]; simp [← set_ren]
    | prod l r => simp only [Bound.ren_sum, Bound.ren_prod, ih]; simp [← set_ren]

theorem mk2_ren (ρ : Nat → Nat) (s : Slab) (a b : Nat) (c : Ty → Ty → Ty) (k : Nat → Nat → Bound)
    (hk : ∀ x y, (k x y).ren ρ = k x y) :
    mk2 (s.map (Bound.ren ρ)) a b c k = (((mk2 s a b c k).1).map (Bound.ren ρ), (mk2 s a b c k).2) := by
  unfold mk2
  simp only [List.length_map, getD_ren]
  split
  · cases getB s a <;> cases getB s b <;> simp [hk]
  · rfl

/-! ### names never appear from nowhere -/

theorem mem_of_getD_free {s : Slab} {i a : Nat} (h : getB s i = .free a) : Bound.free a ∈ s := by
  unfold getB at h
  cases hi : s[i]? with
  | none => simp [hi, dflt] at h
  | some b =>
    simp [hi] at h
    subst h
    exact List.mem_of_getElem? hi

theorem Below.mono {s : Slab} {n m : Nat} (h : Below s n) (hnm : n ≤ m) : Below s m :=
  fun a ha => Nat.lt_of_lt_of_le (h a ha) hnm

theorem Below.set {s : Slab} {n i : Nat} {b : Bound} (h : Below s n) (hb : ∀ a, b = .free a → a < n) :
    Below (s.set i b) n := by
  intro a ha
  rcases List.mem_or_eq_of_mem_set ha with h1 | h1
  · exact h a h1
  · exact hb a h1.symm

theorem Below.append {s : Slab} {n : Nat} {b : Bound} (h : Below s n) (hb : ∀ a, b = .free a → a < n) :
    Below (s ++ [b]) n := by
  intro a ha
  rcases List.mem_append.1 ha with h1 | h1
  · exact h a h1
  · have h2 : Bound.free a = b := by simpa using h1
    exact hb a h2.symm

theorem showB_names {s : Slab} {n : Nat} (h : Below s n) : ∀ f i a, a ∈ (showB s f i).names → a < n := by
  intro f
  induction f with
  | zero => intro i a ha; simp [showB, Shown.names] at ha
  | succ f ih =>
    intro i a ha
    simp only [showB] at ha
    cases hg : getB s i with
    | free m =>
      simp [hg, Shown.names] at ha
      subst ha
      exact h _ (mem_of_getD_free hg)
    | complete t => simp [hg, Shown.names] at ha
    | sum l r =>
      simp only [hg, Shown.names, List.mem_append] at ha
      rcases ha with ha | ha
      · exact ih l a ha
      · exact ih r a ha
    | prod l r =>
      simp only [hg, Shown.names, List.mem_append] at ha
      rcases ha with ha | ha
      · exact ih l a ha
      · exact ih r a ha

theorem bindTy_below {n : Nat} : ∀ (t : Ty) (s : Slab) (i : Nat), Below s n → Below (bindTy t s i).1 n := by
  intro t
  induction t with
  | one =>
    intro s i h
    unfold bindTy
    cases getB s i <;> simp
    · exact h.set (by intro a ha; cases ha)
    · split <;> exact h
    · exact h
    · exact h
  | sum a b iha ihb =>
    intro s i h
    unfold bindTy
    cases getB s i with
    | free m => exact h.set (by intro a ha; cases ha)
    | complete t' => simp only []; split <;> exact h
    | sum l r =>
      simp only []
      have h1 := iha s l h
      cases h2 : (bindTy a s l).2 with
      | none =>
        have : bindTy a s l = ((bindTy a s l).1, none) := by rw [← h2]
        rw [this]; exact ihb _ r h1
      | some e =>
        have : bindTy a s l = ((bindTy a s l).1, some e) := by rw [← h2]
        rw [this]; exact h1
    | prod l r => exact h
  | prod a b iha ihb =>
    intro s i h
    unfold bindTy
    cases getB s i with
    | free m => exact h.set (by intro a ha; cases ha)
    | complete t' => simp only []; split <;> exact h
    | prod l r =>
      simp only []
      have h1 := iha s l h
      cases h2 : (bindTy a s l).2 with
      | none =>
        have : bindTy a s l = ((bindTy a s l).1, none) := by rw [← h2]
        rw [this]; exact ihb _ r h1
      | some e =>
        have : bindTy a s l = ((bindTy a s l).1, some e) := by rw [← h2]
        rw [this]; exact h1
    | sum l r => exact h

theorem finB_below {n : Nat} : ∀ (f : Nat) (s : Slab) (i : Nat), Below s n → Below (finB f s i).1 n := by
  intro f
  induction f with
  | zero => intro s i h; exact h
  | succ f ih =>
    intro s i h
    simp only [finB]
    cases getB s i with
    | free m => exact h.set (by intro a ha; cases ha)
    | complete t => exact h
    | sum l r => exact (ih _ r (ih s l h)).set (by intro a ha; cases ha)
    | prod l r => exact (ih _ r (ih s l h)).set (by intro a ha; cases ha)

theorem mk2_below {n : Nat} (s : Slab) (a b : Nat) (c : Ty → Ty → Ty) (k : Nat → Nat → Bound)
    (hk : ∀ x y m, k x y ≠ .free m) (h : Below s n) : Below (mk2 s a b c k).1 n := by
  unfold mk2
  split
  · cases getB s a <;> cases getB s b <;> simp only [] <;>
      first
      | exact h.append (by intro m hm; cases hm)
      | exact h.append (by intro m hm; exact absurd hm (hk _ _ _))
  · exact h

/-! ### renamings that agree on the names present -/

theorem Shown.ren_congr {ρ ρ' : Nat → Nat} : ∀ (x : Shown), (∀ a, a ∈ x.names → ρ a = ρ' a) → x.ren ρ = x.ren ρ'
  | .var n, h => by simp [Shown.ren, h n (by simp [Shown.names])]
  | .fin _, _ => rfl
  | .cut, _ => rfl
  | .sum a b, h => by
    simp only [Shown.ren]
    rw [Shown.ren_congr a (fun x hx => h x (by simp [Shown.names, hx])),
      Shown.ren_congr b (fun x hx => h x (by simp [Shown.names, hx]))]
  | .prod a b, h => by
    simp only [Shown.ren]
    rw [Shown.ren_congr a (fun x hx => h x (by simp [Shown.names, hx])),
      Shown.ren_congr b (fun x hx => h x (by simp [Shown.names, hx]))]

theorem Res.ren_congr {ρ ρ' : Nat → Nat} (r : Res) (h : ∀ a, a ∈ r.names → ρ a = ρ' a) : r.ren ρ = r.ren ρ' := by
  cases r <;> simp only [Res.ren, Res.names] at * <;> try rfl
  · rw [Shown.ren_congr _ h]
  · rw [Shown.ren_congr _ h]

/-- a result without names is not changed by any renaming -/
theorem Res.ren_of_names_nil (ρ : Nat → Nat) (r : Res) (h : r.names = []) : r.ren ρ = r := by
  have : r.ren ρ = r.ren id := Res.ren_congr r (by simp [h])
  rw [this]
  have hs : ∀ x : Shown, x.ren id = x := by
    intro x; induction x <;> simp_all [Shown.ren]
  cases r <;> simp [Res.ren, hs]

theorem slab_ren_congr {ρ ρ' : Nat → Nat} {s : Slab} {n : Nat} (h : Below s n) (hρ : ∀ a, a < n → ρ a = ρ' a) :
    s.map (Bound.ren ρ) = s.map (Bound.ren ρ') := by
  apply List.map_congr_left
  intro b hb
  cases b with
  | free a => simp [hρ a (h a hb)]
  | _ => rfl

/-! ### the three facts about `act` the global theorems use -/

/-- **names are only stored and displayed.**  Running an operation on a renamed slab with counter
value `n` gives the renamed outcome of running it on the original with counter value `n'`, for any
renaming that sends `n'` to `n` (no injectivity needed: nothing compares names). -/
theorem act_ren (E : Env) (ρ : Nat → Nat) (op : Op) (n n' : Nat) (s : Slab) (tb : Tbl) (hn : ρ n' = n) :
    act E op n (s.map (Bound.ren ρ)) tb =
      ⟨(act E op n' s tb).slab.map (Bound.ren ρ), (act E op n' s tb).tbl, (act E op n' s tb).res.ren ρ⟩ := by
  cases op with
  | fresh => simp [act, hn, Res.ren]
  | mkSum a b =>
    simp only [act]
    rw [mk2_ren ρ s a b .sum .sum (by intros; rfl)]
    cases hm : (mk2 s a b .sum .sum).2 <;> simp [Res.ren]
    all_goals (exfalso; revert hm; unfold mk2; split <;> (try split) <;> simp)
  | mkProd a b =>
    simp only [act]
    rw [mk2_ren ρ s a b .prod .prod (by intros; rfl)]
    cases hm : (mk2 s a b .prod .prod).2 <;> simp [Res.ren]
    all_goals (exfalso; revert hm; unfold mk2; split <;> (try split) <;> simp)
  | bindC h t =>
    simp only [act, List.length_map, bindTy_ren]
    split
    · cases (bindTy t s h).2 with
      | none => simp [Res.ren]
      | some e => simp [Res.ren, showB_ren]
    · simp [Res.ren]
  | display h =>
    simp only [act, List.length_map]
    split <;> simp [Res.ren, showB_ren]
  | finalize h =>
    simp only [act, List.length_map, finB_ren]
    split <;> simp [Res.ren]
  | memo k => simp [act, Res.ren]
  | readShared k => simp [act, Res.ren]
  | whole k d => simp [act, Res.ren]

/-- **no operation invents a name**: the names in the slab afterwards were there before or are the
one just drawn -/
theorem act_below (E : Env) (op : Op) (n : Nat) (s : Slab) (tb : Tbl) (h : Below s n) :
    Below (act E op n s tb).slab (n + op.names) := by
  cases op with
  | fresh =>
    simp only [act, Op.names]
    exact (h.mono (Nat.le_succ n)).append (by intro a ha; cases ha; exact Nat.lt_succ_self _)
  | mkSum a b => exact mk2_below s a b _ _ (by intros; simp) (h.mono (Nat.le_add_right _ _))
  | mkProd a b => exact mk2_below s a b _ _ (by intros; simp) (h.mono (Nat.le_add_right _ _))
  | bindC hh t =>
    simp only [act, Op.names, Nat.add_zero]
    split
    · cases (bindTy t s hh).2 <;> exact bindTy_below t s hh h
    · exact h
  | display hh => simp only [act, Op.names, Nat.add_zero]; split <;> exact h
  | finalize hh =>
    simp only [act, Op.names, Nat.add_zero]
    split
    · exact finB_below _ s hh h
    · exact h
  | memo k => exact h.mono (Nat.le_add_right _ _)
  | readShared k => exact h.mono (Nat.le_add_right _ _)
  | whole k d => exact h.mono (Nat.le_add_right _ _)

/-- the names in a result were in the slab -/
theorem act_res_names (E : Env) (op : Op) (n : Nat) (s : Slab) (tb : Tbl) (h : Below s n) :
    ∀ a, a ∈ (act E op n s tb).res.names → a < n := by
  intro a ha
  cases op with
  | fresh => simp [act, Res.names] at ha
  | mkSum x y =>
    simp only [act, mk2] at ha
    split at ha
    · revert ha; cases getB s x <;> cases getB s y <;> simp [Res.names]
    · simp [Res.names] at ha
  | mkProd x y =>
    simp only [act, mk2] at ha
    split at ha
    · revert ha; cases getB s x <;> cases getB s y <;> simp [Res.names]
    · simp [Res.names] at ha
  | bindC hh t =>
    simp only [act] at ha
    split at ha
    · cases he : (bindTy t s hh).2 with
      | none => simp [he, Res.names] at ha
      | some e =>
        simp only [he, Res.names] at ha
        exact showB_names (bindTy_below t s hh h) _ _ a ha
    · simp [Res.names] at ha
  | display hh =>
    simp only [act] at ha
    split at ha
    · exact showB_names h _ _ a ha
    · simp [Res.names] at ha
  | finalize hh => simp only [act] at ha; split at ha <;> simp [Res.names] at ha
  | memo k => simp [act, Res.names] at ha
  | readShared k => simp [act, Res.names] at ha
  | whole k d => simp [act, Res.names] at ha

end ConcModel
