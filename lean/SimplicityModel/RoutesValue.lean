/-
C12, value layer on the types/values the program model uses (`BM4.Ty`, `BM4.Val`, the ones
`Prog.infer` returns and `run_spec` is proved about): `Value::prune` (value-directed, as the code),
`Value::zero`, the prune order, the compact decoder's typing and canonicity.  The statements are
those of `Value.lean` (`Vl.prune_hasTy`, `Vl.prune_of_le`, `Vl.prune_prune`, `Vl.decCompact_canonical`)
re-proved for `BM4`'s copy of the inductive types, because the driver runs `Prog.infer`/
`Prog.decCompact`, which live on `BM4.Ty`.
-/
import SimplicityModel.Prog.Basic

namespace Routes
open BM4

/-- `Value::prune(&self, pruned_ty)`: unit target always succeeds; sum target: recurse on the side
the value is on (the other side of the target is unconstrained); product: both components;
anything else (value shape ≠ target shape) is `None`. -/
def prune : Val → Ty → Option Val
  | _, .one => some .unit
  | .inl v, .sum a _ => (prune v a).map .inl
  | .inr v, .sum _ b => (prune v b).map .inr
  | .pair x y, .prod a b =>
    match prune x a, prune y b with
    | some x', some y' => some (.pair x' y')
    | _, _ => none
  | _, _ => none

/-- `Value::zero(ty)`: all bits zero, i.e. always the left injection -/
def zero : Ty → Val
  | .one => .unit
  | .sum a _ => .inl (zero a)
  | .prod a b => .pair (zero a) (zero b)

/-- the prune order: `1 ≤ T`, sums and products component-wise -/
inductive Le : Ty → Ty → Prop
  | one (t) : Le .one t
  | sum {a a' b b'} : Le a a' → Le b b' → Le (.sum a b) (.sum a' b')
  | prod {a a' b b'} : Le a a' → Le b b' → Le (.prod a b) (.prod a' b')

theorem Le.refl : ∀ t, Le t t
  | .one => .one _
  | .sum a b => .sum (Le.refl a) (Le.refl b)
  | .prod a b => .prod (Le.refl a) (Le.refl b)

theorem zero_hasTy : ∀ t : Ty, HasTy (zero t) t
  | .one => .unit
  | .sum a _ => .inl (zero_hasTy a)
  | .prod a b => .pair (zero_hasTy a) (zero_hasTy b)

/-- the result of a successful prune is a value of exactly the target type -/
theorem prune_hasTy : ∀ (v : Val) (t : Ty) (w : Val), prune v t = some w → HasTy w t := by
  intro v
  induction v with
  | unit =>
    intro t w h
    cases t <;> simp [prune] at h
    subst h; exact .unit
  | inl v ih =>
    intro t w h
    cases t with
    | one => simp [prune] at h; subst h; exact .unit
    | sum a b =>
      simp only [prune, Option.map_eq_some_iff] at h
      obtain ⟨w', hw', rfl⟩ := h
      exact .inl (ih a w' hw')
    | prod a b => simp [prune] at h
  | inr v ih =>
    intro t w h
    cases t with
    | one => simp [prune] at h; subst h; exact .unit
    | sum a b =>
      simp only [prune, Option.map_eq_some_iff] at h
      obtain ⟨w', hw', rfl⟩ := h
      exact .inr (ih b w' hw')
    | prod a b => simp [prune] at h
  | pair x y ihx ihy =>
    intro t w h
    cases t with
    | one => simp [prune] at h; subst h; exact .unit
    | sum a b => simp [prune] at h
    | prod a b =>
      simp only [prune] at h
      cases hx : prune x a with
      | none => simp [hx] at h
      | some x' =>
        cases hy : prune y b with
        | none => simp [hx, hy] at h
        | some y' =>
          simp [hx, hy] at h; subst h
          exact .pair (ihx a x' hx) (ihy b y' hy)

/-- pruning to a type below the value's own type always succeeds -/
theorem prune_of_le {v t} (hv : HasTy v t) : ∀ {t'}, Le t' t → ∃ w, prune v t' = some w := by
  induction hv with
  | unit => intro t' h; cases h; exact ⟨.unit, rfl⟩
  | inl _ ih =>
    intro t' h
    cases h with
    | one => exact ⟨.unit, rfl⟩
    | sum ha _ => obtain ⟨w, hw⟩ := ih ha; exact ⟨.inl w, by simp [prune, hw]⟩
  | inr _ ih =>
    intro t' h
    cases h with
    | one => exact ⟨.unit, rfl⟩
    | sum _ hb => obtain ⟨w, hw⟩ := ih hb; exact ⟨.inr w, by simp [prune, hw]⟩
  | pair _ _ ih1 ih2 =>
    intro t' h
    cases h with
    | one => exact ⟨.unit, rfl⟩
    | prod ha hb =>
      obtain ⟨x', hx⟩ := ih1 ha
      obtain ⟨y', hy⟩ := ih2 hb
      exact ⟨.pair x' y', by simp [prune, hx, hy]⟩

/-- pruning in two steps equals pruning in one -/
theorem prune_prune : ∀ (v : Val) (t1 t2 : Ty) (w : Val), prune v t1 = some w → Le t2 t1 →
    prune w t2 = prune v t2 := by
  intro v
  induction v with
  | unit =>
    intro t1 t2 w h hle
    cases t1 <;> simp [prune] at h
    subst h; cases hle; rfl
  | inl v ih =>
    intro t1 t2 w h hle
    cases hle with
    | one => cases w <;> rfl
    | sum ha hb =>
      simp only [prune, Option.map_eq_some_iff] at h
      obtain ⟨w', hw', rfl⟩ := h
      simp only [prune]; rw [ih _ _ _ hw' ha]
    | prod ha hb => simp [prune] at h
  | inr v ih =>
    intro t1 t2 w h hle
    cases hle with
    | one => cases w <;> rfl
    | sum ha hb =>
      simp only [prune, Option.map_eq_some_iff] at h
      obtain ⟨w', hw', rfl⟩ := h
      simp only [prune]; rw [ih _ _ _ hw' hb]
    | prod ha hb => simp [prune] at h
  | pair x y ihx ihy =>
    intro t1 t2 w h hle
    cases hle with
    | one => cases w <;> rfl
    | sum ha hb => simp [prune] at h
    | @prod a a' b b' ha hb =>
      simp only [prune] at h
      cases hx : prune x a' with
      | none => simp [hx] at h
      | some x' =>
        cases hy : prune y b' with
        | none => simp [hx, hy] at h
        | some y' =>
          simp [hx, hy] at h; subst h
          simp only [prune]
          rw [ihx _ _ _ hx ha, ihy _ _ _ hy hb]

/-- pruning to its own type is the identity (the code's shortcut `value.ty == pruned_ty`) -/
theorem prune_self {v t} (h : HasTy v t) : prune v t = some v := by
  induction h with
  | unit => rfl
  | inl _ ih => simp [prune, ih]
  | inr _ ih => simp [prune, ih]
  | pair _ _ ih1 ih2 => simp [prune, ih1, ih2]

/-- a zero value pruned to a smaller type is the zero value of that type -/
theorem prune_zero : ∀ {t' t : Ty}, Le t' t → prune (zero t) t' = some (zero t') := by
  intro t' t h
  induction h with
  | one t => cases t <;> rfl
  | sum _ _ iha _ => simp [zero, prune, iha]
  | prod _ _ iha ihb => simp [zero, prune, iha, ihb]

/-- the padded encoding (what the Bit Machine writes for a witness node) of a value of type `t`
is exactly `t.bw` bits long -/
theorem padded_length {v t} (h : HasTy v t) : (padded t v).length = t.bw :=
  (enc_padded h).length

/-! ### the compact decoder (`Value::from_compact_bits`) -/

open Prog in
/-- whatever the compact decoder accepts is the compact encoding of the well-typed value it
returns, followed by exactly the rest -/
theorem decCompact_canonical : ∀ (t : Ty) (bs : List Bool) (v : Val) (r : List Bool),
    decCompact t bs = some (v, r) → bs = compact v ++ r ∧ HasTy v t
  | .one, bs, v, r, h => by simp [decCompact] at h; obtain ⟨rfl, rfl⟩ := h; exact ⟨rfl, .unit⟩
  | .sum a b, [], v, r, h => by simp [decCompact] at h
  | .sum a b, false :: bs, v, r, h => by
    simp only [decCompact, Option.map_eq_some_iff] at h
    obtain ⟨⟨v', r'⟩, h1, h2⟩ := h
    cases h2
    obtain ⟨e, ht⟩ := decCompact_canonical a bs v' r' h1
    exact ⟨by simp [compact, e], .inl ht⟩
  | .sum a b, true :: bs, v, r, h => by
    simp only [decCompact, Option.map_eq_some_iff] at h
    obtain ⟨⟨v', r'⟩, h1, h2⟩ := h
    cases h2
    obtain ⟨e, ht⟩ := decCompact_canonical b bs v' r' h1
    exact ⟨by simp [compact, e], .inr ht⟩
  | .prod a b, bs, v, r, h => by
    simp only [decCompact, Option.bind_eq_bind, Option.bind_eq_some_iff, Option.pure_def] at h
    obtain ⟨⟨x, r1⟩, h1, ⟨y, r2⟩, h2, h3⟩ := h
    simp only [Option.some.injEq, Prod.mk.injEq] at h3
    obtain ⟨rfl, rfl⟩ := h3
    obtain ⟨e1, t1⟩ := decCompact_canonical a bs x r1 h1
    obtain ⟨e2, t2⟩ := decCompact_canonical b r1 y r2 h2
    exact ⟨by simp [compact, e1, e2], .pair t1 t2⟩

open Prog in
/-- the compact encoding of a well-typed value decodes to it and leaves exactly the rest -/
theorem decCompact_compact {t v} (h : HasTy v t) (rest : List Bool) :
    decCompact t (compact v ++ rest) = some (v, rest) := by
  induction h generalizing rest with
  | unit => simp [decCompact, compact]
  | inl _ ih => simp [decCompact, compact, ih]
  | inr _ ih => simp [decCompact, compact, ih]
  | pair _ _ ih1 ih2 =>
    simp only [decCompact, compact, List.append_assoc]
    rw [ih1]; simp only [Option.bind_eq_bind, Option.bind_some]; rw [ih2]; rfl

end Routes
