import SimplicityModel.Sha2
import SimplicityModel.Gen.Ivs
/-! The `Cmr::*_IV` constants of the source (regenerated into `Gen/Ivs.lean` on every run) are the
BIP-340 tagged-hash midstates of the tag strings the source documents for them: checked by
evaluating SHA-256 in the kernel over the whole table. -/
namespace Ivs
open Sha2
theorem cmr_ivs_are_tagged_midstates :
    Gen.Ivs.cmr.all (fun r => tagIV (strBytes r.2.1) == r.2.2) = true := by decide +kernel
end Ivs
