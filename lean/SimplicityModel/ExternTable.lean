/-
C14 — foreign bindings: row format of `Gen/Externs.lean` (written by tools/translate_externs.py) and
the compatibility relations the table theorems of `Props/C14.lean` check.  Core Lean only.

A parameter (or return) type in normal form: pointer depth, byte key (`JetTable.keyOfBytes`) of the
base name in the C vocabulary after resolving typedefs/aliases on both sides, and the ABI class of
the value on the reference target of the check (x86-64 Linux, LP64, glibc):
0 void, 1 bool, 2 u8, 3 u16, 4 i32, 5 u32, 6 u64, 7 i64, 8 pointer, otherwise the key of
`struct <name>` (passed by value).
-/
import SimplicityModel.JetTable

structure XTy where
  ptr : Nat
  base : Nat
  abi : Nat
deriving DecidableEq, Repr, Inhabited

/-- one `extern "C"` function declaration of the Rust side with the C prototype of the symbol it links to -/
structure ExternRow where
  /-- key of the linked symbol (`#[link_name]`, else the Rust name) -/
  sym : Nat
  params : List XTy
  ret : XTy
  /-- a C prototype or definition of `sym` exists under simplicity-sys/depend -/
  cFound : Bool
  cParams : List XTy
  cRet : XTy
deriving Repr, Inhabited

structure StaticRow where
  sym : Nat
  ty : XTy
  cFound : Bool
  cTy : XTy
deriving Repr, Inhabited

namespace ExternTable
open JetTable

/-- key of the base name `void` (bytes 76 6f 69 64 behind the leading 1) -/
def voidKey : Nat := 0x1766f6964

/-- same type by name: equal pointer depth and equal base name; a pointer to `void` on either side
stands for a pointer to any object type (`*const c_void` for `const txEnv*`) -/
def nameCompat (a b : XTy) : Bool :=
  a.ptr == b.ptr && (a.base == b.base || (decide (1 ≤ a.ptr) && (a.base == voidKey || b.base == voidKey)))

/-- same value class on the reference target -/
def abiCompat (a b : XTy) : Bool := a.abi == b.abi

def arityOk (r : ExternRow) : Bool := r.cFound && r.params.length == r.cParams.length

def abiOk (r : ExternRow) : Bool := all2 abiCompat r.params r.cParams

/-- positions (0-based) of the parameters that are not the same type by name -/
def nameDiffs (r : ExternRow) : List Nat :=
  (List.range r.params.length).filter (fun i =>
    !(nameCompat (r.params.getD i default) (r.cParams.getD i default)))

def retNameOk (r : ExternRow) : Bool := nameCompat r.ret r.cRet
def retAbiOk (r : ExternRow) : Bool := abiCompat r.ret r.cRet

end ExternTable
