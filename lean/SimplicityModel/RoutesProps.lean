/-
C12 — proofs about the routes of `Routes.lean`.
-/
import SimplicityModel.Routes

namespace Routes
open BM4 Prog
open Inf (Eqn)

/-! ### finalize_unpruned -/

theorem convertOne_spec {ar : Arrows} {cand : Nat → Option Val} {i : Nat} {x : Nat × Val}
    (h : convertOne ar cand i = some x) : x.1 = i ∧ HasTy x.2 (tgtOf ar i) := by
  unfold convertOne at h
  cases hc : cand i with
  | none =>
    rw [hc] at h
    simp only [Option.some.injEq] at h
    subst h
    exact ⟨rfl, zero_hasTy _⟩
  | some v =>
    rw [hc] at h
    simp only [Option.map_eq_some_iff] at h
    obtain ⟨w, hw, rfl⟩ := h
    exact ⟨rfl, prune_hasTy _ _ _ hw⟩

theorem convertAll_spec {ar : Arrows} {cand : Nat → Option Val} :
    ∀ {idx : List Nat} {r : Witnesses}, convertAll ar cand idx = some r →
      Covers idx r ∧ WitnessTyped ar r
  | [], r, h => by
    simp only [convertAll, Option.some.injEq] at h
    subst h
    exact ⟨rfl, fun _ hm => by cases hm⟩
  | i :: is, r, h => by
    simp only [convertAll] at h
    cases h1 : convertOne ar cand i with
    | none => simp [h1] at h
    | some x =>
      cases h2 : convertAll ar cand is with
      | none => simp [h1, h2] at h
      | some xs =>
        simp only [h1, h2, Option.some.injEq] at h
        subst h
        obtain ⟨hc, ht⟩ := convertAll_spec h2
        obtain ⟨hi, hx⟩ := convertOne_spec h1
        refine ⟨by simp [Covers, hi] at hc ⊢; exact hc, ?_⟩
        intro iv hm
        rcases List.mem_cons.1 hm with rfl | hm
        · rw [hi]; exact hx
        · exact ht iv hm

/-- what `finalize_unpruned` attaches to a witness node, in terms of the candidate -/
theorem convertAll_values {ar : Arrows} {cand : Nat → Option Val} :
    ∀ {idx : List Nat} {r : Witnesses}, convertAll ar cand idx = some r →
      ∀ iv ∈ r, convertOne ar cand iv.1 = some iv
  | [], r, h => by
    simp only [convertAll, Option.some.injEq] at h
    subst h
    intro _ hm; cases hm
  | i :: is, r, h => by
    simp only [convertAll] at h
    cases h1 : convertOne ar cand i with
    | none => simp [h1] at h
    | some x =>
      cases h2 : convertAll ar cand is with
      | none => simp [h1, h2] at h
      | some xs =>
        simp only [h1, h2, Option.some.injEq] at h
        subst h
        intro iv hm
        rcases List.mem_cons.1 hm with rfl | hm
        · rw [(convertOne_spec h1).1]; exact h1
        · exact convertAll_values h2 iv hm

theorem routeU_ok {jt : JetTypes} {p : Plan} {program : Bool} {cand : Nat → Option Val}
    {ar : Arrows} {r : Witnesses} (h : routeU jt p program cand = .ok ar r) :
    infer jt p program = .ok ar ∧ finalizeUnpruned p ar cand = some r := by
  unfold routeU at h
  cases hi : infer jt p program with
  | ok ar0 =>
    rw [hi] at h
    simp only at h
    cases hf : finalizeUnpruned p ar0 cand with
    | none => rw [hf] at h; cases h
    | some r0 =>
      rw [hf] at h
      simp only [Outcome.ok.injEq] at h
      obtain ⟨rfl, rfl⟩ := h
      exact ⟨rfl, hf⟩
  | typeError => rw [hi] at h; cases h
  | occurs => rw [hi] at h; cases h
  | badPlan => rw [hi] at h; cases h
  | fuel => rw [hi] at h; cases h

theorem routeU_ne_panic (jt : JetTypes) (p : Plan) (program : Bool) (cand : Nat → Option Val) :
    routeU jt p program cand ≠ .panic := by
  unfold routeU
  cases infer jt p program with
  | ok ar0 =>
    simp only
    cases finalizeUnpruned p ar0 cand <;> simp
  | _ => simp

/-! ### decoding -/

theorem readAll_spec {ar : Arrows} :
    ∀ {idx : List Nat} {bs : List Bool} {r : Witnesses} {rest : List Bool},
      readAll ar idx bs = some (r, rest) →
      Covers idx r ∧ WitnessTyped ar r ∧ bs = encW r ++ rest
  | [], bs, r, rest, h => by
    simp only [readAll, Option.some.injEq, Prod.mk.injEq] at h
    obtain ⟨rfl, rfl⟩ := h
    exact ⟨rfl, (fun _ hm => by cases hm), rfl⟩
  | i :: is, bs, r, rest, h => by
    simp only [readAll] at h
    cases h1 : decCompact (tgtOf ar i) bs with
    | none => simp [h1] at h
    | some q =>
      obtain ⟨v, r1⟩ := q
      simp only [h1, Option.map_eq_some_iff] at h
      obtain ⟨⟨vs, r2⟩, h2, h3⟩ := h
      simp only [Prod.mk.injEq] at h3
      obtain ⟨rfl, rfl⟩ := h3
      obtain ⟨e1, t1⟩ := decCompact_canonical _ _ _ _ h1
      obtain ⟨hc, ht, e2⟩ := readAll_spec h2
      refine ⟨by simp [Covers] at hc ⊢; exact hc, ?_, by simp [encW, e1, e2]⟩
      intro iv hm
      rcases List.mem_cons.1 hm with rfl | hm
      · exact t1
      · exact ht iv hm

theorem readAll_encW {ar : Arrows} :
    ∀ {idx : List Nat} {r : Witnesses} (rest : List Bool), Covers idx r → WitnessTyped ar r →
      readAll ar idx (encW r ++ rest) = some (r, rest)
  | [], [], rest, _, _ => rfl
  | [], _ :: _, _, hc, _ => by simp [Covers] at hc
  | _ :: _, [], _, hc, _ => by simp [Covers] at hc
  | i :: is, iv :: r, rest, hc, ht => by
    simp only [Covers, List.map_cons, List.cons.injEq] at hc
    obtain ⟨hi, hc⟩ := hc
    have hv : HasTy iv.2 (tgtOf ar i) := by rw [← hi]; exact ht iv (List.mem_cons_self ..)
    simp only [encW, readAll, List.append_assoc]
    rw [decCompact_compact hv]
    simp only
    rw [readAll_encW rest hc (fun x hx => ht x (List.mem_cons_of_mem _ hx))]
    simp only [Option.map_some, ← hi]

theorem closeOk_padding (k : Nat) (hk : k < 8) : closeOk (List.replicate k false) = true := by
  simp [closeOk, hk]

theorem decodeRoute_ok {jt : JetTypes} {p : Plan} {bits : List Bool} {ar : Arrows} {r : Witnesses}
    (h : decodeRoute jt p bits = .ok ar r) :
    infer jt p true = .ok ar ∧ ∃ rest, readAll ar (witnessIdx p) bits = some (r, rest) ∧ closeOk rest = true := by
  unfold decodeRoute at h
  cases hi : infer jt p true with
  | ok ar0 =>
    rw [hi] at h
    simp only at h
    cases hf : readAll ar0 (witnessIdx p) bits with
    | none => rw [hf] at h; cases h
    | some q =>
      obtain ⟨r0, rest⟩ := q
      rw [hf] at h
      simp only at h
      cases hcl : closeOk rest with
      | false => rw [hcl] at h; simp at h
      | true =>
        rw [hcl] at h
        simp only [if_true, Outcome.ok.injEq] at h
        obtain ⟨rfl, rfl⟩ := h
        exact ⟨rfl, rest, hf, hcl⟩
  | typeError => rw [hi] at h; cases h
  | occurs => rw [hi] at h; cases h
  | badPlan => rw [hi] at h; cases h
  | fuel => rw [hi] at h; cases h

/-! ### pruning: fewer constraints -/

theorem cutNodeEqns_sub {jt : JetTypes} {leak : Bool} {c : Cut} {i : Nat} {nd : Node} {f : Nat}
    {es : List Eqn} {f' : Nat} (h : nodeEqns jt i nd f = some (es, f')) :
    ∃ es', cutNodeEqns jt leak c i nd f = some (es', f') ∧ ∀ e ∈ es', e ∈ es := by
  unfold cutNodeEqns
  rw [h]
  simp only
  cases hk : (c.keep i || leak) with
  | false => exact ⟨[], by simp, fun _ hm => by cases hm⟩
  | true =>
    simp only [if_true]
    cases nd with
    | case a b =>
      simp only [nodeEqns, Option.some.injEq, Prod.mk.injEq] at h
      obtain ⟨rfl, rfl⟩ := h
      cases hs : c.side i with
      | none => exact ⟨_, rfl, fun _ hm => hm⟩
      | some s =>
        cases s with
        | false => exact ⟨_, rfl, fun e hm => by simp at hm ⊢; rcases hm with rfl | rfl | rfl <;> simp⟩
        | true => exact ⟨_, rfl, fun e hm => by simp at hm ⊢; rcases hm with rfl | rfl | rfl <;> simp⟩
    | _ => exact ⟨_, rfl, fun _ hm => hm⟩

theorem cutGo_sub {jt : JetTypes} {leak : Bool} {c : Cut} :
    ∀ (nodes : List Node) (i f : Nat) (acc acc' : List Eqn) (E : List Eqn),
      constraints.go jt i nodes f acc = some E → (∀ e ∈ acc', e ∈ acc) →
      ∃ E', cutGo jt leak c i nodes f acc' = some E' ∧ ∀ e ∈ E', e ∈ E
  | [], i, f, acc, acc', E, h, hs => by
    simp only [constraints.go, Option.some.injEq] at h
    subst h
    exact ⟨acc', rfl, hs⟩
  | nd :: rest, i, f, acc, acc', E, h, hs => by
    simp only [constraints.go, Option.bind_eq_bind, Option.bind_eq_some_iff] at h
    obtain ⟨⟨es, f'⟩, hn, hgo⟩ := h
    obtain ⟨es', hc, hsub⟩ := cutNodeEqns_sub (leak := leak) (c := c) hn
    have : ∀ e ∈ acc' ++ es', e ∈ acc ++ es := by
      intro e hm
      rcases List.mem_append.1 hm with hm | hm
      · exact List.mem_append_left _ (hs e hm)
      · exact List.mem_append_right _ (hsub e hm)
    obtain ⟨E', hE', hsub'⟩ := cutGo_sub rest (i + 1) f' (acc ++ es) (acc' ++ es') E hgo this
    refine ⟨E', ?_, hsub'⟩
    simp only [cutGo, hc]
    exact hE'

/-- the constraints of a pruned program are a subset of those of the unpruned program -/
theorem cutConstraints_sub {jt : JetTypes} {p : Plan} {program : Bool} (leak : Bool) (c : Cut) {E : List Eqn}
    (h : constraints jt p program = some E) :
    ∃ E', cutConstraints jt leak p program c = some E' ∧ ∀ e ∈ E', e ∈ E := by
  simp only [constraints, Option.bind_eq_bind, Option.bind_eq_some_iff, Option.pure_def,
    Option.some.injEq] at h
  obtain ⟨es, hgo, rfl⟩ := h
  obtain ⟨es', hc, hsub⟩ := cutGo_sub (leak := leak) (c := c) p.toList 0 (2 * p.size) [] [] es hgo (fun _ hm => hm)
  unfold cutConstraints
  rw [hc]
  refine ⟨_, rfl, ?_⟩
  intro e hm
  cases program with
  | false => simpa using hsub e (by simpa using hm)
  | true =>
    simp only [if_true] at hm ⊢
    rcases List.mem_append.1 hm with hm | hm
    · exact List.mem_append_left _ (hsub e hm)
    · exact List.mem_append_right _ hm

theorem le_tyOfInf : ∀ {a b : Inf.Ty}, Inf.Le a b → Le (tyOfInf a) (tyOfInf b) := by
  intro a b h
  induction h with
  | one t => exact .one _
  | sum _ _ iha ihb => exact .sum iha ihb
  | prod _ _ iha ihb => exact .prod iha ihb

theorem tgtOf_arrows (ρ : Nat → Inf.Ty) (n i : Nat) :
    tgtOf ((Array.range n).map fun i => (tyOfInf (ρ (2 * i)), tyOfInf (ρ (2 * i + 1)))) i =
      if i < n then tyOfInf (ρ (2 * i + 1)) else .one := by
  unfold tgtOf
  by_cases hi : i < n
  · simp [Array.getD, hi]
  · simp [Array.getD, hi]

/-- **pruned types are smaller.** Whatever is cut, every node's re-inferred target type is below
its original target type in the prune order (`least_mono`) … -/
theorem inferCut_le {jt : JetTypes} {leak : Bool} {p : Plan} {program : Bool} {c : Cut} {ar ar' : Arrows}
    (h : infer jt p program = .ok ar) (h' : inferCut jt leak p program c = .ok ar') :
    ∀ i, Le (tgtOf ar' i) (tgtOf ar i) := by
  unfold infer at h
  cases hc : constraints jt p program with
  | none => rw [hc] at h; cases h
  | some E =>
    rw [hc] at h
    simp only at h
    obtain ⟨E', hc', hsub⟩ := cutConstraints_sub leak c hc
    unfold inferCut at h'
    rw [hc'] at h'
    simp only at h'
    cases hu : Inf.unify unifyFuel E [] with
    | ok S =>
      rw [hu] at h
      simp only [InferRes.ok.injEq] at h
      cases hu' : Inf.unify unifyFuel E' [] with
      | ok S' =>
        rw [hu'] at h'
        simp only [InferRes.ok.injEq] at h'
        have hm := Inf.least_mono hsub hu hu'
        intro i
        rw [← h, ← h', tgtOf_arrows, tgtOf_arrows]
        by_cases hi : i < p.size
        · simp only [hi, if_true]; exact le_tyOfInf (hm _)
        · simp only [hi, if_false]; exact .one _
      | clash => rw [hu'] at h'; cases h'
      | occurs => rw [hu'] at h'; cases h'
      | fuel => rw [hu'] at h'; cases h'
    | clash => rw [hu] at h; cases h
    | occurs => rw [hu] at h; cases h
    | fuel => rw [hu] at h; cases h

/-- … and re-inference cannot fail: the original typing solves the remaining constraints
(the `.expect("pruned types should check out if unpruned types check out")`) -/
theorem inferCut_accepts {jt : JetTypes} {p : Plan} {program : Bool} (leak : Bool) (c : Cut) {ar : Arrows}
    (h : infer jt p program = .ok ar) :
    (∃ ar', inferCut jt leak p program c = .ok ar') ∨ inferCut jt leak p program c = .fuel := by
  unfold infer at h
  cases hc : constraints jt p program with
  | none => rw [hc] at h; cases h
  | some E =>
    rw [hc] at h
    simp only at h
    obtain ⟨E', hc', hsub⟩ := cutConstraints_sub leak c hc
    unfold inferCut
    rw [hc']
    simp only
    cases hu : Inf.unify unifyFuel E [] with
    | ok S =>
      have hsol : Inf.Sol (Inf.closeUnit S) E' := fun e he => (Inf.unify_least _ _ _ hu).1 e (hsub e he)
      cases hu' : Inf.unify unifyFuel E' [] with
      | ok S' => exact .inl ⟨_, rfl⟩
      | clash => exact (Inf.quotient_accepts hsol (.inl hu')).elim
      | occurs => exact (Inf.quotient_accepts hsol (.inr hu')).elim
      | fuel => exact .inr rfl
    | clash => rw [hu] at h; cases h
    | occurs => rw [hu] at h; cases h
    | fuel => rw [hu] at h; cases h

/-! ### pruning: the values -/

theorem pruneValues_spec {ar' : Arrows} {keep : Nat → Bool} :
    ∀ {r r' : Witnesses}, pruneValues ar' keep r = some r' →
      r'.map (·.1) = (r.map (·.1)).filter keep ∧ WitnessTyped ar' r'
  | [], r', h => by
    simp only [pruneValues, Option.some.injEq] at h
    subst h
    exact ⟨rfl, fun _ hm => by cases hm⟩
  | iv :: rest, r', h => by
    simp only [pruneValues] at h
    cases hk : keep iv.1 with
    | false =>
      simp only [hk] at h
      obtain ⟨h1, h2⟩ := pruneValues_spec h
      exact ⟨by simp [hk, h1], h2⟩
    | true =>
      simp only [hk, if_true] at h
      cases hp : prune iv.2 (tgtOf ar' iv.1) with
      | none => simp [hp] at h
      | some w =>
        cases hr : pruneValues ar' keep rest with
        | none => simp [hp, hr] at h
        | some ws =>
          simp only [hp, hr, Option.some.injEq] at h
          subst h
          obtain ⟨h1, h2⟩ := pruneValues_spec hr
          refine ⟨by simp [hk, h1], ?_⟩
          intro x hm
          rcases List.mem_cons.1 hm with rfl | hm
          · exact prune_hasTy _ _ _ hp
          · exact h2 x hm

/-- when the new types are below the old ones, pruning well-typed values cannot fail -/
theorem pruneValues_total {ar ar' : Arrows} {keep : Nat → Bool} (hle : ∀ i, Le (tgtOf ar' i) (tgtOf ar i)) :
    ∀ {r : Witnesses}, WitnessTyped ar r → ∃ r', pruneValues ar' keep r = some r'
  | [], _ => ⟨[], rfl⟩
  | iv :: rest, ht => by
    obtain ⟨ws, hws⟩ := pruneValues_total hle (r := rest) (fun x hx => ht x (List.mem_cons_of_mem _ hx))
    simp only [pruneValues]
    cases hk : keep iv.1 with
    | false => simp only [Bool.false_eq_true, if_false]; exact ⟨ws, hws⟩
    | true =>
      obtain ⟨w, hw⟩ := prune_of_le (ht iv (List.mem_cons_self ..)) (hle iv.1)
      exact ⟨(iv.1, w) :: ws, by simp [hw, hws]⟩

/-- each pruned value is the prune of the corresponding unpruned value -/
theorem pruneValues_values {ar' : Arrows} {keep : Nat → Bool} :
    ∀ {r r' : Witnesses}, pruneValues ar' keep r = some r' →
      ∀ x ∈ r', ∃ iv ∈ r, iv.1 = x.1 ∧ prune iv.2 (tgtOf ar' x.1) = some x.2
  | [], r', h => by
    simp only [pruneValues, Option.some.injEq] at h
    subst h
    intro _ hm; cases hm
  | iv :: rest, r', h => by
    simp only [pruneValues] at h
    cases hk : keep iv.1 with
    | false =>
      simp only [hk] at h
      intro x hx
      obtain ⟨y, hy, e⟩ := pruneValues_values h x hx
      exact ⟨y, List.mem_cons_of_mem _ hy, e⟩
    | true =>
      simp only [hk, if_true] at h
      cases hp : prune iv.2 (tgtOf ar' iv.1) with
      | none => simp [hp] at h
      | some w =>
        cases hr : pruneValues ar' keep rest with
        | none => simp [hp, hr] at h
        | some ws =>
          simp only [hp, hr, Option.some.injEq] at h
          subst h
          intro x hx
          rcases List.mem_cons.1 hx with rfl | hx
          · exact ⟨iv, List.mem_cons_self .., rfl, hp⟩
          · obtain ⟨y, hy, e⟩ := pruneValues_values hr x hx
            exact ⟨y, List.mem_cons_of_mem _ hy, e⟩

end Routes
