/-
Spike: C20 — logic part of thread independence.  Global state = the atomic name counter
(`types::variable::NEXT_ID`) + one state per inference context / machine ("cell").  Every cell is
owned by one thread.  A step of a thread takes the next name from the shared counter and updates one
of its own cells.  Names are only ever displayed: observations (`obs`, `eo`) do not depend on them.
-/
namespace Conc

variable {S A O Ob EO : Type}

structure G (S : Type) where
  next : Nat
  cell : Nat → S

/-- one operation: cell id and action -/
abbrev Op (A : Type) := Nat × A

def step (act : A → Nat → S → S × O) (g : G S) (op : Op A) : G S × O :=
  let r := act op.2 g.next (g.cell op.1)
  ({ next := g.next + 1, cell := fun c => if c = op.1 then r.1 else g.cell c }, r.2)

def run (act : A → Nat → S → S × O) : G S → List (Op A) → G S × List (Nat × O)
  | g, [] => (g, [])
  | g, op :: ops =>
    let (g', o) := step act g op
    let (g'', os) := run act g' ops
    (g'', (op.1, o) :: os)

/-- names are unobservable: equal observations before, equal observations and outputs after,
whatever names the two runs drew -/
def NameBlind (act : A → Nat → S → S × O) (obs : S → Ob) (eo : O → EO) : Prop :=
  ∀ a n n' s s', obs s = obs s' →
    obs (act a n s).1 = obs (act a n' s').1 ∧ eo (act a n s).2 = eo (act a n' s').2

/-- **any interleaving, projected on one thread, is that thread's solo run** (up to names) -/
theorem interleaving_eq_solo (act : A → Nat → S → S × O) (obs : S → Ob) (eo : O → EO)
    (hb : NameBlind act obs eo) (owner : Nat → Nat) (t : Nat) :
    ∀ (tr : List (Op A)) (g g' : G S),
      (∀ c, owner c = t → obs (g.cell c) = obs (g'.cell c)) →
      let full := run act g tr
      let solo := run act g' (tr.filter fun op => owner op.1 = t)
      (∀ c, owner c = t → obs (full.1.cell c) = obs (solo.1.cell c)) ∧
      ((full.2.filter fun p => owner p.1 = t).map fun p => (p.1, eo p.2)) =
        solo.2.map fun p => (p.1, eo p.2) := by
  intro tr
  induction tr with
  | nil => intro g g' h; exact ⟨h, rfl⟩
  | cons op ops ih =>
    intro g g' h
    by_cases ho : owner op.1 = t
    · -- a step of thread t: both runs perform it
      have hstep := hb op.2 g.next g'.next (g.cell op.1) (g'.cell op.1) (h op.1 ho)
      have h' : ∀ c, owner c = t →
          obs ((step act g op).1.cell c) = obs ((step act g' op).1.cell c) := by
        intro c hc
        simp only [step]
        by_cases hcc : c = op.1
        · simp [hcc, hstep.1]
        · simp [hcc, h c hc]
      have := ih (step act g op).1 (step act g' op).1 h'
      simp only [run, List.filter_cons, ho, decide_true, if_true]
      refine ⟨this.1, ?_⟩
      simp only [List.filter_cons, ho, decide_true, if_true, List.map_cons]
      rw [this.2]
      simp only [step, hstep.2]
    · -- a step of another thread: it cannot touch t's cells
      have h' : ∀ c, owner c = t → obs ((step act g op).1.cell c) = obs (g'.cell c) := by
        intro c hc
        have : c ≠ op.1 := fun e => ho (e ▸ hc)
        simp [step, this, h c hc]
      have := ih (step act g op).1 g' h'
      simp only [run, List.filter_cons, ho, decide_false, Bool.false_eq_true, if_false]
      exact this

#print axioms interleaving_eq_solo
end Conc
