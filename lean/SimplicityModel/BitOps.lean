import SimplicityModel.BitReader
/-
C13 — the remaining writer operations (`io::Write::write` of bytes, `encode_natural` as the two
loops of the Rust function over `write_bit` / `write_bits_be`) and *sequences* of writer and of
reader operations, specified against the written / remaining bit list.
-/
namespace BitStream
open Spk (DErr)

/-! ### writer: bytes -/

/-- `io::Write::write` for one byte: `write_bit((b & (1 << (7 - i))) != 0)` for `i` in `0..8` -/
def Writer.writeByte (w : Writer) (b : Nat) : Writer := w.writeBits (byteBits b)

def Writer.writeBytes (w : Writer) : List Nat → Writer
  | [] => w
  | b :: bs => (w.writeByte b).writeBytes bs

theorem Writer.writeBytes_spec (bs : List Nat) : ∀ (w : Writer), w.Inv →
    (w.writeBytes bs).written = w.written ++ bitsOf bs ∧
    (w.writeBytes bs).total = w.total + 8 * bs.length ∧ (w.writeBytes bs).Inv := by
  induction bs with
  | nil => intro w h; exact ⟨by simp [Writer.writeBytes, bitsOf], rfl, h⟩
  | cons b bs ih =>
    intro w h
    obtain ⟨h1, h2, h3⟩ := Writer.writeBits_spec (byteBits b) w h
    have e1 : (w.writeByte b).written = w.written ++ byteBits b := h1
    have e2 : (w.writeByte b).total = w.total + (byteBits b).length := h2
    have e3 : (w.writeByte b).Inv := h3
    obtain ⟨i1, i2, i3⟩ := ih (w.writeByte b) e3
    rw [Writer.writeBytes]
    refine ⟨?_, ?_, i3⟩
    · rw [i1, e1, List.append_assoc]; rfl
    · rw [i2, e2, byteBits_length, List.length_cons]; omega

/-! ### writer: `encode_natural` -/

/-- first loop of `encode_natural`: a `1` bit and a push of `(n, len)` per level
(`len = truncated_bit_len(n) = ⌊log2 n⌋`), the `0` bit at `len = 0` -/
def Writer.natPrefix (w : Writer) (n : Nat) (stack : List (Nat × Nat)) : Writer × List (Nat × Nat) :=
  if h : n.log2 = 0 then (w.writeBit false, stack)
  else Writer.natPrefix (w.writeBit true) n.log2 ((n, n.log2) :: stack)
termination_by n
decreasing_by
  have h0 : n ≠ 0 := by intro h0; subst h0; simp at h
  exact (Nat.log2_lt h0).2 Nat.lt_two_pow_self

/-- second loop: `while let Some((bits, len)) = suffix.pop() { w.write_bits_be(bits, len) }` -/
def Writer.natSuffix (w : Writer) : List (Nat × Nat) → Writer
  | [] => w
  | (bits, len) :: s => (w.writeBitsBE bits len).natSuffix s

def Writer.encodeNatural (w : Writer) (n : Nat) : Writer :=
  let p := w.natPrefix n []
  p.1.natSuffix p.2

def stackBits : List (Nat × Nat) → List Bool
  | [] => []
  | (bits, len) :: s => bitsBE bits len ++ stackBits s

theorem bitsBE_eq (n : Nat) : ∀ len, bitsBE n len = Spk.bitsBE n len
  | 0 => rfl
  | len+1 => by
    rw [Spk.bitsBE, ← bitsBE_eq n len]
    unfold bitsBE
    rw [List.range_succ_eq_map, List.map_cons, List.map_map]
    congr 1
    apply List.map_congr_left
    intro i _
    simp only [Function.comp]
    congr 1
    omega

theorem Writer.natSuffix_spec : ∀ (s : List (Nat × Nat)) (w : Writer), w.Inv →
    (w.natSuffix s).written = w.written ++ stackBits s ∧
    (w.natSuffix s).total = w.total + (stackBits s).length ∧ (w.natSuffix s).Inv
  | [], w, h => ⟨by simp [Writer.natSuffix, stackBits], rfl, h⟩
  | (bits, len) :: s, w, h => by
    obtain ⟨h1, h2, h3⟩ := Writer.writeBits_spec (bitsBE bits len) w h
    obtain ⟨i1, i2, i3⟩ := Writer.natSuffix_spec s (w.writeBitsBE bits len) h3
    refine ⟨?_, ?_, i3⟩
    · simp only [Writer.natSuffix, stackBits]; rw [i1]; unfold Writer.writeBitsBE; rw [h1]; simp
    · simp only [Writer.natSuffix, stackBits]; rw [i2]; unfold Writer.writeBitsBE; rw [h2]; simp; omega

theorem Writer.natPrefix_spec (n : Nat) : ∀ (w : Writer) (stack : List (Nat × Nat)), w.Inv →
    (w.natPrefix n stack).1.written = w.written ++ List.replicate (Spk.pre n) true ++ [false] ∧
    (w.natPrefix n stack).1.total = w.total + Spk.pre n + 1 ∧ (w.natPrefix n stack).1.Inv ∧
    stackBits (w.natPrefix n stack).2 = Spk.suf n ++ stackBits stack := by
  induction n using Nat.strongRecOn with
  | _ n ih =>
    intro w stack h
    rw [Writer.natPrefix, Spk.pre, Spk.suf]
    by_cases hl : n.log2 = 0
    · obtain ⟨h1, h2, h3⟩ := w.writeBit_spec false h
      simp only [hl, dite_true]
      exact ⟨by simp [h1], by omega, h3, by simp⟩
    · have h0 : n ≠ 0 := by intro h0; subst h0; simp at hl
      have hlt : n.log2 < n := (Nat.log2_lt h0).2 Nat.lt_two_pow_self
      obtain ⟨h1, h2, h3⟩ := w.writeBit_spec true h
      obtain ⟨i1, i2, i3, i4⟩ := ih n.log2 hlt (w.writeBit true) ((n, n.log2) :: stack) h3
      simp only [hl, dite_false]
      refine ⟨?_, by omega, i3, ?_⟩
      · rw [i1, h1]; simp [List.replicate_succ, Nat.add_comm 1]
      · rw [i4]; simp [stackBits, bitsBE_eq]

/-- **`encode_natural`** writes exactly the bits of `encodeNat n`; the counter advances by their
number -/
theorem Writer.encodeNatural_spec (w : Writer) (n : Nat) (h : w.Inv) :
    (w.encodeNatural n).written = w.written ++ Spk.encodeNat n ∧
    (w.encodeNatural n).total = w.total + (Spk.encodeNat n).length ∧ (w.encodeNatural n).Inv := by
  obtain ⟨h1, h2, h3, h4⟩ := Writer.natPrefix_spec n w [] h
  obtain ⟨i1, i2, i3⟩ := Writer.natSuffix_spec (w.natPrefix n []).2 (w.natPrefix n []).1 h3
  unfold Writer.encodeNatural
  simp only []
  refine ⟨?_, ?_, i3⟩
  · rw [i1, h1, h4]; simp [Spk.encodeNat, stackBits]
  · rw [i2, h2, h4]; simp [Spk.encodeNat, stackBits]; omega

/-! ### writer: sequences of operations -/

inductive WOp
  | bit (b : Bool)
  | bitsBE (n len : Nat)
  | bytes (bs : List Nat)
  | nat (n : Nat)
  | flush

def Writer.step (w : Writer) : WOp → Writer
  | .bit b => w.writeBit b
  | .bitsBE n len => w.writeBitsBE n len
  | .bytes bs => w.writeBytes bs
  | .nat n => w.encodeNatural n
  | .flush => w.flushAll

def Writer.run (w : Writer) : List WOp → Writer
  | [] => w
  | op :: ops => (w.step op).run ops

/-- the bits an operation appends to a stream that already holds `s` (`flush_all`: zero padding to
the next byte boundary) -/
def WOp.bits (s : List Bool) : WOp → List Bool
  | .bit b => [b]
  | .bitsBE n len => BitStream.bitsBE n len
  | .bytes bs => bitsOf bs
  | .nat n => Spk.encodeNat n
  | .flush => List.replicate ((8 - s.length % 8) % 8) false

/-- what the counter `n_total_written` counts: padding is not counted -/
def WOp.counted (s : List Bool) (op : WOp) : Nat :=
  match op with
  | .flush => 0
  | op => (op.bits s).length

def stream (s : List Bool) : List WOp → List Bool
  | [] => s
  | op :: ops => stream (s ++ op.bits s) ops

def counted (s : List Bool) : List WOp → Nat
  | [] => 0
  | op :: ops => op.counted s + counted (s ++ op.bits s) ops

theorem Writer.flushAll_written (w : Writer) (h : w.Inv) :
    w.flushAll.written = w.written ++ List.replicate ((8 - w.written.length % 8) % 8) false ∧
    w.flushAll.total = w.total ∧ w.flushAll.Inv ∧ w.flushAll.cacheLen = 0 ∧
    w.flushAll.written = bitsOf w.flushAll.out := by
  have hs := w.flushAll_spec h
  obtain ⟨pad, hs⟩ := hs
  have hcl : w.flushAll.cacheLen = 0 ∧ w.flushAll.total = w.total ∧ w.flushAll.Inv := by
    unfold Writer.flushAll
    by_cases hc : w.cacheLen > 0
    · rw [if_pos hc]; exact ⟨rfl, rfl, by simp, by simp, by simp⟩
    · rw [if_neg hc]; exact ⟨by omega, rfl, h⟩
  have hw : w.flushAll.written = bitsOf w.flushAll.out := by
    simp [Writer.written, hcl.1]
  refine ⟨?_, hcl.2.1, hcl.2.2, hcl.1, hw⟩
  rcases hs with ⟨e, hp, hm⟩ | ⟨hc, he⟩
  · rw [hw, e]
    congr 2
    omega
  · have : w.written = bitsOf w.out := by simp [Writer.written, hc]
    rw [he, this, bitsOf_length]
    simp

theorem Writer.step_spec (w : Writer) (op : WOp) (h : w.Inv) :
    (w.step op).written = w.written ++ op.bits w.written ∧
    (w.step op).total = w.total + op.counted w.written ∧ (w.step op).Inv := by
  cases op with
  | bit b =>
    obtain ⟨h1, h2, h3⟩ := w.writeBit_spec b h
    exact ⟨h1, by simpa [WOp.counted, WOp.bits, Writer.step] using h2, h3⟩
  | bitsBE n len =>
    obtain ⟨h1, h2, h3⟩ := Writer.writeBits_spec (BitStream.bitsBE n len) w h
    exact ⟨h1, by simpa [WOp.counted, WOp.bits, Writer.step, Writer.writeBitsBE] using h2, h3⟩
  | bytes bs =>
    obtain ⟨h1, h2, h3⟩ := Writer.writeBytes_spec bs w h
    exact ⟨h1, by simpa [WOp.counted, WOp.bits, bitsOf_length, Writer.step] using h2, h3⟩
  | nat n =>
    obtain ⟨h1, h2, h3⟩ := w.encodeNatural_spec n h
    exact ⟨h1, by simpa [WOp.counted, WOp.bits, Writer.step] using h2, h3⟩
  | flush =>
    obtain ⟨h1, h2, h3, _, _⟩ := w.flushAll_written h
    exact ⟨h1, by simpa [WOp.counted, Writer.step] using h2, h3⟩

/-- **any sequence of writes**: the writer holds exactly the bits of the operations in order
(`flush_all` = zero padding to the byte boundary), `n_total_written` counts the bits of the
operations and not the padding -/
theorem Writer.run_spec : ∀ (ops : List WOp) (w : Writer), w.Inv →
    (w.run ops).written = stream w.written ops ∧
    (w.run ops).total = w.total + counted w.written ops ∧ (w.run ops).Inv
  | [], w, h => ⟨rfl, rfl, h⟩
  | op :: ops, w, h => by
    obtain ⟨h1, h2, h3⟩ := w.step_spec op h
    obtain ⟨i1, i2, i3⟩ := Writer.run_spec ops (w.step op) h3
    refine ⟨?_, ?_, i3⟩
    · simp only [Writer.run, stream]; rw [i1, h1]
    · simp only [Writer.run, counted]; rw [i2, h2, h1]; omega

theorem Writer.new_written : Writer.new.written = [] := by simp [Writer.new, Writer.written, bitsOf]

theorem stream_append (s : List Bool) (a b : List WOp) : stream s (a ++ b) = stream (stream s a) b := by
  induction a generalizing s with
  | nil => rfl
  | cons op ops ih => simp only [List.cons_append, stream]; exact ih _

theorem run_append (w : Writer) (a b : List WOp) : w.run (a ++ b) = (w.run a).run b := by
  induction a generalizing w with
  | nil => rfl
  | cons op ops ih => simp only [List.cons_append, Writer.run]; exact ih _

/-- the sink after the operations and a final `flush_all`: the stream itself, a whole number of
bytes -/
theorem Writer.run_flush_bytes (ops : List WOp) :
    bitsOf (Writer.new.run (ops ++ [.flush])).out = stream [] (ops ++ [.flush]) := by
  obtain ⟨h1, _, h3⟩ := Writer.run_spec ops Writer.new Writer.new_inv
  rw [run_append, stream_append]
  simp only [Writer.run, Writer.step, stream]
  obtain ⟨f1, _, _, _, f5⟩ := (Writer.new.run ops).flushAll_written h3
  rw [← f5, f1, h1, Writer.new_written]
  rfl

/-! ### reader: sequences of operations -/

inductive ROp
  | bit
  | u2
  | u8
  | nat (maxVal : Nat) (bound : Option Nat)

inductive ROut
  | bit (b : Bool)
  | u2 (b0 b1 : Bool)
  | u8 (v : Nat)
  | nat (v : Nat)
  | eof
  | natErr (e : DErr)

/-- one reader operation; the state after a failed `read_natural` is not modelled (`none`) -/
def LReader.step (l : LReader) : ROp → ROut × Option LReader
  | .bit => match l.next with
    | some (b, l') => (.bit b, some l')
    | none => (.eof, some l)
  | .u2 => match l.readU2 with
    | (some (b0, b1), l') => (.u2 b0 b1, some l')
    | (none, l') => (.eof, some l')
  | .u8 => match l.readU8 with
    | some (v, l') => (.u8 v, some l')
    | none => (.eof, some l)
  | .nat mv bound => match l.readNatural mv bound with
    | .ok (v, l') => (.nat v, some l')
    | .error e => (.natErr e, none)

/-- the bits a successful operation has delivered -/
def ROut.bits : ROut → Option (List Bool)
  | .bit b => some [b]
  | .u2 b0 b1 => some [b0, b1]
  | .u8 v => some (byteBits v)
  | .nat v => some (Spk.encodeNat v)
  | .eof => none
  | .natErr _ => none

theorem LReader.step_spec (l : LReader) (op : ROp) (h : l.WF) :
    match l.step op with
    | (out, some l') => l'.WF ∧ (∀ bs, out.bits = some bs →
        l.remaining = bs ++ l'.remaining ∧ l'.r.total = l.r.total + bs.length)
    | (_, none) => True := by
  cases op with
  | bit =>
    have hs := l.next_spec' h
    simp only [LReader.step]
    cases hn : l.next with
    | none => exact ⟨h, by intro bs hb; simp [ROut.bits] at hb⟩
    | some p =>
      obtain ⟨b, l'⟩ := p
      rw [hn] at hs
      refine ⟨hs.2.2, ?_⟩
      intro bs hb
      simp only [ROut.bits, Option.some.injEq] at hb
      subst hb
      exact ⟨by simpa using hs.1, by simpa using hs.2.1⟩
  | u2 =>
    have hs := l.readU2_spec h
    simp only [LReader.step]
    cases hn : l.readU2 with
    | mk o l' =>
      rw [hn] at hs
      cases o with
      | none =>
        refine ⟨?_, by intro bs hb; simp [ROut.bits] at hb⟩
        -- the invariant of the state after the failure: it is `l` or `l` after one `next`
        have h1 := l.next_spec' h
        unfold LReader.readU2 at hn
        cases hn1 : l.next with
        | none => rw [hn1] at hn; simp at hn; rw [← hn]; exact h
        | some p =>
          obtain ⟨b0, l1⟩ := p
          rw [hn1] at h1 hn
          simp only [] at hn
          cases hn2 : l1.next with
          | none => rw [hn2] at hn; simp at hn; rw [← hn]; exact h1.2.2
          | some p2 => rw [hn2] at hn; simp at hn
      | some bb =>
        obtain ⟨b0, b1⟩ := bb
        refine ⟨hs.2.2, ?_⟩
        intro bs hb
        simp only [ROut.bits, Option.some.injEq] at hb
        subst hb
        exact ⟨by simpa using hs.1, by simpa using hs.2.1⟩
  | u8 =>
    have hs := l.readU8_spec h
    simp only [LReader.step]
    cases hn : l.readU8 with
    | none => exact ⟨h, by intro bs hb; simp [ROut.bits] at hb⟩
    | some p =>
      obtain ⟨v, l'⟩ := p
      rw [hn] at hs
      refine ⟨hs.2.2.2, ?_⟩
      intro bs hb
      simp only [ROut.bits, Option.some.injEq] at hb
      subst hb
      exact ⟨hs.1, by simpa using hs.2.2.1⟩
  | nat mv bound =>
    have hs := l.readNatural_sim mv bound h
    simp only [LReader.step]
    cases hn : l.readNatural mv bound with
    | error e => trivial
    | ok p =>
      obtain ⟨v, l'⟩ := p
      rw [hn] at hs
      simp only [Sim] at hs
      obtain ⟨hd, ht, hw⟩ := hs
      refine ⟨hw, ?_⟩
      intro bs hb
      simp only [ROut.bits, Option.some.injEq] at hb
      subst hb
      -- canonicity: the consumed bits are the encoding of the value
      rw [Spk.decodeNatAs_eq] at hd
      unfold Spk.viaPlain at hd
      cases hp : Spk.decodeNat l.remaining with
      | error e => rw [hp] at hd; simp at hd
      | ok q =>
        obtain ⟨v2, r2⟩ := q
        rw [hp] at hd
        simp only [] at hd
        cases hf : Spk.finish mv bound v2 with
        | error e => rw [hf] at hd; simp at hd
        | ok v3 =>
          rw [hf] at hd
          simp only [Except.ok.injEq, Prod.mk.injEq] at hd
          obtain ⟨rfl, rfl⟩ := hd
          have hv : v3 = v2 := by
            unfold Spk.finish at hf
            split at hf
            · simp at hf
            · split at hf
              · split at hf
                · simp at hf
                · simp at hf; exact hf.symm
              · simp at hf; exact hf.symm
          subst hv
          obtain ⟨hc, _, _⟩ := Spk.decode_canonical _ _ _ hp
          refine ⟨hc, ?_⟩
          have hl := congrArg List.length hc
          simp only [List.length_append] at hl
          omega

/-- run reader operations while the state is modelled -/
def LReader.run (l : LReader) : List ROp → List ROut × Option LReader
  | [] => ([], some l)
  | op :: ops => match l.step op with
    | (out, some l') => let p := LReader.run l' ops; (out :: p.1, p.2)
    | (out, none) => ([out], none)

def outBits : List ROut → Option (List Bool)
  | [] => some []
  | o :: os => match o.bits, outBits os with
    | some a, some b => some (a ++ b)
    | _, _ => none

/-- **any sequence of successful reads** (`read_bit`, `read_u2`, `read_u8`, `read_natural` in any
order, at any alignment) returns the bits of the stream in order — the results, laid out as bits,
followed by what the reader still holds are the stream — and `n_total_read` is their number -/
theorem LReader.run_spec : ∀ (ops : List ROp) (l : LReader), l.WF →
    ∀ outs l' bs, l.run ops = (outs, some l') → outBits outs = some bs →
    l.remaining = bs ++ l'.remaining ∧ l'.r.total = l.r.total + bs.length ∧ l'.WF
  | [], l, h => by
    intro outs l' bs hr hb
    simp only [LReader.run, Prod.mk.injEq, Option.some.injEq] at hr
    obtain ⟨rfl, rfl⟩ := hr
    simp only [outBits, Option.some.injEq] at hb
    subst hb
    exact ⟨by simp, by simp, h⟩
  | op :: ops, l, h => by
    intro outs l' bs hr hb
    have hs := l.step_spec op h
    simp only [LReader.run] at hr
    cases hst : l.step op with
    | mk out o =>
      rw [hst] at hs hr
      cases o with
      | none => simp at hr
      | some l1 =>
        simp only [Prod.mk.injEq] at hr
        obtain ⟨rfl, hr2⟩ := hr
        obtain ⟨w1, hs⟩ := hs
        simp only [outBits] at hb
        cases hob : out.bits with
        | none => rw [hob] at hb; simp at hb
        | some a =>
          cases hos : outBits (LReader.run l1 ops).1 with
          | none => rw [hob, hos] at hb; simp at hb
          | some b =>
            rw [hob, hos] at hb
            simp only [Option.some.injEq] at hb
            subst hb
            obtain ⟨e1, t1⟩ := hs a hob
            obtain ⟨e2, t2, w2⟩ := LReader.run_spec ops l1 w1 (LReader.run l1 ops).1 l' b
              (by rw [← hr2]) hos
            exact ⟨by rw [e1, e2]; simp, by rw [t2, t1]; simp; omega, w2⟩

theorem LReader.new_remaining (bytes : List Nat) : (LReader.new bytes).remaining = bitsOf bytes := by
  simp [LReader.new, LReader.remaining, Reader.new, Reader.remaining, drop_byteBits_8]

/-! ### draining a reader (`Iterator::collect`) -/

/-- up to `k` calls of `next` -/
def LReader.takeBits : Nat → LReader → List Bool × LReader
  | 0, l => ([], l)
  | k+1, l => match l.next with
    | none => ([], l)
    | some (b, l') => let p := LReader.takeBits k l'; (b :: p.1, p.2)

theorem LReader.takeBits_spec : ∀ (k : Nat) (l : LReader), l.WF →
    (LReader.takeBits k l).1 = l.remaining.take k
  | 0, l, _ => by simp [LReader.takeBits]
  | k+1, l, h => by
    have hs := l.next_spec' h
    simp only [LReader.takeBits]
    cases hn : l.next with
    | none => rw [hn] at hs; simp [hs]
    | some p =>
      obtain ⟨b, l'⟩ := p
      rw [hn] at hs
      simp only []
      rw [hs.1, List.take_succ_cons, ← LReader.takeBits_spec k l' hs.2.2]

/-- `collect()`: `next` until it fails — `len` calls suffice -/
def LReader.toList (l : LReader) : List Bool := (LReader.takeBits l.len l).1

theorem LReader.toList_spec (l : LReader) (h : l.WF) : l.toList = l.remaining := by
  unfold LReader.toList
  rw [LReader.takeBits_spec _ _ h, l.len_spec h.2.1, List.take_length]

/-! ### the sink holds bytes (needed to read it back with `read_u8`) -/

def Writer.OutOk (w : Writer) : Prop := w.Inv ∧ ∀ b ∈ w.out, b < 256

theorem Writer.new_outOk : Writer.new.OutOk := ⟨Writer.new_inv, by simp [Writer.new]⟩

theorem Writer.writeBit_outOk (w : Writer) (b : Bool) (h : w.OutOk) : (w.writeBit b).OutOk := by
  refine ⟨(w.writeBit_spec b h.1).2.2, ?_⟩
  unfold Writer.writeBit
  by_cases hc : w.cacheLen < 8
  · rw [if_pos hc]; exact h.2
  · rw [if_neg hc]
    intro x hx
    simp only [List.mem_append, List.mem_singleton] at hx
    rcases hx with hx | rfl
    · exact h.2 x hx
    · exact h.1.2.1

theorem Writer.writeBits_outOk : ∀ (bs : List Bool) (w : Writer), w.OutOk → (w.writeBits bs).OutOk
  | [], _, h => h
  | b :: bs, w, h => Writer.writeBits_outOk bs (w.writeBit b) (w.writeBit_outOk b h)

theorem Writer.flushAll_outOk (w : Writer) (h : w.OutOk) : w.flushAll.OutOk := by
  refine ⟨(w.flushAll_written h.1).2.2.1, ?_⟩
  unfold Writer.flushAll
  by_cases hc : w.cacheLen > 0
  · rw [if_pos hc]
    intro x hx
    simp only [List.mem_append, List.mem_singleton] at hx
    rcases hx with hx | rfl
    · exact h.2 x hx
    · exact h.1.2.1
  · rw [if_neg hc]; exact h.2

theorem Writer.writeBytes_outOk (bs : List Nat) : ∀ (w : Writer), w.OutOk → (w.writeBytes bs).OutOk := by
  induction bs with
  | nil => intro w h; exact h
  | cons b bs ih =>
    intro w h
    rw [Writer.writeBytes]
    exact ih _ (Writer.writeBits_outOk _ w h)

theorem Writer.natSuffix_outOk : ∀ (s : List (Nat × Nat)) (w : Writer), w.OutOk → (w.natSuffix s).OutOk
  | [], _, h => h
  | (bits, len) :: s, w, h => Writer.natSuffix_outOk s _ (Writer.writeBits_outOk _ w h)

theorem Writer.natPrefix_outOk (n : Nat) : ∀ (w : Writer) (stack : List (Nat × Nat)), w.OutOk →
    (w.natPrefix n stack).1.OutOk := by
  induction n using Nat.strongRecOn with
  | _ n ih =>
    intro w stack h
    rw [Writer.natPrefix]
    by_cases hl : n.log2 = 0
    · simp only [hl, dite_true]; exact w.writeBit_outOk false h
    · have h0 : n ≠ 0 := by intro h0; subst h0; simp at hl
      have hlt : n.log2 < n := (Nat.log2_lt h0).2 Nat.lt_two_pow_self
      simp only [hl, dite_false]
      exact ih n.log2 hlt _ _ (w.writeBit_outOk true h)

theorem Writer.step_outOk (w : Writer) (op : WOp) (h : w.OutOk) : (w.step op).OutOk := by
  cases op with
  | bit b => exact w.writeBit_outOk b h
  | bitsBE n len => exact Writer.writeBits_outOk _ w h
  | bytes bs => exact Writer.writeBytes_outOk bs w h
  | nat n => exact Writer.natSuffix_outOk _ _ (Writer.natPrefix_outOk n w [] h)
  | flush => exact w.flushAll_outOk h

theorem Writer.run_outOk : ∀ (ops : List WOp) (w : Writer), w.OutOk → (w.run ops).OutOk
  | [], _, h => h
  | op :: ops, w, h => Writer.run_outOk ops _ (w.step_outOk op h)

end BitStream
