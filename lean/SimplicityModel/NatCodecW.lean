import SimplicityModel.NatCodec
/-
C13 — `BitIter::read_natural::<N>(bound)` with its result type and bound (on bit lists).

`NatCodec.lean` proves the round trip and canonicity of the plain decoder (`decodeNat`, result
type `u32`, no bound).  Here the decoder gets the two parameters of the Rust function:

* `maxVal` — the largest `u32` value `N::try_from(n)` accepts (`u8`: 255, `i32`: 2^31-1,
  `u32`/`u64`/`usize`: no restriction beyond the 32-bit accumulator), failure = `Overflow`;
* `bound`  — `Some(b)`: a decoded value above `b` is `BadIndex { got, max }`.

Everything is tied back to `decodeNat` (`decodeNatAs_eq`), so canonicity carries over, and
`decode_large` (numbers of 33 bits and more are `Overflow`) is proved from the encoder's shape.
-/
namespace Spk

/-- `DecodeNaturalError` -/
inductive DErr
  | eof
  | overflow
  | badIndex (got max : Nat)
deriving DecidableEq, Repr

def Err.lift : Err → DErr
  | .eof => .eof
  | .overflow => .overflow

/-- the exit of `read_natural` at recursion depth 0: `N::try_from(n)`, then the bound -/
def finish (maxVal : Nat) (bound : Option Nat) (v : Nat) : Except DErr Nat :=
  if v > maxVal then .error .overflow
  else match bound with
    | some b => if v > b then .error (.badIndex v b) else .ok v
    | none => .ok v

/-- the loop of `read_natural` (`len > 31` check on the inner levels, `finish` on the last) -/
def decLoopAs (maxVal : Nat) (bound : Option Nat) : Nat → Nat → List Bool → Except DErr (Nat × List Bool)
  | d, len, bs =>
    match readBits len 1 bs with
    | .error e => .error e.lift
    | .ok (v, rest) =>
      match d with
      | 0 => match finish maxVal bound v with
        | .error e => .error e
        | .ok v => .ok (v, rest)
      | d'+1 => if v > 31 then .error .overflow else decLoopAs maxVal bound d' v rest

def decodeNatAs (maxVal : Nat) (bound : Option Nat) (bs : List Bool) : Except DErr (Nat × List Bool) :=
  match countOnes bs with
  | .error e => .error e.lift
  | .ok (d, rest) => decLoopAs maxVal bound d 0 rest

/-- what `decodeNatAs` is in terms of the plain decoder -/
def viaPlain (maxVal : Nat) (bound : Option Nat) (r : Except Err (Nat × List Bool)) :
    Except DErr (Nat × List Bool) :=
  match r with
  | .error e => .error e.lift
  | .ok (v, rest) => match finish maxVal bound v with
    | .error e => .error e
    | .ok v => .ok (v, rest)

/-- reading `len` bits onto an accumulator below `2^k` stays below `2^(k+len)`: with `len ≤ 31`
and the initial `1` the `u32` accumulator of `read_natural` cannot overflow -/
theorem readBits_lt (len acc k : Nat) (bs : List Bool) (v : Nat) (rest : List Bool)
    (hacc : acc < 2^k) (h : readBits len acc bs = .ok (v, rest)) : v < 2^(k+len) := by
  induction len generalizing acc k bs with
  | zero => simp [readBits] at h; obtain ⟨rfl, rfl⟩ := h; simpa using hacc
  | succ len ih =>
    cases bs with
    | nil => simp [readBits] at h
    | cons b bs =>
      simp only [readBits] at h
      have := ih (2*acc + b.toNat) (k+1) bs (by
        rw [Nat.pow_succ]; cases b <;> simp <;> omega) h
      rw [show k + (len + 1) = k + 1 + len by omega]; exact this

theorem readBits_one_lt (len : Nat) (bs : List Bool) (v : Nat) (rest : List Bool) (hl : len ≤ 31)
    (h : readBits len 1 bs = .ok (v, rest)) : v < 2^32 := by
  have := readBits_lt len 1 1 bs v rest (by decide) h
  exact Nat.lt_of_lt_of_le this (Nat.pow_le_pow_right (by omega) (by omega))

theorem decLoopAs_eq (mv : Nat) (bound : Option Nat) : ∀ (d len : Nat) (bs : List Bool), len ≤ 31 →
    decLoopAs mv bound d len bs = viaPlain mv bound (decLoop d len bs) := by
  intro d
  induction d with
  | zero =>
    intro len bs hl
    unfold decLoopAs decLoop
    cases hr : readBits len 1 bs with
    | error e => simp [viaPlain]
    | ok p =>
      obtain ⟨v, rest⟩ := p
      have := readBits_one_lt len bs v rest hl hr
      simp [viaPlain, this]
  | succ d ih =>
    intro len bs hl
    unfold decLoopAs decLoop
    cases hr : readBits len 1 bs with
    | error e => simp [viaPlain]
    | ok p =>
      obtain ⟨v, rest⟩ := p
      simp only []
      by_cases hv : v > 31
      · simp [hv, viaPlain, Err.lift]
      · simp only [hv, if_false]
        exact ih v rest (by omega)

/-- **tie to the plain decoder**: `read_natural::<N>(bound)` is `read_natural::<u32>(None)`
followed by the conversion and the bound check — nothing else changes -/
theorem decodeNatAs_eq (mv : Nat) (bound : Option Nat) (bs : List Bool) :
    decodeNatAs mv bound bs = viaPlain mv bound (decodeNat bs) := by
  unfold decodeNatAs decodeNat
  cases hc : countOnes bs with
  | error e => simp [viaPlain]
  | ok p =>
    obtain ⟨d, rest⟩ := p
    simp only []
    exact decLoopAs_eq mv bound d 0 rest (by omega)

/-! ### numbers of 33 bits and more -/

theorem log2_ge_32 {n : Nat} (h : 2^32 ≤ n) : 32 ≤ n.log2 := by
  have h0 : n ≠ 0 := by intro h0; subst h0; simp at h
  exact (Nat.le_log2 h0).2 h

theorem decLoop_suf_large (n : Nat) (h : 2^32 ≤ n) (d : Nat) (rest : List Bool) :
    decLoop (pre n + d) 0 (suf n ++ rest) = .error .overflow := by
  induction n using Nat.strongRecOn generalizing d rest with
  | _ n ih =>
    have hm := log2_ge_32 h
    have h0 : n ≠ 0 := by intro h0; subst h0; simp at h
    have hne : ¬ n.log2 = 0 := by omega
    have hmlt : n.log2 < n := (Nat.log2_lt h0).2 Nat.lt_two_pow_self
    rw [pre, suf]
    simp only [hne, dite_false, List.append_assoc]
    rw [show 1 + pre n.log2 + d = pre n.log2 + (d+1) by omega]
    by_cases hbig : 2^32 ≤ n.log2
    · exact ih n.log2 hmlt hbig (d+1) _
    · rw [decLoop_suf n.log2 (by omega) (by omega) (d+1) _]
      simp only []
      rw [if_pos (by omega)]

/-- the plain decoder on the encoding of a number of 33 bits or more: `Overflow` -/
theorem decodeNat_large (n : Nat) (h : 2^32 ≤ n) (rest : List Bool) :
    decodeNat (encodeNat n ++ rest) = .error .overflow := by
  unfold decodeNat encodeNat
  rw [List.append_assoc, List.cons_append, countOnes_replicate]
  simpa using decLoop_suf_large n h 0 rest

/-! ### the encoder is prefix-free on the accepted range -/

theorem encodeNat_prefix_free (n m : Nat) (r r' : List Bool) (hn : 1 ≤ n) (hn' : n < 2^32)
    (hm : 1 ≤ m) (hm' : m < 2^32) (h : encodeNat n ++ r = encodeNat m ++ r') : n = m ∧ r = r' := by
  have a := decode_encode n hn hn' r
  have b := decode_encode m hm hm' r'
  rw [h, b] at a
  simp at a
  exact ⟨a.1.symm, a.2.symm⟩

end Spk
