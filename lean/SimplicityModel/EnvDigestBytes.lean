/-
The byte writers and serialisations of the digests are injective and self-delimiting
(`be32_inj`, `digAmount_norm_inj`, `serializeConf_inj`, `OptCode`, `AmtCode`); a digest and a
compression result have 32 bytes.  Nothing evaluates SHA-256.
-/
import SimplicityModel.EnvDigestLemmas
import SimplicityModel.EnvDigestCode
import SimplicityModel.Sha256Length
namespace Env

/-! ### byte writers are injective -/

def readBE32 : Bytes → Nat
  | b0 :: b1 :: b2 :: b3 :: _ => ((b0.toNat * 256 + b1.toNat) * 256 + b2.toNat) * 256 + b3.toNat
  | _ => 0

theorem readBE32_be32 (x : UInt32) : readBE32 (be32 x) = x.toNat := by
  have h : x.toNat < 4294967296 := x.toNat_lt
  unfold be32 readBE32
  simp only [UInt8.toNat_ofNat', Nat.reducePow, Nat.mod_mod]
  generalize x.toNat = n at h ⊢
  omega

theorem be32_inj {a b : UInt32} (h : be32 a = be32 b) : a = b := by
  have := congrArg readBE32 h
  rw [readBE32_be32, readBE32_be32] at this
  exact UInt32.toNat_inj.mp this

theorem be32_length (x : UInt32) : (be32 x).length = 4 := rfl

theorem beNat64_inj {a b : UInt64} (h : beNat64 a.toNat = beNat64 b.toNat) : a = b := by
  have h' : be64 a = be64 b := h
  have := congrArg readBE64 h'
  rw [readBE64_be64, readBE64_be64] at this
  exact UInt64.toNat_inj.mp this

theorem beNat64_length (n : Nat) : (beNat64 n).length = 8 := rfl

theorem B32.eq_of_bytes {a b : B32} (h : a.bytes = b.bytes) : a = b := (B32.ext_iff' a b).mpr h

theorem hash_len (x : Bytes) : (Sha256.hash x).length = 32 := Sha256.hash_length x

theorem compressIV_length (x : Bytes) : (compressIV x).length = 32 :=
  Sha256.wordsToBytes_length _ (Sha256.compress_size _ _ _)

/-! ### the serialisations are injective -/

theorem digAmount_norm_inj {a b : Amount} (h : digAmount a.norm = digAmount b.norm) : a.norm = b.norm := by
  have e0 : ∀ v w : UInt64, digAmount (.explicit v) = digAmount (.explicit w) → Amount.explicit v = .explicit w := by
    intro v w h
    simp only [digAmount, List.cons.injEq, true_and] at h
    rw [beNat64_inj h]
  have ec : ∀ (v : UInt64) o (x : B32), digAmount (.explicit v) ≠ digAmount (.confidential o x) := by
    intro v o x h
    simp only [digAmount, List.cons.injEq] at h
    cases o <;> exact absurd h.1 (by decide)
  have cc : ∀ o1 (x1 : B32) o2 (x2 : B32), digAmount (.confidential o1 x1) = digAmount (.confidential o2 x2) →
      Amount.confidential o1 x1 = .confidential o2 x2 := by
    intro o1 x1 o2 x2 h
    simp only [digAmount, List.cons.injEq] at h
    have ho : o1 = o2 := by
      cases o1 <;> cases o2 <;> first | rfl | exact absurd h.1 (by decide)
    rw [ho, B32.eq_of_bytes h.2]
  cases a <;> cases b <;> simp only [Amount.norm] at h ⊢ <;>
    first
      | exact e0 _ _ h
      | exact cc _ _ _ _ h
      | exact absurd h (ec _ _ _)
      | exact absurd h.symm (ec _ _ _)

theorem B32.bytes_ne_nil (x : B32) : x.bytes ≠ [] := by
  intro h
  have := x.len
  rw [h] at this
  exact absurd this (by decide)

theorem serializeConf_inj (base : UInt8) (hb : base = 0x0a ∨ base = 0x02) {a b : Conf}
    (h : serializeConf base a = serializeConf base b) : a = b := by
  have hne : ∀ o : Bool, base + parity o ≠ 1 ∧ base + parity o ≠ 0 := by
    intro o; rcases hb with rfl | rfl <;> cases o <;> decide
  have hpar : ∀ o1 o2 : Bool, base + parity o1 = base + parity o2 → o1 = o2 := by
    intro o1 o2; rcases hb with rfl | rfl <;> cases o1 <;> cases o2 <;> decide
  cases a with
  | null =>
    cases b with
    | null => rfl
    | explicit d => simp only [serializeConf, List.cons.injEq] at h; exact absurd h.2.symm d.bytes_ne_nil
    | confidential o x => simp only [serializeConf, List.cons.injEq] at h; exact absurd h.2.symm x.bytes_ne_nil
  | explicit d =>
    cases b with
    | null => simp only [serializeConf, List.cons.injEq] at h; exact absurd h.2 d.bytes_ne_nil
    | explicit d2 => simp only [serializeConf, List.cons.injEq, true_and] at h; rw [B32.eq_of_bytes h]
    | confidential o x => simp only [serializeConf, List.cons.injEq] at h; exact absurd h.1.symm (hne o).1
  | confidential o x =>
    cases b with
    | null => simp only [serializeConf, List.cons.injEq] at h; exact absurd h.2 x.bytes_ne_nil
    | explicit d => simp only [serializeConf, List.cons.injEq] at h; exact absurd h.1 (hne o).1
    | confidential o2 x2 =>
      simp only [serializeConf, List.cons.injEq] at h
      rw [hpar _ _ h.1, B32.eq_of_bytes h.2]

/-! ### the pieces are words of prefix codes -/

/-- one tag byte; nothing after tag 0, 32 bytes after any other tag -/
def OptCode : Bytes → Prop := Tagged fun t r => if t = 0 then Fixed 0 r else Fixed 32 r
/-- one tag byte; 8 bytes after tag 1, 32 bytes after any other tag -/
def AmtCode : Bytes → Prop := Tagged fun t r => if t = 1 then Fixed 8 r else Fixed 32 r

theorem prefixCode_opt : PrefixCode OptCode :=
  prefixCode_tagged fun t => by split <;> exact prefixCode_fixed _
theorem prefixCode_amt : PrefixCode AmtCode :=
  prefixCode_tagged fun t => by split <;> exact prefixCode_fixed _

theorem digAmount_code (a : Amount) : AmtCode (digAmount a) := by
  cases a with
  | null => exact ⟨1, _, rfl, by simp [Fixed, beNat64_length]⟩
  | explicit v => exact ⟨1, _, rfl, by simp [Fixed, beNat64_length]⟩
  | confidential o x =>
    refine ⟨8 + parity o, _, rfl, ?_⟩
    have : (8 + parity o : UInt8) ≠ 1 := by cases o <;> decide
    simp [this, Fixed, x.len]

theorem serializeConf_code (base : UInt8) (hb : base = 0x0a ∨ base = 0x02) (c : Conf) :
    OptCode (serializeConf base c) := by
  cases c with
  | null => exact ⟨0, _, rfl, by simp [Fixed]⟩
  | explicit d => exact ⟨1, _, rfl, by simp [Fixed, d.len]⟩
  | confidential o x =>
    refine ⟨base + parity o, _, rfl, ?_⟩
    have : (base + parity o : UInt8) ≠ 0 := by rcases hb with rfl | rfl <;> cases o <;> decide
    simp [this, Fixed, x.len]

/-- a tag byte 0, or a tag byte and 32 bytes: which one, and which bytes -/
theorem optPiece_inj {a b : Option Bytes} (ha : ∀ x ∈ a, x.length = 32) (hb : ∀ x ∈ b, x.length = 32) {r s : Bytes}
    (h : optPiece a ++ r = optPiece b ++ s) : a = b ∧ r = s := by
  cases a with
  | none =>
    cases b with
    | none => simpa [optPiece] using h
    | some y => simp [optPiece] at h
  | some x =>
    cases b with
    | none => simp [optPiece] at h
    | some y =>
      simp only [optPiece, List.cons_append, List.cons.injEq, true_and] at h
      obtain ⟨h1, h2⟩ := List.append_inj h ((ha x rfl).trans (hb y rfl).symm)
      exact ⟨by rw [h1], h2⟩

theorem optB32_map_inj {a b : Option B32} (h : a.map (·.bytes) = b.map (·.bytes)) : a = b := by
  cases a <;> cases b <;> simp at h ⊢
  exact B32.eq_of_bytes h

theorem opt_bytes_len (a : Option B32) : ∀ x ∈ a.map (·.bytes), x.length = 32 := by
  intro x hx
  cases a with
  | none => simp at hx
  | some g => simp at hx; rw [← hx, g.len]

theorem opt_hash_len (a : Option Bytes) : ∀ x ∈ a.map Sha256.hash, x.length = 32 := by
  intro x hx
  cases a with
  | none => simp at hx
  | some g => simp at hx; rw [← hx, hash_len]

theorem optPiece_code {a : Option Bytes} (ha : ∀ x ∈ a, x.length = 32) : OptCode (optPiece a) := by
  cases a with
  | none => exact ⟨0, _, rfl, by simp [Fixed]⟩
  | some x => exact ⟨1, _, rfl, by simp [Fixed, ha x rfl]⟩

end Env
