/-
What a union-bound context *means*: the set of ground assignments `ρ : element → type` that satisfy
every parent link (`EqualTo`) and the bound stored at every root.  Basic facts: path halving and the
rank bookkeeping do not change that set (`Compress`), every operation only merges classes and only
refines bounds (`Mono`).
-/
import SimplicityModel.UnionBound

namespace UB
open Inf (Ty)

theorem getElem?_modify' {α} (xs : Array α) (i j : Nat) (f : α → α) :
    (xs.modify i f)[j]? = if i = j then xs[j]?.map f else xs[j]? := by
  rw [← Array.getElem?_toList, Array.toList_modify, List.getElem?_modify, Array.getElem?_toList]
  split <;> simp

/-- `ρ` respects every parent link -/
def ParentSol (ρ : Nat → Ty) (c : Ctx) : Prop :=
  ∀ e i p, c.elems[e]? = some i → i.data = .equalTo p → ρ e = ρ p

/-- what a bound says about the type `t` of the class that holds it -/
def BoundSat (ρ : Nat → Ty) (t : Ty) : Bound → Prop
  | .free => True
  | .complete d => t = d
  | .sum a b => t = .sum (ρ a) (ρ b)
  | .product a b => t = .prod (ρ a) (ρ b)

/-- element `e` is a root and holds the bound reference `b` -/
def Owner (c : Ctx) (e b : Nat) : Prop := ∃ i, c.elems[e]? = some i ∧ i.data = .root b

def BoundSol (ρ : Nat → Ty) (c : Ctx) : Prop :=
  ∀ e b B, Owner c e b → c.slab[b]? = some B → BoundSat ρ (ρ e) B

/-- the assignments a context represents -/
structure SolSt (ρ : Nat → Ty) (c : Ctx) : Prop where
  par : ParentSol ρ c
  bnd : BoundSol ρ c

/-- distinct roots hold distinct, allocated bound references -/
structure WF (c : Ctx) : Prop where
  rootLt : ∀ e b, Owner c e b → b < c.slab.size
  inj : ∀ e e' b, Owner c e b → Owner c e' b → e = e'

theorem Owner.unique {c : Ctx} {e b b' : Nat} (h : Owner c e b) (h' : Owner c e b') : b = b' := by
  obtain ⟨i, hi, hd⟩ := h
  obtain ⟨i', hi', hd'⟩ := h'
  rw [hi] at hi'; cases hi'; rw [hd] at hd'; cases hd'; rfl

/-- only parent pointers below roots and ranks changed: same roots, same bounds, same equivalence -/
structure Compress (c c' : Ctx) : Prop where
  slab : c'.slab = c.slab
  esize : c'.elems.size = c.elems.size
  owner : ∀ e b, Owner c' e b ↔ Owner c e b
  par : ∀ ρ, ParentSol ρ c' ↔ ParentSol ρ c

theorem Compress.refl (c : Ctx) : Compress c c := ⟨rfl, rfl, fun _ _ => Iff.rfl, fun _ => Iff.rfl⟩

theorem Compress.trans {a b c : Ctx} (h : Compress a b) (h' : Compress b c) : Compress a c :=
  ⟨h'.slab.trans h.slab, h'.esize.trans h.esize,
   fun e x => (h'.owner e x).trans (h.owner e x), fun ρ => (h'.par ρ).trans (h.par ρ)⟩

theorem Compress.bnd {c c' : Ctx} (h : Compress c c') (ρ) : BoundSol ρ c' ↔ BoundSol ρ c := by
  constructor
  · intro hb e b B ho hs; exact hb e b B ((h.owner e b).2 ho) (by rw [h.slab]; exact hs)
  · intro hb e b B ho hs; exact hb e b B ((h.owner e b).1 ho) (by rw [← h.slab]; exact hs)

theorem Compress.sol {c c' : Ctx} (h : Compress c c') (ρ) : SolSt ρ c' ↔ SolSt ρ c :=
  ⟨fun s => ⟨(h.par ρ).1 s.par, (h.bnd ρ).1 s.bnd⟩, fun s => ⟨(h.par ρ).2 s.par, (h.bnd ρ).2 s.bnd⟩⟩

theorem Compress.wf {c c' : Ctx} (h : Compress c c') (w : WF c) : WF c' :=
  ⟨fun e b ho => by rw [h.slab]; exact w.rootLt e b ((h.owner e b).1 ho),
   fun e e' b ho ho' => w.inj e e' b ((h.owner e b).1 ho) ((h.owner e' b).1 ho')⟩

/-- classes only merge, bounds are only refined (a free bound is replaced, an incomplete one is
completed), complete bounds stay -/
structure Mono (c c' : Ctx) : Prop where
  esize : c'.elems.size = c.elems.size
  ssize : c'.slab.size = c.slab.size
  owner : ∀ e b, Owner c' e b → Owner c e b
  par : ∀ ρ, ParentSol ρ c' → ParentSol ρ c
  slabC : ∀ (b : Nat) d, c.slab[b]? = some (Bound.complete d) → c'.slab[b]? = some (Bound.complete d)
  slabS : ∀ (b : Nat) l r, c.slab[b]? = some (Bound.sum l r) →
    c'.slab[b]? = some (Bound.sum l r) ∨ ∃ d, c'.slab[b]? = some (Bound.complete d)
  slabP : ∀ (b : Nat) l r, c.slab[b]? = some (Bound.product l r) →
    c'.slab[b]? = some (Bound.product l r) ∨ ∃ d, c'.slab[b]? = some (Bound.complete d)

theorem Mono.refl (c : Ctx) : Mono c c :=
  ⟨rfl, rfl, fun _ _ h => h, fun _ h => h, fun _ _ h => h, fun _ _ _ h => .inl h, fun _ _ _ h => .inl h⟩

theorem Mono.trans {a b c : Ctx} (h : Mono a b) (h' : Mono b c) : Mono a c where
  esize := h'.esize.trans h.esize
  ssize := h'.ssize.trans h.ssize
  owner := fun e x ho => h.owner e x (h'.owner e x ho)
  par := fun ρ hp => h.par ρ (h'.par ρ hp)
  slabC := fun x d hs => h'.slabC x d (h.slabC x d hs)
  slabS := fun x l r hs => by
    rcases h.slabS x l r hs with h1 | ⟨d, h1⟩
    · exact h'.slabS x l r h1
    · exact .inr ⟨d, h'.slabC x d h1⟩
  slabP := fun x l r hs => by
    rcases h.slabP x l r hs with h1 | ⟨d, h1⟩
    · exact h'.slabP x l r h1
    · exact .inr ⟨d, h'.slabC x d h1⟩

theorem Compress.mono {c c' : Ctx} (h : Compress c c') : Mono c c' where
  esize := h.esize
  ssize := by rw [h.slab]
  owner := fun e b => (h.owner e b).1
  par := fun ρ => (h.par ρ).1
  slabC := fun b d hs => by rw [h.slab]; exact hs
  slabS := fun b l r hs => .inl (by rw [h.slab]; exact hs)
  slabP := fun b l r hs => .inl (by rw [h.slab]; exact hs)

/-! ### reading and writing cells -/

theorem getElem_ok {c : Ctx} {x : Nat} {i : UbInner} : getElem c x = .ok i ↔ c.elems[x]? = some i := by
  unfold getElem; split <;> simp_all

theorem getBound_ok {c : Ctx} {b : Nat} {B : Bound} : getBound c b = .ok B ↔ c.slab[b]? = some B := by
  unfold getBound; split <;> simp_all

theorem getElem_err {c : Ctx} {x : Nat} {e : Err} (h : getElem c x = .error e) : e = .panic := by
  unfold getElem at h; split at h <;> simp_all

theorem getBound_err {c : Ctx} {x : Nat} {e : Err} (h : getBound c x = .error e) : e = .panic := by
  unfold getBound at h; split at h <;> simp_all

theorem setData_get (c : Ctx) (x : Nat) (d : UbData) (j : Nat) :
    (setData c x d).elems[j]? = if x = j then c.elems[j]?.map (fun i => { i with data := d }) else c.elems[j]? := by
  simp [setData, getElem?_modify']

theorem bumpRank_get (c : Ctx) (x : Nat) (j : Nat) :
    (bumpRank c x).elems[j]? = if x = j then c.elems[j]?.map (fun i => { i with rank := i.rank + 1 }) else c.elems[j]? := by
  simp [bumpRank, getElem?_modify']

@[simp] theorem setData_slab (c : Ctx) (x : Nat) (d : UbData) : (setData c x d).slab = c.slab := rfl
@[simp] theorem bumpRank_slab (c : Ctx) (x : Nat) : (bumpRank c x).slab = c.slab := rfl
@[simp] theorem setBound_elems (c : Ctx) (b : Nat) (n : Bound) : (setBound c b n).elems = c.elems := rfl

theorem setBound_get (c : Ctx) (b : Nat) (n : Bound) (j : Nat) :
    (setBound c b n).slab[j]? = if b = j then (if b < c.slab.size then some n else none) else c.slab[j]? := by
  simp [setBound, Array.getElem?_setIfInBounds]

theorem bumpRank_compress (c : Ctx) (x : Nat) : Compress c (bumpRank c x) := by
  refine ⟨rfl, by simp [bumpRank], ?_, ?_⟩
  · intro e b
    unfold Owner
    rw [bumpRank_get]
    split
    · next h =>
      subst h
      cases hc : c.elems[x]? with
      | none => simp
      | some i => simp
    · exact Iff.rfl
  · intro ρ
    unfold ParentSol
    constructor
    · intro h e i p hi hd
      have := bumpRank_get c x e
      by_cases hx : x = e
      · subst hx
        rw [if_pos rfl, hi] at this
        exact h x _ p this hd
      · rw [if_neg hx] at this
        exact h e i p (this.trans hi) hd
    · intro h e i p hi hd
      rw [bumpRank_get] at hi
      split at hi
      · next hx =>
        subst hx
        cases hc : c.elems[x]? with
        | none => rw [hc] at hi; cases hi
        | some j =>
          rw [hc] at hi; simp only [Option.map_some, Option.some.injEq] at hi
          subst hi
          exact h x j p hc hd
      · exact h e i p hi hd

/-- one step of path halving: `x → p → g` becomes `x → g` -/
theorem halve_compress {c : Ctx} {x p g : Nat} {ix ip : UbInner}
    (hx : c.elems[x]? = some ix) (hxd : ix.data = .equalTo p)
    (hp : c.elems[p]? = some ip) (hpd : ip.data = .equalTo g) :
    Compress c (setData c x (.equalTo g)) := by
  refine ⟨rfl, by simp [setData], ?_, ?_⟩
  · intro e b
    unfold Owner
    rw [setData_get]
    split
    · next h =>
      subst h
      rw [hx]
      simp [hxd]
    · exact Iff.rfl
  · intro ρ
    unfold ParentSol
    constructor
    · intro h e i q hi hd
      by_cases hxe : x = e
      · subst hxe
        rw [hx] at hi; cases hi
        rw [hxd] at hd; cases hd
        -- ρ x = ρ g from the new link, ρ p = ρ g from p's link (p ≠ x or p = x)
        have h1 : ρ x = ρ g := h x { ix with data := .equalTo g } g (by rw [setData_get, if_pos rfl, hx]; rfl) rfl
        have h2 : ρ p = ρ g := by
          by_cases hxp : x = p
          · subst hxp
            rw [hx] at hp; cases hp
            rw [hxd] at hpd; cases hpd
            rfl
          · exact h p ip g (by rw [setData_get, if_neg hxp]; exact hp) hpd
        rw [h1, h2]
      · exact h e i q (by rw [setData_get, if_neg hxe]; exact hi) hd
    · intro h e i q hi hd
      rw [setData_get] at hi
      split at hi
      · next hxe =>
        subst hxe
        rw [hx] at hi
        simp only [Option.map_some, Option.some.injEq] at hi
        subst hi
        simp only [UbData.equalTo.injEq] at hd
        subst hd
        rw [h x ix p hx hxd, h p ip g hp hpd]
      · exact h e i q hi hd

/-- `root_element`: the result is a root of the (path-halved) context, in the class of `x` -/
theorem rootElement_spec : ∀ (F : Nat) (c : Ctx) (x : Nat) (c' : Ctx) (r : Nat),
    rootElement F c x = .ok (c', r) →
    Compress c c' ∧ (∃ b, Owner c' r b) ∧ (∀ ρ, ParentSol ρ c' → ρ x = ρ r) := by
  intro F
  induction F with
  | zero => intro c x c' r h; simp [rootElement] at h
  | succ F ih =>
    intro c x c' r h
    unfold rootElement at h
    split at h
    · cases h
    · next ix hix =>
      have hix' := getElem_ok.1 hix
      split at h
      · next b hb =>
        cases h
        exact ⟨Compress.refl _, ⟨b, ix, hix', hb⟩, fun _ _ => rfl⟩
      · next p hp =>
        split at h
        · cases h
        · next ip hip =>
          have hip' := getElem_ok.1 hip
          split at h
          · next b hb =>
            cases h
            exact ⟨Compress.refl _, ⟨b, ip, hip', hb⟩, fun ρ hρ => hρ x ix _ hix' hp⟩
          · next g hg =>
            obtain ⟨h1, h2, h3⟩ := ih _ _ _ _ h
            have hc := halve_compress hix' hp hip' hg
            refine ⟨hc.trans h1, h2, fun ρ hρ => ?_⟩
            have hρ1 : ParentSol ρ (setData c x (.equalTo g)) := (h1.par ρ).1 hρ
            have : ρ x = ρ g :=
              hρ1 x { ix with data := .equalTo g } g (by rw [setData_get, if_pos rfl, hix']; rfl) rfl
            rw [this]; exact h3 ρ hρ

theorem rootElement_err {F : Nat} {c : Ctx} {x : Nat} {e : Err} (h : rootElement F c x = .error e) :
    e = .fuel ∨ e = .panic := by
  induction F generalizing c x with
  | zero => simp [rootElement] at h; exact .inl h.symm
  | succ F ih =>
    unfold rootElement at h
    split at h
    · next e' he => cases h; exact .inr (getElem_err he)
    · split at h
      · cases h
      · split at h
        · next e' he => cases h; exact .inr (getElem_err he)
        · split at h
          · cases h
          · exact ih h

/-- `root`/`get_root_ref` -/
theorem rootRef_spec {F : Nat} {c : Ctx} {x : Nat} {c' : Ctx} {b : Nat}
    (h : rootRef F c x = .ok (c', b)) :
    Compress c c' ∧ ∃ r, Owner c' r b ∧ ∀ ρ, ParentSol ρ c' → ρ x = ρ r := by
  unfold rootRef at h
  split at h
  · cases h
  · next c1 r hr =>
    obtain ⟨h1, ⟨b', hb'⟩, h3⟩ := rootElement_spec _ _ _ _ _ hr
    unfold unwrapRoot at h
    split at h
    · cases h
    · next hu =>
      split at hu
      · cases hu
      · next i hi =>
        split at hu
        · next b'' hb'' =>
          cases hu; cases h
          exact ⟨h1, r, ⟨i, getElem_ok.1 hi, hb''⟩, h3⟩
        · cases hu

theorem rootRef_err {F : Nat} {c : Ctx} {x : Nat} {e : Err} (h : rootRef F c x = .error e) :
    e = .fuel ∨ e = .panic := by
  unfold rootRef at h
  split at h
  · next e' he => cases h; exact rootElement_err he
  · unfold unwrapRoot at h
    split at h
    · next hu =>
      cases h
      split at hu
      · next e' he => cases hu; exact .inr (getElem_err he)
      · split at hu
        · cases hu
        · cases hu; exact .inr rfl
    · cases h

end UB
