/-
Spike: C19 — budget and padding arithmetic of `src/analysis.rs`
(`Cost::get_budget / is_budget_valid / get_padding`, `From<Cost> for U32Weight`).
-/
namespace Cost

def U32MAX : Nat := 4294967295
def CONSENSUS_MAX : Nat := 4000050000

/-- Bitcoin compact-size length of `n` (as used by `consensus_encode` of `Vec<Vec<u8>>`) -/
def cs (n : Nat) : Nat :=
  if n ≤ 252 then 1 else if n ≤ 65535 then 3 else if n ≤ 4294967295 then 5 else 9

/-- serialized size of a witness stack given the item lengths -/
def itemsLen : List Nat → Nat
  | [] => 0
  | l :: ls => cs l + l + itemsLen ls

def stackLen (items : List Nat) : Nat := cs items.length + itemsLen items

/-- `U32Weight::from(cost)`: `saturating_add(999) / 1000` -/
def weight (c : Nat) : Nat := (min (c + 999) U32MAX) / 1000

/-- `get_budget`: serialized length (assumed < 2^32, the code `expect`s it) saturating-plus 50 -/
def budget (items : List Nat) : Nat := min (stackLen items + 50) U32MAX

/-- `is_budget_valid`: `cost <= budget.saturating_mul(1000)` -/
def isBudgetValid (c : Nat) (items : List Nat) : Bool := decide (c ≤ min (budget items * 1000) U32MAX)

/-- the five-region table of `get_padding` -/
def paddingLen (deficit : Nat) : Nat :=
  if deficit ≤ 253 then deficit - 2
  else if deficit ≤ 255 then 252
  else if deficit ≤ 65538 then deficit - 4
  else if deficit ≤ 65540 then 65535
  else deficit - 6

/-- `get_padding`: `none` when within budget, else the annex length (0x50 tag + zero bytes) -/
def getPadding (c : Nat) (items : List Nat) : Option Nat :=
  if weight c ≤ budget items then none
  else some (1 + paddingLen (weight c - budget items))

theorem itemsLen_append (a b : List Nat) : itemsLen (a ++ b) = itemsLen a + itemsLen b := by
  induction a with
  | nil => simp [itemsLen]
  | cons x xs ih => simp [itemsLen, ih]; omega

theorem stackLen_snoc (items : List Nat) (l : Nat) :
    stackLen (items ++ [l]) = cs (items.length + 1) + itemsLen items + cs l + l := by
  simp [stackLen, itemsLen_append, itemsLen]; omega

/-- within budget ⇔ weight ≤ serialized size + 50 (for every cost up to the consensus maximum) -/
theorem valid_iff (c : Nat) (items : List Nat) (hc : c ≤ CONSENSUS_MAX)
    (hs : stackLen items + 50 ≤ U32MAX) :
    isBudgetValid c items = true ↔ weight c ≤ stackLen items + 50 := by
  unfold isBudgetValid weight budget CONSENSUS_MAX U32MAX at *
  simp only [decide_eq_true_eq]
  omega

/-- the annex of the table covers the deficit … -/
theorem annex_covers (D : Nat) (h1 : 1 ≤ D) (h2 : D ≤ 4294968) :
    D ≤ cs (1 + paddingLen D) + (1 + paddingLen D) := by
  unfold paddingLen cs
  repeat' (first | omega | split)

/-- … and no shorter non-empty annex does -/
theorem annex_minimal (D : Nat) (h1 : 1 ≤ D) (h2 : D ≤ 4294968) (L' : Nat) (hl1 : 1 ≤ L')
    (hl2 : L' < 1 + paddingLen D) : cs L' + L' < D := by
  unfold paddingLen at hl2
  unfold cs
  split at hl2 <;> (try split at hl2) <;> (try split at hl2) <;> (try split at hl2) <;>
    split <;> (try split) <;> (try split) <;> omega

theorem cs_mono_succ (n : Nat) : cs n ≤ cs (n + 1) := by
  unfold cs; repeat' (first | omega | split)

theorem cs_le (n : Nat) : cs n ≤ 9 := by unfold cs; split <;> (try split) <;> (try split) <;> omega

theorem weight_le (c : Nat) (hc : c ≤ CONSENSUS_MAX) : weight c ≤ 4000050 := by
  unfold weight CONSENSUS_MAX U32MAX at *; omega

/-- the returned annex brings the cost within budget -/
theorem padding_sufficient (c : Nat) (items : List Nat) (hc : c ≤ CONSENSUS_MAX)
    (hs : stackLen items + 50 + 4300000 ≤ U32MAX)
    (L : Nat) (h : getPadding c items = some L) :
    isBudgetValid c (items ++ [L]) = true := by
  unfold getPadding at h
  split at h
  · cases h
  · next hw =>
    cases h
    have hb : budget items = stackLen items + 50 := by unfold budget U32MAX at *; omega
    have hW := weight_le c hc
    generalize hD : weight c - budget items = D at *
    have hD1 : 1 ≤ D := by omega
    have hD2 : D ≤ 4294968 := by omega
    have hcov := annex_covers D hD1 hD2
    have hk := cs_mono_succ items.length
    have hL9 := cs_le (1 + paddingLen D)
    have hk9 := cs_le (items.length + 1)
    have hpl : paddingLen D ≤ D := by unfold paddingLen; split <;> (try split) <;> (try split) <;> (try split) <;> omega
    have hsnoc := stackLen_snoc items (1 + paddingLen D)
    have hst : stackLen items = cs items.length + itemsLen items := rfl
    rw [valid_iff c _ hc (by unfold U32MAX at *; omega)]
    omega

/-- no shorter annex suffices, unless the item count itself crosses a compact-size boundary -/
theorem padding_minimal (c : Nat) (items : List Nat) (hc : c ≤ CONSENSUS_MAX)
    (hs : stackLen items + 50 + 4300000 ≤ U32MAX)
    (hcount : cs (items.length + 1) = cs items.length)
    (L : Nat) (h : getPadding c items = some L) (L' : Nat) (h1 : 1 ≤ L') (h2 : L' < L) :
    isBudgetValid c (items ++ [L']) = false := by
  unfold getPadding at h
  split at h
  · cases h
  · next hw =>
    cases h
    have hb : budget items = stackLen items + 50 := by unfold budget U32MAX at *; omega
    have hW := weight_le c hc
    generalize hD : weight c - budget items = D at *
    have hD1 : 1 ≤ D := by omega
    have hD2 : D ≤ 4294968 := by omega
    have hmin := annex_minimal D hD1 hD2 L' h1 h2
    have hL9 := cs_le L'
    have hpl : paddingLen D ≤ D := by unfold paddingLen; split <;> (try split) <;> (try split) <;> (try split) <;> omega
    have hsnoc := stackLen_snoc items L'
    have hst : stackLen items = cs items.length + itemsLen items := rfl
    have hv := valid_iff c (items ++ [L']) hc (by unfold U32MAX at *; omega)
    cases hvv : isBudgetValid c (items ++ [L']) with
    | false => rfl
    | true => have := hv.1 hvv; omega

theorem weight_mono {a b : Nat} (h : a ≤ b) : weight a ≤ weight b := by
  unfold weight U32MAX
  apply Nat.div_le_div_right
  omega

theorem weight_ceil (c : Nat) (hc : c ≤ CONSENSUS_MAX) :
    weight c * 1000 ≥ c ∧ (weight c - 1) * 1000 < c ∨ c = 0 := by
  unfold weight CONSENSUS_MAX U32MAX at *
  omega

#print axioms valid_iff
#print axioms padding_sufficient
#print axioms padding_minimal
end Cost
