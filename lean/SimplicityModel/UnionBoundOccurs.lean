/-
`Incomplete::occurs_check` on a union-bound context only halves paths, and when it reports a cycle
the context has no (finite) assignment at all: along the depth-first path every bound is a proper
component of the one above it, so a bound met again on its own path would be strictly smaller than
itself.
-/
import SimplicityModel.UnionBoundFinal

namespace UB
open Inf (Ty)

/-- in every assignment of `c` the class holding `b'` has a strictly smaller type than the class
holding `b` (both are held by roots) -/
def Desc (c : Ctx) (b b' : Nat) : Prop :=
  ∃ e e', Owner c e b ∧ Owner c e' b' ∧ ∀ ρ, SuperSol ρ c → (ρ e').size < (ρ e).size

theorem Desc.trans {c : Ctx} (w : WF c) {a b d : Nat} (h : Desc c a b) (h' : Desc c b d) : Desc c a d := by
  obtain ⟨e, e', ho, ho', hs⟩ := h
  obtain ⟨e2, e3, ho2, ho3, hs'⟩ := h'
  have := w.inj _ _ _ ho' ho2
  subst this
  exact ⟨e, e3, ho, ho3, fun ρ s => Nat.lt_trans (hs' ρ s) (hs ρ s)⟩

theorem Desc.irrefl {c : Ctx} (w : WF c) {b : Nat} (h : Desc c b b) (ρ : Nat → Ty) : ¬ SuperSol ρ c := by
  obtain ⟨e, e', ho, ho', hs⟩ := h
  have := w.inj _ _ _ ho ho'
  subst this
  exact fun s => Nat.lt_irrefl _ (hs ρ s)

theorem Desc.of_compress {c₀ c : Ctx} (k : Compress c₀ c) {b b' : Nat} (h : Desc c b b') : Desc c₀ b b' := by
  obtain ⟨e, e', ho, ho', hs⟩ := h
  exact ⟨e, e', (k.owner _ _).1 ho, (k.owner _ _).1 ho', fun ρ s => hs ρ ((k.solG _ ρ).2 s)⟩

theorem desc_of_children {F : Nat} {c : Ctx} {b : Nat} {c' : Ctx} {l r : Nat} (_w : WF c)
    (hown : ∃ e, Owner c e b) (h : dagChildren F c b = .ok (c', some (l, r))) :
    Desc c b l ∧ Desc c b r := by
  obtain ⟨e, ho⟩ := hown
  obtain ⟨k, _, hch⟩ := dagChildren_spec h
  obtain ⟨t1, t2, rl, rr, hsl, hol, hor, hp⟩ := hch l r rfl
  have key : ∀ ρ, SuperSol ρ c → (ρ rl).size < (ρ e).size ∧ (ρ rr).size < (ρ e).size := by
    intro ρ s
    obtain ⟨e1, e2⟩ := hp ρ ((k.par ρ).2 s.1)
    rcases hsl with h0 | h0
    · have : ρ e = .sum (ρ t1) (ρ t2) := s.2 e b _ ho h0
      rw [this, e1, e2]; simp only [Ty.size]; omega
    · have : ρ e = .prod (ρ t1) (ρ t2) := s.2 e b _ ho h0
      rw [this, e1, e2]; simp only [Ty.size]; omega
  exact ⟨⟨e, rl, ho, (k.owner _ _).1 hol, fun ρ s => (key ρ s).1⟩,
         ⟨e, rr, ho, (k.owner _ _).1 hor, fun ρ s => (key ρ s).2⟩⟩

theorem children_owned {F : Nat} {c : Ctx} {b : Nat} {c' : Ctx} {l r : Nat}
    (h : dagChildren F c b = .ok (c', some (l, r))) :
    (∃ e, Owner c e l) ∧ (∃ e, Owner c e r) := by
  obtain ⟨k, _, hch⟩ := dagChildren_spec h
  obtain ⟨t1, t2, rl, rr, _, hol, hor, _⟩ := hch l r rfl
  exact ⟨⟨rl, (k.owner _ _).1 hol⟩, ⟨rr, (k.owner _ _).1 hor⟩⟩

/-- shape of the explicit stack: `path` (innermost first) are the bounds whose `Complete` marker is
on the stack; every item lies directly below the innermost marker under it -/
inductive StackOk (c₀ : Ctx) : List OcItem → List Nat → Prop
  | nil : StackOk c₀ [] []
  | iter {st path b} : StackOk c₀ st path → (∃ e, Owner c₀ e b) →
      (∀ p, path.head? = some p → Desc c₀ p b) → StackOk c₀ (.iterate b :: st) path
  | mark {st path b} : StackOk c₀ st path → (∃ e, Owner c₀ e b) →
      (∀ p, path.head? = some p → Desc c₀ p b) → StackOk c₀ (.complete b :: st) (b :: path)

theorem StackOk.path_desc {c₀ : Ctx} (w : WF c₀) {st : List OcItem} {path : List Nat}
    (h : StackOk c₀ st path) : ∀ p₀, path.head? = some p₀ → ∀ x ∈ path, x = p₀ ∨ Desc c₀ x p₀ := by
  induction h with
  | nil => intro p₀ h; cases h
  | iter _ _ _ ih => exact ih
  | @mark st path b hst _ hd ih =>
    intro p₀ hp x hx
    simp only [List.head?_cons, Option.some.injEq] at hp
    subst hp
    simp only [List.mem_cons] at hx
    rcases hx with rfl | hx
    · exact .inl rfl
    · cases path with
      | nil => cases hx
      | cons p rest =>
        have hpb := hd p rfl
        rcases ih p rfl x hx with rfl | hxp
        · exact .inr hpb
        · exact .inr (hxp.trans w hpb)

def OccGood (c₀ : Ctx) : M Ctx → Prop
  | .ok c' => Compress c₀ c'
  | .error .occurs => ∀ ρ, ¬ SuperSol ρ c₀
  | .error .bind => False
  | .error _ => True

theorem OccGood.of_soft {c₀ : Ctx} {err : Err} (h : err = .fuel ∨ err = .panic) :
    OccGood c₀ (.error err) := by
  rcases h with rfl | rfl <;> trivial

theorem occursLoop_good (F : Nat) {c₀ : Ctx} (w₀ : WF c₀) : ∀ (n : Nat) (c : Ctx) (st : List OcItem)
    (ip done : List Nat) (path : List Nat), Compress c₀ c → StackOk c₀ st path →
    (∀ x, x ∈ ip ↔ x ∈ path) → ip.Nodup → path.Nodup →
    OccGood c₀ (occursLoop F n c st ip done)
  | 0 => by intro c st ip done path _ _ _ _ _; unfold occursLoop; trivial
  | n+1 => by
    intro c st ip done path k hst hip nd1 nd2
    have ih := occursLoop_good F w₀ n
    cases st with
    | nil => unfold occursLoop; exact k
    | cons it st =>
      cases it with
      | complete id =>
        unfold occursLoop
        cases hst with
        | @mark _ path' _ hst' _ _ =>
          refine ih _ _ _ _ path' k hst' (fun x => ?_) (nd1.erase _) (List.nodup_cons.1 nd2).2
          rw [nd1.mem_erase_iff, hip x, List.mem_cons]
          constructor
          · rintro ⟨h1, h2 | h2⟩
            · exact absurd h2 h1
            · exact h2
          · intro h
            refine ⟨?_, .inr h⟩
            rintro rfl
            exact (List.nodup_cons.1 nd2).1 h
      | iterate b =>
        unfold occursLoop
        cases hst with
        | iter hst' hown hd =>
          split
          · exact ih _ _ _ _ path k hst' hip nd1 nd2
          · split
            · next hin =>
              -- a bound met again on its own path
              have hb : b ∈ path := (hip b).1 (by simpa using hin)
              cases hpath : path with
              | nil => rw [hpath] at hb; cases hb
              | cons p₀ rest =>
                have hp₀ : path.head? = some p₀ := by rw [hpath]; rfl
                have h1 := hd p₀ hp₀
                have hbb : Desc c₀ b b := by
                  rcases hst'.path_desc w₀ p₀ hp₀ b hb with rfl | h2
                  · exact h1
                  · exact h2.trans w₀ h1
                exact hbb.irrefl w₀
            · next hnin =>
              have hnb : b ∉ ip := by simpa using hnin
              have hown_c : ∀ {c1}, Compress c₀ c1 → ∃ e, Owner c1 e b := fun k1 => by
                obtain ⟨e, he⟩ := hown; exact ⟨e, (k1.owner _ _).2 he⟩
              split
              · next err he => exact OccGood.of_soft (dagChildren_err he)
              · next c1 chR h1 =>
                obtain ⟨k1, _, _⟩ := dagChildren_spec h1
                split
                · next err he => exact OccGood.of_soft (dagChildren_err he)
                · next c2 chL h2 =>
                  obtain ⟨k2, _, _⟩ := dagChildren_spec h2
                  have k01 := k.trans k1
                  have hmark : StackOk c₀ (.complete b :: st) (b :: path) := .mark hst' hown hd
                  have hR : StackOk c₀ (pushChild Prod.snd chR (.complete b :: st)) (b :: path) := by
                    cases chR with
                    | none => exact hmark
                    | some lr =>
                      obtain ⟨l, r⟩ := lr
                      have hdesc := (desc_of_children (k.wf w₀) (hown_c k) h1).2.of_compress k
                      obtain ⟨e, he⟩ := (children_owned h1).2
                      exact .iter hmark ⟨e, (k.owner _ _).1 he⟩ (fun p hp => by cases hp; exact hdesc)
                  have hL : StackOk c₀ (pushChild Prod.fst chL (pushChild Prod.snd chR (.complete b :: st)))
                      (b :: path) := by
                    cases chL with
                    | none => exact hR
                    | some lr =>
                      obtain ⟨l, r⟩ := lr
                      have hdesc := (desc_of_children (k01.wf w₀) (hown_c k01) h2).1.of_compress k01
                      obtain ⟨e, he⟩ := (children_owned h2).1
                      exact .iter hR ⟨e, (k01.owner _ _).1 he⟩ (fun p hp => by cases hp; exact hdesc)
                  refine ih _ _ _ _ (b :: path) (k01.trans k2) hL (fun x => ?_)
                    (List.nodup_cons.2 ⟨hnb, nd1⟩) (List.nodup_cons.2 ⟨fun h => hnb ((hip b).2 h), nd2⟩)
                  simp only [List.mem_cons, hip x]

/-- `Incomplete::occurs_check` -/
theorem occursCheck_good (F : Nat) {c : Ctx} (w : WF c) {b : Nat} (hown : ∃ e, Owner c e b) :
    OccGood c (occursCheck F c b) := by
  unfold occursCheck
  exact occursLoop_good F w F c _ [] [] [] (Compress.refl c)
    (.iter .nil hown (fun p hp => by cases hp)) (fun x => Iff.rfl) List.nodup_nil List.nodup_nil

/-! ### `Type::finalize` -/

/-- what a successful `finalize` of the type `x` achieves -/
structure TFin (c : Ctx) (x : Nat) (c' : Ctx) (t : Ty) : Prop where
  fin : FinStep c c'
  wf : WF c'
  val : CompleteAt c' x t
  sup : ∀ ρ, SuperSol ρ c → SuperSol ρ c' ∧ Inf.Le t (ρ x)
  kinv : ∀ c₀, KInv c₀ c → KInv c₀ c'

def TFinGood (c : Ctx) (x : Nat) : M (Ctx × Ty) → Prop
  | .ok (c', t) => TFin c x c' t
  | .error .occurs => ∀ ρ, ¬ SuperSol ρ c
  | .error .bind => False
  | .error _ => True

theorem TFinGood.of_soft {c : Ctx} {x : Nat} {err : Err} (h : err = .fuel ∨ err = .panic) :
    TFinGood c x (.error err) := by
  rcases h with rfl | rfl <;> trivial

theorem typeFinalize_good (F : Nat) {c : Ctx} (w : WF c) (x : Nat) :
    TFinGood c x (typeFinalize F c x) := by
  unfold typeFinalize
  split
  · next err he => exact TFinGood.of_soft (rootRef_err he)
  · next c1 root h1 =>
    obtain ⟨k1, r, ho, hp⟩ := rootRef_spec h1
    have w1 := k1.wf w
    split
    · next err he => exact TFinGood.of_soft (.inr (getBound_err he))
    · next d hb =>
      have hb' := getBound_ok.1 hb
      exact ⟨k1.fin, w1, ⟨r, root, ho, hb', hp⟩,
        fun ρ s => by
          have s1 : SuperSol ρ c1 := (k1.solG _ ρ).2 s
          refine ⟨s1, ?_⟩
          rw [hp ρ s1.1]; exact s1.2 r root _ ho hb',
        fun c₀ k => k.compress k1⟩
    · have g := occursCheck_good F w1 ⟨r, ho⟩
      generalize occursCheck F c1 root = res at g
      match res, g with
      | .error .occurs, g => exact fun ρ s => g ρ ((k1.solG _ ρ).2 s)
      | .error .bind, g => exact g
      | .error .fuel, _ => trivial
      | .error .panic, _ => trivial
      | .ok c2, k2 =>
        dsimp only
        have k2' : Compress c1 c2 := k2
        have w2 := k2'.wf w1
        have ho2 : Owner c2 r root := (k2'.owner _ _).2 ho
        cases hf : finalizeRec F F c2 root with
        | error err => exact TFinGood.of_soft (finalizeRec_err F F _ _ _ hf)
        | ok res =>
          obtain ⟨c3, t⟩ := res
          have R := finalizeRec_spec F F _ _ _ _ hf w2 r ho2
          have k02 := k1.trans k2'
          exact ⟨k02.fin.trans R.fin, R.wf,
            ⟨r, root, R.fin.owner _ _ ho2, R.stored,
              fun ρ hρ => hp ρ ((k2'.par ρ).1 (R.fin.mono.par ρ hρ))⟩,
            fun ρ s => by
              have s2 : SuperSol ρ c2 := (k02.solG _ ρ).2 s
              obtain ⟨s3, le⟩ := R.sup ρ s2
              refine ⟨s3, ?_⟩
              rw [hp ρ ((k2'.par ρ).1 s2.1)]; exact le,
            fun c₀ k => R.kinv c₀ (k.compress k02)⟩

end UB
