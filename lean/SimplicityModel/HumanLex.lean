/-
C17 — the lexer of the human-readable encoding (`src/human_encoding/parse/ast.rs`, `enum Token`,
`lex_all`), as a maximal-munch function on character lists, and the spellings of the tokens.

Every token keeps the raw text the `logos` lexer keeps (`lex.slice()`); numbers are decoded by the
parser.  Longest match with `logos` priorities: literal tokens win over the `Symbol` regex at equal
length (`priority = 1`), `jet_[a-z0-9_]+` wins over `Symbol` at equal length, a line comment
`--[^\n]*` at a token start always wins over a symbol starting with `--`.
-/
namespace HT

/-! ### character classes -/

def isWs (c : Char) : Bool := c == ' ' || c == '\t' || c == '\r' || c == '\n'
def isDigit (c : Char) : Bool := '0' ≤ c && c ≤ '9'
def isLower (c : Char) : Bool := 'a' ≤ c && c ≤ 'z'
def isUpper (c : Char) : Bool := 'A' ≤ c && c ≤ 'Z'
/-- `[a-zA-Z_\-.']` -/
def isSymStart (c : Char) : Bool := isLower c || isUpper c || c == '_' || c == '-' || c == '.' || c == '\''
/-- `[0-9a-zA-Z_\-.']` -/
def isSymChar (c : Char) : Bool := isSymStart c || isDigit c
/-- `[0-9a-f]` -/
def isHexLower (c : Char) : Bool := isDigit c || ('a' ≤ c && c ≤ 'f')
/-- `[a-fA-F0-9]` -/
def isHexAny (c : Char) : Bool := isHexLower c || ('A' ≤ c && c ≤ 'F')
/-- `[a-z0-9_]` -/
def isJetChar (c : Char) : Bool := isLower c || isDigit c || c == '_'
def isBinChar (c : Char) : Bool := c == '0' || c == '1'
def isPosDigit (c : Char) : Bool := '1' ≤ c && c ≤ '9'

/-! ### tokens -/

inductive Kw
  | const | assertl | assertr | fail | disconnect | case | comp | pair | injl | injr | take | drop
  | unit | iden | witness
deriving DecidableEq, Repr, Inhabited

def Kw.text : Kw → List Char
  | .const => ['c', 'o', 'n', 's', 't']
  | .assertl => ['a', 's', 's', 'e', 'r', 't', 'l']
  | .assertr => ['a', 's', 's', 'e', 'r', 't', 'r']
  | .fail => ['f', 'a', 'i', 'l']
  | .disconnect => ['d', 'i', 's', 'c', 'o', 'n', 'n', 'e', 'c', 't']
  | .case => ['c', 'a', 's', 'e']
  | .comp => ['c', 'o', 'm', 'p']
  | .pair => ['p', 'a', 'i', 'r']
  | .injl => ['i', 'n', 'j', 'l']
  | .injr => ['i', 'n', 'j', 'r']
  | .take => ['t', 'a', 'k', 'e']
  | .drop => ['d', 'r', 'o', 'p']
  | .unit => ['u', 'n', 'i', 't']
  | .iden => ['i', 'd', 'e', 'n']
  | .witness => ['w', 'i', 't', 'n', 'e', 's', 's']

def Kw.all : List Kw :=
  [.const, .assertl, .assertr, .fail, .disconnect, .case, .comp, .pair, .injl, .injr, .take, .drop,
   .unit, .iden, .witness]

/-- the keyword spelled `s`, if any -/
def kwOf (s : List Char) : Option Kw := Kw.all.find? fun k => k.text == s

inductive Tok
  | assign | arrow | hashBrace | lparen | rparen | plus | star | colon | rbrace | question
  | kw (k : Kw)
  /-- `jet_<name>`: the characters after `jet_` -/
  | jet (name : List Char)
  | underscore
  /-- `0b<digits>` -/
  | bin (digits : List Char)
  /-- `0x<digits>` -/
  | hex (digits : List Char)
  /-- `#<64 hex digits>` -/
  | cmr (digits : List Char)
  | one | two
  /-- `2^<decimal digits>` -/
  | twoExp (digits : List Char)
  | sym (s : List Char)
deriving DecidableEq, Repr, Inhabited

def Tok.text : Tok → List Char
  | .assign => [':', '='] | .arrow => ['-', '>'] | .hashBrace => ['#', '{']
  | .lparen => ['('] | .rparen => [')'] | .plus => ['+'] | .star => ['*'] | .colon => [':']
  | .rbrace => ['}'] | .question => ['?']
  | .kw k => k.text
  | .jet n => 'j' :: 'e' :: 't' :: '_' :: n
  | .underscore => ['_']
  | .bin d => '0' :: 'b' :: d
  | .hex d => '0' :: 'x' :: d
  | .cmr d => '#' :: d
  | .one => ['1'] | .two => ['2']
  | .twoExp d => '2' :: '^' :: d
  | .sym s => s

/-! ### the lexer -/

/-- skip whitespace and line comments (`inComment` = inside `--…` up to the next newline) -/
def skipAux : Bool → List Char → List Char
  | _, [] => []
  | true, c :: r => if c == '\n' then skipAux false r else skipAux true r
  | false, c :: r =>
    if isWs c then skipAux false r
    else if c == '-' then
      match r with
      | d :: r' => if d == '-' then skipAux true r' else c :: r
      | [] => c :: r
    else c :: r

def skip (cs : List Char) : List Char := skipAux false cs

/-- the token that a maximal run `s` of symbol characters is: `_`, keyword, jet name or symbol -/
def classify (s : List Char) : Tok :=
  if s == ['_'] then .underscore else
  match kwOf s with
  | some k => .kw k
  | none =>
    match s with
    | 'j' :: 'e' :: 't' :: '_' :: n => if !n.isEmpty && n.all isJetChar then .jet n else .sym s
    | _ => .sym s

/-- a maximal run of symbol characters starting at a symbol-start character -/
def lexWord (cs : List Char) : Tok × List Char :=
  (classify (cs.takeWhile isSymChar), cs.dropWhile isSymChar)

/-- after `-`: `->`, or a symbol that starts with `-` -/
def lexDash (r : List Char) : Tok × List Char :=
  match r with
  | d :: r' => if d == '>' then (.arrow, r') else lexWord ('-' :: r)
  | [] => lexWord ('-' :: r)

/-- after `:` -/
def lexColon (r : List Char) : Tok × List Char :=
  match r with
  | d :: r' => if d == '=' then (.assign, r') else (.colon, r)
  | [] => (.colon, r)

/-- after `#`: `#{` or `#` and exactly 64 hexadecimal digits -/
def lexHash (r : List Char) : Option (Tok × List Char) :=
  match r with
  | d :: r' =>
    if d == '{' then some (.hashBrace, r')
    else
      let ds := r.take 64
      if ds.length == 64 && ds.all isHexAny then some (.cmr ds, r.drop 64) else none
  | [] => none

/-- after `0`: `0b[01]+` or `0x[0-9a-f]+` -/
def lexZero (r : List Char) : Option (Tok × List Char) :=
  match r with
  | d :: r' =>
    if d == 'b' then
      let ds := r'.takeWhile isBinChar
      if ds.isEmpty then none else some (.bin ds, r'.dropWhile isBinChar)
    else if d == 'x' then
      let ds := r'.takeWhile isHexLower
      if ds.isEmpty then none else some (.hex ds, r'.dropWhile isHexLower)
    else none
  | [] => none

/-- after `2`: `2^[1-9][0-9]*` or `2` -/
def lexTwo (r : List Char) : Tok × List Char :=
  match r with
  | d :: e :: r' =>
    if d == '^' && isPosDigit e then (.twoExp (e :: r'.takeWhile isDigit), r'.dropWhile isDigit)
    else (.two, r)
  | _ => (.two, r)

/-- the one-character tokens that no longer token starts with -/
def lexPunct (c : Char) : Option Tok :=
  if c == '(' then some .lparen
  else if c == ')' then some .rparen
  else if c == '+' then some .plus
  else if c == '*' then some .star
  else if c == '}' then some .rbrace
  else if c == '?' then some .question
  else if c == '1' then some .one
  else none

/-- one token at a position that is neither whitespace nor the start of a comment -/
def lexOne : List Char → Option (Tok × List Char)
  | [] => none
  | c :: r =>
    if isSymStart c then
      if c == '-' then some (lexDash r) else some (lexWord (c :: r))
    else if c == ':' then some (lexColon r)
    else if c == '#' then lexHash r
    else if c == '0' then lexZero r
    else if c == '2' then some (lexTwo r)
    else (lexPunct c).map fun t => (t, r)

/-- `lex_all`: `none` = `LexFailed` -/
def lexF : Nat → List Char → Option (List Tok)
  | 0, _ => none
  | f + 1, cs =>
    match skip cs with
    | [] => some []
    | cs' =>
      match lexOne cs' with
      | none => none
      | some (t, rest) => (lexF f rest).map (t :: ·)

def lex (cs : List Char) : Option (List Tok) := lexF (cs.length + 1) cs

end HT
