/-
C17 — the lexer of the human-readable encoding (`src/human_encoding/parse/ast.rs`, `enum Token`,
`lex_all`), as a maximal-munch function on character lists, and the spellings of the tokens.

Every token keeps the raw text the `logos` lexer keeps (`lex.slice()`); numbers are decoded by the
parser.  Longest match with `logos` priorities: literal tokens win over the `Symbol` regex at equal
length (`priority = 1`), `jet_[a-z0-9_]+` wins over `Symbol` at equal length, a line comment
`--[^\n]*` at a token start always wins over a symbol starting with `--`.
-/
namespace HT

/-! ### character classes -/

def isWs (c : Char) : Bool := c == ' ' || c == '\t' || c == '\r' || c == '\n'
def isDigit (c : Char) : Bool := '0' ≤ c && c ≤ '9'
def isLower (c : Char) : Bool := 'a' ≤ c && c ≤ 'z'
def isUpper (c : Char) : Bool := 'A' ≤ c && c ≤ 'Z'
/-- `[a-zA-Z_\-.']` -/
def isSymStart (c : Char) : Bool := isLower c || isUpper c || c == '_' || c == '-' || c == '.' || c == '\''
/-- `[0-9a-zA-Z_\-.']` -/
def isSymChar (c : Char) : Bool := isSymStart c || isDigit c
/-- `[0-9a-f]` -/
def isHexLower (c : Char) : Bool := isDigit c || ('a' ≤ c && c ≤ 'f')
/-- `[a-fA-F0-9]` -/
def isHexAny (c : Char) : Bool := isHexLower c || ('A' ≤ c && c ≤ 'F')
/-- `[a-z0-9_]` -/
def isJetChar (c : Char) : Bool := isLower c || isDigit c || c == '_'
def isBinChar (c : Char) : Bool := c == '0' || c == '1'
def isPosDigit (c : Char) : Bool := '1' ≤ c && c ≤ '9'

/-! ### tokens -/

inductive Kw
  | const | assertl | assertr | fail | disconnect | case | comp | pair | injl | injr | take | drop
  | unit | iden | witness
deriving DecidableEq, Repr, Inhabited

def Kw.text : Kw → List Char
  | .const => "const".toList | .assertl => "assertl".toList | .assertr => "assertr".toList
  | .fail => "fail".toList | .disconnect => "disconnect".toList | .case => "case".toList
  | .comp => "comp".toList | .pair => "pair".toList | .injl => "injl".toList
  | .injr => "injr".toList | .take => "take".toList | .drop => "drop".toList
  | .unit => "unit".toList | .iden => "iden".toList | .witness => "witness".toList

def Kw.all : List Kw :=
  [.const, .assertl, .assertr, .fail, .disconnect, .case, .comp, .pair, .injl, .injr, .take, .drop,
   .unit, .iden, .witness]

/-- the keyword spelled `s`, if any -/
def kwOf (s : List Char) : Option Kw := Kw.all.find? fun k => k.text == s

inductive Tok
  | assign | arrow | hashBrace | lparen | rparen | plus | star | colon | rbrace | question
  | kw (k : Kw)
  /-- `jet_<name>`: the characters after `jet_` -/
  | jet (name : List Char)
  | underscore
  /-- `0b<digits>` -/
  | bin (digits : List Char)
  /-- `0x<digits>` -/
  | hex (digits : List Char)
  /-- `#<64 hex digits>` -/
  | cmr (digits : List Char)
  | one | two
  /-- `2^<decimal digits>` -/
  | twoExp (digits : List Char)
  | sym (s : List Char)
deriving DecidableEq, Repr, Inhabited

def Tok.text : Tok → List Char
  | .assign => [':', '='] | .arrow => ['-', '>'] | .hashBrace => ['#', '{']
  | .lparen => ['('] | .rparen => [')'] | .plus => ['+'] | .star => ['*'] | .colon => [':']
  | .rbrace => ['}'] | .question => ['?']
  | .kw k => k.text
  | .jet n => 'j' :: 'e' :: 't' :: '_' :: n
  | .underscore => ['_']
  | .bin d => '0' :: 'b' :: d
  | .hex d => '0' :: 'x' :: d
  | .cmr d => '#' :: d
  | .one => ['1'] | .two => ['2']
  | .twoExp d => '2' :: '^' :: d
  | .sym s => s

/-! ### the lexer -/

/-- skip whitespace and line comments (`inComment` = inside `--…` up to the next newline) -/
def skipAux : Bool → List Char → List Char
  | _, [] => []
  | true, c :: r => if c == '\n' then skipAux false r else skipAux true r
  | false, c :: r =>
    if isWs c then skipAux false r
    else if c == '-' then
      match r with
      | d :: r' => if d == '-' then skipAux true r' else c :: r
      | [] => c :: r
    else c :: r

def skip (cs : List Char) : List Char := skipAux false cs

/-- a maximal run of symbol characters starting at a symbol-start character: keyword, `_`,
jet name or symbol -/
def lexWord (cs : List Char) : Tok × List Char :=
  let s := cs.takeWhile isSymChar
  let rest := cs.dropWhile isSymChar
  if s == ['_'] then (.underscore, rest) else
  match kwOf s with
  | some k => (.kw k, rest)
  | none =>
    match s with
    | 'j' :: 'e' :: 't' :: '_' :: n =>
      if !n.isEmpty && n.all isJetChar then (.jet n, rest) else (.sym s, rest)
    | _ => (.sym s, rest)

/-- one token at a position that is neither whitespace nor the start of a comment -/
def lexOne : List Char → Option (Tok × List Char)
  | [] => none
  | c :: r =>
    if isSymStart c then
      if c == '-' then
        match r with
        | d :: r' => if d == '>' then some (.arrow, r') else some (lexWord (c :: r))
        | [] => some (lexWord (c :: r))
      else some (lexWord (c :: r))
    else if c == ':' then
      match r with
      | d :: r' => if d == '=' then some (.assign, r') else some (.colon, r)
      | [] => some (.colon, r)
    else if c == '#' then
      match r with
      | d :: r' =>
        if d == '{' then some (.hashBrace, r')
        else
          let ds := r.take 64
          if ds.length == 64 && ds.all isHexAny then some (.cmr ds, r.drop 64) else none
      | [] => none
    else if c == '(' then some (.lparen, r)
    else if c == ')' then some (.rparen, r)
    else if c == '+' then some (.plus, r)
    else if c == '*' then some (.star, r)
    else if c == '}' then some (.rbrace, r)
    else if c == '?' then some (.question, r)
    else if c == '1' then some (.one, r)
    else if c == '0' then
      match r with
      | d :: r' =>
        if d == 'b' then
          let ds := r'.takeWhile isBinChar
          if ds.isEmpty then none else some (.bin ds, r'.dropWhile isBinChar)
        else if d == 'x' then
          let ds := r'.takeWhile isHexLower
          if ds.isEmpty then none else some (.hex ds, r'.dropWhile isHexLower)
        else none
      | [] => none
    else if c == '2' then
      match r with
      | d :: e :: r' =>
        if d == '^' && isPosDigit e then
          some (.twoExp (e :: r'.takeWhile isDigit), r'.dropWhile isDigit)
        else some (.two, r)
      | _ => some (.two, r)
    else none

/-- `lex_all`: `none` = `LexFailed` -/
def lexF : Nat → List Char → Option (List Tok)
  | 0, _ => none
  | f + 1, cs =>
    match skip cs with
    | [] => some []
    | cs' =>
      match lexOne cs' with
      | none => none
      | some (t, rest) => (lexF f rest).map (t :: ·)

def lex (cs : List Char) : Option (List Tok) := lexF (cs.length + 1) cs

end HT
