/-
C17 — the statement list that `Forest::string_serialize` emits, and a parser for exactly that
grammar (the flat fragment of `parse_line` / `parse_expr`: every child is a name).

  statement  ::=  NAME ":=" expr ":" type "->" type
  expr       ::=  iden | unit | witness | injl N | injr N | take N | drop N
               |  comp N N | case N N | pair N N
               |  assertl N #<64 hex> | assertr #<64 hex> N | disconnect N ?HOLE
               |  fail <entropy> | jet_<name> | const 0x<hex> | const 0b<bits>

Payloads are kept in their spelled granularity (hex digits as numbers below 16, bits), so that the
spellings are functions whose inverses are the parser's decoders.
-/
import SimplicityModel.HumanTy

namespace HT
open BM4 (Ty)

abbrev Name := List Char

/-! ### spellings -/

def hexChar (n : Nat) : Char := if n < 10 then Char.ofNat (48 + n) else Char.ofNat (87 + n)

/-- value of a hexadecimal digit (`[0-9a-fA-F]`) -/
def hexVal (c : Char) : Nat :=
  if isDigit c then c.toNat - 48 else if 'a' ≤ c && c ≤ 'f' then c.toNat - 87 else c.toNat - 55

def hexText (ns : List Nat) : List Char := ns.map hexChar
def hexVals (cs : List Char) : List Nat := cs.map hexVal

def bitChar (b : Bool) : Char := if b then '1' else '0'
def bitsText (bs : List Bool) : List Char := bs.map bitChar
def bitVals (cs : List Char) : List Bool := cs.map (· == '1')

/-- four bits, most significant first -/
def bitsOfNibble (n : Nat) : List Bool := [n / 8 % 2 == 1, n / 4 % 2 == 1, n / 2 % 2 == 1, n % 2 == 1]
def bitsOfNibbles (ns : List Nat) : List Bool := ns.flatMap bitsOfNibble

def b2n (b : Bool) : Nat := if b then 1 else 0

/-- groups of four bits (a short last group is padded with zero bits, as `parse_literal` pads) -/
def nibblesOfBits : List Bool → List Nat
  | [] => []
  | [a] => [8 * b2n a]
  | [a, b] => [8 * b2n a + 4 * b2n b]
  | [a, b, c] => [8 * b2n a + 4 * b2n b + 2 * b2n c]
  | a :: b :: c :: d :: r => (8 * b2n a + 4 * b2n b + 2 * b2n c + b2n d) :: nibblesOfBits r

/-! ### expressions and statements of the rendered grammar -/

inductive Expr
  | iden | unit | witness
  | injl (c : Name) | injr (c : Name) | take (c : Name) | drop (c : Name)
  | comp (a b : Name) | case (a b : Name) | pair (a b : Name)
  /-- hidden right branch: 64 hex digits of its root -/
  | assertl (a : Name) (h : List Nat)
  | assertr (h : List Nat) (b : Name)
  | disconnect (a : Name) (hole : Name)
  /-- 128 hex digits of entropy -/
  | fail (e : List Nat)
  | jet (name : List Char)
  /-- 2^n bits -/
  | word (n : Nat) (bits : List Bool)
deriving DecidableEq, Repr, Inhabited

structure Stmt where
  name : Name
  expr : Expr
  src : Ty
  tgt : Ty
deriving DecidableEq, Repr

/-- what `string_serialize` puts between `fail` and the entropy digits -/
def failPrefix : List Char := ['0', 'x']

/-- `Display for Word`: hexadecimal when the bits fill whole bytes, binary otherwise -/
def wordChars (n : Nat) (bits : List Bool) : List Char :=
  if 3 ≤ n then '0' :: 'x' :: hexText (nibblesOfBits bits) else '0' :: 'b' :: bitsText bits

def wordTok (n : Nat) (bits : List Bool) : Tok :=
  if 3 ≤ n then .hex (hexText (nibblesOfBits bits)) else .bin (bitsText bits)

/-- the expression part of a rendered line (after `name := `) -/
def exprChars : Expr → List Char
  | .iden => Kw.iden.text | .unit => Kw.unit.text | .witness => Kw.witness.text
  | .injl c => Kw.injl.text ++ ' ' :: c | .injr c => Kw.injr.text ++ ' ' :: c
  | .take c => Kw.take.text ++ ' ' :: c | .drop c => Kw.drop.text ++ ' ' :: c
  | .comp a b => Kw.comp.text ++ ' ' :: (a ++ ' ' :: b)
  | .case a b => Kw.case.text ++ ' ' :: (a ++ ' ' :: b)
  | .pair a b => Kw.pair.text ++ ' ' :: (a ++ ' ' :: b)
  | .assertl a h => Kw.assertl.text ++ ' ' :: (a ++ ' ' :: '#' :: hexText h)
  | .assertr h b => Kw.assertr.text ++ ' ' :: ('#' :: hexText h ++ ' ' :: b)
  | .disconnect a hole => Kw.disconnect.text ++ ' ' :: (a ++ ' ' :: '?' :: hole)
  | .fail e => Kw.fail.text ++ ' ' :: (failPrefix ++ hexText e)
  | .jet n => 'j' :: 'e' :: 't' :: '_' :: n
  | .word n bits => Kw.const.text ++ ' ' :: wordChars n bits

/-- one rendered line without padding: `name := expr : A -> B` -/
def stmtChars (s : Stmt) : List Char :=
  s.name ++ ' ' :: ':' :: '=' :: ' ' :: (exprChars s.expr ++ ' ' :: ':' :: ' ' :: (tyChars true s.src ++
    ' ' :: '-' :: '>' :: ' ' :: tyChars true s.tgt))

/-- the rendered statements, one per line -/
def textChars : List Stmt → List Char
  | [] => []
  | s :: ss => stmtChars s ++ '\n' :: textChars ss

/-- tokens of the expression part -/
def exprToks : Expr → List Tok
  | .iden => [.kw .iden] | .unit => [.kw .unit] | .witness => [.kw .witness]
  | .injl c => [.kw .injl, .sym c] | .injr c => [.kw .injr, .sym c]
  | .take c => [.kw .take, .sym c] | .drop c => [.kw .drop, .sym c]
  | .comp a b => [.kw .comp, .sym a, .sym b]
  | .case a b => [.kw .case, .sym a, .sym b]
  | .pair a b => [.kw .pair, .sym a, .sym b]
  | .assertl a h => [.kw .assertl, .sym a, .cmr (hexText h)]
  | .assertr h b => [.kw .assertr, .cmr (hexText h), .sym b]
  | .disconnect a hole => [.kw .disconnect, .sym a, .question, .sym hole]
  | .fail e => [.kw .fail, .hex (hexText e)]
  | .jet n => [.jet n]
  | .word n bits => [.kw .const, wordTok n bits]

def stmtToks (s : Stmt) : List Tok :=
  .sym s.name :: .assign :: exprToks s.expr ++ .colon :: tyToks true s.src ++ .arrow :: tyToks true s.tgt

def textToks : List Stmt → List Tok
  | [] => []
  | s :: ss => stmtToks s ++ textToks ss

/-! ### parser (tokens → statements) -/

/-- bits and bit length of a literal token (`parse_literal`) -/
def literalBits : Tok → Option (List Bool)
  | .underscore => some []
  | .bin ds => some (bitVals ds)
  | .hex ds => some (bitsOfNibbles (hexVals ds))
  | _ => none

def isPow2 (n : Nat) : Bool := n != 0 && 2 ^ Nat.log2 n == n

/-- `const <literal>`: the bit length is a power of two, at most 2^31 -/
def wordOfLiteral (t : Tok) : Option Expr :=
  match literalBits t with
  | some bits => if isPow2 bits.length && bits.length ≤ 2 ^ 31 then some (.word (Nat.log2 bits.length) bits) else none
  | none => none

/-- `fail <literal>`: 128 to 512 bits, zero padded to 64 bytes -/
def failOfLiteral (t : Tok) : Option Expr :=
  match literalBits t with
  | some bits =>
    if 128 ≤ bits.length && bits.length ≤ 512 then
      some (.fail (nibblesOfBits (bits ++ List.replicate (512 - bits.length) false)))
    else none
  | none => none

/-- `parse_expr` restricted to expressions whose children are names; `isJet` = `J::parse` succeeds -/
def parseExpr (isJet : List Char → Bool) : List Tok → Option (Expr × List Tok)
  | .kw .iden :: ts => some (.iden, ts)
  | .kw .unit :: ts => some (.unit, ts)
  | .kw .witness :: ts => some (.witness, ts)
  | .kw .injl :: .sym c :: ts => some (.injl c, ts)
  | .kw .injr :: .sym c :: ts => some (.injr c, ts)
  | .kw .take :: .sym c :: ts => some (.take c, ts)
  | .kw .drop :: .sym c :: ts => some (.drop c, ts)
  | .kw .comp :: .sym a :: .sym b :: ts => some (.comp a b, ts)
  | .kw .case :: .sym a :: .sym b :: ts => some (.case a b, ts)
  | .kw .pair :: .sym a :: .sym b :: ts => some (.pair a b, ts)
  | .kw .assertl :: .sym a :: .cmr ds :: ts => some (.assertl a (hexVals ds), ts)
  | .kw .assertr :: .cmr ds :: .sym b :: ts => some (.assertr (hexVals ds) b, ts)
  | .kw .disconnect :: .sym a :: .question :: .sym h :: ts => some (.disconnect a h, ts)
  | .kw .fail :: t :: ts => (failOfLiteral t).map (·, ts)
  | .kw .const :: t :: ts => (wordOfLiteral t).map (·, ts)
  | .jet n :: ts => if isJet n then some (.jet n, ts) else none
  | _ => none

/-- `parse_line` for `NAME := expr : type -> type` -/
def parseStmt (isJet : List Char → Bool) : List Tok → Option (Stmt × List Tok)
  | .sym name :: .assign :: ts =>
    match parseExpr isJet ts with
    | some (e, .colon :: ts1) =>
      match parseType ts1 with
      | some (a, .arrow :: ts2) =>
        match parseType ts2 with
        | some (b, ts3) => some (⟨name, e, a, b⟩, ts3)
        | none => none
      | _ => none
    | _ => none
  | _ => none

/-- `parse_line_vector` -/
def parseStmts (isJet : List Char → Bool) : Nat → List Tok → Option (List Stmt)
  | 0, _ => none
  | _, [] => some []
  | f + 1, ts =>
    match parseStmt isJet ts with
    | some (s, rest) => (parseStmts isJet f rest).map (s :: ·)
    | none => none

/-- lexer + parser on a text of the rendered grammar -/
def parseRendered (isJet : List Char → Bool) (cs : List Char) : Option (List Stmt) :=
  match lex cs with
  | some ts => parseStmts isJet (ts.length + 1) ts
  | none => none

end HT
