/-
Termination of `bind`/`unify`: every nested `unify` that reaches the bind closure has removed a
root, and the recursion against a complete type descends into that type; completing a bound eagerly
makes complete types taller by one but uses up an incomplete slab entry.  Explicit bound on the
recursion depth: `#roots + (max complete height + #incomplete entries) + 2`.
-/
import SimplicityModel.UnionBoundRank
import SimplicityModel.UnionBoundBind

namespace UB
open Inf (Ty)

def Ty.height : Ty → Nat
  | .one => 0
  | .sum a b => 1 + max (Ty.height a) (Ty.height b)
  | .prod a b => 1 + max (Ty.height a) (Ty.height b)

/-- depth of the recursion a bound can cause when it is pushed into an incomplete type -/
def Bound.cheight : Bound → Nat
  | .complete d => Ty.height d + 1
  | _ => 0

def isNCAt (c : Ctx) (b : Nat) : Bool :=
  match c.slab[b]? with
  | some (.complete _) => false
  | some _ => true
  | none => false

/-- number of incomplete slab entries among `0 … n-1` -/
def ncBelow (c : Ctx) : Nat → Nat
  | 0 => 0
  | n+1 => ncBelow c n + (if isNCAt c n then 1 else 0)

def ncount (c : Ctx) : Nat := ncBelow c c.slab.size

theorem ncBelow_congr {c c' : Ctx} : ∀ n, (∀ e, e < n → isNCAt c' e = isNCAt c e) →
    ncBelow c' n = ncBelow c n
  | 0, _ => rfl
  | n+1, h => by
    simp only [ncBelow, h n (Nat.lt_succ_self n),
      ncBelow_congr n (fun e he => h e (Nat.lt_succ_of_lt he))]

theorem ncBelow_complete {c c' : Ctx} {Y : Nat} (hY : isNCAt c Y = true) (hY' : isNCAt c' Y = false)
    (hoth : ∀ e, e ≠ Y → isNCAt c' e = isNCAt c e) :
    ∀ n, Y < n → ncBelow c' n + 1 = ncBelow c n
  | 0, h => absurd h (Nat.not_lt_zero _)
  | n+1, h => by
    simp only [ncBelow]
    by_cases hn : Y = n
    · subst hn
      rw [hY, hY', ncBelow_congr Y (fun e he => hoth e (Nat.ne_of_lt he))]
      simp
    · have hlt : Y < n := by omega
      rw [hoth n (Ne.symm hn), ← ncBelow_complete hY hY' hoth n hlt]
      omega

/-- every complete type in the slab has `height + 1 ≤ H` -/
def HBound (c : Ctx) (H : Nat) : Prop :=
  ∀ (b : Nat) (B : Bound), c.slab[b]? = some B → B.cheight ≤ H

/-- the potential: tallest complete type plus the number of entries that can still be completed -/
def Pot (c : Ctx) (P : Nat) : Prop := ∃ H, HBound c H ∧ H + ncount c ≤ P

theorem Pot.of_slab_eq {c c' : Ctx} {P : Nat} (h : c'.slab = c.slab) (p : Pot c P) : Pot c' P := by
  obtain ⟨H, hb, hle⟩ := p
  refine ⟨H, fun b B hs => hb b B (by rw [← h]; exact hs), ?_⟩
  have : ncount c' = ncount c := by
    unfold ncount; rw [h]
    exact ncBelow_congr _ (fun e _ => by unfold isNCAt; rw [h])
  rw [this]; exact hle

theorem isNCAt_setBound_ne (c : Ctx) (b : Nat) (n : Bound) {e : Nat} (h : e ≠ b) :
    isNCAt (setBound c b n) e = isNCAt c e := by
  unfold isNCAt; rw [setBound_get, if_neg (Ne.symm h)]

theorem setBound_ssize (c : Ctx) (b : Nat) (n : Bound) : (setBound c b n).slab.size = c.slab.size := by
  simp [setBound]

/-- an incomplete entry is replaced by an incomplete one -/
theorem pot_set_nc {c : Ctx} {b : Nat} {B n : Bound} {P : Nat} (p : Pot c P)
    (hB : c.slab[b]? = some B) (hBn : ¬ B.isComplete) (hn : ¬ n.isComplete) :
    Pot (setBound c b n) P := by
  obtain ⟨H, hb, hle⟩ := p
  have hlt : b < c.slab.size := by
    rcases Nat.lt_or_ge b c.slab.size with h | h
    · exact h
    · rw [Array.getElem?_eq_none h] at hB; cases hB
  refine ⟨H, fun b' B' hs => ?_, ?_⟩
  · rw [setBound_get] at hs
    split at hs
    · cases hs
      cases n with
      | complete d => exact absurd trivial hn
      | _ => exact Nat.zero_le _
    · exact hb b' B' hs
  · have : ncount (setBound c b n) = ncount c := by
      unfold ncount; rw [setBound_ssize]
      apply ncBelow_congr
      intro e _
      by_cases he : e = b
      · subst he
        unfold isNCAt
        rw [setBound_get, if_pos rfl, if_pos hlt, hB]
        cases B <;> cases n <;> first | rfl | exact absurd trivial hBn | exact absurd trivial hn
      · exact isNCAt_setBound_ne c b n he
    rw [this]; exact hle

/-- an incomplete entry is completed with a type at most one taller than the bound so far -/
theorem pot_set_complete {c : Ctx} {b : Nat} {B : Bound} {d : Ty} {H P : Nat} (hb : HBound c H)
    (hle : H + ncount c ≤ P) (hB : c.slab[b]? = some B) (hBn : ¬ B.isComplete)
    (hd : Ty.height d + 1 ≤ H + 1) : Pot (setBound c b (.complete d)) P := by
  have hlt : b < c.slab.size := by
    rcases Nat.lt_or_ge b c.slab.size with h | h
    · exact h
    · rw [Array.getElem?_eq_none h] at hB; cases hB
  have hcnt : ncount (setBound c b (.complete d)) + 1 = ncount c := by
    unfold ncount; rw [setBound_ssize]
    refine ncBelow_complete ?_ ?_ (fun e he => isNCAt_setBound_ne c b _ he) _ hlt
    · unfold isNCAt; rw [hB]
      cases B with
      | complete d' => exact absurd trivial hBn
      | _ => rfl
    · unfold isNCAt; rw [setBound_get, if_pos rfl, if_pos hlt]
  refine ⟨H + 1, fun b' B' hs => ?_, by omega⟩
  rw [setBound_get] at hs
  split at hs
  · cases hs; exact hd
  · exact Nat.le_succ_of_le (hb b' B' hs)

/-- same, when the new complete type is not taller than the bound (a free entry takes the new bound) -/
theorem pot_set_complete' {c : Ctx} {b : Nat} {B : Bound} {d : Ty} {H : Nat} (hb : HBound c H)
    (hB : c.slab[b]? = some B) (hBn : ¬ B.isComplete)
    (hd : Ty.height d + 1 ≤ H) :
    HBound (setBound c b (.complete d)) H ∧ ncount (setBound c b (.complete d)) ≤ ncount c := by
  have hlt : b < c.slab.size := by
    rcases Nat.lt_or_ge b c.slab.size with h | h
    · exact h
    · rw [Array.getElem?_eq_none h] at hB; cases hB
  have hcnt : ncount (setBound c b (.complete d)) + 1 = ncount c := by
    unfold ncount; rw [setBound_ssize]
    refine ncBelow_complete ?_ ?_ (fun e he => isNCAt_setBound_ne c b _ he) _ hlt
    · unfold isNCAt; rw [hB]
      cases B with
      | complete d' => exact absurd trivial hBn
      | _ => rfl
    · unfold isNCAt; rw [setBound_get, if_pos rfl, if_pos hlt]
  refine ⟨fun b' B' hs => ?_, by omega⟩
  rw [setBound_get] at hs
  split at hs
  · cases hs; exact hd
  · exact hb b' B' hs

theorem nroots_setBound (c : Ctx) (b : Nat) (n : Bound) : nroots (setBound c b n) = nroots c :=
  rootsBelow_congr _ (fun _ _ => rfl)

theorem rankInv_setBound {c : Ctx} (ri : RankInv c) (b : Nat) (n : Bound) : RankInv (setBound c b n) :=
  ⟨ri.par, fun e i h => by rw [nroots_setBound]; exact ri.bound e i h⟩

theorem ncount_of_slab_eq {c c' : Ctx} (h : c'.slab = c.slab) : ncount c' = ncount c := by
  unfold ncount; rw [h]
  exact ncBelow_congr _ (fun e _ => by unfold isNCAt; rw [h])

/-- result of a `bind` against a complete type: no class is merged, complete types do not grow -/
structure GoodC (c c' : Ctx) (H : Nat) : Prop where
  rank : RankInv c'
  esize : c'.elems.size = c.elems.size
  ssize : c'.slab.size = c.slab.size
  roots : nroots c' = nroots c
  hb : HBound c' H
  nc : ncount c' ≤ ncount c

theorem GoodC.refl {c : Ctx} {H : Nat} (ri : RankInv c) (hb : HBound c H) : GoodC c c H :=
  ⟨ri, rfl, rfl, rfl, hb, Nat.le_refl _⟩

theorem GoodC.trans {a b c : Ctx} {H : Nat} (h : GoodC a b H) (h' : GoodC b c H) : GoodC a c H :=
  ⟨h'.rank, h'.esize.trans h.esize, h'.ssize.trans h.ssize, h'.roots.trans h.roots, h'.hb,
   Nat.le_trans h'.nc h.nc⟩

theorem Stable.goodC {c c' : Ctx} {H : Nat} (st : Stable c c') (hb : HBound c H) : GoodC c c' H :=
  ⟨st.rank, st.esize, by rw [st.slab], st.roots, fun b B hs => hb b B (by rw [← st.slab]; exact hs),
   Nat.le_of_eq (ncount_of_slab_eq st.slab)⟩

theorem bindComponents_totalC {F : Nat} {bindF : Ctx → Nat → Bound → M Ctx} {H : Nat} {d1 d2 : Ty}
    (ih1 : ∀ c b, RankInv c → c.elems.size < F → HBound c H →
      NoFuel (bindF c b (.complete d1)) ∧ ∀ c', bindF c b (.complete d1) = .ok c' → GoodC c c' H)
    (ih2 : ∀ c b, RankInv c → c.elems.size < F → HBound c H →
      NoFuel (bindF c b (.complete d2)) ∧ ∀ c', bindF c b (.complete d2) = .ok c' → GoodC c c' H)
    {c : Ctx} (ri : RankInv c) (hF : c.elems.size < F) (hb : HBound c H) (t1 t2 : Nat) :
    NoFuel (bindComponents F bindF c t1 t2 d1 d2) ∧
    ∀ c', bindComponents F bindF c t1 t2 d1 d2 = .ok c' → GoodC c c' H := by
  unfold bindComponents
  obtain ⟨n1, s1⟩ := rootRef_nofuel ri hF t1
  split
  · next e he => exact ⟨(fun h => by cases h; exact n1 he), (fun c' h => by cases h)⟩
  · next c1 b1 h1 =>
    have st1 := s1 c1 b1 h1
    obtain ⟨n2, s2⟩ := rootRef_nofuel st1.rank (st1.esize ▸ hF) t2
    split
    · next e he => exact ⟨(fun h => by cases h; exact n2 he), (fun c' h => by cases h)⟩
    · next c2 b2 h2 =>
      have st2 := st1.trans (s2 c2 b2 h2)
      have g2 := st2.goodC hb
      obtain ⟨n3, s3⟩ := ih1 c2 b1 st2.rank (st2.esize ▸ hF) g2.hb
      split
      · next e he => exact ⟨(fun h => by cases h; exact n3 he), (fun c' h => by cases h)⟩
      · next c3 h3 =>
        have g3 := g2.trans (s3 c3 h3)
        obtain ⟨n4, s4⟩ := ih2 c3 b2 g3.rank (g3.esize ▸ hF) g3.hb
        exact ⟨n4, fun c' h => g3.trans (s4 c' h)⟩

theorem height_sum_l (a b : Ty) : Ty.height a + 1 ≤ Ty.height (.sum a b) := by
  simp only [Ty.height]; omega
theorem height_sum_r (a b : Ty) : Ty.height b + 1 ≤ Ty.height (.sum a b) := by
  simp only [Ty.height]; omega
theorem height_prod_l (a b : Ty) : Ty.height a + 1 ≤ Ty.height (.prod a b) := by
  simp only [Ty.height]; omega
theorem height_prod_r (a b : Ty) : Ty.height b + 1 ≤ Ty.height (.prod a b) := by
  simp only [Ty.height]; omega

/-- **`bind` against a complete type terminates** within `height + 1` nested calls -/
theorem bindC_total (F : Nat) : ∀ (f : Nat) (c : Ctx) (b : Nat) (d : Ty) (H : Nat), RankInv c →
    c.elems.size < F → HBound c H → Ty.height d + 1 ≤ H → Ty.height d + 1 ≤ f →
    NoFuel (bind F f c b (.complete d)) ∧ ∀ c', bind F f c b (.complete d) = .ok c' → GoodC c c' H
  | 0, c, b, d, H, _, _, _, _, hf => absurd hf (by omega)
  | f+1, c, b, d, H, ri, hF, hb, hdH, hf => by
    have ih := bindC_total F f
    unfold bind
    dsimp only
    split
    · next e he => exact ⟨(fun h => by cases h; exact absurd (getBound_err he) (by decide)), (fun c' h => by cases h)⟩
    · next B hB =>
      have hB' := getBound_ok.1 hB
      have comp : ∀ (t1 t2 : Nat) (d1 d2 : Ty), Ty.height d1 + 1 ≤ Ty.height d → Ty.height d2 + 1 ≤ Ty.height d →
          NoFuel (bindComponents F (bind F f) c t1 t2 d1 d2) ∧
          ∀ c', bindComponents F (bind F f) c t1 t2 d1 d2 = .ok c' → GoodC c c' H := by
        intro t1 t2 d1 d2 h1 h2
        exact bindComponents_totalC
          (fun c b ri hF hb => ih c b d1 H ri hF hb (by omega) (by omega))
          (fun c b ri hF hb => ih c b d2 H ri hF hb (by omega) (by omega)) ri hF hb t1 t2
      cases B with
      | free =>
        dsimp only
        cases hr : reassignNonComplete c b (.complete d) with
        | error e => exact ⟨(fun h => by cases h; exact absurd (reassign_err hr) (by decide)), (fun c' h => by cases h)⟩
        | ok c' =>
          obtain ⟨hc', _⟩ := reassign_ok hr
          subst hc'
          refine ⟨(fun h => by cases h), fun c'' h => ?_⟩
          cases h
          obtain ⟨p1, p2⟩ := pot_set_complete' hb hB' (fun h => h) hdH
          exact ⟨rankInv_setBound ri _ _, rfl, setBound_ssize _ _ _, nroots_setBound _ _ _, p1, p2⟩
      | complete e =>
        dsimp only
        split
        · exact ⟨(fun h => by cases h), (fun c' h => by cases h; exact GoodC.refl ri hb)⟩
        · exact ⟨(fun h => by cases h), (fun c' h => by cases h)⟩
      | sum t1 t2 =>
        dsimp only
        split
        · next d1 d2 => exact comp t1 t2 d1 d2 (height_sum_l _ _) (height_sum_r _ _)
        · exact ⟨(fun h => by cases h), (fun c' h => by cases h)⟩
      | product t1 t2 =>
        dsimp only
        split
        · next d1 d2 => exact comp t1 t2 d1 d2 (height_prod_l _ _) (height_prod_r _ _)
        · exact ⟨(fun h => by cases h), (fun c' h => by cases h)⟩

end UB
