/-
C08: inversion lemmas for the tracker-instrumented evaluator `evalT` (one `↔` per combinator),
relabelling of tracker records (`Trace.map`, `Lab.map`: the record of a run labelled by `ids` is the
`ids`-image of the record of the same run labelled by the plan indices).
-/
import SimplicityModel.PruneTerm

namespace Prog
open BM4

variable {a b c d : Ty}

/-! ### `evalT`, one equivalence per node kind -/

theorem evalT_iden_ok {l : Lab} {v o : Val} {tr : Trace} :
    evalT (.iden : Term a a) l v = .ok (o, tr) ↔ o = v ∧ tr = Trace.node l.id := by
  simp only [evalT, Except.ok.injEq, Prod.mk.injEq]
  constructor <;> (rintro ⟨h1, h2⟩; exact ⟨h1.symm, h2.symm⟩)

theorem evalT_unit_ok {l : Lab} {v o : Val} {tr : Trace} :
    evalT (.unit : Term a .one) l v = .ok (o, tr) ↔ o = .unit ∧ tr = Trace.node l.id := by
  simp only [evalT, Except.ok.injEq, Prod.mk.injEq]
  constructor <;> (rintro ⟨h1, h2⟩; exact ⟨h1.symm, h2.symm⟩)

theorem evalT_witness_ok {w : Val} {l : Lab} {v o : Val} {tr : Trace} :
    evalT (.witness w : Term a b) l v = .ok (o, tr) ↔ o = w ∧ tr = Trace.node l.id := by
  simp only [evalT, Except.ok.injEq, Prod.mk.injEq]
  constructor <;> (rintro ⟨h1, h2⟩; exact ⟨h1.symm, h2.symm⟩)

theorem evalT_word_ok {w : Val} {l : Lab} {v o : Val} {tr : Trace} :
    evalT (.word w : Term a b) l v = .ok (o, tr) ↔ o = w ∧ tr = Trace.node l.id := by
  simp only [evalT, Except.ok.injEq, Prod.mk.injEq]
  constructor <;> (rintro ⟨h1, h2⟩; exact ⟨h1.symm, h2.symm⟩)

theorem evalT_fail_ok {l : Lab} {v o : Val} {tr : Trace} :
    evalT (.fail : Term a b) l v = .ok (o, tr) ↔ False := by
  simp [evalT]

theorem evalT_jet_ok {jf : List Bool → Option (List Bool)} {f : Val → Option Val} {l : Lab} {v o : Val}
    {tr : Trace} : evalT (.jet jf f : Term a b) l v = .ok (o, tr) ↔ f v = some o ∧ tr = Trace.node l.id := by
  simp only [evalT]
  cases f v with
  | none => simp
  | some o' =>
    simp only [Except.ok.injEq, Prod.mk.injEq, Option.some.injEq]
    constructor <;> (rintro ⟨h1, h2⟩; exact ⟨h1, h2.symm⟩)

theorem withNode_ok_iff {l : Lab} {r : Except Fail (Val × Trace)} {o : Val} {tr : Trace} :
    withNode l r = .ok (o, tr) ↔ ∃ tr', r = .ok (o, tr') ∧ tr = (Trace.node l.id).add tr' := by
  constructor
  · exact withNode_ok
  · rintro ⟨tr', rfl, rfl⟩; rfl

theorem withSide_ok_iff {l : Lab} {s : Bool} {r : Except Fail (Val × Trace)} {o : Val} {tr : Trace} :
    withSide l s r = .ok (o, tr) ↔ ∃ tr', r = .ok (o, tr') ∧ tr = (Trace.side l.id s).add tr' := by
  constructor
  · exact withSide_ok
  · rintro ⟨tr', rfl, rfl⟩; rfl

theorem evalT_injl_ok {t : Term a b} {l : Lab} {v o : Val} {tr : Trace} :
    evalT (.injl (c := c) t) l v = .ok (o, tr) ↔
      ∃ o' tr', evalT t l.fst v = .ok (o', tr') ∧ o = .inl o' ∧ tr = (Trace.node l.id).add tr' := by
  simp only [evalT, withNode_ok_iff]
  cases evalT t l.fst v with
  | error e => simp [Except.map]
  | ok p =>
    obtain ⟨o', tr'⟩ := p
    simp only [Except.map, Except.ok.injEq, Prod.mk.injEq]
    constructor
    · rintro ⟨tr'', ⟨rfl, rfl⟩, rfl⟩; exact ⟨o', tr', ⟨rfl, rfl⟩, rfl, rfl⟩
    · rintro ⟨o'', tr'', ⟨rfl, rfl⟩, rfl, rfl⟩; exact ⟨_, ⟨rfl, rfl⟩, rfl⟩

theorem evalT_injr_ok {t : Term a c} {l : Lab} {v o : Val} {tr : Trace} :
    evalT (.injr (b := b) t) l v = .ok (o, tr) ↔
      ∃ o' tr', evalT t l.fst v = .ok (o', tr') ∧ o = .inr o' ∧ tr = (Trace.node l.id).add tr' := by
  simp only [evalT, withNode_ok_iff]
  cases evalT t l.fst v with
  | error e => simp [Except.map]
  | ok p =>
    obtain ⟨o', tr'⟩ := p
    simp only [Except.map, Except.ok.injEq, Prod.mk.injEq]
    constructor
    · rintro ⟨tr'', ⟨rfl, rfl⟩, rfl⟩; exact ⟨o', tr', ⟨rfl, rfl⟩, rfl, rfl⟩
    · rintro ⟨o'', tr'', ⟨rfl, rfl⟩, rfl, rfl⟩; exact ⟨_, ⟨rfl, rfl⟩, rfl⟩

theorem evalT_take_ok {t : Term a c} {l : Lab} {v o : Val} {tr : Trace} :
    evalT (.take (b := b) t) l v = .ok (o, tr) ↔
      ∃ x y tr', v = .pair x y ∧ evalT t l.fst x = .ok (o, tr') ∧ tr = (Trace.node l.id).add tr' := by
  cases v with
  | pair x y =>
    simp only [evalT, withNode_ok_iff]
    constructor
    · rintro ⟨tr', h, rfl⟩; exact ⟨x, y, tr', rfl, h, rfl⟩
    · rintro ⟨x', y', tr', h0, h, rfl⟩; cases h0; exact ⟨tr', h, rfl⟩
  | _ => simp [evalT]

theorem evalT_drop_ok {t : Term b c} {l : Lab} {v o : Val} {tr : Trace} :
    evalT (.drop (a := a) t) l v = .ok (o, tr) ↔
      ∃ x y tr', v = .pair x y ∧ evalT t l.fst y = .ok (o, tr') ∧ tr = (Trace.node l.id).add tr' := by
  cases v with
  | pair x y =>
    simp only [evalT, withNode_ok_iff]
    constructor
    · rintro ⟨tr', h, rfl⟩; exact ⟨x, y, tr', rfl, h, rfl⟩
    · rintro ⟨x', y', tr', h0, h, rfl⟩; cases h0; exact ⟨tr', h, rfl⟩
  | _ => simp [evalT]

theorem evalT_comp_ok {s : Term a b} {t : Term b c} {l : Lab} {v o : Val} {tr : Trace} :
    evalT (.comp s t) l v = .ok (o, tr) ↔
      ∃ x t1 t2, evalT s l.fst v = .ok (x, t1) ∧ evalT t l.snd x = .ok (o, t2) ∧
        tr = (Trace.node l.id).add (t1.add t2) := by
  simp only [evalT, withNode_ok_iff]
  constructor
  · rintro ⟨tr', h, rfl⟩
    cases h1 : evalT s l.fst v with
    | error e => rw [h1] at h; cases h
    | ok p =>
      obtain ⟨x, t1⟩ := p
      rw [h1] at h
      simp only [Except.bind] at h
      cases h2 : evalT t l.snd x with
      | error e => rw [h2] at h; cases h
      | ok q =>
        obtain ⟨o', t2⟩ := q
        rw [h2] at h
        simp only [Except.map, Except.ok.injEq, Prod.mk.injEq] at h
        obtain ⟨rfl, rfl⟩ := h
        exact ⟨x, t1, t2, rfl, h2, rfl⟩
  · rintro ⟨x, t1, t2, h1, h2, rfl⟩
    exact ⟨_, by simp [h1, h2, Except.bind, Except.map], rfl⟩

theorem evalT_pair_ok {s : Term a b} {t : Term a c} {l : Lab} {v o : Val} {tr : Trace} :
    evalT (.pair s t) l v = .ok (o, tr) ↔
      ∃ x y t1 t2, evalT s l.fst v = .ok (x, t1) ∧ evalT t l.snd v = .ok (y, t2) ∧ o = .pair x y ∧
        tr = (Trace.node l.id).add (t1.add t2) := by
  simp only [evalT, withNode_ok_iff]
  cases evalT s l.fst v with
  | error e => simp [Except.bind]
  | ok p =>
    obtain ⟨x, t1⟩ := p
    simp only [Except.bind]
    cases evalT t l.snd v with
    | error e => simp [Except.map]
    | ok q =>
      obtain ⟨y, t2⟩ := q
      simp only [Except.map, Except.ok.injEq, Prod.mk.injEq]
      constructor
      · rintro ⟨tr', ⟨rfl, rfl⟩, rfl⟩; exact ⟨x, y, t1, t2, ⟨rfl, rfl⟩, ⟨rfl, rfl⟩, rfl, rfl⟩
      · rintro ⟨x', y', t1', t2', ⟨rfl, rfl⟩, ⟨rfl, rfl⟩, rfl, rfl⟩; exact ⟨_, ⟨rfl, rfl⟩, rfl⟩

theorem evalT_case_ok {s : Term (.prod a c) d} {t : Term (.prod b c) d} {l : Lab} {v o : Val} {tr : Trace} :
    evalT (.case s t) l v = .ok (o, tr) ↔
      (∃ x z tr', v = .pair (.inl x) z ∧ evalT s l.fst (.pair x z) = .ok (o, tr') ∧
        tr = (Trace.side l.id false).add tr') ∨
      (∃ y z tr', v = .pair (.inr y) z ∧ evalT t l.snd (.pair y z) = .ok (o, tr') ∧
        tr = (Trace.side l.id true).add tr') := by
  cases v with
  | pair xy z =>
    cases xy with
    | inl x =>
      simp only [evalT, withSide_ok_iff]
      constructor
      · rintro ⟨tr', h, rfl⟩; exact .inl ⟨x, z, tr', rfl, h, rfl⟩
      · rintro (⟨x', z', tr', h0, h, rfl⟩ | ⟨y', z', tr', h0, _, _⟩)
        · cases h0; exact ⟨tr', h, rfl⟩
        · cases h0
    | inr y =>
      simp only [evalT, withSide_ok_iff]
      constructor
      · rintro ⟨tr', h, rfl⟩; exact .inr ⟨y, z, tr', rfl, h, rfl⟩
      · rintro (⟨x', z', tr', h0, _, _⟩ | ⟨y', z', tr', h0, h, rfl⟩)
        · cases h0
        · cases h0; exact ⟨tr', h, rfl⟩
    | _ => simp [evalT]
  | _ => simp [evalT]

theorem evalT_assertl_ok {s : Term (.prod a c) d} {l : Lab} {v o : Val} {tr : Trace} :
    evalT (.assertl (b := b) s) l v = .ok (o, tr) ↔
      ∃ x z tr', v = .pair (.inl x) z ∧ evalT s l.fst (.pair x z) = .ok (o, tr') ∧
        tr = (Trace.side l.id false).add tr' := by
  cases v with
  | pair xy z =>
    cases xy with
    | inl x =>
      simp only [evalT, withSide_ok_iff]
      constructor
      · rintro ⟨tr', h, rfl⟩; exact ⟨x, z, tr', rfl, h, rfl⟩
      · rintro ⟨x', z', tr', h0, h, rfl⟩; cases h0; exact ⟨tr', h, rfl⟩
    | _ => simp [evalT]
  | _ => simp [evalT]

theorem evalT_assertr_ok {t : Term (.prod b c) d} {l : Lab} {v o : Val} {tr : Trace} :
    evalT (.assertr (a := a) t) l v = .ok (o, tr) ↔
      ∃ y z tr', v = .pair (.inr y) z ∧ evalT t l.fst (.pair y z) = .ok (o, tr') ∧
        tr = (Trace.side l.id true).add tr' := by
  cases v with
  | pair xy z =>
    cases xy with
    | inr y =>
      simp only [evalT, withSide_ok_iff]
      constructor
      · rintro ⟨tr', h, rfl⟩; exact ⟨y, z, tr', rfl, h, rfl⟩
      · rintro ⟨y', z', tr', h0, h, rfl⟩; cases h0; exact ⟨tr', h, rfl⟩
    | _ => simp [evalT]
  | _ => simp [evalT]

theorem evalT_disconnect_ok {w : Ty} {cw : Val} {s : Term (.prod w a) (.prod b c)} {t : Term c d} {l : Lab}
    {v o : Val} {tr : Trace} :
    evalT (.disconnect w cw s t) l v = .ok (o, tr) ↔
      ∃ x y z t1 t2, evalT s l.fst (.pair cw v) = .ok (.pair x y, t1) ∧ evalT t l.snd y = .ok (z, t2) ∧
        o = .pair x z ∧ tr = (Trace.node l.id).add (t1.add t2) := by
  simp only [evalT, withNode_ok_iff]
  constructor
  · rintro ⟨tr', h, rfl⟩
    cases h1 : evalT s l.fst (.pair cw v) with
    | error e => rw [h1] at h; cases h
    | ok p =>
      obtain ⟨xy, t1⟩ := p
      rw [h1] at h
      cases xy with
      | pair x y =>
        simp only [Except.bind] at h
        cases h2 : evalT t l.snd y with
        | error e => rw [h2] at h; cases h
        | ok q =>
          obtain ⟨z, t2⟩ := q
          rw [h2] at h
          simp only [Except.map, Except.ok.injEq, Prod.mk.injEq] at h
          obtain ⟨rfl, rfl⟩ := h
          exact ⟨x, y, z, t1, t2, rfl, h2, rfl, rfl⟩
      | _ => cases h
  · rintro ⟨x, y, z, t1, t2, h1, h2, rfl, rfl⟩
    exact ⟨_, by simp [h1, h2, Except.bind, Except.map], rfl⟩

/-! ### relabelling -/

def Lab.map (g : Nat → Nat) : Lab → Lab
  | .leaf i => .leaf (g i)
  | .un i l => .un (g i) (l.map g)
  | .bin i l r => .bin (g i) (l.map g) (r.map g)

def Trace.map (g : Nat → Nat) (tr : Trace) : Trace :=
  ⟨tr.nodes.map g, tr.sides.map fun s => (g s.1, s.2)⟩

@[simp] theorem Lab.map_id' (g : Nat → Nat) (l : Lab) : (l.map g).id = g l.id := by cases l <;> rfl
@[simp] theorem Lab.map_fst (g : Nat → Nat) (l : Lab) : (l.map g).fst = l.fst.map g := by cases l <;> rfl
@[simp] theorem Lab.map_snd (g : Nat → Nat) (l : Lab) : (l.map g).snd = l.snd.map g := by cases l <;> rfl

@[simp] theorem Trace.map_node (g : Nat → Nat) (i : Nat) : (Trace.node i).map g = Trace.node (g i) := rfl
@[simp] theorem Trace.map_side (g : Nat → Nat) (i : Nat) (s : Bool) :
    (Trace.side i s).map g = Trace.side (g i) s := rfl
@[simp] theorem Trace.map_add (g : Nat → Nat) (t1 t2 : Trace) : (t1.add t2).map g = (t1.map g).add (t2.map g) := by
  simp [Trace.map, Trace.add]

theorem Trace.map_id (tr : Trace) : tr.map (fun j => j) = tr := by
  cases tr; simp [Trace.map]

theorem Trace.mem_map_nodes {g : Nat → Nat} {tr : Trace} {j : Nat} (h : j ∈ tr.nodes) : g j ∈ (tr.map g).nodes :=
  List.mem_map.2 ⟨j, h, rfl⟩

theorem Trace.mem_map_sides {g : Nat → Nat} {tr : Trace} {j : Nat} {s : Bool} (h : (j, s) ∈ tr.sides) :
    (g j, s) ∈ (tr.map g).sides :=
  List.mem_map.2 ⟨(j, s), h, rfl⟩

/-- the labels of a plan under any identity assignment are the image of the index labels -/
theorem labOf_map (p : Plan) (ids : Nat → Nat) : ∀ (f i : Nat),
    labOf p ids f i = (labOf p (fun j => j) f i).map ids := by
  intro f
  induction f with
  | zero => intro i; rfl
  | succ f ih =>
    intro i
    simp only [labOf]
    cases p[i]? with
    | none => rfl
    | some nd =>
      simp only []
      cases hch : nd.children with
      | nil => rfl
      | cons c rest =>
        cases rest with
        | nil => simp only [Lab.map, ih c]
        | cons d rest' => simp only [Lab.map, ih c, ih d]

def mapRes (g : Nat → Nat) (r : Except Fail (Val × Trace)) : Except Fail (Val × Trace) :=
  r.map fun p => (p.1, p.2.map g)

/-- **the record is natural in the labels**: relabelling the label tree relabels the record -/
theorem evalT_map (g : Nat → Nat) : ∀ {a b : Ty} (t : Term a b) (l : Lab) (v o : Val) (tr : Trace),
    evalT t l v = .ok (o, tr) → evalT t (l.map g) v = .ok (o, tr.map g) := by
  intro a b t
  induction t with
  | iden => intro l v o tr h; rw [evalT_iden_ok] at h ⊢; obtain ⟨rfl, rfl⟩ := h; simp
  | unit => intro l v o tr h; rw [evalT_unit_ok] at h ⊢; obtain ⟨rfl, rfl⟩ := h; simp
  | fail => intro l v o tr h; rw [evalT_fail_ok] at h; exact h.elim
  | witness w => intro l v o tr h; rw [evalT_witness_ok] at h ⊢; obtain ⟨rfl, rfl⟩ := h; simp
  | word w => intro l v o tr h; rw [evalT_word_ok] at h ⊢; obtain ⟨rfl, rfl⟩ := h; simp
  | jet jf f => intro l v o tr h; rw [evalT_jet_ok] at h ⊢; obtain ⟨h1, rfl⟩ := h; simp [h1]
  | injl t ih =>
    intro l v o tr h
    rw [evalT_injl_ok] at h ⊢
    obtain ⟨o', tr', h1, rfl, rfl⟩ := h
    exact ⟨o', tr'.map g, by simpa using ih _ _ _ _ h1, rfl, by simp⟩
  | injr t ih =>
    intro l v o tr h
    rw [evalT_injr_ok] at h ⊢
    obtain ⟨o', tr', h1, rfl, rfl⟩ := h
    exact ⟨o', tr'.map g, by simpa using ih _ _ _ _ h1, rfl, by simp⟩
  | take t ih =>
    intro l v o tr h
    rw [evalT_take_ok] at h ⊢
    obtain ⟨x, y, tr', rfl, h1, rfl⟩ := h
    exact ⟨x, y, tr'.map g, rfl, by simpa using ih _ _ _ _ h1, by simp⟩
  | drop t ih =>
    intro l v o tr h
    rw [evalT_drop_ok] at h ⊢
    obtain ⟨x, y, tr', rfl, h1, rfl⟩ := h
    exact ⟨x, y, tr'.map g, rfl, by simpa using ih _ _ _ _ h1, by simp⟩
  | comp s t ihs iht =>
    intro l v o tr h
    rw [evalT_comp_ok] at h ⊢
    obtain ⟨x, t1, t2, h1, h2, rfl⟩ := h
    exact ⟨x, t1.map g, t2.map g, by simpa using ihs _ _ _ _ h1, by simpa using iht _ _ _ _ h2, by simp⟩
  | pair s t ihs iht =>
    intro l v o tr h
    rw [evalT_pair_ok] at h ⊢
    obtain ⟨x, y, t1, t2, h1, h2, rfl, rfl⟩ := h
    exact ⟨x, y, t1.map g, t2.map g, by simpa using ihs _ _ _ _ h1, by simpa using iht _ _ _ _ h2, rfl, by simp⟩
  | case s t ihs iht =>
    intro l v o tr h
    rw [evalT_case_ok] at h ⊢
    rcases h with ⟨x, z, tr', rfl, h1, rfl⟩ | ⟨y, z, tr', rfl, h1, rfl⟩
    · exact .inl ⟨x, z, tr'.map g, rfl, by simpa using ihs _ _ _ _ h1, by simp⟩
    · exact .inr ⟨y, z, tr'.map g, rfl, by simpa using iht _ _ _ _ h1, by simp⟩
  | assertl s ih =>
    intro l v o tr h
    rw [evalT_assertl_ok] at h ⊢
    obtain ⟨x, z, tr', rfl, h1, rfl⟩ := h
    exact ⟨x, z, tr'.map g, rfl, by simpa using ih _ _ _ _ h1, by simp⟩
  | assertr t ih =>
    intro l v o tr h
    rw [evalT_assertr_ok] at h ⊢
    obtain ⟨y, z, tr', rfl, h1, rfl⟩ := h
    exact ⟨y, z, tr'.map g, rfl, by simpa using ih _ _ _ _ h1, by simp⟩
  | disconnect w cw s t ihs iht =>
    intro l v o tr h
    rw [evalT_disconnect_ok] at h ⊢
    obtain ⟨x, y, z, t1, t2, h1, h2, rfl, rfl⟩ := h
    exact ⟨x, y, z, t1.map g, t2.map g, by simpa using ihs _ _ _ _ h1, by simpa using iht _ _ _ _ h2, rfl, by simp⟩

/-- a failing run fails for every labelling, a successful one succeeds for every labelling -/
theorem evalT_ok_of_evalK {a b : Ty} (t : Term a b) (l : Lab) (v o : Val) (h : evalK t v = .ok o) :
    ∃ tr, evalT t l v = .ok (o, tr) := by
  have := evalT_fst t l v
  rw [h] at this
  cases hr : evalT t l v with
  | error e => rw [hr] at this; cases this
  | ok p =>
    obtain ⟨o', tr⟩ := p
    rw [hr] at this
    simp only [resOf_ok, Except.ok.injEq] at this
    exact ⟨tr, by rw [this]⟩

/-- the record of a run labelled by `ids` is the `ids`-image of the record of the run labelled by
the plan indices -/
theorem evalT_index {a b : Ty} (t : Term a b) (p : Plan) (ids : Nat → Nat) (f i : Nat) (v o : Val) (tr : Trace)
    (h : evalT t (labOf p ids f i) v = .ok (o, tr)) :
    ∃ trI, evalT t (labOf p (fun j => j) f i) v = .ok (o, trI) ∧ tr = trI.map ids := by
  have hk : evalK t v = .ok o := by
    have := evalT_fst t (labOf p ids f i) v
    rw [h] at this
    exact this.symm
  obtain ⟨trI, hI⟩ := evalT_ok_of_evalK t (labOf p (fun j => j) f i) v o hk
  refine ⟨trI, hI, ?_⟩
  have := evalT_map ids t _ v o trI hI
  rw [← labOf_map, h] at this
  simp only [Except.ok.injEq, Prod.mk.injEq] at this
  exact this.2

/-- the root of a run is recorded -/
theorem evalT_root_mem : ∀ {a b : Ty} (t : Term a b) (l : Lab) (v o : Val) (tr : Trace),
    evalT t l v = .ok (o, tr) → l.id ∈ tr.nodes := by
  intro a b t
  cases t with
  | iden => intro l v o tr h; rw [evalT_iden_ok] at h; obtain ⟨_, rfl⟩ := h; simp [Trace.node]
  | unit => intro l v o tr h; rw [evalT_unit_ok] at h; obtain ⟨_, rfl⟩ := h; simp [Trace.node]
  | fail => intro l v o tr h; rw [evalT_fail_ok] at h; exact h.elim
  | witness w => intro l v o tr h; rw [evalT_witness_ok] at h; obtain ⟨_, rfl⟩ := h; simp [Trace.node]
  | word w => intro l v o tr h; rw [evalT_word_ok] at h; obtain ⟨_, rfl⟩ := h; simp [Trace.node]
  | jet jf f => intro l v o tr h; rw [evalT_jet_ok] at h; obtain ⟨_, rfl⟩ := h; simp [Trace.node]
  | injl t => intro l v o tr h; rw [evalT_injl_ok] at h; obtain ⟨_, _, _, _, rfl⟩ := h; simp [Trace.node, Trace.add]
  | injr t => intro l v o tr h; rw [evalT_injr_ok] at h; obtain ⟨_, _, _, _, rfl⟩ := h; simp [Trace.node, Trace.add]
  | take t => intro l v o tr h; rw [evalT_take_ok] at h; obtain ⟨_, _, _, _, _, rfl⟩ := h; simp [Trace.node, Trace.add]
  | drop t => intro l v o tr h; rw [evalT_drop_ok] at h; obtain ⟨_, _, _, _, _, rfl⟩ := h; simp [Trace.node, Trace.add]
  | comp s t => intro l v o tr h; rw [evalT_comp_ok] at h; obtain ⟨_, _, _, _, _, rfl⟩ := h; simp [Trace.node, Trace.add]
  | pair s t => intro l v o tr h; rw [evalT_pair_ok] at h; obtain ⟨_, _, _, _, _, _, _, rfl⟩ := h; simp [Trace.node, Trace.add]
  | case s t =>
    intro l v o tr h; rw [evalT_case_ok] at h
    rcases h with ⟨_, _, _, _, _, rfl⟩ | ⟨_, _, _, _, _, rfl⟩ <;> simp [Trace.side, Trace.add]
  | assertl s => intro l v o tr h; rw [evalT_assertl_ok] at h; obtain ⟨_, _, _, _, _, rfl⟩ := h; simp [Trace.side, Trace.add]
  | assertr s => intro l v o tr h; rw [evalT_assertr_ok] at h; obtain ⟨_, _, _, _, _, rfl⟩ := h; simp [Trace.side, Trace.add]
  | disconnect w cw s t =>
    intro l v o tr h; rw [evalT_disconnect_ok] at h; obtain ⟨_, _, _, _, _, _, _, _, rfl⟩ := h
    simp [Trace.node, Trace.add]

end Prog
