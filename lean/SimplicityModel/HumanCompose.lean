/-
C17 — the two layers composed: the text that is rendered for a named program (one statement per
node object of the pointer-sharing walk, sorted into the three sections of `string_serialize`)
parses back to those statements, and the statements resolve — names looked up, children rebuilt —
to the program, node by node.
-/
import SimplicityModel.Human
import SimplicityModel.HumanTextProofs
namespace HT
open BM4 (Ty)
open PO

/-- what a node carries besides its children: the combinator with its literal data -/
inductive Head
  | iden | unit | witness | injl | injr | take | drop | comp | case | pair
  | assertl (h : List Nat) | assertr (h : List Nat) | disconnect (hole : Name)
  | fail (e : List Nat) | jet (n : List Char) | word (n : Nat) (bits : List Bool)
deriving DecidableEq, Repr

/-- payload of a node: combinator, source and target type -/
abbrev Payload := Head × Ty × Ty

def Head.arity : Head → Nat
  | .iden | .unit | .witness | .fail _ | .jet _ | .word _ _ => 0
  | .injl | .injr | .take | .drop | .assertl _ | .assertr _ | .disconnect _ => 1
  | .comp | .case | .pair => 2

/-- the statement printed for a line -/
def stmtOfLine (l : Line Name Payload) : Stmt :=
  let a := l.left.getD []
  let b := l.right.getD []
  let e : Expr := match l.payload.1 with
    | .iden => .iden | .unit => .unit | .witness => .witness
    | .injl => .injl a | .injr => .injr a | .take => .take a | .drop => .drop a
    | .comp => .comp a b | .case => .case a b | .pair => .pair a b
    | .assertl h => .assertl a h | .assertr h => .assertr h a | .disconnect hole => .disconnect a hole
    | .fail x => .fail x | .jet n => .jet n | .word n bits => .word n bits
  ⟨l.name, e, l.payload.2.1, l.payload.2.2⟩

/-- the line a statement stands for -/
def lineOfStmt (s : Stmt) : Line Name Payload :=
  let mk (h : Head) (l r : Option Name) : Line Name Payload := ⟨s.name, (h, s.src, s.tgt), l, r⟩
  match s.expr with
  | .iden => mk .iden none none | .unit => mk .unit none none | .witness => mk .witness none none
  | .injl a => mk .injl (some a) none | .injr a => mk .injr (some a) none
  | .take a => mk .take (some a) none | .drop a => mk .drop (some a) none
  | .comp a b => mk .comp (some a) (some b) | .case a b => mk .case (some a) (some b)
  | .pair a b => mk .pair (some a) (some b)
  | .assertl a h => mk (.assertl h) (some a) none | .assertr h a => mk (.assertr h) (some a) none
  | .disconnect a hole => mk (.disconnect hole) (some a) none
  | .fail x => mk (.fail x) none none | .jet n => mk (.jet n) none none
  | .word n bits => mk (.word n bits) none none

/-- the line has as many children as its combinator takes -/
def ArityOk (l : Line Name Payload) : Prop :=
  match l.payload.1.arity with
  | 0 => l.left = none ∧ l.right = none
  | 1 => l.left.isSome ∧ l.right = none
  | _ => l.left.isSome ∧ l.right.isSome

theorem lineOfStmt_stmtOfLine (l : Line Name Payload) (h : ArityOk l) : lineOfStmt (stmtOfLine l) = l := by
  obtain ⟨name, ⟨hd, src, tgt⟩, left, right⟩ := l
  cases hd <;> simp only [ArityOk, Head.arity] at h <;>
    (first
      | (obtain ⟨rfl, rfl⟩ := h; rfl)
      | (obtain ⟨h1, rfl⟩ := h
         cases left with
         | none => cases h1
         | some a => rfl)
      | (obtain ⟨h1, h2⟩ := h
         cases left with
         | none => cases h1
         | some a =>
           cases right with
           | none => cases h2
           | some b => rfl))

/-- the three sections of `string_serialize`: witnesses, constants, program code -/
def isWitStmt (s : Stmt) : Bool := match s.expr with | .witness => true | _ => false
def isWordStmt (s : Stmt) : Bool := match s.expr with | .word _ _ => true | _ => false
def sectioned (ss : List Stmt) : List Stmt :=
  ss.filter isWitStmt ++ ss.filter isWordStmt ++ ss.filter fun s => !isWitStmt s && !isWordStmt s

theorem mem_sectioned (ss : List Stmt) (s : Stmt) : s ∈ sectioned ss ↔ s ∈ ss := by
  simp only [sectioned, List.mem_append, List.mem_filter]
  constructor
  · rintro ((⟨h, _⟩ | ⟨h, _⟩) | ⟨h, _⟩) <;> exact h
  · intro h
    by_cases h1 : isWitStmt s = true
    · exact .inl (.inl ⟨h, h1⟩)
    · by_cases h2 : isWordStmt s = true
      · exact .inl (.inr ⟨h, h2⟩)
      · right
        refine ⟨h, ?_⟩
        simp only [Bool.not_eq_true] at h1 h2
        simp [h1, h2]

/-! ### `resolve` only depends on which lines there are, when names are unique -/

section Congr
variable {N P : Type} [DecidableEq N]

def UniqueNames (l : List (Line N P)) : Prop := ∀ a b, a ∈ l → b ∈ l → a.name = b.name → a = b

theorem find_congr (l1 l2 : List (Line N P)) (hm : ∀ x, x ∈ l1 ↔ x ∈ l2) (hu : UniqueNames l1) (n : N) :
    l2.find? (·.name = n) = l1.find? (·.name = n) := by
  cases h1 : l1.find? (·.name = n) with
  | none =>
    rw [List.find?_eq_none] at h1 ⊢
    exact fun x hx => h1 x ((hm x).2 hx)
  | some x =>
    have hx1 := List.mem_of_find?_eq_some h1
    have hxn : x.name = n := by simpa using List.find?_some h1
    cases h2 : l2.find? (·.name = n) with
    | none =>
      rw [List.find?_eq_none] at h2
      exact absurd (by simpa using hxn) (h2 x ((hm x).1 hx1))
    | some y =>
      have hy2 := List.mem_of_find?_eq_some h2
      have hyn : y.name = n := by simpa using List.find?_some h2
      rw [hu y x ((hm y).2 hy2) hx1 (by rw [hyn, hxn])]

theorem resolve_congr (l1 l2 : List (Line N P)) (hm : ∀ x, x ∈ l1 ↔ x ∈ l2) (hu : UniqueNames l1) :
    ∀ (f : Nat) (n : N), resolve l2 f n = resolve l1 f n
  | 0, _ => rfl
  | f + 1, n => by
    simp only [resolve, find_congr l1 l2 hm hu n, resolve_congr l1 l2 hm hu f]

end Congr

/-! ### the composed statement -/

/-- the statements `string_serialize` prints for the named program `root` -/
def renderStmts (name : T → Name) (payload : T → Payload) (root : T) : List Stmt :=
  sectioned ((render name payload root).map stmtOfLine)

/-- **render → parse → resolve**: for a named pointer DAG whose names identify node objects
(`NamesFaithful`, what the `Namer` and the parser guarantee), whose lines have the arity of their
combinators and are spelled in the token alphabets (`Stmt.good`): the rendered text parses to
exactly the rendered statements, and resolving any node's name among them rebuilds that node — its
combinator, literal data and arrow at every node below it. -/
theorem render_parse_resolve (isJet : List Char → Bool) (name : T → Name) (payload : T → Payload) (root : T)
    (hi : IdsFaithful root) (hn : NamesFaithful name root)
    (har : ∀ t, Desc root t → ArityOk (lineOf name payload t))
    (hgood : ∀ t, Desc root t → (stmtOfLine (lineOf name payload t)).good isJet) :
    parseRendered isJet (textChars (renderStmts name payload root)) = some (renderStmts name payload root) ∧
    ∀ t, Desc root t → ∀ f, t.depth ≤ f →
      resolve ((renderStmts name payload root).map lineOfStmt) f (name t) = some (shapeOf payload t) := by
  have hdesc := visit_desc ptr root (fun _ => none) 0
  have hlines : ∀ l ∈ render name payload root, ∃ t, Desc root t ∧ l = lineOf name payload t := by
    intro l hl
    simp only [render, List.mem_map] at hl
    obtain ⟨o, ho, rfl⟩ := hl
    exact ⟨o.node, hdesc o ho, rfl⟩
  refine ⟨?_, ?_⟩
  · apply parseRendered_textChars
    intro s hs
    simp only [renderStmts, mem_sectioned, List.mem_map] at hs
    obtain ⟨l, hl, rfl⟩ := hs
    obtain ⟨t, ht, rfl⟩ := hlines l hl
    exact hgood t ht
  · intro t ht f hf
    have hm : ∀ x, x ∈ render name payload root ↔ x ∈ (renderStmts name payload root).map lineOfStmt := by
      intro x
      simp only [renderStmts, List.mem_map, mem_sectioned]
      constructor
      · intro hx
        obtain ⟨t', ht', rfl⟩ := hlines x hx
        exact ⟨_, ⟨_, hx, rfl⟩, lineOfStmt_stmtOfLine _ (har t' ht')⟩
      · rintro ⟨s, ⟨l, hl, rfl⟩, rfl⟩
        obtain ⟨t', ht', rfl⟩ := hlines l hl
        rw [lineOfStmt_stmtOfLine _ (har t' ht')]
        exact hl
    have hu : UniqueNames (render name payload root) := by
      intro a b ha hb hab
      obtain ⟨i, hi'⟩ := List.getElem?_of_mem ha
      obtain ⟨j, hj'⟩ := List.getElem?_of_mem hb
      have := render_names_unique name payload root hi hn i j a b hi' hj' hab
      subst this
      rw [hi'] at hj'
      exact Option.some.inj hj'
    rw [resolve_congr _ _ hm hu]
    exact resolve_render name payload root hi hn t ht f hf

end HT
