/-
Reading a finalised context: when every root holds a complete bound, the assignment "value of the
complete bound at the root of the class" exists, solves the context the finalisation started from
and takes the finalised values.  Chains of `Type::finalize` calls.
-/
import SimplicityModel.UnionBoundOccurs

namespace UB
open Inf (Ty Le)

/-- `r` is reached from `x` along parent links -/
inductive Conn (c : Ctx) : Nat → Nat → Prop
  | refl (x : Nat) : Conn c x x
  | step {x p r : Nat} {i : UbInner} : c.elems[x]? = some i → i.data = .equalTo p → Conn c p r → Conn c x r

/-- the class of `x` has a root holding `Complete d` -/
def HasVal (c : Ctx) (x : Nat) (d : Ty) : Prop :=
  ∃ r b, Conn c x r ∧ Owner c r b ∧ c.slab[b]? = some (Bound.complete d)

open Classical in
/-- some type satisfying `P`, unit when there is none -/
noncomputable def pick (P : Ty → Prop) : Ty :=
  if h : ∃ d, P d then Classical.choose h else .one

/-- the value of the complete bound at the root of the class (unit where there is none) -/
noncomputable def reader (c : Ctx) (x : Nat) : Ty := pick (HasVal c x)

theorem hasVal_link {c : Ctx} {x p : Nat} {i : UbInner} (hi : c.elems[x]? = some i)
    (hd : i.data = .equalTo p) : HasVal c x = HasVal c p := by
  funext d
  apply propext
  constructor
  · rintro ⟨r, b, hc, ho, hs⟩
    cases hc with
    | refl =>
      obtain ⟨i', hi', hd'⟩ := ho
      rw [hi] at hi'; cases hi'; rw [hd] at hd'; cases hd'
    | step hi' hd' hc' =>
      rw [hi] at hi'; cases hi'; rw [hd] at hd'; cases hd'
      exact ⟨r, b, hc', ho, hs⟩
  · rintro ⟨r, b, hc, ho, hs⟩
    exact ⟨r, b, .step hi hd hc, ho, hs⟩

theorem hasVal_root {c : Ctx} {r b : Nat} {d d' : Ty} (ho : Owner c r b)
    (hs : c.slab[b]? = some (Bound.complete d)) (h : HasVal c r d') : d' = d := by
  obtain ⟨r', b', hc, ho', hs'⟩ := h
  cases hc with
  | refl =>
    have := Owner.unique ho ho'
    subst this
    rw [hs] at hs'; cases hs'; rfl
  | step hi hd _ =>
    obtain ⟨i', hi', hd'⟩ := ho
    rw [hi] at hi'; cases hi'; rw [hd] at hd'; cases hd'

theorem reader_reads (c : Ctx) : Reads (reader c) c := by
  constructor
  · intro e i p hi hd
    unfold reader
    rw [hasVal_link hi hd]
  · intro e b B ho hs
    cases B with
    | complete d =>
      show reader c e = d
      have hex : ∃ d', HasVal c e d' := ⟨d, e, b, .refl e, ho, hs⟩
      unfold reader pick
      rw [dif_pos hex]
      exact hasVal_root ho hs (Classical.choose_spec hex)
    | _ => trivial

theorem reader_out_of_range {c : Ctx} {x : Nat} (h : c.elems.size ≤ x) : reader c x = .one := by
  unfold reader pick
  rw [dif_neg]
  rintro ⟨d, r, b, hc, ⟨i, hi, _⟩, _⟩
  have hn : c.elems[x]? = none := Array.getElem?_eq_none h
  cases hc with
  | refl => rw [hn] at hi; cases hi
  | step hi' _ _ => rw [hn] at hi'; cases hi'

/-- every root holds a complete bound -/
def AllFinal (c : Ctx) : Prop := ∀ e b, Owner c e b → ∃ d, c.slab[b]? = some (Bound.complete d)

/-- **soundness of reading**: if `c` came from `c₀` by finalisation steps and every root of `c` is
complete, the reader of `c` is an assignment of `c₀` -/
theorem reader_solves {c₀ c : Ctx} (k : KInv c₀ c) (hall : AllFinal c) : SolSt (reader c) c₀ := by
  have hr := reader_reads c
  refine ⟨k.fin.mono.par _ hr.1, fun e b B₀ ho hs => ?_⟩
  have ho' := k.fin.owner _ _ ho
  obtain ⟨d, hd⟩ := hall e b ho'
  exact k.just _ hr e b d B₀ ho' hd hs

theorem reader_value {c : Ctx} {x : Nat} {t : Ty} (h : CompleteAt c x t) : reader c x = t := by
  obtain ⟨r, b, ho, hs, hp⟩ := h
  have hr := reader_reads c
  rw [hp _ hr.1]
  exact hr.2 r b _ ho hs

/-! ### chains of finalisations -/

structure FChain (c c' : Ctx) : Prop where
  fin : FinStep c c'
  wf : WF c'
  sup : ∀ ρ, SuperSol ρ c → SuperSol ρ c'
  kinv : ∀ c₀, KInv c₀ c → KInv c₀ c'

theorem FChain.refl {c : Ctx} (w : WF c) : FChain c c :=
  ⟨FinStep.refl c, w, fun _ h => h, fun _ h => h⟩

theorem FChain.trans {a b c : Ctx} (h : FChain a b) (h' : FChain b c) : FChain a c :=
  ⟨h.fin.trans h'.fin, h'.wf, fun ρ s => h'.sup ρ (h.sup ρ s), fun c₀ k => h'.kinv c₀ (h.kinv c₀ k)⟩

theorem TFin.chain {c c' : Ctx} {x : Nat} {t : Ty} (h : TFin c x c' t) : FChain c c' :=
  ⟨h.fin, h.wf, fun ρ s => (h.sup ρ s).1, h.kinv⟩

end UB
