/-
C17 — programs ↔ statement lists.

`fromProgram`: `Forest::from_program` + `string_serialize` on a typed plan: conversion under
`MaxSharing<Commit>` (nodes with one identity hash become one named node, nodes without identity
hash — witnesses, disconnects and their ancestors — are never shared), the `Namer`'s three
counters, `main` for the node with the root's CMR, `hole<k>` for disconnects; then the pointer
walk of the named DAG, lines sorted into witnesses / constants / program code.

`toPlan`: name resolution of a parsed statement list (`parse_inner` steps 1–3 and the
witness/disconnect path count), giving back a plan whose roots `Prog.cmrs` recomputes.
-/
import SimplicityModel.HumanText
import SimplicityModel.Prog.Codec

namespace HT
open BM4 (Ty)
open Prog (Node Plan)

/-! ### plan → statements -/

def nibblesOfBytes (bs : List Nat) : List Nat := bs.flatMap fun b => [b / 16, b % 16]
def bytesOfNibbles : List Nat → List Nat
  | a :: b :: r => (16 * a + b) :: bytesOfNibbles r
  | _ => []

def cmrNibbles (h : Nat) : List Nat := nibblesOfBytes (Sha2.bytesOfNat h 32)
def cmrOfNibbles (ns : List Nat) : Nat := Sha2.natOfBytes (bytesOfNibbles ns)

/-- `Prog.tmrF` with a memo table (association list; the types of one program are few) -/
def tmrMemo : Ty → List (Ty × Nat) → Nat × List (Ty × Nat)
  | .one, memo => (Prog.ivTyUnit, memo)
  | .sum a b, memo =>
    match memo.find? (·.1 == Ty.sum a b) with
    | some (_, h) => (h, memo)
    | none =>
      match Prog.isWord (.sum a b) with
      | some n => let h := Prog.tmrWord n; (h, (.sum a b, h) :: memo)
      | none =>
        let (ha, memo) := tmrMemo a memo
        let (hb, memo) := tmrMemo b memo
        let h := Sha2.update2 Prog.ivTySum ha hb
        (h, (.sum a b, h) :: memo)
  | .prod a b, memo =>
    match memo.find? (·.1 == Ty.prod a b) with
    | some (_, h) => (h, memo)
    | none =>
      match Prog.isWord (.prod a b) with
      | some n => let h := Prog.tmrWord n; (h, (.prod a b, h) :: memo)
      | none =>
        let (ha, memo) := tmrMemo a memo
        let (hb, memo) := tmrMemo b memo
        let h := Sha2.update2 Prog.ivTyProd ha hb
        (h, (.prod a b, h) :: memo)

/-- identity hash of every node of a commit-time plan (`none`: contains a witness or disconnect) -/
def ihrs (jetCmr : String → Option Nat) (p : Plan) (arrows : Array (Ty × Ty)) : Array (Option Nat) :=
  let imrs : Array (Option Nat) := p.foldl (init := #[]) fun acc nd =>
    let g (i : Nat) : Option Nat := acc.getD i none
    let up := Sha2.update2
    let v : Option Nat :=
      match nd with
      | .iden => some Prog.ivIden
      | .unit => some Prog.ivUnit
      | .injl c => (g c).map (up Prog.ivInjl 0)
      | .injr c => (g c).map (up Prog.ivInjr 0)
      | .take c => (g c).map (up Prog.ivTake 0)
      | .drop c => (g c).map (up Prog.ivDrop 0)
      | .comp a b => do let x ← g a; let y ← g b; pure (up Prog.ivComp x y)
      | .case a b => do let x ← g a; let y ← g b; pure (up Prog.ivCase x y)
      | .pair a b => do let x ← g a; let y ← g b; pure (up Prog.ivPair x y)
      | .assertl a h => (g a).map fun x => up Prog.ivCase x h
      | .assertr h b => (g b).map fun y => up Prog.ivCase h y
      | .disconnect _ _ => none
      | .witness => none
      | .fail e => let (l, r) := Prog.failBlock e; some (up Prog.ivFail l r)
      | .word n bits => some (Prog.cmrWord n bits)
      | .jet name => jetCmr name
      | .hidden h => some h
    acc.push v
  -- `Prog.ihrOf` with the type roots memoised over the whole plan (the same types recur at many nodes)
  ((List.range p.size).foldl (init := ((#[] : Array (Option Nat)), ([] : List (Ty × Nat)))) fun (acc, memo) i =>
    match imrs.getD i none with
    | none => (acc.push none, memo)
    | some m =>
      let (a, b) := arrows.getD i (.one, .one)
      let (ha, memo) := tmrMemo a memo
      let (hb, memo) := tmrMemo b memo
      (acc.push (some (Sha2.update2 (Sha2.update2 Prog.ivIdentity 0 m) ha hb)), memo)).1

/-- children in the commit-time DAG (a disconnect has only its left child) -/
def commitChildren (p : Plan) (i : Nat) : List Nat :=
  match p[i]? with
  | some (.disconnect a _) => [a]
  | some nd => nd.children
  | none => []

structure Namer where
  const : Nat := 0
  wit : Nat := 0
  other : Nat := 0

def natChars (n : Nat) : List Char := (Nat.repr n).toList

/-- `Namer::assign_name` -/
def Namer.assign (nm : Namer) (nd : Node) : Name × Namer :=
  let other (pre : String) : Name × Namer := (pre.toList ++ natChars (nm.other + 1), { nm with other := nm.other + 1 })
  match nd with
  | .iden => other "id" | .unit => other "ut" | .injl _ => other "jl" | .injr _ => other "jr"
  | .drop _ => other "dp" | .take _ => other "tk" | .comp _ _ => other "cp" | .case _ _ => other "cs"
  | .assertl _ _ => other "asstl" | .assertr _ _ => other "asstr" | .pair _ _ => other "pr"
  | .disconnect _ _ => other "disc"
  | .witness => ("wit".toList ++ natChars (nm.wit + 1), { nm with wit := nm.wit + 1 })
  | .fail _ => other "FAIL" | .jet _ => other "jt"
  | .word _ _ => ("const".toList ++ natChars (nm.const + 1), { nm with const := nm.const + 1 })
  | .hidden _ => other "hidden"

/-- the named nodes produced by `NamedCommitNode::from_node`, in conversion order:
(plan index, name, hole name, left index, right index) -/
structure Named where
  node : Nat
  name : Name
  hole : Name
  lidx : Option Nat
  ridx : Option Nat

def nameAll (p : Plan) (cm : Array Nat) (outs : Array Prog.WOut) : Array Named :=
  let rootCmr := cm.getD (p.size - 1) 0
  (outs.foldl (init := ((#[] : Array Named), ({} : Namer))) fun (acc, nm) o =>
    let nd := p.getD o.node .unit
    -- `convert_disconnect` runs before `convert_data`
    let (hole, nm) : Name × Namer :=
      match nd with
      | .disconnect _ _ => ("hole".toList ++ natChars nm.other, { nm with other := nm.other + 1 })
      | _ => ([], nm)
    let (name, nm) : Name × Namer :=
      if cm.getD o.node 0 = rootCmr then ("main".toList, nm) else nm.assign nd
    (acc.push ⟨o.node, name, hole, o.lidx, o.ridx⟩, nm)).1

def bitsNibbleWord (bits : List Bool) : List Bool := bits

/-- the expression of a named node -/
def exprOf (p : Plan) (named : Array Named) (x : Named) : Expr :=
  let nm (i : Option Nat) : Name := match i with
    | some i => (named[i]?.map (·.name)).getD []
    | none => []
  match p.getD x.node .unit with
  | .iden => .iden | .unit => .unit | .witness => .witness
  | .injl _ => .injl (nm x.lidx) | .injr _ => .injr (nm x.lidx)
  | .take _ => .take (nm x.lidx) | .drop _ => .drop (nm x.lidx)
  | .comp _ _ => .comp (nm x.lidx) (nm x.ridx)
  | .case _ _ => .case (nm x.lidx) (nm x.ridx)
  | .pair _ _ => .pair (nm x.lidx) (nm x.ridx)
  | .assertl _ h => .assertl (nm x.lidx) (cmrNibbles h)
  | .assertr h _ => .assertr (cmrNibbles h) (nm x.lidx)
  | .disconnect _ _ => .disconnect (nm x.lidx) x.hole
  | .fail e => .fail (nibblesOfBytes e)
  | .jet name => .jet name.toList
  | .word n bits => .word n bits
  | .hidden h => .fail (cmrNibbles h)

/-- `Forest::from_program(commit).string_serialize()` as a statement list:
witnesses, constants, program code -/
def fromProgram (jetCmr : String → Option Nat) (p : Plan) (arrows : Array (Ty × Ty)) : Option (List Stmt) := do
  let cm ← Prog.cmrs jetCmr p
  let ih := ihrs jetCmr p arrows
  let root := p.size - 1
  -- conversion walk (MaxSharing: key = identity hash)
  let (st, _) := Prog.walk (K := Nat) (commitChildren p) (fun i => ih.getD i none) (p.size + 1) root ⟨#[], [], 0⟩
  let named := nameAll p cm st.outs
  -- rendering walk (InternalSharing on the named DAG: key = the named node itself)
  let kids (j : Nat) : List Nat :=
    match named[j]? with
    | some x => (match x.lidx with | some l => [l] | none => []) ++ (match x.ridx with | some r => [r] | none => [])
    | none => []
  let (st2, _) := Prog.walk (K := Nat) kids (fun j => some j) (named.size + 1) (named.size - 1) ⟨#[], [], 0⟩
  let stmts : List (Node × Stmt) := st2.outs.toList.filterMap fun o =>
    named[o.node]?.map fun x =>
      let (a, b) := arrows.getD x.node (.one, .one)
      (p.getD x.node .unit, ⟨x.name, exprOf p named x, a, b⟩)
  let isWit (nd : Node) : Bool := match nd with | .witness => true | _ => false
  let isWord (nd : Node) : Bool := match nd with | .word _ _ => true | _ => false
  pure ((stmts.filter (isWit ·.1)).map (·.2) ++ (stmts.filter (isWord ·.1)).map (·.2) ++
    (stmts.filter fun s => !isWit s.1 && !isWord s.1).map (·.2))

/-! ### statements → plan -/

def kidsOf : Expr → List Name
  | .injl c | .injr c | .take c | .drop c => [c]
  | .comp a b | .case a b | .pair a b => [a, b]
  | .assertl a _ => [a] | .assertr _ b => [b] | .disconnect a _ => [a]
  | _ => []

def nodeOf (e : Expr) (ix : List Nat) : Node :=
  let c0 := ix.getD 0 0
  let c1 := ix.getD 1 0
  match e with
  | .iden => .iden | .unit => .unit | .witness => .witness
  | .injl _ => .injl c0 | .injr _ => .injr c0 | .take _ => .take c0 | .drop _ => .drop c0
  | .comp _ _ => .comp c0 c1 | .case _ _ => .case c0 c1 | .pair _ _ => .pair c0 c1
  | .assertl _ h => .assertl c0 (cmrOfNibbles h)
  | .assertr h _ => .assertr (cmrOfNibbles h) c0
  | .disconnect _ _ => .disconnect c0 none
  | .fail e => .fail (bytesOfNibbles e)
  | .jet n => .jet (String.ofList n)
  | .word n bits => .word n bits

structure Build where
  plan : Array Node := #[]
  stmts : Array Stmt := #[]
  done : List (Name × Nat) := []

/-- depth-first construction from a name (children before parents); `stack` detects cycles -/
def buildFrom (ss : List Stmt) : Nat → List Name → Name → Build → Option (Build × Nat)
  | 0, _, _, _ => none
  | f + 1, stack, n, b =>
    match b.done.find? (·.1 = n) with
    | some (_, i) => some (b, i)
    | none =>
      if stack.contains n then none else
      match ss.find? (·.name = n) with
      | none => none
      | some s =>
        let rec go (ks : List Name) (b : Build) (acc : List Nat) : Option (Build × List Nat) :=
          match ks with
          | [] => some (b, acc.reverse)
          | k :: ks =>
            match buildFrom ss f (n :: stack) k b with
            | some (b', i) => go ks b' (i :: acc)
            | none => none
        match go (kidsOf s.expr) b [] with
        | none => none
        | some (b', ix) =>
          let i := b'.plan.size
          some ({ plan := b'.plan.push (nodeOf s.expr ix), stmts := b'.stmts.push s, done := (n, i) :: b'.done }, i)

def startsWith (s pre : List Char) : Bool := s.take pre.length == pre

/-- names the parser refuses (`NameIllegal`) -/
def illegalName (n : Name) : Bool := n == ['_'] || startsWith n "prim".toList

def hasDup : List Name → Bool
  | [] => false
  | n :: ns => ns.contains n || hasDup ns

/-- number of paths from the root to each node, top down over a plan (children have smaller indices) -/
def pathCounts (p : Array Node) : Array Nat :=
  let n := p.size
  (List.range n).foldl (init := (Array.replicate n 0).set! (n - 1) 1) fun cnt k =>
    let i := n - 1 - k
    let c := cnt.getD i 0
    (commitChildren p i).foldl (fun cnt ch => cnt.set! ch (cnt.getD ch 0 + c)) cnt

inductive ParseRes
  | ok (plan : Array Node) (stmts : Array Stmt) (roots : Nat)
  | err (why : String)

/-- steps 1–3 of `parse_inner` on a statement list of the flat grammar, `main` only -/
def toPlan (ss : List Stmt) : ParseRes :=
  let names := ss.map (·.name)
  if names.any illegalName then .err "name-illegal"
  else if hasDup names then .err "name-repeated"
  else
    let referenced : List Name := ss.flatMap fun s => kidsOf s.expr
    if referenced.any fun r => !names.contains r then .err "name-missing" else
    let roots := names.filter fun n => !referenced.contains n
    if !roots.contains "main".toList then .err "no-main" else
    match buildFrom ss (ss.length + 1) [] "main".toList {} with
    | none => .err "cycle"
    | some (b, _) =>
      let cnt := pathCounts b.plan
      let rep := (List.range b.plan.size).any fun i =>
        match b.plan.getD i .unit with
        | .witness | .disconnect _ _ => cnt.getD i 0 > 1
        | _ => false
      if rep then .err "witness-repeated" else .ok b.plan b.stmts roots.length

end HT
