import SimplicityModel.Machine4 -- (spike: module Spk.Machine4 = spikes/Machine.lean)
/-
Spike: C08 — semantic core of pruning.  A program whose untaken case branches are replaced by
hidden nodes and whose types shrink (unit in place of anything) computes, on the pruned input, the
pruned output.
-/
namespace BM4

inductive Le : Ty → Ty → Prop
  | one (t) : Le .one t
  | sum {a a' b b'} : Le a a' → Le b b' → Le (.sum a b) (.sum a' b')
  | prod {a a' b b'} : Le a a' → Le b b' → Le (.prod a b) (.prod a' b')

/-- `Value::prune` (total version; agrees with the partial one on well-typed arguments, below) -/
def pr : Ty → Val → Val
  | .one, _ => .unit
  | .sum a _, .inl v => .inl (pr a v)
  | .sum _ b, .inr v => .inr (pr b v)
  | .prod a b, .pair x y => .pair (pr a x) (pr b y)
  | _, v => v

theorem pr_self : ∀ {v t}, HasTy v t → pr t v = v
  | _, _, .unit => rfl
  | _, _, .inl h => by simp [pr, pr_self h]
  | _, _, .inr h => by simp [pr, pr_self h]
  | _, _, .pair h1 h2 => by simp [pr, pr_self h1, pr_self h2]

theorem pr_hasTy : ∀ {v t}, HasTy v t → ∀ {t'}, Le t' t → HasTy (pr t' v) t'
  | _, _, _, _, .one _ => .unit
  | _, _, .inl h, _, .sum la _ => by simp only [pr]; exact .inl (pr_hasTy h la)
  | _, _, .inr h, _, .sum _ lb => by simp only [pr]; exact .inr (pr_hasTy h lb)
  | _, _, .pair h1 h2, _, .prod la lb => by simp only [pr]; exact .pair (pr_hasTy h1 la) (pr_hasTy h2 lb)

/-- `t'` is `t` with types shrunk and with the case branches not taken *on input `v`* hidden -/
inductive ShrinkOn : {a' b' a b : Ty} → Term a' b' → Term a b → Val → Prop
  | iden {a' a v} : ShrinkOn (Term.iden (a := a')) (Term.iden (a := a)) v
  | unit {a' a v} : ShrinkOn (Term.unit (a := a')) (Term.unit (a := a)) v
  | injl {a' b' c' a b c v} {t' : Term a' b'} {t : Term a b} :
      ShrinkOn t' t v → ShrinkOn (Term.injl (c := c') t') (Term.injl (c := c) t) v
  | injr {a' b' c' a b c v} {t' : Term a' c'} {t : Term a c} :
      ShrinkOn t' t v → ShrinkOn (Term.injr (b := b') t') (Term.injr (b := b) t) v
  | take {a' b' c' a b c x y} {t' : Term a' c'} {t : Term a c} :
      ShrinkOn t' t x → ShrinkOn (Term.take (b := b') t') (Term.take (b := b) t) (.pair x y)
  | drop {a' b' c' a b c x y} {t' : Term b' c'} {t : Term b c} :
      ShrinkOn t' t y → ShrinkOn (Term.drop (a := a') t') (Term.drop (a := a) t) (.pair x y)
  | comp {a' b' c' a b c v} {s' : Term a' b'} {t' : Term b' c'} {s : Term a b} {t : Term b c} :
      ShrinkOn s' s v → (∀ x, eval s v = some x → ShrinkOn t' t x) →
      ShrinkOn (Term.comp s' t') (Term.comp s t) v
  | pair {a' b' c' a b c v} {s' : Term a' b'} {t' : Term a' c'} {s : Term a b} {t : Term a c} :
      ShrinkOn s' s v → ShrinkOn t' t v → ShrinkOn (Term.pair s' t') (Term.pair s t) v
  -- a case node whose left branch is taken: kept (any right branch), or turned into an assertion
  | caseL {a' b' c' d' a b c d x z} {s' : Term (.prod a' c') d'} {t' : Term (.prod b' c') d'}
      {s : Term (.prod a c) d} {t : Term (.prod b c) d} :
      ShrinkOn s' s (.pair x z) → ShrinkOn (Term.case s' t') (Term.case s t) (.pair (.inl x) z)
  | caseR {a' b' c' d' a b c d y z} {s' : Term (.prod a' c') d'} {t' : Term (.prod b' c') d'}
      {s : Term (.prod a c) d} {t : Term (.prod b c) d} :
      ShrinkOn t' t (.pair y z) → ShrinkOn (Term.case s' t') (Term.case s t) (.pair (.inr y) z)
  | hideR {a' b' c' d' a b c d x z} {s' : Term (.prod a' c') d'}
      {s : Term (.prod a c) d} {t : Term (.prod b c) d} :
      ShrinkOn s' s (.pair x z) → ShrinkOn (Term.assertl (b := b') s') (Term.case s t) (.pair (.inl x) z)
  | hideL {a' b' c' d' a b c d y z} {t' : Term (.prod b' c') d'}
      {s : Term (.prod a c) d} {t : Term (.prod b c) d} :
      ShrinkOn t' t (.pair y z) → ShrinkOn (Term.assertr (a := a') t') (Term.case s t) (.pair (.inr y) z)
  | assertl {a' b' c' d' a b c d x z} {s' : Term (.prod a' c') d'} {s : Term (.prod a c) d} :
      ShrinkOn s' s (.pair x z) →
      ShrinkOn (Term.assertl (b := b') s') (Term.assertl (b := b) s) (.pair (.inl x) z)
  | assertr {a' b' c' d' a b c d y z} {t' : Term (.prod b' c') d'} {t : Term (.prod b c) d} :
      ShrinkOn t' t (.pair y z) →
      ShrinkOn (Term.assertr (a := a') t') (Term.assertr (a := a) t) (.pair (.inr y) z)
  | witness {a' b' a b v w} :
      ShrinkOn (Term.witness (a := a') (b := b') (pr b' w)) (Term.witness (a := a) (b := b) w) v
  | word {a' a b v w} : HasTy w b →
      ShrinkOn (Term.word (a := a') (b := b) w) (Term.word (a := a) (b := b) w) v
  -- jets keep their (fixed) types
  | jet {a b v jf f} : HasTy v a → (∀ o, f v = some o → HasTy o b) →
      ShrinkOn (Term.jet (a := a) (b := b) jf f) (Term.jet (a := a) (b := b) jf f) v
  | disconnect {a' b' c' d' a b c d w cw v} {s' : Term (.prod w a') (.prod b' c')} {t' : Term c' d'}
      {s : Term (.prod w a) (.prod b c)} {t : Term c d} : HasTy cw w →
      ShrinkOn s' s (.pair cw v) →
      (∀ x y, eval s (.pair cw v) = some (.pair x y) → ShrinkOn t' t y) →
      ShrinkOn (Term.disconnect w cw s' t') (Term.disconnect w cw s t) v

/-- **C08, semantic core**: the pruned, re-typed program maps the pruned input to the pruned output -/
theorem eval_shrink {a' b' a b : Ty} {t' : Term a' b'} {t : Term a b} {v : Val}
    (h : ShrinkOn t' t v) : ∀ out, eval t v = some out → eval t' (pr a' v) = some (pr b' out) := by
  induction h with
  | iden => intro out he; simp only [eval] at he ⊢; cases he; rfl
  | unit => intro out he; simp [eval, pr]
  | injl _ ih =>
    intro out he
    simp only [eval, Option.map_eq_some_iff] at he
    obtain ⟨o, h0, rfl⟩ := he
    simp [eval, ih o h0, pr]
  | injr _ ih =>
    intro out he
    simp only [eval, Option.map_eq_some_iff] at he
    obtain ⟨o, h0, rfl⟩ := he
    simp [eval, ih o h0, pr]
  | take _ ih => intro out he; simp only [eval, pr] at he ⊢; exact ih out he
  | drop _ ih => intro out he; simp only [eval, pr] at he ⊢; exact ih out he
  | comp _ _ ih1 ih2 =>
    intro out he
    simp only [eval, Option.bind_eq_some_iff] at he
    obtain ⟨x, h0, h1⟩ := he
    simp only [eval, ih1 x h0, Option.bind]
    exact ih2 x h0 out h1
  | pair _ _ ih1 ih2 =>
    intro out he
    simp only [eval, Option.bind_eq_some_iff, Option.map_eq_some_iff] at he
    obtain ⟨x, h1, y, h2, rfl⟩ := he
    simp [eval, ih1 x h1, ih2 y h2, pr]
  | caseL _ ih => intro out he; simp only [eval, pr] at he ⊢; exact ih out he
  | caseR _ ih => intro out he; simp only [eval, pr] at he ⊢; exact ih out he
  | hideR _ ih => intro out he; simp only [eval, pr] at he ⊢; exact ih out he
  | hideL _ ih => intro out he; simp only [eval, pr] at he ⊢; exact ih out he
  | assertl _ ih => intro out he; simp only [eval, pr] at he ⊢; exact ih out he
  | assertr _ ih => intro out he; simp only [eval, pr] at he ⊢; exact ih out he
  | witness => intro out he; simp only [eval] at he ⊢; cases he; rfl
  | word hw => intro out he; simp only [eval] at he ⊢; cases he; rw [pr_self hw]
  | jet hv ho =>
    intro out he
    simp only [eval] at he ⊢
    rw [pr_self hv, he, pr_self (ho out he)]
  | disconnect hcw _ _ ih1 ih2 =>
    intro out he
    simp only [eval, Option.bind_eq_some_iff] at he
    obtain ⟨r, h0, h1⟩ := he
    have := ih1 r h0
    simp only [pr, pr_self hcw] at this
    simp only [eval, this, Option.bind]
    cases r with
    | pair x y =>
      simp only [Option.map_eq_some_iff] at h1
      obtain ⟨z, h2, rfl⟩ := h1
      simp [pr, ih2 x y h0 z h2]
    | unit => simp at h1
    | inl _ => simp at h1
    | inr _ => simp at h1

#print axioms eval_shrink
end BM4
