import SimplicityModel.Human
/-
Spike: C18 — `is_shared_as`: zipping the pointer-sharing walk with the requested-sharing walk and
comparing pointers accepts exactly when the two walks visit the same node objects in the same order.
-/
namespace PO
variable {K : Type} [DecidableEq K] (key : T → Option K)

def T.size : T → Nat
  | .leaf _ => 1
  | .un _ l => l.size + 1
  | .bin _ l r => l.size + r.size + 1

theorem Desc.size_le {p d : T} (h : Desc p d) : d.size ≤ p.size := by
  induction h with
  | refl => exact Nat.le_refl _
  | @left p c d hl _ ih =>
    cases p <;> simp [T.left] at hl <;> subst hl <;> simp only [T.size] <;> omega
  | @right p c d hl _ ih =>
    cases p <;> simp [T.right] at hl <;> subst hl <;> simp only [T.size] <;> omega

/-- every output of a visit except possibly the last is strictly smaller than the visited handle -/
theorem visit_nonlast_small : ∀ (t : T) (seen : Seen K) (idx : Nat) (i : Nat) (o : Out),
    (visit key t seen idx).1[i]? = some o → i + 1 < (visit key t seen idx).1.length →
    o.node.size < t.size := by
  have hfin : ∀ (t : T) (li ri : Option Nat) (sub : List Out) (seen : Seen K) (idx : Nat),
      (∀ o ∈ sub, o.node.size < t.size) → ∀ (i : Nat) (o : Out),
      (visit.fin key t li ri sub seen idx).1[i]? = some o →
      i + 1 < (visit.fin key t li ri sub seen idx).1.length → o.node.size < t.size := by
    intro t li ri sub seen idx hsub i o ho hi
    unfold visit.fin at ho hi
    cases hr : record key seen t idx with
    | mk a s' =>
      rw [hr] at ho hi
      cases a with
      | some j => exact hsub o (List.mem_of_getElem? ho)
      | none =>
        simp only [List.length_append, List.length_singleton] at hi
        simp only [] at ho
        rw [List.getElem?_append_left (by omega)] at ho
        exact hsub o (List.mem_of_getElem? ho)
  intro t
  cases t with
  | leaf id =>
    intro seen idx i o ho hi
    simp only [visit] at ho hi
    exact hfin _ _ _ [] _ _ (by simp) i o ho hi
  | un id l =>
    intro seen idx i o ho hi
    simp only [visit] at ho hi
    cases hs : seenBefore key seen l with
    | some j => rw [hs] at ho hi; exact hfin _ _ _ [] _ _ (by simp) i o ho hi
    | none =>
      rw [hs] at ho hi
      refine hfin _ _ _ _ _ _ (fun o' ho' => ?_) i o ho hi
      have := (visit_desc key l seen idx o' ho').size_le
      simp only [T.size]; omega
  | bin id l r =>
    intro seen idx i o ho hi
    simp only [visit] at ho hi
    cases hsl : seenBefore key seen l <;> cases hsr : seenBefore key seen r <;> rw [hsl, hsr] at ho hi
    · refine hfin _ _ _ _ _ _ (fun o' ho' => ?_) i o ho hi
      simp only [List.mem_append] at ho'
      rcases ho' with ho' | ho'
      · have := (visit_desc key l _ _ o' ho').size_le; simp only [T.size]; omega
      · have := (visit_desc key r _ _ o' ho').size_le; simp only [T.size]; omega
    · refine hfin _ _ _ _ _ _ (fun o' ho' => ?_) i o ho hi
      have := (visit_desc key l _ _ o' ho').size_le; simp only [T.size]; omega
    · refine hfin _ _ _ _ _ _ (fun o' ho' => ?_) i o ho hi
      have := (visit_desc key r _ _ o' ho').size_le; simp only [T.size]; omega
    · exact hfin _ _ _ [] _ _ (by simp) i o ho hi

/-- the policy never identifies the root with one of its proper descendants -/
def RootFresh (root : T) : Prop :=
  ∀ d, Desc root d → d ≠ root → ∀ k, key root = some k → key d ≠ some k

/-- the root object is yielded last, and nowhere else -/
theorem root_last (root : T) (hf : RootFresh key root) :
    let outs := (visit key root (fun _ => none) 0).1
    (∃ o, outs[outs.length - 1]? = some o ∧ o.node = root ∧ 0 < outs.length) ∧
    ∀ i o, outs[i]? = some o → o.node = root → i + 1 = outs.length := by
  intro outs
  have huniq : ∀ i o, outs[i]? = some o → o.node = root → i + 1 = outs.length := by
    intro i o ho hr
    have hi : i < outs.length := by
      rcases Nat.lt_or_ge i outs.length with h | h
      · exact h
      · rw [List.getElem?_eq_none h] at ho; cases ho
    rcases Nat.lt_or_ge (i + 1) outs.length with h | h
    · have := visit_nonlast_small key root _ 0 i o ho h
      rw [hr] at this; omega
    · omega
  refine ⟨?_, huniq⟩
  obtain ⟨_, hlen, ⟨o, ho, hs⟩⟩ := visit_root key root
  have hd := visit_desc key root (fun _ => none) 0 o (List.mem_of_getElem? ho)
  have hroot : o.node = root := by
    rcases hs with h | ⟨k, h1, h2⟩
    · exact h
    · exact Classical.byContradiction fun hne => hf o.node hd hne k h2 h1
  have := huniq _ o ho hroot
  refine ⟨o, ?_, hroot, by omega⟩
  rw [show outs.length - 1 = (visit key root (fun _ => none) 0).2.2.2 by omega]
  exact ho

/-- `is_shared_as`: zip the two walks, compare pointers -/
def isSharedAs (root : T) : Bool :=
  ((visit ptr root (fun _ => none) 0).1.zip (visit key root (fun _ => none) 0).1).all
    fun p => p.1.node.id == p.2.node.id

theorem rootFresh_ptr (root : T) (hi : IdsFaithful root) : RootFresh ptr root := by
  intro d hd hne k hk hkd
  simp only [ptr, Option.some.injEq] at hk hkd
  exact hne (hi d root hd (.refl root) (by omega))

/-- **C18, sharing check**: accepted exactly when the walk under the requested sharing visits the
same node objects, in the same order, as the walk under pointer sharing -/
theorem isSharedAs_iff (root : T) (hi : IdsFaithful root) (hf : RootFresh key root) :
    isSharedAs key root = true ↔
      (visit ptr root (fun _ => none) 0).1.map (·.node.id) =
      (visit key root (fun _ => none) 0).1.map (·.node.id) := by
  generalize hP : (visit ptr root (fun _ => none) 0).1 = P
  generalize hK : (visit key root (fun _ => none) 0).1 = Kk
  have hPl := root_last ptr root (rootFresh_ptr root hi)
  have hKl := root_last key root hf
  simp only [hP] at hPl
  simp only [hK] at hKl
  obtain ⟨⟨oP, hoP, hrP, hposP⟩, huP⟩ := hPl
  obtain ⟨⟨oK, hoK, hrK, hposK⟩, huK⟩ := hKl
  have hdP : ∀ o ∈ P, Desc root o.node := by rw [← hP]; exact visit_desc ptr root _ 0
  have hdK : ∀ o ∈ Kk, Desc root o.node := by rw [← hK]; exact visit_desc key root _ 0
  unfold isSharedAs
  rw [hP, hK]
  constructor
  · intro h
    have hpt : ∀ (i : Nat) (a b : Out), P[i]? = some a → Kk[i]? = some b → a.node.id = b.node.id := by
      intro i a b ha hb
      have hz : (P.zip Kk)[i]? = some (a, b) := by
        rw [List.getElem?_zip_eq_some]; exact ⟨ha, hb⟩
      have := List.all_eq_true.1 h (a, b) (List.mem_of_getElem? hz)
      simpa using this
    have hlen : P.length = Kk.length := by
      rcases Nat.le_total P.length Kk.length with hle | hle
      · -- the root object sits at |P|-1 in both
        have hb : (P.length - 1) < Kk.length := by omega
        have hget : Kk[P.length - 1]? = some (Kk[P.length - 1]) := List.getElem?_eq_getElem hb
        have hid := hpt _ _ _ hoP hget
        have : (Kk[P.length - 1]).node = root := by
          apply hi _ _ (hdK _ (List.mem_of_getElem? hget)) (.refl root)
          rw [← hid, hrP]
        have := huK _ _ hget this
        omega
      · have hb : (Kk.length - 1) < P.length := by omega
        have hget : P[Kk.length - 1]? = some (P[Kk.length - 1]) := List.getElem?_eq_getElem hb
        have hid := hpt _ _ _ hget hoK
        have : (P[Kk.length - 1]).node = root := by
          apply hi _ _ (hdP _ (List.mem_of_getElem? hget)) (.refl root)
          rw [hid, hrK]
        have := huP _ _ hget this
        omega
    apply List.ext_getElem?
    intro i
    simp only [List.getElem?_map]
    by_cases hiP : i < P.length
    · have ha : P[i]? = some P[i] := List.getElem?_eq_getElem hiP
      have hb : Kk[i]? = some (Kk[i]'(by omega)) := List.getElem?_eq_getElem (by omega)
      rw [ha, hb]
      simp only [Option.map_some]
      rw [hpt i _ _ ha hb]
    · rw [List.getElem?_eq_none (by omega), List.getElem?_eq_none (by omega)]
  · intro h
    rw [List.all_eq_true]
    intro ⟨a, b⟩ hab
    obtain ⟨i, hi'⟩ := List.getElem?_of_mem hab
    rw [List.getElem?_zip_eq_some] at hi'
    have h1 : (P.map (·.node.id))[i]? = some a.node.id := by simp [hi'.1]
    have h2 : (Kk.map (·.node.id))[i]? = some b.node.id := by simp [hi'.2]
    rw [h] at h1
    rw [h1] at h2
    simpa using h2

#print axioms isSharedAs_iff
end PO
