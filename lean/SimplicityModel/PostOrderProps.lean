import SimplicityModel.PostOrder
/-
Spike: C18 — the recursive specification `visit` yields every sharing class exactly once, children
first, consecutively numbered, with the true indices of the children.
-/
namespace PO
variable {K : Type} [DecidableEq K] (key : T → Option K)

/-- `a` is (a representative of the sharing class of) `c` -/
def Same (a c : T) : Prop := a = c ∨ ∃ k, key a = some k ∧ key c = some k

def Rep (outs : List Out) (j : Nat) (c : T) : Prop := ∃ o, outs[j]? = some o ∧ Same key o.node c

def ChildOK (outs : List Out) (idx : Nat) (child : Option T) (ci : Option Nat) : Prop :=
  match child with
  | none => ci = none
  | some c => ∃ j, ci = some j ∧ j < idx ∧ Rep key outs j c

structure Inv (seen : Seen K) (outs : List Out) : Prop where
  /-- items are numbered consecutively from 0 -/
  idx : ∀ (i : Nat) (o : Out), outs[i]? = some o → o.index = i
  /-- the tracker knows exactly the keyed nodes yielded so far, at their indices -/
  seen : ∀ (k : K) (i : Nat), seen k = some i ↔ ∃ o : Out, outs[i]? = some o ∧ key o.node = some k
  /-- each item reports the earlier indices at which its actual children (their classes) were yielded -/
  kids : ∀ (i : Nat) (o : Out), outs[i]? = some o →
    ChildOK key outs i o.node.left o.lidx ∧ ChildOK key outs i o.node.right o.ridx

theorem get_append_left {outs more : List Out} {i : Nat} {o : Out} (h : outs[i]? = some o) :
    (outs ++ more)[i]? = some o := by
  have hi : i < outs.length := by
    rcases Nat.lt_or_ge i outs.length with h' | h'
    · exact h'
    · rw [List.getElem?_eq_none h'] at h; cases h
  rw [List.getElem?_append_left hi]; exact h

theorem Rep.mono {outs more : List Out} {j c} (h : Rep key outs j c) : Rep key (outs ++ more) j c := by
  obtain ⟨o, ho, hs⟩ := h
  exact ⟨o, get_append_left ho, hs⟩

theorem ChildOK.mono {outs more : List Out} {idx idx' child ci} (hle : idx ≤ idx')
    (h : ChildOK key outs idx child ci) : ChildOK key (outs ++ more) idx' child ci := by
  unfold ChildOK at *
  cases child with
  | none => exact h
  | some c =>
    obtain ⟨j, h1, h2, h3⟩ := h
    exact ⟨j, h1, by omega, h3.mono⟩

theorem get_snoc (outs : List Out) (o : Out) (i : Nat) :
    (outs ++ [o])[i]? = if i < outs.length then outs[i]? else if i = outs.length then some o else none := by
  by_cases h1 : i < outs.length
  · rw [if_pos h1, List.getElem?_append_left h1]
  · rw [if_neg h1, List.getElem?_append_right (by omega)]
    by_cases h2 : i = outs.length
    · subst h2; simp
    · rw [if_neg h2]
      have : i - outs.length ≠ 0 := by omega
      cases hh : i - outs.length with
      | zero => exact absurd hh this
      | succ n => simp

/-- monotonicity of `Inv.kids` under extension is all that is needed of old items -/
theorem Inv.snoc {seen : Seen K} {outs : List Out} (h : Inv key seen outs) (t : T) (li ri : Option Nat)
    (seen' : Seen K)
    (hl : ChildOK key outs outs.length t.left li) (hr : ChildOK key outs outs.length t.right ri)
    (hseen : ∀ k i, seen' k = some i ↔
      (seen k = some i ∨ (i = outs.length ∧ key t = some k))) :
    Inv key seen' (outs ++ [⟨t, outs.length, li, ri⟩]) := by
  refine ⟨?_, ?_, ?_⟩
  · intro i o ho
    rw [get_snoc] at ho
    split at ho
    · exact h.idx i o ho
    · split at ho
      · cases ho; simp [*]
      · cases ho
  · intro k i
    rw [hseen, h.seen]
    constructor
    · rintro (⟨o, ho, hk⟩ | ⟨rfl, hk⟩)
      · exact ⟨o, get_append_left ho, hk⟩
      · exact ⟨⟨t, outs.length, li, ri⟩, by simp, hk⟩
    · rintro ⟨o, ho, hk⟩
      rw [get_snoc] at ho
      split at ho
      · exact .inl ⟨o, ho, hk⟩
      · split at ho
        · cases ho; exact .inr ⟨by assumption, hk⟩
        · cases ho
  · intro i o ho
    rw [get_snoc] at ho
    split at ho
    · have := h.kids i o ho
      exact ⟨this.1.mono key (Nat.le_refl _), this.2.mono key (Nat.le_refl _)⟩
    · split at ho
      · cases ho
        rename_i h1 h2
        subst h2
        exact ⟨hl.mono key (Nat.le_refl _), hr.mono key (Nat.le_refl _)⟩
      · cases ho

/-- result of a visit, relative to the outputs `outs` yielded before it -/
structure Good (seen : Seen K) (outs : List Out) (t : T) (r : List Out × Seen K × Nat × Nat) : Prop where
  inv : Inv key r.2.1 (outs ++ r.1)
  len : r.2.2.1 = (outs ++ r.1).length
  rep : Rep key (outs ++ r.1) r.2.2.2 t
  lt : r.2.2.2 < r.2.2.1
  mono : ∀ k i, seen k = some i → r.2.1 k = some i

theorem fin_good (t : T) (li ri : Option Nat) (seen : Seen K) (outs : List Out) (h : Inv key seen outs)
    (hl : ChildOK key outs outs.length t.left li) (hr : ChildOK key outs outs.length t.right ri) :
    Good key seen outs t (visit.fin key t li ri [] seen outs.length) := by
  unfold visit.fin record
  cases hk : key t with
  | none =>
    simp only [List.nil_append]
    refine ⟨h.snoc key t li ri seen hl hr ?_, by simp, ⟨⟨t, outs.length, li, ri⟩, by simp, .inl rfl⟩,
      by simp, fun _ _ h => h⟩
    intro k i; simp [hk]
  | some k =>
    simp only []
    cases hs : seen k with
    | some i =>
      simp only [List.append_nil]
      obtain ⟨o, ho, hko⟩ := (h.seen k i).1 hs
      have hi : i < outs.length := by
        rcases Nat.lt_or_ge i outs.length with h' | h'
        · exact h'
        · rw [List.getElem?_eq_none h'] at ho; cases ho
      exact ⟨by simpa using h, by simp, ⟨o, by simpa using ho, .inr ⟨k, hko, hk⟩⟩, hi, fun _ _ h => h⟩
    | none =>
      simp only [List.nil_append]
      refine ⟨h.snoc key t li ri _ hl hr ?_, by simp, ⟨⟨t, outs.length, li, ri⟩, by simp, .inl rfl⟩,
        by simp, ?_⟩
      · intro k' i
        by_cases hkk : k' = k
        · subst hkk
          simp only [if_true, hs, hk]
          constructor
          · intro h; cases h; simp
          · rintro (h | h)
            · cases h
            · simp [h]
        · simp only [if_neg hkk, hk]
          constructor
          · exact .inl
          · rintro (h | ⟨_, h⟩)
            · exact h
            · cases h; exact absurd rfl hkk
      · intro k' i hki
        by_cases hkk : k' = k
        · subst hkk; rw [hs] at hki; cases hki
        · simp only [if_neg hkk]; exact hki

theorem seenBefore_rep {seen : Seen K} {outs : List Out} (h : Inv key seen outs) {c : T} {i : Nat}
    (hs : seenBefore key seen c = some i) : i < outs.length ∧ Rep key outs i c := by
  unfold seenBefore at hs
  cases hk : key c with
  | none => simp [hk] at hs
  | some k =>
    simp only [hk, Option.bind] at hs
    obtain ⟨o, ho, hko⟩ := (h.seen k i).1 hs
    have hi : i < outs.length := by
      rcases Nat.lt_or_ge i outs.length with h' | h'
      · exact h'
      · rw [List.getElem?_eq_none h'] at ho; cases ho
    exact ⟨hi, o, ho, .inr ⟨k, hko, hk⟩⟩

/-- extend a `Good` result of a sub-visit by the `fin` of the parent -/
theorem good_fin (t : T) (li ri : Option Nat) (seen : Seen K) (outs : List Out)
    (sub : List Out) (seen1 : Seen K)
    (h1 : Inv key seen1 (outs ++ sub)) (hm : ∀ k i, seen k = some i → seen1 k = some i)
    (hl : ChildOK key (outs ++ sub) (outs ++ sub).length t.left li)
    (hr : ChildOK key (outs ++ sub) (outs ++ sub).length t.right ri) :
    Good key seen outs t (visit.fin key t li ri sub seen1 (outs ++ sub).length) := by
  have g := fin_good key t li ri seen1 (outs ++ sub) h1 hl hr
  rw [fin_outs]
  obtain ⟨a, b, c, d, e⟩ := g
  refine ⟨?_, ?_, ?_, d, fun k i h => e k i (hm k i h)⟩
  · simpa [List.append_assoc] using a
  · simpa [List.append_assoc] using b
  · simpa [List.append_assoc] using c

theorem visit_good (t : T) : ∀ (seen : Seen K) (outs : List Out), Inv key seen outs →
    Good key seen outs t (visit key t seen outs.length) := by
  induction t with
  | leaf id =>
    intro seen outs h
    simp only [visit]
    exact fin_good key _ none none seen outs h rfl rfl
  | un id l ih =>
    intro seen outs h
    simp only [visit]
    cases hs : seenBefore key seen l with
    | some i =>
      obtain ⟨hi, hrep⟩ := seenBefore_rep key h hs
      exact fin_good key _ (some i) none seen outs h ⟨i, rfl, hi, hrep⟩ rfl
    | none =>
      have g := ih seen outs h
      simp only []
      rw [g.len]
      apply good_fin key _ _ _ seen outs _ _ g.inv g.mono
      · exact ⟨_, rfl, by rw [← g.len]; exact g.lt, g.rep⟩
      · rfl
  | bin id l r ihl ihr =>
    intro seen outs h
    simp only [visit]
    cases hsl : seenBefore key seen l with
    | some li =>
      obtain ⟨hli, hlrep⟩ := seenBefore_rep key h hsl
      cases hsr : seenBefore key seen r with
      | some ri =>
        obtain ⟨hri, hrrep⟩ := seenBefore_rep key h hsr
        exact fin_good key _ (some li) (some ri) seen outs h ⟨li, rfl, hli, hlrep⟩ ⟨ri, rfl, hri, hrrep⟩
      | none =>
        have g := ihr seen outs h
        simp only []
        rw [g.len]
        apply good_fin key _ _ _ seen outs _ _ g.inv g.mono
        · exact ⟨li, rfl, by simp; omega, hlrep.mono⟩
        · exact ⟨_, rfl, by rw [← g.len]; exact g.lt, g.rep⟩
    | none =>
      cases hsr : seenBefore key seen r with
      | some ri =>
        obtain ⟨hri, hrrep⟩ := seenBefore_rep key h hsr
        have g := ihl seen outs h
        simp only []
        rw [g.len]
        apply good_fin key _ _ _ seen outs _ _ g.inv g.mono
        · exact ⟨_, rfl, by rw [← g.len]; exact g.lt, g.rep⟩
        · exact ⟨ri, rfl, by simp; omega, hrrep.mono⟩
      | none =>
        have ga := ihl seen outs h
        simp only []
        have gb := ihr (visit key l seen outs.length).2.1 (outs ++ (visit key l seen outs.length).1) ga.inv
        rw [← ga.len] at gb
        rw [gb.len, List.append_assoc]
        apply good_fin key _ _ _ seen outs _ _
        · simpa [List.append_assoc] using gb.inv
        · exact fun k i hk => gb.mono k i (ga.mono k i hk)
        · refine ⟨_, rfl, ?_, ?_⟩
          · have := ga.lt; have := gb.len; have := ga.len
            simp only [List.length_append] at *; omega
          · simpa [List.append_assoc] using ga.rep.mono (more := (visit key r (visit key l seen outs.length).2.1 (visit key l seen outs.length).2.2.1).1)
        · refine ⟨_, rfl, ?_, ?_⟩
          · rw [← List.append_assoc, ← gb.len]; exact gb.lt
          · simpa [List.append_assoc] using gb.rep

theorem inv_init : Inv key (fun _ => none) ([] : List Out) :=
  ⟨by simp, by simp, by simp⟩

/-- **C18 for the post-order iterator** (with `postOrder_eq_visit`): the yielded items are numbered
consecutively from 0; every keyed class is yielded at most once; every item carries the earlier
indices at which its children's classes were yielded; the root's class is the last index. -/
theorem visit_root (root : T) :
    let r := visit key root (fun _ => none) 0
    Inv key r.2.1 r.1 ∧ r.2.2.1 = r.1.length ∧ Rep key r.1 r.2.2.2 root := by
  have g := visit_good key root (fun _ => none) [] (inv_init key)
  exact ⟨by simpa using g.inv, by simpa using g.len, by simpa using g.rep⟩

/-- each sharing class is yielded at most once -/
theorem Inv.unique {seen : Seen K} {outs : List Out} (h : Inv key seen outs) {i j : Nat} {oi oj : Out} {k : K}
    (hi : outs[i]? = some oi) (hj : outs[j]? = some oj) (hki : key oi.node = some k)
    (hkj : key oj.node = some k) : i = j := by
  have a := (h.seen k i).2 ⟨oi, hi, hki⟩
  have b := (h.seen k j).2 ⟨oj, hj, hkj⟩
  rw [a] at b; cases b; rfl

/-! ### completeness: every node reachable from the root has its class yielded -/

def SameO : Option T → Option T → Prop
  | none, none => True
  | some a, some c => Same key a c
  | _, _ => False

/-- the sharing key is a congruence: nodes with one key have children in the same classes
(true of IHR/CMR-based keys and of pointer identity) -/
def Congr : Prop := ∀ a c k, key a = some k → key c = some k →
  SameO key a.left c.left ∧ SameO key a.right c.right

theorem Same.trans {a b c : T} (h1 : Same key a b) (h2 : Same key b c) : Same key a c := by
  rcases h1 with rfl | ⟨k, ha, hb⟩
  · exact h2
  · rcases h2 with rfl | ⟨k', hb', hc⟩
    · exact .inr ⟨k, ha, hb⟩
    · rw [hb] at hb'; cases hb'; exact .inr ⟨k, ha, hc⟩

inductive Desc : T → T → Prop
  | refl (t) : Desc t t
  | left {p c d} : p.left = some c → Desc c d → Desc p d
  | right {p c d} : p.right = some c → Desc c d → Desc p d

theorem rep_child {seen : Seen K} {outs : List Out} (h : Inv key seen outs) (hc : Congr key)
    {j : Nat} {p c : T} (hrep : Rep key outs j p) (hchild : p.left = some c ∨ p.right = some c) :
    ∃ j', Rep key outs j' c := by
  obtain ⟨o, ho, hs⟩ := hrep
  have hk := h.kids j o ho
  rcases hs with rfl | ⟨k, hko, hkp⟩
  · rcases hchild with hl | hr
    · have := hk.1; rw [hl] at this; obtain ⟨j', _, _, hr'⟩ := this; exact ⟨j', hr'⟩
    · have := hk.2; rw [hr] at this; obtain ⟨j', _, _, hr'⟩ := this; exact ⟨j', hr'⟩
  · have hcg := hc o.node p k hko hkp
    rcases hchild with hl | hr
    · have h1 := hcg.1; rw [hl] at h1
      cases hol : o.node.left with
      | none => rw [hol] at h1; exact h1.elim
      | some c' =>
        rw [hol] at h1
        have := hk.1; rw [hol] at this
        obtain ⟨j', _, _, o', ho', hs'⟩ := this
        exact ⟨j', o', ho', hs'.trans key h1⟩
    · have h1 := hcg.2; rw [hr] at h1
      cases hol : o.node.right with
      | none => rw [hol] at h1; exact h1.elim
      | some c' =>
        rw [hol] at h1
        have := hk.2; rw [hol] at this
        obtain ⟨j', _, _, o', ho', hs'⟩ := this
        exact ⟨j', o', ho', hs'.trans key h1⟩

theorem rep_desc {seen : Seen K} {outs : List Out} (h : Inv key seen outs) (hc : Congr key)
    {p d : T} (hd : Desc p d) : ∀ {j : Nat}, Rep key outs j p → ∃ j', Rep key outs j' d := by
  induction hd with
  | refl t => exact fun hr => ⟨_, hr⟩
  | left hl _ ih => intro j hr; obtain ⟨j', hr'⟩ := rep_child key h hc hr (.inl hl); exact ih hr'
  | right hl _ ih => intro j hr; obtain ⟨j', hr'⟩ := rep_child key h hc hr (.inr hl); exact ih hr'

/-- every node reachable from the root is represented by a yielded item -/
theorem visit_complete (hc : Congr key) (root d : T) (hd : Desc root d) :
    ∃ j, Rep key (visit key root (fun _ => none) 0).1 j d := by
  obtain ⟨hinv, _, hrep⟩ := visit_root key root
  exact rep_desc key hinv hc hd hrep

#print axioms visit_root
#print axioms visit_complete
end PO
