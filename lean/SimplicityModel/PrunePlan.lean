/-
C08, plan level: the executable functions the driver's `prune` verb runs.

* `evalT` — the evaluator `evalK` instrumented like the Rust `SetTracker`: besides the result it
  returns the identities of the executed nodes and the (case identity, side) pairs, read from a
  label tree that mirrors the term (`labOf`: the identity of the plan node every term node was
  elaborated from; shared plan nodes give equal labels).  `evalT_fst`: it computes exactly `evalK`.
* `pruneNode`/`prunePlan` — the `Pruner`'s `prune_case` table on a plan, index preserving: a case
  of which exactly one side is in the tracker becomes `assertl a (cmr b)` / `assertr (cmr a) b`.
* `constraintsM`/`inferM` — the typing constraints of the nodes selected by a mask (fresh
  variables numbered as in `Prog.constraints`, so that dropping nodes is literally taking a subset
  of the equations) and their least solution.  With the all-true mask this is `Prog.constraints`
  (`constraintsM_all`).  The Rust `Pruner` converts *every* node of the original DAG in one
  inference context — also the nodes that are no longer reachable in the pruned program — so the
  types the code computes are `inferM` with the all-true mask on the pruned plan; the principal
  types of the pruned program are `inferM` with the reachability mask.
* `pruneV` — `Value::prune`, value directed, on the machine's types and values.
-/
import SimplicityModel.Prog.Elab
import SimplicityModel.Prog.ElabProps
import SimplicityModel.Prog.Infer
import SimplicityModel.Prune

namespace Prog
open BM4

/-! ### labels and the trace-returning evaluator -/

inductive Lab
  | leaf (id : Nat)
  | un (id : Nat) (l : Lab)
  | bin (id : Nat) (l r : Lab)
deriving Repr, Inhabited

def Lab.id : Lab → Nat
  | .leaf i | .un i _ | .bin i _ _ => i

def Lab.fst : Lab → Lab
  | .leaf i => .leaf i
  | .un _ l => l
  | .bin _ l _ => l

def Lab.snd : Lab → Lab
  | .leaf i => .leaf i
  | .un _ l => l
  | .bin _ _ r => r

/-- labels of the tree unfolding of plan node `i` (fuel = number of nodes) -/
def labOf (p : Plan) (ids : Nat → Nat) : Nat → Nat → Lab
  | 0, i => .leaf (ids i)
  | f+1, i =>
    match p[i]? with
    | none => .leaf (ids i)
    | some nd =>
      match nd.children with
      | [] => .leaf (ids i)
      | [c] => .un (ids i) (labOf p ids f c)
      | c :: d :: _ => .bin (ids i) (labOf p ids f c) (labOf p ids f d)

/-- what the tracker records: executed node identities, (case identity, side taken) -/
structure Trace where
  nodes : List Nat := []
  sides : List (Nat × Bool) := []
deriving Repr, Inhabited

def Trace.add (a b : Trace) : Trace := ⟨a.nodes ++ b.nodes, a.sides ++ b.sides⟩
def Trace.node (id : Nat) : Trace := ⟨[id], []⟩
def Trace.side (id : Nat) (b : Bool) : Trace := ⟨[id], [(id, b)]⟩

/-- put the record of node `l` in front of the record of its sub-run -/
def withNode (l : Lab) (r : Except Fail (Val × Trace)) : Except Fail (Val × Trace) :=
  r.map fun (o, tr) => (o, (Trace.node l.id).add tr)

def withSide (l : Lab) (b : Bool) (r : Except Fail (Val × Trace)) : Except Fail (Val × Trace) :=
  r.map fun (o, tr) => (o, (Trace.side l.id b).add tr)

/-- `evalK` with the tracker's record -/
def evalT : {a b : Ty} → Term a b → Lab → Val → Except Fail (Val × Trace)
  | _, _, .iden, l, v => .ok (v, Trace.node l.id)
  | _, _, .unit, l, _ => .ok (.unit, Trace.node l.id)
  | _, _, .injl t, l, v => withNode l ((evalT t l.fst v).map fun (o, tr) => (.inl o, tr))
  | _, _, .injr t, l, v => withNode l ((evalT t l.fst v).map fun (o, tr) => (.inr o, tr))
  | _, _, .take t, l, .pair x _ => withNode l (evalT t l.fst x)
  | _, _, .take _, _, _ => .error .stuck
  | _, _, .drop t, l, .pair _ y => withNode l (evalT t l.fst y)
  | _, _, .drop _, _, _ => .error .stuck
  | _, _, .comp s t, l, v =>
      withNode l ((evalT s l.fst v).bind fun (x, t1) =>
        (evalT t l.snd x).map fun (o, t2) => (o, t1.add t2))
  | _, _, .case s _, l, .pair (.inl x) z => withSide l false (evalT s l.fst (.pair x z))
  | _, _, .case _ t, l, .pair (.inr y) z => withSide l true (evalT t l.snd (.pair y z))
  | _, _, .case _ _, _, _ => .error .stuck
  | _, _, .pair s t, l, v =>
      withNode l ((evalT s l.fst v).bind fun (x, t1) =>
        (evalT t l.snd v).map fun (y, t2) => (.pair x y, t1.add t2))
  | _, _, .fail, _, _ => .error .failNode
  | _, _, .witness w, l, _ => .ok (w, Trace.node l.id)
  | _, _, .assertl s, l, .pair (.inl x) z => withSide l false (evalT s l.fst (.pair x z))
  | _, _, .assertl _, _, .pair (.inr _) _ => .error .assertion
  | _, _, .assertl _, _, _ => .error .stuck
  | _, _, .assertr t, l, .pair (.inr y) z => withSide l true (evalT t l.fst (.pair y z))
  | _, _, .assertr _, _, .pair (.inl _) _ => .error .assertion
  | _, _, .assertr _, _, _ => .error .stuck
  | _, _, .word w, l, _ => .ok (w, Trace.node l.id)
  | _, _, .jet _ f, l, v => match f v with | some o => .ok (o, Trace.node l.id) | none => .error .jet
  | _, _, .disconnect _ cw s t, l, v =>
      withNode l ((evalT s l.fst (.pair cw v)).bind fun
        | (.pair x y, t1) => (evalT t l.snd y).map fun (z, t2) => (.pair x z, t1.add t2)
        | _ => .error .stuck)

/-! ### the `prune_case` table on plans -/

/-- `Pruner::prune_case`: both sides or neither side recorded ⇒ keep; one side ⇒ assertion that
hides the other child behind its commitment root -/
def pruneNode (S : List (Nat × Bool)) (id : Nat) (cm : Nat → Nat) : Node → Node
  | .case a b =>
    match decide ((id, false) ∈ S), decide ((id, true) ∈ S) with
    | true, false => .assertl a (cm b)
    | false, true => .assertr (cm a) b
    | _, _ => .case a b
  | nd => nd

def pruneList (S : List (Nat × Bool)) (ids : Nat → Nat) (cm : Nat → Nat) : Nat → List Node → List Node
  | _, [] => []
  | i, nd :: rest => pruneNode S (ids i) cm nd :: pruneList S ids cm (i + 1) rest

/-- the pruned plan: same indices, cases rewritten by the table (nodes that are no longer
reachable stay in the array) -/
def prunePlan (S : List (Nat × Bool)) (ids : Nat → Nat) (cm : Nat → Nat) (p : Plan) : Plan :=
  (pruneList S ids cm 0 p.toList).toArray

/-- children precede parents -/
def wfFrom : Nat → List Node → Bool
  | _, [] => true
  | i, nd :: rest => nd.children.all (· < i) && wfFrom (i + 1) rest

def wf (p : Plan) : Bool := wfFrom 0 p.toList

/-- nodes reachable from the root (the last node); one pass from high to low indices suffices
because children precede parents -/
def reachable (p : Plan) : Array Bool :=
  let n := p.size
  let init := (Array.replicate n false).setIfInBounds (n - 1) true
  (List.range n).reverse.foldl (fun m i =>
    if m.getD i false then (p.getD i .unit).children.foldl (fun m c => m.setIfInBounds c true) m else m) init

/-! ### constraints of a masked plan -/

open Inf (Eqn)

def constraintsMGo (jt : JetTypes) (mask : Nat → Bool) : Nat → List Node → Nat → List Eqn → Option (List Eqn)
  | _, [], _, acc => some acc
  | i, nd :: rest, f, acc =>
    match nodeEqns jt i nd f with
    | none => none
    | some (es, f') => constraintsMGo jt mask (i + 1) rest f' (if mask i then acc ++ es else acc)

/-- the equations of the nodes `i` with `mask i`, fresh variables numbered as if all nodes were
there; plus `root : 1 → 1` for programs -/
def constraintsM (jt : JetTypes) (p : Plan) (mask : Nat → Bool) (program : Bool) : Option (List Eqn) :=
  match constraintsMGo jt mask 0 p.toList (2 * p.size) [] with
  | none => none
  | some es =>
    let r := p.size - 1
    some (if program then es ++ [(src r, .one), (tgt r, .one)] else es)

def arrowsOf (n : Nat) (ρ : Nat → Inf.Ty) : Array (Ty × Ty) :=
  (Array.range n).map fun i => (tyOfInf (ρ (2 * i)), tyOfInf (ρ (2 * i + 1)))

def inferM (jt : JetTypes) (p : Plan) (mask : Nat → Bool) (program : Bool) : InferRes :=
  match constraintsM jt p mask program with
  | none => .badPlan
  | some es =>
    match Inf.unify unifyFuel es [] with
    | .ok S => .ok (arrowsOf p.size (Inf.closeUnit S))
    | .clash => .typeError
    | .occurs => .occurs
    | .fuel => .fuel

/-! ### `Value::prune` on the machine's values -/

/-- value-directed, as in the code: the untaken side of a sum target is unconstrained -/
def pruneV : Val → Ty → Option Val
  | _, .one => some .unit
  | .inl v, .sum a _ => (pruneV v a).map .inl
  | .inr v, .sum _ b => (pruneV v b).map .inr
  | .pair x y, .prod a b =>
    match pruneV x a, pruneV y b with
    | some x', some y' => some (.pair x' y')
    | _, _ => none
  | _, _ => none

def isCase : Node → Bool | .case _ _ => true | _ => false

/-- the anti-DoS conditions libsimplicity checks (all checks on), evaluated on a tracker record:
every selected node's identity executed, both sides of every selected case identity taken -/
def antiDosOK (p : Plan) (reach : Array Bool) (ids : Nat → Nat) (tr : Trace) : Bool :=
  (List.range p.size).all fun i =>
    !(reach.getD i false) ||
      (tr.nodes.contains (ids i) &&
        (!(isCase (p.getD i .unit)) ||
          (tr.sides.contains (ids i, false) && tr.sides.contains (ids i, true))))

/-- the witness bits of node `j` after pruning: decode the original bits at the original target
type, prune the value to the new target type, encode compactly (what the `Finalizer` of `prune`
does for every witness node it keeps) -/
def pruneWit (wit : Nat → Option (List Bool)) (arr a1 : Array (Ty × Ty)) (j : Nat) : Option (List Bool) := do
  let bits ← wit j
  let v ← valOfCompact (arr.getD j (.one, .one)).2 bits
  let w ← pruneV v (a1.getD j (.one, .one)).2
  pure (compact w)

end Prog
