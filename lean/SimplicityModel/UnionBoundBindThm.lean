/-
`bind_good`, `unify_good`, `bindProduct_good`: the recursion `bind → unify → bind` of the context,
for every fuel, refines "add one equation".
-/
import SimplicityModel.UnionBoundBind

namespace UB
open Inf (Ty)

theorem bindGood_noop {c : Ctx} {e : Nat} {new : Bound} (w : WF c)
    (h : ∀ ρ, SolSt ρ c → BoundSat ρ (ρ e) new) : BindGood c e new (.ok c) :=
  ⟨w, Mono.refl c, fun ρ => ⟨fun s => ⟨s, h ρ s⟩, fun s => s.1⟩, fun _ _ _ ho => ho⟩

theorem bindGood_clash {c : Ctx} {e : Nat} {new : Bound}
    (h : ∀ ρ, SolSt ρ c → ¬ BoundSat ρ (ρ e) new) : BindGood c e new (.error .bind) :=
  fun ρ hρ => h ρ hρ.1 hρ.2

theorem bindGood_free {c : Ctx} {e b : Nat} {new : Bound} (w : WF c) (ho : Owner c e b)
    (hB : c.slab[b]? = some .free) : BindGood c e new (reassignNonComplete c b new) := by
  cases hr : reassignNonComplete c b new with
  | error err => exact BindGood.of_soft (.inr (reassign_err hr))
  | ok c' =>
    obtain ⟨hc, _⟩ := reassign_ok hr
    subst hc
    refine ⟨setBound_wf w _ _, setBound_mono hB (fun h => h) _ (.inl rfl), fun ρ => ?_, fun _ _ _ h => h⟩
    rw [setBound_sol w ho]
    constructor
    · rintro ⟨hp, hx, hb⟩
      exact ⟨⟨hp, (boundSol_split w ho hB ρ).2 ⟨hx, trivial⟩⟩, hb⟩
    · rintro ⟨s, hb⟩
      exact ⟨s.par, ((boundSol_split w ho hB ρ).1 s.bnd).1, hb⟩

theorem CompGood.toBind {c : Ctx} {e : Nat} {new : Bound} {ty1 ty2 : Nat} {d1 d2 : Ty} {res : M Ctx}
    (hiff : ∀ ρ, SolSt ρ c → (BoundSat ρ (ρ e) new ↔ (ρ ty1 = d1 ∧ ρ ty2 = d2)))
    (g : CompGood c ty1 ty2 d1 d2 res) : BindGood c e new res := by
  match res, g with
  | .ok c', ⟨w, m, hs, hk⟩ =>
    refine ⟨w, m, fun ρ => ?_, fun _ => hk⟩
    rw [hs ρ]
    exact ⟨fun ⟨s, h⟩ => ⟨s, (hiff ρ s).2 h⟩, fun ⟨s, h⟩ => ⟨s, (hiff ρ s).1 h⟩⟩
  | .error .bind, g => exact fun ρ ⟨s, h⟩ => g ρ ⟨s, (hiff ρ s).1 h⟩
  | .error .occurs, g => exact g
  | .error .fuel, _ => trivial
  | .error .panic, _ => trivial

theorem bind_good (F : Nat) : ∀ (f : Nat) (c : Ctx) (e b : Nat) (new : Bound),
    WF c → Owner c e b → BindGood c e new (bind F f c b new)
  | 0 => by intro c e b new _ _; unfold bind; trivial
  | f+1 => by
    intro c e b new w ho
    have ih := bind_good F f
    have hu : ∀ c x y, WF c → UnifyGood c x y (ubUnify F (bindClosureOf (bind F f)) c x y) :=
      fun c x y w => ubUnify_good ih w x y
    unfold bind
    dsimp only
    split
    · next err he => exact BindGood.of_soft (.inr (getBound_err he))
    · next B hB =>
      have hB' := getBound_ok.1 hB
      have hsat : ∀ ρ, SolSt ρ c → BoundSat ρ (ρ e) B := fun ρ s => s.bnd e b B ho hB'
      cases B with
      | free =>
        cases new with
        | free => exact bindGood_noop w (fun _ _ => trivial)
        | complete n => exact bindGood_free w ho hB'
        | sum y1 y2 => exact bindGood_free w ho hB'
        | product y1 y2 => exact bindGood_free w ho hB'
      | complete d =>
        cases new with
        | free => exact bindGood_noop w (fun _ _ => trivial)
        | complete n =>
          dsimp only
          split
          · next h => subst h; exact bindGood_noop w hsat
          · next h => exact bindGood_clash (fun ρ s hb => h ((hsat ρ s).symm.trans hb))
        | sum y1 y2 =>
          dsimp only
          split
          · next d1 d2 =>
            refine CompGood.toBind (fun ρ s => ?_) (bindComponents_good ih w y1 y2 d1 d2)
            have he : ρ e = .sum d1 d2 := hsat ρ s
            show ρ e = .sum (ρ y1) (ρ y2) ↔ _
            rw [he]
            exact ⟨fun h => by cases h; exact ⟨rfl, rfl⟩, fun ⟨h1, h2⟩ => by rw [h1, h2]⟩
          · next hno =>
            refine bindGood_clash (fun ρ s hb => ?_)
            have he : ρ e = d := hsat ρ s
            have hb' : ρ e = .sum (ρ y1) (ρ y2) := hb
            exact hno _ _ (he.symm.trans hb')
        | product y1 y2 =>
          dsimp only
          split
          · next d1 d2 =>
            refine CompGood.toBind (fun ρ s => ?_) (bindComponents_good ih w y1 y2 d1 d2)
            have he : ρ e = .prod d1 d2 := hsat ρ s
            show ρ e = .prod (ρ y1) (ρ y2) ↔ _
            rw [he]
            exact ⟨fun h => by cases h; exact ⟨rfl, rfl⟩, fun ⟨h1, h2⟩ => by rw [h1, h2]⟩
          · next hno =>
            refine bindGood_clash (fun ρ s hb => ?_)
            have he : ρ e = d := hsat ρ s
            have hb' : ρ e = .prod (ρ y1) (ρ y2) := hb
            exact hno _ _ (he.symm.trans hb')
      | sum x1 x2 =>
        cases new with
        | free => exact bindGood_noop w (fun _ _ => trivial)
        | complete n =>
          dsimp only
          split
          · next d1 d2 =>
            refine CompGood.toBind (fun ρ s => ?_) (bindComponents_good ih w x1 x2 d1 d2)
            have he : ρ e = .sum (ρ x1) (ρ x2) := hsat ρ s
            show ρ e = .sum d1 d2 ↔ _
            rw [he]
            exact ⟨fun h => by cases h; exact ⟨rfl, rfl⟩, fun ⟨h1, h2⟩ => by rw [h1, h2]⟩
          · next hno =>
            refine bindGood_clash (fun ρ s hb => ?_)
            have he : ρ e = .sum (ρ x1) (ρ x2) := hsat ρ s
            have hb' : ρ e = n := hb
            exact hno _ _ (hb'.symm.trans he)
        | sum y1 y2 =>
          show BindGood c e _ (bindPairwise F (ubUnify F (bindClosureOf (bind F f))) c b x1 x2 y1 y2 Ty.sum)
          exact bindPairwise_good hu w ho hB' (.inl rfl) (fun _ _ => Iff.rfl) (fun _ _ => Iff.rfl)
            (fun h => h) (fun _ _ _ _ => by simp)
        | product y1 y2 =>
          refine bindGood_clash (fun ρ s hb => ?_)
          have he : ρ e = .sum (ρ x1) (ρ x2) := hsat ρ s
          have hb' : ρ e = .prod (ρ y1) (ρ y2) := hb
          rw [he] at hb'; cases hb'
      | product x1 x2 =>
        cases new with
        | free => exact bindGood_noop w (fun _ _ => trivial)
        | complete n =>
          dsimp only
          split
          · next d1 d2 =>
            refine CompGood.toBind (fun ρ s => ?_) (bindComponents_good ih w x1 x2 d1 d2)
            have he : ρ e = .prod (ρ x1) (ρ x2) := hsat ρ s
            show ρ e = .prod d1 d2 ↔ _
            rw [he]
            exact ⟨fun h => by cases h; exact ⟨rfl, rfl⟩, fun ⟨h1, h2⟩ => by rw [h1, h2]⟩
          · next hno =>
            refine bindGood_clash (fun ρ s hb => ?_)
            have he : ρ e = .prod (ρ x1) (ρ x2) := hsat ρ s
            have hb' : ρ e = n := hb
            exact hno _ _ (hb'.symm.trans he)
        | sum y1 y2 =>
          refine bindGood_clash (fun ρ s hb => ?_)
          have he : ρ e = .prod (ρ x1) (ρ x2) := hsat ρ s
          have hb' : ρ e = .sum (ρ y1) (ρ y2) := hb
          rw [he] at hb'; cases hb'
        | product y1 y2 =>
          show BindGood c e _ (bindPairwise F (ubUnify F (bindClosureOf (bind F f))) c b x1 x2 y1 y2 Ty.prod)
          exact bindPairwise_good hu w ho hB' (.inr rfl) (fun _ _ => Iff.rfl) (fun _ _ => Iff.rfl)
            (fun h => h) (fun _ _ _ _ => by simp)

/-- `Context::unify`, for every fuel -/
theorem unify_good (F f : Nat) {c : Ctx} (w : WF c) (x y : Nat) :
    UnifyGood c x y (unify F f c x y) :=
  ubUnify_good (bind_good F f) w x y

/-- what an operation that adds the constraint `P` must achieve -/
def StepGood (c : Ctx) (P : (Nat → Ty) → Prop) : M Ctx → Prop
  | .ok c' => WF c' ∧ Mono c c' ∧ (∀ ρ, SolSt ρ c' ↔ (SolSt ρ c ∧ P ρ))
  | .error .bind => ∀ ρ, ¬ (SolSt ρ c ∧ P ρ)
  | .error .occurs => False
  | .error _ => True

theorem UnifyGood.step {c : Ctx} {x y : Nat} {res : M Ctx} (g : UnifyGood c x y res) :
    StepGood c (fun ρ => ρ x = ρ y) res := by
  match res, g with
  | .ok c', ⟨w, m, hs, _⟩ => exact ⟨w, m, hs⟩
  | .error .bind, g => exact g
  | .error .occurs, g => exact g
  | .error .fuel, _ => trivial
  | .error .panic, _ => trivial

/-- `Context::bind_product` -/
theorem bindProduct_good (F f : Nat) {c : Ctx} (w : WF c) (e l r : Nat) :
    StepGood c (fun ρ => ρ e = .prod (ρ l) (ρ r)) (bindProduct F f c e l r) := by
  unfold bindProduct
  split
  · next err he => rcases rootRef_err he with rfl | rfl <;> trivial
  · next c1 b1 h1 =>
    obtain ⟨k1, r1, ho1, hp1⟩ := rootRef_spec h1
    have g := bind_good F f c1 r1 b1 (.product l r) (k1.wf w) ho1
    generalize bind F f c1 b1 (.product l r) = res at g
    match res, g with
    | .ok c', ⟨w', m, hs, _⟩ =>
      refine ⟨w', k1.mono.trans m, fun ρ => ?_⟩
      rw [hs ρ]
      constructor
      · rintro ⟨s, hb⟩
        exact ⟨(k1.sol ρ).1 s, (hp1 ρ s.par).trans hb⟩
      · rintro ⟨s, hb⟩
        have s1 := (k1.sol ρ).2 s
        exact ⟨s1, (hp1 ρ s1.par).symm.trans hb⟩
    | .error .bind, g =>
      rintro ρ ⟨s, hb⟩
      have s1 := (k1.sol ρ).2 s
      exact g ρ ⟨s1, (hp1 ρ s1.par).symm.trans hb⟩
    | .error .occurs, g => exact g
    | .error .fuel, _ => trivial
    | .error .panic, _ => trivial

end UB
