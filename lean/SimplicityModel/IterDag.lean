import SimplicityModel.IterRtl
import SimplicityModel.IterVerbose
set_option linter.unusedSectionVars false
set_option linter.unusedVariables false
/-
C18 — index-array DAGs (what the harness sends): the handle of node `i` is the tree unfolding
`Canon.U ns i` with pointer identity `i`; `build` computes all handles bottom-up with sharing (the
unfolding itself can be exponentially large), `mirrorSh` is `SwapChildren` on the node list,
`classify` numbers the structural classes (equal tag, equal classes of the children) for the
identity-hash policy, and `keyOf` turns a per-node table into a sharing key.
-/
namespace PO

/-- all handles of a node list, bottom-up; children are looked up in the part already built -/
def buildStep (acc : Array T) (s : Sh) : Array T :=
  let i := acc.size
  acc.push (match s with
    | .leaf => .leaf i
    | .un j => .un i (acc.getD j (.leaf j))
    | .bin j k => .bin i (acc.getD j (.leaf j)) (acc.getD k (.leaf k)))

def build (ns : List Sh) : Array T := ns.foldl buildStep #[]

/-- every child reference points strictly backwards (decidable form of `WellIdx`) -/
def wellIdxFrom : Nat → List Sh → Bool
  | _, [] => true
  | i, .leaf :: r => wellIdxFrom (i + 1) r
  | i, .un j :: r => decide (j < i) && wellIdxFrom (i + 1) r
  | i, .bin j k :: r => decide (j < i) && decide (k < i) && wellIdxFrom (i + 1) r

def wellIdxB (ns : List Sh) : Bool := wellIdxFrom 0 ns

/-- `SwapChildren` on the node list -/
def mirrorSh : Sh → Sh
  | .bin j k => .bin k j
  | s => s

/-- sharing key given by a table indexed by pointer identity -/
def keyOf (tbl : Array (Option Nat)) : T → Option Nat := fun t => tbl.getD t.id none

theorem keyOf_mirror (tbl : Array (Option Nat)) : mkey (keyOf tbl) = keyOf tbl := by
  funext t; simp [mkey, keyOf]

/-! ### structural classes (identity-hash sharing) -/

/-- signature of a node: its own tag and the classes of its children -/
abbrev Sig := Nat × Option Nat × Option Nat

def lookupSig (tab : List (Sig × Nat)) (s : Sig) : Option Nat :=
  match tab with
  | [] => none
  | (s', c) :: r => if s' = s then some c else lookupSig r s

/-- the signature of node `s` with tag `tag` given the classes so far; `none` = not sharable
(no tag, or a child that is not sharable) -/
def sigOf (cls : Array (Option Nat)) (tag : Option Nat) (s : Sh) : Option Sig :=
  match tag, s with
  | none, _ => none
  | some t, .leaf => some (t, none, none)
  | some t, .un j => match cls.getD j none with
    | some a => some (t, some a, none)
    | none => none
  | some t, .bin j k => match cls.getD j none, cls.getD k none with
    | some a, some b => some (t, some a, some b)
    | _, _ => none

structure ClsSt where
  cls : Array (Option Nat)
  tab : List (Sig × Nat)
  next : Nat

def classifyStep (st : ClsSt) (node : Option Nat × Sh) : ClsSt :=
  match sigOf st.cls node.1 node.2 with
  | none => { st with cls := st.cls.push none }
  | some sg =>
    match lookupSig st.tab sg with
    | some c => { st with cls := st.cls.push (some c) }
    | none => ⟨st.cls.push (some st.next), (sg, st.next) :: st.tab, st.next + 1⟩

/-- class number of every node: two nodes get the same number iff they have the same tag and their
children have the same numbers (hash-consing) -/
def classify (nodes : List (Option Nat × Sh)) : Array (Option Nat) :=
  (nodes.foldl classifyStep ⟨#[], [], 0⟩).cls

/-! ### decidable forms of the hypotheses of the theorems, on a node list whose nodes are all
reachable from the root (the last node) -/

def childKeys (tbl : Array (Option Nat)) : Sh → List (Nat × Option Nat)
  | .leaf => []
  | .un j => [(j, tbl.getD j none)]
  | .bin j k => [(j, tbl.getD j none), (k, tbl.getD k none)]

/-- same class: the same object, or equal keys -/
def sameB (a c : Nat × Option Nat) : Bool :=
  a.1 == c.1 || (a.2.isSome && a.2 == c.2)

def sameListB : List (Nat × Option Nat) → List (Nat × Option Nat) → Bool
  | [], [] => true
  | a :: r, c :: r' => sameB a c && sameListB r r'
  | _, _ => false

/-- `Congr` on the nodes of the list: nodes with one key have children in the same classes -/
def congrB (ns : List Sh) (tbl : Array (Option Nat)) : Bool :=
  let idx := (List.range ns.length).zip ns
  idx.all fun (i, s) =>
    match tbl.getD i none with
    | none => true
    | some k => idx.all fun (j, s') =>
        if j < i && tbl.getD j none == some k then sameListB (childKeys tbl s) (childKeys tbl s') else true

/-- `RootFresh`: no other node has the root's key -/
def rootFreshB (n : Nat) (tbl : Array (Option Nat)) : Bool :=
  match tbl.getD (n - 1) none with
  | none => true
  | some k => (List.range (n - 1)).all fun i => tbl.getD i none != some k

end PO
