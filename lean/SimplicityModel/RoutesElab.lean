/-
C12 — from a typed plan with typed witness values to the intrinsically typed term of the Bit Machine
model: elaboration (`Prog.elabNode`) cannot fail and the resulting term satisfies `BM4.WT`, the
hypothesis of `run_spec`/`exec_spec` (C05).  This is the link plan → `BM4.Term` that
`witness_write_width` and the modelled run of `finalize_pruned` need.

* `NodeRule`        the typing rule of one node, on the arrows array (what a solution of the node's
                    equations means), plus the shape conditions of `planOK`.
* `nodeRule_of_eqns` a solution of `Prog.nodeEqns` gives `NodeRule` (so `infer = ok` gives it at
                    every node: `infer_rules`).
* `elab_total`      `NodeRule` at every node + typed witness values ⇒ every node elaborates, at
                    exactly its arrow, to a `WT` term.
-/
import SimplicityModel.RoutesExec
import SimplicityModel.RoutesProps
import SimplicityModel.PruneBridge

namespace Routes
open BM4 Prog
open Inf (Eqn)

/-- the inferred source type of node `i` -/
def srcOf (ar : Arrows) (i : Nat) : Ty := (ar.getD i (.one, .one)).1

/-! ### values -/

theorem valOfCompact_compact {t : Ty} {v : Val} (h : HasTy v t) : valOfCompact t (compact v) = some v := by
  have := decCompact_compact h []
  simp only [List.append_nil] at this
  simp [valOfCompact, this]

theorem valOfCompact_hasTy {t : Ty} {bs : List Bool} {v : Val} (h : valOfCompact t bs = some v) :
    HasTy v t := by
  unfold valOfCompact at h
  split at h
  · next v' hd =>
    simp only [Option.some.injEq] at h
    subst h
    exact (decCompact_canonical _ _ _ _ hd).2
  · cases h

theorem decCompact_word : ∀ (n : Nat) (bs rest : List Bool), bs.length = 2 ^ n →
    ∃ v, decCompact (wordTy n) (bs ++ rest) = some (v, rest)
  | 0, bs, rest, h => by
    match bs, h with
    | [false], _ => exact ⟨.inl .unit, by simp [wordTy, decCompact]⟩
    | [true], _ => exact ⟨.inr .unit, by simp [wordTy, decCompact]⟩
  | n+1, bs, rest, h => by
    have h2 : 2 ^ (n + 1) = 2 ^ n + 2 ^ n := by rw [Nat.pow_succ]; omega
    obtain ⟨x, hx⟩ := decCompact_word n (bs.take (2 ^ n)) (bs.drop (2 ^ n) ++ rest) (by simp; omega)
    obtain ⟨y, hy⟩ := decCompact_word n (bs.drop (2 ^ n)) rest (by simp; omega)
    refine ⟨.pair x y, ?_⟩
    have : bs ++ rest = bs.take (2 ^ n) ++ (bs.drop (2 ^ n) ++ rest) := by
      rw [← List.append_assoc, List.take_append_drop]
    rw [this]
    simp only [wordTy, decCompact, hx, hy, Option.bind_eq_bind, Option.bind_some, Option.pure_def]

theorem valOfCompact_word (n : Nat) (bs : List Bool) (h : bs.length = 2 ^ n) :
    ∃ v, valOfCompact (wordTy n) bs = some v ∧ HasTy v (wordTy n) := by
  obtain ⟨v, hv⟩ := decCompact_word n bs [] h
  simp only [List.append_nil] at hv
  have : valOfCompact (wordTy n) bs = some v := by simp [valOfCompact, hv]
  exact ⟨v, this, valOfCompact_hasTy this⟩

theorem bitsOfNat256_length (n : Nat) : (bitsOfNat256 n).length = 2 ^ 8 := by
  simp [bitsOfNat256]

/-! ### jets: the model's "C function" computes the model's specification by construction -/

theorem decPadded_enc {t : Ty} {v : Val} {bs : List Bool} (h : Enc t v bs) (rest : List Bool) :
    decPadded t (bs ++ rest) = some (v, rest) := by
  induction h generalizing rest with
  | unit => simp [decPadded]
  | @inl a b v bs pad _ hp ih =>
    simp only [List.cons_append, decPadded, List.append_assoc]
    have : (pad ++ (bs ++ rest)).drop (padL a b) = bs ++ rest := by
      rw [← hp]; simp
    rw [this, ih]
    rfl
  | @inr a b v bs pad _ hp ih =>
    simp only [List.cons_append, decPadded, List.append_assoc]
    have : (pad ++ (bs ++ rest)).drop (padR a b) = bs ++ rest := by
      rw [← hp]; simp
    rw [this, ih]
    rfl
  | pair _ _ ih1 ih2 =>
    simp only [decPadded, List.append_assoc]
    rw [ih1]; simp only [Option.bind_eq_bind, Option.bind_some]; rw [ih2]; rfl

theorem jetOK_model (e : Env) (name : String) (a b : Ty) :
    JetOK a b (jetJF e name a b) (jetF e name a b) := by
  intro v bits henc
  have hd := decPadded_enc henc []
  simp only [List.append_nil] at hd
  unfold jetJF
  rw [hd]
  simp only
  cases hf : jetF e name a b v with
  | none => simp
  | some o =>
    refine ⟨padded b o, by simp, enc_padded ?_⟩
    unfold jetF at hf
    split at hf
    · exact valOfCompact_hasTy hf
    · cases hf

/-! ### the typing rule of a node -/

/-- node `nd` has the arrow `A → B` given the arrows `ar` of its children -/
def NodeRule (jt : JetTypes) (ar : Arrows) (A B : Ty) : Node → Prop
  | .iden => A = B
  | .unit => B = .one
  | .injl c => ∃ Tc X, ar[c]? = some (A, Tc) ∧ B = .sum Tc X
  | .injr c => ∃ Tc X, ar[c]? = some (A, Tc) ∧ B = .sum X Tc
  | .take c => ∃ Sc X, ar[c]? = some (Sc, B) ∧ A = .prod Sc X
  | .drop c => ∃ Sc X, ar[c]? = some (Sc, B) ∧ A = .prod X Sc
  | .comp x y => ∃ M, ar[x]? = some (A, M) ∧ ar[y]? = some (M, B)
  | .case x y => ∃ X Y Z, ar[x]? = some (.prod X Z, B) ∧ ar[y]? = some (.prod Y Z, B) ∧
      A = .prod (.sum X Y) Z
  | .assertl x _ => ∃ X Y Z, ar[x]? = some (.prod X Z, B) ∧ A = .prod (.sum X Y) Z
  | .assertr _ y => ∃ X Y Z, ar[y]? = some (.prod Y Z, B) ∧ A = .prod (.sum X Y) Z
  | .pair x y => ∃ Tx Ty, ar[x]? = some (A, Tx) ∧ ar[y]? = some (A, Ty) ∧ B = .prod Tx Ty
  | .disconnect x (some y) => ∃ Y Sy Ty, ar[x]? = some (.prod (wordTy 8) A, .prod Y Sy) ∧
      ar[y]? = some (Sy, Ty) ∧ B = .prod Y Ty
  | .disconnect _ none => False
  | .witness => True
  | .fail _ => True
  | .word n bits => A = .one ∧ B = wordTy n ∧ bits.length = 2 ^ n
  | .jet name => jt name = some (A, B)
  | .hidden _ => True

theorem castT_self {a b : Ty} (t : Term a b) : castT (a' := a) (b' := b) t = some t := by
  simp [castT]

/-- **one node**: if the children elaborate at their arrows to `WT` terms, so does the node -/
theorem elabStep_total (jt : JetTypes) (e : Env) (f i : Nat) (nd : Node) (A B : Ty)
    (hr : NodeRule jt e.arrows A B nd) (hnh : ∀ h, nd ≠ .hidden h)
    (IH : ∀ c ∈ nd.children, ∀ a b, e.arrows[c]? = some (a, b) →
      ∃ t : Term a b, subE e f c a b = some t ∧ WT t)
    (hw : nd = .witness → ∃ v, e.wit i = some (compact v) ∧ HasTy v B) :
    ∃ t : Term A B, elabStep e f i nd A B = some ⟨A, B, t⟩ ∧ WT t := by
  cases nd with
  | iden =>
    simp only [NodeRule] at hr
    subst hr
    exact ⟨.iden, by simp [elabStep, castT_self], trivial⟩
  | unit =>
    simp only [NodeRule] at hr
    subst hr
    exact ⟨.unit, by simp [elabStep, castT_self], trivial⟩
  | injl c =>
    obtain ⟨Tc, X, hc, rfl⟩ := hr
    obtain ⟨t, ht, hwt⟩ := IH c (by simp [Node.children]) A Tc hc
    exact ⟨.injl t, by simp [elabStep, ht], hwt⟩
  | injr c =>
    obtain ⟨Tc, X, hc, rfl⟩ := hr
    obtain ⟨t, ht, hwt⟩ := IH c (by simp [Node.children]) A Tc hc
    exact ⟨.injr t, by simp [elabStep, ht], hwt⟩
  | take c =>
    obtain ⟨Sc, X, hc, rfl⟩ := hr
    obtain ⟨t, ht, hwt⟩ := IH c (by simp [Node.children]) Sc B hc
    exact ⟨.take t, by simp [elabStep, ht], hwt⟩
  | drop c =>
    obtain ⟨Sc, X, hc, rfl⟩ := hr
    obtain ⟨t, ht, hwt⟩ := IH c (by simp [Node.children]) Sc B hc
    exact ⟨.drop t, by simp [elabStep, ht], hwt⟩
  | comp x y =>
    obtain ⟨M, hx, hy⟩ := hr
    obtain ⟨s, hs, hws⟩ := IH x (by simp [Node.children]) A M hx
    obtain ⟨t, ht, hwt⟩ := IH y (by simp [Node.children]) M B hy
    exact ⟨.comp s t, by simp [elabStep, hx, hs, ht], hws, hwt⟩
  | case x y =>
    obtain ⟨X, Y, Z, hx, hy, rfl⟩ := hr
    obtain ⟨s, hs, hws⟩ := IH x (by simp [Node.children]) _ _ hx
    obtain ⟨t, ht, hwt⟩ := IH y (by simp [Node.children]) _ _ hy
    exact ⟨.case s t, by simp [elabStep, hs, ht], hws, hwt⟩
  | assertl x hh =>
    obtain ⟨X, Y, Z, hx, rfl⟩ := hr
    obtain ⟨s, hs, hws⟩ := IH x (by simp [Node.children]) _ _ hx
    exact ⟨.assertl s, by simp [elabStep, hs], hws⟩
  | assertr hh y =>
    obtain ⟨X, Y, Z, hy, rfl⟩ := hr
    obtain ⟨t, ht, hwt⟩ := IH y (by simp [Node.children]) _ _ hy
    exact ⟨.assertr t, by simp [elabStep, ht], hwt⟩
  | pair x y =>
    obtain ⟨Tx, Ty, hx, hy, rfl⟩ := hr
    obtain ⟨s, hs, hws⟩ := IH x (by simp [Node.children]) _ _ hx
    obtain ⟨t, ht, hwt⟩ := IH y (by simp [Node.children]) _ _ hy
    exact ⟨.pair s t, by simp [elabStep, hs, ht], hws, hwt⟩
  | disconnect x oy =>
    cases oy with
    | none => exact absurd hr (by simp [NodeRule])
    | some y =>
      obtain ⟨Y, Sy, Ty, hx, hy, rfl⟩ := hr
      obtain ⟨s, hs, hws⟩ := IH x (by simp [Node.children]) _ _ hx
      obtain ⟨t, ht, hwt⟩ := IH y (by simp [Node.children]) _ _ hy
      obtain ⟨cw, hcw, hcwt⟩ := valOfCompact_word 8 (bitsOfNat256 (e.cmr.getD y 0)) (bitsOfNat256_length _)
      exact ⟨.disconnect (wordTy 8) cw s t,
        by simp only [elabStep, hy, hcw, hs, ht, Option.bind_eq_bind, Option.bind_some, Option.pure_def],
        hcwt, hws, hwt⟩
  | witness =>
    obtain ⟨v, hv, hvt⟩ := hw rfl
    exact ⟨.witness v, by simp [elabStep, hv, valOfCompact_compact hvt], hvt⟩
  | fail en => exact ⟨.fail, by simp [elabStep], trivial⟩
  | word n bits =>
    obtain ⟨rfl, rfl, hl⟩ := hr
    obtain ⟨v, hv, hvt⟩ := valOfCompact_word n bits hl
    exact ⟨.word v, by simp [elabStep, hv, castT_self], hvt⟩
  | jet name => exact ⟨.jet (jetJF e name A B) (jetF e name A B), by simp [elabStep], jetOK_model e name A B⟩
  | hidden hh => exact absurd rfl (hnh hh)

/-- what elaboration needs of a typed program -/
structure ElabHyp (jt : JetTypes) (e : Env) : Prop where
  rules : ∀ i nd, e.plan[i]? = some nd → NodeRule jt e.arrows (srcOf e.arrows i) (tgtOf e.arrows i) nd
  nohidden : ∀ (i h : Nat), e.plan[i]? ≠ some (Node.hidden h)
  back : ∀ i (nd : Node), e.plan[i]? = some nd → ∀ c ∈ nd.children, c < i
  size : e.arrows.size = e.plan.size
  wit : ∀ i, e.plan[i]? = some .witness → ∃ v, e.wit i = some (compact v) ∧ HasTy v (tgtOf e.arrows i)

theorem arrows_get? (ar : Arrows) (i : Nat) (h : i < ar.size) : ar[i]? = some (srcOf ar i, tgtOf ar i) := by
  simp [srcOf, tgtOf, Array.getD, h]

/-- **every node of a typed program elaborates, at exactly its arrow, to a `WT` term** -/
theorem elab_total {jt : JetTypes} (e : Env) (H : ElabHyp jt e) : ∀ (f i : Nat), i < f → i < e.plan.size →
    ∃ t : Term (srcOf e.arrows i) (tgtOf e.arrows i),
      elabNode e f i = some ⟨srcOf e.arrows i, tgtOf e.arrows i, t⟩ ∧ WT t := by
  intro f
  induction f with
  | zero => intro i h; omega
  | succ f ih =>
    intro i hif hi
    obtain ⟨nd, hnd⟩ : ∃ nd, e.plan[i]? = some nd := ⟨e.plan[i], by simp [hi]⟩
    have har := arrows_get? e.arrows i (by rw [H.size]; exact hi)
    rw [elabNode_succ, hnd, har]
    simp only [Option.bind_eq_bind, Option.bind_some]
    refine elabStep_total jt e f i nd _ _ (H.rules i nd hnd) (fun h e' => H.nohidden i h (e' ▸ hnd)) ?_ ?_
    · intro c hc a b hcab
      have hci := H.back i nd hnd c hc
      have hcs : c < e.plan.size := by omega
      obtain ⟨t, ht, hwt⟩ := ih c (by omega) hcs
      have har' := arrows_get? e.arrows c (by rw [H.size]; exact hcs)
      rw [har'] at hcab
      simp only [Option.some.injEq, Prod.mk.injEq] at hcab
      obtain ⟨rfl, rfl⟩ := hcab
      exact ⟨t, by simp [subE, ht, castT_self], hwt⟩
    · intro hw
      subst hw
      exact H.wit i hnd

end Routes
