import SimplicityModel.MachineProof -- (spike: spikes/MachineProof.lean)
/-
Spike: C05/C07 wrapper — `BitMachine::for_program`, `input`, `exec`: a machine sized from the static
bounds, loaded with a value of the source type, returns exactly what the semantics says.
-/
namespace BM4

/-- `for_program`: buffer of `⌈(io + extra_cells)/8⌉` bytes, frame stacks of capacity
`extra_frames + IO_EXTRA_FRAMES` -/
def forProgramC {a b : Ty} (t : Term a b) (c : Nat) : M :=
  { cells := fun _ => false, next := 0, read := [], write := [],
    cap := c, fcap := extraFrames t + 2 }

def forProgram {a b : Ty} (t : Term a b) : M :=
  forProgramC t (8 * ((a.bw + b.bw + extraCells t + 7) / 8))

/-- `input`: a read frame holding the padded encoding (none for zero-width sources) -/
def input {a : Ty} (v : Val) (m : M) : Except Err M :=
  if a.bw = 0 then .ok m else do
    let m ← newWrite a.bw m
    let m ← writeBits (padded a v) m
    moveWriteToRead m

/-- `exec`: output frame (none for zero-width targets), run, read the output frame back -/
def exec {a b : Ty} (t : Term a b) (m : M) : Except Err (List Bool) :=
  if b.bw = 0 then (run t m).map fun _ => []
  else do
    let m ← newWrite b.bw m
    let m' ← run t m
    match m'.write with
    | [] => .error .crash
    | w :: _ => .ok (slice m'.cells w.start b.bw)

/-- the whole path on a machine with `c` cells -/
def execProgramC {a b : Ty} (t : Term a b) (v : Val) (c : Nat) : Except Err (List Bool) := do
  let m ← input (a := a) v (forProgramC t c)
  exec t m

def execProgram {a b : Ty} (t : Term a b) (v : Val) : Except Err (List Bool) :=
  execProgramC t v (8 * ((a.bw + b.bw + extraCells t + 7) / 8))

theorem cap_ge {a b : Ty} (t : Term a b) :
    a.bw + b.bw + extraCells t ≤ 8 * ((a.bw + b.bw + extraCells t + 7) / 8) := by
  omega

/-- after `input`, the machine holds the encoding at the start of its only read frame -/
theorem input_spec {a b : Ty} (t : Term a b) (v : Val) (hv : HasTy v a)
    (c : Nat) (hcap : a.bw + b.bw + extraCells t ≤ c) :
    ∃ m, input (a := a) v (forProgramC t c) = .ok m ∧ m.next = a.bw ∧ m.write = [] ∧
      m.cap = c ∧ m.fcap = extraFrames t + 2 ∧
      (a.bw = 0 → m.read = []) ∧ (a.bw ≠ 0 → m.read = [⟨0, 0, a.bw⟩]) ∧
      slice m.cells 0 a.bw = padded a v := by
  have hlen := (enc_padded hv).length
  unfold input
  by_cases h0 : a.bw = 0
  · rw [if_pos h0]
    refine ⟨forProgramC t c, rfl, by simp [forProgramC, h0], rfl, rfl, rfl, fun _ => rfl, fun h => absurd h0 h, ?_⟩
    rw [h0]; simp only [slice]
    exact (List.eq_nil_of_length_eq_zero (by omega)).symm
  · rw [if_neg h0]
    have hnw : newWrite a.bw (forProgramC t c) =
        .ok { forProgramC t c with write := [⟨0, 0, a.bw⟩], next := a.bw } := by
      unfold newWrite
      rw [if_pos ⟨by simp only [forProgramC] at hcap ⊢; omega, by simp [forProgramC]⟩]
      simp [forProgramC]
    rw [hnw, ok_bind]
    obtain ⟨m1, hr, h1, h2, h3, h4, h5⟩ := writeBits_spec (padded a v)
      { forProgramC t c with write := [⟨0, 0, a.bw⟩], next := a.bw } ⟨0, 0, a.bw⟩ [] rfl
      (by simp only [forProgramC] at hcap ⊢; omega)
    have hc1 := writeBits_caps _ hr
    rw [hr, ok_bind]
    refine ⟨{ m1 with write := [], read := [⟨0, 0, a.bw⟩] }, ?_, ?_, rfl, ?_, ?_, fun h => absurd h h0, fun _ => rfl, ?_⟩
    · simp [moveWriteToRead, h3, h1]; simp [forProgramC]
    · simp [h2]
    · show m1.cap = c; rw [hc1.1]; rfl
    · simp [hc1.2]; rfl
    · simp only []
      rw [← hlen]; exact h4

/-- **C05 + C07, whole path**: on every value of the source type, the machine built by
`for_program` never crashes and returns a padded encoding of `eval t v`, or fails iff `eval` fails -/
theorem exec_spec_cap {a b : Ty} (t : Term a b) (v : Val) (hv : HasTy v a) (hwt : WT t)
    (c : Nat) (hcap : a.bw + b.bw + extraCells t ≤ c) :
    match eval t v with
    | some out => ∃ bits, execProgramC t v c = .ok bits ∧ Enc b out bits
    | none => execProgramC t v c = .error .fail := by
  obtain ⟨m, hin, hnext, hwr, hcapm, hfcap, hr0, hr1, henc⟩ := input_spec t v hv c hcap
  unfold execProgramC
  rw [hin, ok_bind]
  have hrc : rcur m = 0 := by
    by_cases h0 : a.bw = 0
    · simp [rcur, hr0 h0]
    · simp [rcur, hr1 h0]
  have hrlen : m.read.length ≤ 1 := by
    by_cases h0 : a.bw = 0
    · simp [hr0 h0]
    · simp [hr1 h0]
  unfold exec
  by_cases hb : b.bw = 0
  · -- no output frame
    rw [if_pos hb]
    have pre : Pre m a b v := by
      refine ⟨by rw [hrc, henc]; exact enc_padded hv, fun h => by simp [hr1 h], fun h => absurd hb h,
        by rw [hrc]; omega, by simp [wcur, hwr, hb], fun i j _ hj => by omega⟩
    have cp : Cap m t := ⟨by rw [hcapm]; omega, by rw [hwr, hfcap]; simp; omega⟩
    have hs := run_spec t m v hwt pre cp
    unfold Spec at hs
    cases he : eval t v with
    | none => rw [he] at hs; simp [hs]; rfl
    | some out =>
      rw [he] at hs
      obtain ⟨m', hrun, post⟩ := hs
      refine ⟨[], by simp [hrun]; rfl, ?_⟩
      have := post.enc; rw [hb] at this; simpa [slice] using this
  · rw [if_neg hb]
    let m1 : M := { m with write := [⟨a.bw, a.bw, b.bw⟩], next := a.bw + b.bw }
    have hnw : newWrite b.bw m = .ok m1 := by
      unfold newWrite
      rw [if_pos ⟨by rw [hnext, hcapm]; omega, by rw [hwr, hfcap]; simp; omega⟩]
      simp [m1, hwr, hnext]
    rw [hnw, ok_bind]
    have pre : Pre m1 a b v := by
      refine ⟨by show Enc a v (slice m.cells (rcur m) a.bw); rw [hrc, henc]; exact enc_padded hv,
        fun h => by simp [m1, hr1 h], fun _ => by simp [m1], ?_, ?_, ?_⟩
      · show rcur m + a.bw ≤ a.bw + b.bw; omega
      · show a.bw + b.bw ≤ a.bw + b.bw; omega
      · intro i j hi hj; show rcur m + i ≠ a.bw + j; omega
    have cp : Cap m1 t := by
      refine ⟨?_, ?_⟩
      · show a.bw + b.bw + extraCells t ≤ m.cap; rw [hcapm]; exact hcap
      · show [(⟨a.bw, a.bw, b.bw⟩ : Frame)].length + m.read.length + extraFrames t ≤ m.fcap
        rw [hfcap]; simp; omega
    have hs := run_spec t m1 v hwt pre cp
    unfold Spec at hs
    cases he : eval t v with
    | none => rw [he] at hs; simp [hs]
    | some out =>
      rw [he] at hs
      obtain ⟨m', hrun, post⟩ := hs
      rw [hrun, ok_bind]
      have hw' : m'.write = [⟨a.bw + b.bw, a.bw, b.bw⟩] := by
        rw [post.write]; simp [m1, advW]
      refine ⟨slice m'.cells a.bw b.bw, by simp [hw'], ?_⟩
      have := post.enc
      simpa [wcur, m1] using this

/-- the machine as `for_program` sizes it (cells rounded up to whole bytes) -/
theorem exec_spec {a b : Ty} (t : Term a b) (v : Val) (hv : HasTy v a) (hwt : WT t) :
    match eval t v with
    | some out => ∃ bits, execProgram t v = .ok bits ∧ Enc b out bits
    | none => execProgram t v = .error .fail :=
  exec_spec_cap t v hv hwt _ (cap_ge t)

/-- **C07**: a machine with *exactly* `source + target + extra_cells` cells and `extra_frames + 2`
frames never crashes (a cell or frame beyond the capacity is a crash in this model), on failing
runs too: every execution stays within the static bounds plus the IO allowance. -/
theorem exec_within_bounds {a b : Ty} (t : Term a b) (v : Val) (hv : HasTy v a) (hwt : WT t) :
    execProgramC t v (a.bw + b.bw + extraCells t) ≠ .error .crash := by
  have h := exec_spec_cap t v hv hwt (a.bw + b.bw + extraCells t) (Nat.le_refl _)
  cases he : eval t v with
  | none => rw [he] at h; simp only at h; rw [h]; intro hc; cases hc
  | some out =>
    rw [he] at h
    obtain ⟨bits, hb, _⟩ := h
    rw [hb]; intro hc; cases hc

#print axioms exec_spec
end BM4
