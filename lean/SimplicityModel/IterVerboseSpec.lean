import SimplicityModel.IterVerbose
set_option linter.unusedSectionVars false
set_option linter.unusedVariables false
/-
C18 — the verbose pre-order stack machine computes a recursive specification (`vspec`): a node that
was not seen is yielded with count 0, then (unless the depth limit forbids) its left sub-walk, the
node with count 1, its right sub-walk, the node with count 2; and without a depth limit its first
yields are the pre-order iteration.
-/
namespace PO
variable {K : Type} [DecidableEq K] (key : T → Option K)

inductive VSteps (md : Option Nat) : VSt K → List VItem → VSt K → Prop
  | refl (s) : VSteps md s [] s
  | cons {s s' s'' o outs} : vstep key md s = some (s', o) → VSteps md s' outs s'' →
      VSteps md s (o.toList ++ outs) s''

theorem VSteps.trans {md : Option Nat} {a b c : VSt K} {o1 o2 : List VItem}
    (h1 : VSteps key md a o1 b) (h2 : VSteps key md b o2 c) : VSteps key md a (o1 ++ o2) c := by
  induction h1 with
  | refl => simpa using h2
  | cons hs _ ih => rw [List.append_assoc]; exact VSteps.cons hs (ih h2)

theorem VSteps.one {md : Option Nat} {s s' : VSt K} {o}
    (h : vstep key md s = some (s', o)) : VSteps key md s o.toList s' := by
  have := VSteps.cons h (VSteps.refl s')
  simpa using this

/-- may the children of a node at `depth` be visited? -/
def goDeeper (md : Option Nat) (depth : Nat) : Bool := decide (depth < md.getD (depth + 1))

/-- recursive specification: (yields, tracker, next index) -/
def vspec (md : Option Nat) : T → Nat → Option T → Seen K → Nat → List VItem × Seen K × Nat
  | .leaf id, depth, parent, seen, idx =>
    match record key seen (.leaf id) 0 with
    | (some _, s') => ([], s', idx)
    | (none, s') => ([⟨.leaf id, parent, idx, depth, 0, true⟩], s', idx + 1)
  | .un id l, depth, parent, seen, idx =>
    match record key seen (.un id l) 0 with
    | (some _, s') => ([], s', idx)
    | (none, s') =>
      let a := if goDeeper md depth then vspec md l (depth + 1) (some (.un id l)) s' (idx + 1) else ([], s', idx + 1)
      (⟨.un id l, parent, idx, depth, 0, false⟩ :: a.1 ++ [⟨.un id l, parent, idx, depth, 1, true⟩], a.2.1, a.2.2)
  | .bin id l r, depth, parent, seen, idx =>
    match record key seen (.bin id l r) 0 with
    | (some _, s') => ([], s', idx)
    | (none, s') =>
      let a := if goDeeper md depth then vspec md l (depth + 1) (some (.bin id l r)) s' (idx + 1) else ([], s', idx + 1)
      let b := if goDeeper md depth then vspec md r (depth + 1) (some (.bin id l r)) a.2.1 a.2.2 else ([], a.2.1, a.2.2)
      (⟨.bin id l r, parent, idx, depth, 0, false⟩ :: a.1 ++ [⟨.bin id l r, parent, idx, depth, 1, false⟩] ++ b.1 ++
        [⟨.bin id l r, parent, idx, depth, 2, true⟩], b.2.1, b.2.2)

theorem vstep_seen (md : Option Nat) (t : T) (d : Nat) (p : Option T) (rest : List VItem) (idx : Nat)
    (seen s' : Seen K) (i : Nat) (hr : record key seen t 0 = (some i, s')) :
    vstep key md ⟨VItem.initial t d p :: rest, idx, seen⟩ = some (⟨rest, idx, s'⟩, none) := by
  simp [vstep, VItem.initial, hr]

theorem vstep_later (md : Option Nat) (it : VItem) (rest : List VItem) (idx : Nat) (seen : Seen K)
    (h : it.ncy ≠ 0) :
    vstep key md ⟨it :: rest, idx, seen⟩ = some (⟨vpush md it rest, idx, seen⟩, some it) := by
  simp [vstep, h]

theorem vstep_fresh (md : Option Nat) (t : T) (d : Nat) (p : Option T) (rest : List VItem) (idx : Nat)
    (seen s' : Seen K) (hr : record key seen t 0 = (none, s')) :
    vstep key md ⟨VItem.initial t d p :: rest, idx, seen⟩ =
      some (⟨vpush md ⟨t, p, idx, d, 0, t.nChildren == 0⟩ rest, idx + 1, s'⟩,
            some ⟨t, p, idx, d, 0, t.nChildren == 0⟩) := by
  simp [vstep, VItem.initial, hr]

theorem vsim (md : Option Nat) (t : T) : ∀ (depth : Nat) (parent : Option T) (rest : List VItem)
    (seen : Seen K) (idx : Nat),
    VSteps key md ⟨VItem.initial t depth parent :: rest, idx, seen⟩
      (vspec key md t depth parent seen idx).1
      ⟨rest, (vspec key md t depth parent seen idx).2.2, (vspec key md t depth parent seen idx).2.1⟩ := by
  induction t with
  | leaf id =>
    intro depth parent rest seen idx
    simp only [vspec]
    cases hr : record key seen (.leaf id) 0 with
    | mk a s' =>
      cases a with
      | some i => simpa using VSteps.one key (vstep_seen key md _ depth parent rest idx seen s' i hr)
      | none =>
        have := VSteps.one key (vstep_fresh key md _ depth parent rest idx seen s' hr)
        simpa [vpush, T.nChildren] using this
  | un id l ih =>
    intro depth parent rest seen idx
    simp only [vspec]
    cases hr : record key seen (.un id l) 0 with
    | mk a s' =>
      cases a with
      | some i => simpa using VSteps.one key (vstep_seen key md _ depth parent rest idx seen s' i hr)
      | none =>
        have h1 := VSteps.one key (vstep_fresh key md _ depth parent rest idx seen s' hr)
        have hlast : ∀ (idx' : Nat) (sn : Seen K),
            VSteps key md ⟨⟨.un id l, parent, idx, depth, 1, true⟩ :: rest, idx', sn⟩
              [⟨.un id l, parent, idx, depth, 1, true⟩] ⟨rest, idx', sn⟩ := by
          intro idx' sn
          have := VSteps.one key (vstep_later key md ⟨.un id l, parent, idx, depth, 1, true⟩ rest idx' sn (by simp))
          simpa [vpush, T.nChildren] using this
        by_cases hg : goDeeper md depth = true
        · have hg' : depth < md.getD (depth + 1) := by simpa [goDeeper] using hg
          simp only [hg, if_true]
          have h2 := ih (depth + 1) (some (.un id l)) (⟨.un id l, parent, idx, depth, 1, true⟩ :: rest) s' (idx + 1)
          simp only [vpush, T.nChildren, pushChild, hg', T.left, T.right, VItem.increment, if_true] at h1
          have := (h1.trans key h2).trans key (hlast _ _)
          simpa [List.append_assoc] using this
        · have hg' : ¬ depth < md.getD (depth + 1) := by simpa [goDeeper] using hg
          simp only [hg, if_false]
          simp only [vpush, T.nChildren, pushChild, hg', T.left, T.right, VItem.increment, if_false] at h1
          have := h1.trans key (hlast (idx + 1) s')
          simpa [List.append_assoc] using this
  | bin id l r ihl ihr =>
    intro depth parent rest seen idx
    simp only [vspec]
    cases hr : record key seen (.bin id l r) 0 with
    | mk a s' =>
      cases a with
      | some i => simpa using VSteps.one key (vstep_seen key md _ depth parent rest idx seen s' i hr)
      | none =>
        have h1 := VSteps.one key (vstep_fresh key md _ depth parent rest idx seen s' hr)
        have hlast : ∀ (idx' : Nat) (sn : Seen K),
            VSteps key md ⟨⟨.bin id l r, parent, idx, depth, 2, true⟩ :: rest, idx', sn⟩
              [⟨.bin id l r, parent, idx, depth, 2, true⟩] ⟨rest, idx', sn⟩ := by
          intro idx' sn
          have := VSteps.one key (vstep_later key md ⟨.bin id l r, parent, idx, depth, 2, true⟩ rest idx' sn (by simp))
          simpa [vpush, T.nChildren] using this
        have hmid : ∀ (idx' : Nat) (sn : Seen K),
            vstep key md ⟨⟨.bin id l r, parent, idx, depth, 1, false⟩ :: rest, idx', sn⟩ =
              some (⟨vpush md ⟨.bin id l r, parent, idx, depth, 1, false⟩ rest, idx', sn⟩,
                some ⟨.bin id l r, parent, idx, depth, 1, false⟩) :=
          fun idx' sn => vstep_later key md _ rest idx' sn (by simp)
        by_cases hg : goDeeper md depth = true
        · have hg' : depth < md.getD (depth + 1) := by simpa [goDeeper] using hg
          simp only [hg, if_true]
          have h2 := ihl (depth + 1) (some (.bin id l r)) (⟨.bin id l r, parent, idx, depth, 1, false⟩ :: rest) s' (idx + 1)
          have h3 := VSteps.one key (hmid (vspec key md l (depth + 1) (some (.bin id l r)) s' (idx + 1)).2.2
            (vspec key md l (depth + 1) (some (.bin id l r)) s' (idx + 1)).2.1)
          have h4 := ihr (depth + 1) (some (.bin id l r)) (⟨.bin id l r, parent, idx, depth, 2, true⟩ :: rest)
            (vspec key md l (depth + 1) (some (.bin id l r)) s' (idx + 1)).2.1
            (vspec key md l (depth + 1) (some (.bin id l r)) s' (idx + 1)).2.2
          simp only [vpush, T.nChildren, pushChild, hg', T.left, T.right, VItem.increment, if_true] at h1 h3
          have := (((h1.trans key h2).trans key h3).trans key h4).trans key (hlast _ _)
          simpa [List.append_assoc] using this
        · have hg' : ¬ depth < md.getD (depth + 1) := by simpa [goDeeper] using hg
          simp only [hg, if_false]
          have h3 := VSteps.one key (hmid (idx + 1) s')
          simp only [vpush, T.nChildren, pushChild, hg', T.left, T.right, VItem.increment, if_false] at h1 h3
          have := (h1.trans key h3).trans key (hlast _ _)
          simpa [List.append_assoc] using this

theorem vrun_of_vsteps {md : Option Nat} {s s' : VSt K} {outs : List VItem}
    (h : VSteps key md s outs s') (he : s'.stack = []) : vrun key md s = outs := by
  induction h with
  | refl s =>
    rw [vrun]
    split
    · rfl
    · rename_i s2 o hs; simp [vstep, he] at hs
  | @cons s s1 s2 o outs hs _ ih =>
    rw [vrun]
    split
    · rename_i hn; rw [hs] at hn; cases hn
    · rename_i s3 o3 hs3
      rw [hs] at hs3; cases hs3
      rw [ih he]

/-- **the verbose stack machine computes the recursive specification** -/
theorem vrun_eq_vspec (md : Option Nat) (root : T) :
    vrun key md (vinit root) = (vspec key md root 0 none (fun _ => none) 0).1 :=
  vrun_of_vsteps key (vsim key md root 0 none [] (fun _ => none) 0) rfl

/-! ### properties of the specification -/

/-- the yields with `n_children_yielded = 0` -/
def firsts (l : List VItem) : List VItem := l.filter (fun v => v.ncy == 0)

theorem goDeeper_none (d : Nat) : goDeeper none d = true := by simp [goDeeper]

/-- without a depth limit the first yields are the pre-order iteration (same tracker afterwards) -/
theorem vspec_firsts_pre (t : T) : ∀ (depth : Nat) (parent : Option T) (seen : Seen K) (idx : Nat),
    (firsts (vspec key none t depth parent seen idx).1).map (·.node) = (pre key t seen).1 ∧
    (vspec key none t depth parent seen idx).2.1 = (pre key t seen).2 := by
  induction t with
  | leaf id =>
    intro depth parent seen idx
    simp only [vspec, pre]
    cases record key seen (.leaf id) 0 with
    | mk a s' => cases a <;> simp [firsts]
  | un id l ih =>
    intro depth parent seen idx
    simp only [vspec, pre, goDeeper_none, if_true]
    cases record key seen (.un id l) 0 with
    | mk a s' =>
      cases a with
      | some i => simp [firsts]
      | none =>
        obtain ⟨h1, h2⟩ := ih (depth + 1) (some (.un id l)) s' (idx + 1)
        simp only [firsts] at h1
        simp [firsts, List.filter_cons, List.filter_append, h1, h2]
  | bin id l r ihl ihr =>
    intro depth parent seen idx
    simp only [vspec, pre, goDeeper_none, if_true]
    cases record key seen (.bin id l r) 0 with
    | mk a s' =>
      cases a with
      | some i => simp [firsts]
      | none =>
        obtain ⟨h1, h2⟩ := ihl (depth + 1) (some (.bin id l r)) s' (idx + 1)
        obtain ⟨g1, g2⟩ := ihr (depth + 1) (some (.bin id l r))
          (vspec key none l (depth + 1) (some (.bin id l r)) s' (idx + 1)).2.1
          (vspec key none l (depth + 1) (some (.bin id l r)) s' (idx + 1)).2.2
        rw [h2] at g1 g2
        simp only [firsts] at h1 g1
        simp [firsts, List.filter_cons, List.filter_append, h1, h2, g1, g2]

/-- first yields are numbered consecutively from the start index (repeated yields repeat the
index of the first: that is in the shape of `vspec` itself) -/
theorem vspec_indices (md : Option Nat) (t : T) : ∀ (depth : Nat) (parent : Option T) (seen : Seen K) (idx : Nat),
    ∃ c, (vspec key md t depth parent seen idx).2.2 = idx + c ∧
      (firsts (vspec key md t depth parent seen idx).1).map (·.index) = List.range' idx c := by
  induction t with
  | leaf id =>
    intro depth parent seen idx
    simp only [vspec]
    cases record key seen (.leaf id) 0 with
    | mk a s' =>
      cases a with
      | some i => exact ⟨0, rfl, by simp [firsts]⟩
      | none => exact ⟨1, rfl, by simp [firsts, List.range']⟩
  | un id l ih =>
    intro depth parent seen idx
    simp only [vspec]
    cases record key seen (.un id l) 0 with
    | mk a s' =>
      cases a with
      | some i => exact ⟨0, rfl, by simp [firsts]⟩
      | none =>
        by_cases hg : goDeeper md depth = true
        · obtain ⟨c, h1, h2⟩ := ih (depth + 1) (some (.un id l)) s' (idx + 1)
          simp only [hg, if_true]
          refine ⟨c + 1, by omega, ?_⟩
          simp only [firsts] at h2
          simp [firsts, List.filter_cons, List.filter_append, h2, List.range'_succ]
        · simp only [hg]
          exact ⟨1, rfl, by simp [firsts, List.filter_cons, List.range']⟩
  | bin id l r ihl ihr =>
    intro depth parent seen idx
    simp only [vspec]
    cases record key seen (.bin id l r) 0 with
    | mk a s' =>
      cases a with
      | some i => exact ⟨0, rfl, by simp [firsts]⟩
      | none =>
        by_cases hg : goDeeper md depth = true
        · obtain ⟨c, h1, h2⟩ := ihl (depth + 1) (some (.bin id l r)) s' (idx + 1)
          obtain ⟨d, g1, g2⟩ := ihr (depth + 1) (some (.bin id l r))
            (vspec key md l (depth + 1) (some (.bin id l r)) s' (idx + 1)).2.1
            (vspec key md l (depth + 1) (some (.bin id l r)) s' (idx + 1)).2.2
          simp only [hg, if_true]
          refine ⟨(c + d) + 1, by omega, ?_⟩
          simp only [firsts] at h2 g2
          simp [firsts, List.filter_cons, List.filter_append, h2, g2, List.range'_succ]
          rw [h1, List.range'_append_1]
        · simp only [hg]
          exact ⟨1, rfl, by simp [firsts, List.filter_cons, List.range']⟩

/-- the depth limit is respected: nothing deeper than the limit is yielded -/
theorem vspec_depth (m : Nat) (t : T) : ∀ (depth : Nat) (parent : Option T) (seen : Seen K) (idx : Nat),
    depth ≤ m → ∀ v ∈ (vspec key (some m) t depth parent seen idx).1, v.depth ≤ m := by
  induction t with
  | leaf id =>
    intro depth parent seen idx hd v hv
    simp only [vspec] at hv
    cases hr : record key seen (.leaf id) 0 with
    | mk a s' =>
      rw [hr] at hv
      cases a with
      | some i => simp at hv
      | none => simp at hv; subst hv; exact hd
  | un id l ih =>
    intro depth parent seen idx hd v hv
    simp only [vspec] at hv
    cases hr : record key seen (.un id l) 0 with
    | mk a s' =>
      rw [hr] at hv
      cases a with
      | some i => simp at hv
      | none =>
        simp only [List.mem_cons, List.mem_append, List.mem_singleton, List.not_mem_nil, or_false] at hv
        rcases hv with (rfl | hv) | rfl
        · exact hd
        · by_cases hg : goDeeper (some m) depth = true
          · have hg' : depth < m := by simpa [goDeeper] using hg
            simp only [hg, if_true] at hv
            exact ih (depth + 1) _ _ _ (by omega) v hv
          · simp [hg] at hv
        · exact hd
  | bin id l r ihl ihr =>
    intro depth parent seen idx hd v hv
    simp only [vspec] at hv
    cases hr : record key seen (.bin id l r) 0 with
    | mk a s' =>
      rw [hr] at hv
      cases a with
      | some i => simp at hv
      | none =>
        simp only [List.mem_cons, List.mem_append, List.mem_singleton, List.not_mem_nil, or_false] at hv
        by_cases hg : goDeeper (some m) depth = true
        · have hg' : depth < m := by simpa [goDeeper] using hg
          simp only [hg, if_true] at hv
          rcases hv with (((rfl | hv) | rfl) | hv) | rfl
          · exact hd
          · exact ihl (depth + 1) _ _ _ (by omega) v hv
          · exact hd
          · exact ihr (depth + 1) _ _ _ (by omega) v hv
          · exact hd
        · simp only [hg] at hv
          simp at hv
          rcases hv with (rfl | rfl) | rfl <;> exact hd

end PO
