import SimplicityModel.Shared
import SimplicityModel.PreOrder
set_option linter.unusedSectionVars false
set_option linter.unusedVariables false
/-
C18 — the iterators of `src/dag.rs` as *functions*: `run` drives `step` (one iteration of the
`loop` of `PostOrderIter::next`) until the stack is empty, `prun` does the same for `pstep`
(`PreOrderIter::next`).  Both are defined by well-founded recursion on a weight of the stack, so the
definitions are themselves the termination proofs (`next_terminates` of DESIGN.md): no fuel.
`run_eq_visit` / `prun_eq_pre` tie them to the recursive specifications the property theorems
are proved on.  The driver (`Driver/C18.lean`) executes exactly these functions.
-/
namespace PO
variable {K : Type} [DecidableEq K] (key : T → Option K)

theorem T.size_pos (t : T) : 0 < t.size := by cases t <;> simp only [T.size] <;> omega

/-! ### post-order -/

/-- an unprocessed item still has to unfold its whole sub-DAG (twice its size: every node is pushed
once and popped twice), a processed one is popped once more -/
def Item.weight (it : Item) : Nat := if it.processed then 1 else 2 * it.elem.size

def stackWeight : List Item → Nat
  | [] => 0
  | it :: s => it.weight + stackWeight s

theorem patch_weight (p : Prev) (ci : Nat) (s : List Item) : stackWeight (patch p ci s) = stackWeight s := by
  cases p with
  | root => simp
  | parentLeft => cases s with
    | nil => rfl
    | cons par s => simp [stackWeight, Item.weight]
  | parentRight => cases s with
    | nil => rfl
    | cons par s => simp [stackWeight, Item.weight]
  | siblingLeft => cases s with
    | nil => rfl
    | cons sib s => cases s with
      | nil => rfl
      | cons par s => simp [stackWeight, Item.weight]

theorem childStatus_new_left {seen : Seen K} {t c : T} (h : childStatus key seen t.left = .new c) :
    t.left = some c := by
  unfold childStatus at h
  cases hl : t.left with
  | none => rw [hl] at h; cases h
  | some c' =>
    rw [hl] at h; simp only [] at h
    cases hs : seenBefore key seen c' <;> rw [hs] at h <;> simp only [] at h
    · cases h; rfl
    · cases h

theorem childStatus_new_right {seen : Seen K} {t c : T} (h : childStatus key seen t.right = .new c) :
    t.right = some c := by
  unfold childStatus at h
  cases hl : t.right with
  | none => rw [hl] at h; cases h
  | some c' =>
    rw [hl] at h; simp only [] at h
    cases hs : seenBefore key seen c' <;> rw [hs] at h <;> simp only [] at h
    · cases h; rfl
    · cases h

theorem childStatus_none {seen : Seen K} {o : Option T} (h : childStatus key seen o = .none) : o = none := by
  unfold childStatus at h
  cases o with
  | none => rfl
  | some c' =>
    simp only [] at h
    cases hs : seenBefore key seen c' <;> rw [hs] at h <;> cases h

theorem left_size {t c : T} (h : t.left = some c) : c.size < t.size := by
  cases t <;> simp [T.left] at h <;> subst h <;> simp only [T.size] <;> omega

theorem right_size {t c : T} (h : t.right = some c) : c.size < t.size := by
  cases t <;> simp [T.right] at h <;> subst h <;> simp only [T.size] <;> omega

theorem both_size {t l r : T} (hl : t.left = some l) (hr : t.right = some r) : l.size + r.size < t.size := by
  cases t <;> simp [T.left, T.right] at hl hr
  obtain ⟨rfl⟩ := hl; obtain ⟨rfl⟩ := hr
  simp only [T.size]; omega

/-- **`PostOrderIter::next` terminates**: every iteration of its loop strictly decreases the weight -/
theorem step_decreases (s s' : St K) (o : Option Out) (h : step key s = some (s', o)) :
    stackWeight s'.stack < stackWeight s.stack := by
  unfold step at h
  cases hst : s.stack with
  | nil => rw [hst] at h; cases h
  | cons cur rest =>
    rw [hst] at h
    simp only [] at h
    by_cases hp : cur.processed = true
    · simp only [hp, Bool.not_true, Bool.false_eq_true, if_false] at h
      have hw : stackWeight (cur :: rest) = 1 + stackWeight rest := by simp [stackWeight, Item.weight, hp]
      rw [hw]
      cases hr : record key s.seen cur.elem s.index with
      | mk a seen' =>
        rw [hr] at h
        cases a with
        | some i =>
          simp only [Option.some.injEq, Prod.mk.injEq] at h
          obtain ⟨rfl, _⟩ := h
          simp only [patch_weight]; omega
        | none =>
          simp only [Option.some.injEq, Prod.mk.injEq] at h
          obtain ⟨rfl, _⟩ := h
          simp only [patch_weight]; omega
    · have hp' : cur.processed = false := by cases hc : cur.processed <;> simp_all
      simp only [hp', Bool.not_false, if_true] at h
      have hw : stackWeight (cur :: rest) = 2 * cur.elem.size + stackWeight rest := by
        simp [stackWeight, Item.weight, hp']
      rw [hw]
      have hpos := T.size_pos cur.elem
      cases hl : childStatus key s.seen cur.elem.left with
      | none =>
        rw [hl] at h
        simp only [Option.some.injEq, Prod.mk.injEq] at h
        obtain ⟨rfl, _⟩ := h
        simp only [stackWeight, Item.weight]; simp; omega
      | rep li =>
        rw [hl] at h
        cases hr : childStatus key s.seen cur.elem.right with
        | none =>
          rw [hr] at h
          simp only [Option.some.injEq, Prod.mk.injEq] at h
          obtain ⟨rfl, _⟩ := h
          simp only [stackWeight, Item.weight]; simp; omega
        | rep ri =>
          rw [hr] at h
          simp only [Option.some.injEq, Prod.mk.injEq] at h
          obtain ⟨rfl, _⟩ := h
          simp only [stackWeight, Item.weight]; simp; omega
        | new c =>
          rw [hr] at h
          simp only [Option.some.injEq, Prod.mk.injEq] at h
          obtain ⟨rfl, _⟩ := h
          have := right_size (childStatus_new_right key hr)
          simp only [stackWeight, Item.weight, unprocessed]; simp; omega
      | new c =>
        rw [hl] at h
        have hcl := left_size (childStatus_new_left key hl)
        cases hr : childStatus key s.seen cur.elem.right with
        | none =>
          rw [hr] at h
          simp only [Option.some.injEq, Prod.mk.injEq] at h
          obtain ⟨rfl, _⟩ := h
          simp only [stackWeight, Item.weight, unprocessed]; simp; omega
        | rep ri =>
          rw [hr] at h
          simp only [Option.some.injEq, Prod.mk.injEq] at h
          obtain ⟨rfl, _⟩ := h
          simp only [stackWeight, Item.weight, unprocessed]; simp; omega
        | new c2 =>
          rw [hr] at h
          simp only [Option.some.injEq, Prod.mk.injEq] at h
          obtain ⟨rfl, _⟩ := h
          have := both_size (childStatus_new_left key hl) (childStatus_new_right key hr)
          simp only [stackWeight, Item.weight, unprocessed]; simp; omega

/-- the whole iteration: everything `next` yields until it returns `None` -/
def run (s : St K) : List Out :=
  match h : step key s with
  | none => []
  | some (s', o) => o.toList ++ run s'
termination_by stackWeight s.stack
decreasing_by exact step_decreases key s s' o h

/-- the state `DagLike::post_order_iter` starts from -/
def init (root : T) : St K := ⟨0, [unprocessed root .root], fun _ => none⟩

theorem run_of_steps {s s' : St K} {outs : List Out} (h : Steps key s outs s') (he : s'.stack = []) :
    run key s = outs := by
  induction h with
  | refl s =>
    rw [run]
    split
    · rfl
    · rename_i s2 o hs; simp [step, he] at hs
  | @cons s s1 s2 o outs hs _ ih =>
    rw [run]
    split
    · rename_i hn; rw [hs] at hn; cases hn
    · rename_i s3 o3 hs3
      rw [hs] at hs3; cases hs3
      rw [ih he]

/-- **the explicit-stack iterator computes the recursive specification** -/
theorem run_eq_visit (root : T) : run key (init root) = (visit key root (fun _ => none) 0).1 :=
  run_of_steps key (postOrder_eq_visit key root) rfl

/-! ### pre-order -/

def pWeight : List T → Nat
  | [] => 0
  | t :: s => t.size + pWeight s

theorem pstep_decreases (s s' : PSt K) (o : Option T) (h : pstep key s = some (s', o)) :
    pWeight s'.stack < pWeight s.stack := by
  unfold pstep at h
  cases hst : s.stack with
  | nil => rw [hst] at h; cases h
  | cons top rest =>
    rw [hst] at h
    simp only [] at h
    have hpos := T.size_pos top
    cases hr : record key s.seen top 0 with
    | mk a seen' =>
      rw [hr] at h
      cases a with
      | some i =>
        simp only [Option.some.injEq, Prod.mk.injEq] at h
        obtain ⟨rfl, _⟩ := h
        simp only [pWeight]; omega
      | none =>
        simp only [Option.some.injEq, Prod.mk.injEq] at h
        obtain ⟨rfl, _⟩ := h
        cases top with
        | leaf id => simp only [T.left, T.right, pWeight, T.size]; omega
        | un id l => simp only [T.left, T.right, pWeight, T.size]; omega
        | bin id l r => simp only [T.left, T.right, pWeight, T.size]; omega

/-- everything `PreOrderIter::next` yields until it returns `None` -/
def prun (s : PSt K) : List T :=
  match h : pstep key s with
  | none => []
  | some (s', o) => o.toList ++ prun s'
termination_by pWeight s.stack
decreasing_by exact pstep_decreases key s s' o h

def pinit (root : T) : PSt K := ⟨[root], fun _ => none⟩

theorem prun_of_psteps {s s' : PSt K} {outs : List T} (h : PSteps key s outs s') (he : s'.stack = []) :
    prun key s = outs := by
  induction h with
  | refl s =>
    rw [prun]
    split
    · rfl
    · rename_i s2 o hs; simp [pstep, he] at hs
  | @cons s s1 s2 o outs hs _ ih =>
    rw [prun]
    split
    · rename_i hn; rw [hs] at hn; cases hn
    · rename_i s3 o3 hs3
      rw [hs] at hs3; cases hs3
      rw [ih he]

theorem prun_eq_pre (root : T) : prun key (pinit root) = (pre key root (fun _ => none)).1 :=
  prun_of_psteps key (preOrder_eq_pre key root) rfl

/-! ### `is_shared_as` on the iterators -/

/-- `DagLike::is_shared_as`: zip the pointer-sharing iteration with the requested one, compare
pointers -/
def isSharedAsRun (root : T) : Bool :=
  ((run ptr (init root)).zip (run key (init root))).all fun p => p.1.node.id == p.2.node.id

theorem isSharedAsRun_eq (root : T) : isSharedAsRun key root = isSharedAs key root := by
  unfold isSharedAsRun isSharedAs
  rw [run_eq_visit, run_eq_visit]

end PO
