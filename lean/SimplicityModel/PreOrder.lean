import SimplicityModel.PostOrderProps
/-
Spike: C18 — `PreOrderIter::next` (stack of pending handles + tracker) refines a recursive
specification which yields every class once, a parent before its descendants' first yields.
-/
namespace PO
variable {K : Type} [DecidableEq K] (key : T → Option K)

structure PSt (K : Type) where
  stack : List T
  seen : Seen K

/-- one iteration of the `while let Some(top) = self.stack.pop()` loop -/
def pstep (s : PSt K) : Option (PSt K × Option T) :=
  match s.stack with
  | [] => none
  | top :: rest =>
    match record key s.seen top 0 with
    | (some _, seen') => some (⟨rest, seen'⟩, none)
    | (none, seen') =>
      let st1 := match top.right with | some c => c :: rest | none => rest
      let st2 := match top.left with | some c => c :: st1 | none => st1
      some (⟨st2, seen'⟩, some top)

inductive PSteps : PSt K → List T → PSt K → Prop
  | refl (s) : PSteps s [] s
  | cons {s s' s'' o outs} : pstep key s = some (s', o) → PSteps s' outs s'' →
      PSteps s (o.toList ++ outs) s''

theorem PSteps.trans {a b c : PSt K} {o1 o2 : List T}
    (h1 : PSteps key a o1 b) (h2 : PSteps key b o2 c) : PSteps key a (o1 ++ o2) c := by
  induction h1 with
  | refl => simpa using h2
  | cons hs _ ih => rw [List.append_assoc]; exact PSteps.cons hs (ih h2)

/-- recursive specification -/
def pre : T → Seen K → List T × Seen K
  | .leaf id, seen =>
    match record key seen (.leaf id) 0 with
    | (some _, s') => ([], s')
    | (none, s') => ([.leaf id], s')
  | .un id l, seen =>
    match record key seen (.un id l) 0 with
    | (some _, s') => ([], s')
    | (none, s') => let a := pre l s'; (.un id l :: a.1, a.2)
  | .bin id l r, seen =>
    match record key seen (.bin id l r) 0 with
    | (some _, s') => ([], s')
    | (none, s') =>
      let a := pre l s'
      let b := pre r a.2
      (.bin id l r :: (a.1 ++ b.1), b.2)

/-- the stack machine, started with `t` on top, yields `pre t` and is left with the rest -/
theorem psim (t : T) : ∀ (rest : List T) (seen : Seen K),
    PSteps key ⟨t :: rest, seen⟩ (pre key t seen).1 ⟨rest, (pre key t seen).2⟩ := by
  induction t with
  | leaf id =>
    intro rest seen
    simp only [pre]
    cases hr : record key seen (.leaf id) 0 with
    | mk a s' =>
      cases a with
      | some i =>
        have : pstep key ⟨.leaf id :: rest, seen⟩ = some (⟨rest, s'⟩, none) := by simp [pstep, hr]
        simpa using PSteps.cons this (PSteps.refl _)
      | none =>
        have : pstep key ⟨.leaf id :: rest, seen⟩ = some (⟨rest, s'⟩, some (.leaf id)) := by
          simp [pstep, hr, T.left, T.right]
        simpa using PSteps.cons this (PSteps.refl _)
  | un id l ih =>
    intro rest seen
    simp only [pre]
    cases hr : record key seen (.un id l) 0 with
    | mk a s' =>
      cases a with
      | some i =>
        have : pstep key ⟨.un id l :: rest, seen⟩ = some (⟨rest, s'⟩, none) := by simp [pstep, hr]
        simpa using PSteps.cons this (PSteps.refl _)
      | none =>
        have : pstep key ⟨.un id l :: rest, seen⟩ = some (⟨l :: rest, s'⟩, some (.un id l)) := by
          simp [pstep, hr, T.left, T.right]
        simpa using PSteps.cons this (ih rest s')
  | bin id l r ihl ihr =>
    intro rest seen
    simp only [pre]
    cases hr : record key seen (.bin id l r) 0 with
    | mk a s' =>
      cases a with
      | some i =>
        have : pstep key ⟨.bin id l r :: rest, seen⟩ = some (⟨rest, s'⟩, none) := by simp [pstep, hr]
        simpa using PSteps.cons this (PSteps.refl _)
      | none =>
        have : pstep key ⟨.bin id l r :: rest, seen⟩ =
            some (⟨l :: r :: rest, s'⟩, some (.bin id l r)) := by
          simp [pstep, hr, T.left, T.right]
        have h2 := (ihl (r :: rest) s').trans key (ihr rest (pre key l s').2)
        simpa using PSteps.cons this h2

/-- **pre-order iterator = specification**: from the root it runs to the empty stack -/
theorem preOrder_eq_pre (root : T) :
    PSteps key ⟨[root], fun _ => none⟩ (pre key root (fun _ => none)).1
      ⟨[], (pre key root (fun _ => none)).2⟩ := psim key root [] _

/-! ### properties of the specification -/

/-- tracker invariant: the recorded keys are exactly the keys of the yielded handles -/
def PInv (seen : Seen K) (outs : List T) : Prop :=
  ∀ k, (seen k).isSome ↔ ∃ o ∈ outs, key o = some k

theorem record_spec (seen : Seen K) (t : T) :
    (∀ k, key t = some k → (seen k).isSome →
        record key seen t 0 = ((seen k), seen)) ∧
    (∀ k, key t = some k → seen k = none →
        record key seen t 0 = (none, fun k' => if k' = k then some 0 else seen k')) ∧
    (key t = none → record key seen t 0 = (none, seen)) := by
  unfold record
  refine ⟨?_, ?_, ?_⟩
  · intro k hk hs
    simp only [hk]
    cases h : seen k with
    | none => rw [h] at hs; cases hs
    | some i => rfl
  · intro k hk hs; simp [hk, hs]
  · intro hk; simp [hk]

/-- yielding `t` (when not seen) keeps the invariant -/
theorem pinv_yield {seen : Seen K} {outs : List T} (h : PInv key seen outs) (t : T) (s' : Seen K)
    (hr : record key seen t 0 = (none, s')) : PInv key s' (outs ++ [t]) := by
  obtain ⟨h1, h2, h3⟩ := record_spec key seen t
  intro k'
  cases hk : key t with
  | none =>
    rw [h3 hk] at hr; cases hr
    rw [h k']
    constructor
    · rintro ⟨o, ho, hko⟩; exact ⟨o, by simp [ho], hko⟩
    · rintro ⟨o, ho, hko⟩
      simp only [List.mem_append, List.mem_singleton] at ho
      rcases ho with ho | rfl
      · exact ⟨o, ho, hko⟩
      · rw [hk] at hko; cases hko
  | some k =>
    cases hs : seen k with
    | some i =>
      rw [h1 k hk (by simp [hs]), hs] at hr; cases hr
    | none =>
      rw [h2 k hk hs] at hr; cases hr
      by_cases hkk : k' = k
      · subst hkk
        simp only [if_true, Option.isSome_some, true_iff]
        exact ⟨t, by simp, hk⟩
      · simp only [if_neg hkk]
        rw [h k']
        constructor
        · rintro ⟨o, ho, hko⟩; exact ⟨o, by simp [ho], hko⟩
        · rintro ⟨o, ho, hko⟩
          simp only [List.mem_append, List.mem_singleton] at ho
          rcases ho with ho | rfl
          · exact ⟨o, ho, hko⟩
          · rw [hk] at hko; cases hko; exact absurd rfl hkk

/-- the children of `o` are represented in `X` -/
def ChildrenRep (X : List T) (o : T) : Prop :=
  ∀ c, (o.left = some c ∨ o.right = some c) → ∃ o' ∈ X, Same key o' c

theorem ChildrenRep.mono {X Y : List T} {o : T} (h : ChildrenRep key X o) (hs : ∀ x ∈ X, x ∈ Y) :
    ChildrenRep key Y o := fun c hc => let ⟨o', ho', hs'⟩ := h c hc; ⟨o', hs o' ho', hs'⟩

theorem nodup_snoc {outs : List T} {t : T} (h : (outs.filterMap key).Nodup)
    (hf : ∀ k, key t = some k → ∀ o' ∈ outs, key o' ≠ some k) :
    ((outs ++ [t]).filterMap key).Nodup := by
  rw [List.filterMap_append]
  cases hk : key t with
  | none => simpa [List.filterMap, hk] using h
  | some k =>
    simp only [List.filterMap, hk]
    rw [List.nodup_append]
    refine ⟨h, by simp, ?_⟩
    intro a ha b hb
    simp only [List.mem_singleton] at hb
    subst hb
    intro e; subst e
    obtain ⟨o', ho', hko'⟩ := List.mem_filterMap.1 ha
    exact hf a hk o' ho' hko'

/-- result of `pre`, relative to what was yielded before -/
structure PGood (seen : Seen K) (outs : List T) (t : T) (r : List T × Seen K) : Prop where
  inv : PInv key r.2 (outs ++ r.1)
  /-- the class of `t` is among everything yielded so far -/
  rep : ∃ o ∈ outs ++ r.1, Same key o t
  /-- a freshly yielded keyed handle was not yielded before -/
  fresh : ∀ o ∈ r.1, ∀ k, key o = some k → ∀ o' ∈ outs, key o' ≠ some k
  /-- every freshly yielded handle is `t` or a descendant of `t` -/
  desc : ∀ o ∈ r.1, Desc t o
  /-- keyed classes stay pairwise distinct -/
  nodup : (outs.filterMap key).Nodup → ((outs ++ r.1).filterMap key).Nodup
  /-- the children of every yielded handle are represented among the yielded handles -/
  closed : ∀ o ∈ r.1, ChildrenRep key (outs ++ r.1) o

theorem pre_skip {seen : Seen K} {outs : List T} (h : PInv key seen outs) (t : T) (i : Nat) (s' : Seen K)
    (hr : record key seen t 0 = (some i, s')) : PGood key seen outs t ([], s') := by
  obtain ⟨h1, h2, h3⟩ := record_spec key seen t
  cases hk : key t with
  | none => rw [h3 hk] at hr; cases hr
  | some k =>
    cases hs : seen k with
    | none => rw [h2 k hk hs] at hr; cases hr
    | some j =>
      rw [h1 k hk (by simp [hs])] at hr
      have hs' : s' = seen := by injection hr with _ e; exact e.symm
      subst hs'
      obtain ⟨o, ho, hko⟩ := (h k).1 (by simp [hs])
      exact ⟨by simpa using h, ⟨o, by simpa using ho, .inr ⟨k, hko, hk⟩⟩, by simp, by simp,
        by simp, by simp⟩

theorem fresh_of_record {seen : Seen K} {outs : List T} (h : PInv key seen outs) (t : T) (s' : Seen K)
    (hr : record key seen t 0 = (none, s')) : ∀ k, key t = some k → ∀ o' ∈ outs, key o' ≠ some k := by
  obtain ⟨h1, h2, h3⟩ := record_spec key seen t
  intro k hk o' ho' hko'
  have : (seen k).isSome := (h k).2 ⟨o', ho', hko'⟩
  rw [h1 k hk this] at hr
  cases hs : seen k with
  | none => rw [hs] at this; cases this
  | some j => rw [hs] at hr; cases hr

theorem pre_good (t : T) : ∀ (seen : Seen K) (outs : List T), PInv key seen outs →
    PGood key seen outs t (pre key t seen) := by
  induction t with
  | leaf id =>
    intro seen outs h
    simp only [pre]
    cases hr : record key seen (.leaf id) 0 with
    | mk a s' =>
      cases a with
      | some i => exact pre_skip key h _ i s' hr
      | none =>
        refine ⟨pinv_yield key h _ s' hr, ⟨_, by simp, .inl rfl⟩, ?_, ?_, ?_, ?_⟩
        · intro o ho; simp only [List.mem_singleton] at ho; subst ho
          exact fresh_of_record key h _ s' hr
        · intro o ho; simp only [List.mem_singleton] at ho; subst ho; exact .refl _
        · exact fun hn => nodup_snoc key hn (fresh_of_record key h _ s' hr)
        · intro o ho
          simp only [List.mem_singleton] at ho
          subst ho
          intro c hcc; simp [T.left, T.right] at hcc
  | un id l ih =>
    intro seen outs h
    simp only [pre]
    cases hr : record key seen (.un id l) 0 with
    | mk a s' =>
      cases a with
      | some i => exact pre_skip key h _ i s' hr
      | none =>
        have h1 := pinv_yield key h _ s' hr
        have g := ih s' (outs ++ [.un id l]) h1
        refine ⟨by simpa [List.append_assoc] using g.inv, ⟨.un id l, by simp, .inl rfl⟩, ?_, ?_, ?_, ?_⟩
        · intro o ho k hk o' ho'
          simp only [List.mem_cons] at ho
          rcases ho with rfl | ho
          · exact fresh_of_record key h _ s' hr k hk o' ho'
          · exact g.fresh o ho k hk o' (by simp [ho'])
        · intro o ho
          simp only [List.mem_cons] at ho
          rcases ho with rfl | ho
          · exact .refl _
          · exact .left rfl (g.desc o ho)
        · intro hn
          have := g.nodup (nodup_snoc key hn (fresh_of_record key h _ s' hr))
          simpa [List.append_assoc] using this
        · intro o ho
          have hX : ∀ x ∈ outs ++ [T.un id l] ++ (pre key l s').1,
              x ∈ outs ++ T.un id l :: (pre key l s').1 := by
            intro x hx; simpa [List.append_assoc] using hx
          simp only [List.mem_cons] at ho
          rcases ho with rfl | ho
          · intro c hcc
            simp only [T.left, T.right, Option.some.injEq] at hcc
            rcases hcc with rfl | hcc
            · obtain ⟨o', ho', hs⟩ := g.rep
              exact ⟨o', hX o' ho', hs⟩
            · cases hcc
          · exact (g.closed o ho).mono key hX
  | bin id l r ihl ihr =>
    intro seen outs h
    simp only [pre]
    cases hr : record key seen (.bin id l r) 0 with
    | mk a s' =>
      cases a with
      | some i => exact pre_skip key h _ i s' hr
      | none =>
        have h1 := pinv_yield key h _ s' hr
        have ga := ihl s' (outs ++ [.bin id l r]) h1
        have gb := ihr (pre key l s').2 (outs ++ [.bin id l r] ++ (pre key l s').1) ga.inv
        have hXa : ∀ x ∈ outs ++ [T.bin id l r] ++ (pre key l s').1,
            x ∈ outs ++ T.bin id l r :: ((pre key l s').1 ++ (pre key r (pre key l s').2).1) := by
          intro x hx
          simp only [List.mem_append, List.mem_singleton, List.mem_cons, List.not_mem_nil, or_false] at hx ⊢
          rcases hx with (hx | hx) | hx
          · exact .inl hx
          · exact .inr (.inl hx)
          · exact .inr (.inr (.inl hx))
        have hXb : ∀ x ∈ outs ++ [T.bin id l r] ++ (pre key l s').1 ++ (pre key r (pre key l s').2).1,
            x ∈ outs ++ T.bin id l r :: ((pre key l s').1 ++ (pre key r (pre key l s').2).1) := by
          intro x hx
          simp only [List.mem_append, List.mem_singleton, List.mem_cons, List.not_mem_nil, or_false] at hx ⊢
          rcases hx with ((hx | hx) | hx) | hx
          · exact .inl hx
          · exact .inr (.inl hx)
          · exact .inr (.inr (.inl hx))
          · exact .inr (.inr (.inr hx))
        refine ⟨by simpa [List.append_assoc] using gb.inv, ⟨.bin id l r, by simp, .inl rfl⟩, ?_, ?_, ?_, ?_⟩
        · intro o ho k hk o' ho'
          simp only [List.mem_cons, List.mem_append] at ho
          rcases ho with rfl | ho | ho
          · exact fresh_of_record key h _ s' hr k hk o' ho'
          · exact ga.fresh o ho k hk o' (by simp [ho'])
          · exact gb.fresh o ho k hk o' (by simp [ho'])
        · intro o ho
          simp only [List.mem_cons, List.mem_append] at ho
          rcases ho with rfl | ho | ho
          · exact .refl _
          · exact .left rfl (ga.desc o ho)
          · exact .right rfl (gb.desc o ho)
        · intro hn
          have := gb.nodup (ga.nodup (nodup_snoc key hn (fresh_of_record key h _ s' hr)))
          simpa [List.append_assoc] using this
        · intro o ho
          simp only [List.mem_cons, List.mem_append] at ho
          rcases ho with rfl | ho | ho
          · intro c hcc
            simp only [T.left, T.right, Option.some.injEq] at hcc
            rcases hcc with rfl | rfl
            · obtain ⟨o', ho', hs⟩ := ga.rep
              exact ⟨o', hXa o' ho', hs⟩
            · obtain ⟨o', ho', hs⟩ := gb.rep
              exact ⟨o', hXb o' ho', hs⟩
          · exact (ga.closed o ho).mono key hXa
          · exact (gb.closed o ho).mono key hXb

/-- **C18, pre-order**: from the root, keyed classes are yielded at most once; every yielded handle
is the root or one of its descendants; the children of every yielded handle are represented; hence
(for a congruence key) every node reachable from the root is represented — the same classes as the
post-order iteration (`visit_complete`) -/
theorem pre_root (root : T) :
    let r := pre key root (fun _ => none)
    (r.1.filterMap key).Nodup ∧ (∀ o ∈ r.1, Desc root o) ∧ (∃ o ∈ r.1, Same key o root) ∧
    ∀ o ∈ r.1, ChildrenRep key r.1 o := by
  have g := pre_good key root (fun _ => none) [] (by intro k; simp)
  exact ⟨by simpa using g.nodup (by simp), g.desc, by simpa using g.rep, by simpa using g.closed⟩

/-- in a list closed under children (up to `Same`), descendants of represented nodes are represented -/
theorem closed_desc (hc : Congr key) (R : List T) (hclosed : ∀ o ∈ R, ChildrenRep key R o)
    {p d : T} (hd : Desc p d) : (∃ o ∈ R, Same key o p) → ∃ o ∈ R, Same key o d := by
  have child : ∀ p c, (∃ o ∈ R, Same key o p) →
      (p.left = some c ∨ p.right = some c) → ∃ o ∈ R, Same key o c := by
    intro p c ⟨o, ho, hs⟩ hpc
    rcases hs with rfl | ⟨k, hko, hkp⟩
    · exact hclosed o ho c hpc
    · have hcg := hc o p k hko hkp
      rcases hpc with hl | hr
      · have h1 := hcg.1; rw [hl] at h1
        cases hol : o.left with
        | none => rw [hol] at h1; exact h1.elim
        | some c' =>
          rw [hol] at h1
          obtain ⟨o', ho', hs'⟩ := hclosed o ho c' (.inl hol)
          exact ⟨o', ho', hs'.trans key h1⟩
      · have h1 := hcg.2; rw [hr] at h1
        cases hol : o.right with
        | none => rw [hol] at h1; exact h1.elim
        | some c' =>
          rw [hol] at h1
          obtain ⟨o', ho', hs'⟩ := hclosed o ho c' (.inr hol)
          exact ⟨o', ho', hs'.trans key h1⟩
  induction hd with
  | refl t => exact id
  | left hl _ ih => exact fun h => ih (child _ _ h (.inl hl))
  | right hl _ ih => exact fun h => ih (child _ _ h (.inr hl))

theorem pre_complete (hc : Congr key) (root d : T) (hd : Desc root d) :
    ∃ o ∈ (pre key root (fun _ => none)).1, Same key o d := by
  obtain ⟨_, _, hrep, hclosed⟩ := pre_root key root
  exact closed_desc key hc _ hclosed hd hrep

#print axioms preOrder_eq_pre
#print axioms pre_root
#print axioms pre_complete
end PO
