import SimplicityModel.IterDag
import SimplicityModel.Bisim
set_option linter.unusedSectionVars false
set_option linter.unusedVariables false
/-
C18 — lemmas behind `Props/C18.lean`: completeness under a congruence *on the DAG at hand*
(`CongrOn`, which pointer identity satisfies), the three policies of the property (`noKey`, `ptr`,
`shape`) and their hypotheses, NoSharing = the unfolded tree, pointer sharing = every object once,
pre-order parent-first.
-/
namespace PO
variable {K : Type} [DecidableEq K] (key : T → Option K)

/-! ### congruence relative to a root -/

/-- nodes of this DAG with one key have children in the same classes -/
def CongrOn (root : T) : Prop :=
  ∀ a c k, Desc root a → Desc root c → key a = some k → key c = some k →
    SameO key a.left c.left ∧ SameO key a.right c.right

theorem Congr.on (hc : Congr key) (root : T) : CongrOn key root :=
  fun a c k _ _ ha hk => hc a c k ha hk

theorem rep_child_on {root : T} {seen : Seen K} {outs : List Out} (h : Inv key seen outs)
    (hdesc : ∀ o ∈ outs, Desc root o.node) (hc : CongrOn key root)
    {j : Nat} {p c : T} (hp : Desc root p) (hrep : Rep key outs j p)
    (hchild : p.left = some c ∨ p.right = some c) : ∃ j', Rep key outs j' c := by
  obtain ⟨o, ho, hs⟩ := hrep
  have hk := h.kids j o ho
  rcases hs with rfl | ⟨k, hko, hkp⟩
  · rcases hchild with hl | hr
    · have := hk.1; rw [hl] at this; obtain ⟨j', _, _, hr'⟩ := this; exact ⟨j', hr'⟩
    · have := hk.2; rw [hr] at this; obtain ⟨j', _, _, hr'⟩ := this; exact ⟨j', hr'⟩
  · have hcg := hc o.node p k (hdesc o (List.mem_of_getElem? ho)) hp hko hkp
    rcases hchild with hl | hr
    · have h1 := hcg.1; rw [hl] at h1
      cases hol : o.node.left with
      | none => rw [hol] at h1; exact h1.elim
      | some c' =>
        rw [hol] at h1
        have := hk.1; rw [hol] at this
        obtain ⟨j', _, _, o', ho', hs'⟩ := this
        exact ⟨j', o', ho', hs'.trans key h1⟩
    · have h1 := hcg.2; rw [hr] at h1
      cases hol : o.node.right with
      | none => rw [hol] at h1; exact h1.elim
      | some c' =>
        rw [hol] at h1
        have := hk.2; rw [hol] at this
        obtain ⟨j', _, _, o', ho', hs'⟩ := this
        exact ⟨j', o', ho', hs'.trans key h1⟩

theorem rep_desc_on {root : T} {seen : Seen K} {outs : List Out} (h : Inv key seen outs)
    (hdesc : ∀ o ∈ outs, Desc root o.node) (hc : CongrOn key root)
    {p d : T} (hd : Desc p d) : Desc root p → ∀ {j : Nat}, Rep key outs j p → ∃ j', Rep key outs j' d := by
  induction hd with
  | refl t => exact fun _ _ hr => ⟨_, hr⟩
  | @left p c d hl _ ih =>
    intro hp j hr
    obtain ⟨j', hr'⟩ := rep_child_on key h hdesc hc hp hr (.inl hl)
    exact ih (hp.trans (.left hl (.refl c))) hr'
  | @right p c d hl _ ih =>
    intro hp j hr
    obtain ⟨j', hr'⟩ := rep_child_on key h hdesc hc hp hr (.inr hl)
    exact ih (hp.trans (.right hl (.refl c))) hr'

/-- every node reachable from the root is represented by a yielded item -/
theorem visit_complete_on (root : T) (hc : CongrOn key root) (d : T) (hd : Desc root d) :
    ∃ j, Rep key (visit key root (fun _ => none) 0).1 j d := by
  obtain ⟨hinv, _, hrep⟩ := visit_root key root
  exact rep_desc_on key hinv (visit_desc key root _ 0) hc hd (.refl root) hrep

theorem closed_desc_on {root : T} (hc : CongrOn key root) (R : List T) (hR : ∀ o ∈ R, Desc root o)
    (hclosed : ∀ o ∈ R, ChildrenRep key R o)
    {p d : T} (hd : Desc p d) : Desc root p → (∃ o ∈ R, Same key o p) → ∃ o ∈ R, Same key o d := by
  have child : ∀ p c, Desc root p → (∃ o ∈ R, Same key o p) →
      (p.left = some c ∨ p.right = some c) → ∃ o ∈ R, Same key o c := by
    intro p c hp ⟨o, ho, hs⟩ hpc
    rcases hs with rfl | ⟨k, hko, hkp⟩
    · exact hclosed o ho c hpc
    · have hcg := hc o p k (hR o ho) hp hko hkp
      rcases hpc with hl | hr
      · have h1 := hcg.1; rw [hl] at h1
        cases hol : o.left with
        | none => rw [hol] at h1; exact h1.elim
        | some c' =>
          rw [hol] at h1
          obtain ⟨o', ho', hs'⟩ := hclosed o ho c' (.inl hol)
          exact ⟨o', ho', hs'.trans key h1⟩
      · have h1 := hcg.2; rw [hr] at h1
        cases hol : o.right with
        | none => rw [hol] at h1; exact h1.elim
        | some c' =>
          rw [hol] at h1
          obtain ⟨o', ho', hs'⟩ := hclosed o ho c' (.inr hol)
          exact ⟨o', ho', hs'.trans key h1⟩
  induction hd with
  | refl t => exact fun _ h => h
  | @left p c d hl _ ih =>
    exact fun hp h => ih (hp.trans (.left hl (.refl c))) (child _ _ hp h (.inl hl))
  | @right p c d hl _ ih =>
    exact fun hp h => ih (hp.trans (.right hl (.refl c))) (child _ _ hp h (.inr hl))

theorem pre_complete_on (root : T) (hc : CongrOn key root) (d : T) (hd : Desc root d) :
    ∃ o ∈ (pre key root (fun _ => none)).1, Same key o d := by
  obtain ⟨_, hdesc, hrep, hclosed⟩ := pre_root key root
  exact closed_desc_on key hc _ hdesc hclosed hd (.refl root) hrep

theorem CongrOn.mirror {root : T} (hc : CongrOn key root) : CongrOn (mkey key) root.mirror := by
  intro a c k ha hc' hka hkc
  have ha' : Desc root a.mirror := by simpa using ha.mirror
  have hc'' : Desc root c.mirror := by simpa using hc'.mirror
  have h := hc a.mirror c.mirror k ha' hc'' hka hkc
  have hl := h.1.mirror key
  have hr := h.2.mirror key
  cases a <;> cases c <;>
    simp only [T.mirror, T.left, T.right, Option.map, SameO, T.mirror_mirror] at hl hr ⊢ <;>
    first | exact ⟨hl, hr⟩ | exact ⟨hr, hl⟩ | exact hl.elim | exact hr.elim

/-! ### the three policies of the property -/

/-- `NoSharing` -/
def noKey : T → Option Nat := fun _ => none

theorem congr_noKey : Congr noKey := by intro a c k h; cases h
theorem rootFresh_noKey (root : T) : RootFresh noKey root := by intro d _ _ k h; cases h

/-- `InternalSharing` on a handle that is the unfolding of a pointer DAG -/
theorem congrOn_ptr (root : T) (hi : IdsFaithful root) : CongrOn ptr root := by
  intro a c k ha hc hka hkc
  simp only [ptr, Option.some.injEq] at hka hkc
  have : a = c := hi a c ha hc (by omega)
  subst this
  refine ⟨?_, ?_⟩
  · cases a.left <;> simp [SameO, Same]
  · cases a.right <;> simp [SameO, Same]

/-- the structure of a sub-DAG: what an identity hash (IHR, CMR) commits to -/
inductive Shp where
  | leaf (tag : Nat)
  | un (tag : Nat) (l : Shp)
  | bin (tag : Nat) (l r : Shp)
deriving DecidableEq, Repr

def Shp.size : Shp → Nat
  | .leaf _ => 1
  | .un _ l => l.size + 1
  | .bin _ l r => l.size + r.size + 1

/-- identity-hash sharing: the key of a node is its structure (tag of every node by pointer identity;
no tag = no sharing id, which the ancestors inherit — a `witness` below a `CommitNode`) -/
def shape (tag : Nat → Option Nat) : T → Option Shp
  | .leaf id => (tag id).map Shp.leaf
  | .un id l => match tag id, shape tag l with
    | some a, some x => some (.un a x)
    | _, _ => none
  | .bin id l r => match tag id, shape tag l, shape tag r with
    | some a, some x, some y => some (.bin a x y)
    | _, _, _ => none

theorem shape_leaf_inv {tag : Nat → Option Nat} {i : Nat} {k : Shp} (h : shape tag (.leaf i) = some k) :
    ∃ a, k = .leaf a := by
  simp only [shape, Option.map_eq_some_iff] at h
  obtain ⟨a, _, rfl⟩ := h; exact ⟨a, rfl⟩

theorem shape_un_inv {tag : Nat → Option Nat} {i : Nat} {l : T} {k : Shp} (h : shape tag (.un i l) = some k) :
    ∃ a x, shape tag l = some x ∧ k = .un a x := by
  simp only [shape] at h
  split at h
  · rename_i a x _ hx; cases h; exact ⟨a, x, hx, rfl⟩
  · cases h

theorem shape_bin_inv {tag : Nat → Option Nat} {i : Nat} {l r : T} {k : Shp}
    (h : shape tag (.bin i l r) = some k) :
    ∃ a x y, shape tag l = some x ∧ shape tag r = some y ∧ k = .bin a x y := by
  simp only [shape] at h
  split at h
  · rename_i a x y _ hx hy; cases h; exact ⟨a, x, y, hx, hy, rfl⟩
  · cases h

theorem shape_size (tag : Nat → Option Nat) : ∀ (t : T) (k : Shp), shape tag t = some k → k.size = t.size := by
  intro t
  induction t with
  | leaf id => intro k h; obtain ⟨a, rfl⟩ := shape_leaf_inv h; rfl
  | un id l ih =>
    intro k h; obtain ⟨a, x, hx, rfl⟩ := shape_un_inv h
    simp only [Shp.size, T.size, ih _ hx]
  | bin id l r ihl ihr =>
    intro k h; obtain ⟨a, x, y, hx, hy, rfl⟩ := shape_bin_inv h
    simp only [Shp.size, T.size, ihl _ hx, ihr _ hy]

theorem congr_shape (tag : Nat → Option Nat) : Congr (shape tag) := by
  intro a c k ha hc
  cases a with
  | leaf ia =>
    obtain ⟨x, rfl⟩ := shape_leaf_inv ha
    cases c with
    | leaf ic => simp [T.left, T.right, SameO]
    | un ic lc => obtain ⟨_, _, _, h⟩ := shape_un_inv hc; cases h
    | bin ic lc rc => obtain ⟨_, _, _, _, _, h⟩ := shape_bin_inv hc; cases h
  | un ia la =>
    obtain ⟨x, y, hla, rfl⟩ := shape_un_inv ha
    cases c with
    | leaf ic => obtain ⟨_, h⟩ := shape_leaf_inv hc; cases h
    | un ic lc =>
      obtain ⟨_, _, hlc, h⟩ := shape_un_inv hc; cases h
      simp only [T.left, T.right, SameO, and_true]
      exact .inr ⟨_, hla, hlc⟩
    | bin ic lc rc => obtain ⟨_, _, _, _, _, h⟩ := shape_bin_inv hc; cases h
  | bin ia la ra =>
    obtain ⟨x, y, z, hla, hra, rfl⟩ := shape_bin_inv ha
    cases c with
    | leaf ic => obtain ⟨_, h⟩ := shape_leaf_inv hc; cases h
    | un ic lc => obtain ⟨_, _, _, h⟩ := shape_un_inv hc; cases h
    | bin ic lc rc =>
      obtain ⟨_, _, _, hlc, hrc, h⟩ := shape_bin_inv hc; cases h
      simp only [T.left, T.right, SameO]
      exact ⟨.inr ⟨_, hla, hlc⟩, .inr ⟨_, hra, hrc⟩⟩

theorem Desc.size_lt {p d : T} (h : Desc p d) (hne : d ≠ p) : d.size < p.size := by
  cases h with
  | refl => exact absurd rfl hne
  | left hl hd => have := hd.size_le; have := left_size hl; omega
  | right hl hd => have := hd.size_le; have := right_size hl; omega

theorem rootFresh_shape (tag : Nat → Option Nat) (root : T) : RootFresh (shape tag) root := by
  intro d hd hne k hk hkd
  have h1 := shape_size tag root k hk
  have h2 := shape_size tag d k hkd
  have := hd.size_lt hne
  omega

/-! ### NoSharing: the iteration is the unfolded tree -/

def T.postList : T → List T
  | .leaf id => [.leaf id]
  | .un id l => l.postList ++ [.un id l]
  | .bin id l r => l.postList ++ r.postList ++ [.bin id l r]

def T.preList : T → List T
  | .leaf id => [.leaf id]
  | .un id l => .un id l :: l.preList
  | .bin id l r => .bin id l r :: (l.preList ++ r.preList)

theorem postList_length (t : T) : t.postList.length = t.size := by
  induction t with
  | leaf id => rfl
  | un id l ih => simp [T.postList, T.size, ih]
  | bin id l r ihl ihr => simp [T.postList, T.size, ihl, ihr]; omega

theorem fin_noKey (t : T) (li ri : Option Nat) (outs : List Out) (seen : Seen Nat) (idx : Nat) :
    visit.fin noKey t li ri outs seen idx = (outs ++ [⟨t, idx, li, ri⟩], seen, idx + 1, idx) := by
  simp [visit.fin, record, noKey]

theorem seenBefore_noKey (seen : Seen Nat) (t : T) : seenBefore noKey seen t = none := rfl
theorem record_noKey (seen : Seen Nat) (t : T) (i : Nat) : record noKey seen t i = (none, seen) := rfl

theorem visit_noKey (t : T) : ∀ (seen : Seen Nat) (idx : Nat),
    (visit noKey t seen idx).1.map (·.node) = t.postList ∧ (visit noKey t seen idx).2.1 = seen ∧
    (visit noKey t seen idx).2.2.1 = idx + t.size := by
  induction t with
  | leaf id => intro seen idx; simp [visit, fin_noKey, T.postList, T.size]
  | un id l ih =>
    intro seen idx
    obtain ⟨h1, h2, h3⟩ := ih seen idx
    simp only [visit, seenBefore_noKey, fin_noKey, T.postList, T.size]
    refine ⟨by simp [h1], h2, by omega⟩
  | bin id l r ihl ihr =>
    intro seen idx
    obtain ⟨h1, h2, h3⟩ := ihl seen idx
    obtain ⟨g1, g2, g3⟩ := ihr (visit noKey l seen idx).2.1 (visit noKey l seen idx).2.2.1
    simp only [visit, seenBefore_noKey, fin_noKey, T.postList, T.size]
    refine ⟨by simp [h1, g1], by rw [g2, h2], by omega⟩

theorem pre_noKey (t : T) : ∀ (seen : Seen Nat), pre noKey t seen = (t.preList, seen) := by
  induction t with
  | leaf id => intro seen; simp only [pre, record_noKey, T.preList]
  | un id l ih => intro seen; simp only [pre, record_noKey, T.preList, ih]
  | bin id l r ihl ihr => intro seen; simp only [pre, record_noKey, T.preList, ihl, ihr]

/-! ### pointer sharing: every object exactly once -/

theorem ptr_each_once (root : T) (hi : IdsFaithful root) :
    ((visit ptr root (fun _ => none) 0).1.map (·.node)).Nodup ∧
    ∀ d, Desc root d ↔ d ∈ (visit ptr root (fun _ => none) 0).1.map (·.node) := by
  obtain ⟨hinv, _, _⟩ := visit_root ptr root
  have hdesc := visit_desc ptr root (fun _ => none) 0
  refine ⟨?_, ?_⟩
  · rw [List.Nodup, List.pairwise_iff_getElem]
    intro i j hi hj hij heq
    simp only [List.length_map] at hi hj
    simp only [List.getElem_map] at heq
    have hoj : (visit ptr root (fun _ => none) 0).1[j]? = some ((visit ptr root (fun _ => none) 0).1[j]) :=
      List.getElem?_eq_getElem hj
    have hoi : (visit ptr root (fun _ => none) 0).1[i]? = some ((visit ptr root (fun _ => none) 0).1[i]) :=
      List.getElem?_eq_getElem hi
    have := hinv.unique ptr hoi hoj (k := ((visit ptr root (fun _ => none) 0).1[i]).node.id) rfl
      (by rw [heq]; rfl)
    omega
  · intro d
    constructor
    · intro hd
      obtain ⟨o, ho, hod⟩ := yielded root hi hd
      exact List.mem_map.2 ⟨o, ho, hod⟩
    · intro hd
      obtain ⟨o, ho, rfl⟩ := List.mem_map.1 hd
      exact hdesc o ho

/-! ### pre-order: parent first -/

theorem pre_head (t : T) (seen : Seen K) :
    (pre key t seen).1 = [] ∨ ∃ rest, (pre key t seen).1 = t :: rest := by
  cases t with
  | leaf id =>
    simp only [pre]
    cases record key seen (.leaf id) 0 with
    | mk a s' => cases a <;> simp
  | un id l =>
    simp only [pre]
    cases record key seen (.un id l) 0 with
    | mk a s' => cases a <;> simp
  | bin id l r =>
    simp only [pre]
    cases record key seen (.bin id l r) 0 with
    | mk a s' => cases a <;> simp

/-- every item except the first has a parent among the items before it -/
def ParentFirst (L : List T) : Prop :=
  ∀ (before : List T) (o : T) (after : List T), L = before ++ o :: after →
    before = [] ∨ ∃ p ∈ before, p.left = some o ∨ p.right = some o

theorem parentFirst_nil : ParentFirst [] := by
  intro b o a h
  have := congrArg List.length h
  simp at this

theorem parentFirst_node (t : T) (A B : List T)
    (hA : ParentFirst A) (hB : ParentFirst B)
    (hAh : A = [] ∨ ∃ l rest, t.left = some l ∧ A = l :: rest)
    (hBh : B = [] ∨ ∃ r rest, (t.left = some r ∨ t.right = some r) ∧ B = r :: rest) :
    ParentFirst (t :: (A ++ B)) := by
  intro before o after h
  cases before with
  | nil => exact .inl rfl
  | cons b before' =>
    right
    simp only [List.cons_append, List.cons.injEq] at h
    obtain ⟨rfl, h⟩ := h
    rw [List.append_eq_append_iff] at h
    rcases h with ⟨a', rfl, ha'⟩ | ⟨c', hA', hB'⟩
    · -- the split point lies in B (or at its start)
      cases a' with
      | nil =>
        simp only [List.nil_append] at ha'
        rcases hBh with hBn | ⟨r, rest, hr, hBr⟩
        · rw [hBn] at ha'; cases ha'
        · rw [hBr] at ha'; cases ha'
          exact ⟨t, by simp, by rcases hr with h | h <;> simp [h]⟩
      | cons x a'' =>
        rcases hB (x :: a'') o after ha' with h | ⟨p, hp, hpo⟩
        · cases h
        · exact ⟨p, by simp only [List.mem_cons, List.mem_append]; right; right; simpa using hp, hpo⟩
    · -- the split point lies inside A
      cases c' with
      | nil =>
        simp only [List.append_nil, List.nil_append] at hA' hB'
        subst hA'
        rcases hBh with hBn | ⟨r, rest, hr, hBr⟩
        · rw [hBn] at hB'; cases hB'
        · rw [hBr] at hB'; cases hB'
          exact ⟨t, by simp, by rcases hr with h | h <;> simp [h]⟩
      | cons x c'' =>
        simp only [List.cons_append, List.cons.injEq] at hB'
        obtain ⟨rfl, _⟩ := hB'
        rcases hA before' o c'' hA' with h | ⟨p, hp, hpo⟩
        · subst h
          rcases hAh with hAn | ⟨l, rest, hl, hAl⟩
          · rw [hAn] at hA'; cases hA'
          · rw [hAl] at hA'; simp only [List.nil_append, List.cons.injEq] at hA'
            obtain ⟨rfl, _⟩ := hA'
            exact ⟨t, by simp, .inl hl⟩
        · exact ⟨p, by simp [hp], hpo⟩

theorem pre_parentFirst (t : T) : ∀ (seen : Seen K), ParentFirst (pre key t seen).1 := by
  induction t with
  | leaf id =>
    intro seen
    simp only [pre]
    cases record key seen (.leaf id) 0 with
    | mk a s' =>
      cases a with
      | some i => exact parentFirst_nil
      | none => simpa using parentFirst_node (.leaf id) [] [] parentFirst_nil parentFirst_nil (.inl rfl) (.inl rfl)
  | un id l ih =>
    intro seen
    simp only [pre]
    cases record key seen (.un id l) 0 with
    | mk a s' =>
      cases a with
      | some i => exact parentFirst_nil
      | none =>
        have := parentFirst_node (.un id l) (pre key l s').1 [] (ih s') parentFirst_nil
          (by rcases pre_head key l s' with h | ⟨rest, h⟩
              · exact .inl h
              · exact .inr ⟨l, rest, rfl, h⟩) (.inl rfl)
        simpa using this
  | bin id l r ihl ihr =>
    intro seen
    simp only [pre]
    cases record key seen (.bin id l r) 0 with
    | mk a s' =>
      cases a with
      | some i => exact parentFirst_nil
      | none =>
        exact parentFirst_node (.bin id l r) (pre key l s').1 (pre key r (pre key l s').2).1 (ihl s') (ihr _)
          (by rcases pre_head key l s' with h | ⟨rest, h⟩
              · exact .inl h
              · exact .inr ⟨l, rest, rfl, h⟩)
          (by rcases pre_head key r (pre key l s').2 with h | ⟨rest, h⟩
              · exact .inl h
              · exact .inr ⟨r, rest, .inr rfl, h⟩)

/-! ### `is_shared_as` with the pointer policy itself -/

theorem isSharedAs_ptr (root : T) : isSharedAs ptr root = true := by
  unfold isSharedAs
  rw [List.all_eq_true]
  intro ⟨a, b⟩ hab
  obtain ⟨i, hi⟩ := List.getElem?_of_mem hab
  rw [List.getElem?_zip_eq_some] at hi
  have : a = b := by
    have := hi.1.symm.trans hi.2
    simpa using this
  subst this
  simp

/-! ### index-array DAGs -/

theorem idsFaithful_U (ns : List Sh) (hw : WellIdx ns) (r : Nat) : IdsFaithful (U ns r) := by
  intro a c ha hc hid
  have h1 := desc_U ns hw ha (by rw [U_id])
  have h2 := desc_U ns hw hc (by rw [U_id])
  rw [h1, h2, hid]

end PO
