import SimplicityModel.Driver.ProgUtil
import SimplicityModel.Driver.C06
import SimplicityModel.PrunePlan
import SimplicityModel.PruneIds
/-! C08: `prune <plan> [W:…] [T:…] [C:…] [K:…] [J:…] [E:<env seed>]` →
`ok <tok_0> … <tok_{n-1}> cmr=<root> principal=yes|no antidos=ok|rejected|n/a` | `fail <kind>`.

The model: types of the plan (`inferM`, all nodes, root `1 → 1`), commitment and identity roots
(`cmrs`, `ihrs`); tracker = the record of `evalT` on the elaborated term, labelled with the
identity root (IHR) of the plan node each term node comes from; pruned plan = `prunePlan` (the
`prune_case` table, hidden child's CMR from the original roots); types of the pruned program =
`inferM` on the pruned plan with the reachability mask: the principal types of the pruned program
on its own (what `prune` computes since it re-infers in a context of its own; `inferM` with *all*
nodes — the constraints of the hidden branches still in force — is what it computed before, see
`Props.C08.stale_constraints_above_principal`), so `principal=` is always `yes` here; witnesses =
`pruneV` of the original values to the new target types; `cmr=` recomputed on the pruned plan;
`antidos=` on the model's own run of the pruned plan: every reachable node executed and both
sides of every remaining case taken. -/
namespace Drv.C08
open Prog Drv.ProgUtil BM4

def hexOfBytes (bs : List Nat) : String := Drv.showHex bs

def nodeText : Node → String
  | .iden => "iden"
  | .unit => "unit"
  | .injl c => s!"injl,{c}"
  | .injr c => s!"injr,{c}"
  | .take c => s!"take,{c}"
  | .drop c => s!"drop,{c}"
  | .comp a b => s!"comp,{a},{b}"
  | .case a b => s!"case,{a},{b}"
  | .pair a b => s!"pair,{a},{b}"
  | .assertl a h => s!"assertl,{a},{hex32 h}"
  | .assertr h b => s!"assertr,{hex32 h},{b}"
  | .disconnect a (some b) => s!"disc,{a},{b}"
  | .disconnect a none => s!"disc,{a},-"
  | .witness => "wit"
  | .fail e => "fail," ++ hexOfBytes e
  | .word n bits => s!"word,{n}," ++ Drv.showBits bits
  | .jet name => "jet," ++ name
  | .hidden h => "hidden," ++ hex32 h

def isWitness : Node → Bool | .witness => true | _ => false

structure Pruned where
  plan : Plan
  reach : Array Bool
  /-- principal arrows of the pruned program (`inferM` with the reachability mask) -/
  codeArrows : Array (Ty × Ty)
  /-- compact bits of the pruned witness values (reachable witness nodes) -/
  wits : List (Nat × List Bool)
  cmr : Array Nat

inductive Res
  | fail (k : Fail)
  | ok (p : Pruned)
  | err (s : String)

/-- run, record, rewrite, re-type, shrink the witnesses -/
def prunePipeline (p : Plan) (ex : Extras) : Res :=
  if !wf p then .err "bad-plan" else
  let jetCmr := fun n => some ((ex.jetCmr n).getD 0)
  let all : Nat → Bool := fun _ => true
  match inferM ex.jetTy p all true, cmrs jetCmr p with
  | .ok arrows, some cm =>
    match ihrs jetCmr p arrows ex.wit with
    | none => .err "model-annot-failed"
    | some an =>
      let ids : Nat → Nat := fun i => (an.getD i (0, 0)).2
      let env : Env := { plan := p, arrows := arrows, wit := ex.wit, cmr := cm, jets := ex.jetSem }
      match elabNode env (p.size + 1) (p.size - 1) with
      | none => .err "model-elab-failed"
      | some ⟨_, _, t⟩ =>
        match evalT t (labOf p ids (p.size + 1) (p.size - 1)) .unit with
        | .error f => .fail f
        | .ok (_, tr) =>
          let p1 := prunePlan tr.sides ids (fun i => cm.getD i 0) p
          let reach := reachable p1
          match inferM ex.jetTy p1 (fun i => reach.getD i false) true, cmrs jetCmr p1 with
          | .ok a1, some cm1 =>
            let ws := (List.range p.size).filterMap fun i =>
              if reach.getD i false && isWitness (p1.getD i .unit) then
                match pruneWit ex.wit arrows a1 i with
                | some bits => some (i, bits)
                | none => some (i, [true, false, true, false, true, false, true])  -- marks a model failure
              else none
            .ok { plan := p1, reach := reach, codeArrows := a1, wits := ws, cmr := cm1 }
          | .ok _, none => .err "bad-plan"
          | _, _ => .err "model-reinference-failed"
  | .ok _, none => .err "bad-plan"
  | .typeError, _ => .err "ill-typed"
  | .occurs, _ => .err "ill-typed"
  | .badPlan, _ => .err "bad-plan"
  | .fuel, _ => .err "model-fuel"

/-- the anti-DoS conditions on the model's own run of the pruned plan.  Identities are the
identity roots of the *pruned* program (libsimplicity evaluates the decoded DAG, in which nodes
with one identity root are one node): every reachable node's identity executed, both sides of
every remaining case identity taken. -/
def Pruned.antiDos (q : Pruned) (ex : Extras) : String :=
  let wit : Nat → Option (List Bool) := fun i =>
    match q.wits.find? (·.1 = i) with
    | some w => some w.2
    | none => ex.wit i
  let jetCmr := fun n => some ((ex.jetCmr n).getD 0)
  match ihrs jetCmr q.plan q.codeArrows wit with
  | none => "model-annot-failed"
  | some an =>
    let ids : Nat → Nat := fun i => (an.getD i (0, 0)).2
    let env : Env := { plan := q.plan, arrows := q.codeArrows, wit := wit, cmr := q.cmr, jets := ex.jetSem }
    match elabNode env (q.plan.size + 1) (q.plan.size - 1) with
    | none => "model-elab-failed"
    | some ⟨_, _, t⟩ =>
      match evalT t (labOf q.plan ids (q.plan.size + 1) (q.plan.size - 1)) .unit with
      | .error _ => "model-pruned-run-fails"
      | .ok (_, tr) =>
        if antiDosOK q.plan q.reach ids tr then "ok" else "rejected"

def showPruned (q : Pruned) (ex : Extras) : String :=
  let toks := (List.range q.plan.size).map fun i =>
    if q.reach.getD i false then
      let nd := q.plan.getD i .unit
      let base := nodeText nd ++ ":" ++ arrowText (q.codeArrows.getD i (.one, .one))
      if isWitness nd then
        base ++ ":" ++ Drv.showBits (((q.wits.find? (·.1 = i)).map (·.2)).getD [])
      else base
    else "-"
  "ok " ++ " ".intercalate toks ++ " cmr=" ++ hex32 (q.cmr.getD (q.plan.size - 1) 0) ++
    " principal=yes antidos=" ++ q.antiDos ex

def pruneOp (rest : List String) : String :=
  match parsePlan rest with
  | none => "bad-op"
  | some (p, tail) =>
    match parseExtras (Drv.C06.modelTokens tail) {} with
    | none => "bad-op"
    | some ex =>
      match prunePipeline p ex with
      | .err e => e
      | .fail k => "fail " ++ Drv.C06.failText k
      | .ok q => showPruned q ex

def handle : List String → String
  | "prune" :: rest => pruneOp rest
  | _ => "bad-op"

end Drv.C08
