import SimplicityModel.Driver.ProgUtil
import SimplicityModel.Driver.C06
import SimplicityModel.PrunePipeline
/-! C08: `prune <plan> [W:…] [T:…] [C:…] [K:…] [J:…] [E:<env seed>]` →
`ok <tok_0> … <tok_{n-1}> cmr=<root> principal=yes|no antidos=ok|rejected|n/a` | `fail <kind>`.

This file only parses the line, calls `Prog.prunePipeline` / `Prog.Pruned.antiDos`
(`PrunePipeline.lean`, the functions `Props.C08.pipeline_antiDos` is about) and prints.

The model: types of the plan (`inferM`, all nodes, root `1 → 1`), commitment and identity roots
(`cmrs`, `ihrs`); tracker = the record of `evalT` on the elaborated term, labelled with the
identity root (IHR) of the plan node each term node comes from; pruned plan = `prunePlan` (the
`prune_case` table, hidden child's CMR from the original roots); types of the pruned program =
`inferM` on the pruned plan with the reachability mask: the principal types of the pruned program
on its own (what `prune` computes since it re-infers in a context of its own; `inferM` with *all*
nodes — the constraints of the hidden branches still in force — is what it computed before, see
`Props.C08.stale_constraints_above_principal`), so `principal=` is always `yes` here; witnesses =
`pruneV` of the original values to the new target types; `cmr=` recomputed on the pruned plan;
`antidos=` on the model's own run of the pruned plan: every reachable node executed and both
sides of every remaining case taken. -/
namespace Drv.C08
open Prog Drv.ProgUtil BM4

def hexOfBytes (bs : List Nat) : String := Drv.showHex bs

def nodeText : Node → String
  | .iden => "iden"
  | .unit => "unit"
  | .injl c => s!"injl,{c}"
  | .injr c => s!"injr,{c}"
  | .take c => s!"take,{c}"
  | .drop c => s!"drop,{c}"
  | .comp a b => s!"comp,{a},{b}"
  | .case a b => s!"case,{a},{b}"
  | .pair a b => s!"pair,{a},{b}"
  | .assertl a h => s!"assertl,{a},{hex32 h}"
  | .assertr h b => s!"assertr,{hex32 h},{b}"
  | .disconnect a (some b) => s!"disc,{a},{b}"
  | .disconnect a none => s!"disc,{a},-"
  | .witness => "wit"
  | .fail e => "fail," ++ hexOfBytes e
  | .word n bits => s!"word,{n}," ++ Drv.showBits bits
  | .jet name => "jet," ++ name
  | .hidden h => "hidden," ++ hex32 h

/-- run, record, rewrite, re-type, shrink the witnesses: `Prog.prunePipeline` on the line's data -/
def prunePipeline (p : Plan) (ex : Extras) : PruneRes :=
  Prog.prunePipeline ex.jetTy (fun n => some ((ex.jetCmr n).getD 0)) ex.jetSem ex.wit p

/-- the anti-DoS conditions on the model's own run of the pruned plan: `Prog.Pruned.antiDos` -/
def antiDos (q : Pruned) (ex : Extras) : String :=
  let jetCmr := fun n => some ((ex.jetCmr n).getD 0)
  -- outside the hypothesis of `pipeline_antiDos` (identity roots pairwise distinct): an `assertl` and
  -- an `assertr` of the pruned plan with one identity root are one node once serialised
  let twins : Bool :=
    match ihrs jetCmr q.plan q.codeArrows (witOfList q.wits ex.wit) with
    | none => false
    | some an =>
      let idOf (i : Nat) : Nat := (an.getD i (0, 0)).2
      let idx := (List.range q.plan.size).filter fun i => q.reach.getD i false
      let ls := idx.filterMap fun i => match q.plan.getD i .unit with | .assertl _ _ => some (idOf i) | _ => none
      let rs := idx.filterMap fun i => match q.plan.getD i .unit with | .assertr _ _ => some (idOf i) | _ => none
      ls.any fun x => rs.contains x
  if twins then "shared-identity" else q.antiDos jetCmr ex.jetSem ex.wit

def showPruned (q : Pruned) (ex : Extras) : String :=
  let toks := (List.range q.plan.size).map fun i =>
    if q.reach.getD i false then
      let nd := q.plan.getD i .unit
      let base := nodeText nd ++ ":" ++ arrowText (q.codeArrows.getD i (.one, .one))
      if isWitness nd then
        base ++ ":" ++ Drv.showBits (((q.wits.find? (·.1 = i)).map (·.2)).getD [])
      else base
    else "-"
  "ok " ++ " ".intercalate toks ++ " cmr=" ++ hex32 (q.cmr.getD (q.plan.size - 1) 0) ++
    " principal=yes antidos=" ++ antiDos q ex

def pruneOp (rest : List String) : String :=
  match parsePlan rest with
  | none => "bad-op"
  | some (p, tail) =>
    match parseExtras (Drv.C06.modelTokens tail) {} with
    | none => "bad-op"
    | some ex =>
      match prunePipeline p ex with
      | .err e => e
      | .fail k => "fail " ++ Drv.C06.failText k
      | .ok q => showPruned q ex

def handle : List String → String
  | "prune" :: rest => pruneOp rest
  | _ => "bad-op"

end Drv.C08
