import SimplicityModel.Driver.C05
/-! C07: the same `exec` operation, answer with high-water marks and static bounds -/
namespace Drv.C07
def handle : List String → String
  | "exec" :: rest => Drv.C05.execOp rest true
  | _ => "bad-op"
end Drv.C07
