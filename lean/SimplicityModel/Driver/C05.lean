import SimplicityModel.Driver.ProgUtil
import SimplicityModel.JetSpec
/-! C05 / C07: `exec <plan> [W:i:bits…] [J:…] [T:…] I:<compact input bits>` →
`ok <compact output bits> cells=<hw> frames=<hw> xcells=<bound> xframes=<bound>` |
`fail assertion|failNode|jet` (+ the same marks).  The model runs the denotational `evalK`, the
machine `run` (instrumented) and the explicit call-stack `loop`; they must agree among themselves. -/
namespace Drv.C05
open Prog Drv.ProgUtil BM4

def failText : Fail → String
  | .assertion => "assertion" | .failNode => "failNode" | .jet => "jet" | .stuck => "stuck"

def execOp (rest : List String) (withMarks : Bool) : String :=
  match parsePlan rest with
  | none => "bad-op"
  | some (p, tail) =>
    match parseExtras tail {} with
    | none => "bad-op"
    | some ex =>
      let needCmr := p.any fun nd => match nd with | .disconnect _ _ => true | _ => false
      match infer ex.jetTy p false, (if needCmr then cmrs (fun n => some ((ex.jetCmr n).getD 0)) p else some #[]) with
      | .ok arrows, some cm =>
        let env : Env := { plan := p, arrows := arrows, wit := ex.wit, cmr := cm, jets := ex.jetSem }
        match elabNode env (p.size + 1) (p.size - 1) with
        | none => "model-elab-failed"
        | some ⟨a, b, t⟩ =>
          match valOfCompact a ex.input with
          | none => "bad-input"
          | some v =>
            let den := evalK t v
            let mach := execM t v
            -- the explicit call stack must give what the structural interpreter gives
            let lp := Id.run do
              let m0 := forProgram t
              match (BM4.input (a := a) v m0) with
              | .error _ => "crash"
              | .ok m =>
                let m1 := if b.bw = 0 then Except.ok m else newWrite b.bw m
                match m1 with
                | .error _ => "crash"
                | .ok m1 =>
                  match BM4.loop 100000000 [.goto ⟨_, _, t⟩] m1, run t m1 with
                  | some (.ok _), .ok _ => "same"
                  | some (.error e1), .error e2 => if e1 = e2 then "same" else "loop-differs"
                  | _, _ => "loop-differs"
            let marks (k : Marks) : String :=
              if withMarks then s!" cells={k.cells} frames={k.frames} xcells={extraCells t} xframes={extraFrames t}" else ""
            if lp ≠ "same" then "model-inconsistent " ++ lp else
            match den, mach with
            | .ok out, .ok (bits, k) =>
              match decPadded b bits with
              | some (o, []) => if o = out then "ok " ++ Drv.showBits (compact out) ++ marks k
                                else "model-inconsistent eval/run"
              | _ => "model-inconsistent decode"
            | .error f, .error .fail => "fail " ++ failText f
            | _, .error .crash => "model-crash"
            | _, _ => "model-inconsistent verdict"
      | .ok _, none => "bad-plan"
      | .typeError, _ => "ill-typed"
      | .occurs, _ => "ill-typed"
      | .badPlan, _ => "bad-plan"
      | .fuel, _ => "model-fuel"

def handle : List String → String
  | "exec" :: rest => execOp rest false
  | ["jetspec", name, inp] =>
    match Drv.bits? inp with
    | some bs =>
      match JetSpec.specByName name bs with
      | some out => Drv.showBits out
      | none => "unspecified"
    | none => "bad-op"
  | _ => "bad-op"

end Drv.C05
