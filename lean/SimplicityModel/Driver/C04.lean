import SimplicityModel.Driver.ProgUtil
import SimplicityModel.Prog.InferUB
/-! C04: `infer P|N <plan> [T:name:src:tgt…]` → `ok <arrow_0> … <arrow_{n-1}>` | `err`
(reference unifier on the constraint set), and
`inferub P|N <i_1,…,i_k> <plan> [T:…]` → the same answer format, computed by the transcribed
union-bound algorithm (`Prog.inferUB`) constructing the nodes in the order `i_1 … i_k`; a node that
is not constructed prints `?`. -/
namespace Drv.C04
open Prog Drv.ProgUtil

def parseOrder (s : String) : Option (List Nat) :=
  (s.splitOn ",").mapM String.toNat?

def handle : List String → String
  | "infer" :: mode :: rest =>
    match parsePlan rest with
    | none => "bad-op"
    | some (p, tail) =>
      match parseExtras tail {} with
      | none => "bad-op"
      | some ex =>
        match infer ex.jetTy p (mode = "P") with
        | .ok arrows => "ok " ++ " ".intercalate (arrows.toList.map arrowText)
        | .typeError => "err"
        | .occurs => "err"
        | .badPlan => "bad-plan"
        | .fuel => "model-fuel"
  | "inferub" :: mode :: ord :: rest =>
    match parseOrder ord, parsePlan rest with
    | some order, some (p, tail) =>
      match parseExtras tail {} with
      | none => "bad-op"
      | some ex =>
        match inferUB ex.jetTy p order (mode = "P") with
        | .ok arrows true =>
          "ok " ++ " ".intercalate (arrows.toList.map fun a => match a with
            | some a => arrowText a
            | none => "?")
        | .ok _ false => "model-uncovered"
        | .typeError => "err"
        | .occurs => "err"
        | .badPlan => "bad-plan"
        | .fuel => "model-fuel"
        | .panic => "model-panic"
    | _, _ => "bad-op"
  | _ => "bad-op"

end Drv.C04
