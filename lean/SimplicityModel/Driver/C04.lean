import SimplicityModel.Driver.ProgUtil
/-! C04: `infer P|N <plan> [T:name:src:tgt…]` → `ok <arrow_0> … <arrow_{n-1}>` | `err` -/
namespace Drv.C04
open Prog Drv.ProgUtil

def handle : List String → String
  | "infer" :: mode :: rest =>
    match parsePlan rest with
    | none => "bad-op"
    | some (p, tail) =>
      match parseExtras tail {} with
      | none => "bad-op"
      | some ex =>
        match infer ex.jetTy p (mode = "P") with
        | .ok arrows => "ok " ++ " ".intercalate (arrows.toList.map arrowText)
        | .typeError => "err"
        | .occurs => "err"
        | .badPlan => "bad-plan"
        | .fuel => "model-fuel"
  | _ => "bad-op"

end Drv.C04
