/-
Line-protocol helpers shared by the driver verbs (no proofs here; trusted glue).
-/
namespace Drv

def nat! (s : String) : Nat := s.toNat?.getD 0

def nats? : List String → Option (List Nat)
  | [] => some []
  | s :: ss => do let n ← s.toNat?; let ns ← nats? ss; pure (n :: ns)

/-- "0101" → bits; `-` is the empty string -/
def bits? (s : String) : Option (List Bool) :=
  if s = "-" then some [] else
  s.toList.foldr (fun c acc => do
    let a ← acc
    if c = '0' then pure (false :: a) else if c = '1' then pure (true :: a) else none) (some [])

def showBits (bs : List Bool) : String :=
  if bs.isEmpty then "-" else String.ofList (bs.map fun b => if b then '1' else '0')

def hexDigit? (c : Char) : Option Nat :=
  if '0' ≤ c ∧ c ≤ '9' then some (c.toNat - '0'.toNat)
  else if 'a' ≤ c ∧ c ≤ 'f' then some (c.toNat - 'a'.toNat + 10)
  else if 'A' ≤ c ∧ c ≤ 'F' then some (c.toNat - 'A'.toNat + 10)
  else none

/-- "0aff" → bytes; `-` is the empty string -/
def hexBytes? (s : String) : Option (List Nat) :=
  if s = "-" then some [] else
  let rec go : List Char → Option (List Nat)
    | [] => some []
    | [_] => none
    | a :: b :: rest => do
      let x ← hexDigit? a; let y ← hexDigit? b; let r ← go rest; pure ((x * 16 + y) :: r)
  go s.toList

def hexOfNat (n : Nat) : Char :=
  if n < 10 then Char.ofNat ('0'.toNat + n) else Char.ofNat ('a'.toNat + n - 10)

def showHex (bs : List Nat) : String :=
  if bs.isEmpty then "-" else
  String.ofList (bs.foldr (fun b acc => hexOfNat (b / 16) :: hexOfNat (b % 16) :: acc) [])

def bitsOfBytes (bs : List Nat) : List Bool :=
  bs.foldr (fun b acc => (List.range 8).map (fun i => decide ((b >>> (7 - i)) % 2 = 1)) ++ acc) []

end Drv
