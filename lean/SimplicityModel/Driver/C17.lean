import SimplicityModel.Driver.ProgUtil
import SimplicityModel.HumanProg
/-! C17 verbs
`render P|N <plan> [T:… C:…]` → `ok <statements separated by single spaces>` | `err`
   (and `model-selfparse-…` if the model's own parser does not read the rendering back):
   the model of `Forest::from_program(commit).string_serialize()` (comment lines and column padding
   are not modelled: the harness drops comment lines and collapses white space)
`parse <text as hex> [T:… C:…]` → `ok <root cmr> <nodes>` | `no` (an error, or not exactly the
   one root `main`): lexer, parser of the rendered
   grammar, name resolution, type check against the annotations, root recomputed by `Prog.cmrs`
`lex <text as hex>` → `ok` | `lexerr`
`ty <type>` → `<printed text> back|noparse` -/
namespace Drv.C17
open Prog Drv.ProgUtil HT

def charsOfHex (s : String) : Option (List Char) := (Drv.hexBytes? s).map fun bs => bs.map Char.ofNat

def joinStmts (ss : List Stmt) : String :=
  " ".intercalate (ss.map fun s => String.ofList (stmtChars s))

/-- the annotations agree with the inferred arrows -/
def annotationsOk (stmts : Array Stmt) (arrows : Array (BM4.Ty × BM4.Ty)) : Bool :=
  (List.range stmts.size).all fun i =>
    match stmts[i]?, arrows[i]? with
    | some s, some (a, b) => s.src == a && s.tgt == b
    | _, _ => false

def handle : List String → String
  | "render" :: mode :: rest =>
    match parsePlan rest with
    | none => "bad-op"
    | some (p, tail) =>
      match parseExtras tail {} with
      | none => "bad-op"
      | some ex =>
        match infer ex.jetTy p (mode = "P") with
        | .ok arrows =>
          match fromProgram ex.jetCmr p arrows with
          | some ss =>
            -- the conclusion of `parse_render` on this very rendering, evaluated by the model
            let isJet (n : List Char) : Bool := (ex.jetTy (String.ofList n)).isSome
            match parseRendered isJet (textChars ss) with
            | some ss' => if ss' = ss then "ok " ++ joinStmts ss else "model-selfparse-differs"
            | none => "model-selfparse-failed"
          | none => "bad-plan"
        | .typeError => "err"
        | .occurs => "err"
        | .badPlan => "bad-plan"
        | .fuel => "model-fuel"
  | "parse" :: h :: tail =>
    match charsOfHex h, parseExtras tail {} with
    | some cs, some ex =>
      let isJet (n : List Char) : Bool := (ex.jetTy (String.ofList n)).isSome
      match parseRendered isJet cs with
      | none => "no"
      | some ss =>
        match toPlan ss with
        | .err _ => "no"
        | .ok plan stmts roots =>
          if roots ≠ 1 then "no" else
          match infer ex.jetTy plan false with
          | .ok arrows =>
            if annotationsOk stmts arrows then
              match cmrs ex.jetCmr plan with
              | some cs => s!"ok {hex32 (cs.getD (plan.size - 1) 0)} {plan.size}"
              | none => "bad-plan"
            else "no"
          | .typeError => "no"
          | .occurs => "no"
          | .badPlan => "bad-plan"
          | .fuel => "model-fuel"
    | _, _ => "bad-op"
  | ["lex", h] =>
    match charsOfHex h with
    | some cs =>
      match lex cs with
      | some _ => "ok"
      | none => "lexerr"
    | none => "bad-op"
  | ["ty", t] =>
    match Prog.parseTy t with
    | some t =>
      let cs := printTy t
      (
        let back := match lex cs with
          | some ts =>
            match HT.parseType ts with
            | some (t', []) => if t' = t then "back" else "other"
            | _ => "noparse"
          | none => "noparse"
        String.ofList cs ++ " " ++ back)
    | none => "bad-op"
  | _ => "bad-op"

end Drv.C17
