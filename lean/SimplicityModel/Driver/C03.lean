import SimplicityModel.Driver.C01
namespace Drv.C03
def handle : List String → String := Drv.C01.handle
end Drv.C03
