import SimplicityModel.Prog.Codec
import SimplicityModel.Prog.JetsElements
import SimplicityModel.Driver.ProgUtil
/-! C01 / C02 / C03: `enc R|C <plan> W:…`, `dec <prog hex> <wit hex>`, `cdec <prog hex>` with the
Elements jet tables regenerated from the source. -/
namespace Drv.C01
open Prog Drv.ProgUtil

def tables : Tables where
  J := JetsE.J
  jc := JetsE.jc
  nameOf := JetsE.nameOf
  ofName := JetsE.ofName
  jetTy := JetsE.jetTy
  jetCmr := JetsE.jetCmr
  jetCost := JetsE.jetCost

def hexOfBits (bs : List Bool) : String := Drv.showHex (packBits bs)

def describe (d : Decoded) : String :=
  let idx := (List.range d.plan.size).filter fun i =>
    match d.plan[i]? with | some (.hidden _) => false | _ => true
  let root := d.plan.size - 1
  let a := d.annots.getD root default
  let cm := (cmrs tables.jetCmr d.plan).map fun c => c.getD root 0
  let arrows := idx.map fun i => arrowText (d.arrows.getD i (.one, .one))
  let wits := d.wits.map fun (_, b) => Drv.showBits b
  s!"ok {idx.length} {hex32 (cm.getD 0)} {hex32 a.ihr} {hex32 a.amr} {a.cost} A {" ".intercalate arrows} W {" ".intercalate wits}"

/-- the model's own canonicity: what it accepts, it re-encodes to exactly the input -/
def reencodes (d : Decoded) (pbits wbits : List Bool) : Bool :=
  let witF (i : Nat) : Option (List Bool) := (d.wits.find? (·.1 = i)).map (·.2)
  match encode tables.jc tables.ofName d.plan d.annots true witF with
  | some (pb, wb) => pb == pbits && wb == wbits
  | none => false

def decOp (p w : String) : String :=
  match Drv.hexBytes? p, Drv.hexBytes? w with
  | some pb, some wb =>
    let pbits := Drv.bitsOfBytes pb
    let wbits := Drv.bitsOfBytes wb
    match decodeRedeem tables pbits wbits with
    | .ok d => if reencodes d pbits wbits then describe d else "model-noncanonical " ++ describe d
    | .error _ => "err"
  | _, _ => "bad-op"

def cdecOp (p : String) : String :=
  match Drv.hexBytes? p with
  | some pb =>
    match decodeCommit tables (Drv.bitsOfBytes pb) with
    | .ok (plan, cm) => s!"ok {hex32 (cm.getD (plan.size - 1) 0)}"
    | .error _ => "err"
  | none => "bad-op"

def encOp (mode : String) (rest : List String) : String :=
  match parsePlan rest with
  | none => "bad-op"
  | some (p, tail) =>
    match parseExtras tail {} with
    | none => "bad-op"
    | some ex =>
      match infer tables.jetTy p true with
      | .ok arrows =>
        let redeem := mode = "R"
        match annots tables.jetCmr tables.jetCost p arrows (if redeem then ex.wit else fun _ => none) with
        | none => "model-annot-failed"
        | some an =>
          match encode tables.jc tables.ofName p an redeem ex.wit with
          | none => "model-encode-failed"
          | some (pb, wb) =>
            if redeem then
              -- the model's own round trip: its decoder accepts its encoding and finds the same
              -- roots, arrows and witness values
              match decodeRedeem tables pb wb with
              | .ok d =>
                let root := p.size - 1
                let a := an.getD root default
                let a' := d.annots.getD (d.plan.size - 1) default
                let ws := (List.range p.size).filterMap fun i =>
                  match p[i]? with | some Node.witness => ex.wit i | _ => none
                if a.ihr == a'.ihr && a.amr == a'.amr && a.cost == a'.cost &&
                    (d.wits.map (·.2)).eraseDups.length ≤ ws.length then
                  s!"prog={hexOfBits pb} wit={hexOfBits wb}"
                else s!"model-roundtrip-differs prog={hexOfBits pb} wit={hexOfBits wb}"
              | .error _ => s!"model-rejects-own-encoding prog={hexOfBits pb} wit={hexOfBits wb}"
            else s!"prog={hexOfBits pb}"
      | .typeError => "ill-typed"
      | .occurs => "ill-typed"
      | .badPlan => "bad-plan"
      | .fuel => "model-fuel"

/-- commitment-time identity roots of every reachable node of a plan (`-` where the code has none:
witness / disconnect-containing sub-expressions) -/
def cihrOp (rest : List String) : String :=
  match parsePlan rest with
  | none => "bad-op"
  | some (p, tail) =>
    match parseExtras tail {} with
    | none => "bad-op"
    | some _ =>
      match infer tables.jetTy p true with
      | .ok arrows =>
        match annots tables.jetCmr tables.jetCost p arrows (fun _ => none) with
        | none => "model-annot-failed"
        | some an =>
          let reach := Id.run do
            let mut seen : Array Bool := Array.replicate p.size false
            let mut stack : List Nat := [p.size - 1]
            let mut fuel := 4 * p.size + 4
            while fuel > 0 && !stack.isEmpty do
              fuel := fuel - 1
              match stack with
              | [] => pure ()
              | i :: st =>
                stack := st
                if !(seen.getD i true) then
                  seen := seen.set! i true
                  stack := (commitChildren p i) ++ stack
            pure seen
          let items := (List.range p.size).map fun i =>
            if reach.getD i false then
              match an[i]? with
              | some a => if a.unique then "-" else hex32 a.ihr
              | none => "?"
            else "."
          "ihrs " ++ " ".intercalate items
      | _ => "ill-typed"

def handle : List String → String
  | "cihr" :: rest => cihrOp rest
  | "enc" :: mode :: rest => encOp mode rest
  | "dec" :: p :: w :: _ => decOp p w
  | ["cdec", p] => cdecOp p
  | ["cdecx", p] =>
    match Drv.hexBytes? p with
    | some pb =>
      match decodeCommit tables (Drv.bitsOfBytes pb) with
      | .ok _ => "ok"
      | .error e => "err " ++ toString (repr e)
    | none => "bad-op"
  | ["decx", p, w] =>
    match Drv.hexBytes? p, Drv.hexBytes? w with
    | some pb, some wb =>
      match decodeRedeem tables (Drv.bitsOfBytes pb) (Drv.bitsOfBytes wb) with
      | .ok _ => "ok"
      | .error e => "err " ++ toString (repr e)
    | _, _ => "bad-op"
  | _ => "bad-op"

end Drv.C01
