import SimplicityModel.Cost
import SimplicityModel.Driver.Util
/-! driver verbs of C19: `cost c n l1 … ln`, `weight c` -/
namespace Drv.C19
open Cost

def handle : List String → String
  | "cost" :: c :: _n :: ls =>
    match c.toNat?, Drv.nats? ls with
    | some c, some items =>
      let v := isBudgetValid c items
      let p := match getPadding c items with | none => "none" | some l => toString l
      s!"valid={if v then 1 else 0} pad={p}"
    | _, _ => "bad-op"
  | ["weight", c] =>
    match c.toNat? with
    | some c => s!"{weight c} back={min (weight c * 1000) U32MAX}"
    | none => "bad-op"
  | _ => "bad-op"

end Drv.C19
