import SimplicityModel.BitOps
import SimplicityModel.Driver.Util
/-!
driver verbs of C13 (they run the definitions the theorems of `Props/C13.lean` are about):

* `enc n`                           → `<hex> <bits>`        `Writer.encodeNatural`, `flushAll`, `total`
* `dec ty bound skip hex`           → `ok v read=<total> len=<len>` | `eof` | `overflow` | `badindex got max`
                                                            `LReader.readNatural` after `skip` calls of `next`
* `rd src op…`  (`src` = `hex` | `hex:s:e`, ops `b u2 u8 n:ty:bound c`)
                                    → per op `<result>/<n_total_read>/<len>`; a failed `n` and `c` end the line
* `wr op…`  (`b0 b1 be:n:len by:hex n:k f`) → per op `<n_total_written>:<bytes in the sink>`, then the sink
* `win hex s e`                     → `<bits> len=<len>`    `window`, `LReader.toList`
* `col bits`                        → `<hex> <len>`         `collectBits`
-/
namespace Drv.C13
open BitStream Spk

/-- the largest value `N::try_from(u32)` accepts, per result type -/
def maxValOf : String → Option Nat
  | "u8" => some (2^8 - 1)
  | "i8" => some (2^7 - 1)
  | "u16" => some (2^16 - 1)
  | "i16" => some (2^15 - 1)
  | "u32" => some (2^32 - 1)
  | "i32" => some (2^31 - 1)
  | "u64" => some (2^64 - 1)
  | "i64" => some (2^63 - 1)
  | "usize" => some (2^64 - 1)
  | _ => none

def bound? (s : String) : Option (Option Nat) :=
  if s = "none" then some none else s.toNat?.map some

def showDErr (sep : String) : DErr → String
  | .eof => "eof"
  | .overflow => "overflow"
  | .badIndex g m => s!"badindex{sep}{g}{sep}{m}"

def skip : Nat → LReader → LReader
  | 0, l => l
  | k+1, l => match l.next with
    | none => l
    | some (_, l') => skip k l'

def src? (s : String) : Option LReader :=
  match s.splitOn ":" with
  | [h] => (Drv.hexBytes? h).map LReader.new
  | [h, a, b] => do
    let bytes ← Drv.hexBytes? h
    let s ← a.toNat?
    let e ← b.toNat?
    if s ≤ e ∧ e ≤ 8 * bytes.length then pure (window bytes s e) else none
  | _ => none

def stat (l : LReader) : String := s!"/{l.r.total}/{l.len}"

def b2n (b : Bool) : Nat := if b then 1 else 0

def rdOps (l : LReader) (ops : List String) (acc : List String) : List String :=
  match ops with
  | [] => acc.reverse
  | op :: rest =>
    if op = "c" then
      let r := match l.closeE with
        | .ok => "ok"
        | .trailing b => s!"trailing:{b}"
        | .padding m n => s!"padding:{m}:{n}"
      (r :: acc).reverse
    else
      let rop : Option ROp := match op.splitOn ":" with
        | ["b"] => some .bit
        | ["u2"] => some .u2
        | ["u8"] => some .u8
        | ["n", ty, bd] => match maxValOf ty, bound? bd with
          | some mv, some b => some (.nat mv b)
          | _, _ => none
        | _ => none
      match rop with
      | none => ("bad-op" :: acc).reverse
      | some rop =>
        match l.step rop with
        | (out, some l') =>
          let r := match out with
            | .bit b => toString (b2n b)
            | .u2 b0 b1 => toString (2 * b2n b0 + b2n b1)
            | .u8 v => toString v
            | .nat v => toString v
            | .eof => "e"
            | .natErr e => showDErr ":" e
          rdOps l' rest ((r ++ stat l') :: acc)
        | (out, none) =>
          let r := match out with
            | .natErr e => showDErr ":" e
            | _ => "?"
          (r :: acc).reverse

def wop? (op : String) : Option WOp :=
  match op.splitOn ":" with
  | ["b0"] => some (.bit false)
  | ["b1"] => some (.bit true)
  | ["be", n, len] => do let n ← n.toNat?; let len ← len.toNat?; pure (.bitsBE n len)
  | ["by", h] => (Drv.hexBytes? h).map .bytes
  | ["n", k] => k.toNat?.map .nat
  | ["f"] => some .flush
  | _ => none

def wrOps (w : Writer) (ops : List String) (acc : List String) : List String :=
  match ops with
  | [] => (Drv.showHex w.out :: acc).reverse
  | op :: rest =>
    match wop? op with
    | none => ("bad-op" :: acc).reverse
    | some o =>
      let w' := w.step o
      wrOps w' rest (s!"{w'.total}:{w'.out.length}" :: acc)

def handle : List String → String
  | ["enc", n] =>
    match n.toNat? with
    | some n =>
      let w := Writer.new.encodeNatural n
      s!"{Drv.showHex w.flushAll.out} {w.total}"
    | none => "bad-op"
  | ["dec", ty, bd, sk, hex] =>
    match maxValOf ty, bound? bd, sk.toNat?, Drv.hexBytes? hex with
    | some mv, some b, some k, some bytes =>
      match (skip k (LReader.new bytes)).readNatural mv b with
      | .ok (v, l') => s!"ok {v} read={l'.r.total} len={l'.len}"
      | .error e => showDErr " " e
    | _, _, _, _ => "bad-op"
  | "rd" :: src :: ops =>
    match src? src with
    | some l => " ".intercalate (rdOps l ops [s!"s{stat l}"])
    | none => "bad-op"
  | "wr" :: ops => " ".intercalate (wrOps Writer.new ops [])
  | ["win", hex, s, e] =>
    match Drv.hexBytes? hex, s.toNat?, e.toNat? with
    | some bytes, some s, some e =>
      if s ≤ e ∧ e ≤ 8 * bytes.length then
        let l := window bytes s e
        s!"{Drv.showBits l.toList} len={l.len}"
      else "bad-op"
    | _, _, _ => "bad-op"
  | ["col", bits] =>
    match Drv.bits? bits with
    | some bs => let p := collectBits bs; s!"{Drv.showHex p.1} {p.2}"
    | none => "bad-op"
  | _ => "bad-op"

end Drv.C13
