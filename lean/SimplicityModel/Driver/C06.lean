import SimplicityModel.Driver.ProgUtil
/-! C06: `verdict <plan> [W:i:bits…] [T:…] [C:…] [K:…] [J:name:in:out|fail…] [E:<env seed>]` →
`ok` | `fail assertion|failNode|jet`.

The model's verdict is `Prog.evalK` on the term elaborated from the plan (types inferred by the
reference unifier with the root pinned to `1 → 1`, CMRs recomputed for `disconnect`), the input is
the unit value, jets answer from the calls recorded on the Rust run (`J:`); a call that is not in
the table would be a `jet` failure, i.e. a disagreement.  The `E:` token names the generated
environment for the Rust side and is ignored here: the verdict is a function of program, witness
and jet table (`Props.C06`). -/
namespace Drv.C06
open Prog Drv.ProgUtil BM4

def failText : Fail → String
  | .assertion => "assertion" | .failNode => "failNode" | .jet => "jet" | .stuck => "stuck"

/-- the tokens the model reads (everything but `E:…`) -/
def modelTokens (ts : List String) : List String := ts.filter fun t => !t.startsWith "E:"

/-- the elaborated root term of a `1 → 1` program given as plan + extras -/
def elabProgram (p : Plan) (ex : Extras) : Except String (Σ a b, Term a b) :=
  let needCmr := p.any fun nd => match nd with | .disconnect _ _ => true | _ => false
  match infer ex.jetTy p true, (if needCmr then cmrs (fun n => some ((ex.jetCmr n).getD 0)) p else some #[]) with
  | .ok arrows, some cm =>
    let env : Env := { plan := p, arrows := arrows, wit := ex.wit, cmr := cm, jets := ex.jetSem }
    match elabNode env (p.size + 1) (p.size - 1) with
    | none => .error "model-elab-failed"
    | some r => .ok r
  | .ok _, none => .error "bad-plan"
  | .typeError, _ => .error "ill-typed"
  | .occurs, _ => .error "ill-typed"
  | .badPlan, _ => .error "bad-plan"
  | .fuel, _ => .error "model-fuel"

/-- the verdict of the model: a pure function of (plan, witness values, jet table) -/
def verdict (p : Plan) (ex : Extras) : String :=
  match elabProgram p ex with
  | .error e => e
  | .ok ⟨a, b, t⟩ =>
    if a ≠ .one ∨ b ≠ .one then "not-a-program" else
    match evalK t .unit with
    | .ok _ => "ok"
    | .error f => "fail " ++ failText f

def verdictOp (rest : List String) : String :=
  match parsePlan rest with
  | none => "bad-op"
  | some (p, tail) =>
    match parseExtras (modelTokens tail) {} with
    | none => "bad-op"
    | some ex => verdict p ex

def handle : List String → String
  | "verdict" :: rest => verdictOp rest
  | _ => "bad-op"

end Drv.C06
