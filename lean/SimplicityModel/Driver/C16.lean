import SimplicityModel.PolicyRun
import SimplicityModel.Driver.Util
/-!
driver verbs of C16 (policies are written in prefix form, one token per node:
`U:<128 hex>` unsatisfiable(entropy) · `T` trivial · `K:<64 hex>` key (x-only bytes) · `A:<n>` after ·
`O:<n>` older · `H:<64 hex>` sha256 image · `and p q` · `or p q` · `thr:<k>:<n> p1 … pn`)

* `sort <policy>`                                   → the sorted policy (`Policy::sorted`)
* `norm <policy>`                                   → the normalised policy (`Policy::normalized`)
* `dom <policy>`                                    → `in` / `out` (`serialize::threshold`'s assertions)
* `sat <sigs> <pres> <lockTime> <seq> <version> <x|h> <policy>` → `ok` / `unsat`
  (`sigs`, `pres`: comma-separated keys / hash images the satisfier has secrets for, `-` = none;
  `x` = lock-time answers are the jets' verdicts, `h` = the guarded library helpers)
-/
namespace Drv.C16
open Pol

def hexNat? (s : String) : Option Nat :=
  s.toList.foldl (fun acc c => do let a ← acc; let d ← Drv.hexDigit? c; pure (a * 16 + d)) (some 0)

def hexPad (width n : Nat) : String :=
  let ds := Nat.toDigits 16 n
  String.ofList (List.replicate (width - ds.length) '0' ++ ds)

mutual
def parseP : Nat → List String → Option (P × List String)
  | 0, _ => none
  | _, [] => none
  | fuel + 1, tok :: rest =>
    if tok = "T" then some (.leaf 1 0, rest)
    else if tok = "and" then do
      let (l, r1) ← parseP fuel rest
      let (r, r2) ← parseP fuel r1
      pure (.and l r, r2)
    else if tok = "or" then do
      let (l, r1) ← parseP fuel rest
      let (r, r2) ← parseP fuel r1
      pure (.or l r, r2)
    else match tok.splitOn ":" with
      | ["U", h] => if h.length = 128 then (hexNat? h).map fun x => (.leaf 0 x, rest) else none
      | ["K", h] => if h.length = 64 then (hexNat? h).map fun x => (.leaf 2 x, rest) else none
      | ["A", n] => n.toNat?.map fun x => (.leaf 3 x, rest)
      | ["O", n] => n.toNat?.map fun x => (.leaf 4 x, rest)
      | ["H", h] => if h.length = 64 then (hexNat? h).map fun x => (.leaf 5 x, rest) else none
      | ["thr", k, n] => do
        let k ← k.toNat?
        let n ← n.toNat?
        let (subs, r) ← parseL fuel n rest
        pure (.thr k subs, r)
      | _ => none
def parseL : Nat → Nat → List String → Option (List P × List String)
  | 0, _, _ => none
  | _, 0, rest => some ([], rest)
  | fuel + 1, n + 1, rest => do
    let (p, r1) ← parseP fuel rest
    let (ps, r2) ← parseL fuel n r1
    pure (p :: ps, r2)
end

def parse (toks : List String) : Option P :=
  match parseP (2 * toks.length + 2) toks with
  | some (p, []) => some p
  | _ => none

mutual
def showP : P → List String
  | .leaf t x =>
    if t = 0 then ["U:" ++ hexPad 128 x]
    else if t = 1 then ["T"]
    else if t = 2 then ["K:" ++ hexPad 64 x]
    else if t = 3 then [s!"A:{x}"]
    else if t = 4 then [s!"O:{x}"]
    else ["H:" ++ hexPad 64 x]
  | .and l r => "and" :: (showP l ++ showP r)
  | .or l r => "or" :: (showP l ++ showP r)
  | .thr k s => s!"thr:{k}:{lenL s}" :: showL s
def showL : List P → List String
  | [] => []
  | p :: ps => showP p ++ showL ps
end

def render (p : P) : String := " ".intercalate (showP p)

def hexList? (s : String) : Option (List Nat) :=
  if s = "-" then some [] else
  (s.splitOn ",").foldr (fun h acc => do let a ← acc; let x ← hexNat? h; pure (x :: a)) (some [])

def handle : List String → String
  | "sort" :: toks =>
    match parse toks with
    | some p => render (sorted p)
    | none => "bad-op"
  | "norm" :: toks =>
    match parse toks with
    | some p => render (normalized p)
    | none => "bad-op"
  | "dom" :: toks =>
    match parse toks with
    | some p => if dom p then "in" else "out"
    | none => "bad-op"
  | "sat" :: sigs :: pres :: lt :: seq :: ver :: mode :: toks =>
    match hexList? sigs, hexList? pres, lt.toNat?, seq.toNat?, ver.toNat?, parse toks with
    | some sigs, some pres, some lt, some seq, some ver, some p =>
      if mode ≠ "x" ∧ mode ≠ "h" then "bad-op" else
      let a := availOf sigs pres ⟨lt, seq, ver⟩ (mode == "x")
      if satisfyOk a p then "ok" else "unsat"
    | _, _, _, _, _, _ => "bad-op"
  | _ => "bad-op"

end Drv.C16
