import SimplicityModel.Driver.ValExpr
/-! driver verbs of C10 (values as history expressions, see `ValExpr.lean`):

    v <expr>                     type, both lengths, both encodings, the three accessors
    raw <expr>                   buffer bytes and bit offset
    dp <T> <skip> <hex>          from_padded_bits: bits consumed, result      (`eof` on a short input)
    dc <T> <skip> <hex>          from_compact_bits
    pr <T> <expr>                prune to T
    pp <T2> <T1> <expr>          prune to T2 directly | prune to T1, then to T2
-/
namespace Drv.C10
open Vl Drv.VX

def showFull (v : RVal) : String :=
  s!"{showTy v.ty} c={Drv.showBits v.iterCompact} p={Drv.showBits v.iterPadded}"

def handle : List String → String
  | "v" :: e =>
    match evalAll e with
    | .error m => m
    | .ok v =>
      let p := match v.asProduct with
        | some (a, b) => s!"{showSub a} {showSub b}"
        | none => "none"
      s!"{showTy v.ty} pl={v.paddedLen} cl={v.compactLen} p={Drv.showBits v.iterPadded} c={Drv.showBits v.iterCompact} l={showOpt v.asLeft} r={showOpt v.asRight} pr={p}"
  | "raw" :: e =>
    match evalAll e with
    | .error m => m
    | .ok v => s!"{Drv.showHex v.buf}@{v.off}"
  | ["dp", t, skip, hex] =>
    match ty? t, inputBits skip hex with
    | some a, some inp =>
      match RVal.fromPaddedBits a inp with
      | some (v, rest) => s!"ok {inp.length - rest.length} {showFull v}"
      | none => "eof"
    | _, _ => "bad-op"
  | ["dc", t, skip, hex] =>
    match ty? t, inputBits skip hex with
    | some a, some inp =>
      match RVal.fromCompactBits a inp with
      | some (v, rest) => s!"ok {inp.length - rest.length} {showFull v}"
      | none => "eof"
    | _, _ => "bad-op"
  | "pr" :: t :: e =>
    match ty? t, evalAll e with
    | some a, .ok v =>
      match RVal.prune a v with
      | some w => showFull w
      | none => "none"
    | none, _ => "bad-op"
    | _, .error m => m
  | "pp" :: t2 :: t1 :: e =>
    match ty? t2, ty? t1, evalAll e with
    | some a2, some a1, .ok v =>
      let one := showOpt (RVal.prune a2 v)
      let two := match RVal.prune a1 v with
        | some w => showOpt (RVal.prune a2 w)
        | none => "none1"
      s!"{one} | {two}"
    | _, _, .error m => m
    | _, _, _ => "bad-op"
  | _ => "bad-op"

end Drv.C10
