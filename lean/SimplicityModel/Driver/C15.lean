import SimplicityModel.EnvDigest
import SimplicityModel.Driver.Util
/-! driver verb of C15:
`env <version> <lock> <ix> <annex-arg> <cmr> <genesis> <cb0> <key> <path> <nin> <nutxo> <nout>
 {in …}* {utxo …}* {out …}* {Q <jet> <arg>*}+`
→ per `Q` group one token per argument (the compact bits of `jetC q (cBuild (marshal e))` or `fail`),
groups separated by `|`.  A digest jet (`…_hash`, `transaction_id`, `issuance_entropy/asset/token`) is
answered by `jetD q (cBuildD (marshalD e))`; the digests are computed once per line and only when a
digest jet is asked.  Parsing is trusted glue; the answers come from `Env.jetC`, `Env.cBuild`,
`Env.marshal`, `Env.jetD`, `Env.cDigests`, `Env.txidOf`, the definitions `Props/C15.lean` is about. -/
namespace Drv.C15
open Env

abbrev P := StateT (List String) Option

def tok : P String := fun s => match s with | [] => none | t :: r => some (t, r)
def lit (x : String) : P Unit := do
  let t ← tok
  if t = x then pure () else failure
def ofOpt {α} (o : Option α) : P α := fun s => o.map (·, s)
def nat : P Nat := do ofOpt (← tok).toNat?

def hexChars : List Char → Option Bytes
  | [] => some []
  | [_] => none
  | a :: b :: rest => do
    let x ← Drv.hexDigit? a
    let y ← Drv.hexDigit? b
    let r ← hexChars rest
    pure (UInt8.ofNat (x * 16 + y) :: r)

def hexTok (cs : List Char) : Option Bytes := if cs = ['-'] then some [] else hexChars cs
def mk32 (b : Bytes) : Option B32 := if h : b.length = 32 then some ⟨b, h⟩ else none

def bytes : P Bytes := do ofOpt (hexTok (← tok).toList)
def b32 : P B32 := do ofOpt (mk32 (← bytes))

def confOf (cs : List Char) : Option Conf :=
  match cs with
  | ['n'] => some .null
  | 'e' :: r => do some (.explicit (← mk32 (← hexChars r)))
  | 'c' :: p :: r => do some (.confidential (p = '1') (← mk32 (← hexChars r)))
  | _ => none

def amtOf (cs : List Char) : Option Amount :=
  match cs with
  | ['n'] => some .null
  | 'e' :: r => do some (.explicit (UInt64.ofNat (← (String.ofList r).toNat?)))
  | 'c' :: p :: r => do some (.confidential (p = '1') (← mk32 (← hexChars r)))
  | _ => none

def conf : P Conf := do ofOpt (confOf (← tok).toList)
def amt : P Amount := do ofOpt (amtOf (← tok).toList)

def rep {α} (p : P α) : Nat → P (List α)
  | 0 => pure []
  | n + 1 => do
    let x ← p
    let xs ← rep p n
    pure (x :: xs)

def chunks32 : Nat → Bytes → Option (List B32)
  | _, [] => some []
  | 0, _ => none
  | fuel + 1, bs => do
    let h ← mk32 (bs.take 32)
    let r ← chunks32 fuel (bs.drop 32)
    pure (h :: r)

def txIn : P TxIn := do
  lit "in"
  let prevTxid ← b32
  let vout ← nat
  let seq ← nat
  let scriptSig ← bytes
  let isPegin ← tok
  let p ← tok
  let pegin ← if p = "-" then pure none else do
    let h ← ofOpt ((hexChars p.toList).bind mk32)
    pure (some h)
  let nonce ← b32
  let entropy ← b32
  let amount ← amt
  let keys ← amt
  let arp ← bytes
  let krp ← bytes
  let nw ← nat
  let wit ← rep bytes nw
  pure { prevTxid := prevTxid, prevVout := UInt32.ofNat vout, sequence := UInt32.ofNat seq,
         scriptSig := scriptSig, isPegin := isPegin = "1", peginGenesis := pegin,
         blindingNonce := nonce, assetEntropy := entropy, amount := amount, inflationKeys := keys,
         amountRangeproof := arp, inflationKeysRangeproof := krp, scriptWitness := wit }

def utxo : P Utxo := do
  lit "utxo"
  let a ← conf
  let v ← amt
  let s ← bytes
  pure { asset := a, value := v, scriptPubkey := s }

def txOut : P TxOut := do
  lit "out"
  let a ← conf
  let v ← amt
  let n ← conf
  let s ← bytes
  let sp ← bytes
  let rp ← bytes
  pure { asset := a, value := v, nonce := n, scriptPubkey := s, surjectionProof := sp, rangeproof := rp }

def envArgs : P EnvArgs := do
  lit "env"
  let version ← nat
  let lock ← nat
  let ix ← nat
  let a ← tok
  let annex ← match a.toList with
    | ['n'] => pure none
    | 's' :: r => do
      let b ← ofOpt (hexTok r)
      pure (some b)
    | _ => failure
  let cmr ← b32
  let genesis ← b32
  let cb0s ← tok
  let cb0 ← ofOpt ((hexChars cb0s.toList).bind fun l => l.head?)
  let key ← b32
  let pathBytes ← bytes
  let path ← ofOpt (chunks32 pathBytes.length pathBytes)
  let nin ← nat
  let nutxo ← nat
  let nout ← nat
  let ins ← rep txIn nin
  let utxos ← rep utxo nutxo
  let outs ← rep txOut nout
  let lv := cb0 &&& 0xfe
  if h : lv &&& 1 = 0 then
    if h2 : path.length ≤ 128 then
      pure { tx := { version := UInt32.ofNat version, lockTime := UInt32.ofNat lock, inputs := ins, outputs := outs }
             utxos := utxos, ix := UInt32.ofNat ix, scriptCmr := cmr
             controlBlock := { leafVersion := lv, outputKeyParity := cb0 &&& 1 = 1, internalKey := key,
                               merkleBranch := path, even := h, short := h2 }
             annex := annex, genesisHash := genesis }
    else failure
  else failure

def inGetter? : String → Option InGetter
  | "pegin" => some .pegin | "prev_outpoint" => some .prevOutpoint | "asset" => some .asset
  | "amount" => some .amount | "script_hash" => some .scriptHash | "sequence" => some .sequence
  | "reissuance_blinding" => some .reissuanceBlinding
  | "new_issuance_contract" => some .newIssuanceContract
  | "reissuance_entropy" => some .reissuanceEntropy
  | "issuance_asset_amount" => some .issuanceAssetAmount
  | "issuance_token_amount" => some .issuanceTokenAmount
  | "issuance_asset_proof" => some .issuanceAssetProof
  | "issuance_token_proof" => some .issuanceTokenProof
  | "script_sig_hash" => some .scriptSigHash | "annex_hash" => some .annexHash
  | _ => none

/-- jet name → how its arguments become queries -/
inductive Kind where
  | nullary (g : G0) | current (g : InGetter) | input (g : InGetter) | output (g : OutGetter)
  | nullDatum | tappath | totalFee | checkLock (k : LockKind) | issuance

def kind? (name : String) : Option Kind :=
  match name with
  | "version" => some (.nullary .version) | "lock_time" => some (.nullary .lockTime)
  | "num_inputs" => some (.nullary .numInputs) | "num_outputs" => some (.nullary .numOutputs)
  | "current_index" => some (.nullary .currentIndex)
  | "genesis_block_hash" => some (.nullary .genesisBlockHash)
  | "script_cmr" => some (.nullary .scriptCmr) | "internal_key" => some (.nullary .internalKey)
  | "tapleaf_version" => some (.nullary .tapleafVersion) | "tx_is_final" => some (.nullary .txIsFinal)
  | "tx_lock_height" => some (.nullary .txLockHeight) | "tx_lock_time" => some (.nullary .txLockTime)
  | "tx_lock_distance" => some (.nullary .txLockDistance)
  | "tx_lock_duration" => some (.nullary .txLockDuration)
  | "check_lock_height" => some (.checkLock .height) | "check_lock_time" => some (.checkLock .time)
  | "issuance" => some .issuance
  | "check_lock_distance" => some (.checkLock .distance)
  | "check_lock_duration" => some (.checkLock .duration)
  | "output_asset" => some (.output .asset) | "output_amount" => some (.output .amount)
  | "output_nonce" => some (.output .nonce) | "output_script_hash" => some (.output .scriptHash)
  | "output_is_fee" => some (.output .isFee)
  | "output_surjection_proof" => some (.output .surjectionProof)
  | "output_range_proof" => some (.output .rangeProof)
  | "output_null_datum" => some .nullDatum | "tappath" => some .tappath | "total_fee" => some .totalFee
  | "input_pegin" => some (.input .pegin) | "input_prev_outpoint" => some (.input .prevOutpoint)
  | "input_asset" => some (.input .asset) | "input_amount" => some (.input .amount)
  | "input_script_hash" => some (.input .scriptHash) | "input_sequence" => some (.input .sequence)
  | "input_script_sig_hash" => some (.input .scriptSigHash)
  | "input_annex_hash" => some (.input .annexHash)
  | _ =>
    if name.startsWith "current_" then (inGetter? (String.ofList (name.toList.drop 8))).map .current
    else (inGetter? name).map .input

def query? (k : Kind) (arg : String) : Option Query :=
  match k with
  | .nullary g => some (.nullary g)
  | .current g => some (.current g)
  | .input g => arg.toNat?.map fun i => .input g (UInt32.ofNat i)
  | .output g => arg.toNat?.map fun i => .output g (UInt32.ofNat i)
  | .tappath => arg.toNat?.map fun i => .tappath (UInt8.ofNat i)
  | .checkLock k => arg.toNat?.map fun x => .checkLock k x
  | .issuance => arg.toNat?.map fun i => .issuance (UInt32.ofNat i)
  | .totalFee => ((hexChars arg.toList).bind mk32).map .totalFee
  | .nullDatum =>
    match arg.splitOn ":" with
    | [a, b] => do some (.nullDatum (UInt32.ofNat (← a.toNat?)) (UInt32.ofNat (← b.toNat?)))
    | _ => none

def showAns : Option (List Bool) → String
  | none => "fail"
  | some v => Drv.showBits v

/-- split the tokens after the environment into `Q` groups -/
def groups : List String → List (List String) → List (List String)
  | [], acc => acc.reverse.map List.reverse
  | "Q" :: r, acc => groups r ([] :: acc)
  | t :: r, g :: acc => groups r ((t :: g) :: acc)
  | _ :: r, [] => groups r []

/-- digest jet name → how its arguments become digest queries -/
inductive DKind where
  | nullary (g : D0) | input (g : DIn) | outputHash

def dkind? (name : String) : Option DKind :=
  match name with
  | "output_amounts_hash" => some (.nullary .outputAmountsHash)
  | "output_nonces_hash" => some (.nullary .outputNoncesHash)
  | "output_scripts_hash" => some (.nullary .outputScriptsHash)
  | "output_range_proofs_hash" => some (.nullary .outputRangeProofsHash)
  | "output_surjection_proofs_hash" => some (.nullary .outputSurjectionProofsHash)
  | "outputs_hash" => some (.nullary .outputsHash)
  | "input_outpoints_hash" => some (.nullary .inputOutpointsHash)
  | "input_amounts_hash" => some (.nullary .inputAmountsHash)
  | "input_scripts_hash" => some (.nullary .inputScriptsHash)
  | "input_utxos_hash" => some (.nullary .inputUtxosHash)
  | "input_sequences_hash" => some (.nullary .inputSequencesHash)
  | "input_annexes_hash" => some (.nullary .inputAnnexesHash)
  | "input_script_sigs_hash" => some (.nullary .inputScriptSigsHash)
  | "inputs_hash" => some (.nullary .inputsHash)
  | "issuance_asset_amounts_hash" => some (.nullary .issuanceAssetAmountsHash)
  | "issuance_token_amounts_hash" => some (.nullary .issuanceTokenAmountsHash)
  | "issuance_range_proofs_hash" => some (.nullary .issuanceRangeProofsHash)
  | "issuance_blinding_entropy_hash" => some (.nullary .issuanceBlindingEntropyHash)
  | "issuances_hash" => some (.nullary .issuancesHash)
  | "tx_hash" => some (.nullary .txHash)
  | "tapleaf_hash" => some (.nullary .tapleafHash)
  | "tappath_hash" => some (.nullary .tappathHash)
  | "tap_env_hash" => some (.nullary .tapEnvHash)
  | "sig_all_hash" => some (.nullary .sigAllHash)
  | "transaction_id" => some (.nullary .transactionId)
  | "input_hash" => some (.input .inputHash)
  | "input_utxo_hash" => some (.input .inputUtxoHash)
  | "issuance_hash" => some (.input .issuanceHash)
  | "issuance_entropy" => some (.input .issuanceEntropy)
  | "issuance_asset" => some (.input .issuanceAsset)
  | "issuance_token" => some (.input .issuanceToken)
  | "output_hash" => some .outputHash
  | _ => none

def dquery? (k : DKind) (arg : String) : Option DQuery :=
  match k with
  | .nullary g => some (.nullary g)
  | .input g => arg.toNat?.map fun i => .input g (UInt32.ofNat i)
  | .outputHash => arg.toNat?.map fun i => .outputHash (UInt32.ofNat i)

def answerGroup (v : TxEnv) (vd : Thunk TxEnvD) (g : List String) : Option String :=
  match g with
  | [] => none
  | name :: args =>
    let args := if args.isEmpty then [""] else args
    match dkind? name with
    | some dk => do
      let qs ← args.mapM (dquery? dk)
      pure (" ".intercalate (qs.map fun q => showAns (jetD q vd.get)))
    | none => do
      let k ← kind? name
      let qs ← args.mapM (query? k)
      pure (" ".intercalate (qs.map fun q => showAns (jetC q v)))

def handle (ts : List String) : String :=
  match envArgs.run ts with
  | none => "bad-op"
  | some (e, rest) =>
    let v := cBuild (marshal e)
    -- `cBuildD (marshalD e)`, sharing the built environment
    let vd : Thunk TxEnvD := Thunk.mk fun _ => cDigests v (marshalD e).txid
    match (groups rest []).mapM (answerGroup v vd) with
    | some l => if l.isEmpty then "bad-op" else " | ".intercalate l
    | none => "bad-op"

end Drv.C15
