import SimplicityModel.Gen.JetsCore
import SimplicityModel.Gen.JetsElements
import SimplicityModel.Gen.JetsBitcoin
import SimplicityModel.Gen.JetsC
import SimplicityModel.Gen.Externs
import SimplicityModel.JetCross
import SimplicityModel.Driver.Util
/-!
driver verbs of C14 (the same definitions the theorems of Props/C14 are about):

  jet <family> <i>          the i-th row of the regenerated table
  decode <family> <bits>    `Family.decode` (walk of the decode_bits! trie)
  parse <family> <string>   `Family.parse` (first matching FromStr arm)
  ty <type name>            `widthOfName` / `ctyOfName` of src/jet/type_name.rs
  pair <i>                  core jet i and its Elements namesake (types, code behind the prefix bit)
  cjet <i>                  row i of the C table: root, cost, bit widths of source and target type
  diag <check>              `ok`, or the first row on which that table-wide check fails
-/
namespace Drv.C14
open JetTable ExternTable

def fam? : String → Option (Family × Bool × Bool)
  | "core" => some (Gen.Core.family, Gen.Core.cmrImplemented, Gen.Core.costImplemented)
  | "elements" => some (Gen.Elements.family, Gen.Elements.cmrImplemented, Gen.Elements.costImplemented)
  | "bitcoin" => some (Gen.Bitcoin.family, Gen.Bitcoin.cmrImplemented, Gen.Bitcoin.costImplemented)
  | _ => none

def hex64 (n : Nat) : String :=
  String.ofList ((List.range 64).map fun i => Drv.hexOfNat ((n >>> (4 * (63 - i))) % 16))

def bytesOfString (s : String) : List Nat := s.toList.map Char.toNat

def showRow (r : JetRow) (cmrI costI : Bool) : String :=
  s!"name={r.name} code={showBits r.code} cmr={if cmrI then hex64 r.cmr else "unimplemented"} src={r.src} tgt={r.tgt} cost={if costI then toString r.cost else "unimplemented"}"

def showTy (name : List Nat) : String :=
  match widthOfName name, ctyOfName name with
  | some w, some t => s!"w={w} t={t.render}"
  | none, none => "invalid"
  | _, _ => "width-and-type-disagree"

/-- first index at which `p` fails on the zipped lists (or a length mismatch) -/
def firstBad2 {α β : Type} (p : α → β → Bool) : Nat → List α → List β → Option Nat
  | _, [], [] => none
  | n, a :: as, b :: bs => if p a b then firstBad2 p (n+1) as bs else some n
  | n, _, _ => some n

def firstBad {α : Type} (p : α → Bool) : Nat → List α → Option Nat
  | _, [] => none
  | n, a :: as => if p a then firstBad p (n+1) as else some n

def nameAt (F : Family) (i : Nat) : String := (F.rows.getD i default).name

def rep (what : String) (F : Family) : Option Nat → String
  | none => "ok"
  | some i => s!"{what}:row-{i}:{nameAt F i}"

def diagFamily (F : Family) : String → String
  | "keys" => rep "string-differs-from-key" F (firstBad2 (fun (r : JetRow) (k : Nat × Nat × Nat) =>
      r.name == strOfKey k.1 && r.src == strOfKey k.2.1 && r.tgt == strOfKey k.2.2) 0 F.rows F.keys)
  | "enc" => rep "code-differs-from-(n,len)" F (firstBad2 (fun (c : List Bool) (e : Nat × Nat) => c == Spk.bitsBE e.1 e.2) 0 F.codes F.enc)
  | "decode" => rep "decode(encode)-differs" F
      ((List.range F.codes.length).find? fun i => !(decide (walk F.trie (F.codes.getD i []) = .ok i [])))
  | "leaves" => if checkLeaves F.trie F.codes.length then "ok" else "a-jet-sits-at-two-leaves-or-a-leaf-names-no-jet"
  | "sorted" => rep "name-not-above-previous" F ((List.range (F.nameBytes.length - 1)).find? fun i =>
      !(ltB (F.nameBytes.getD i []) (F.nameBytes.getD (i+1) []))) |>.replace "row-" "after-row-"
  | "ascii" => rep "name-not-ascii" F (firstBad isAscii 0 F.nameBytes)
  | "arms" => rep "from_str-arm-differs" F
      (firstBad2 (fun (a : Nat × Nat) (ik : Nat × Nat) => a.1 == ik.2 && a.2 == ik.1) 0 F.parseArms (F.nameKeys.zipIdx.map fun p => (p.2, p.1)))
  | "types" => rep "illegal-type-name" F (firstBad (fun (k : Nat × Nat × Nat) =>
      (ctyOfName (bytesOfKey k.2.1)).isSome && (ctyOfName (bytesOfKey k.2.2)).isSome) 0 F.keys)
  | _ => "bad-op"

def E : Family := Gen.Elements.family
def K : Family := Gen.Core.family

/-- index of the Elements row with the name key `k` -/
def elemIdx (k : Nat) : Option Nat := E.nameKeys.findIdx? (· == k)

def diagCross : String → String
  | "core-elements" =>
    rep "core-jet-vs-elements-namesake" K ((List.range K.keys.length).find? fun i =>
      let kc := K.keys.getD i default
      match elemIdx kc.1 with
      | none => true
      | some j =>
        let ke := E.keys.getD j default
        !(sameTy kc.2.1 ke.2.1 && sameTy kc.2.2 ke.2.2 && decide (E.codes.getD j [] = false :: K.codes.getD i [])))
  | "core-elements-order" =>
    if coreInElements K.keys K.codes E.keys E.codes then "ok" else "core-is-not-a-subsequence-of-elements-with-equal-types-and-codes"
  | "c-keys" => rep "c-string-differs-from-key" E (firstBad2 (fun (r : JetRow) (k : Nat × Nat × Nat × Nat) =>
      r.name == strOfKey k.1 && r.src == strOfKey k.2.1 && r.tgt == strOfKey k.2.2.1) 0 Gen.C.rows Gen.C.keys)
  | "c-names" => rep "elements-vs-c-name" E (firstBad2 (fun (ke : Nat × Nat × Nat) (kc : Nat × Nat × Nat × Nat) =>
      ke.1 == kc.1 && kc.1 == kc.2.2.2) 0 E.keys Gen.C.keys)
  | "c-types" => rep "elements-vs-c-type" E (firstBad2 (fun (ke : Nat × Nat × Nat) (kc : Nat × Nat × Nat × Nat) =>
      sameTy ke.2.1 kc.2.1 && sameTy ke.2.2 kc.2.2.1) 0 E.keys Gen.C.keys)
  | "c-roots" => rep "elements-vs-c-cmr" E (firstBad2 (fun (re rc : JetRow) => re.cmr == rc.cmr) 0 E.rows Gen.C.rows)
  | "c-costs" => rep "elements-vs-c-cost" E (firstBad2 (fun (re rc : JetRow) => re.cost == rc.cost) 0 E.rows Gen.C.rows)
  | "c-paths" => rep "elements-code-vs-c-decode-tree" E (firstBad2 pathOk 0 E.codes Gen.C.paths)
  | "c-chain" => rep "binding-chain" E (firstBad2 (fun (ke : Nat × Nat × Nat) (ch : Nat × Nat × Nat × Nat) =>
      ch.1 == ke.1 && ch.2.1 == ke.1 && ch.2.2.1 == ke.1 && ch.2.2.2 == ke.1) 0 E.keys Gen.C.chain)
  | "c-cptr" => if Gen.Elements.cptr == Gen.C.chain.map (·.1) then "ok" else "cptr-list-differs"
  | _ => "bad-op"

def externName (i : Nat) : String :=
  match Gen.Externs.names.getD i ("?", "?", "?") with
  | (f, r, s) => s!"{s}:{r}:{f}"

def repX (what : String) : Option Nat → String
  | none => "ok"
  | some i => s!"{what}:{externName i}:rust=({(Gen.Externs.shown.getD i ("", "")).1}):c=({(Gen.Externs.shown.getD i ("", "")).2})"

def diagExterns : String → String
  | "arity" => repX "arity" (firstBad arityOk 0 Gen.Externs.decls)
  | "abi" => repX "abi-class" (firstBad abiOk 0 Gen.Externs.decls)
  | "names" => repX "param-type" (firstBad (fun r => (nameDiffs r).isEmpty) 0 Gen.Externs.decls)
  | "wrap" => if Gen.Externs.wrapForwards && Gen.Externs.wrappedNotJetShaped.isEmpty && Gen.Externs.wrapCount == Gen.C.wrapCount
      then "ok" else s!"wrap:{Gen.Externs.wrappedNotJetShaped}"
  | "count" => s!"{Gen.Externs.decls.length}"
  | _ => "bad-op"

def handle : List String → String
  | ["jet", f, i] =>
    match fam? f, i.toNat? with
    | some (F, ci, co), some i => if i < F.rows.length then showRow (F.rows.getD i default) ci co else "no-such-jet"
    | _, _ => "bad-op"
  | ["count", f] =>
    match fam? f with
    | some (F, _, _) => toString F.rows.length
    | none => "bad-op"
  | ["decode", f, bits] =>
    match fam? f, Drv.bits? bits with
    | some (F, _, _), some bs =>
      match F.decode bs with
      | .ok i rest => s!"ok {i} {bs.length - rest.length}"
      | .invalid => "invalid"
      | .eos => "eos"
    | _, _ => "bad-op"
  | ["parse", f, s] =>
    match fam? f with
    | some (F, _, _) => (match F.parse s with | some i => s!"some {i}" | none => "none")
    | none => "bad-op"
  | ["ty", name] => showTy (bytesOfString name)
  | ["pair", i] =>
    match i.toNat? with
    | some i =>
      let kc := K.keys.getD i default
      if i < K.keys.length then
        match elemIdx kc.1 with
        | none => "no-namesake"
        | some j =>
          let ke := E.keys.getD j default
          s!"{j} types={if sameTy kc.2.1 ke.2.1 && sameTy kc.2.2 ke.2.2 then 1 else 0} code={if E.codes.getD j [] == false :: K.codes.getD i [] then 1 else 0}"
      else "no-such-jet"
    | none => "bad-op"
  | ["cjet", i] =>
    match i.toNat? with
    | some i =>
      if i < Gen.C.rows.length then
        let r := Gen.C.rows.getD i default
        let w (s : String) := match ctyOfName (bytesOfString s) with | some t => toString t.bitWidth | none => "invalid"
        s!"name={r.name} cmr={hex64 r.cmr} cost={r.cost} srcw={w r.src} tgtw={w r.tgt}"
      else "no-such-jet"
    | none => "bad-op"
  | ["diag", f, c] =>
    match fam? f with
    | some (F, _, _) => diagFamily F c
    | none => if f == "cross" then diagCross c else if f == "externs" then diagExterns c else "bad-op"
  | _ => "bad-op"

end Drv.C14
