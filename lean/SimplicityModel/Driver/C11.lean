import SimplicityModel.Driver.ValExpr
/-! driver verbs of C11:

    c <tmrA> <tmrB> <exprA> ; <exprB>     `==`, `cmp`, and the FNV-1a hash of what `Hash` writes, of both
    w <tmrA> <tmrB> <nA> <nB> <exprA> ; <exprB>    the same for `Word { value, n }`

`tmrA/B` are the TMRs (hex) of the two values' types as the implementation reports them: the type
key of the model (`ValueCmp.lean`).
-/
namespace Drv.C11
open Vl Drv.VX

def showOrd : Ordering → String
  | .lt => "lt" | .eq => "eq" | .gt => "gt"

def keyOf (ta : Ty) (ka : Nat) (tb : Ty) (kb : Nat) : Ty → Nat :=
  fun t => if t = ta then ka else if t = tb then kb else 0

def handle : List String → String
  | "c" :: ka :: kb :: rest =>
    let (ea, eb) := splitSemi rest
    match hexNat? ka, hexNat? kb, evalAll ea, evalAll eb with
    | some ka, some kb, .ok a, .ok b =>
      let key := keyOf a.ty ka b.ty kb
      s!"eq={if RVal.eqV key a b then 1 else 0} cmp={showOrd (RVal.cmpV key a b)} ha={hex16 (RVal.hashV key a)} hb={hex16 (RVal.hashV key b)}"
    | _, _, .error m, _ => m
    | _, _, _, .error m => m
    | _, _, _, _ => "bad-op"
  | "w" :: ka :: kb :: na :: nb :: rest =>
    let (ea, eb) := splitSemi rest
    match hexNat? ka, hexNat? kb, na.toNat?, nb.toNat?, evalAll ea, evalAll eb with
    | some ka, some kb, some na, some nb, .ok a, .ok b =>
      let key := keyOf a.ty ka b.ty kb
      let wa : WordM := ⟨a, na⟩
      let wb : WordM := ⟨b, nb⟩
      s!"eq={if WordM.eqW key wa wb then 1 else 0} cmp={showOrd (WordM.cmpW key wa wb)} ha={hex16 (WordM.hashW key wa)} hb={hex16 (WordM.hashW key wb)}"
    | _, _, _, _, .error m, _ => m
    | _, _, _, _, _, .error m => m
    | _, _, _, _, _, _ => "bad-op"
  | _ => "bad-op"

end Drv.C11
