import SimplicityModel.Driver.C01
namespace Drv.C02
def handle : List String → String := Drv.C01.handle
end Drv.C02
