import SimplicityModel.Prog.Elab
import SimplicityModel.Prog.Infer
/-! Shared parsing of program operations: `<plan> [W:i:bits] [J:name:in:out|fail] [T:name:src:tgt] [C:name:hex] [I:bits]` -/
namespace Drv.ProgUtil
open Prog

structure Extras where
  wits : List (Nat × List Bool) := []
  jets : List (String × List Bool × Option (List Bool)) := []
  jetTypes : List (String × BM4.Ty × BM4.Ty) := []
  jetCmrs : List (String × Nat) := []
  jetCosts : List (String × Nat) := []
  input : List Bool := []

def parseExtras : List String → Extras → Option Extras
  | [], e => some e
  | t :: ts, e =>
    match t.splitOn ":" with
    | ["W", i, bits] => do
      let i ← i.toNat?; let b ← Drv.bits? bits
      parseExtras ts { e with wits := (i, b) :: e.wits }
    | ["J", name, inp, out] => do
      let i ← Drv.bits? inp
      let o ← if out = "fail" then some none else (Drv.bits? out).map some
      parseExtras ts { e with jets := (name, i, o) :: e.jets }
    | ["T", name, s, t] => do
      let s ← parseTy s; let t ← parseTy t
      parseExtras ts { e with jetTypes := (name, s, t) :: e.jetTypes }
    | ["C", name, h] => do
      let bs ← Drv.hexBytes? h
      parseExtras ts { e with jetCmrs := (name, Sha2.natOfBytes bs) :: e.jetCmrs }
    | ["K", name, c] => do
      let c ← c.toNat?
      parseExtras ts { e with jetCosts := (name, c) :: e.jetCosts }
    | ["I", bits] => do
      let b ← Drv.bits? bits
      parseExtras ts { e with input := b }
    | _ => none

def Extras.jetTy (e : Extras) : JetTypes := fun n =>
  (e.jetTypes.find? (·.1 = n)).map fun (_, s, t) => (s, t)

def Extras.jetCmr (e : Extras) : String → Option Nat := fun n =>
  (e.jetCmrs.find? (·.1 = n)).map (·.2)

def Extras.jetCost (e : Extras) : String → Option Nat := fun n =>
  (e.jetCosts.find? (·.1 = n)).map (·.2)

def Extras.jetSem (e : Extras) : JetSem := fun n inp =>
  (e.jets.find? fun (m, i, _) => m = n ∧ i = inp).map (·.2.2)

def Extras.wit (e : Extras) : Nat → Option (List Bool) := fun i =>
  (e.wits.find? (·.1 = i)).map (·.2)

def arrowText (a : BM4.Ty × BM4.Ty) : String := tyText a.1 ++ ">" ++ tyText a.2

end Drv.ProgUtil
