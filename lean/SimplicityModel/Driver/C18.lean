import SimplicityModel.IterCert
import SimplicityModel.Driver.Util
/-!
driver verbs of C18.  One line = one DAG, one sharing policy, one iterator:

  `<verb> <policy> <maxdepth|-> <n> <node_0> … <node_{n-1}> [<key_0> … <key_{n-1}>]`

* node `i` is `l.<tag>`, `u.<tag>.<j>` or `b.<tag>.<j>.<k>` with `j, k < i`; the root is node `n-1`;
  the tag is a number or `x` (node without a sharing id); pointer identity of node `i` is `i`;
* policy `none` (NoSharing), `ptr` (InternalSharing), `hash` (identity-hash sharing: structurally equal
  sub-DAGs — equal tags, equal children classes — are one class; the classes are computed here),
  `key` (arbitrary tracker: the key of node `i` is `<key_i>`, a number or `-`);
* verbs: `all` (every section below in one answer; `<maxdepth>` applies to the `vcut` section),
  `post` → `PO.run` (the stack machine of `PostOrderIter::next`), `rtl` → `PO.rtlOn` on the
  child-swapped DAG + `unswap`, `pre` → `PO.prun`, `vpre` → `PO.vrun` with the depth limit,
  `shared` → `PO.isSharedAsRun` plus the decidable forms of `RootFresh` / `Congr` for this input.
-/
namespace Drv.C18
open PO

def optNat? (s : String) (none : String) : Option (Option Nat) :=
  if s = none then some Option.none else s.toNat?.map some

def node? (s : String) : Option (Option Nat × Sh) :=
  match s.splitOn "." with
  | ["l", t] => do let t ← optNat? t "x"; pure (t, .leaf)
  | ["u", t, j] => do let t ← optNat? t "x"; let j ← j.toNat?; pure (t, .un j)
  | ["b", t, j, k] => do let t ← optNat? t "x"; let j ← j.toNat?; let k ← k.toNat?; pure (t, .bin j k)
  | _ => none

def all? {α β} (f : α → Option β) : List α → Option (List β)
  | [] => some []
  | a :: r => do let b ← f a; let bs ← all? f r; pure (b :: bs)

def showO : Option Nat → String
  | none => "-"
  | some n => toString n

def showOut (o : Out) : String :=
  s!"{o.node.id}:{o.index}:{showO o.lidx}:{showO o.ridx}"

def showV (v : VItem) : String :=
  s!"{v.node.id}:{showO (v.parent.map T.id)}:{v.index}:{v.depth}:{v.ncy}:{if v.complete then 1 else 0}"

def join (xs : List String) : String :=
  xs.foldl (fun acc x => acc ++ " " ++ x) s!"n={xs.length}"

structure Input where
  n : Nat
  shs : List Sh
  root : T
  mroot : T
  tbl : Array (Option Nat)

def parse (pol : String) (n : String) (rest : List String) : Option Input := do
  let n ← n.toNat?
  if n = 0 then none
  let nodes ← all? node? (rest.take n)
  if nodes.length ≠ n then none
  let shs := nodes.map (·.2)
  if !wellIdxB shs then none
  let root ← (build shs)[n - 1]?
  let mroot ← (build (shs.map mirrorSh))[n - 1]?
  let tbl ← match pol with
    | "none" => some (Array.replicate n none)
    | "ptr" => some ((List.range n).map some).toArray
    | "hash" =>
      -- the class table is checked (`PO.cert_sound`); a table that fails makes the op `bad-op`
      let tbl := classify nodes
      if certB nodes tbl then some tbl else none
    | "key" => do
      let ks ← all? (optNat? · "-") (rest.drop n)
      if ks.length ≠ n then none
      pure ks.toArray
    | _ => none
  pure ⟨n, shs, root, mroot, tbl⟩

def handle : List String → String
  | verb :: pol :: md :: n :: rest =>
    match parse pol n rest, optNat? md "-" with
    | some inp, some md =>
      let key := keyOf inp.tbl
      let b (x : Bool) : Nat := if x then 1 else 0
      let post := fun (_ : Unit) => join ((run key (init inp.root)).map showOut)
      let rtl := fun (_ : Unit) => join ((rtlOn key inp.mroot).map showOut)
      let pre := fun (_ : Unit) => join ((prun key (pinit inp.root)).map fun t => toString t.id)
      let vpre := fun (md : Option Nat) => join ((vrun key md (vinit inp.root)).map showV)
      let shared := fun (_ : Unit) =>
        s!"{b (isSharedAsRun key inp.root)} rf={b (rootFreshB inp.n inp.tbl)} cg={b (congrB inp.shs inp.tbl)}"
      match verb with
      | "all" => s!"post {post ()} | rtl {rtl ()} | pre {pre ()} | vpre {vpre none} | vcut {vpre md} | shared {shared ()}"
      | "post" => post ()
      | "rtl" => rtl ()
      | "pre" => pre ()
      | "vpre" => vpre md
      | "shared" => shared ()
      | _ => "bad-op"
    | _, _ => "bad-op"
  | _ => "bad-op"

end Drv.C18
